/-
General round-trip development (C07 `parse_unparse`), part 3: the round trip of ONE position
of the schema (`PosRT`) and how the round trips of the fields of a record / the elements of
a list compose into the round trip of the record / the list.
-/
import Rpft.Lemmas.RowGenPack
set_option linter.unusedSimpArgs false
set_option linter.unusedVariables false
set_option linter.unusedSectionVars false
namespace Rpft.Row
open Rpft

/-! ### induction over the (nested) schema type -/

section
variable {P : Ty → Prop} (hstr : P .str) (hint : P .int) (hfloat : P .float) (hbool : P .bool)
  (hany : P .anyList) (hlist : ∀ t, P t → P (.list t))
  (hmodel : ∀ fs h2f f2h, (∀ f ∈ fs, P f.2.1) → P (.model fs h2f f2h))
include hstr hint hfloat hbool hany hlist hmodel
mutual
theorem Ty.induct : ∀ t : Ty, P t
  | .str => hstr
  | .int => hint
  | .float => hfloat
  | .bool => hbool
  | .anyList => hany
  | .list t => hlist t (Ty.induct t)
  | .model fs h2f f2h => hmodel fs h2f f2h (Ty.inductFields fs)
theorem Ty.inductFields : ∀ fs : List (Str × Ty × Option Val), ∀ f ∈ fs, P f.2.1
  | [], f, h => by simp at h
  | (n, t, d) :: rest, f, h => by
    rcases List.mem_cons.mp h with rfl | h
    · exact Ty.induct t
    · exact Ty.inductFields rest f h
end
end

/-! ### the round trip of one position -/

/-- the headers of columns given by their paths below the position `segs` -/
def absCols (segs : List Str) (cols : List (List Str × Str)) : Out :=
  cols.map fun c => (keyOf (segs ++ c.1), c.2)

def inlCols (cols : List (List Str × Str)) : List (List Str × ColVal) :=
  cols.map fun c => (c.1, Sum.inl c.2)

/-- Round trip of the value `v : ty` written by `W` at the position `segs`: `W` appends
columns `cols` (paths below `segs`, at least one); parsing them from the empty position
builds a tree `tr` that validates to `v`. -/
def ColsRT (W : Out → Except Err Out) (segs : List Str) (ty : Ty) (v : Val) : Prop :=
  ∃ (cols : List (List Str × Str)) (tr : Tree),
    cols ≠ [] ∧ (∀ c ∈ cols, ∀ s ∈ c.1, SegOk s) ∧ (cols.map (·.1)).Nodup ∧
    (∀ out, Fresh segs out → W out = .ok (out ++ absCols segs cols)) ∧
    pfold ty .none (inlCols cols) = .ok tr ∧ validate ty tr = .ok v ∧
    (isBasicVal v = true → cols = [([], printBasic v)])

def PosRT (lay : Layout) (ty : Ty) (v : Val) (segs : List Str) : Prop :=
  ColsRT (unparseRec lay ty v (pathStr segs)) segs ty v

theorem validate_not_none {ty : Ty} {tr : Tree} {v : Val} (h : validate ty tr = .ok v) :
    tr.isNone = false := by
  cases tr <;> simp [Tree.isNone]
  cases ty <;> simp [validate] at h

theorem absCols_append (segs : List Str) (a b : List (List Str × Str)) :
    absCols segs (a ++ b) = absCols segs a ++ absCols segs b := by simp [absCols]

theorem inlCols_append (a b : List (List Str × Str)) : inlCols (a ++ b) = inlCols a ++ inlCols b := by
  simp [inlCols]

/-- push the columns of a child below its parent -/
def under (m : Str) (cols : List (List Str × Str)) : List (List Str × Str) :=
  cols.map fun c => (m :: c.1, c.2)

theorem absCols_under (segs : List Str) (m : Str) (cols : List (List Str × Str)) :
    absCols segs (under m cols) = absCols (segs ++ [m]) cols := by
  simp [absCols, under, List.map_map, Function.comp]

theorem inlCols_under (m : Str) (cols : List (List Str × Str)) :
    inlCols (under m cols) = prep m (inlCols cols) := by
  simp [inlCols, under, prep, List.map_map, Function.comp]

theorem colsRT_of_pack {W : Out → Except Err Out} {segs : List Str} {ty : Ty} {v : Val}
    (hp : PackRT ty v) (hW : ∀ out, W out = writeValue ty v (pathStr segs) out) :
    ColsRT W segs ty v := by
  obtain ⟨text, tr, hw, hl, hv⟩ := hp
  refine ⟨[([], text)], tr, by simp, by simp, by simp, ?_, ?_, hv, ?_⟩
  · intro out hf
    rw [hW, hw]
    have := fresh_absent hf
    simp only [keyOf] at this
    simp [writeOut, this, absCols, keyOf]
  · simp [pfold, inlCols, foldE, pstep, hl]
  · intro hb
    have := hw [] []
    simp [writeValue, hb, writeOut, alookup] at this
    rw [this]

/-! ### the fields of a record -/

/-- what `unparse_row_recurse` does for one non-default field -/
def fieldW (lay : Layout) (f2h : List (Str × Str)) (segs : List Str) (p : SPair) :
    Out → Except Err Out := fun out =>
  if p.1.1 = remap f2h p.1.1 then
    unparseRec lay p.1.2.1 p.2 (pathStr (segs ++ [remap f2h p.1.1])) out
  else writeValue p.1.2.1 p.2 (pathStr (segs ++ [remap f2h p.1.1])) out

/-- what the induction over the fields delivers -/
def FieldsSpec (lay : Layout) (fs : List Field) (h2f f2h : List (Str × Str)) (segs : List Str)
    (kvs : List (Str × Val)) (pairs : List SPair) (cols : List (List Str × Str))
    (trs : List (Str × Tree)) : Prop :=
  (∀ out : Out, (∀ p ∈ pairs, nonDefault p = true → Fresh (segs ++ [hdr f2h p]) out) →
      unparseFields lay f2h (pathStr segs) (pairs.map (·.1)) kvs out =
        .ok (out ++ absCols segs cols)) ∧
  (∀ c ∈ cols, ∃ p ∈ pairs, nonDefault p = true ∧
      ∃ r, c.1 = hdr f2h p :: r ∧ (∀ s ∈ r, SegOk s) ∧ (hdr f2h p ≠ p.1.1 → r = [])) ∧
  (cols.map (·.1)).Nodup ∧
  (∀ acc, (∀ p ∈ pairs, alookup p.1.1 acc = none) →
      pfold (.model fs h2f f2h) (.dict acc) (inlCols cols) = .ok (.dict (acc ++ trs))) ∧
  (∀ kv ∈ trs, kv.1 ∈ pairs.map (·.1.1) ∧ kv.2.isNone = false) ∧
  (∀ p ∈ pairs, (alookup p.1.1 trs = none ∧ p.1.2.2 = some p.2) ∨
      (∃ tr, alookup p.1.1 trs = some tr ∧ validate p.1.2.1 tr = .ok p.2)) ∧
  (cols = [] → ∀ p ∈ pairs, nonDefault p = false) ∧
  (∀ p ∈ pairs, nonDefault p = true → isBasicVal p.2 = true →
      ([hdr f2h p], printBasic p.2) ∈ cols)

theorem fresh_sibling' {segs : List Str} {m m' : Str} (hm : SegOk m) (hm' : SegOk m')
    (hd : m' ≠ m) (cols : List (List Str × Str)) :
    Fresh (segs ++ [m]) (absCols (segs ++ [m']) cols) := by
  intro kv hkv r e
  obtain ⟨c, _, rfl⟩ := List.mem_map.mp hkv
  simp only [List.append_assoc, List.singleton_append] at e
  apply hd
  cases segs with
  | nil =>
    simp only [List.nil_append, keyOf_cons] at e
    apply pathStr_head_inj hm' hm (r := c.1) (r' := r)
    simp only [pathStr]; rw [e]
  | cons s t => exact pathStr_head_inj hm' hm (keyOf_append_inj (by simp) e)

theorem nodup_under_append {m : Str} {a : List (List Str × Str)} {b : List (List Str × Str)}
    (ha : (a.map (·.1)).Nodup) (hb : (b.map (·.1)).Nodup)
    (hd : ∀ c ∈ b, ∀ r, c.1 ≠ m :: r) : ((under m a ++ b).map (·.1)).Nodup := by
  rw [List.map_append]
  refine List.nodup_append.mpr ⟨?_, hb, ?_⟩
  · have : (under m a).map (·.1) = (a.map (·.1)).map (fun r => m :: r) := by
      simp [under, List.map_map, Function.comp]
    rw [this]
    exact nodup_map_inj _ (fun x y e => (List.cons.inj e).2) _ ha
  · intro x hx y hy hxy
    obtain ⟨c, hc, rfl⟩ := List.mem_map.mp hx
    obtain ⟨c', hc', rfl⟩ := List.mem_map.mp hy
    obtain ⟨c0, _, rfl⟩ := List.mem_map.mp hc
    exact hd c' hc' c0.1 hxy.symm

theorem writeValue_single (ty : Ty) (v : Val) (pfx : Str) (out' : Out)
    (h : writeValue ty v pfx [] = .ok out') : ∃ text, out' = [(trimPrefix pfx, text)] := by
  unfold writeValue at h
  split at h
  · simp [writeOut, alookup] at h; exact ⟨_, h.symm⟩
  · split at h
    · cases h
    · split at h
      · cases h
      · simp [writeOut, alookup] at h; exact ⟨_, h.symm⟩

theorem fields_spec (lay : Layout) (he : lay.excluded = []) (fs : List Field)
    (h2f f2h : List (Str × Str)) (segs : List Str) (hsegs : ∀ s ∈ segs, SegOk s)
    (kvs : List (Str × Val)) :
    ∀ (pairs : List SPair),
      (pairs.map (·.1.1)).Nodup →
      ((pairs.filter nonDefault).map (hdr f2h)).Nodup →
      (∀ p ∈ pairs, alookup p.1.1 kvs = some p.2 ∧ (nonDefault p = true →
        SegOk (hdr f2h p) ∧ remap h2f (hdr f2h p) = p.1.1 ∧ fieldLookup p.1.1 fs = some p.1 ∧
        ColsRT (fieldW lay f2h segs p) (segs ++ [hdr f2h p]) p.1.2.1 p.2)) →
      ∃ cols trs, FieldsSpec lay fs h2f f2h segs kvs pairs cols trs
  | [], _, _, _ => by
    refine ⟨[], [], ?_, ?_, ?_, ?_, ?_, ?_, ?_, ?_⟩
    · intro out _; simp [unparseFields, absCols]
    · intro c h; simp at h
    · simp
    · intro acc _; simp [inlCols, pfold, foldE]
    · intro kv h; simp at h
    · intro p h; simp at h
    · intro _ p h; simp at h
    · intro p h; simp at h
  | ((n, ty, d), v) :: rest, hnd, hhd, hp => by
    have hnd' : (rest.map (·.1.1)).Nodup := (List.nodup_cons.mp hnd).2
    have hn_notin : n ∉ rest.map (·.1.1) := (List.nodup_cons.mp hnd).1
    obtain ⟨hlook, hrt⟩ := hp ((n, ty, d), v) (by simp)
    cases hdef : nonDefault ((n, ty, d), v) with
    | false =>
      have hhd' : ((rest.filter nonDefault).map (hdr f2h)).Nodup := by
        simpa [List.filter, hdef] using hhd
      obtain ⟨cols', trs', hU', hK', hN', hP', hT', hV', hE', hB'⟩ :=
        fields_spec lay he fs h2f f2h segs hsegs kvs rest hnd' hhd'
          (fun p hp' => hp p (List.mem_cons_of_mem _ hp'))
      have hisdef : isDefault d v = true := by simpa [nonDefault] using hdef
      have hlook_trs' : alookup n trs' = none := by
        rw [alookup_none_iff]
        intro hm
        obtain ⟨kv, hkv, hkn⟩ := List.mem_map.mp hm
        exact hn_notin (hkn ▸ (hT' kv hkv).1)
      refine ⟨cols', trs', ?_, ?_, hN', ?_, ?_, ?_, ?_, ?_⟩
      · intro out hout
        simp only [List.map_cons, unparseFields, hlook, hisdef, if_true]
        exact hU' out (fun p hp' => hout p (List.mem_cons_of_mem _ hp'))
      · intro c hc
        obtain ⟨p, hp', h⟩ := hK' c hc
        exact ⟨p, List.mem_cons_of_mem _ hp', h⟩
      · intro acc hk
        exact hP' acc (fun p hp' => hk p (List.mem_cons_of_mem _ hp'))
      · intro kv hkv
        exact ⟨List.mem_cons_of_mem _ (hT' kv hkv).1, (hT' kv hkv).2⟩
      · intro p hp'
        simp only [List.mem_cons] at hp'
        rcases hp' with rfl | hp'
        · left
          refine ⟨hlook_trs', ?_⟩
          simpa [isDefault] using hisdef
        · exact hV' p hp'
      · intro hc p hp'
        simp only [List.mem_cons] at hp'
        rcases hp' with rfl | hp'
        · exact hdef
        · exact hE' hc p hp'
      · intro p hp' hpn hpb
        simp only [List.mem_cons] at hp'
        rcases hp' with rfl | hp'
        · rw [hdef] at hpn; cases hpn
        · exact hB' p hp' hpn hpb
    | true =>
      have hfil : (((n, ty, d), v) :: rest).filter nonDefault =
          ((n, ty, d), v) :: rest.filter nonDefault := by simp [List.filter, hdef]
      rw [hfil, List.map_cons, List.nodup_cons] at hhd
      obtain ⟨hm_notin, hhd'⟩ := hhd
      obtain ⟨cols', trs', hU', hK', hN', hP', hT', hV', hE', hB'⟩ :=
        fields_spec lay he fs h2f f2h segs hsegs kvs rest hnd' hhd'
          (fun p hp' => hp p (List.mem_cons_of_mem _ hp'))
      obtain ⟨hsm, hback, hfl, colsP, tr, hne, hS, hN, hU, hP, hVal, hBas⟩ := hrt hdef
      have hisdef : isDefault d v = false := by simpa [nonDefault] using hdef
      have hmne : ∀ q ∈ rest, nonDefault q = true → hdr f2h q ≠ hdr f2h ((n, ty, d), v) := by
        intro q hq hqn e
        exact hm_notin (e ▸ List.mem_map_of_mem (f := hdr f2h) (List.mem_filter.mpr ⟨hq, hqn⟩))
      have hlook_trs' : alookup n trs' = none := by
        rw [alookup_none_iff]
        intro hm
        obtain ⟨kv, hkv, hkn⟩ := List.mem_map.mp hm
        exact hn_notin (hkn ▸ (hT' kv hkv).1)
      refine ⟨under (hdr f2h ((n, ty, d), v)) colsP ++ cols', (n, tr) :: trs',
        ?_, ?_, ?_, ?_, ?_, ?_, ?_, ?_⟩
      · intro out hout
        simp only [List.map_cons, unparseFields, hlook, hisdef, Bool.false_eq_true, if_false]
        have hfw : (if n = remap f2h n then
              unparseRec lay ty v (pathStr segs ++ '.' :: remap f2h n) out
            else if matchesHeaders (pathStr segs ++ '.' :: remap f2h n) lay.excluded = true then
              Except.ok out
            else writeValue ty v (pathStr segs ++ '.' :: remap f2h n) out) =
            fieldW lay f2h segs ((n, ty, d), v) out := by
          simp only [fieldW, pathStr_snoc, he, matchesHeaders_nil, Bool.false_eq_true, if_false]
        rw [hfw, hU out (hout _ (by simp) hdef)]
        simp only
        rw [hU' (out ++ absCols (segs ++ [hdr f2h ((n, ty, d), v)]) colsP)]
        · rw [absCols_append, absCols_under, List.append_assoc]
        · intro q hq hqn
          apply fresh_append (hout q (List.mem_cons_of_mem _ hq) hqn)
          have hq' := (hp q (List.mem_cons_of_mem _ hq)).2 hqn
          exact fresh_sibling' hq'.1 hsm (hmne q hq hqn).symm colsP
      · intro c hc
        rcases List.mem_append.mp hc with h | h
        · obtain ⟨c0, hc0, rfl⟩ := List.mem_map.mp h
          refine ⟨((n, ty, d), v), by simp, hdef, c0.1, rfl, hS c0 hc0, ?_⟩
          intro hrm
          have hne' : ¬ n = remap f2h n := fun e => hrm e.symm
          have h0 := hU [] (by intro kv hkv; simp at hkv)
          simp only [fieldW, hne', if_false, List.nil_append] at h0
          obtain ⟨text, ht⟩ := writeValue_single _ _ _ _ h0
          cases colsP with
          | nil => exact absurd rfl hne
          | cons c1 cs =>
            cases cs with
            | cons c2 cs' => simp [absCols] at ht
            | nil =>
              simp only [List.mem_singleton] at hc0
              subst hc0
              simp only [absCols, List.map_cons, List.map_nil, List.cons.injEq, Prod.mk.injEq,
                and_true] at ht
              have hso : ∀ x ∈ segs ++ [hdr f2h ((n, ty, d), v)], SegOk x := by
                intro x hx
                rcases List.mem_append.mp hx with h | h
                · exact hsegs x h
                · simp only [List.mem_singleton] at h; subst h; exact hsm
              have := keyOf_inj (p := (segs ++ [hdr f2h ((n, ty, d), v)]) ++ c0.1)
                (q := segs ++ [hdr f2h ((n, ty, d), v)]) (by simp) (by simp)
                (by
                  intro x hx
                  rcases List.mem_append.mp hx with h | h
                  · exact hso x h
                  · exact hS c0 (by simp) x h)
                hso (by simpa [keyOf, hdr] using ht.1)
              simpa using this
        · obtain ⟨p, hp', h'⟩ := hK' c h
          exact ⟨p, List.mem_cons_of_mem _ hp', h'⟩
      · apply nodup_under_append hN hN'
        intro c hc r e
        obtain ⟨q, hq, hqn, r', e', _⟩ := hK' c hc
        rw [e'] at e
        exact hmne q hq hqn (List.cons.inj e).1
      · intro acc hk
        have hkn : alookup n acc = none := hk ((n, ty, d), v) (by simp)
        rw [inlCols_append, pfold_append, inlCols_under]
        cases hcp : inlCols colsP with
        | nil => simp [inlCols] at hcp; exact absurd hcp hne
        | cons c cs =>
          have hb := pfold_model_block fs h2f f2h acc (hdr f2h ((n, ty, d), v)) n ty d hback hfl hkn
            cs c none
          simp only [st, Option.getD_none] at hb
          rw [hb, ← hcp, hP]
          simp only
          have h2 := hP' (acc ++ [(n, tr)]) (by
            intro p hp'
            rw [alookup_append, hk p (List.mem_cons_of_mem _ hp')]
            have hne' : n ≠ p.1.1 := fun e =>
              hn_notin (e ▸ List.mem_map_of_mem (f := fun q : SPair => q.1.1) hp')
            simp [alookup, hne'])
          rw [h2]
          simp
      · intro kv hkv
        simp only [List.mem_cons] at hkv
        rcases hkv with rfl | hkv
        · exact ⟨by simp, validate_not_none hVal⟩
        · exact ⟨List.mem_cons_of_mem _ (hT' kv hkv).1, (hT' kv hkv).2⟩
      · intro p hp'
        simp only [List.mem_cons] at hp'
        rcases hp' with rfl | hp'
        · right
          exact ⟨tr, by simp [alookup], hVal⟩
        · have hne' : n ≠ p.1.1 := fun e =>
            hn_notin (e ▸ List.mem_map_of_mem (f := fun q : SPair => q.1.1) hp')
          simpa [alookup, hne'] using hV' p hp'
      · intro hc
        exfalso
        cases colsP with
        | nil => exact hne rfl
        | cons c cs => simp [under] at hc
      · intro p hp' hpn hpb
        simp only [List.mem_cons] at hp'
        rcases hp' with rfl | hp'
        · apply List.mem_append_left
          rw [hBas hpb]
          simp [under]
        · exact List.mem_append_right _ (hB' p hp' hpn hpb)

end Rpft.Row
