/-
What the parser's operations do to the scope (stack of open blocks, row ids, node names): the
operations on the arena leave it alone and never remove a node.
-/
import Rpft.Lemmas.CompileInsertTwin
set_option linter.unusedSimpArgs false
set_option linter.unusedVariables false
namespace Rpft.Compile
open Rpft Function

/-- the operation leaves the scope alone and removes no node -/
structure Keeps {α} (m : M α) : Prop where
  k : ∀ s, wp m s (fun _ t => SEq s t ∧ s.nodes.size ≤ t.nodes.size)

theorem Keeps.of_ro {α} {m : M α} (h : ReadOnly m) : Keeps m :=
  ⟨fun s => wp_ro h s _ (fun _ => ⟨SEq.refl s, Nat.le_refl _⟩)⟩

theorem Keeps.pure {α} (a : α) : Keeps (pure a : M α) := ⟨fun s => by
  rw [wp_pure]; exact ⟨SEq.refl s, Nat.le_refl _⟩⟩

theorem Keeps.fail {α} (e : Err) : Keeps (fail e : M α) := ⟨fun s => by rw [wp_fail]; trivial⟩

theorem Keeps.bind {α β} {m : M α} {f : α → M β} (h1 : Keeps m) (h2 : ∀ a, Keeps (f a)) : Keeps (m >>= f) := by
  constructor
  intro s
  rw [wp_bind]
  refine wp_mono (h1.k s) ?_
  intro a s1 e1
  refine wp_mono ((h2 a).k s1) ?_
  intro b s2 e2
  exact ⟨e1.1.trans e2.1, Nat.le_trans e1.2 e2.2⟩

theorem Keeps.forM {β} (l : List β) (f : β → M PUnit) (hf : ∀ x ∈ l, Keeps (f x)) : Keeps (l.forM f) := by
  constructor
  intro s
  exact wp_forM (fun t => SEq s t ∧ s.nodes.size ≤ t.nodes.size) l f (by
    intro x hx s1 h1
    refine wp_mono ((hf x hx).k s1) ?_
    intro _ s2 h2
    exact ⟨h1.1.trans h2.1, Nat.le_trans h1.2 h2.2⟩) s ⟨SEq.refl s, Nat.le_refl _⟩

theorem Keeps.of_bump {α} {m : M α} (h : ∀ s, wp m s (fun _ t => ∃ k, Bump s t k)) : Keeps m := by
  constructor
  intro s
  refine wp_mono (h s) ?_
  intro _ t ⟨k, hk⟩
  rw [hk]
  exact ⟨⟨rfl, rfl, rfl⟩, Nat.le_refl _⟩

theorem keeps_fresh : Keeps fresh := ⟨fun s => by rw [wp_fresh']; exact ⟨⟨rfl, rfl, rfl⟩, Nat.le_refl _⟩⟩
theorem keeps_getNode (i : Nat) : Keeps (getNode i) := Keeps.of_ro (ro_getNode i)
theorem keeps_getGrp (i : Nat) : Keeps (getGrp i) := Keeps.of_ro (ro_getGrp i)
theorem keeps_setNode (i : Nat) (n : NodeM) : Keeps (setNode i n) := ⟨fun s => by
  rw [wp_setNode]; exact ⟨⟨rfl, rfl, rfl⟩, by simp⟩⟩
theorem keeps_setGrp (i : Nat) (g : Grp) : Keeps (setGrp i g) := ⟨fun s => by
  rw [wp_setGrp]; exact ⟨⟨rfl, rfl, rfl⟩, Nat.le_refl _⟩⟩
theorem keeps_addNode (n : NodeM) : Keeps (addNode n) := ⟨fun s => by
  rw [wp_addNode]; exact ⟨⟨rfl, rfl, rfl⟩, by simp⟩⟩
theorem keeps_addGrp (g : Grp) : Keeps (addGrp g) := ⟨fun s => by
  rw [wp_addGrp]; exact ⟨⟨rfl, rfl, rfl⟩, Nat.le_refl _⟩⟩
theorem keeps_newSwitch (o : Str) (rn : Option Str) (w : Option Nat) : Keeps (newSwitch o rn w) :=
  Keeps.of_bump fun s => wp_mono (newSwitch_spec o rn w s) (fun _ _ ⟨k, hk, _⟩ => ⟨k, hk⟩)
theorem keeps_newRouterNode (u : Uid) (k : NodeKind) (r : RouterM) : Keeps (newRouterNode u k r) := ⟨fun s => by
  rw [wp_newRouterNode]; exact ⟨⟨rfl, rfl, rfl⟩, Nat.le_refl _⟩⟩
theorem keeps_addChoice (r : SwitchR) (var type : Str) (args : List (Option Str)) (catName : Str)
    (dest : Dest) (isDefault : Bool) : Keeps (addChoice r var type args catName dest isDefault) :=
  Keeps.of_bump fun s => wp_mono (addChoice_spec r var type args catName dest isDefault s) (fun _ _ ⟨k, hk, _⟩ => ⟨k, hk⟩)
theorem keeps_randomAddChoice (r : RandomR) (name : Str) (dest : Dest) : Keeps (randomAddChoice r name dest) :=
  Keeps.of_bump fun s => wp_mono (randomAddChoice_spec r name dest s) (fun _ _ ⟨k, hk, _⟩ => ⟨k, hk⟩)

/-- leaves: what is known already (extended below, lemma by lemma) -/
syntax "keeps_leaf" : tactic
macro_rules | `(tactic| keeps_leaf) => `(tactic| first
  | exact Keeps.pure _ | exact Keeps.fail _ | assumption
  | exact keeps_fresh | exact keeps_getNode _ | exact keeps_getGrp _ | exact keeps_setNode _ _
  | exact keeps_setGrp _ _ | exact keeps_addNode _ | exact keeps_addGrp _ | exact keeps_newSwitch _ _ _
  | exact keeps_newRouterNode _ _ _ | exact keeps_addChoice _ _ _ _ _ _ _ | exact keeps_randomAddChoice _ _ _
  | exact Keeps.of_ro (ro_hasLoose _ _) | exact Keeps.of_ro (ro_groupOfEdge _) | exact Keeps.of_ro ro_fuelOf
  | exact Keeps.of_ro (ro_lookupRow _) | exact Keeps.of_ro (ro_entryNode _ _) | exact Keeps.of_ro ro_mostRecent)

/-- bind, branch and close with what is known -/
macro "keeps" : tactic => `(tactic| repeat' (first
  | (with_reducible keeps_leaf) | (with_reducible apply Keeps.bind) | intro _ | split | dsimp only))

theorem keeps_connectNode (i : Nat) (d : Dest) : Keeps (connectNode i d) := by
  unfold connectNode; keeps
macro_rules | `(tactic| keeps_leaf) => `(tactic| exact keeps_connectNode _ _)

theorem keeps_connectLoose (d : Dest) : ∀ fuel g, Keeps (connectLoose fuel g d) := by
  intro fuel
  induction fuel with
  | zero => intro g; unfold connectLoose; keeps
  | succ f ih =>
    intro g
    unfold connectLoose
    keeps
    · exact Keeps.forM _ _ (fun x _ => ih x.1)
    · exact Keeps.forM _ _ (fun x _ => ih x)
macro_rules | `(tactic| keeps_leaf) => `(tactic| exact keeps_connectLoose _ _ _)

theorem keeps_updSwitch (i : Nat) (f : SwitchR → M SwitchR) (hf : ∀ r, Keeps (f r)) : Keeps (updSwitch i f) := by
  unfold updSwitch; keeps
  exact hf _
macro_rules | `(tactic| keeps_leaf) => `(tactic| apply keeps_updSwitch)

theorem keeps_setCatDestByName (r : SwitchR) (name : Str) (d : Dest) : Keeps (setCatDestByName r name d) := by
  unfold setCatDestByName; keeps
macro_rules | `(tactic| keeps_leaf) => `(tactic| exact keeps_setCatDestByName _ _ _)

theorem keeps_setDfltM (d : Dest) (r : SwitchR) : Keeps (setDfltM d r) := by unfold setDfltM; keeps
macro_rules | `(tactic| keeps_leaf) => `(tactic| exact keeps_setDfltM _ _)

theorem keeps_rowExitBlank (i : Nat) (n : NodeM) (d : Dest) : Keeps (rowExitBlank i n d) := by
  unfold rowExitBlank; keeps
macro_rules | `(tactic| keeps_leaf) => `(tactic| exact keeps_rowExitBlank _ _ _)

theorem keeps_rowExitEnter (i : Nat) (c : Cond) (d : Dest) : Keeps (rowExitEnter i c d) := by
  unfold rowExitEnter; keeps
macro_rules | `(tactic| keeps_leaf) => `(tactic| exact keeps_rowExitEnter _ _ _)

theorem keeps_rowExitHook (i : Nat) (c : Cond) (d : Dest) : Keeps (rowExitHook i c d) := by
  unfold rowExitHook; keeps
macro_rules | `(tactic| keeps_leaf) => `(tactic| exact keeps_rowExitHook _ _ _)

theorem keeps_rowExitNoResp (i : Nat) (n : NodeM) (d : Dest) : Keeps (rowExitNoResp i n d) := by
  unfold rowExitNoResp; keeps
macro_rules | `(tactic| keeps_leaf) => `(tactic| exact keeps_rowExitNoResp _ _ _)

theorem keeps_attachRowNode (g : Nat) (nodes : List Nat) (rowType : Str) (rn : NodeM) :
    Keeps (attachRowNode g nodes rowType rn) := by
  unfold attachRowNode; keeps
macro_rules | `(tactic| keeps_leaf) => `(tactic| exact keeps_attachRowNode _ _ _ _)

theorem keeps_routerBehind (g : Nat) (nodes : List Nat) (rowType : Str) (i : Nat) (n : NodeM)
    (operandV : Str) (waitT : Option Nat) : Keeps (routerBehind g nodes rowType i n operandV waitT) := by
  unfold routerBehind; keeps
macro_rules | `(tactic| keeps_leaf) => `(tactic| exact keeps_routerBehind _ _ _ _ _ _ _)

theorem keeps_nodeAddChoice (i : Nat) (n : NodeM) (operandV ctype : Str) (args : List (Option Str)) (c : Cond)
    (d : Dest) : Keeps (nodeAddChoice i n operandV ctype args c d) := by
  unfold nodeAddChoice; keeps
macro_rules | `(tactic| keeps_leaf) => `(tactic| exact keeps_nodeAddChoice _ _ _ _ _ _ _)

theorem keeps_rowExitCond (g : Nat) (nodes : List Nat) (rowType : Str) (i : Nat) (n : NodeM) (d : Dest)
    (c : Cond) : Keeps (rowExitCond g nodes rowType i n d c) := by
  unfold rowExitCond; keeps
macro_rules | `(tactic| keeps_leaf) => `(tactic| exact keeps_rowExitCond _ _ _ _ _ _ _)

theorem keeps_rowAddExit (g : Nat) (nodes : List Nat) (rowType : Str) (d : Dest) (c : Cond) :
    Keeps (rowAddExit g nodes rowType d c) := by
  unfold rowAddExit; keeps
macro_rules | `(tactic| keeps_leaf) => `(tactic| exact keeps_rowAddExit _ _ _ _ _)

theorem keeps_noopRouterExit (j : Nat) (d : Dest) (c : Cond) : Keeps (noopRouterExit j d c) := by
  unfold noopRouterExit; keeps
macro_rules | `(tactic| keeps_leaf) => `(tactic| exact keeps_noopRouterExit _ _ _)

theorem keeps_connectIfLoose (fuel : Nat) (d : Dest) (ch : Nat) : Keeps (connectIfLoose fuel d ch) := by
  unfold connectIfLoose; keeps
macro_rules | `(tactic| keeps_leaf) => `(tactic| exact keeps_connectIfLoose _ _ _)

theorem keeps_attachNoopRouter (g : Nat) (parents : List (Nat × Cond)) (rn : NodeM) :
    Keeps (attachNoopRouter g parents rn) := by
  unfold attachNoopRouter; keeps
macro_rules | `(tactic| keeps_leaf) => `(tactic| exact keeps_attachNoopRouter _ _ _)

theorem keeps_addExit : ∀ fuel g d c, Keeps (addExit fuel g d c) := by
  intro fuel
  induction fuel with
  | zero => intro g d c; unfold addExit; keeps
  | succ f ih =>
    intro g d c
    unfold addExit
    keeps
    · exact Keeps.forM _ _ (fun x _ => keeps_connectIfLoose _ _ _)
    · exact Keeps.forM _ _ (fun x _ => ih x.1 d x.2)
    · exact Keeps.forM _ _ (fun x _ => ih x.1 _ x.2)
macro_rules | `(tactic| keeps_leaf) => `(tactic| exact keeps_addExit _ _ _ _)

theorem keeps_addRowEdge (d : Dest) (e : Edge) : Keeps (addRowEdge d e) := by
  unfold addRowEdge; keeps
macro_rules | `(tactic| keeps_leaf) => `(tactic| exact keeps_addRowEdge _ _)

theorem keeps_noopEdge (g : Nat) (e : Edge) : Keeps (noopEdge g e) := by
  unfold noopEdge; keeps
macro_rules | `(tactic| keeps_leaf) => `(tactic| exact keeps_noopEdge _ _)

theorem keeps_gotoEdge (ed : Edge × Str) : Keeps (gotoEdge ed) := by
  unfold gotoEdge; keeps
macro_rules | `(tactic| keeps_leaf) => `(tactic| exact keeps_gotoEdge _)

theorem keeps_parseGoto (r : Row) : Keeps (parseGoto r) := by
  unfold parseGoto
  dsimp only
  generalize (if r.dests.length = 1 then List.replicate r.edges.length (r.dests.headD []) else r.dests) = ds
  split
  · exact Keeps.fail _
  · exact Keeps.forM _ _ (fun x _ => keeps_gotoEdge x)

/-! ### operations that may define a row id -/

/-- stack and node names unchanged, no node removed, at most the row id `id` defined -/
def RPostR (id : Str) (s t : St) : Prop :=
  t.stack = s.stack ∧ t.names = s.names ∧ s.nodes.size ≤ t.nodes.size ∧
    ∀ p ∈ t.rowIds, p ∈ s.rowIds ∨ (p.1 = id ∧ id ≠ [])

theorem RPostR.refl (id : Str) (s : St) : RPostR id s s := ⟨rfl, rfl, Nat.le_refl _, fun _ hp => .inl hp⟩

theorem RPostR.trans {id : Str} {s t u : St} (h : RPostR id s t) (h' : RPostR id t u) : RPostR id s u :=
  ⟨h'.1.trans h.1, h'.2.1.trans h.2.1, Nat.le_trans h.2.2.1 h'.2.2.1, fun p hp => by
    rcases h'.2.2.2 p hp with h1 | h1
    · exact h.2.2.2 p h1
    · exact .inr h1⟩

structure KeepsR (id : Str) {α} (m : M α) : Prop where
  k : ∀ s, wp m s (fun _ t => RPostR id s t)

theorem KeepsR.of_keeps {id : Str} {α} {m : M α} (h : Keeps m) : KeepsR id m :=
  ⟨fun s => wp_mono (h.k s) (fun _ t ⟨e, z⟩ => ⟨e.1, e.2.2, z, fun p hp => .inl (e.2.1 ▸ hp)⟩)⟩

theorem KeepsR.pure {id : Str} {α} (a : α) : KeepsR id (pure a : M α) := ⟨fun s => by
  rw [wp_pure]; exact RPostR.refl id s⟩

theorem KeepsR.fail {id : Str} {α} (e : Err) : KeepsR id (fail e : M α) := ⟨fun s => by rw [wp_fail]; trivial⟩

theorem KeepsR.bind {id : Str} {α β} {m : M α} {f : α → M β} (h1 : KeepsR id m) (h2 : ∀ a, KeepsR id (f a)) :
    KeepsR id (m >>= f) := by
  constructor
  intro s
  rw [wp_bind]
  refine wp_mono (h1.k s) ?_
  intro a s1 e1
  refine wp_mono ((h2 a).k s1) ?_
  intro b s2 e2
  exact e1.trans e2

theorem keepsr_get (id : Str) : KeepsR id (get : M St) := ⟨fun s => by rw [wp_get]; exact RPostR.refl id s⟩

theorem keepsr_pushRowId (id : Str) (g : Nat) (hne : ¬ id.isEmpty = true) :
    KeepsR id (modify fun s => { s with rowIds := (id, g) :: s.rowIds } : M PUnit) := ⟨fun s => by
  rw [wp_modify]
  refine ⟨rfl, rfl, Nat.le_refl _, fun p hp => ?_⟩
  simp only [List.mem_cons] at hp
  rcases hp with rfl | hp
  · exact .inr ⟨rfl, fun e => hne (by rw [e]; rfl)⟩
  · exact .inl hp⟩

macro "keepsr" : tactic => `(tactic| repeat' (first
  | exact KeepsR.pure _ | exact KeepsR.fail _ | assumption | exact keepsr_get _ | exact keepsr_pushRowId _ _ ‹_›
  | exact KeepsR.of_keeps (Keeps.of_ro (ro_predGroup _))
  | exact KeepsR.of_keeps (by with_reducible keeps_leaf)
  | (with_reducible apply KeepsR.bind) | intro _ | split | dsimp only))

theorem keepsr_appendGroup (g : Nat) (id : Str) : KeepsR id (appendGroup g id) := by
  unfold appendGroup addRowId; keepsr

theorem keepsr_parseNoop (edges : List Edge) (id : Str) : KeepsR id (parseNoop edges id) := by
  unfold parseNoop; keepsr
  · exact KeepsR.of_keeps (Keeps.forM _ _ (fun x _ => keeps_noopEdge _ x))
  · exact keepsr_appendGroup _ _

theorem keepsr_mergeRow (r : Row) (ex : Nat) (act : Str) : KeepsR r.rowId (mergeRow r ex act) := by
  unfold mergeRow; keepsr

end Rpft.Compile
