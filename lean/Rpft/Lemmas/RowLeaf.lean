/-
`find_entry` calls the leaf assignment only at the type the path leads to: two leaf
functions that agree at that type give the same result (C09: an element of a `*` column
vs. the raw cell of the indexed column).
-/
import Rpft.Lemmas.Row
set_option linter.unusedSimpArgs false
set_option linter.unusedVariables false
namespace Rpft.Row
open Rpft

/-- the type of the entry a path leads to (static walk of the schema) -/
def leafTy : Ty → List Str → Option Ty
  | _, [] => none
  | ty, seg :: rest =>
    if isListTy ty then
      match rest with
      | [] => some (listChild ty)
      | _ :: _ => leafTy (listChild ty) rest
    else
      match ty with
      | .model fs h2f _ =>
        match fieldLookup (remap h2f seg) fs with
        | none => none
        | some f =>
          match rest with
          | [] => some f.2.1
          | _ :: _ => leafTy f.2.1 rest
      | _ => none

theorem findSet_leaf_congr (l₁ l₂ : Ty → Except Err (Option Tree)) :
    ∀ (path : List Str) (ty : Ty) (out : Tree),
      (∀ lt, leafTy ty path = some lt → l₁ lt = l₂ lt) →
      findSet l₁ ty out path = findSet l₂ ty out path
  | [], _, _, _ => by simp [findSet]
  | seg :: rest, ty, out, h => by
    conv => lhs; unfold findSet
    conv => rhs; unfold findSet
    by_cases hl : isListTy ty = true
    · simp only [hl, if_true]
      cases out <;> try rfl
      case pos.list xs =>
        simp only
        cases pyInt seg with
        | none => rfl
        | some k =>
          simp only
          split
          · rfl
          · cases pyIndex _ _ with
            | none => rfl
            | some key =>
              simp only
              cases rest with
              | nil =>
                have := h (listChild ty) (by simp [leafTy, hl])
                simp only [this]
              | cons s r =>
                have ih := findSet_leaf_congr l₁ l₂ (s :: r) (listChild ty)
                  (initChild (listChild ty) ((if (xs.length : Int) ≤ k - 1 then xs ++ [Tree.none] else xs).getD key Tree.none))
                  (fun lt hlt => h lt (by simpa [leafTy, hl] using hlt))
                simp only [ih]
    · simp only [hl, Bool.false_eq_true, if_false]
      cases ty <;> try rfl
      case neg.model fs h2f f2h =>
        simp only
        cases out <;> try rfl
        case dict kvs =>
          simp only
          cases hf : fieldLookup (remap h2f seg) fs with
          | none => rfl
          | some f =>
            simp only
            cases rest with
            | nil =>
              have := h f.2.1 (by simp [leafTy, isListTy, hf])
              simp only [this]
            | cons s r =>
              have ih := findSet_leaf_congr l₁ l₂ (s :: r) f.2.1
                (initChild f.2.1 ((alookup (remap h2f seg) (ensureKey (remap h2f seg) kvs)).getD Tree.none))
                (fun lt hlt => h lt (by simpa [leafTy, isListTy, hf] using hlt))
              simp only [ih]

/-- an element of a `*` column (already parsed: the string `x`) is assigned like the raw cell
`t` of the indexed column, whenever the entry is of a basic type and `t` reads as `x` -/
theorem leafFn_star_eq_cell (x t : Str) (h : parseAsString t = .ok x) (ty : Ty)
    (hb : isBasicTy ty = true) : leafFn (Sum.inr (.atom x)) ty = leafFn (Sum.inl t) ty := by
  cases ty <;> simp [isBasicTy] at hb <;> simp [leafFn, leafValue, isListTy, isModelTy, h]

theorem parseEntry_star_eq_cell (top : Ty) (out : Tree) (key x t : Str)
    (h : parseAsString t = .ok x)
    (hty : ∀ lt, leafTy top (splitDot (getFieldName key)) = some lt → isBasicTy lt = true) :
    parseEntry top out (key, Sum.inr (.atom x)) = parseEntry top out (key, Sum.inl t) := by
  unfold parseEntry
  exact findSet_leaf_congr _ _ _ _ _ (fun lt hlt => leafFn_star_eq_cell x t h lt (hty lt hlt))

end Rpft.Row
