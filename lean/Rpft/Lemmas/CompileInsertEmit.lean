/-
Emission under the simulation: two final states related on their whole arenas emit corresponding
node lists, hence the compiled flows are equal up to the renaming of identifiers.
-/
import Rpft.Lemmas.CompileInsertRun
import Rpft.Lemmas.CompileFinalB
set_option linter.unusedSimpArgs false
set_option linter.unusedVariables false
namespace Rpft.Compile
open Rpft Function

/-- children of a block have larger indices than the block -/
def KidsUp (s : St) : Prop := ∀ (p : Nat) (cs : List Nat), s.groups[p]? = some (Grp.block cs) → ∀ c ∈ cs, p < c

theorem flatMap_congr' {α β : Type} {l : List α} {f g : α → List β} (h : ∀ x ∈ l, f x = g x) :
    l.flatMap f = l.flatMap g := by
  induction l with
  | nil => rfl
  | cons a l ih =>
    simp only [List.flatMap_cons]
    rw [h a (by simp), ih (fun x hx => h x (by simp [hx]))]

theorem filterMap_congr' {α β : Type} {l : List α} {f g : α → Option β} (h : ∀ x ∈ l, f x = g x) :
    l.filterMap f = l.filterMap g := by
  induction l with
  | nil => rfl
  | cons a l ih =>
    simp only [List.filterMap_cons]
    rw [h a (by simp), ih (fun x hx => h x (by simp [hx]))]

theorem kidsUp_of_ginv {s : St} {R : Nat → Prop} (h : GInv R s.groups.size (kidsF s.groups)) : KidsUp s := by
  intro p cs hp c hc
  exact (h.klt p cs c (by simp [kidsF, hp, kids]) hc).1

/-- enough fuel is as good as more fuel -/
theorem emit_fuel {s : St} (hk : KidsUp s) : ∀ (f f' g : Nat), s.groups.size - g < f → s.groups.size - g < f' →
    emit s f g = emit s f' g := by
  intro f
  induction f with
  | zero => intro f' g h; omega
  | succ f ih =>
    intro f' g h1 h2
    cases f' with
    | zero => omega
    | succ f' =>
      unfold emit
      cases hg : s.groups[g]? with
      | none => rfl
      | some grp =>
        cases grp with
        | row _ _ => rfl
        | noop _ r => cases r <;> rfl
        | block cs =>
          simp only []
          have hlt : g < s.groups.size := (Array.getElem?_eq_some_iff.mp hg).1
          apply flatMap_congr'
          intro c hc
          have := hk g cs hg c hc
          exact ih f' c (by omega) (by omega)

variable {P : Params}

theorem emit_sim (ok : P.Ok) {f₁ f₂ : St} (h : ASim P f₁ f₂) (hDG : ∀ j, P.DG j) (hgs : True)
    (hgx : P.sp = true → ∃ ps, f₂.groups[P.gx]? = some (.noop ps none)) :
    ∀ (fuel j : Nat), emit f₂ fuel (P.γ j) = (emit f₁ fuel j).map P.ν := by
  intro fuel
  induction fuel with
  | zero => intro j; rfl
  | succ fuel ih =>
    intro j
    unfold emit
    cases hg : f₁.groups[j]? with
    | none =>
      have hge : f₁.groups.size ≤ j := by
        rcases Nat.lt_or_ge j f₁.groups.size with hlt | hge
        · simp [Array.getElem?_eq_getElem hlt] at hg
        · exact hge
      have := h.gsync (j - f₁.groups.size)
      have e : f₁.groups.size + (j - f₁.groups.size) = j := by omega
      rw [e] at this
      rw [this]
      simp
    | some grp =>
      rw [h.groups j grp (hDG j) hg]
      cases grp with
      | row nodes t => simp [mapGrpAt_row]
      | noop ps r => cases r <;> simp [mapGrpAt_noop]
      | block cs =>
        have hrec : (cs.map P.γ).flatMap (emit f₂ fuel) = (cs.flatMap (emit f₁ fuel)).map P.ν := by
          rw [List.flatMap_map, List.map_flatMap]
          apply flatMap_congr'
          intro c _
          exact ih c
        by_cases hbb : j = P.bx ∧ P.sp = true
        · obtain ⟨hb1, hsp⟩ := hbb
          subst hb1
          rw [mapGrpAt_block_bx P hsp]
          simp only [List.flatMap_cons]
          obtain ⟨ps, hps⟩ := hgx hsp
          have e0 : emit f₂ fuel P.gx = [] := by
            cases fuel with
            | zero => rfl
            | succ k => unfold emit; rw [hps]
          rw [e0, List.nil_append]
          exact hrec
        · have hbb' : j ≠ P.bx ∨ P.sp = false := by
            by_cases h1 : j = P.bx
            · right
              cases hsp : P.sp with
              | false => rfl
              | true => exact absurd ⟨h1, hsp⟩ hbb
            · exact .inl h1
          rw [mapGrpAt_block_ne P hbb']
          exact hrec

/-- the emitted node lists correspond -/
theorem out_sim (ok : P.Ok) {f₁ f₂ : St} (h : ASim P f₁ f₂) (hDN : ∀ i, P.DN i) (hDG : ∀ j, P.DG j)
    (hgx : P.sp = true → ∃ ps, f₂.groups[P.gx]? = some (.noop ps none))
    (hk₁ : KidsUp f₁) (hk₂ : KidsUp f₂) (h0 : P.γ 0 = 0) :
    (emit f₂ (f₂.groups.size + 2) 0).filterMap (fun i => f₂.nodes[i]?) =
      ((emit f₁ (f₁.groups.size + 2) 0).filterMap (fun i => f₁.nodes[i]?)).map (rnNode P.ρ) := by
  have e1 : emit f₁ (f₁.groups.size + 2) 0 = emit f₁ (f₁.groups.size + f₂.groups.size + 2) 0 :=
    emit_fuel hk₁ _ _ 0 (by omega) (by omega)
  have e2 : emit f₂ (f₂.groups.size + 2) 0 = emit f₂ (f₁.groups.size + f₂.groups.size + 2) 0 :=
    emit_fuel hk₂ _ _ 0 (by omega) (by omega)
  have e3 := emit_sim ok h hDG trivial hgx (f₁.groups.size + f₂.groups.size + 2) 0
  rw [h0] at e3
  rw [e1, e2, e3, List.filterMap_map, List.map_filterMap]
  apply filterMap_congr'
  intro i _
  simp only [Function.comp]
  cases hn : f₁.nodes[i]? with
  | some n => rw [h.nodes i n (hDN i) hn]; rfl
  | none =>
    have hge : f₁.nodes.size ≤ i := by
      rcases Nat.lt_or_ge i f₁.nodes.size with hlt | hge
      · simp [Array.getElem?_eq_getElem hlt] at hn
      · exact hge
    have := h.nsync (i - f₁.nodes.size)
    have e : f₁.nodes.size + (i - f₁.nodes.size) = i := by omega
    rw [e] at this
    rw [this]
    simp

end Rpft.Compile
