/-
Assembly, part B: the entry row on both sides, explicitly.
-/
import Rpft.Lemmas.CompileInsertMainA
set_option linter.unusedSimpArgs false
set_option linter.unusedVariables false
set_option linter.unusedSectionVars false
namespace Rpft.Compile
open Rpft Function

/-- the nested parser after the entry row -/
def insA (s₀ : St) (r₁ : Row) (n : NodeM) (kk : Nat) : St := { s₀ with nodes := s₀.nodes.push n, groups := (s₀.groups.push (.block [s₀.groups.size + 1])).push (.row [s₀.nodes.size] r₁.type), stack := [s₀.groups.size], rowIds := if r₁.rowId.isEmpty then [] else [(r₁.rowId, s₀.groups.size + 1)], names := [([], s₀.nodes.size)], next := s₀.next + kk }

/-- the twin after the entry row, in terms of the state `e₂` after the edges into the block -/
def twA (s₀ e₂ : St) (r₁ : Row) : St := { e₂ with groups := (e₂.groups.push (.row [s₀.nodes.size] r₁.type)).setIfInBounds s₀.groups.size (.block [s₀.groups.size + 1, e₂.groups.size]), rowIds := if r₁.rowId.isEmpty then e₂.rowIds else (r₁.rowId, e₂.groups.size) :: e₂.rowIds, names := ([], s₀.nodes.size) :: e₂.names }

theorem rnAct_id (a : Uid × Str) : rnAct id a = a := rfl

theorem idSync_id {s t : St} (h1 : t.noArgs = s.noArgs) (h2 : t.testTypes = s.testTypes) (h3 : t.next = s.next) :
    IdSync id s t := ⟨h1, h2, fun k => by rw [h3]; rfl⟩

/-- the same action / node on both sides -/
theorem same_rowAction {r : Row} {s t s1 t1 : St} {a b : Option (Uid × Str)}
    (hs : IdSync id s t) (h1 : (rowAction r).run s = .ok (a, s1)) (h2 : (rowAction r).run t = .ok (b, t1)) :
    b = a ∧ ∃ k, s1 = { s with next := s.next + k } ∧ t1 = { t with next := t.next + k } := by
  obtain ⟨hb, k, e1, e2⟩ := rowAction_rel (ρ := id) r s t hs a s1 b t1 h1 h2
  refine ⟨?_, k, e1, e2⟩
  rw [hb]; cases a <;> rfl

theorem same_rowNode {r : Row} {act : Option (Uid × Str)} {s t s1 t1 : St} {a b : NodeM}
    (hs : IdSync id s t) (h1 : (rowNode r act).run s = .ok (a, s1)) (h2 : (rowNode r act).run t = .ok (b, t1)) :
    b = a ∧ ∃ k, s1 = { s with next := s.next + k } ∧ t1 = { t with next := t.next + k } := by
  have hact : act.map (rnAct id) = act := by cases act <;> rfl
  have := rowNode_rel (ρ := id) (fun _ _ h => h) r act rfl s t hs a s1 b t1 h1 (by rw [hact]; exact h2)
  obtain ⟨hb, k, e1, e2⟩ := this
  exact ⟨by rw [hb, rnNode_id], k, e1, e2⟩

section
variable {na nt : List Str} {s₀ : St} (hg : Good na nt s₀) {r₁ : Row} (he : EntryRow r₁)

include hg he in
/-- the entry row in the nested parser -/
theorem first_ins {a₁ : St} (h : (parseRow r₁).run (enterSt s₀) = .ok ((), a₁)) :
    ∃ act n k0 k1,
      (rowAction r₁).run (enterSt s₀) = .ok (act, { enterSt s₀ with next := s₀.next + k0 }) ∧
      (rowNode r₁ act).run { enterSt s₀ with next := s₀.next + k0 } =
        .ok (n, { enterSt s₀ with next := s₀.next + k0 + k1 }) ∧
      a₁ = insA s₀ r₁ n (k0 + k1) := by
  have h' := parseRow_entry he h
  obtain ⟨act, s1, n, s2, s3, t', h1, h2, h3, h4, h5⟩ := newRow_run h'
  rw [rowAction_edges] at h1
  rw [rowNode_edges] at h2
  obtain ⟨k0, rfl⟩ := bump_of_rowAction h1
  obtain ⟨k1, rfl⟩ := bump_of_rowNode h2
  refine ⟨act, n, k0, k1, h1, h2, ?_⟩
  -- the edges add nothing
  have hno := edges_noop (.node n.uid) (dropTrivial r₁.edges)
    { enterSt s₀ with next := s₀.next + k0 + k1, nodes := s₀.nodes.push n }
    (fun e hem => (he.2.1 e (mem_dropTrivial hem)).1)
    (by
      show mostRecentIn (s₀.groups.push (.block [])) [s₀.groups.size] = none
      unfold mostRecentIn
      simp [mostRecentIn])
  have e3 : s3 = { enterSt s₀ with next := s₀.next + k0 + k1, nodes := s₀.nodes.push n } := by
    have := run_det h3 hno
    exact this.2
  subst e3
  obtain ⟨b, rest, cs, hst, hgb, ht'⟩ := appendGroup_run h4
  have hb : b = s₀.groups.size := by
    have : [s₀.groups.size] = b :: rest := hst
    injection this with h1 _; exact h1.symm
  subst hb
  have hcs : cs = [] := by
    have : ((s₀.groups.push (Grp.block [])).push (Grp.row [s₀.nodes.size] r₁.type))[s₀.groups.size]? =
        some (.block cs) := hgb
    rw [Array.getElem?_push] at this
    have h1 : ¬ s₀.groups.size = (s₀.groups.push (Grp.block [])).size := by simp
    simp only [h1, if_false] at this
    simp at this
    exact this
  subst hcs
  rw [h5, ht']
  unfold insA enterSt
  simp only [List.nil_append, Array.size_push]
  congr 1
  · apply Array.ext_getElem?
    intro i
    rw [Array.getElem?_setIfInBounds, Array.getElem?_push, Array.getElem?_push, Array.getElem?_push,
      Array.getElem?_push]
    simp only [Array.size_push]
    by_cases h1 : s₀.groups.size = i
    · subst h1
      have : ¬ s₀.groups.size = s₀.groups.size + 1 := by omega
      simp [this]
      omega
    · have h2 : ¬ i = s₀.groups.size := fun e => h1 e.symm
      simp only [h1, h2, if_false]
  · omega

theorem entryRow_retarget {r : Row} (he : EntryRow r) : EntryRow (retargetRow r) := by
  obtain ⟨h0, h1, h2⟩ := he
  refine ⟨?_, ?_, h2⟩
  · intro e
    simp only [retargetRow, List.map_eq_nil_iff] at e
    exact h0 e
  · intro e hem
    simp only [retargetRow, List.mem_map] at hem
    obtain ⟨e0, he0, rfl⟩ := hem
    have := retargetEdge_trivial (h1 e0 he0)
    exact ⟨.inr this.2.1, by rw [this.2.2]; exact (h1 e0 he0).2⟩

include he in
/-- the entry row in the twin -/
theorem first_twin {ps : List (Nat × Cond)} {a₂ : St}
    (h : (parseRow (retargetRow r₁)).run (twO s₀ ps) = .ok ((), a₂)) :
    ∃ act n k0 k1 e₂ t',
      (rowAction r₁).run (twO s₀ ps) = .ok (act, { twO s₀ ps with next := s₀.next + k0 }) ∧
      (rowNode r₁ act).run { twO s₀ ps with next := s₀.next + k0 } =
        .ok (n, { twO s₀ ps with next := s₀.next + k0 + k1 }) ∧
      (ps.forM (fun p => addExit (2 * (s₀.groups.size + 2) + 7) p.1 (.node n.uid) p.2)).run
        (twT s₀ ps n (k0 + k1)) = .ok ((), e₂) ∧
      (appendGroup e₂.groups.size r₁.rowId).run { e₂ with groups := e₂.groups.push (.row [s₀.nodes.size] r₁.type) }
        = .ok ((), t') ∧
      a₂ = { t' with names := ([], s₀.nodes.size) :: t'.names } := by
  have h' := parseRow_entry (entryRow_retarget he) h
  obtain ⟨e, hde, he1, he2⟩ := dropTrivial_retarget_entry he
  have hed : dropTrivial (retargetRow r₁).edges = [e] := hde
  rw [hed] at h'
  obtain ⟨act, s1, n, s2, s3, t', h1, h2, h3, h4, h5⟩ := newRow_run h'
  have h1' : (rowAction r₁).run (twO s₀ ps) = .ok (act, s1) := h1
  have h2' : (rowNode r₁ act).run s1 = .ok (n, s2) := h2
  obtain ⟨k0, rfl⟩ := bump_of_rowAction h1'
  obtain ⟨k1, rfl⟩ := bump_of_rowNode h2'
  have h3' : ([e].forM (addRowEdge (.node n.uid))).run (twT s₀ ps n (k0 + k1)) = .ok ((), s3) := by
    have : twT s₀ ps n (k0 + k1) = { twO s₀ ps with next := s₀.next + k0 + k1, nodes := s₀.nodes.push n } := by
      unfold twT; simp [Nat.add_assoc]
    rw [this]; exact h3
  have hE := twin_entry_edge he1 he2 h3'
  exact ⟨act, n, k0, k1, s3, t', h1', h2', hE, h4, h5⟩

end

end Rpft.Compile
