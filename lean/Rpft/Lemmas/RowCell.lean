/-
Cell-level lemmas for the row round trip: a well-formed two-level value whose strings are
trimmed and template free is read back exactly by `cellParse ∘ joinNested` (uses C08's
`split_join`).
-/
import Rpft.Props.C08
import Rpft.Lemmas.Row
set_option linter.unusedSimpArgs false
set_option linter.unusedVariables false
namespace Rpft.Row
open Rpft Rpft.Cell

theorem pyWs_ok : WsOk pyWs := by constructor <;> decide

/-! ### strings invariant under lstrip / rstrip -/

def LS (s : Str) : Prop := lstrip pyWs s = s
def RS (s : Str) : Prop := rstrip pyWs s = s

theorem LS_append {a b : Str} (ha : LS a) (hb : LS b) : LS (a ++ b) := by
  unfold LS lstrip at *
  cases a with
  | nil => simpa using hb
  | cons c t =>
    have hc : pyWs c = false := by
      cases h : pyWs c with
      | false => rfl
      | true =>
        simp only [List.dropWhile_cons, h, if_true] at ha
        have := congrArg List.length ha
        have hle := (List.dropWhile_sublist pyWs (l := t)).length_le
        simp at this
        omega
    simp [List.dropWhile_cons, hc]

theorem RS_cons_nonempty (c : Char) {s : Str} (hs : RS s) (hne : s ≠ []) : RS (c :: s) := by
  unfold RS at *
  rw [rstrip_cons, hs]
  simp [hne]

theorem RS_append : ∀ {a b : Str}, RS a → RS b → RS (a ++ b)
  | [], b, _, hb => by simpa using hb
  | c :: t, b, ha, hb => by
    by_cases hbn : b = []
    · subst hbn; simpa using ha
    · have hat : RS t ∨ t = [] := by
        by_cases ht : t = []
        · exact Or.inr ht
        · left
          unfold RS at ha ⊢
          rw [rstrip_cons] at ha
          split at ha
          · rename_i h
            split at ha <;> simp at ha
            exact absurd ha ht
          · simpa using ha
      have htb : RS (t ++ b) := by
        rcases hat with h | h
        · exact RS_append h hb
        · subst h; simpa using hb
      exact RS_cons_nonempty c htb (by simp [hbn])

theorem sublist_rstrip (ws : Char → Bool) (s : Str) : (rstrip ws s).Sublist s := by
  induction s with
  | nil => exact List.Sublist.refl _
  | cons c s ih =>
    rw [rstrip_cons]
    split
    · split
      · exact List.nil_sublist _
      · exact List.Sublist.cons_cons c (List.nil_sublist _)
    · exact List.Sublist.cons_cons c ih

theorem LS_RS_of_strip {s : Str} (h : strip pyWs s = s) : LS s ∧ RS s := by
  have h1 : (lstrip pyWs s).length ≤ s.length := (List.dropWhile_sublist pyWs).length_le
  have h2 : (strip pyWs s).length ≤ (lstrip pyWs s).length :=
    (sublist_rstrip pyWs _).length_le
  have hl : lstrip pyWs s = s := by
    have hsub : (lstrip pyWs s).Sublist s := List.dropWhile_sublist pyWs
    apply hsub.eq_of_length
    rw [h] at h2
    omega
  refine ⟨hl, ?_⟩
  unfold RS
  unfold strip at h
  rw [hl] at h
  exact h

theorem LS_esc {s : Str} (h : LS s) : LS (esc s) := by
  unfold LS at *; rw [lstrip_esc pyWs_ok, h]
theorem RS_esc {s : Str} (h : RS s) : RS (esc s) := by
  unfold RS at *; rw [rstrip_esc pyWs_ok, h]

theorem LS_sep0 : LS [sep0] := by unfold LS; decide
theorem RS_sep0 : RS [sep0] := by unfold RS; decide
theorem LS_sep1 : LS [sep1] := by unfold LS; decide
theorem RS_sep1 : RS [sep1] := by unfold RS; decide
theorem LS_nil : LS [] := rfl
theorem RS_nil : RS [] := rfl

theorem LS_joinWith {sep : Str} (hs : LS sep) : ∀ (ps : List Str), (∀ p ∈ ps, LS p) → LS (joinWith sep ps)
  | [], _ => LS_nil
  | [p], h => by simpa [joinWith] using h p (by simp)
  | p :: q :: ps, h => by
    simp only [joinWith]
    exact LS_append (LS_append (h p (by simp)) hs)
      (LS_joinWith hs (q :: ps) (fun x hx => h x (List.mem_cons_of_mem _ hx)))

theorem RS_joinWith {sep : Str} (hs : RS sep) : ∀ (ps : List Str), (∀ p ∈ ps, RS p) → RS (joinWith sep ps)
  | [], _ => RS_nil
  | [p], h => by simpa [joinWith] using h p (by simp)
  | p :: q :: ps, h => by
    simp only [joinWith]
    exact RS_append (RS_append (h p (by simp)) hs)
      (RS_joinWith hs (q :: ps) (fun x hx => h x (List.mem_cons_of_mem _ hx)))

/-- all strings of a two-level value satisfy `P` -/
def ElemAll (P : Str → Prop) : Elem → Prop
  | .atom s => P s
  | .list xs => ∀ x ∈ xs, P x
def CellAll (P : Str → Prop) : Cell → Prop
  | .atom s => P s
  | .list es => ∀ e ∈ es, ElemAll P e

theorem LS_joinElem {e : Elem} (h : ElemAll LS e) : LS (joinElem e) := by
  match e, h with
  | .atom s, h => simpa [joinElem, escapeString_eq_esc] using LS_esc h
  | .list [], _ => simpa [joinElem, joinWith] using LS_nil
  | .list [x], h =>
    simp only [joinElem, escapeString_eq_esc]
    exact LS_append (LS_esc (h x (by simp))) LS_sep1
  | .list (x :: y :: xs), h =>
    simp only [joinElem]
    apply LS_joinWith LS_sep1
    intro p hp
    obtain ⟨a, ha, rfl⟩ := List.mem_map.mp hp
    rw [escapeString_eq_esc]; exact LS_esc (h a ha)

theorem RS_joinElem {e : Elem} (h : ElemAll RS e) : RS (joinElem e) := by
  match e, h with
  | .atom s, h => simpa [joinElem, escapeString_eq_esc] using RS_esc h
  | .list [], _ => simpa [joinElem, joinWith] using RS_nil
  | .list [x], h =>
    simp only [joinElem, escapeString_eq_esc]
    exact RS_append (RS_esc (h x (by simp))) RS_sep1
  | .list (x :: y :: xs), h =>
    simp only [joinElem]
    apply RS_joinWith RS_sep1
    intro p hp
    obtain ⟨a, ha, rfl⟩ := List.mem_map.mp hp
    rw [escapeString_eq_esc]; exact RS_esc (h a ha)

theorem LS_joinCell {c : Cell} (h : CellAll LS c) : LS (joinCell c) := by
  match c, h with
  | .atom s, h => simpa [joinCell, escapeString_eq_esc] using LS_esc h
  | .list [], _ => simpa [joinCell, joinWith] using LS_nil
  | .list [e], h =>
    simp only [joinCell]
    exact LS_append (LS_joinElem (h e (by simp))) LS_sep0
  | .list (e :: f :: es), h =>
    simp only [joinCell]
    apply LS_joinWith LS_sep0
    intro p hp
    obtain ⟨a, ha, rfl⟩ := List.mem_map.mp hp
    exact LS_joinElem (h a ha)

theorem RS_joinCell {c : Cell} (h : CellAll RS c) : RS (joinCell c) := by
  match c, h with
  | .atom s, h => simpa [joinCell, escapeString_eq_esc] using RS_esc h
  | .list [], _ => simpa [joinCell, joinWith] using RS_nil
  | .list [e], h =>
    simp only [joinCell]
    exact RS_append (RS_joinElem (h e (by simp))) RS_sep0
  | .list (e :: f :: es), h =>
    simp only [joinCell]
    apply RS_joinWith RS_sep0
    intro p hp
    obtain ⟨a, ha, rfl⟩ := List.mem_map.mp hp
    exact RS_joinElem (h a ha)

theorem strip_joinCell {c : Cell} (h : CellAll (fun s => strip pyWs s = s) c) :
    strip pyWs (joinCell c) = joinCell c := by
  have hL : CellAll LS c := by
    cases c with
    | atom s => exact (LS_RS_of_strip h).1
    | list es =>
      intro e he
      cases e with
      | atom s => exact (LS_RS_of_strip (h _ he)).1
      | list xs => intro x hx; exact (LS_RS_of_strip (h _ he x hx)).1
  have hR : CellAll RS c := by
    cases c with
    | atom s => exact (LS_RS_of_strip h).2
    | list es =>
      intro e he
      cases e with
      | atom s => exact (LS_RS_of_strip (h _ he)).2
      | list xs => intro x hx; exact (LS_RS_of_strip (h _ he x hx)).2
  unfold strip
  rw [LS_joinCell hL, RS_joinCell hR]

/-! ### characters of a joined cell -/

theorem mem_esc {c : Char} {s : Str} (h : c ∈ esc s) : c = escC ∨ c ∈ s := by
  induction s with
  | nil => simp [esc] at h
  | cons d t ih =>
    rw [esc_cons] at h
    rcases List.mem_append.mp h with h | h
    · unfold escChar at h
      split at h
      · simp at h; rcases h with h | h
        · exact Or.inl h
        · exact Or.inr (by simp [h])
      · simp at h; exact Or.inr (by simp [h])
    · rcases ih h with h | h
      · exact Or.inl h
      · exact Or.inr (List.mem_cons_of_mem _ h)

theorem mem_joinWith {c : Char} {sep : Str} : ∀ {ps : List Str}, c ∈ joinWith sep ps →
    c ∈ sep ∨ ∃ p ∈ ps, c ∈ p
  | [], h => by simp [joinWith] at h
  | [p], h => Or.inr ⟨p, by simp, by simpa [joinWith] using h⟩
  | p :: q :: ps, h => by
    simp only [joinWith] at h
    rcases List.mem_append.mp h with h | h
    · rcases List.mem_append.mp h with h | h
      · exact Or.inr ⟨p, by simp, h⟩
      · exact Or.inl h
    · rcases mem_joinWith h with h | ⟨x, hx, hc⟩
      · exact Or.inl h
      · exact Or.inr ⟨x, List.mem_cons_of_mem _ hx, hc⟩

/-- a character that is none of `\\ | ;` occurs in a joined cell only if it occurs in a string -/
theorem mem_joinElem {c : Char} (h1 : c ≠ escC) (h2 : c ≠ sep1) {e : Elem} (h : c ∈ joinElem e) :
    ¬ ElemAll (fun s => c ∉ s) e := by
  intro hall
  match e, hall with
  | .atom s, hall =>
    simp only [joinElem, escapeString_eq_esc] at h
    rcases mem_esc h with h | h
    · exact h1 h
    · exact hall h
  | .list [], _ => simp [joinElem, joinWith] at h
  | .list [x], hall =>
    simp only [joinElem, escapeString_eq_esc] at h
    rcases List.mem_append.mp h with h | h
    · rcases mem_esc h with h | h
      · exact h1 h
      · exact hall x (by simp) h
    · simp at h; exact h2 h
  | .list (x :: y :: xs), hall =>
    simp only [joinElem] at h
    rcases mem_joinWith h with h | ⟨p, hp, hc⟩
    · simp at h; exact h2 h
    · obtain ⟨a, ha, rfl⟩ := List.mem_map.mp hp
      rw [escapeString_eq_esc] at hc
      rcases mem_esc hc with h | h
      · exact h1 h
      · exact hall a ha h

theorem mem_joinCell {c : Char} (h1 : c ≠ escC) (h0 : c ≠ sep0) (h2 : c ≠ sep1) {v : Cell}
    (h : c ∈ joinCell v) : ¬ CellAll (fun s => c ∉ s) v := by
  intro hall
  match v, hall with
  | .atom s, hall =>
    simp only [joinCell, escapeString_eq_esc] at h
    rcases mem_esc h with h | h
    · exact h1 h
    · exact hall h
  | .list [], _ => simp [joinCell, joinWith] at h
  | .list [e], hall =>
    simp only [joinCell] at h
    rcases List.mem_append.mp h with h | h
    · exact mem_joinElem h1 h2 h (hall e (by simp))
    · simp at h; exact h0 h
  | .list (e :: f :: es), hall =>
    simp only [joinCell] at h
    rcases mem_joinWith h with h | ⟨p, hp, hc⟩
    · simp at h; exact h0 h
    · obtain ⟨a, ha, rfl⟩ := List.mem_map.mp hp
      exact mem_joinElem h1 h2 hc (hall a ha)

/-! ### reading a joined cell back -/

/-- every string of the value is representable (`strOk`) -/
def CellOk (c : Cell) : Prop := CellAll (fun s => strOk s = true) c

theorem cellAll_mono {P Q : Str → Prop} (h : ∀ s, P s → Q s) {c : Cell} (hc : CellAll P c) :
    CellAll Q c := by
  cases c with
  | atom s => exact h s hc
  | list es =>
    intro e he
    cases e with
    | atom s => exact h s (hc _ he)
    | list xs => intro x hx; exact h x (hc _ he x hx)

theorem cell_map_id {c : Cell} (h : CellAll (fun s => strip pyWs s = s) c) :
    Props.C08.normalize pyWs c = c := by
  unfold Props.C08.normalize
  cases c with
  | atom s =>
    have h' : strip pyWs s = s := h
    simp [Cell.map, h']
  | list es =>
    simp only [Cell.map, Cell.list.injEq]
    conv => rhs; rw [← List.map_id es]
    apply List.map_congr_left
    intro e he
    cases e with
    | atom s =>
      have h' : strip pyWs s = s := h _ he
      simp [Elem.map, h']
    | list xs =>
      simp only [Elem.map, id, Elem.list.injEq]
      conv => rhs; rw [← List.map_id xs]
      apply List.map_congr_left
      intro x hx
      exact h _ he x hx

/-- **reading back a joined cell**: `CellParser.parse(join_from_lists(v)) = v` for
well-formed values with representable strings -/
theorem cellParse_joinCell {c : Cell} (hwf : Props.C08.WFCell c) (hok : CellOk c) :
    cellParse (joinCell c) = .ok (PV.ofCell c) := by
  have htrim : CellAll (fun s => strip pyWs s = s) c :=
    cellAll_mono (fun s hs => (strOk_spec hs).1) hok
  have hbrace : (joinCell c).contains '{' = false := by
    simp only [List.contains_eq_mem, decide_eq_false_iff_not]
    intro hm
    exact mem_joinCell (by decide) (by decide) (by decide) hm
      (cellAll_mono (fun s hs => by
        have := (strOk_spec hs).2.1
        simpa using this) hok)
  unfold cellParse
  rw [parseAsString_ok (strip_joinCell htrim) hbrace]
  simp only [bind, Except.bind, pure, Except.pure]
  rw [Props.C08.split_join pyWs_ok c hwf, cell_map_id htrim]

/-! ### `join_from_lists` on two-level values is `joinCell` -/

def elemToNested : Elem → Nested
  | .atom s => .str s
  | .list xs => .list (xs.map .str)

theorem joinNestedTail1_strs : ∀ (xs : List Str), xs ≠ [] →
    joinNestedTail 1 sep1 (xs.map Nested.str) = .ok (joinWith [sep1] (xs.map escapeString))
  | [], h => absurd rfl h
  | [x], _ => by simp [joinNestedTail, joinNested, joinWith]
  | x :: y :: xs, _ => by
    have ih := joinNestedTail1_strs (y :: xs) (by simp)
    simp only [List.map_cons] at ih ⊢
    simp [joinNestedTail, joinNested, joinWith, ih, bind, Except.bind, pure, Except.pure]

theorem joinNested1_elem (e : Elem) : joinNested 1 (elemToNested e) = .ok (joinElem e) := by
  match e with
  | .atom s => simp [elemToNested, joinNested, joinElem]
  | .list [] => simp [elemToNested, joinNested, joinNestedList, joinElem, joinWith]
  | .list [x] =>
    simp [elemToNested, joinNested, joinNestedList, joinElem, bind, Except.bind, pure, Except.pure]
  | .list (x :: y :: xs) =>
    have ih := joinNestedTail1_strs (y :: xs) (by simp)
    simp only [List.map_cons] at ih
    simp [elemToNested, joinNested, joinNestedList, joinElem, joinWith, ih, bind, Except.bind,
      pure, Except.pure]

theorem joinNestedTail0_elems : ∀ (es : List Elem), es ≠ [] →
    joinNestedTail 0 sep0 (es.map elemToNested) = .ok (joinWith [sep0] (es.map joinElem))
  | [], h => absurd rfl h
  | [e], _ => by simp [joinNestedTail, joinNested1_elem, joinWith]
  | e :: f :: es, _ => by
    have ih := joinNestedTail0_elems (f :: es) (by simp)
    simp only [List.map_cons] at ih ⊢
    simp [joinNestedTail, joinNested1_elem, joinWith, ih, bind, Except.bind, pure, Except.pure]

theorem joinNested0_cell (es : List Elem) :
    joinNested 0 (.list (es.map elemToNested)) = .ok (joinCell (.list es)) := by
  match es with
  | [] => simp [joinNested, joinNestedList, joinCell, joinWith]
  | [e] =>
    simp [joinNested, joinNestedList, joinNested1_elem, joinCell, bind, Except.bind, pure, Except.pure]
  | e :: f :: es =>
    have ih := joinNestedTail0_elems (f :: es) (by simp)
    simp only [List.map_cons] at ih
    simp [joinNested, joinNestedList, joinNested1_elem, joinCell, joinWith, ih, bind, Except.bind,
      pure, Except.pure]

theorem joinPacked_cell (es : List Elem) :
    joinPacked (.list (es.map elemToNested)) = .ok (joinCell (.list es)) := by
  simp [joinPacked, joinNested0_cell]

end Rpft.Row
