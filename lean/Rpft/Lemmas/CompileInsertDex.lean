/-
The exit identifier every node constructor stores in the node (used only by router-less nodes) was
drawn from the counter.
-/
import Rpft.Lemmas.CompileInvA3
set_option linter.unusedSimpArgs false
set_option linter.unusedVariables false
namespace Rpft.Compile
open Rpft

theorem below_tid {b k : Nat} (h : k < b) : Below b (tid k) := ⟨k, h, rfl⟩

/-- whatever the first computation does, the rest establishes `Q` -/
theorem wp_skip {α β : Type} (m : M α) (f : α → M β) (s : St) (Q : β → St → Prop)
    (h : ∀ a s1, wp (f a) s1 Q) : wp (m >>= f) s Q := by
  rw [wp_bind]
  exact wp_mono (wp_true m s) (fun a s1 _ => h a s1)

def DexQ : NodeM → St → Prop := fun n s' => Below s'.next n.dexitUid

theorem newRouterNode_dex (u : Uid) (kind : NodeKind) (r : RouterM) (s : St) :
    wp (newRouterNode u kind r) s DexQ := by
  rw [wp_newRouterNode]
  exact below_tid (by simp)

theorem rowNode_dex (r : Row) (act : Option (Uid × Str)) (s : St) : wp (rowNode r act) s DexQ := by
  have hw : ∀ (n : NodeM) (a : Option (Uid × Str)), (n.withAct a).dexitUid = n.dexitUid := by
    intro n a; cases a <;> rfl
  unfold rowNode
  split
  · split
    · unfold basicNode
      refine wp_skip _ _ _ _ fun u s1 => ?_
      rw [wp_bind, wp_newBasic, wp_pure]
      show Below _ _
      rw [hw]; exact below_tid (by simp)
    split
    · unfold enterNode
      refine wp_skip _ _ _ _ fun u s1 => wp_skip _ _ _ _ fun au s2 => wp_skip _ _ _ _ fun sw s3 => ?_
      refine wp_skip _ _ _ _ fun sw1 s4 => wp_skip _ _ _ _ fun sw2 s5 => ?_
      rw [wp_bind, wp_newRouterNode, wp_pure]
      exact below_tid (by simp)
    split
    · unfold hookNode
      refine wp_skip _ _ _ _ fun u s1 => ?_
      split
      · rw [wp_fail]; trivial
      · refine wp_skip _ _ _ _ fun sw s3 => wp_skip _ _ _ _ fun sw1 s4 => ?_
        rw [wp_bind, wp_newRouterNode, wp_bind, wp_fresh', wp_pure]
        exact below_tid (by simp; omega)
    split
    · unfold waitNode
      refine wp_skip _ _ _ _ fun u s1 => ?_
      have key : ∀ (w : Nat) (s2 : St), wp (do
          let sw ← newSwitch "@input.text".toList (some r.saveName) (some w)
          newRouterNode u NodeKind.switch (RouterM.sw sw)) s2 DexQ :=
        fun w s2 => wp_skip _ _ _ _ fun sw s3 => newRouterNode_dex _ _ _ _
      dsimp only
      split
      · rw [wp_bind, wp_pure]; exact key _ _
      · split
        · rw [wp_bind, wp_pure]; exact key _ _
        · rw [wp_bind, wp_fail]; trivial
    split
    · unfold splitValueNode
      refine wp_skip _ _ _ _ fun u s1 => ?_
      split
      · rw [wp_fail]; trivial
      · exact wp_skip _ _ _ _ fun sw s3 => newRouterNode_dex _ _ _ _
    split
    · unfold splitGroupNode
      exact wp_skip _ _ _ _ fun u s1 => wp_skip _ _ _ _ fun sw s3 => newRouterNode_dex _ _ _ _
    split
    · unfold splitRandomNode
      exact wp_skip _ _ _ _ fun u s1 => newRouterNode_dex _ _ _ _
    · unfold otherNode
      refine wp_skip _ _ _ _ fun u s1 => ?_
      rw [wp_bind, wp_fresh', wp_pure]
      show Below _ _
      rw [hw]; exact below_tid (by simp)
  · rw [wp_fail]; trivial

end Rpft.Compile
