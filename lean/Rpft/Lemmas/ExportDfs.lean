/-
Helper lemmas for C17 / C04: the DFS of `_to_rows_recurse` produces pairwise distinct temp ids
(invariant: every row with an `inl u` id belongs to a completed node, every `inr k` id is older
than the fresh counter, completed ⊆ visited; a node is completed only if it was not visited
before the call that completes it).
-/
import Rpft.Lemmas.ExportIds
import Std.Data.String.ToNat
set_option linter.unusedSimpArgs false
set_option linter.unusedVariables false
set_option linter.unusedSectionVars false
namespace Rpft.Export
open Function

variable {U : Type} [DecidableEq U]

theorem natStr_inj {i j : Nat} (h : natStr i = natStr j) : i = j :=
  Nat.repr_inj.1 (String.toList_inj.1 h)

theorem rowId_inj (n : NodeX U) {i j : Nat} (h : rowId n i = rowId n j) : i = j := by
  simp only [rowId, Prod.mk.injEq, true_and] at h
  by_cases hi : i = 0 <;> by_cases hj : j = 0
  · omega
  · simp only [hi, hj, if_true, if_false] at h
    have := List.self_eq_append_right.1 h
    cases this
  · simp only [hi, hj, if_true, if_false] at h
    have := List.self_eq_append_right.1 h.symm
    cases this
  · simp only [hi, hj, if_false] at h
    have := List.append_cancel_left h
    simp only [List.cons.injEq, true_and] at this
    exact natStr_inj this

theorem mkRowsFrom_ids (n : NodeX U) (rs : List (Payload × Option U)) :
    ∀ (i : Nat) (pe : EdgeT U), ∀ r ∈ mkRowsFrom n i pe rs, ∃ j, i ≤ j ∧ r.id = rowId n j := by
  induction rs with
  | nil => intro i pe r hr; cases hr
  | cons x rs ih =>
    intro i pe r hr
    obtain ⟨p, o⟩ := x
    simp only [mkRowsFrom, List.mem_cons] at hr
    cases hr with
    | inl h => exact ⟨i, Nat.le_refl _, by rw [h]⟩
    | inr h =>
      obtain ⟨j, hj, e⟩ := ih (i + 1) _ r h
      exact ⟨j, by omega, e⟩

theorem mkRowsFrom_nodup (n : NodeX U) (rs : List (Payload × Option U)) :
    ∀ (i : Nat) (pe : EdgeT U), ((mkRowsFrom n i pe rs).map (·.id)).Nodup := by
  induction rs with
  | nil => intro i pe; simp [mkRowsFrom]
  | cons x rs ih =>
    intro i pe
    obtain ⟨p, o⟩ := x
    simp only [mkRowsFrom, List.map_cons, List.nodup_cons]
    refine ⟨?_, ih _ _⟩
    intro hm
    obtain ⟨r, hr, e⟩ := List.mem_map.1 hm
    obtain ⟨j, hj, e2⟩ := mkRowsFrom_ids n rs (i + 1) _ r hr
    have := rowId_inj n (e2.symm.trans e)
    omega

theorem mkRows_id_fst (n : NodeX U) (pe : EdgeT U) : ∀ r ∈ mkRows n pe, r.id.1 = .inl n.uuid := by
  intro r hr
  obtain ⟨j, _, e⟩ := mkRowsFrom_ids n n.rows 0 pe r hr
  rw [e]; rfl

/-- invariant of the DFS state -/
def RowsOk (st : St U) : Prop :=
  (st.rows.map (·.id)).Nodup ∧
  (∀ r ∈ st.rows, (∀ u, r.id.1 = .inl u → u ∈ st.completed) ∧ (∀ k, r.id.1 = .inr k → k < st.fresh)) ∧
  (∀ u ∈ st.completed, u ∈ st.visited)

/-- what a call may change -/
def Post (st st' : St U) : Prop :=
  (∀ u ∈ st.visited, u ∈ st'.visited) ∧ (∀ u ∈ st'.completed, u ∈ st.completed ∨ u ∉ st.visited)

theorem Post.refl' {st st' : St U} (hv : st'.visited = st.visited) (hc : st'.completed = st.completed) : Post st st' := by
  constructor
  · intro u hu; rw [hv]; exact hu
  · intro u hu; rw [hc] at hu; exact Or.inl hu

theorem Post.trans {a b c : St U} (h1 : Post a b) (h2 : Post b c) : Post a c := by
  constructor
  · intro u hu; exact h2.1 u (h1.1 u hu)
  · intro u hu
    cases h2.2 u hu with
    | inl h => exact h1.2 u h
    | inr h => exact Or.inr (fun hv => h (h1.1 u hv))

theorem prependEdge_ids (tid : TempId U) (e : EdgeT U) (rows : List (RowT U)) :
    (prependEdge tid e rows).map (·.id) = rows.map (·.id) := by
  simp only [prependEdge, List.map_map]
  apply List.map_congr_left
  intro r _
  simp only [Function.comp]
  split <;> rfl

theorem prependEdge_mem {tid : TempId U} {e : EdgeT U} {rows : List (RowT U)} {r : RowT U}
    (h : r ∈ prependEdge tid e rows) : ∃ r0 ∈ rows, r.id = r0.id := by
  simp only [prependEdge, List.mem_map] at h
  obtain ⟨r0, h0, e0⟩ := h
  refine ⟨r0, h0, ?_⟩
  rw [← e0]
  split <;> rfl

theorem loop_inv (f : FlowX U) (rc : NodeX U → EdgeT U → St U → Except Err (St U))
    (hrc : ∀ child e s s', child.uuid ∉ s.visited → RowsOk s → rc child e s = .ok s' → RowsOk s' ∧ Post s s')
    (fromId : TempId U) (es : List (Label × Option U)) :
    ∀ st st', RowsOk st → loop f rc fromId es st = .ok st' → RowsOk st' ∧ Post st st' := by
  induction es with
  | nil =>
    intro st st' hok h
    simp only [loop] at h
    cases h
    exact ⟨hok, Post.refl' rfl rfl⟩
  | cons le es ih =>
    intro st st' hok h
    obtain ⟨lab, d⟩ := le
    cases d with
    | none => exact ih st st' hok (by simpa [loop] using h)
    | some d =>
      simp only [loop] at h
      cases hfn : findNode f d with
      | none => simp [hfn] at h
      | some child =>
        simp only [hfn] at h
        by_cases h1 : child.uuid ∈ st.completed
        · simp only [h1, if_true] at h
          have hok1 : RowsOk { st with rows := prependEdge (rowId child 0) ⟨some fromId, lab⟩ st.rows } := by
            obtain ⟨a, b, c⟩ := hok
            refine ⟨by simpa [prependEdge_ids] using a, ?_, c⟩
            intro r hr
            obtain ⟨r0, h0, e0⟩ := prependEdge_mem hr
            rw [e0]
            exact b r0 h0
          obtain ⟨k1, k2⟩ := ih _ st' hok1 h
          exact ⟨k1, (Post.refl' (st := st) rfl rfl).trans k2⟩
        · simp only [h1, if_false] at h
          by_cases h2 : child.uuid ∈ st.visited
          · simp only [h2, if_true] at h
            have hok1 : RowsOk { st with rows := gotoRow st.fresh child ⟨some fromId, lab⟩ :: st.rows, fresh := st.fresh + 1 } := by
              obtain ⟨a, b, c⟩ := hok
              refine ⟨?_, ?_, c⟩
              · simp only [List.map_cons, List.nodup_cons]
                refine ⟨?_, a⟩
                intro hm
                obtain ⟨r, hr, e⟩ := List.mem_map.1 hm
                have := (b r hr).2 st.fresh (by rw [e]; rfl)
                omega
              · intro r hr
                simp only [List.mem_cons] at hr
                cases hr with
                | inl hr =>
                  subst hr
                  refine ⟨?_, ?_⟩
                  · intro u hu; simp [gotoRow] at hu
                  · intro k hk
                    simp only [gotoRow, Sum.inr.injEq] at hk
                    simp only []
                    omega
                | inr hr =>
                  refine ⟨(b r hr).1, ?_⟩
                  intro k hk
                  have := (b r hr).2 k hk
                  simp only []
                  omega
            obtain ⟨k1, k2⟩ := ih _ st' hok1 h
            exact ⟨k1, (Post.refl' (st := st) rfl rfl).trans k2⟩
          · simp only [h2, if_false] at h
            cases hr : rc child ⟨some fromId, lab⟩ st with
            | error e => simp [hr] at h
            | ok s1 =>
              simp only [hr] at h
              obtain ⟨a1, a2⟩ := hrc child _ st s1 h2 hok hr
              obtain ⟨k1, k2⟩ := ih s1 st' a1 h
              exact ⟨k1, a2.trans k2⟩

theorem dfs_inv (f : FlowX U) (fuel : Nat) :
    ∀ (n : NodeX U) (pe : EdgeT U) (st st' : St U), n.uuid ∉ st.visited → RowsOk st →
      dfs f fuel n pe st = .ok st' → RowsOk st' ∧ Post st st' := by
  induction fuel with
  | zero => intro n pe st st' _ _ h; simp [dfs] at h
  | succ fuel ih =>
    intro n pe st st' hnv hok h
    simp only [dfs] at h
    by_cases hr : n.rows = []
    · simp [hr] at h
    · simp only [hr, if_false] at h
      cases hl : loop f (dfs f fuel) (rowId n (n.rows.length - 1)) n.edges.reverse { st with visited := n.uuid :: st.visited } with
      | error e => simp [hl] at h
      | ok st2 =>
        simp only [hl] at h
        cases h
        obtain ⟨a, b, c⟩ := hok
        have hok1 : RowsOk { st with visited := n.uuid :: st.visited } :=
          ⟨a, b, fun u hu => List.mem_cons_of_mem _ (c u hu)⟩
        obtain ⟨⟨a2, b2, c2⟩, p2⟩ := loop_inv f (dfs f fuel) (fun child e s s' => ih child e s s') _ _ _ _ hok1 hl
        have hnc : n.uuid ∉ st2.completed := by
          intro hm
          cases p2.2 _ hm with
          | inl h => exact hnv (c _ h)
          | inr h => exact h (List.mem_cons_self ..)
        refine ⟨⟨?_, ?_, ?_⟩, ?_, ?_⟩
        · simp only [List.map_append, List.nodup_append]
          refine ⟨mkRowsFrom_nodup n n.rows 0 pe, a2, ?_⟩
          intro x hx y hy hxy
          obtain ⟨r, hr, e⟩ := List.mem_map.1 hx
          obtain ⟨r', hr', e'⟩ := List.mem_map.1 hy
          have h1 := mkRows_id_fst n pe r hr
          have := (b2 r' hr').1 n.uuid (by rw [e', ← hxy, ← e, h1])
          exact hnc this
        · intro r hr
          simp only [List.mem_append] at hr
          cases hr with
          | inl hr =>
            have h1 := mkRows_id_fst n pe r hr
            refine ⟨?_, ?_⟩
            · intro u hu
              rw [h1] at hu
              cases hu
              exact List.mem_cons_self ..
            · intro k hk; rw [h1] at hk; cases hk
          | inr hr =>
            exact ⟨fun u hu => List.mem_cons_of_mem _ ((b2 r hr).1 u hu), (b2 r hr).2⟩
        · intro u hu
          simp only [List.mem_cons] at hu
          cases hu with
          | inl hu => subst hu; exact p2.1 _ (List.mem_cons_self ..)
          | inr hu => exact c2 u hu
        · intro u hu
          exact p2.1 u (List.mem_cons_of_mem _ hu)
        · intro u hu
          simp only [List.mem_cons] at hu
          cases hu with
          | inl hu => subst hu; exact Or.inr hnv
          | inr hu =>
            cases p2.2 u hu with
            | inl h => exact Or.inl h
            | inr h => exact Or.inr (fun hv => h (List.mem_cons_of_mem _ hv))

/-- the temp ids of the exported rows are pairwise distinct -/
theorem toRowsT_ids_nodup (f : FlowX U) (rows : List (RowT U)) (h : toRowsT f = .ok rows) :
    (rows.map (·.id)).Nodup := by
  cases f with
  | nil => simp only [toRowsT] at h; cases h; simp
  | cons n0 f =>
    simp only [toRowsT] at h
    cases hd : dfs (n0 :: f) (f.length + 1 + 1) n0 ⟨none, blankLabel⟩ ⟨[], [], [], 0⟩ with
    | error e => simp [hd] at h
    | ok st =>
      have h : st.rows = rows := by simpa [hd] using h
      subst h
      have hok0 : RowsOk (⟨[], [], [], 0⟩ : St U) := ⟨by simp, by simp, by simp⟩
      exact (dfs_inv (n0 :: f) _ n0 _ _ st (by simp) hok0 hd).1.1

end Rpft.Export
