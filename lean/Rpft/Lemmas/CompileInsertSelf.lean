/-
A run compared with itself: the facts about reachable states the simulation tracks on its left
side (open blocks are blocks, row ids and group references name existing groups / nodes, the
test tables are those of the start, the unused exit identifiers of router nodes were drawn from
the counter) hold in every state reached from the initial one.
-/
import Rpft.Lemmas.CompileInsertE
import Rpft.Lemmas.CompileFinalA
set_option linter.unusedSimpArgs false
set_option linter.unusedVariables false
namespace Rpft.Compile
open Rpft Function

/-- the identity correspondence -/
def Pid (na nt : List Str) : Params :=
  { ρ := id, ν := id, γ := id, DN := fun _ => True, DG := fun _ => True, T := fun j => j = 0, bx := 0, gx := 0,
    base₁ := initSt na nt, base₂ := initSt na nt, hb := False, sp := false, na := na, nt := nt }

theorem Pid_ok (na nt : List Str) : (Pid na nt).Ok :=
  ⟨fun _ _ h => h, fun _ _ h => h, fun _ _ h => h, fun h => Bool.noConfusion h, fun _ _ => rfl, fun h => Bool.noConfusion h⟩

def Xid : SParams := ⟨[], [], true, []⟩

theorem rnNode_id (n : NodeM) : rnNode id n = n := by
  have hc : ∀ c : Cat, rnCat id c = c := by
    intro c; cases c with | mk a b c d => cases d <;> rfl
  have hl : ∀ l : List Cat, l.map (rnCat id) = l := by
    intro l; induction l with
    | nil => rfl
    | cons c l ih => simp [hc, ih]
  have hk : ∀ l : List Case, l.map (rnCase id) = l := by
    intro l; induction l with
    | nil => rfl
    | cons c l ih => simp only [List.map_cons, ih]; rfl
  have hr : ∀ r : RouterM, rnRouter id r = r := by
    intro r
    cases r with
    | sw r =>
      simp only [rnRouter, rnSw, hl, hk, hc]
      cases h : r.noResp <;> simp [h, hc]
      all_goals (cases r; simp_all)
    | rnd r => simp only [rnRouter, rnRnd, hl]
  have ha : ∀ l : List (Uid × Str), l.map (rnAct id) = l := by
    intro l; induction l with
    | nil => rfl
    | cons c l ih => simp only [List.map_cons, ih]; rfl
  have hd : ∀ d : Dest, rnDest id d = d := by intro d; cases d <;> rfl
  cases n with
  | mk u k a r e d =>
    simp only [rnNode, ha, hd, id]
    cases r <;> simp [hr]

theorem mapGrp_id (na nt : List Str) (g : Grp) : mapGrp (Pid na nt) g = g := by
  cases g with
  | row ns t => simp [mapGrp, Pid]
  | noop ps r => cases r <;> simp [mapGrp, Pid]
  | block cs => simp [mapGrp, Pid]

theorem mapGrpAt_id (na nt : List Str) (j : Nat) (g : Grp) : mapGrpAt (Pid na nt) j g = g := by
  cases g with
  | block cs => rw [mapGrpAt_block_ne _ (.inr rfl)]; simp [Pid]
  | row ns t => exact mapGrp_id na nt (.row ns t)
  | noop ps r => exact mapGrp_id na nt (.noop ps r)

theorem sim_self_of {na nt : List Str} {s : St}
    (hna : s.noArgs = na) (hnt : s.testTypes = nt)
    (hlt : 0 < s.groups.size)
    (hwf : ∀ (j : Nat) (g : Grp), s.groups[j]? = some g →
      (∀ i ∈ gnodes g, i < s.nodes.size) ∧ (∀ x ∈ grefs g, x < s.groups.size))
    (hdex : ∀ (i : Nat) (n : NodeM), s.nodes[i]? = some n → Below s.next n.dexitUid ∨ ¬ Invented n.dexitUid)
    (hrk : ∀ p ∈ s.rowIds, p.1 ≠ [])
    (hra : ∀ (j : Nat) (g : Grp), j ≠ 0 → s.groups[j]? = some g → ∀ x ∈ grefs g, x ≠ 0)
    (hr0 : ∀ p ∈ s.rowIds, p.2 ≠ 0)
    (hss : s.stack.Pairwise (fun x y => x = 0 → y = 0)) :
    Sim { Pid na nt with base₁ := s, base₂ := s } Xid s s := by
  constructor
  · constructor
    · exact hna
    · exact hna
    · exact hnt
    · exact hnt
    · exact ⟨Nat.le_refl _, Nat.le_refl _, Nat.le_refl _⟩
    · exact ⟨Nat.le_refl _, Nat.le_refl _, Nat.le_refl _⟩
    · intro k; rfl
    · intro k; rfl
    · intro k; rfl
    · intro i _; trivial
    · intro j hj; exact ⟨trivial, fun (h : j = 0) => by omega⟩
    · exact hlt
    · intro h; exact h.elim
    · exact hwf
    · exact hdex
    · intro i n _ hn
      show s.nodes[i]? = some (rnNode id n)
      rw [rnNode_id]; exact hn
    · intro j g _ hg
      show s.groups[j]? = some (mapGrpAt (Pid na nt) j g)
      rw [mapGrpAt_id]; exact hg
    · intro j g _ _; exact ⟨fun _ _ => trivial, fun _ _ => trivial⟩
    · intro j g _ hj hg x hx; exact hra j g hj hg x hx
    · intro i h; exact absurd trivial h
    · intro j h; exact absurd trivial h
    · intro i h; exact absurd rfl (h i trivial)
    · intro j h; exact absurd rfl (h j trivial)
    · intro h; exact Bool.noConfusion h
  · constructor
    · show s.stack = s.stack.map id ++ []
      simp
    · intro b _; trivial
    · exact .inl rfl
    · intro h; cases h
    · exact hss
    · intro id j _ h; exact h
    · intro p _; trivial
    · intro p hp h; exact absurd h (hr0 p hp)
    · exact hrk
    · intro id hid
      show lookupIn s.rowIds id = lookupIn [] id
      unfold lookupIn
      have : s.rowIds.find? (fun p => decide (p.1 = id)) = none := by
        rw [List.find?_eq_none]
        intro p hp; simpa using hid p hp
      rw [this]; rfl
    · intro _ x _
      show lookupIn s.names x = (lookupIn s.names x).map id
      simp
    · intro p _; trivial

/-- a state compared with itself on a sub-domain closed under references -/
theorem asim_self {na nt : List Str} {s : St} (DN DG T : Nat → Prop) (bx : Nat)
    (hna : s.noArgs = na) (hnt : s.testTypes = nt) (hbx : bx < s.groups.size)
    (hwf : ∀ (j : Nat) (g : Grp), s.groups[j]? = some g →
      (∀ i ∈ gnodes g, i < s.nodes.size) ∧ (∀ x ∈ grefs g, x < s.groups.size))
    (hdex : ∀ (i : Nat) (n : NodeM), s.nodes[i]? = some n → Below s.next n.dexitUid ∨ ¬ Invented n.dexitUid)
    (hnd : ∀ i, s.nodes.size ≤ i → DN i) (hgd : ∀ j, s.groups.size ≤ j → DG j ∧ ¬ T j)
    (hcl : ∀ (j : Nat) (g : Grp), DG j → s.groups[j]? = some g → (∀ i ∈ gnodes g, DN i) ∧ (∀ x ∈ grefs g, DG x))
    (hra : ∀ (j : Nat) (g : Grp), DG j → ¬ T j → s.groups[j]? = some g → ∀ x ∈ grefs g, ¬ T x) :
    ASim { Pid na nt with DN := DN, DG := DG, T := T, bx := bx, base₁ := s, base₂ := s } s s := by
  constructor
  · exact hna
  · exact hna
  · exact hnt
  · exact hnt
  · exact ⟨Nat.le_refl _, Nat.le_refl _, Nat.le_refl _⟩
  · exact ⟨Nat.le_refl _, Nat.le_refl _, Nat.le_refl _⟩
  · intro k; rfl
  · intro k; rfl
  · intro k; rfl
  · exact hnd
  · exact hgd
  · exact hbx
  · intro h; exact h.elim
  · exact hwf
  · exact hdex
  · intro i n _ hn
    show s.nodes[i]? = some (rnNode id n)
    rw [rnNode_id]; exact hn
  · intro j g _ hg
    show s.groups[j]? = some (mapGrpAt { Pid na nt with DN := DN, DG := DG, T := T, bx := bx, base₁ := s, base₂ := s } j g)
    have : mapGrpAt { Pid na nt with DN := DN, DG := DG, T := T, bx := bx, base₁ := s, base₂ := s } j g = g := by
      cases g with
      | block cs => rw [mapGrpAt_block_ne _ (.inr rfl)]; simp [Pid]
      | row ns t => simp [mapGrpAt, mapGrp, Pid]
      | noop ps r => cases r <;> simp [mapGrpAt, mapGrp, Pid]
    rw [this]; exact hg
  · exact hcl
  · exact hra
  · intro i _; rfl
  · intro j _; rfl
  · intro i _; rfl
  · intro j _; rfl
  · intro h; exact Bool.noConfusion h

/-- the facts about a reachable state -/
structure Good (na nt : List Str) (s : St) : Prop where
  hna : s.noArgs = na
  hnt : s.testTypes = nt
  pos : 0 < s.groups.size
  wf : ∀ (j : Nat) (g : Grp), s.groups[j]? = some g →
    (∀ i ∈ gnodes g, i < s.nodes.size) ∧ (∀ x ∈ grefs g, x < s.groups.size)
  dex : ∀ (i : Nat) (n : NodeM), s.nodes[i]? = some n → Below s.next n.dexitUid ∨ ¬ Invented n.dexitUid
  rk : ∀ p ∈ s.rowIds, p.1 ≠ []
  sb : SB s
  rv : RV s
  /-- nobody refers to the root block -/
  ra : ∀ (j : Nat) (g : Grp), j ≠ 0 → s.groups[j]? = some g → ∀ x ∈ grefs g, x ≠ 0
  r0 : ∀ p ∈ s.rowIds, p.2 ≠ 0
  ss : s.stack.Pairwise (fun x y => x = 0 → y = 0)
  cl : CL (Pid na nt) s

theorem good_init (na nt : List Str) : Good na nt (initSt na nt) := by
  refine ⟨rfl, rfl, by simp [initSt], ?_, ?_, ?_, ?_, ?_, ?_, ?_, ?_, ?_⟩
  · intro j g hg
    have : j = 0 ∧ g = .block [] := by
      have hlt := (Array.getElem?_eq_some_iff.mp hg).1
      simp [initSt] at hlt
      subst hlt
      simp [initSt] at hg
      exact ⟨rfl, hg.symm⟩
    obtain ⟨rfl, rfl⟩ := this
    exact ⟨by intro i hi; simp [gnodes] at hi, by intro x hx; simp [grefs] at hx⟩
  · intro i n hn; simp [initSt] at hn
  · intro p hp; simp [initSt] at hp
  · intro b hb
    simp [initSt] at hb
    subst hb
    exact ⟨[], by simp [initSt]⟩
  · intro p hp; simp [initSt] at hp
  · intro j g hj hg
    have hlt := (Array.getElem?_eq_some_iff.mp hg).1
    simp [initSt] at hlt
    exact absurd hlt hj
  · intro p hp; simp [initSt] at hp
  · simp [initSt]
  · refine ⟨?_, by simp [initSt]⟩
    intro b hb cs hg
    simp [initSt] at hb
    subst hb
    simp [initSt] at hg
    subst hg
    intro c hc; simp at hc

/-- the two-run theorem applied to one run: an event sequence keeps the state good, and the
unary effect summary holds -/
theorem good_steps {na nt : List Str} {s t : St} (hg : Good na nt s) (evs : List Event) (hid : okIdsL evs = true)
    (hr : (steps evs).run s = .ok ((), t)) :
    Good na nt t ∧ Eff { Pid na nt with base₁ := s, base₂ := s } s t := by
  have ok : ({ Pid na nt with base₁ := s, base₂ := s } : Params).Ok :=
    ⟨fun _ _ h => h, fun _ _ h => h, fun _ _ h => h, fun h => Bool.noConfusion h, fun _ _ => rfl, fun h => Bool.noConfusion h⟩
  have hs := sim_self_of hg.hna hg.hnt hg.pos hg.wf hg.dex hg.rk hg.ra hg.r0 hg.ss
  have hcl : CL { Pid na nt with base₁ := s, base₂ := s } s := hg.cl
  obtain ⟨ht, hf⟩ := steps_clean evs hid _ Xid s s ok hs rfl (.inl rfl) hcl hg.sb hg.rv (fun h => Bool.noConfusion h) () t () t hr hr
  refine ⟨⟨ht.1.na₁, ht.1.nt₁, ?_, ht.1.wf, ht.1.dex, ht.2.rk, hf.sb hg.sb, hf.rv hg.rv, ?_, ?_, ht.2.ss, hf.cl hcl⟩, hf⟩
  · exact Nat.lt_of_lt_of_le hg.pos hf.hk.2.2
  · intro j g hj hgj x hx
    exact ht.1.ra j g trivial hj hgj x hx
  · intro p hp h0
    have := ht.2.rl p hp h0
    simp [Xid] at this

theorem good_run {na nt : List Str} {evs : List Event} {s : St} (hid : okIdsL evs = true)
    (hr : (steps evs).run (initSt na nt) = .ok ((), s)) : Good na nt s :=
  (good_steps (good_init na nt) evs hid hr).1

end Rpft.Compile
