/-
C18: the inferred model handed to the row parser.  `rowSchema` translates a model of
`Rpft/Infer.lean` (what `model_from_headers` creates: a plain `ParserModel` subclass — identity
header/field remaps, every field with a default) into the schema type of the `RowParser` model
(`Rpft/RowParse.lean`).  Core Lean only.
-/
import Rpft.RowParse
import Rpft.Lemmas.InferPerm
set_option linter.unusedSimpArgs false
set_option linter.unusedVariables false
namespace Rpft.Infer
open Rpft

mutual
/-- the field type as the row parser sees it -/
def toRowTy : Ty → Row.Ty
  | .str => .str
  | .int => .int
  | .float => .float
  | .bool => .bool
  | .anyList => .anyList
  | .list t => .list (toRowTy t)
  | .model fs => .model (toRowFs fs) [] []
/-- every inferred field has a default (never required) -/
def toRowFs : List (Str × Ty × Val) → List Row.Field
  | [] => []
  | (k, t, d) :: fs => (k, toRowTy t, some (toRowD t d)) :: toRowFs fs
/-- the default value as a row value, read at its type.  A record defaults to the record of its
fields' defaults (`ParserModel()`); a float default is carried as its text (the row model's
abstract float codec); a `None` hole of `dict_to_list` (never produced for a family schema) and
an ill-typed default have no row value and are sent to the type's zero. -/
def toRowD : Ty → Val → Row.Val
  | .str, .str s => .str s
  | .str, _ => .str []
  | .int, .int i => .int i
  | .int, _ => .int 0
  | .float, .float i => .float (intToStr i)
  | .float, _ => .float ['0']
  | .bool, .bool b => .bool b
  | .bool, _ => .bool false
  | .anyList, _ => .any []
  | .list t, .list ds => .list (ds.map (fun d => toRowD t d))
  | .list _, _ => .list []
  | .model fs, _ => .model (toRowDs fs)
def toRowDs : List (Str × Ty × Val) → List (Str × Row.Val)
  | [] => []
  | (k, t, d) :: fs => (k, toRowD t d) :: toRowDs fs
end

/-- the `RowParser(model, CellParser())` of an inferred (or explicit) model -/
def rowSchema (t : Ty) : Row.Schema := { top := toRowTy t }

/-- `RowParser(model_from_headers(name, headers), CellParser()).parse_row(row)`; an inference
error is reported as `none` -/
def parseInferred (headers : List Str) (row : List (Str × Str)) : Option (Except Row.Err Row.Val) :=
  match infer headers with
  | .ok t => some (Row.parseRow (rowSchema t) row)
  | .error _ => none

end Rpft.Infer
