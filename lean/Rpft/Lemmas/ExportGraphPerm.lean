/-
Helper lemmas for C04 (graph level): as a MULTISET, the graph read from the sheet is exactly what the
flow prescribes — per call of the DFS: the task's own edges + `nodeOut` of every node the call
completes + what was there before (`run_perm`).
-/
import Rpft.Lemmas.ExportGraphEdges
set_option linter.unusedSimpArgs false
set_option linter.unusedVariables false
set_option linter.unusedSectionVars false
namespace Rpft.Export
open Function

variable {U : Type} [DecidableEq U]

theorem loopEdges_snoc (f : FlowX U) (n : NodeX U) (es : List (Label × Option U)) (x : Label × Option U) :
    loopEdges f n (es ++ [x]) = loopEdges f n es ++ (exitEdge f n x).toList := by
  simp only [loopEdges, List.filterMap_append]
  cases h : exitEdge f n x <;> simp [List.filterMap_cons, h]

theorem exitEdge_none (f : FlowX U) (n : NodeX U) (lab : Label) : exitEdge f n (lab, none) = none := rfl

theorem exitEdge_some {f : FlowX U} (n : NodeX U) (lab : Label) {d : U} {c : NodeX U} (h : findNode f d = some c) :
    exitEdge f n (lab, some d) = some (inEdge c ⟨some (lastId n), lab⟩) := by
  simp [exitEdge, h, inEdge]

theorem skelEdges_prepend {f : FlowX U} {vis : List U} {items : List (Item U)} (hi : Inv f vis items) {c : NodeX U}
    (hc : Canon f c) (hm : c.uuid ∈ blockUuids items) (e : EdgeT U) :
    ∃ A B : List (GEdge U), skelEdges items = A ++ B ∧
      skelEdges (items.map (prependItem c.uuid e)) = A ++ inEdge c e :: B := by
  obtain ⟨A, es, B, hAB, hA, hB⟩ := split_block hi hc hm
  refine ⟨skelEdges A, es.map (inEdge c) ++ chain c ++ skelEdges B, ?_, ?_⟩
  · rw [hAB, skelEdges_split]
  · rw [hAB, map_prepend_split c e A B es hA hB, skelEdges_split]
    simp

theorem run_perm (f : FlowX U) (D : List (Item U) → NodeX U → NodeX U → Label → Prop)
    {task : Task U} {vis : List U} {items : List (Item U)} {vis' : List U} {items' : List (Item U)}
    (h : Run f D task vis items vis' items') :
    Inv f vis items → TaskOk f vis task → ∀ newN, blockNodes items' = newN ++ blockNodes items →
      (skelEdges items').Perm (taskEdges f task ++ (newN.flatMap (nodeOut f) ++ skelEdges items)) := by
  induction h with
  | nil =>
    intro hi _ newN hn
    have : newN = [] := by simpa using hn
    subst this
    simp [taskEdges, loopEdges]
  | @skip n lab es vis items vis' items' _ ih =>
    intro hi ht newN hn
    have := ih hi ht newN hn
    simpa [taskEdges, loopEdges_snoc, exitEdge_none] using this
  | @done n lab d es c vis items vis' items' hfn hc hD _ ih =>
    intro hi ht newN hn
    have hcc := findNode_canon hfn
    have := ih (hi.prepend _ _) ht newN (by rw [hn, blockNodes_map_prepend])
    obtain ⟨A, B, h1, h2⟩ := skelEdges_prepend hi hcc hc ⟨some (lastId n), lab⟩
    rw [List.perm_iff_count] at this ⊢
    intro a
    have := this a
    simp only [taskEdges, List.reverse_cons, loopEdges_snoc, exitEdge_some n lab hfn, Option.toList, h1, h2,
      List.count_append, List.count_cons, List.count_nil] at this ⊢
    omega
  | @back n lab d es c k vis items vis' items' hfn hc hv _ ih =>
    intro hi ht newN hn
    have hcc := findNode_canon hfn
    have := ih (hi.pushGoto k _ hcc hc hv) ht newN (by rw [hn, blockNodes_cons_goto])
    rw [List.perm_iff_count] at this ⊢
    intro a
    have := this a
    simp only [taskEdges, List.reverse_cons, loopEdges_snoc, exitEdge_some n lab hfn, Option.toList, skelEdges_cons,
      itemEdges, List.count_append, List.count_cons, List.count_nil] at this ⊢
    omega
  | @new n lab d es c vis items vis1 items1 vis' items' hfn hc hv r1 r2 ih1 ih2 =>
    intro hi ht newN hn
    have hcc := findNode_canon hfn
    obtain ⟨hi1, new1, hd1⟩ := run_inv f D r1 hi ⟨hcc, hv⟩
    obtain ⟨hi', new2, hd2⟩ := run_inv f D r2 hi1 ⟨ht.1, hd1.mono _ ht.2⟩
    have hN : newN = new2 ++ new1 := by
      apply List.append_cancel_right (bs := blockNodes items)
      rw [← hn, hd2.nodes, hd1.nodes, List.append_assoc]
    subst hN
    have p1 := ih1 hi ⟨hcc, hv⟩ new1 hd1.nodes
    have p2 := ih2 hi1 ⟨ht.1, hd1.mono _ ht.2⟩ new2 hd2.nodes
    rw [List.perm_iff_count] at p1 p2 ⊢
    intro a
    have p1 := p1 a
    have p2 := p2 a
    simp only [taskEdges, List.reverse_cons, loopEdges_snoc, exitEdge_some n lab hfn, Option.toList, List.flatMap_append,
      List.count_append, List.count_cons, List.count_nil] at p1 p2 ⊢
    omega
  | @node n pe vis items vis' items' hr r ih =>
    intro hi ht newN hn
    obtain ⟨hi', new2, hd2⟩ := run_inv f D r (hi.visit _) ⟨ht.1, List.mem_cons_self ..⟩
    have hN : newN = n :: new2 := by
      apply List.append_cancel_right (bs := blockNodes items)
      rw [← hn, blockNodes_cons_block, hd2.nodes]; rfl
    subst hN
    have p := ih (hi.visit _) ⟨ht.1, List.mem_cons_self ..⟩ new2 hd2.nodes
    rw [List.perm_iff_count] at p ⊢
    intro a
    have p := p a
    simp only [taskEdges, List.reverse_reverse, skelEdges_cons, itemEdges, List.flatMap_cons, nodeOut, exitsEdges,
      List.map_cons, List.map_nil, List.count_append, List.count_cons, List.count_nil] at p ⊢
    omega

end Rpft.Export
