/-
Helper lemmas for C18 (`Rpft/Infer.lean`).
-/
import Rpft.Infer
set_option linter.unusedSimpArgs false
set_option linter.unusedVariables false
namespace Rpft.Infer
open Rpft

/-! ### strings -/

theorem splitFirst_none {c : Char} : ∀ {s : Str}, c ∉ s → splitFirst c s = none
  | [], _ => rfl
  | x :: s, h => by
    have hx : x ≠ c := fun e => h (by simp [e])
    have hs : c ∉ s := fun e => h (by simp [e])
    simp [splitFirst, hx, splitFirst_none hs]

theorem splitFirst_append {c : Char} : ∀ {a : Str} (b : Str), c ∉ a →
    splitFirst c (a ++ c :: b) = some (a, b)
  | [], b, _ => by simp [splitFirst]
  | x :: a, b, h => by
    have hx : x ≠ c := fun e => h (by simp [e])
    have hs : c ∉ a := fun e => h (by simp [e])
    simp [splitFirst, hx, splitFirst_append b hs]

theorem takeUntil_none {c : Char} : ∀ {s : Str}, c ∉ s → takeUntil c s = s
  | [], _ => rfl
  | x :: s, h => by
    have hx : x ≠ c := fun e => h (by simp [e])
    have hs : c ∉ s := fun e => h (by simp [e])
    simp [takeUntil, hx, takeUntil_none hs]

theorem takeUntil_append {c : Char} : ∀ {a : Str} (b : Str), c ∉ a →
    takeUntil c (a ++ c :: b) = a
  | [], b, _ => by simp [takeUntil]
  | x :: a, b, h => by
    have hx : x ≠ c := fun e => h (by simp [e])
    have hs : c ∉ a := fun e => h (by simp [e])
    simp [takeUntil, hx, takeUntil_append b hs]

theorem rstrip_noWs {ws : Char → Bool} : ∀ {s : Str}, (∀ c ∈ s, ws c = false) → rstrip ws s = s
  | [], _ => rfl
  | c :: s, h => by
    have ih := rstrip_noWs (ws := ws) (s := s) (fun x hx => h x (by simp [hx]))
    have hc : ws c = false := h c (by simp)
    cases s with
    | nil => simp [rstrip, hc]
    | cons y s => rw [rstrip, ih]

theorem strip_noWs {ws : Char → Bool} {s : Str} (h : ∀ c ∈ s, ws c = false) : strip ws s = s := by
  unfold strip lstrip
  have : s.dropWhile ws = s := by
    cases s with
    | nil => rfl
    | cons c s => simp [List.dropWhile, h c (by simp)]
  rw [this, rstrip_noWs h]

/-! ### integers -/

theorem digitChar_toNat : ∀ d, d < 10 → (digitChar d).toNat = 48 + d := by decide

theorem digitChar_isDigit (d : Nat) (h : d < 10) : isDigit (digitChar d) = true := by
  simp [isDigit, digitChar_toNat d h]; omega

theorem valOf_snoc (s : Str) (c : Char) : valOf (s ++ [c]) = valOf s * 10 + (c.toNat - 48) := by
  simp [valOf, List.foldl_append]

theorem natToStrAux_spec : ∀ (f n : Nat), n ≤ f →
    natToStrAux f n ≠ [] ∧ (natToStrAux f n).all isDigit = true ∧ valOf (natToStrAux f n) = n
  | 0, n, h => by
    have : n = 0 := by omega
    subst this
    decide
  | f + 1, n, h => by
    unfold natToStrAux
    by_cases hn : n < 10
    · simp only [hn, if_true]
      refine ⟨by simp, by simp [digitChar_isDigit n hn], ?_⟩
      simp [valOf, digitChar_toNat n hn]
    · simp only [hn, if_false]
      have ih := natToStrAux_spec f (n / 10) (by omega)
      have hm : n % 10 < 10 := Nat.mod_lt _ (by omega)
      refine ⟨by simp, ?_, ?_⟩
      · simp [List.all_append, ih.2.1, digitChar_isDigit _ hm]
      · rw [valOf_snoc, ih.2.2, digitChar_toNat _ hm]; omega

theorem natToStr_spec (n : Nat) :
    natToStr n ≠ [] ∧ (natToStr n).all isDigit = true ∧ valOf (natToStr n) = n :=
  natToStrAux_spec n n (Nat.le_refl n)

/-- what the proofs need to know about a digit: no separator, no whitespace, no sign -/
theorem isDigit_facts : ∀ c : Char, isDigit c = true →
    c ≠ sepField ∧ c ≠ sepType ∧ c ≠ sepDefault ∧ pyWs c = false ∧ c ≠ '+' ∧ c ≠ '-' ∧ c ≠ '_' := by
  intro c h
  simp only [isDigit, Bool.and_eq_true, decide_eq_true_eq] at h
  have h1 : 48 ≤ c.toNat := by simpa using h.1
  have h2 : c.toNat ≤ 57 := by simpa using h.2
  have key : ∀ k : Char, (k.toNat < 48 ∨ 57 < k.toNat) → c ≠ k := by
    intro k hk e; subst e; omega
  refine ⟨key _ (by decide), key _ (by decide), key _ (by decide), ?_, key _ (by decide),
    key _ (by decide), key _ (by decide)⟩
  unfold pyWs pyWhitespaceCodes
  simp only [List.contains_eq_mem, List.mem_cons, List.mem_nil_iff, or_false, decide_eq_false_iff_not]
  omega

theorem parseIntCore_digits {s : Str} (hne : s ≠ []) (hd : s.all isDigit = true) :
    parseIntCore s = .ok (valOf s : Int) := by
  cases s with
  | nil => exact absurd rfl hne
  | cons c r =>
    have hc : isDigit c = true := by simp [List.all_cons] at hd; exact hd.1
    have f := isDigit_facts c hc
    unfold parseIntCore
    simp [f.2.2.2.2.1, f.2.2.2.2.2.1, hd]

theorem parseIntCore_neg {s : Str} (hne : s ≠ []) (hd : s.all isDigit = true) :
    parseIntCore ('-' :: s) = .ok (-(valOf s : Int)) := by
  unfold parseIntCore
  simp [hne, hd]

theorem intToStr_noWs (i : Int) : ∀ c ∈ intToStr i,
    pyWs c = false ∧ c ≠ sepField ∧ c ≠ sepType ∧ c ≠ sepDefault := by
  intro c hc
  have hd := (natToStr_spec i.natAbs).2.1
  have dig : ∀ c ∈ natToStr i.natAbs, pyWs c = false ∧ c ≠ sepField ∧ c ≠ sepType ∧ c ≠ sepDefault := by
    intro c hc
    have := isDigit_facts c (List.all_eq_true.mp hd c hc)
    exact ⟨this.2.2.2.1, this.1, this.2.1, this.2.2.1⟩
  unfold intToStr at hc
  split at hc
  · rcases List.mem_cons.mp hc with h | h
    · subst h; decide
    · exact dig c h
  · exact dig c hc

theorem pyInt_intToStr (i : Int) : pyInt (intToStr i) = .ok i := by
  unfold pyInt
  rw [strip_noWs (fun c hc => (intToStr_noWs i c hc).1)]
  have sp := natToStr_spec i.natAbs
  unfold intToStr
  split
  · rw [parseIntCore_neg sp.1 sp.2.1, sp.2.2]; congr 1; omega
  · rw [parseIntCore_digits sp.1 sp.2.1, sp.2.2]; congr 1; omega

theorem pyInt_natToStr (n : Nat) : pyInt (natToStr n) = .ok (n : Int) := by
  have := pyInt_intToStr (n : Int)
  have h0 : ¬ ((n : Int) < 0) := by omega
  simpa [intToStr, h0] using this

end Rpft.Infer

namespace Rpft.Infer
open Rpft

/-! ### type strings -/

def tyAlpha : List Char := ['s', 't', 'r', 'i', 'n', 'f', 'l', 'o', 'a', 'b', 'L', '[', ']']

theorem tyAlpha_ok : ∀ c ∈ tyAlpha,
    pyWs c = false ∧ c ≠ sepField ∧ c ≠ sepType ∧ c ≠ sepDefault := by decide

theorem renderTy_alpha : ∀ t, annTy t = true → ∀ c ∈ renderTy t, c ∈ tyAlpha
  | .str, _ => by decide
  | .int, _ => by decide
  | .float, _ => by decide
  | .bool, _ => by decide
  | .anyList, _ => by decide
  | .model _, h => by simp [annTy] at h
  | .list t, h => by
    intro c hc
    have ih := renderTy_alpha t (by simpa [annTy] using h)
    simp only [renderTy, List.mem_append] at hc
    rcases hc with (hc | hc) | hc
    · revert c; decide
    · exact ih c hc
    · revert c; decide

theorem renderTy_ne_nil : ∀ t, renderTy t ≠ []
  | .str | .int | .float | .bool | .anyList | .model _ => by simp [renderTy, sStr, sInt, sFloat, sBool, sList]
  | .list t => by simp [renderTy, sListOpen]

theorem parseTy_render : ∀ t, annTy t = true → ∀ n, (renderTy t).length < n →
    parseTyFuel n (renderTy t) = some t
  | _, _, 0, h => by omega
  | .str, _, n + 1, _ => by simp [parseTyFuel, renderTy]
  | .int, _, n + 1, _ => by simp [parseTyFuel, renderTy, sStr, sInt]
  | .float, _, n + 1, _ => by simp [parseTyFuel, renderTy, sStr, sInt, sFloat]
  | .bool, _, n + 1, _ => by simp [parseTyFuel, renderTy, sStr, sInt, sFloat, sBool]
  | .anyList, _, n + 1, _ => by simp [parseTyFuel, renderTy, sStr, sInt, sFloat, sBool, sList]
  | .model _, h, _, _ => by simp [annTy] at h
  | .list t, h, n + 1, hl => by
    have ih := parseTy_render t (by simpa [annTy] using h) n
      (by simp [renderTy, sListOpen] at hl; omega)
    simp [parseTyFuel, renderTy, sStr, sInt, sFloat, sBool, sList, sListOpen, stripPrefix, ih]

theorem typeFromString_render (t : Ty) (h : annTy t = true) :
    typeFromString (renderTy t) = .ok t := by
  unfold typeFromString
  simp [renderTy_ne_nil, parseTy_render t h _ (Nat.lt_succ_self _)]

/-! ### one annotated header -/

/-- what a name must satisfy for the header parsing to find it again -/
def NameFits (n : Str) : Prop :=
  sepField ∉ n ∧ sepType ∉ n ∧ sepDefault ∉ n ∧ strip pyWs n = n

/-- what the text after `=` must satisfy -/
def DefFits : Option Str → Prop
  | none => True
  | some D => sepField ∉ D ∧ strip pyWs D = D

theorem leaf_typed {n T : Str} {X : Option Str} (t : Ty) (hn : NameFits n)
    (hT : ∀ c ∈ T, pyWs c = false ∧ c ≠ sepField ∧ c ≠ sepType ∧ c ≠ sepDefault)
    (hX : DefFits X) :
    splitFirst sepField (n ++ sepType :: (T ++ dflStr X)) = none ∧
    getFieldName (n ++ sepType :: (T ++ dflStr X)) = n ∧
    inferType (n ++ sepType :: (T ++ dflStr X)) = typeFromString T ∧
    inferDefaultValue t (n ++ sepType :: (T ++ dflStr X)) = valueForType t X := by
  obtain ⟨n1, n2, n3, n4⟩ := hn
  have T1 : sepField ∉ T := fun h => (hT _ h).2.1 rfl
  have T2 : sepType ∉ T := fun h => (hT _ h).2.2.1 rfl
  have T3 : sepDefault ∉ T := fun h => (hT _ h).2.2.2 rfl
  have T4 : strip pyWs T = T := strip_noWs (fun c hc => (hT c hc).1)
  have e1 : sepType ≠ sepField := by decide
  have e2 : sepDefault ≠ sepField := by decide
  have e3 : sepType ≠ sepDefault := by decide
  cases X with
  | none =>
    simp only [dflStr, List.append_nil]
    refine ⟨?_, ?_, ?_, ?_⟩
    · apply splitFirst_none; simp [n1, T1, e1.symm]
    · unfold getFieldName; rw [takeUntil_append _ n2, takeUntil_none n3, n4]
    · unfold inferType; rw [splitFirst_append _ n2]; simp [takeUntil_none T3, T4]
    · unfold inferDefaultValue; rw [splitFirst_none]; simp [n3, T3, e3.symm]
  | some D =>
    obtain ⟨d1, d2⟩ := hX
    simp only [dflStr]
    refine ⟨?_, ?_, ?_, ?_⟩
    · apply splitFirst_none; simp [n1, T1, d1, e1.symm, e2.symm]
    · unfold getFieldName
      rw [takeUntil_append _ n2, takeUntil_none n3, n4]
    · unfold inferType
      rw [splitFirst_append _ n2]
      simp only []
      rw [takeUntil_append _ T3, T4]
    · unfold inferDefaultValue
      have : sepDefault ∉ n ++ sepType :: T := by simp [n3, T3, e3.symm]
      have e : n ++ sepType :: (T ++ sepDefault :: D) = (n ++ sepType :: T) ++ sepDefault :: D := by simp
      rw [e, splitFirst_append _ this]
      simp only [d2]

theorem leaf_untyped {n : Str} {X : Option Str} (t : Ty) (hn : NameFits n)
    (hX : DefFits X) (hc : ∀ D, X = some D → sepType ∉ D) :
    splitFirst sepField (n ++ dflStr X) = none ∧
    getFieldName (n ++ dflStr X) = n ∧
    inferType (n ++ dflStr X) = .ok .str ∧
    inferDefaultValue t (n ++ dflStr X) = valueForType t X := by
  obtain ⟨n1, n2, n3, n4⟩ := hn
  have e2 : sepDefault ≠ sepField := by decide
  have e3 : sepType ≠ sepDefault := by decide
  cases X with
  | none =>
    simp only [dflStr, List.append_nil]
    refine ⟨splitFirst_none n1, ?_, ?_, ?_⟩
    · unfold getFieldName; rw [takeUntil_none n2, takeUntil_none n3, n4]
    · unfold inferType; rw [splitFirst_none n2]; rfl
    · unfold inferDefaultValue; rw [splitFirst_none n3]
  | some D =>
    obtain ⟨d1, d2⟩ := hX
    have d3 := hc D rfl
    simp only [dflStr]
    refine ⟨?_, ?_, ?_, ?_⟩
    · apply splitFirst_none; simp [n1, d1, e2.symm]
    · unfold getFieldName
      have : sepType ∉ n ++ sepDefault :: D := by simp [n2, d3, e3]
      rw [takeUntil_none this, takeUntil_append _ n3, n4]
    · unfold inferType
      have : sepType ∉ n ++ sepDefault :: D := by simp [n2, d3, e3]
      rw [splitFirst_none this]; rfl
    · unfold inferDefaultValue; rw [splitFirst_append _ n3]; simp only [d2]

end Rpft.Infer

namespace Rpft.Infer
open Rpft

/-! ### a simple field: its one header parses back to (name, type, default) -/

theorem basicAlpha_ok : ∀ T ∈ [sInt, sFloat, sBool, sList], ∀ c ∈ T,
    pyWs c = false ∧ c ≠ sepField ∧ c ≠ sepType ∧ c ≠ sepDefault := by decide

theorem defFits_int (i : Int) : DefFits (if i = 0 then none else some (intToStr i)) := by
  split
  · trivial
  · exact ⟨fun h => (intToStr_noWs i _ h).2.1 rfl, strip_noWs (fun c hc => (intToStr_noWs i c hc).1)⟩

theorem value_int (i : Int) :
    valueForType .int (if i = 0 then none else some (intToStr i)) = .ok (.int i) := by
  split
  · next h => subst h; rfl
  · simp [valueForType, pyInt_intToStr]

theorem value_float (i : Int) :
    valueForType .float (if i = 0 then none else some (intToStr i)) = .ok (.float i) := by
  split
  · next h => subst h; rfl
  · simp [valueForType, pyInt_intToStr]

theorem parseHA_of {h : Str} {t : Ty} {d : Val} (h1 : inferType h = .ok t)
    (h2 : inferDefaultValue t h = .ok d) : parseHeaderAnnotations h = .ok (t, d) := by
  simp [parseHeaderAnnotations, h1, h2, bind, Except.bind, pure, Except.pure]

theorem leaf_roundtrip {n : Str} (hn : NameFits n) : ∀ (t : Ty) (d : Val),
    isSimple t d = true → famTD t d = true →
    splitFirst sepField (n ++ (annOf t ++ dflOf d)) = none ∧
    getFieldName (n ++ (annOf t ++ dflOf d)) = n ∧
    parseHeaderAnnotations (n ++ (annOf t ++ dflOf d)) = .ok (t, d)
  | .str, .str s, _, hf => by
    simp only [famTD, defStrOk, Bool.and_eq_true, Bool.not_eq_true', beq_iff_eq,
      List.contains_eq_mem, decide_eq_false_iff_not] at hf
    obtain ⟨⟨s1, s2⟩, s3⟩ := hf
    have hX : DefFits (if s = [] then none else some s) := by
      split
      · trivial
      · exact ⟨s1, s3⟩
    have hc : ∀ D, (if s = [] then none else some s) = some D → sepType ∉ D := by
      intro D hD; split at hD
      · cases hD
      · cases hD; exact s2
    have := leaf_untyped (n := n) .str hn hX hc
    simp only [annOf, dflOf, dflX, List.nil_append]
    refine ⟨this.1, this.2.1, parseHA_of this.2.2.1 ?_⟩
    rw [this.2.2.2]
    split <;> simp_all [valueForType]
  | .int, .int i, _, _ => by
    have := leaf_typed (n := n) (T := sInt) .int hn (basicAlpha_ok sInt (by simp)) (defFits_int i)
    simp only [annOf, dflOf, dflX, renderTy, List.cons_append]
    refine ⟨this.1, this.2.1, parseHA_of (this.2.2.1.trans (typeFromString_render .int rfl)) ?_⟩
    rw [this.2.2.2, value_int]
  | .float, .float i, _, _ => by
    have := leaf_typed (n := n) (T := sFloat) .float hn (basicAlpha_ok sFloat (by simp)) (defFits_int i)
    simp only [annOf, dflOf, dflX, renderTy, List.cons_append]
    refine ⟨this.1, this.2.1, parseHA_of (this.2.2.1.trans (typeFromString_render .float rfl)) ?_⟩
    rw [this.2.2.2, value_float]
  | .bool, .bool b, _, _ => by
    have hX : DefFits (if b = true then some ['T', 'r', 'u', 'e'] else none) := by
      cases b
      · trivial
      · exact ⟨by decide, by decide⟩
    have := leaf_typed (n := n) (T := sBool) .bool hn (basicAlpha_ok sBool (by simp)) hX
    simp only [annOf, dflOf, dflX, renderTy, List.cons_append]
    refine ⟨this.1, this.2.1, parseHA_of (this.2.2.1.trans (typeFromString_render .bool rfl)) ?_⟩
    rw [this.2.2.2]
    cases b
    · rfl
    · simp [valueForType, strToBool, lowerAscii]
  | .anyList, .list [], _, _ => by
    have := leaf_typed (n := n) (T := sList) (X := none) .anyList hn (basicAlpha_ok sList (by simp)) trivial
    simp only [annOf, dflOf, dflX, renderTy, List.cons_append]
    exact ⟨this.1, this.2.1, parseHA_of (this.2.2.1.trans (typeFromString_render .anyList rfl)) (by rw [this.2.2.2]; rfl)⟩
  | .list t, .list [], _, hf => by
    have ha : annTy (.list t) = true := by simpa [famTD, annTy] using hf
    have hT : ∀ c ∈ renderTy (.list t), pyWs c = false ∧ c ≠ sepField ∧ c ≠ sepType ∧ c ≠ sepDefault :=
      fun c hc => tyAlpha_ok c (renderTy_alpha _ ha c hc)
    have := leaf_typed (n := n) (X := none) (.list t) hn hT trivial
    simp only [annOf, dflOf, dflX, List.cons_append]
    exact ⟨this.1, this.2.1, parseHA_of (this.2.2.1.trans (typeFromString_render _ ha)) (by rw [this.2.2.2]; rfl)⟩
  | .list t, .list (_ :: _), hs, _ => by simp [isSimple] at hs
  | .model _, _, hs, _ => by simp [isSimple] at hs
  | .str, .none, _, hf | .str, .int _, _, hf | .str, .float _, _, hf | .str, .bool _, _, hf
  | .str, .list _, _, hf | .str, .record _, _, hf => by simp [famTD] at hf
  | .int, .none, _, hf | .int, .str _, _, hf | .int, .float _, _, hf | .int, .bool _, _, hf
  | .int, .list _, _, hf | .int, .record _, _, hf => by simp [famTD] at hf
  | .float, .none, _, hf | .float, .str _, _, hf | .float, .int _, _, hf | .float, .bool _, _, hf
  | .float, .list _, _, hf | .float, .record _, _, hf => by simp [famTD] at hf
  | .bool, .none, _, hf | .bool, .str _, _, hf | .bool, .int _, _, hf | .bool, .float _, _, hf
  | .bool, .list _, _, hf | .bool, .record _, _, hf => by simp [famTD] at hf
  | .anyList, .none, _, hf | .anyList, .str _, _, hf | .anyList, .int _, _, hf
  | .anyList, .float _, _, hf | .anyList, .bool _, _, hf | .anyList, .list (_ :: _), _, hf
  | .anyList, .record _, _, hf => by simp [famTD] at hf
  | .list _, .none, _, hf | .list _, .str _, _, hf | .list _, .int _, _, hf
  | .list _, .float _, _, hf | .list _, .bool _, _, hf | .list _, .record _, _, hf => by
    simp [famTD] at hf

end Rpft.Infer

namespace Rpft.Infer
open Rpft

/-! ### the loops of `model_from_headers_rec` on the headers of simple fields -/

theorem dictSet_fresh {α : Type} : ∀ (d : List (Str × α)) (k : Str) (v : α),
    (∀ p ∈ d, p.1 ≠ k) → dictSet d k v = d ++ [(k, v)]
  | [], _, _, _ => rfl
  | (k', v') :: d, k, v, h => by
    have h1 : k' ≠ k := h (k', v') (by simp)
    simp [dictSet, h1, dictSet_fresh d k v (fun p hp => h p (by simp [hp]))]

theorem renderTD_simple : ∀ (t : Ty) (d : Val), isSimple t d = true →
    renderTD t d = [annOf t ++ dflOf d]
  | .model _, _, h => by simp [isSimple] at h
  | .list _, .list (_ :: _), h => by simp [isSimple] at h
  | .list _, .list [], _ | .list _, .none, _ | .list _, .str _, _ | .list _, .int _, _
  | .list _, .float _, _ | .list _, .bool _, _ | .list _, .record _, _ => by simp [renderTD]
  | .str, _, _ | .int, _, _ | .float, _, _ | .bool, _, _ | .anyList, _, _ => by simp [renderTD]

/-- a record's simple fields, rendered, are read back one by one into `fields` -/
theorem pass1_simples : ∀ (S : List Field) (rest : List Str) (acc : List Field)
    (cx : List (Str × List Str)),
    (∀ f ∈ S, NameFits f.1 ∧ isSimple f.2.1 f.2.2 = true ∧ famTD f.2.1 f.2.2 = true) →
    nodupStr (S.map (fun f => f.1)) = true →
    (∀ f ∈ S, ∀ p ∈ acc, p.1 ≠ f.1) →
    pass1 (renderFs S ++ rest) (acc, cx) = pass1 rest (acc ++ S, cx)
  | [], rest, acc, cx, _, _, _ => by simp [renderFs]
  | (n, t, d) :: S, rest, acc, cx, h, hd, hacc => by
    have h0 := h (n, t, d) (by simp)
    have hn : NameFits n := h0.1
    have hs : isSimple t d = true := h0.2.1
    have hf : famTD t d = true := h0.2.2
    have lr := leaf_roundtrip hn t d hs hf
    simp only [nodupStr, List.map_cons, Bool.and_eq_true, Bool.not_eq_true',
      List.contains_eq_mem, decide_eq_false_iff_not] at hd
    have fresh : ∀ p ∈ acc, p.1 ≠ n := hacc (n, t, d) (by simp)
    have ih := pass1_simples S rest (acc ++ [(n, t, d)]) cx
      (fun f hf' => h f (by simp [hf'])) hd.2
      (by
        intro f hf' p hp
        rcases List.mem_append.mp hp with hp | hp
        · exact hacc f (by simp [hf']) p hp
        · simp at hp; subst hp
          intro e
          have e' : n = f.1 := e
          exact hd.1 (List.mem_map.mpr ⟨f, hf', e'.symm⟩))
    rw [renderFs, renderTD_simple t d hs]
    simp only [List.map_cons, List.map_nil, List.cons_append, List.nil_append]
    rw [pass1, lr.1]
    simp only [lr.2.2, lr.2.1]
    rw [dictSet_fresh acc n (t, d) fresh, ih]
    simp

theorem collectInts_none : ∀ (fs : List Field), (∀ f ∈ fs, pyInt f.1 = .invalid) →
    collectInts fs = .ok []
  | [], _ => rfl
  | (k, t, d) :: fs, h => by
    have h1 : pyInt k = .invalid := h (k, t, d) (by simp)
    simp [collectInts, h1, collectInts_none fs (fun f hf => h f (by simp [hf]))]

theorem shadowCheck_ok : ∀ (fs : List Field), (∀ f ∈ fs, shadowNames.contains f.1 = false) →
    shadowCheck fs = .ok ()
  | [], _ => rfl
  | (k, t, d) :: fs, h => by
    have h1 : shadowNames.contains k = false := h (k, t, d) (by simp)
    simp only [shadowCheck, h1]
    exact shadowCheck_ok fs (fun f hf => h f (by simp [hf]))

/-- no integer key, no refused name ⇒ `create_model` with exactly these fields -/
theorem finish_model (fs : List Field) (h1 : ∀ f ∈ fs, pyInt f.1 = .invalid)
    (h2 : ∀ f ∈ fs, (f.1.head? == some '_') = false)
    (h3 : ∀ f ∈ fs, shadowNames.contains f.1 = false) :
    finish fs = .ok (.model fs, defaultRecord fs) := by
  have h2' : fs.any (fun f => f.1.head? == some '_') = false := by
    rw [List.any_eq_false]; intro f hf; simp [h2 f hf]
  simp [finish, collectInts_none fs h1, nameCheck, h2', shadowCheck_ok fs h3]

/-- the hypotheses bundled in `namesOk`, unpacked -/
theorem namesOk_unpack {fs : List Field} (h : namesOk fs = true) :
    (∀ f ∈ fs, NameFits f.1) ∧ (∀ f ∈ fs, pyInt f.1 = .invalid) ∧
    (∀ f ∈ fs, (f.1.head? == some '_') = false) ∧
    (∀ f ∈ fs, shadowNames.contains f.1 = false) ∧
    nodupStr (fs.map (fun f => f.1)) = true ∧
    simpleFirst (fs.map (fun f => isSimple f.2.1 f.2.2)) = true := by
  simp only [namesOk, Bool.and_eq_true, List.all_eq_true, nameOk, Bool.not_eq_true',
    beq_iff_eq, List.contains_eq_mem, decide_eq_false_iff_not] at h
  obtain ⟨⟨ha, hd⟩, hs⟩ := h
  refine ⟨?_, ?_, ?_, ?_, hd, hs⟩
  · intro f hf
    obtain ⟨⟨⟨⟨⟨⟨a1, a2⟩, a3⟩, a4⟩, _⟩, _⟩, _⟩ := ha f hf
    exact ⟨a1, a2, a3, a4⟩
  · intro f hf; exact (ha f hf).2
  · intro f hf; exact (ha f hf).1.1.2
  · intro f hf
    have := (ha f hf).1.2
    simpa using this

theorem famFs_mem : ∀ {fs : List Field}, famFs fs = true → ∀ f ∈ fs, famTD f.2.1 f.2.2 = true
  | [], _, f, hf => by simp at hf
  | (n, t, d) :: fs, h, f, hf => by
    simp only [famFs, Bool.and_eq_true] at h
    rcases List.mem_cons.mp hf with e | e
    · subst e; exact h.1
    · exact famFs_mem h.2 f e

end Rpft.Infer
