/-
C18: "the same model up to the order of the fields" made explicit.

`Ty.norm` / `Val.norm` sort the fields of every record (type and default value), at every
depth, by field name (code-point order, a structural insertion sort so that the kernel can
evaluate it).  Two types are *equivalent* (`TyEquiv`) iff their normal forms are equal — the
same canonical form the harness compares on the real code (`canon_schema`).  Core Lean only.
-/
import Rpft.Lemmas.InferNested
set_option linter.unusedSimpArgs false
set_option linter.unusedVariables false
namespace Rpft.Infer
open Rpft

/-! ### a total order on strings, insertion sort by key -/

/-- lexicographic order by code point (Python's `str` order) -/
def strLe : Str → Str → Bool
  | [], _ => true
  | _ :: _, [] => false
  | a :: as, b :: bs =>
    if a.toNat < b.toNat then true else if a.toNat = b.toNat then strLe as bs else false

theorem strLe_total : ∀ (a b : Str), strLe a b = true ∨ strLe b a = true
  | [], _ => by simp [strLe]
  | _ :: _, [] => by simp [strLe]
  | a :: as, b :: bs => by
    simp only [strLe]
    rcases Nat.lt_trichotomy a.toNat b.toNat with h | h | h
    · simp [h]
    · have h' : ¬ a.toNat < b.toNat := by omega
      have h'' : ¬ b.toNat < a.toNat := by omega
      simp [h', h'', h, strLe_total as bs]
    · simp [h]

theorem strLe_trans : ∀ (a b c : Str), strLe a b = true → strLe b c = true → strLe a c = true
  | [], _, _, _, _ => by simp [strLe]
  | _ :: _, [], _, h, _ => by simp [strLe] at h
  | _ :: _, _ :: _, [], _, h => by simp [strLe] at h
  | a :: as, b :: bs, c :: cs, h1, h2 => by
    simp only [strLe] at h1 h2 ⊢
    split at h1
    · split at h2
      · have : a.toNat < c.toNat := by omega
        simp [this]
      · split at h2
        · have : a.toNat < c.toNat := by omega
          simp [this]
        · cases h2
    · split at h1
      · split at h2
        · have : a.toNat < c.toNat := by omega
          simp [this]
        · split at h2
          · have h3 : ¬ a.toNat < c.toNat := by omega
            have h4 : a.toNat = c.toNat := by omega
            simp [h3, h4, strLe_trans as bs cs h1 h2]
          · cases h2
      · cases h1

theorem strLe_antisymm : ∀ (a b : Str), strLe a b = true → strLe b a = true → a = b
  | [], [], _, _ => rfl
  | [], _ :: _, _, h => by simp [strLe] at h
  | _ :: _, [], h, _ => by simp [strLe] at h
  | a :: as, b :: bs, h1, h2 => by
    simp only [strLe] at h1 h2
    split at h1
    · split at h2
      · omega
      · split at h2
        · omega
        · cases h2
    · split at h1
      · next hne heq =>
        have h3 : ¬ b.toNat < a.toNat := by omega
        rw [if_neg h3, if_pos heq.symm] at h2
        rw [Char.toNat_inj.mp heq, strLe_antisymm as bs h1 h2]
      · cases h1

def insertK {α : Type} (key : α → Str) (a : α) : List α → List α
  | [] => [a]
  | b :: l => if strLe (key a) (key b) then a :: b :: l else b :: insertK key a l

/-- stable insertion sort by key -/
def isortK {α : Type} (key : α → Str) : List α → List α
  | [] => []
  | a :: l => insertK key a (isortK key l)

theorem insertK_perm {α : Type} (key : α → Str) (a : α) : ∀ (l : List α),
    (insertK key a l).Perm (a :: l)
  | [] => List.Perm.refl _
  | b :: l => by
    simp only [insertK]
    split
    · exact List.Perm.refl _
    · exact ((insertK_perm key a l).cons b).trans (List.Perm.swap a b l)

theorem isortK_perm {α : Type} (key : α → Str) : ∀ (l : List α), (isortK key l).Perm l
  | [] => List.Perm.refl _
  | a :: l => (insertK_perm key a _).trans ((isortK_perm key l).cons a)

theorem insertK_sorted {α : Type} (key : α → Str) (a : α) : ∀ (l : List α),
    l.Pairwise (fun x y => strLe (key x) (key y) = true) →
    (insertK key a l).Pairwise (fun x y => strLe (key x) (key y) = true)
  | [], _ => by simp [insertK]
  | b :: l, h => by
    have h' := List.pairwise_cons.mp h
    simp only [insertK]
    split
    · next hab =>
      refine List.pairwise_cons.mpr ⟨?_, h⟩
      intro y hy
      rcases List.mem_cons.mp hy with e | e
      · subst e; exact hab
      · exact strLe_trans _ _ _ hab (h'.1 y e)
    · next hab =>
      have hba : strLe (key b) (key a) = true := by
        rcases strLe_total (key a) (key b) with h0 | h0
        · exact absurd h0 hab
        · exact h0
      refine List.pairwise_cons.mpr ⟨?_, insertK_sorted key a l h'.2⟩
      intro y hy
      rcases List.mem_cons.mp ((insertK_perm key a l).subset hy) with e | e
      · subst e; exact hba
      · exact h'.1 y e

theorem isortK_sorted {α : Type} (key : α → Str) : ∀ (l : List α),
    (isortK key l).Pairwise (fun x y => strLe (key x) (key y) = true)
  | [] => by simp [isortK]
  | a :: l => insertK_sorted key a _ (isortK_sorted key l)

/-- lists with distinct keys that are permutations of each other sort to the same list -/
theorem isortK_eq_of_perm {α : Type} (key : α → Str) {l₁ l₂ : List α} (hp : l₁.Perm l₂)
    (hd : (l₁.map key).Nodup) : isortK key l₁ = isortK key l₂ := by
  apply List.Perm.eq_of_pairwise (le := fun x y => strLe (key x) (key y) = true)
  · intro a b ha hb h1 h2
    have ha' : a ∈ l₁ := (isortK_perm key l₁).subset ha
    have hb' : b ∈ l₁ := hp.symm.subset ((isortK_perm key l₂).subset hb)
    exact nodup_map_inj key hd ha' hb' (strLe_antisymm _ _ h1 h2)
  · exact isortK_sorted key l₁
  · exact isortK_sorted key l₂
  · exact (isortK_perm key l₁).trans (hp.trans (isortK_perm key l₂).symm)

/-! ### normal forms -/

mutual
/-- defaults with the fields of every record sorted by name -/
def Val.norm : Val → Val
  | .list vs => .list (Val.normL vs)
  | .record kvs => .record (isortK (fun p => p.1) (Val.normR kvs))
  | v => v
def Val.normL : List Val → List Val
  | [] => []
  | v :: vs => v.norm :: Val.normL vs
def Val.normR : List (Str × Val) → List (Str × Val)
  | [] => []
  | (k, v) :: kvs => (k, v.norm) :: Val.normR kvs
end

mutual
/-- types with the fields of every record sorted by name (defaults normalised as well) -/
def Ty.norm : Ty → Ty
  | .list t => .list t.norm
  | .model fs => .model (isortK (fun f => f.1) (Ty.normF fs))
  | t => t
def Ty.normF : List (Str × Ty × Val) → List (Str × Ty × Val)
  | [] => []
  | (k, t, d) :: fs => (k, t.norm, d.norm) :: Ty.normF fs
end

/-- **Equivalence up to field order**: equal after sorting the fields of every record. -/
def TyEquiv (a b : Ty) : Prop := a.norm = b.norm
def ValEquiv (a b : Val) : Prop := a.norm = b.norm

/-! structural equality of types is equality (so that `TyEquiv` is decidable by evaluation) -/

mutual
theorem Val.beq_refl : ∀ (a : Val), Val.beq a a = true
  | .none => rfl
  | .str _ | .int _ | .float _ | .bool _ => by simp [Val.beq]
  | .list as => by simp [Val.beq, Val.beqL_refl as]
  | .record as => by simp [Val.beq, Val.beqR_refl as]
theorem Val.beqL_refl : ∀ (a : List Val), Val.beqL a a = true
  | [] => rfl
  | x :: as => by simp [Val.beqL, Val.beq_refl x, Val.beqL_refl as]
theorem Val.beqR_refl : ∀ (a : List (Str × Val)), Val.beqR a a = true
  | [] => rfl
  | (k, x) :: as => by simp [Val.beqR, Val.beq_refl x, Val.beqR_refl as]
end

mutual
theorem Ty.eq_of_beq : ∀ (a b : Ty), Ty.beq a b = true → a = b
  | .str, b, h => by cases b <;> simp_all [Ty.beq]
  | .int, b, h => by cases b <;> simp_all [Ty.beq]
  | .float, b, h => by cases b <;> simp_all [Ty.beq]
  | .bool, b, h => by cases b <;> simp_all [Ty.beq]
  | .anyList, b, h => by cases b <;> simp_all [Ty.beq]
  | .list a, b, h => by
    cases b with
    | list b => rw [Ty.eq_of_beq a b (by simpa [Ty.beq] using h)]
    | _ => simp [Ty.beq] at h
  | .model as, b, h => by
    cases b with
    | model bs => rw [Ty.eqF_of_beqF as bs (by simpa [Ty.beq] using h)]
    | _ => simp [Ty.beq] at h
theorem Ty.eqF_of_beqF : ∀ (a b : List (Str × Ty × Val)), Ty.beqF a b = true → a = b
  | [], b, h => by cases b <;> simp_all [Ty.beqF]
  | (k, t, d) :: as, b, h => by
    cases b with
    | nil => simp [Ty.beqF] at h
    | cons y bs =>
      obtain ⟨k', t', d'⟩ := y
      simp only [Ty.beqF, Bool.and_eq_true, beq_iff_eq] at h
      rw [h.1.1.1, Ty.eq_of_beq t t' h.1.1.2, Val.eq_of_beq d d' h.1.2, Ty.eqF_of_beqF as bs h.2]
end

mutual
theorem Ty.beq_refl : ∀ (a : Ty), Ty.beq a a = true
  | .str | .int | .float | .bool | .anyList => rfl
  | .list a => by simp [Ty.beq, Ty.beq_refl a]
  | .model as => by simp [Ty.beq, Ty.beqF_refl as]
theorem Ty.beqF_refl : ∀ (a : List (Str × Ty × Val)), Ty.beqF a a = true
  | [] => rfl
  | (k, t, d) :: as => by simp [Ty.beqF, Ty.beq_refl t, Val.beq_refl d, Ty.beqF_refl as]
end

theorem tyEquiv_iff_beq (a b : Ty) : TyEquiv a b ↔ Ty.beq a.norm b.norm = true :=
  ⟨fun h => by rw [show a.norm = b.norm from h]; exact Ty.beq_refl _, Ty.eq_of_beq _ _⟩

instance (a b : Ty) : Decidable (TyEquiv a b) := decidable_of_iff _ (tyEquiv_iff_beq a b).symm

/-- `infer hs` succeeded with a model equivalent to `t` -/
def inferEquivB (hs : List Str) (t : Ty) : Bool :=
  match infer hs with
  | .ok t' => decide (TyEquiv t' t)
  | .error _ => false

def normField (f : Field) : Field := (f.1, f.2.1.norm, f.2.2.norm)

theorem Val.normL_eq_map : ∀ (vs : List Val), Val.normL vs = vs.map Val.norm
  | [] => rfl
  | v :: vs => by simp [Val.normL, Val.normL_eq_map vs]

theorem Val.normR_eq_map : ∀ (kvs : List (Str × Val)),
    Val.normR kvs = kvs.map (fun p => (p.1, p.2.norm))
  | [] => rfl
  | (k, v) :: kvs => by simp [Val.normR, Val.normR_eq_map kvs]

theorem Ty.normF_eq_map : ∀ (fs : List Field), Ty.normF fs = fs.map normField
  | [] => rfl
  | (k, t, d) :: fs => by simp [Ty.normF, Ty.normF_eq_map fs, normField]

end Rpft.Infer
