/-
Facts used by the lock-step simulation (`Lemmas/CoreSim.lean`) that do not mention the simulation
relation: list facts about the out-edges of one row, the tests the compiler stores, what the node
constructors build for the rows of the fragment, pass 1 edge by edge.
-/
import Rpft.CoreSheet
import Rpft.Lemmas.CompileInvA4
import Rpft.Lemmas.RefFlowPass1
import Rpft.Lemmas.CompileChoice
import Mathlib.Data.List.Forall2
import Mathlib.Data.List.Infix
set_option linter.unusedSimpArgs false
set_option linter.unusedVariables false
namespace Rpft.CoreSheet
open Rpft Rpft.Compile Rpft.RefFlow

/-- the out-edges recorded so far that leave row `j`, in order -/
def outOf (st : P1) (j : Nat) : List OutEdge := st.out.reverse.filter (·.src = j)

theorem outOf_cons_same (st : P1) (e : OutEdge) :
    outOf { st with out := e :: st.out } e.src = outOf st e.src ++ [e] := by
  simp [outOf, List.filter_append]

theorem outOf_cons_other (st : P1) (e : OutEdge) (j : Nat) (h : e.src ≠ j) :
    outOf { st with out := e :: st.out } j = outOf st j := by
  simp [outOf, List.filter_append, h]

theorem wp_fuelOf (s : St) (Q : Nat → St → Prop) : wp fuelOf s Q ↔ Q (2 * s.groups.size + 8) s := by
  unfold fuelOf; wp_simp

theorem wp_groupOfEdge (e : Compile.Edge) (s : St) (Q : Option Nat → St → Prop) :
    wp (groupOfEdge e) s Q ↔
      if e.from_ = "start".toList then Q none s
      else if e.from_ = [] then Q (mostRecentIn s.groups s.stack) s
      else match (s.rowIds.find? (·.1 = e.from_)).map (·.2) with
        | some g => Q (some g) s
        | none => True := by
  unfold groupOfEdge lookupRow mostRecent
  by_cases hs : e.from_ = "start".toList
  · simp only [hs, if_true]; wp_simp
  · by_cases hemp : e.from_ = []
    · have : ¬ ([] : Str) = "start".toList := by decide
      simp only [hemp, this, if_true, if_false]; wp_simp; simp
    · simp only [hs, hemp, if_false]
      wp_simp [List.isEmpty_iff, hemp]
      simp only [not_false_eq_true, true_implies, not_true_eq_false, false_implies, and_true]
      generalize Option.map (fun x => x.snd) (List.find? (fun x => decide (x.fst = e.from_)) s.rowIds) = o
      cases o <;> wp_simp

theorem toRCond_blank (c : Compile.Cond) : (toRCond c).blank = c.blank := rfl

/-! ### list facts about the out-edges of one row -/

theorem getLast?_append_singleton {α} (l : List α) (a : α) : (l ++ [a]).getLast? = some a := by
  simp [List.getLast?_append]

theorem testsOf_append_skip (k : Kind) (es : List OutEdge) (e : OutEdge)
    (h : e.cond.blank = true ∨ (k = .wait ∧ isNR e.cond = true)) : testsOf k (es ++ [e]) = testsOf k es := by
  unfold testsOf
  rw [List.filter_append, List.filter_append]
  rcases h with h | ⟨h1, h2⟩
  · simp [h]
  · by_cases hb : e.cond.blank = true
    · simp [hb]
    · simp [hb, h1, h2]

theorem testsOf_append_test (k : Kind) (es : List OutEdge) (e : OutEdge) (hb : e.cond.blank = false)
    (h : ¬ (k = .wait ∧ isNR e.cond = true)) : testsOf k (es ++ [e]) = testsOf k es ++ [e] := by
  unfold testsOf
  rw [List.filter_append, List.filter_append]
  have : (decide (k = Kind.wait) && isNR e.cond) = false := by
    by_cases h1 : k = .wait
    · have : isNR e.cond = false := by
        cases hh : isNR e.cond
        · rfl
        · exact absurd ⟨h1, hh⟩ h
      simp [h1, this]
    · simp [h1]
  simp only [Bool.and_eq_false_iff, decide_eq_false_iff_not] at this
  simp [hb, this]

theorem blanks_append_blank (es : List OutEdge) (e : OutEdge) (h : e.cond.blank = true) :
    (es ++ [e]).filter (·.cond.blank) = es.filter (·.cond.blank) ++ [e] := by
  simp [List.filter_append, h]

theorem blanks_append_cond (es : List OutEdge) (e : OutEdge) (h : e.cond.blank = false) :
    (es ++ [e]).filter (·.cond.blank) = es.filter (·.cond.blank) := by
  simp [List.filter_append, h]

theorem nrs_append_nr (es : List OutEdge) (e : OutEdge) (hb : e.cond.blank = false) (h : isNR e.cond = true) :
    ((es ++ [e]).filter (fun e => !e.cond.blank)).filter (fun e => isNR e.cond) =
      (es.filter (fun e => !e.cond.blank)).filter (fun e => isNR e.cond) ++ [e] := by
  simp [List.filter_append, hb, h]

theorem nrs_append_other (es : List OutEdge) (e : OutEdge) (h : e.cond.blank = true ∨ isNR e.cond = false) :
    ((es ++ [e]).filter (fun e => !e.cond.blank)).filter (fun e => isNR e.cond) =
      (es.filter (fun e => !e.cond.blank)).filter (fun e => isNR e.cond) := by
  rcases h with h | h
  · simp [List.filter_append, h]
  · by_cases hb : e.cond.blank = true
    · simp [List.filter_append, hb]
    · simp [List.filter_append, hb, h]

theorem isNR_toRCond (c : Compile.Cond) : isNR (toRCond c) = decide (Compile.lower c.value = "no response".toList) := rfl

theorem set_getElem?_self {ns : Array NodeM} {j : Nat} {n : NodeM} (n' : NodeM) (hn : ns[j]? = some n) :
    (ns.setIfInBounds j n')[j]? = some n' := by
  simp [Array.getElem?_setIfInBounds, (Array.getElem?_eq_some_iff.mp hn).1]

theorem set_getElem?_other (ns : Array NodeM) (j i : Nat) (n' : NodeM) (h : i ≠ j) :
    (ns.setIfInBounds j n')[i]? = ns[i]? := by
  simp [Array.getElem?_setIfInBounds, Ne.symm h]

theorem switch_type_of_kind {t : Str}
    (hk : kindOf t = .wait ∨ kindOf t = .splitValue ∨ kindOf t = .splitGroup) :
    t = "wait_for_response".toList ∨ t = "split_by_value".toList ∨ t = "split_by_group".toList := by
  by_cases h1 : t = "wait_for_response".toList
  · exact .inl h1
  by_cases h2 : t = "split_by_value".toList
  · exact .inr (.inl h2)
  by_cases h3 : t = "split_by_group".toList
  · exact .inr (.inr h3)
  exfalso
  unfold kindOf at hk
  rw [if_neg h1, if_neg h2, if_neg h3] at hk
  by_cases h4 : t = "split_random".toList
  · rw [if_pos h4] at hk; rcases hk with hk | hk | hk <;> cases hk
  rw [if_neg h4] at hk
  by_cases h5 : t = "start_new_flow".toList
  · rw [if_pos h5] at hk; rcases hk with hk | hk | hk <;> cases hk
  rw [if_neg h5] at hk
  by_cases h6 : t = "call_webhook".toList
  · rw [if_pos h6] at hk; rcases hk with hk | hk | hk <;> cases hk
  rw [if_neg h6] at hk
  by_cases h7 : t = "transfer_airtime".toList
  · rw [if_pos h7] at hk; rcases hk with hk | hk | hk <;> cases hk
  rw [if_neg h7] at hk
  by_cases h8 : t = "no_op".toList
  · rw [if_pos h8] at hk; rcases hk with hk | hk | hk <;> cases hk
  rw [if_neg h8] at hk
  by_cases h9 : t = "go_to".toList
  · rw [if_pos h9] at hk; rcases hk with hk | hk | hk <;> cases hk
  rw [if_neg h9] at hk
  by_cases h10 : t = "hard_exit".toList
  · rw [if_pos h10] at hk; rcases hk with hk | hk | hk <;> cases hk
  rw [if_neg h10] at hk
  by_cases h11 : t = "loose_exit".toList
  · rw [if_pos h11] at hk; rcases hk with hk | hk | hk <;> cases hk
  rw [if_neg h11] at hk
  rcases hk with hk | hk | hk <;> cases hk

theorem kindOf_wait : kindOf "wait_for_response".toList = .wait := by decide
theorem kindOf_value : kindOf "split_by_value".toList = .splitValue := by decide
theorem kindOf_group : kindOf "split_by_group".toList = .splitGroup := by decide

theorem hasGroup_not_noArgs : RefFlow.noArgsTests.contains "has_group".toList = false := by decide

theorem ne_wg : ¬ ("wait_for_response".toList = "split_by_group".toList) := by decide
theorem ne_wv : ¬ ("wait_for_response".toList = "split_by_value".toList) := by decide
theorem ne_vg : ¬ ("split_by_value".toList = "split_by_group".toList) := by decide
theorem ne_gv : ¬ ("split_by_group".toList = "split_by_value".toList) := by decide

/-- the test the compiler stores for a conditional edge leaving a deciding row is the reference's -/
theorem stored_test (t : Str) (cond : Compile.Cond)
    (htype : t = "wait_for_response".toList ∨ t = "split_by_value".toList ∨ t = "split_by_group".toList) :
    ((if (if t = "split_by_group".toList then "has_group".toList else cond.type).isEmpty = true
        then "has_any_word".toList
        else (if t = "split_by_group".toList then "has_group".toList else cond.type)),
      (if RefFlow.noArgsTests.contains
          (if (if t = "split_by_group".toList then "has_group".toList else cond.type).isEmpty = true
            then "has_any_word".toList
            else (if t = "split_by_group".toList then "has_group".toList else cond.type)) = true
        then ([] : List (Option Str))
        else (if t = "split_by_group".toList then [none, some cond.value] else [some cond.value])).map (·.getD [])) =
      refTest (kindOf t) (toRCond cond) := by
  have hne : ("has_group".toList).isEmpty = false := by decide
  have plain : ∀ (k : Kind), k ≠ .splitGroup →
      ((if cond.type.isEmpty = true then "has_any_word".toList else cond.type),
        (if RefFlow.noArgsTests.contains (if cond.type.isEmpty = true then "has_any_word".toList else cond.type) = true
          then ([] : List (Option Str)) else [some cond.value]).map (·.getD [])) = refTest k (toRCond cond) := by
    intro k hk
    unfold refTest
    rw [if_neg hk]
    unfold RefFlow.condTest toRCond
    simp only
    generalize (if cond.type.isEmpty = true then "has_any_word".toList else cond.type) = ty
    cases RefFlow.noArgsTests.contains ty <;> rfl
  rcases htype with h | h | h
  · subst h
    simp only [ne_wg, if_false]
    rw [kindOf_wait]
    exact plain _ (by decide)
  · subst h
    simp only [ne_vg, if_false]
    rw [kindOf_value]
    exact plain _ (by decide)
  · subst h
    simp only [if_true, hne, Bool.false_eq_true, if_false, hasGroup_not_noArgs]
    rw [kindOf_group]
    rfl

/-- the operand the compiler passes to `add_choice` leaves the operand of a deciding row alone -/
theorem operand_kept (t : Str) (cond : Compile.Cond) (n : NodeM) (r : SwitchR) (c : CRow) (hr : n.router = some (.sw r))
    (ht : c.row.type = t)
    (htype : t = "wait_for_response".toList ∨ t = "split_by_value".toList ∨ t = "split_by_group".toList)
    (hvar : t = "wait_for_response".toList → cond.var = []) (hop : r.operand = operandOf c.row) :
    (if (if t = "split_by_group".toList ∨ t = "split_by_value".toList
          then (Compile.operandOf n, (none : Option Nat))
          else if ¬ cond.var.isEmpty = true then (cond.var, none) else ("@input.text".toList, some 0)).1.isEmpty = true
      then r.operand
      else (if t = "split_by_group".toList ∨ t = "split_by_value".toList
          then (Compile.operandOf n, (none : Option Nat))
          else if ¬ cond.var.isEmpty = true then (cond.var, none) else ("@input.text".toList, some 0)).1) = r.operand := by
  have hsplit : (if (Compile.operandOf n).isEmpty = true then r.operand else Compile.operandOf n) = r.operand := by
    simp only [Compile.operandOf, hr]
    split <;> rfl
  rcases htype with h | h | h
  · have hv := hvar h
    subst h
    rw [if_neg (show ¬ ("wait_for_response".toList = "split_by_group".toList ∨
      "wait_for_response".toList = "split_by_value".toList) from fun hh => hh.elim ne_wg ne_wv), hv]
    have e0 : (if ¬ ([] : Str).isEmpty = true then (([] : Str), (none : Option Nat)) else ("@input.text".toList, some 0)) =
        ("@input.text".toList, some 0) := rfl
    rw [e0]
    have : ("@input.text".toList).isEmpty = false := by decide
    show (if ("@input.text".toList).isEmpty = true then r.operand else "@input.text".toList) = r.operand
    rw [this, if_neg (by decide : ¬ (false = true))]
    rw [hop]; unfold CoreSheet.operandOf
    rw [ht]
    have e1 : ¬ ("wait_for_response".toList = "start_new_flow".toList) := by decide
    have e2 : ¬ ("wait_for_response".toList = "call_webhook".toList) := by decide
    have e3 : ¬ ("wait_for_response".toList = "transfer_airtime".toList) := by decide
    rw [if_neg e1, if_neg e2, if_neg e3, if_pos rfl]
  · subst h
    rw [if_pos (show ("split_by_value".toList = "split_by_group".toList ∨
      "split_by_value".toList = "split_by_value".toList) from Or.inr rfl)]
    exact hsplit
  · subst h
    rw [if_pos (show ("split_by_group".toList = "split_by_group".toList ∨
      "split_by_group".toList = "split_by_value".toList) from Or.inl rfl)]
    exact hsplit

/-! ### one out-edge, by kind of the source row -/


def edgeStep (st : P1) (k : Nat) (e : REdge) (t : Target) : Except WfErr P1 :=
  match edgeSrc st k e with
  | .error err => .error err
  | .ok none => .ok st
  | .ok (some j) => .ok { st with out := { src := j, cond := e.cond, tgt := t } :: st.out }

theorem addEdges_nil (st : P1) (k : Nat) : addEdges st k [] = .ok st := rfl

theorem addEdges_cons (st : P1) (k : Nat) (e : REdge) (t : Target) (es : List (REdge × Target)) :
    addEdges st k ((e, t) :: es) =
      match edgeStep st k e t with
      | .error err => .error err
      | .ok st1 => addEdges st1 k es := by
  simp only [addEdges, List.foldlM_cons, edgeStep, bind, Except.bind]
  cases edgeSrc st k e with
  | error err => rfl
  | ok o => cases o <;> rfl

theorem edgeStep_prefix {st st1 : P1} {k : Nat} {e : REdge} {t : Target} (h : edgeStep st k e t = .ok st1) :
    st.out.reverse <+: st1.out.reverse ∧ st1.ids = st.ids ∧ st1.prev = st.prev := by
  unfold edgeStep at h
  split at h
  · cases h
  · injection h with h; subst h; exact ⟨List.prefix_rfl, rfl, rfl⟩
  · injection h with h; subst h
    exact ⟨by simp only [List.reverse_cons]; exact List.prefix_append _ _, rfl, rfl⟩

theorem addEdges_prefix : ∀ (es : List (REdge × Target)) (st st' : P1) (k : Nat),
    addEdges st k es = .ok st' → st.out.reverse <+: st'.out.reverse := by
  intro es
  induction es with
  | nil => intro st st' k h; rw [addEdges_nil] at h; injection h with h; subst h; exact List.prefix_rfl
  | cons p es ih =>
    intro st st' k h
    obtain ⟨e, t⟩ := p
    rw [addEdges_cons] at h
    cases h1 : edgeStep st k e t with
    | error err => rw [h1] at h; cases h
    | ok st1 =>
      rw [h1] at h
      exact (edgeStep_prefix h1).1.trans (ih st1 st' k h)

theorem not_special {t : Str} (h : specialTypes.contains t = false) :
    t ≠ "wait_for_response".toList ∧ t ≠ "split_by_value".toList ∧ t ≠ "split_by_group".toList ∧
    t ≠ "split_random".toList ∧ t ≠ "start_new_flow".toList ∧ t ≠ "call_webhook".toList ∧
    t ≠ "transfer_airtime".toList ∧ t ≠ "no_op".toList ∧ t ≠ "go_to".toList ∧ t ≠ "hard_exit".toList ∧
    t ≠ "loose_exit".toList ∧ t ≠ "insert_as_block".toList := by
  have hm : ∀ x ∈ specialTypes, t ≠ x := by
    intro x hx e
    have : specialTypes.contains t = true := by rw [List.contains_iff_mem, e]; exact hx
    rw [h] at this; cases this
  exact ⟨hm _ (by decide), hm _ (by decide), hm _ (by decide), hm _ (by decide), hm _ (by decide),
    hm _ (by decide), hm _ (by decide), hm _ (by decide), hm _ (by decide), hm _ (by decide),
    hm _ (by decide), hm _ (by decide)⟩

theorem kindOf_action {t : Str} (h : specialTypes.contains t = false) : kindOf t = .action := by
  obtain ⟨h1, h2, h3, h4, h5, h6, h7, h8, h9, h10, h11, _⟩ := not_special h
  unfold kindOf
  rw [if_neg h1, if_neg h2, if_neg h3, if_neg h4, if_neg h5, if_neg h6, if_neg h7, if_neg h8, if_neg h9,
    if_neg h10, if_neg h11]

theorem switch_type {t : Str} (h : switchTypes.contains t = true) :
    t = "wait_for_response".toList ∨ t = "split_by_value".toList ∨ t = "split_by_group".toList := by
  rw [List.contains_iff_mem] at h
  simp only [switchTypes, List.map_cons, List.map_nil, List.mem_cons, List.not_mem_nil, or_false] at h
  exact h

theorem kindOf_switch {t : Str}
    (h : t = "wait_for_response".toList ∨ t = "split_by_value".toList ∨ t = "split_by_group".toList) :
    kindOf t = .wait ∨ kindOf t = .splitValue ∨ kindOf t = .splitGroup := by
  rcases h with h | h | h <;> subst h
  · exact .inl kindOf_wait
  · exact .inr (.inl kindOf_value)
  · exact .inr (.inr kindOf_group)

/-- the node of an action row -/
theorem rowNode_plain (r : Row) (act : Option (Uid × Str)) (s : St) (h : specialTypes.contains r.type = false) :
    wp (rowNode r act) s (fun n s' => (∃ k, Bump s s' k) ∧ n.kind = NodeKind.basic ∧ n.router = none ∧
      n.actions = act.toList ∧ n.dexitDest = Dest.none) := by
  obtain ⟨h1, h2, h3, h4, h5, h6, h7, _, _, _, _, _⟩ := not_special h
  unfold rowNode
  wp_simp
  refine ⟨fun _ => ⟨fun _ => ?_, fun _ => ⟨fun hh => absurd hh h5, fun _ => ⟨fun hh => ?_, fun _ =>
    ⟨fun hh => absurd hh h1, fun _ => ⟨fun hh => absurd hh h2, fun _ => ⟨fun hh => absurd hh h3, fun _ =>
    ⟨fun hh => absurd hh h4, fun _ => ?_⟩⟩⟩⟩⟩⟩⟩, fun _ => trivial⟩
  · unfold basicNode
    wp_simp [wp_newBasic]
    refine wp_mono (nodeUid_spec _ _) ?_
    intro u s1 ⟨j, hb, _⟩; subst hb
    refine ⟨⟨j + 2, by simp [Bump, Nat.add_assoc]⟩, ?_⟩
    cases act <;> simp [NodeM.withAct]
  · rcases hh with hh | hh
    · exact absurd hh h6
    · exact absurd hh h7
  · unfold otherNode
    wp_simp [wp_fresh']
    refine wp_mono (nodeUid_spec _ _) ?_
    intro u s1 ⟨j, hb, _⟩; subst hb
    refine ⟨⟨j + 1, by simp [Bump, Nat.add_assoc]⟩, ?_⟩
    cases act <;> simp [NodeM.withAct]

/-- what a freshly built switch router looks like -/
structure FreshSw (sw : SwitchR) (operand : Str) (rn : Option Str) (wait : Option Nat) : Prop where
  operand : sw.operand = operand
  rname : sw.resultName = rn
  wait : sw.wait = wait
  nrSome : sw.noResp.isSome = true ↔ ∃ m, sw.wait = some (m + 1)
  cases : sw.cases = []
  cats : sw.cats = []
  dflt : sw.dflt.dest = Dest.none
  nr : ∀ nr, sw.noResp = some nr → nr.dest = Dest.none
  dname : sw.dflt.name = "Other".toList
  nrname : ∀ nr, sw.noResp = some nr → nr.name = "No Response".toList

theorem newSwitch_fresh (operand : Str) (rn : Option Str) (wait : Option Nat) (s : St) :
    wp (newSwitch operand rn wait) s (fun sw s' => (∃ k, Bump s s' k) ∧ FreshSw sw operand rn wait) := by
  rw [wp_newSwitch]
  rcases wait with _ | _ | m
  · exact ⟨⟨2, rfl⟩, ⟨rfl, rfl, rfl, by simp, rfl, rfl, rfl, (by intro nr h; cases h), rfl, (by intro nr h; cases h)⟩⟩
  · exact ⟨⟨2, rfl⟩, ⟨rfl, rfl, rfl, by simp, rfl, rfl, rfl, (by intro nr h; cases h), rfl, (by intro nr h; cases h)⟩⟩
  · refine ⟨⟨4, rfl⟩, ⟨rfl, rfl, rfl, by simp, rfl, rfl, rfl, ?_, rfl, ?_⟩⟩
    · intro nr h; simp only [Option.some.injEq] at h; subst h; rfl
    · intro nr h; simp only [Option.some.injEq] at h; subst h; rfl

theorem not_basic_w : basicTypes.contains "wait_for_response".toList = false := by decide
theorem not_basic_v : basicTypes.contains "split_by_value".toList = false := by decide
theorem not_basic_g : basicTypes.contains "split_by_group".toList = false := by decide

/-- the node of a deciding row -/
theorem rowNode_switch (r : Row) (act : Option (Uid × Str)) (s : St)
    (ht : r.type = "wait_for_response".toList ∨ r.type = "split_by_value".toList ∨ r.type = "split_by_group".toList) :
    wp (rowNode r act) s (fun n s' => (∃ k, Bump s s' k) ∧ n.kind = NodeKind.switch ∧ n.actions = [] ∧
      ∃ sw, n.router = some (.sw sw) ∧
        FreshSw sw (operandOf r) (some r.saveName)
          (if r.type = "wait_for_response".toList then some (timeoutOf r) else none)) := by
  unfold rowNode
  wp_simp
  refine ⟨fun _ => ?_, fun _ => trivial⟩
  have tail : ∀ (u : Uid) (s1 : St) (j : Nat) (operand : Str) (w : Option Nat), Bump s s1 j →
      wp (newSwitch operand (some r.saveName) w) s1 (fun sw s2 =>
        wp (newRouterNode u NodeKind.switch (RouterM.sw sw)) s2 (fun n s' =>
          (∃ k, Bump s s' k) ∧ n.kind = NodeKind.switch ∧ n.actions = [] ∧
            ∃ sw, n.router = some (.sw sw) ∧ FreshSw sw operand (some r.saveName) w)) := by
    intro u s1 j operand w hb
    subst hb
    refine wp_mono (newSwitch_fresh _ _ _ _) ?_
    intro sw s2 ⟨⟨k, hb2⟩, hfr⟩; subst hb2
    rw [wp_newRouterNode]
    exact ⟨⟨j + k + 1, by simp [Bump, Nat.add_assoc]⟩, rfl, rfl, sw, rfl, hfr⟩
  rcases ht with h | h | h
  · -- wait_for_response
    have e0 : basicTypes.contains r.type = false := by rw [h]; exact not_basic_w
    have e1 : ¬ r.type = "start_new_flow".toList := by rw [h]; decide
    have e2 : ¬ (r.type = "call_webhook".toList ∨ r.type = "transfer_airtime".toList) := by
      rw [h]; rintro (hh | hh) <;> exact absurd hh (by decide)
    refine ⟨fun hh => (by rw [e0] at hh; cases hh), fun _ => ⟨fun hh => absurd hh e1, fun _ =>
      ⟨fun hh => absurd hh e2, fun _ => ⟨fun _ => ?_, fun hh => absurd h hh⟩⟩⟩⟩
    unfold waitNode
    wp_simp
    refine wp_mono (nodeUid_spec _ _) ?_
    intro u s1 ⟨j, hb, _⟩
    have hop : operandOf r = "@input.text".toList := by
      unfold CoreSheet.operandOf
      rw [h, if_neg (by decide), if_neg (by decide), if_neg (by decide), if_pos rfl]
    rw [if_pos h, hop]
    have hto : timeoutOf r = (parseNat? r.noResponse).getD 0 := by unfold timeoutOf; rw [if_pos h]
    constructor
    · intro hemp
      have : timeoutOf r = 0 := by
        rw [hto]; unfold parseNat?; rw [if_pos hemp]; rfl
      rw [this]
      exact tail u s1 j _ _ hb
    · intro _
      split
      · rename_i m hm
        wp_simp
        have : timeoutOf r = m := by rw [hto, hm]; rfl
        rw [this]
        exact tail u s1 j _ _ hb
      · wp_simp
  · -- split_by_value
    have e0 : basicTypes.contains r.type = false := by rw [h]; exact not_basic_v
    have e1 : ¬ r.type = "start_new_flow".toList := by rw [h]; decide
    have e2 : ¬ (r.type = "call_webhook".toList ∨ r.type = "transfer_airtime".toList) := by
      rw [h]; rintro (hh | hh) <;> exact absurd hh (by decide)
    have e3 : ¬ r.type = "wait_for_response".toList := by rw [h]; decide
    refine ⟨fun hh => (by rw [e0] at hh; cases hh), fun _ => ⟨fun hh => absurd hh e1, fun _ =>
      ⟨fun hh => absurd hh e2, fun _ => ⟨fun hh => absurd hh e3, fun _ => ⟨fun _ => ?_, fun hh => absurd h hh⟩⟩⟩⟩⟩
    unfold splitValueNode
    wp_simp
    refine wp_mono (nodeUid_spec _ _) ?_
    intro u s1 ⟨j, hb, _⟩
    refine ⟨fun _ => trivial, fun _ => ?_⟩
    have hop : operandOf r = r.expression := by
      unfold CoreSheet.operandOf
      rw [h, if_neg (by decide), if_neg (by decide), if_neg (by decide), if_neg (by decide), if_pos rfl]
    rw [if_neg e3, hop]
    exact tail u s1 j _ _ hb
  · -- split_by_group
    have e0 : basicTypes.contains r.type = false := by rw [h]; exact not_basic_g
    have e1 : ¬ r.type = "start_new_flow".toList := by rw [h]; decide
    have e2 : ¬ (r.type = "call_webhook".toList ∨ r.type = "transfer_airtime".toList) := by
      rw [h]; rintro (hh | hh) <;> exact absurd hh (by decide)
    have e3 : ¬ r.type = "wait_for_response".toList := by rw [h]; decide
    have e4 : ¬ r.type = "split_by_value".toList := by rw [h]; decide
    refine ⟨fun hh => (by rw [e0] at hh; cases hh), fun _ => ⟨fun hh => absurd hh e1, fun _ =>
      ⟨fun hh => absurd hh e2, fun _ => ⟨fun hh => absurd hh e3, fun _ => ⟨fun hh => absurd hh e4, fun _ =>
      ⟨fun _ => ?_, fun hh => absurd h hh⟩⟩⟩⟩⟩⟩
    unfold splitGroupNode
    wp_simp
    refine wp_mono (nodeUid_spec _ _) ?_
    intro u s1 ⟨j, hb, _⟩
    have hop : operandOf r = "@contact.groups".toList := by
      unfold CoreSheet.operandOf
      rw [h, if_neg (by decide), if_neg (by decide), if_neg (by decide), if_neg (by decide), if_neg (by decide),
        if_pos rfl]
    rw [if_neg e3, hop]
    exact tail u s1 j _ _ hb


theorem trivial_toREdge (e : Compile.Edge) : isTrivial (toREdge e) = e.trivial := rfl

theorem dropTrivial_ref (es : List Compile.Edge) :
    ((es.map toREdge).zipIdx.filter fun (p : REdge × Nat) => p.2 = 0 || !isTrivial p.1).map (·.1) =
      (dropTrivial es).map toREdge := by
  unfold dropTrivial
  rw [List.zipIdx_map, List.filter_map, List.map_map, List.map_map]
  congr 1

theorem rowAction_exact (r : Row) (s : St) :
    wp (rowAction r) s (fun act s' => (∃ k, Bump s s' k) ∧ act.map (·.2) = r.action) := by
  unfold rowAction
  split
  · rename_i a ha
    wp_simp [wp_fresh']
    exact ⟨⟨1, rfl⟩, by simp [ha]⟩
  · rename_i ha
    wp_simp
    exact ⟨⟨0, rfl⟩, by simp [ha]⟩


/-! ### the buckets of a `split_random` row -/

/-- one leaving edge: an unnamed bucket is new, a named bucket is new unless the name is in use (then
the bucket takes the edge's target) -/
def bstep (acc : List (Str × Target) × Nat) (e : OutEdge) : List (Str × Target) × Nat :=
  if (bucketName e.cond).isEmpty then (acc.1 ++ [("#".toList ++ RefFlow.natStr acc.2, e.tgt)], acc.2 + 1)
  else if acc.1.any (fun p => decide (p.1 = bucketName e.cond)) then
    (acc.1.map (fun p => if p.1 = bucketName e.cond then (p.1, e.tgt) else p), acc.2)
  else (acc.1 ++ [(bucketName e.cond, e.tgt)], acc.2)

/-- the buckets (name, target) of the edges leaving a `split_random` row, and the number of unnamed
ones -/
def bucketsOf (es : List OutEdge) : List (Str × Target) × Nat := es.foldl bstep ([], 0)

theorem bucketsOf_append (es : List OutEdge) (e : OutEdge) : bucketsOf (es ++ [e]) = bstep (bucketsOf es) e := by
  simp [bucketsOf, List.foldl_append]

/-- names of corresponding buckets: the same explicit name (none of the generated forms), or the two
generated names -/
def NameRel (cn bn : Str) : Prop :=
  (cn = bn ∧ bn ≠ [] ∧ bn.take 7 ≠ "Bucket ".toList ∧ bn.head? ≠ some '#') ∨
  (cn.take 7 = "Bucket ".toList ∧ bn.head? = some '#')

theorem bucketNameOk_spec {nm : Str} (h : bucketNameOk nm = true) (hne : nm ≠ []) :
    nm.take 7 ≠ "Bucket ".toList ∧ nm.head? ≠ some '#' := by
  unfold bucketNameOk at h
  have : nm.isEmpty = false := by cases nm with | nil => exact absurd rfl hne | cons _ _ => rfl
  rw [this, Bool.false_or] at h
  simp only [Bool.not_eq_true', Bool.or_eq_false_iff, decide_eq_false_iff_not] at h
  exact h

/-- an explicit bucket name is found on one side iff it is found on the other -/
theorem NameRel.eq_iff {cn bn nm : Str} (h : NameRel cn bn) (h1 : nm.take 7 ≠ "Bucket ".toList)
    (h2 : nm.head? ≠ some '#') : cn = nm ↔ bn = nm := by
  rcases h with ⟨e, _, _, _⟩ | ⟨e1, e2⟩
  · rw [e]
  · constructor
    · intro e; rw [e] at e1; exact absurd e1 h1
    · intro e; rw [e] at e2; exact absurd e2 h2

theorem forall2_map_mem {α β γ δ} {R : α → β → Prop} {S : γ → δ → Prop} {f : α → γ} {g : β → δ} :
    ∀ {l1 : List α} {l2 : List β}, List.Forall₂ R l1 l2 → (∀ a b, a ∈ l1 → R a b → S (f a) (g b)) →
      List.Forall₂ S (l1.map f) (l2.map g) := by
  intro l1 l2 h
  induction h with
  | nil => intro _; exact .nil
  | cons hab _ ih =>
    intro himp
    exact .cons (himp _ _ (by simp) hab) (ih (fun a b ha => himp a b (by simp [ha])))

theorem forall2_any_iff {α β} {R : α → β → Prop} {p : α → Bool} {q : β → Bool} :
    ∀ {l1 : List α} {l2 : List β}, List.Forall₂ R l1 l2 → (∀ a b, R a b → p a = q b) → l1.any p = l2.any q := by
  intro l1 l2 h
  induction h with
  | nil => intro _; rfl
  | cons hab _ ih => intro himp; simp only [List.any_cons, himp _ _ hab, ih himp]

theorem bstep_tgt (acc : List (Str × Target) × Nat) (e : OutEdge) (P : Target → Prop) (hP : P e.tgt)
    (h : ∀ b ∈ acc.1, P b.2) : ∀ b ∈ (bstep acc e).1, P b.2 := by
  unfold bstep
  intro b hb
  split at hb
  · simp only [List.mem_append, List.mem_singleton] at hb
    rcases hb with hb | hb
    · exact h b hb
    · rw [hb]; exact hP
  · split at hb
    · obtain ⟨a, ha, e1⟩ := List.mem_map.mp hb
      split at e1
      · rw [← e1]; exact hP
      · rw [← e1]; exact h a ha
    · simp only [List.mem_append, List.mem_singleton] at hb
      rcases hb with hb | hb
      · exact h b hb
      · rw [hb]; exact hP

/-- the target of a bucket is the target of one of the edges -/
theorem buckets_tgt (es : List OutEdge) : ∀ b ∈ (bucketsOf es).1, ∃ e ∈ es, e.tgt = b.2 := by
  induction es using List.reverseRecOn with
  | nil => intro b hb; cases hb
  | append_singleton es e ih =>
    rw [bucketsOf_append]
    refine bstep_tgt _ e (fun t => ∃ e' ∈ es ++ [e], e'.tgt = t) ⟨e, by simp, rfl⟩ ?_
    intro b hb
    obtain ⟨e', he', h'⟩ := ih b hb
    exact ⟨e', by simp [he'], h'⟩

/-! ### category names -/

theorem genCatName_go_eq (r : SwitchR) : ∀ (fuel : Nat) (n : Str),
    genCatName.go r fuel n = genName.go (r.allCats.map (·.name)) fuel n := by
  intro fuel
  induction fuel with
  | zero => intro n; rfl
  | succ f ih =>
    intro n
    unfold genCatName.go genName.go
    have : (r.catByName n).isSome = (r.allCats.map (·.name)).contains n := by
      cases h : (r.allCats.map (·.name)).contains n
      · cases h2 : (r.catByName n).isSome
        · rfl
        · have := (catByName_isSome_iff r n).mp h2
          rw [← List.contains_iff_mem, h] at this; cases this
      · exact (catByName_isSome_iff r n).mpr (List.contains_iff_mem.mp h)
    rw [this, ih]

/-- the generated category name depends on the names in use only -/
theorem genCatName_eq (r : SwitchR) (args : List (Option Str)) :
    genCatName r args = genName (r.allCats.map (·.name)) args := by
  unfold genCatName genName
  rw [genCatName_go_eq]
  simp

theorem namesFrom_append (k : Kind) (tmo : Nat) : ∀ (l1 l2 : List OutEdge) (tn : List Str),
    namesFrom k tmo tn (l1 ++ l2) = namesFrom k tmo (namesFrom k tmo tn l1) l2 := by
  intro l1
  induction l1 with
  | nil => intro l2 tn; rfl
  | cons e l1 ih => intro l2 tn; simp only [List.cons_append, namesFrom]; exact ih l2 _

theorem namesOk_append (k : Kind) (tmo : Nat) : ∀ (l1 l2 : List OutEdge) (tn : List Str),
    namesOk k tmo tn (l1 ++ l2) = (namesOk k tmo tn l1 && namesOk k tmo (namesFrom k tmo tn l1) l2) := by
  intro l1
  induction l1 with
  | nil => intro l2 tn; simp [namesOk, namesFrom]
  | cons e l1 ih =>
    intro l2 tn
    simp only [List.cons_append, namesOk, namesFrom, ih, Bool.and_assoc]

/-- names stay fresh on a prefix -/
theorem namesOk_prefix (k : Kind) (tmo : Nat) (l L : List OutEdge) (h : l <+: L) (hok : namesOk k tmo [] L = true) :
    namesOk k tmo [] l = true := by
  obtain ⟨t, rfl⟩ := h
  rw [namesOk_append, Bool.and_eq_true] at hok
  exact hok.1

/-- the last test of a list with fresh names: its explicit name is not in use -/
theorem namesOk_last (k : Kind) (tmo : Nat) (l : List OutEdge) (e : OutEdge) (hok : namesOk k tmo [] (l ++ [e]) = true)
    (hne : e.cond.name ≠ []) : e.cond.name ∉ namesFrom k tmo [] l ++ baseNames k tmo := by
  rw [namesOk_append, Bool.and_eq_true] at hok
  have h2 := hok.2
  simp only [namesOk, Bool.and_true, Bool.or_eq_true, Bool.not_eq_true', List.isEmpty_iff] at h2
  rcases h2 with h2 | h2
  · exact absurd h2 hne
  · intro hm
    rw [List.contains_iff_mem.mpr hm] at h2; cases h2

end Rpft.CoreSheet
