/-
The refinement theorem on the fragment: the compiled flow and the reference flow of a sheet of the
fragment have the same index-resolved abstraction (category names not observed).
-/
import Rpft.Lemmas.CoreSwitch
import Rpft.Lemmas.CoreImplAbs
import Rpft.Lemmas.FlowSplit
set_option linter.unusedSimpArgs false
set_option linter.unusedVariables false
namespace Rpft.CoreSheet
open Rpft Rpft.Compile Rpft.RefFlow Rpft.Flow

theorem noIdsL_fragment : ∀ (rows : List CRow), (∀ c ∈ rows, rowOk c = true) →
    noIdsL (rows.map toEvent) = true := by
  intro rows
  induction rows with
  | nil => intro _; rfl
  | cons c l ih =>
    intro h
    have hu : c.row.nodeUuid = [] := by
      have := h c (by simp)
      simp only [rowOk, Bool.or_eq_true] at this
      rcases this with ((h1 | h1) | h1) | h1
      · exact (rowFacts c h1).nouid
      · simp only [exitRow, Bool.and_eq_true, List.isEmpty_iff] at h1; exact h1.2
      · simp only [gotoRow, Bool.and_eq_true, List.isEmpty_iff] at h1; exact h1.2
      · simp only [noopRow, Bool.and_eq_true, List.isEmpty_iff] at h1; exact h1.1.2
    simp only [List.map_cons, noIdsL, toEvent, Event.noIds, Bool.and_eq_true]
    exact ⟨by rw [hu]; rfl, ih (fun c' hc' => h c' (by simp [hc']))⟩

theorem pass1_state {rows : List RRow} {out : List OutEdge} (h : pass1 rows = .ok out) :
    ∃ st : P1, (rows.zipIdx 0).foldlM (fun st (p : RRow × Nat) => pass1Row st p.2 p.1) {} = .ok st ∧
      out = st.out.reverse := by
  unfold pass1 at h
  simp only [bind, Except.bind, pure, Except.pure] at h
  split at h
  · cases h
  · rename_i st hst
    simp only [Except.ok.injEq] at h
    exact ⟨st, by simpa using hst, h.symm⟩

theorem testRow_of_kind {c : CRow} (hk : isTestKind (kindOf c.row.type)) : testRow c = true := by
  unfold testRow
  rcases hk with hk | hk | hk
  · have : c.row.type ∈ switchTypes := by
      rcases switch_type_of_kind hk with h | h | h <;> rw [h] <;> decide
    rw [List.contains_iff_mem.mpr this]; rfl
  · rw [decide_eq_true hk]; simp
  · rw [decide_eq_true hk]; simp

/-- what `inFragment` says, clause by clause -/
theorem good_of_fragment (rows : List CRow) (outE : List OutEdge) (hf : inFragment rows = true)
    (hp : pass1 (rows.map toRRow) = .ok outE) : (∀ c ∈ rows, rowOk c = true) ∧ Good rows outE ∧
      noopShape rows outE = true ∧ outE.foldlM (schedStep rows) [] = some [] ∧ firstOk rows = true := by
  simp only [inFragment, Bool.and_eq_true, List.all_eq_true, hp] at hf
  obtain ⟨h1, ⟨⟨⟨⟨⟨⟨h2, h3⟩, h4⟩, h5⟩, h6⟩, h7⟩, h8⟩⟩ := hf
  refine ⟨h1, ⟨h2, ?_, ?_, ?_⟩, h6, ?_, h8⟩
  · intro j c hc hk
    have hj : j < rows.length := (List.getElem?_eq_some_iff.mp hc).1
    simp only [distinctTests, List.all_eq_true, List.mem_range] at h3
    have := h3 j hj
    rw [hc] at this
    have this2 : (!testRow c ||
        decide (((testsOf (kindOf c.row.type) (outE.filter (·.src = j))).map
          (fun e => refTest (kindOf c.row.type) e.cond)).Nodup)) = true := this
    rw [testRow_of_kind hk] at this2
    simpa using this2
  · intro j c hc hk e he
    have hj : j < rows.length := (List.getElem?_eq_some_iff.mp hc).1
    simp only [sameVars, List.all_eq_true, List.mem_range] at h4
    have := h4 j hj
    rw [hc] at this
    have this2 : (!(decide (kindOf c.row.type = .action) || decide (kindOf c.row.type = .noOp)) ||
        ((outE.filter (·.src = j)).filter (fun e => !e.cond.blank)).all
          (fun e => decide (e.cond.var = implVar (outE.filter (·.src = j))))) = true := this
    have hkk : (decide (kindOf c.row.type = .action) || decide (kindOf c.row.type = .noOp)) = true := by
      rcases hk with hk | hk <;> rw [decide_eq_true hk] <;> simp
    rw [hkk] at this2
    simp only [Bool.not_true, Bool.false_or, List.all_eq_true, decide_eq_true_eq] at this2
    exact this2 e he
  · intro j c hc hk
    have hj : j < rows.length := (List.getElem?_eq_some_iff.mp hc).1
    simp only [freshNames, List.all_eq_true, List.mem_range] at h5
    have := h5 j hj
    rw [hc] at this
    have this2 : (!testRow c ||
        namesOk (kindOf c.row.type) (timeoutOf c.row) [] (testsOf (kindOf c.row.type) (outE.filter (·.src = j)))) = true := this
    rw [testRow_of_kind hk] at this2
    simpa using this2
  · unfold noopSched at h7
    cases hfo : outE.foldlM (schedStep rows) [] with
    | none => rw [hfo] at h7; cases h7
    | some pnd =>
      rw [hfo] at h7
      simp only [List.isEmpty_iff] at h7
      rw [h7]

theorem forall2_map_eq {α β γ} {R : α → β → Prop} {f : α → γ} {g : β → γ} {l1 : List α} {l2 : List β}
    (h : List.Forall₂ R l1 l2) (hfg : ∀ a b, R a b → f a = g b) : l1.map f = l2.map g := by
  induction h with
  | nil => rfl
  | cons hab _ ih => simp [hfg _ _ hab, ih]

theorem type_of_wait {t : Str} (h : kindOf t = .wait) : t = "wait_for_response".toList := by
  rcases switch_type_of_kind (.inl h) with h1 | h1 | h1
  · exact h1
  · rw [h1, kindOf_value] at h; cases h
  · rw [h1, kindOf_group] at h; cases h

theorem type_not_wait {t : Str} (h : kindOf t = .splitValue ∨ kindOf t = .splitGroup) :
    t ≠ "wait_for_response".toList := by
  intro e; rw [e, kindOf_wait] at h; rcases h with h | h <;> cases h

theorem forall2_map_eq_mem {α β γ} {R : α → β → Prop} {f : α → γ} {g : β → γ} {l1 : List α} {l2 : List β}
    (h : List.Forall₂ R l1 l2) (hfg : ∀ a b, b ∈ l2 → R a b → f a = g b) : l1.map f = l2.map g := by
  induction h with
  | nil => rfl
  | cons hab _ ih =>
    simp only [List.map_cons]
    rw [hfg _ _ (by simp) hab, ih (fun a b hb => hfg a b (by simp [hb]))]

/-- one node: the reference node of row `j` and the compiled node have the same actions and the same
decision, and corresponding destinations -/
theorem node_abs_rel (rnf : Bool) (F r : Flow) (M : Maps) (ns : Array NodeM) (j : Nat) (n : NodeM) (c : CRow)
    (es : List OutEdge) (hsim : NodeSim M ns n c es) (hfc : nodeRowOk c = true)
    (rows : List CRow) (hcj : rows[j]? = some c) (hok : ∀ e ∈ es, edgeOk rows e = true ∧ e.src = j)
    (hfn0 : n.fids.Nodup) :
    AbsRel (DR F r M ns es) (absNode ⟨false, rnf⟩ r (mkNode j (toRRow c) es)) (absNode ⟨false, rnf⟩ F (renderNode n)) := by
  have hlast : ∀ (l : List OutEdge), (∀ e ∈ l, e ∈ es) → ∀ k, (l.getLast?).map (·.tgt) = some (Target.row k) →
      ∃ e ∈ es, e.tgt = Target.row k := by
    intro l hl k hk
    cases hg : l.getLast? with
    | none => rw [hg] at hk; cases hk
    | some e =>
      rw [hg] at hk
      simp only [Option.map_some, Option.some.injEq] at hk
      exact ⟨e, hl e (List.mem_of_getLast? hg), hk⟩
  have hfil : ∀ (p : OutEdge → Bool) (l : List OutEdge), (∀ e ∈ l, e ∈ es) → ∀ e ∈ l.filter p, e ∈ es :=
    fun p l hl e he => hl e (List.mem_filter.mp he).1
  have hall : ∀ e ∈ es, e ∈ es := fun e he => he
  cases hsim with
  | plain hk hp =>
    -- an action row: all its out-edges are unconditional
    have hbl : ∀ e ∈ es, e.cond.blank = true := hp.blank
    have hact : (toRRow c).act = c.row.action := by
      simp only [nodeRowOk, Bool.or_eq_true] at hfc
      rcases hfc with ((h1 | h1) | h1) | h1
      · simp only [plainActionRow, Bool.and_eq_true, decide_eq_true_eq] at h1
        exact h1.2.symm
      · simp only [switchRow, Bool.and_eq_true] at h1
        have := switch_type h1.1.1.1
        rcases kindOf_switch this with h2 | h2 | h2 <;> rw [hk] at h2 <;> cases h2
      · simp only [fixedRow, Bool.and_eq_true] at h1
        have := fixed_type h1.1.1.1
        rcases kindOf_fixed this with h2 | h2 | h2 <;> rw [hk] at h2 <;> cases h2
      · simp only [randomRow, Bool.and_eq_true, decide_eq_true_eq] at h1
        have h2 := kindOf_random; rw [← h1.1.1.1, hk] at h2; cases h2
    rw [mkNode_plain j (toRRow c) (es) hk hbl, absNode_plain_ref,
      absNode_plain_cmp _ _ n c.row.action hp.router hp.acts, hact]
    refine ⟨rfl, rfl, List.Forall₂.cons ⟨n.dexitDest, _, hp.dest, hlast es hall, ?_, rfl⟩ List.Forall₂.nil⟩
    cases (es).getLast? <;> rfl
  | sw rr hk hp =>
    have hact : (toRRow c).act = none := by
      simp only [nodeRowOk, Bool.or_eq_true] at hfc
      rcases hfc with ((h1 | h1) | h1) | h1
      · simp only [plainActionRow, Bool.and_eq_true, Bool.not_eq_true'] at h1
        have := kindOf_action h1.1.1.1
        rcases hk with h2 | h2 | h2 <;> rw [this] at h2 <;> cases h2
      · simp only [switchRow, Bool.and_eq_true, Option.isNone_iff_eq_none] at h1
        exact h1.2
      · simp only [fixedRow, Bool.and_eq_true] at h1
        have := fixed_type h1.1.1.1
        rcases kindOf_fixed this with h3 | h3 | h3 <;> rcases hk with h2 | h2 | h2 <;> rw [h3] at h2 <;> cases h2
      · simp only [randomRow, Bool.and_eq_true, Option.isNone_iff_eq_none] at h1
        exact h1.2
    -- identifiers of the compiled router are pairwise different
    have hfn := hfn0
    have hrids : rr.ids.Nodup := by
      unfold NodeM.fids NodeM.innerIds NodeM.tailIds at hfn
      rw [hp.router] at hfn
      exact (List.nodup_append.mp (List.nodup_append.mp hfn).2.1).2.1
    have hex : (rr.allCats.map (·.exitUid)).Nodup := by
      unfold SwitchR.ids at hrids; exact (List.nodup_append.mp hrids).1
    have hcu : (rr.allCats.map (·.uid)).Nodup := by
      unfold SwitchR.ids at hrids
      exact (List.nodup_append.mp (List.nodup_append.mp hrids).2.1).1
    rw [mkNode_switch j (toRRow c) (es) hk hact, absNode_mkSwitch,
      absNode_sw rnf _ n rr hp.router hp.acts hcu hex hp.casecat hp.nrSome]
    -- compare field by field
    have htests : (rr.cases.map renderCase).map (fun k => (k.type, testArgs k)) =
        (refTests (toRRow c).kind (es)).map (fun t =>
          (t.1, if t.1 = "has_group".toList then t.2.1.drop 1 else t.2.1)) := by
      have e1 : (rr.cases.map renderCase).map (fun k => (k.type, testArgs k)) =
          (rr.cases.map (fun k => (k.type, k.args.map (·.getD [])))).map
            (fun (p : Str × List Str) => (p.1, if p.1 = "has_group".toList then p.2.drop 1 else p.2)) := by
        rw [List.map_map, List.map_map]
        exact List.map_congr_left (fun k _ => rfl)
      rw [e1, hp.cases, List.map_map]
      unfold refTests
      rw [List.map_map]
      exact List.map_congr_left (fun e _ => rfl)
    have hwait : (renderWait rr).map (fun o => o.map (·.1)) =
        (refWait (toRRow c) (es)).map (fun o => o.map (·.1)) := by
      unfold refWait renderWait
      rcases hk with h1 | h1
      · -- a wait row
        have ht := type_of_wait h1
        have hw : rr.wait = some (timeoutOf c.row) := by rw [hp.wait]; unfold waitOf; rw [if_pos ht]
        have hk' : (toRRow c).kind = .wait := h1
        have hto : (toRRow c).timeout = timeoutOf c.row := rfl
        rw [if_pos hk', hto, hw]
        cases hto2 : timeoutOf c.row with
        | zero => simp
        | succ m =>
          have : rr.noResp.isSome = true := hp.nrSome.mpr ⟨m, by rw [hw, hto2]⟩
          cases hnn : rr.noResp with
          | none => rw [hnn] at this; cases this
          | some nr => simp
      · have ht := type_not_wait h1
        have hw : rr.wait = none := by rw [hp.wait]; unfold waitOf; rw [if_neg ht]
        have hk' : ¬ ((toRRow c).kind = .wait) := by
          show ¬ (kindOf c.row.type = .wait)
          rcases h1 with h1 | h1 <;> rw [h1] <;> decide
        rw [if_neg hk', hw]
        rfl
    have hdests : List.Forall₂ (DR F r M ns es)
        (((refTests (toRRow c).kind (es)).map (fun t => destIdx r t.2.2)) ++
          [destIdx r (lastTgt ((es).filter (·.cond.blank)) (fun _ => true))] ++
          (match refWait (toRRow c) (es) with
           | some (some (_, td)) => [destIdx r td]
           | _ => []))
        (rr.allCats.map (fun cat => destIdx F (renderDest cat.dest))) := by
      simp only [SwitchR.allCats, List.map_append, List.map_cons, List.map_nil]
      refine List.rel_append (List.rel_append ?_ ?_) ?_
      · -- the categories of the tests
        unfold refTests
        rw [List.map_map]
        refine forall2_flip_map hp.catd ?_
        intro cat e he hd
        refine ⟨cat.dest, some e.tgt, hd, ?_, rfl, rfl⟩
        intro k hk
        simp only [Option.some.injEq] at hk
        have : e ∈ es := by unfold testsOf at he; exact hfil _ _ (hfil _ _ hall) e he
        exact ⟨e, this, hk⟩
      · -- the default category
        refine List.Forall₂.cons ⟨rr.dflt.dest, _, hp.dflt, hlast _ (hfil _ _ hall), ?_, rfl⟩ List.Forall₂.nil
        rw [lastTgt_eq, List.filter_true]
      · -- the timeout category
        unfold refWait
        rcases hk with h1 | h1
        · have ht := type_of_wait h1
          have hw : rr.wait = some (timeoutOf c.row) := by rw [hp.wait]; unfold waitOf; rw [if_pos ht]
          have hk' : (toRRow c).kind = .wait := h1
          have hto : (toRRow c).timeout = timeoutOf c.row := rfl
          rw [if_pos hk', hto]
          cases hto2 : timeoutOf c.row with
          | zero =>
            have : rr.noResp = none := by
              cases hnn : rr.noResp with
              | none => rfl
              | some nr =>
                obtain ⟨m, hm⟩ := hp.nrSome.mp (by simp [hnn])
                rw [hw, hto2] at hm; cases hm
            simp only [this, Option.toList, List.map_nil, if_true]
            exact List.Forall₂.nil
          | succ m =>
            have : rr.noResp.isSome = true := hp.nrSome.mpr ⟨m, by rw [hw, hto2]⟩
            cases hnn : rr.noResp with
            | none => rw [hnn] at this; cases this
            | some nr =>
              simp only [Option.toList, List.map_cons, List.map_nil, Nat.succ_ne_zero, if_false]
              refine List.Forall₂.cons ⟨nr.dest, _, hp.nr nr hnn, hlast _ (hfil _ _ (hfil _ _ hall)), ?_, rfl⟩ List.Forall₂.nil
              rw [lastTgt_eq]
        · have ht := type_not_wait h1
          have hw : rr.wait = none := by rw [hp.wait]; unfold waitOf; rw [if_neg ht]
          have hk' : ¬ ((toRRow c).kind = .wait) := by
            show ¬ (kindOf c.row.type = .wait)
            rcases h1 with h1 | h1 <;> rw [h1] <;> decide
          rw [if_neg hk']
          have : rr.noResp = none := by
            cases hnn : rr.noResp with
            | none => rfl
            | some nr =>
              obtain ⟨m, hm⟩ := hp.nrSome.mp (by simp [hnn])
              rw [hw] at hm; cases hm
          simp only [this, Option.toList, List.map_nil]
          exact List.Forall₂.nil
    have hop : rr.operand = (toRRow c).operand := hp.operand
    have hrn' : rr.resultName = some (toRRow c).saveName := hp.rname
    refine ⟨rfl, ?_, hdests⟩
    simp only
    rw [htests, hwait, hop, hrn']
  | fix rr sc hk hp =>
    have hact : (toRRow c).act = some (c.row.ownAction.getD []) := by
      simp only [nodeRowOk, Bool.or_eq_true] at hfc
      rcases hfc with ((h1 | h1) | h1) | h1
      · simp only [plainActionRow, Bool.and_eq_true, Bool.not_eq_true'] at h1
        have := kindOf_action h1.1.1.1
        rcases hk with h2 | h2 | h2 <;> rw [this] at h2 <;> cases h2
      · simp only [switchRow, Bool.and_eq_true] at h1
        have := switch_type h1.1.1.1
        rcases kindOf_switch this with h3 | h3 | h3 <;> rcases hk with h2 | h2 | h2 <;> rw [h3] at h2 <;> cases h2
      · simp only [fixedRow, Bool.and_eq_true, decide_eq_true_eq] at h1
        exact h1.2
      · simp only [randomRow, Bool.and_eq_true, decide_eq_true_eq] at h1
        have h3 := kindOf_random; rw [← h1.1.1.1] at h3
        rcases hk with h2 | h2 | h2 <;> rw [h3] at h2 <;> cases h2
    have hk' : isFixedKind (toRRow c).kind := hk
    rw [absNode_fix_ref rnf r j (toRRow c) es hk', absNode_fix_cmp rnf F M ns n c es rr sc hk hp hfn0, hact]
    refine ⟨rfl, rfl, ?_⟩
    unfold fixAbs
    simp only
    refine List.Forall₂.cons ⟨sc.dest, _, hp.succ, hlast _ (hfil _ _ hall), ?_, rfl⟩ (forall2_replicate
      ⟨rr.dflt.dest, _, hp.dflt, hlast _ (hfil _ _ hall), ?_, rfl⟩ _)
    · rw [lastTgt_eq]; rfl
    · rw [lastTgt_eq]; rfl
  | rnd rr hk hp =>
    have hact : (toRRow c).act = none := by
      simp only [nodeRowOk, Bool.or_eq_true] at hfc
      rcases hfc with ((h1 | h1) | h1) | h1
      · simp only [plainActionRow, Bool.and_eq_true, Bool.not_eq_true'] at h1
        have := kindOf_action h1.1.1.1
        rw [this] at hk; cases hk
      · simp only [switchRow, Bool.and_eq_true, Option.isNone_iff_eq_none] at h1
        exact h1.2
      · simp only [fixedRow, Bool.and_eq_true] at h1
        have := fixed_type h1.1.1.1
        rcases kindOf_fixed this with h3 | h3 | h3 <;> rw [h3] at hk <;> cases hk
      · simp only [randomRow, Bool.and_eq_true, Option.isNone_iff_eq_none] at h1
        exact h1.2
    have hk' : (toRRow c).kind = .splitRandom := hk
    rw [absNode_rnd_ref rnf r j (toRRow c) es hk' hact, absNode_rnd_cmp rnf F n rr c.row.saveName hp.router hp.acts hp.rname hfn0]
    refine ⟨rfl, rfl, ?_⟩
    unfold rndAbs
    simp only
    refine forall2_flip_map hp.rel ?_
    intro cat b hb hd
    refine ⟨cat.dest, some b.2, hd.1, ?_, rfl, rfl⟩
    intro k hk2
    simp only [Option.some.injEq] at hk2
    obtain ⟨e, he, het⟩ := buckets_tgt es b hb
    exact ⟨e, he, by rw [het]; exact hk2⟩
  | nop rr hk hp =>
    exfalso
    have := isNoop_false_of_ok c hfc
    rw [isNoop_of_kind hk] at this; cases this

theorem zipIdx_filterMap {α β} (F : α → Nat → Option β) : ∀ (l : List α) (k : Nat),
    (l.zipIdx k).filterMap (fun p => F p.1 p.2) =
      (List.range' k l.length).filterMap (fun j => (l[j - k]?).bind (fun x => F x j)) := by
  intro l
  induction l with
  | nil => intro k; simp
  | cons a l ih =>
    intro k
    simp only [List.zipIdx_cons, List.filterMap_cons, List.length_cons, List.range'_succ, Nat.sub_self,
      List.getElem?_cons_zero, Option.bind_some]
    rw [ih (k + 1)]
    have : (List.range' (k + 1) l.length).filterMap (fun j => ((a :: l)[j - k]?).bind (fun x => F x j)) =
        (List.range' (k + 1) l.length).filterMap (fun j => (l[j - (k + 1)]?).bind (fun x => F x j)) := by
      apply List.filterMap_congr
      intro j hj
      have hjk : k + 1 ≤ j := (List.mem_range'_1.mp hj).1
      have : j - k = (j - (k + 1)) + 1 := by omega
      rw [this, List.getElem?_cons_succ]
    rw [this]

theorem filterMap_length_congr {α β γ} (L : List α) (f : α → Option β) (g : α → Option γ)
    (h : ∀ x ∈ L, (f x).isSome = (g x).isSome) : (L.filterMap f).length = (L.filterMap g).length := by
  induction L with
  | nil => rfl
  | cons x L ih =>
    have hx := h x (by simp)
    have ih' := ih (fun y hy => h y (by simp [hy]))
    simp only [List.filterMap_cons]
    cases hf : f x <;> cases hg : g x <;> simp [hf, hg] at hx ⊢ <;> exact ih'

/-- **the compiled flow and the reference flow of a sheet of the fragment have the same
index-resolved abstraction** -/
theorem filterMap_flatMap' {α β γ} (f : α → List β) (g : β → Option γ) (L : List α) :
    (L.flatMap f).filterMap g = L.flatMap (fun x => (f x).filterMap g) := by
  induction L with
  | nil => rfl
  | cons x L ih => simp [List.flatMap_cons, List.filterMap_append, ih]

theorem map_flatMap' {α β γ} (f : α → List β) (g : β → γ) (L : List α) :
    (L.flatMap f).map g = L.flatMap (fun x => (f x).map g) := by
  induction L with
  | nil => rfl
  | cons x L ih => simp [List.flatMap_cons, ih]

/-- positions in a list built by `flatMap` -/
theorem flatMap_pos {α β} (f : α → List β) (L : List α) (t : Nat) (x : α) (hx : L[t]? = some x) (i : Nat)
    (hi : i < (f x).length) : (L.flatMap f)[((L.take t).flatMap f).length + i]? = (f x)[i]? := by
  have hL : L = L.take t ++ x :: L.drop (t + 1) := by
    have := List.getElem?_eq_some_iff.mp hx
    rw [← this.2]
    simp
  have : L.flatMap f = (L.take t).flatMap f ++ (f x ++ (L.drop (t + 1)).flatMap f) := by
    conv => lhs; rw [hL]
    rw [List.flatMap_append, List.flatMap_cons]
  rw [this, List.getElem?_append_right (Nat.le_add_right _ _), Nat.add_sub_cancel_left,
    List.getElem?_append_left hi]

theorem flatMap_nil_of {α β} (f : α → List β) (L : List α) (h : ∀ x ∈ L, f x = []) : L.flatMap f = [] := by
  induction L with
  | nil => rfl
  | cons x L ih => simp [List.flatMap_cons, h x (by simp), ih (fun y hy => h y (by simp [hy]))]

theorem filterMap_nil_of {α β} (f : α → Option β) (L : List α) (h : ∀ x ∈ L, f x = none) : L.filterMap f = [] := by
  induction L with
  | nil => rfl
  | cons x L ih => simp [List.filterMap_cons, h x (by simp), ih (fun y hy => h y (by simp [hy]))]

theorem find?_first {α} (p : α → Bool) : ∀ (l : List α) (j : Nat) (x : α), l[j]? = some x → p x = true →
    (∀ i y, i < j → l[i]? = some y → p y = false) → l.find? p = some x := by
  intro l
  induction l with
  | nil => intro j x h; cases h
  | cons a l ih =>
    intro j x hx hp hmin
    cases j with
    | zero =>
      simp only [List.getElem?_cons_zero, Option.some.injEq] at hx
      subst hx
      simp [List.find?_cons, hp]
    | succ j =>
      have ha : p a = false := hmin 0 a (Nat.succ_pos j) rfl
      simp only [List.find?_cons, ha]
      exact ih j x (by simpa using hx) hp (fun i y hi hy => hmin (i + 1) y (Nat.succ_lt_succ hi) (by simpa using hy))

/-- a `no_op` row of the fragment performs no action -/
theorem refAct_of_noop {c : CRow} (hok : rowOk c = true) (hn : isNoop c = true) : c.refAct = none := by
  have hk := kind_of_noop hn
  simp only [rowOk, Bool.or_eq_true] at hok
  rcases hok with ((h1 | h1) | h1) | h1
  · rw [isNoop_false_of_ok c h1] at hn; cases hn
  · exfalso
    simp only [exitRow, Bool.and_eq_true, Bool.or_eq_true, decide_eq_true_eq] at h1
    rcases h1.1 with h2 | h2 <;> rw [h2] at hk
    · rw [kindOf_hard] at hk; cases hk
    · rw [kindOf_loose] at hk; cases hk
  · exfalso
    simp only [gotoRow, Bool.and_eq_true, decide_eq_true_eq] at h1
    rw [h1.1, kindOf_goto] at hk; cases hk
  · simp only [noopRow, Bool.and_eq_true, Option.isNone_iff_eq_none] at h1
    exact h1.2

/-- a row with a node that is not a `no_op` row is one of the node rows of the fragment -/
theorem nodeRowOk_of_ok {c : CRow} (hok : rowOk c = true) (hn : isNodeRow c = true) (hno : isNoop c = false) :
    nodeRowOk c = true := by
  simp only [rowOk, Bool.or_eq_true] at hok
  rcases hok with ((h1 | h1) | h1) | h1
  · exact h1
  · exfalso
    simp only [exitRow, Bool.and_eq_true, Bool.or_eq_true, decide_eq_true_eq] at h1
    unfold isNodeRow at hn
    rcases h1.1 with h2 | h2 <;> rw [h2] at hn
    · rw [kindOf_hard] at hn; cases hn
    · rw [kindOf_loose] at hn; cases hn
  · exfalso
    simp only [gotoRow, Bool.and_eq_true, decide_eq_true_eq] at h1
    unfold isNodeRow at hn
    rw [h1.1, kindOf_goto] at hn; cases hn
  · exfalso
    simp only [noopRow, Bool.and_eq_true] at h1
    rw [h1.1.1] at hno; cases hno

/-- **the refinement theorem on the fragment, at the level of traces** -/
theorem fragment_trace (rnf : Bool) (testTypes : List Str) (rows : List CRow) (out : Out) (r : Flow)
    (hf : inFragment rows = true)
    (hc : compile RefFlow.noArgsTests testTypes (rows.map toEvent) = .ok out)
    (hr : refFlow (rows.map toRRow) = .ok r) (env : Nat → Nat) (len : Nat) :
    trace ⟨false, rnf⟩ r env len = trace ⟨false, rnf⟩ (renderOut out) env len := by
  obtain ⟨s, hrun, hl, ho⟩ := compile_ok hc
  obtain ⟨outE, hp1, hrn⟩ := refFlow_nodes _ _ hr
  obtain ⟨hfr, hgood, hshape, hsched, hfirst⟩ := good_of_fragment rows outE hf hp1
  obtain ⟨stT, hfold, hoe⟩ := pass1_state hp1
  obtain ⟨M, st, pnd, hrel, hs⟩ := wp_of_run (rows_simN rows outE hgood hshape ⟨_, hsched⟩ rows 0
    (fun i c hi => by simpa using hi) hfr
    ⟨fun _ => 0, fun _ => none, fun _ => false, fun _ => false⟩ _ {} stT
    (relN_init rows _ (fun _ => rfl) (fun _ => rfl) (fun _ => rfl) _ testTypes rfl) hfold (by rw [hoe])) hrun
  simp only [Nat.zero_add] at hrel hs
  -- at the end no edge is waiting
  have hpnd : pnd = [] := by
    have := hs.fold
    rw [← hoe, hsched] at this
    injection this with this
    exact this.symm
  subst hpnd
  have hsp : ∀ j, outOf stT j = outOf st j := by
    intro j
    have := hs.split j
    simpa using this
  -- identifiers of the compiled flow are pairwise different
  have hids := noIdsL_fragment rows hfr
  have a := final_ainv ⟨True, True⟩ ⟨fun _ => okIdsL_of_noIdsL _ hids, fun _ => hids⟩ hrun
  have hI := a.ids trivial
  have hU : ((renderOut out).nodes.map (·.uuid)).Nodup := by
    have := uids_nodup_of_invented hI (a.inv trivial) _ (emit_nodup (final_binv hrun) hl)
    rw [← ho] at this
    simpa [renderOut, List.map_map, Function.comp_def, renderNode] using this
  have hRU : (r.nodes.map (·.uuid)).Nodup := (refFlow_closed _ _ hr).1
  -- the reference nodes, per row
  obtain ⟨fR, hfR⟩ : ∃ fR : Nat → Option Node, fR = fun j => (rows[j]?).bind (fun c =>
      if isNodeRow c then some (mkNode j (toRRow c) (outE.filter (·.src = j))) else none) := ⟨_, rfl⟩
  have hrn2 : r.nodes = (List.range rows.length).filterMap fR := by
    rw [hrn, hfR]
    unfold refNodes
    have := zipIdx_filterMap (fun (rr : RRow) (k : Nat) =>
      if rr.kind.isNode then some (mkNode k rr (outE.filter (·.src = k))) else none) (rows.map toRRow) 0
    simp only [List.length_map, Nat.sub_zero] at this
    rw [← List.range_eq_range'] at this
    rw [this]
    apply List.filterMap_congr
    intro j _
    simp only [List.getElem?_map]
    cases rows[j]? <;> rfl
  -- the compiled nodes, per row
  obtain ⟨gC, hgC⟩ : ∃ gC : Nat → List Node, gC = fun j =>
      ((nodeIdxs rows M j).filterMap (fun i => s.nodes[i]?)).map renderNode := ⟨_, rfl⟩
  have hFn : (renderOut out).nodes = (List.range rows.length).flatMap gC := by
    simp only [renderOut, ho, emit_rel hrel hs, filterMap_flatMap', map_flatMap', hgC]
  generalize renderOut out = F at hU hFn ⊢
  -- the correspondence: row `j` ↦ index of its reference node, index of its compiled node
  obtain ⟨V, hV⟩ : ∃ V : Nat → Prop, V = fun j => ∃ c, rows[j]? = some c ∧ isNodeRow c = true ∧ M.el j = false :=
    ⟨_, rfl⟩
  obtain ⟨ia, hia⟩ : ∃ ia : Nat → Nat, ia = fun j => (((List.range rows.length).take j).filterMap fR).length := ⟨_, rfl⟩
  obtain ⟨ib, hib⟩ : ∃ ib : Nat → Nat, ib = fun j => (((List.range rows.length).take j).flatMap gC).length := ⟨_, rfl⟩
  obtain ⟨ir, hir⟩ : ∃ ir : Nat → Option Nat, ir = fun j => (M.rOf j).map (fun _ => ib j + 1) := ⟨_, rfl⟩
  have hsub : ∀ j, ∀ e ∈ outOf st j, e ∈ outE ∧ e.src = j ∧ e ∈ st.out := by
    intro j e he
    have h1 := List.mem_filter.mp he
    have h2 : e ∈ outOf stT j := by rw [hsp]; exact he
    have h3 := List.mem_filter.mp h2
    exact ⟨by rw [hoe]; exact h3.1, by simpa using h1.2, by simpa using h1.1⟩
  have hes : ∀ j, outE.filter (·.src = j) = outOf st j := by intro j; rw [← hsp, hoe]; rfl
  -- what the rows give
  have hrowR : ∀ (j : Nat) (c : CRow), rows[j]? = some c → isNodeRow c = true →
      r.nodes[ia j]? = some (mkNode j (toRRow c) (outOf st j)) := by
    intro j c hcj hn
    have hj : j < rows.length := (List.getElem?_eq_some_iff.mp hcj).1
    have hrt : (List.range rows.length)[j]? = some j := by simp [hj]
    have hfr' : fR j = some (mkNode j (toRRow c) (outOf st j)) := by rw [hfR]; simp [hcj, hn, hes]
    rw [hrn2, hia]
    exact filterMap_pos fR (List.range rows.length) j j _ hrt hfr'
  have hrowC : ∀ (j : Nat) (c : CRow), rows[j]? = some c → isNodeRow c = true → M.el j = false →
      ∃ n, s.nodes[M.nOf j]? = some n ∧ RowSim M s.nodes n c (outOf st j) (M.rOf j) ∧
        F.nodes[ib j]? = some (renderNode n) ∧
        ∀ i' n', M.rOf j = some i' → s.nodes[i']? = some n' → F.nodes[ib j + 1]? = some (renderNode n') := by
    intro j c hcj hn hel
    have hj : j < rows.length := (List.getElem?_eq_some_iff.mp hcj).1
    have hrt : (List.range rows.length)[j]? = some j := by simp [hj]
    obtain ⟨n, hn', hsim⟩ := hrel.node j c ⟨.inl hj, hcj, hn, hel⟩
    refine ⟨n, hn', hsim, ?_, ?_⟩
    · have h0 : 0 < (gC j).length := by rw [hgC]; simp [nodeIdxs, hcj, hn, hel, idxs, hn']
      have := flatMap_pos gC (List.range rows.length) j j hrt 0 h0
      rw [hFn, hib]
      simp only [Nat.add_zero] at this
      rw [this, hgC]
      simp [nodeIdxs, hcj, hn, hel, idxs, hn']
    · intro i' n' hro hn''
      have h1 : 1 < (gC j).length := by rw [hgC]; simp [nodeIdxs, hcj, hn, hel, idxs, hn', hro, hn'']
      have := flatMap_pos gC (List.range rows.length) j j hrt 1 h1
      rw [hFn, hib]
      rw [this, hgC]
      simp [nodeIdxs, hcj, hn, hel, idxs, hn', hro, hn'']
  -- where a row with a node of its own is found in the two flows
  have hidxR : ∀ (t : Nat) (ct : CRow), rows[t]? = some ct → isNodeRow ct = true →
      destIdx r ((some (Target.row t)).bind tgtDest) = some (some (ia t)) := by
    intro t ct hct hnt
    have hposR := hrowR t ct hct hnt
    have hR := findNode_unique r _ (nodeId t) _ hposR (mkNode_uuid _ _ _) hRU
    simp [destIdx, tgtDest, hR]
  have hidxC : ∀ (t : Nat) (ct : CRow) (m : NodeM) (d : Dest), rows[t]? = some ct → isNodeRow ct = true →
      M.el t = false → s.nodes[M.nOf t]? = some m → d = .node m.uid →
      destIdx F (renderDest d) = some (some (ib t)) := by
    intro t ct m d hct hnt hel hm hdm
    obtain ⟨n, hn', _, hposC, _⟩ := hrowC t ct hct hnt hel
    rw [hm] at hn'; injection hn' with hn'; subst hn'
    have hF := findNode_unique F _ m.uid (renderNode m) hposC rfl hU
    simp [hdm, renderDest, destIdx, hF]
  -- corresponding destinations resolve to corresponding indices
  have htgts := pass1_targets _ _ hp1
  have dr_to_drel : ∀ (es : List OutEdge) (x y : Option (Option Nat)), (∀ e ∈ es, e ∈ outE ∧ e ∈ st.out) →
      DR F r M s.nodes es x y → DRel (absFlow ⟨false, rnf⟩ r) V ia ib x y := by
    intro es x y hes' ⟨d, t, hd, hv, hx, hy⟩
    subst hx hy
    cases t with
    | none => simp only [DestIs] at hd; subst hd; exact .none
    | some t =>
      cases t with
      | exit =>
        simp only [DestIs] at hd
        rcases hd with hd | hd <;> subst hd <;> exact .none
      | row t =>
        obtain ⟨m, hm, hdm⟩ := hd
        obtain ⟨e, he, het⟩ := hv t rfl
        have hnode := htgts e (hes' e he).1
        rw [het] at hnode
        obtain ⟨rr, hrr, hrk⟩ := hnode
        simp only [List.getElem?_map] at hrr
        cases hct : rows[t]? with
        | none => rw [hct] at hrr; cases hrr
        | some ct =>
          rw [hct] at hrr
          simp only [Option.map_some, Option.some.injEq] at hrr
          have hnt : isNodeRow ct = true := by rw [← hrr] at hrk; exact hrk
          have htl : t < rows.length := (List.getElem?_eq_some_iff.mp hct).1
          rw [hidxR t ct hct hnt]
          cases hel : M.el t with
          | false =>
            rw [hidxC t ct m d hct hnt hel hm hdm]
            exact .node t (by rw [hV]; exact ⟨ct, hct, hnt, hel⟩)
          | true =>
            -- a `no_op` row that has disappeared: the reference flow passes through its empty node
            have hfrt : M.fr t = false := hrel.tgtfr e (hes' e he).2 t het
            obtain ⟨⟨ct', hct', hnoop⟩, b, T, cT, hout, hbb, hbt, hnOf, hcT, hnT, hnnT⟩ := hs.elided t hel hfrt htl
            rw [hct] at hct'; injection hct' with hct'; subst hct'
            have helT : M.el T = false := hrel.elno T cT hcT hnnT
            have hVT : V T := by rw [hV]; exact ⟨cT, hcT, hnT, helT⟩
            rw [hnOf] at hm
            rw [hidxC T cT m d hcT hnT helT hm hdm]
            have hposR := hrowR t ct hct hnt
            rw [← hsp, hout, mkNode_noop_plain t (toRRow ct) [b] (kind_of_noop hnoop)
              (refAct_of_noop (hfr ct (List.mem_of_getElem? hct)) hnoop)
              (fun e he => by rw [List.mem_singleton.mp he]; exact hbb)] at hposR
            have hA : (absFlow ⟨false, rnf⟩ r)[ia t]? = some
                { acts := [], ask := none, dests := [destIdx r ((some (Target.row T)).bind tgtDest)] } := by
              rw [absFlow_getElem?, hposR]
              simp only [Option.map_some, absNode_plain_ref, Option.toList, List.getLast?_singleton,
                Option.bind_some, hbt]
            refine .skip (ia t) _ _ hA rfl rfl ?_
            simp only [List.head?_cons, Option.join_some]
            rw [hidxR T cT hcT hnT]
            exact .node T hVT
  -- the split
  have hsplit : SplitOf (absFlow ⟨false, rnf⟩ r) (absFlow ⟨false, rnf⟩ F) V ia ib ir := by
    constructor
    intro j hvj
    rw [hV] at hvj
    obtain ⟨c, hcj, hn, hel⟩ := hvj
    have hj : j < rows.length := (List.getElem?_eq_some_iff.mp hcj).1
    have hposR := hrowR j c hcj hn
    obtain ⟨n, hn', hsim, hposC, hposC'⟩ := hrowC j c hcj hn hel
    refine ⟨absNode ⟨false, rnf⟩ r (mkNode j (toRRow c) (outOf st j)), by rw [absFlow_getElem?, hposR]; rfl, ?_⟩
    have hv : ∀ (hk : kindOf c.row.type = .action ∨ kindOf c.row.type = .noOp),
        ∀ e ∈ (outOf st j).filter (fun e => !e.cond.blank), e.cond.var = implVar (outOf st j) := by
      intro hk e he
      have := hgood.var j c hcj hk e (by rw [hes]; exact he)
      rw [hes] at this; exact this
    generalize hro : M.rOf j = ro at hsim
    cases hsim with
    | one hsim =>
      left
      have hrel1 : AbsRel (DR F r M s.nodes (outOf st j))
          (absNode ⟨false, rnf⟩ r (mkNode j (toRRow c) (outOf st j))) (absNode ⟨false, rnf⟩ F (renderNode n)) := by
        cases hno : isNoop c with
        | false =>
          exact node_abs_rel rnf F r M s.nodes j n c (outOf st j) hsim
            (nodeRowOk_of_ok (hfr c (List.mem_of_getElem? hcj)) hn hno) rows hcj
            (fun e he => ⟨hgood.ok e (hsub j e he).1, (hsub j e he).2.1⟩) (hI.nodup _ n hn')
        | true =>
          have hk := kind_of_noop hno
          have hrt : testsOf .noOp (outOf st j) ≠ [] := by
            rw [← hsp]; exact hs.routed j c hj hcj hno hel
          have hact : (toRRow c).act = none := refAct_of_noop (hfr c (List.mem_of_getElem? hcj)) hno
          cases hsim with
          | plain hk' _ => rw [hk] at hk'; cases hk'
          | sw _ hk' _ => rw [hk] at hk'; rcases hk' with h | h | h <;> cases h
          | fix _ _ hk' _ => rw [hk] at hk'; rcases hk' with h | h | h <;> cases h
          | rnd _ hk' _ => rw [hk] at hk'; cases hk'
          | nop rr _ hp =>
            exact nop_abs rnf F r M s.nodes j n c (outOf st j) rr hk hp hact hrt (hv (.inr hk)) (hI.nodup _ n hn')
      refine ⟨by rw [hir]; simp [hro], absNode ⟨false, rnf⟩ F (renderNode n), by rw [absFlow_getElem?, hposC]; rfl,
        hrel1.1, hrel1.2.1, ?_⟩
      exact hrel1.2.2.imp (fun x y hxy => dr_to_drel _ x y (fun e he => ⟨(hsub j e he).1, (hsub j e he).2.2⟩) hxy)
    | impl i' n' rr hk hp =>
      right
      have hno : isNoop c = false := by
        cases h : isNoop c with
        | false => rfl
        | true => have := kind_of_noop h; rw [hk] at this; cases this
      have hact : (toRRow c).act = c.row.action := by
        have hfc := nodeRowOk_of_ok (hfr c (List.mem_of_getElem? hcj)) hn hno
        simp only [nodeRowOk, Bool.or_eq_true] at hfc
        rcases hfc with ((h1 | h1) | h1) | h1
        · simp only [plainActionRow, Bool.and_eq_true, decide_eq_true_eq] at h1
          exact h1.2.symm
        · simp only [switchRow, Bool.and_eq_true] at h1
          have := switch_type h1.1.1.1
          rcases kindOf_switch this with h2 | h2 | h2 <;> rw [hk] at h2 <;> cases h2
        · simp only [fixedRow, Bool.and_eq_true] at h1
          have := fixed_type h1.1.1.1
          rcases kindOf_fixed this with h2 | h2 | h2 <;> rw [hk] at h2 <;> cases h2
        · simp only [randomRow, Bool.and_eq_true, decide_eq_true_eq] at h1
          have h2 := kindOf_random; rw [← h1.1.1.1, hk] at h2; cases h2
      obtain ⟨h1, h2, h3, h4, h5⟩ := impl_abs rnf F r M s.nodes j n c (outOf st j) i' n' rr hk hp hact (hv (.inl hk))
        (hI.nodup _ n' hp.rnode)
      have hposC2 := hposC' i' n' hro hp.rnode
      have hF' := findNode_unique F _ n'.uid (renderNode n') hposC2 rfl hU
      refine ⟨ib j + 1, absNode ⟨false, rnf⟩ F (renderNode n), absNode ⟨false, rnf⟩ F (renderNode n'),
        by rw [hir]; simp [hro], h1, by rw [absFlow_getElem?, hposC]; rfl, by rw [h2], by rw [h2], ?_,
        by rw [absFlow_getElem?, hposC2]; rfl, h3, h4, ?_⟩
      · rw [h2]; simp [destIdx, hF']
      · exact h5.imp (fun x y hxy => dr_to_drel _ x y (fun e he => ⟨(hsub j e he).1, (hsub j e he).2.2⟩) hxy)
  -- where the two flows start
  have hstart : (absFlow ⟨false, rnf⟩ r = [] ∧ absFlow ⟨false, rnf⟩ F = []) ∨
      (absFlow ⟨false, rnf⟩ r ≠ [] ∧ absFlow ⟨false, rnf⟩ F ≠ [] ∧ ∃ j0, V j0 ∧ ia j0 = 0 ∧ ib j0 = 0) := by
    obtain ⟨W, hW⟩ : ∃ W : Nat → Prop, W = fun j => ∃ c, rows[j]? = some c ∧ isNodeRow c = true := ⟨_, rfl⟩
    have hnotW : ∀ j, ¬ W j → fR j = none ∧ gC j = [] := by
      intro j hj
      rw [hW] at hj
      rw [hfR, hgC]
      cases hcj : rows[j]? with
      | none => simp [nodeIdxs, hcj]
      | some c =>
        have : isNodeRow c = false := by
          cases hh : isNodeRow c
          · rfl
          · exact absurd ⟨c, hcj, hh⟩ hj
        simp [nodeIdxs, hcj, this]
    by_cases hex : ∃ j, W j
    · right
      -- the first node-producing row
      obtain ⟨j0, hj0, hmin⟩ : ∃ j0, W j0 ∧ ∀ j, j < j0 → ¬ W j := by
        obtain ⟨j, hj⟩ := hex
        induction j using Nat.strong_induction_on with
        | _ j ih =>
          by_cases hm : ∃ j', j' < j ∧ W j'
          · obtain ⟨j', hlt, hj'⟩ := hm
            exact ih j' hlt hj'
          · exact ⟨j, hj, fun j' hlt hj' => hm ⟨j', hlt, hj'⟩⟩
      have hia0 : ia j0 = 0 := by
        rw [hia]
        simp only
        rw [filterMap_nil_of]; rfl
        intro x hx
        have : x < j0 := by
          have := List.mem_take_iff_getElem.mp hx
          obtain ⟨i, hi, rfl⟩ := this
          simp at hi ⊢; omega
        exact (hnotW x (hmin x this)).1
      have hib0 : ib j0 = 0 := by
        rw [hib]
        simp only
        rw [flatMap_nil_of]; rfl
        intro x hx
        have : x < j0 := by
          have := List.mem_take_iff_getElem.mp hx
          obtain ⟨i, hi, rfl⟩ := this
          simp at hi ⊢; omega
        exact (hnotW x (hmin x this)).2
      have hj0' := hj0
      rw [hW] at hj0'
      obtain ⟨c, hcj, hn⟩ := hj0'
      -- it is not a `no_op` row
      have hfind : rows.find? (fun c => (kindOf c.row.type).isNode) = some c := by
        refine find?_first _ rows j0 c hcj hn ?_
        intro i y hi hy
        cases hh : (kindOf y.row.type).isNode with
        | false => rfl
        | true => exact absurd (by rw [hW]; exact ⟨y, hy, hh⟩) (hmin i hi)
      have hno : isNoop c = false := by
        unfold firstOk at hfirst
        rw [hfind] at hfirst
        simpa using hfirst
      have hel : M.el j0 = false := hrel.elno j0 c hcj hno
      have hposR := hrowR j0 c hcj hn
      obtain ⟨n, _, _, hposC, _⟩ := hrowC j0 c hcj hn hel
      refine ⟨?_, ?_, j0, by rw [hV]; exact ⟨c, hcj, hn, hel⟩, hia0, hib0⟩
      · intro h0
        have := absFlow_getElem? ⟨false, rnf⟩ r (ia j0)
        rw [h0, hposR] at this; simp at this
      · intro h0
        have := absFlow_getElem? ⟨false, rnf⟩ F (ib j0)
        rw [h0, hposC] at this; simp at this
    · left
      have hall : ∀ j, ¬ W j := fun j hj => hex ⟨j, hj⟩
      constructor
      · unfold absFlow
        rw [hrn2, filterMap_nil_of _ _ (fun x _ => (hnotW x (hall x)).1)]; rfl
      · unfold absFlow
        rw [hFn, flatMap_nil_of _ _ (fun x _ => (hnotW x (hall x)).2)]; rfl
  exact trace_eq_of_split ⟨false, rnf⟩ r F V ia ib ir hsplit hstart env len

end Rpft.CoreSheet
