/-
The refinement theorem on the fragment: the compiled flow and the reference flow of a sheet of the
fragment have the same index-resolved abstraction (category names not observed).
-/
import Rpft.Lemmas.CoreSwitch
set_option linter.unusedSimpArgs false
set_option linter.unusedVariables false
namespace Rpft.CoreSheet
open Rpft Rpft.Compile Rpft.RefFlow Rpft.Flow

theorem noIdsL_fragment : ∀ (rows : List CRow), (∀ c ∈ rows, rowOk c = true) →
    noIdsL (rows.map toEvent) = true := by
  intro rows
  induction rows with
  | nil => intro _; rfl
  | cons c l ih =>
    intro h
    have hc := rowFacts c (h c (by simp))
    simp only [List.map_cons, noIdsL, toEvent, Event.noIds, Bool.and_eq_true]
    exact ⟨by rw [hc.nouid]; rfl, ih (fun c' hc' => h c' (by simp [hc']))⟩

theorem pass1_state {rows : List RRow} {out : List OutEdge} (h : pass1 rows = .ok out) :
    ∃ st : P1, (rows.zipIdx 0).foldlM (fun st (p : RRow × Nat) => pass1Row st p.2 p.1) {} = .ok st ∧
      out = st.out.reverse := by
  unfold pass1 at h
  simp only [bind, Except.bind, pure, Except.pure] at h
  split at h
  · cases h
  · rename_i st hst
    simp only [Except.ok.injEq] at h
    exact ⟨st, by simpa using hst, h.symm⟩

theorem good_of_fragment (rows : List CRow) (outE : List OutEdge) (hf : inFragment rows = true)
    (hp : pass1 (rows.map toRRow) = .ok outE) : (∀ c ∈ rows, rowOk c = true) ∧ Good rows outE := by
  simp only [inFragment, Bool.and_eq_true, List.all_eq_true, hp] at hf
  obtain ⟨h1, h2, h3⟩ := hf
  refine ⟨h1, ⟨h2, ?_⟩⟩
  intro j c hc
  have hj : j < rows.length := (List.getElem?_eq_some_iff.mp hc).1
  simp only [distinctTests, List.all_eq_true, List.mem_range] at h3
  have := h3 j hj
  rw [hc] at this
  simpa using this

theorem forall2_map_eq {α β γ} {R : α → β → Prop} {f : α → γ} {g : β → γ} {l1 : List α} {l2 : List β}
    (h : List.Forall₂ R l1 l2) (hfg : ∀ a b, R a b → f a = g b) : l1.map f = l2.map g := by
  induction h with
  | nil => rfl
  | cons hab _ ih => simp [hfg _ _ hab, ih]

theorem lastTgt_eq (es : List OutEdge) (p : OutEdge → Bool) :
    lastTgt es p = (((es.filter p).getLast?).map (·.tgt)).bind tgtDest := by
  unfold lastTgt
  cases (es.filter p).getLast? <;> rfl

theorem type_of_wait {t : Str} (h : kindOf t = .wait) : t = "wait_for_response".toList := by
  rcases switch_type_of_kind (.inl h) with h1 | h1 | h1
  · exact h1
  · rw [h1, kindOf_value] at h; cases h
  · rw [h1, kindOf_group] at h; cases h

theorem type_not_wait {t : Str} (h : kindOf t = .splitValue ∨ kindOf t = .splitGroup) :
    t ≠ "wait_for_response".toList := by
  intro e; rw [e, kindOf_wait] at h; rcases h with h | h <;> cases h

/-- **the compiled flow and the reference flow of a sheet of the fragment have the same
index-resolved abstraction** -/
theorem fragment_abs (rnf : Bool) (testTypes : List Str) (rows : List CRow) (out : Out) (r : Flow)
    (hf : inFragment rows = true)
    (hc : compile RefFlow.noArgsTests testTypes (rows.map toEvent) = .ok out)
    (hr : refFlow (rows.map toRRow) = .ok r) :
    absFlow ⟨false, rnf⟩ r = absFlow ⟨false, rnf⟩ (renderOut out) := by
  obtain ⟨s, hrun, hl, ho⟩ := compile_ok hc
  obtain ⟨outE, hp1, hrn⟩ := refFlow_nodes _ _ hr
  obtain ⟨hfr, hgood⟩ := good_of_fragment rows outE hf hp1
  obtain ⟨st, hfold, hoe⟩ := pass1_state hp1
  have hrel := wp_of_run (rows_sim rows outE hgood rows 0 (fun i c hi => by simpa using hi) hfr _ {} st
    (rel_init rows _ testTypes rfl) hfold (by rw [hoe])) hrun
  simp only [Nat.zero_add] at hrel
  -- the compiled nodes
  have hon : out.nodes = s.nodes.toList := by rw [ho]; exact out_nodes_rel hrel
  -- their identifiers are pairwise different
  have hids := noIdsL_fragment rows hfr
  have a := final_ainv ⟨True, True⟩ ⟨fun _ => okIdsL_of_noIdsL _ hids, fun _ => hids⟩ hrun
  have hI := a.ids trivial
  have hU : ((renderOut out).nodes.map (·.uuid)).Nodup := by
    have := uids_nodup_of_invented hI (a.inv trivial) _ (emit_nodup (final_binv hrun) hl)
    rw [← ho] at this
    simpa [renderOut, List.map_map, Function.comp_def, renderNode] using this
  -- the reference nodes
  have hkinds : ∀ rr ∈ rows.map toRRow, rr.kind.isNode = true := by
    intro rr hrr
    simp only [List.mem_map] at hrr
    obtain ⟨c, hc', rfl⟩ := hrr
    rcases (rowFacts c (hfr c hc')).kind with h | h | h | h <;>
      (show (kindOf c.row.type).isNode = true; rw [h]; rfl)
  have hRU : (r.nodes.map (·.uuid)).Nodup := (refFlow_closed _ _ hr).1
  -- a destination of the compiled flow and the target it stands for resolve to the same index
  have dest_match : ∀ (d : Dest) (t : Option Target), DestIs s.nodes d t →
      destIdx (renderOut out) (renderDest d) = destIdx r (t.bind tgtDest) := by
    intro d t hd
    cases t with
    | none => simp only [DestIs] at hd; simp [hd, renderDest, destIdx]
    | some t =>
      cases t with
      | exit =>
        simp only [DestIs] at hd
        rcases hd with hd | hd <;> simp [hd, renderDest, destIdx, tgtDest]
      | row t =>
        obtain ⟨m, hm, hdm⟩ := hd
        have htl : t < rows.length := by
          have := (Array.getElem?_eq_some_iff.mp hm).1
          rw [hrel.nsize] at this; exact this
        have hF : findNode (renderOut out) m.uid = some t :=
          findNode_unique _ t m.uid (renderNode m) (by simp [renderOut, hon, hm]) rfl hU
        obtain ⟨ct, hct⟩ : ∃ ct, rows[t]? = some ct := ⟨rows[t], by simp [htl]⟩
        have hR : findNode r (nodeId t) = some t :=
          findNode_unique r t (nodeId t) (mkNode t (toRRow ct) (outE.filter (·.src = t))) (by
            rw [hrn, refNodes_getElem? _ _ hkinds]
            simp [hct]) (mkNode_uuid _ _ _) hRU
        simp [hdm, renderDest, destIdx, tgtDest, hF, hR]
  -- node by node
  have hFn : (renderOut out).nodes = s.nodes.toList.map renderNode := by simp [renderOut, hon]
  generalize renderOut out = F at dest_match hU hFn ⊢
  unfold absFlow
  apply List.ext_getElem?
  intro j
  rw [List.getElem?_map, List.getElem?_map, hrn, refNodes_getElem? _ _ hkinds, hFn]
  simp only [List.getElem?_map, Array.getElem?_toList]
  by_cases hj : j < rows.length
  · obtain ⟨n, c, hn, hcj, hsim⟩ := hrel.node j hj
    simp only [hn, hcj, Option.map_some]
    congr 1
    have hfc := hfr c (List.mem_of_getElem? hcj)
    have hes : outE.filter (·.src = j) = outOf st j := by rw [hoe]; rfl
    rw [hes]
    have hsub : ∀ e ∈ outOf st j, e ∈ outE ∧ e.src = j := by
      intro e he
      have := List.mem_filter.mp he
      exact ⟨by rw [hoe]; exact this.1, by simpa using this.2⟩
    cases hsim with
    | plain hk hp =>
      -- an action row: all its out-edges are unconditional
      have hbl : ∀ e ∈ outOf st j, e.cond.blank = true := by
        intro e he
        obtain ⟨hm, hsrc⟩ := hsub e he
        have := hgood.ok e hm
        simp only [edgeOk, hsrc, hcj, Option.map_some, hk, Bool.or_eq_true] at this
        rcases this with h1 | h1
        · exact h1
        · cases h1
      have hact : (toRRow c).act = c.row.action := by
        simp only [rowOk, Bool.or_eq_true] at hfc
        rcases hfc with h1 | h1
        · simp only [plainActionRow, Bool.and_eq_true, decide_eq_true_eq] at h1
          exact h1.2.symm
        · simp only [switchRow, Bool.and_eq_true] at h1
          have := switch_type h1.1.1.1
          rcases kindOf_switch this with h2 | h2 | h2 <;> rw [hk] at h2 <;> cases h2
      rw [mkNode_plain j (toRRow c) (outOf st j) hk hbl, absNode_plain_ref,
        absNode_plain_cmp _ _ n c.row.action hp.router hp.acts, hact]
      congr 2
      rw [dest_match _ _ hp.dest]
      cases (outOf st j).getLast? <;> rfl
    | sw rr hk hp =>
      have hact : (toRRow c).act = none := by
        simp only [rowOk, Bool.or_eq_true] at hfc
        rcases hfc with h1 | h1
        · simp only [plainActionRow, Bool.and_eq_true, Bool.not_eq_true'] at h1
          have := kindOf_action h1.1.1.1
          rcases hk with h2 | h2 | h2 <;> rw [this] at h2 <;> cases h2
        · simp only [switchRow, Bool.and_eq_true, Option.isNone_iff_eq_none] at h1
          exact h1.2
      -- identifiers of the compiled router are pairwise different
      have hfn := hI.nodup j n hn
      have hrids : rr.ids.Nodup := by
        unfold NodeM.fids NodeM.innerIds NodeM.tailIds at hfn
        rw [hp.router] at hfn
        exact (List.nodup_append.mp (List.nodup_append.mp hfn).2.1).2.1
      have hex : (rr.allCats.map (·.exitUid)).Nodup := by
        unfold SwitchR.ids at hrids; exact (List.nodup_append.mp hrids).1
      have hcu : (rr.allCats.map (·.uid)).Nodup := by
        unfold SwitchR.ids at hrids
        exact (List.nodup_append.mp (List.nodup_append.mp hrids).2.1).1
      rw [mkNode_switch j (toRRow c) (outOf st j) hk hact, absNode_mkSwitch,
        absNode_sw rnf _ n rr hp.router hp.acts hcu hex hp.casecat hp.nrSome]
      -- compare field by field
      have htests : (rr.cases.map renderCase).map (fun k => (k.type, testArgs k)) =
          (refTests (toRRow c).kind (outOf st j)).map (fun t =>
            (t.1, if t.1 = "has_group".toList then t.2.1.drop 1 else t.2.1)) := by
        have e1 : (rr.cases.map renderCase).map (fun k => (k.type, testArgs k)) =
            (rr.cases.map (fun k => (k.type, k.args.map (·.getD [])))).map
              (fun (p : Str × List Str) => (p.1, if p.1 = "has_group".toList then p.2.drop 1 else p.2)) := by
          rw [List.map_map, List.map_map]
          exact List.map_congr_left (fun k _ => rfl)
        rw [e1, hp.cases, List.map_map]
        unfold refTests
        rw [List.map_map]
        exact List.map_congr_left (fun e _ => rfl)
      have hwait : (renderWait rr).map (fun o => o.map (·.1)) =
          (refWait (toRRow c) (outOf st j)).map (fun o => o.map (·.1)) := by
        unfold refWait renderWait
        rcases hk with h1 | h1
        · -- a wait row
          have ht := type_of_wait h1
          have hw : rr.wait = some (timeoutOf c.row) := by rw [hp.wait]; unfold waitOf; rw [if_pos ht]
          have hk' : (toRRow c).kind = .wait := h1
          have hto : (toRRow c).timeout = timeoutOf c.row := rfl
          rw [if_pos hk', hto, hw]
          cases hto2 : timeoutOf c.row with
          | zero => simp
          | succ m =>
            have : rr.noResp.isSome = true := hp.nrSome.mpr ⟨m, by rw [hw, hto2]⟩
            cases hnn : rr.noResp with
            | none => rw [hnn] at this; cases this
            | some nr => simp
        · have ht := type_not_wait h1
          have hw : rr.wait = none := by rw [hp.wait]; unfold waitOf; rw [if_neg ht]
          have hk' : ¬ ((toRRow c).kind = .wait) := by
            show ¬ (kindOf c.row.type = .wait)
            rcases h1 with h1 | h1 <;> rw [h1] <;> decide
          rw [if_neg hk', hw]
          rfl
      have hdests : rr.allCats.map (fun cat => destIdx F (renderDest cat.dest)) =
          ((refTests (toRRow c).kind (outOf st j)).map (fun t => destIdx r t.2.2)) ++
            [destIdx r (lastTgt ((outOf st j).filter (·.cond.blank)) (fun _ => true))] ++
            (match refWait (toRRow c) (outOf st j) with
             | some (some (_, td)) => [destIdx r td]
             | _ => []) := by
        simp only [SwitchR.allCats, List.map_append, List.map_cons, List.map_nil]
        congr 1
        · congr 1
          · -- the categories of the tests
            unfold refTests
            rw [List.map_map]
            refine forall2_map_eq hp.catd ?_
            intro cat e hd
            exact dest_match _ _ hd
          · -- the default category
            rw [dest_match _ _ hp.dflt, lastTgt_eq, List.filter_true]
        · -- the timeout category
          unfold refWait
          rcases hk with h1 | h1
          · have ht := type_of_wait h1
            have hw : rr.wait = some (timeoutOf c.row) := by rw [hp.wait]; unfold waitOf; rw [if_pos ht]
            have hk' : (toRRow c).kind = .wait := h1
            have hto : (toRRow c).timeout = timeoutOf c.row := rfl
            rw [if_pos hk', hto]
            cases hto2 : timeoutOf c.row with
            | zero =>
              have : rr.noResp = none := by
                cases hnn : rr.noResp with
                | none => rfl
                | some nr =>
                  obtain ⟨m, hm⟩ := hp.nrSome.mp (by simp [hnn])
                  rw [hw, hto2] at hm; cases hm
              simp [this]
            | succ m =>
              have : rr.noResp.isSome = true := hp.nrSome.mpr ⟨m, by rw [hw, hto2]⟩
              cases hnn : rr.noResp with
              | none => rw [hnn] at this; cases this
              | some nr =>
                simp only [Option.toList, List.map_cons, List.map_nil, Nat.succ_ne_zero, if_false]
                rw [dest_match _ _ (hp.nr nr hnn), lastTgt_eq]
          · have ht := type_not_wait h1
            have hw : rr.wait = none := by rw [hp.wait]; unfold waitOf; rw [if_neg ht]
            have hk' : ¬ ((toRRow c).kind = .wait) := by
              show ¬ (kindOf c.row.type = .wait)
              rcases h1 with h1 | h1 <;> rw [h1] <;> decide
            rw [if_neg hk']
            have : rr.noResp = none := by
              cases hnn : rr.noResp with
              | none => rfl
              | some nr =>
                obtain ⟨m, hm⟩ := hp.nrSome.mp (by simp [hnn])
                rw [hw] at hm; cases hm
            simp [this]
      have hop : rr.operand = (toRRow c).operand := hp.operand
      have hrn' : rr.resultName = some (toRRow c).saveName := hp.rname
      rw [htests, hwait, hdests, hop, hrn']
      rfl
  · have h1 : (rows.map toRRow)[j]? = none := by simp; omega
    have h2 : s.nodes[j]? = none := by
      rw [Array.getElem?_eq_none_iff]; rw [hrel.nsize]; omega
    simp [h1, h2]; omega

end Rpft.CoreSheet
