/-
The refinement theorem on the fragment: the compiled flow and the reference flow of a sheet of the
fragment have the same index-resolved abstraction (category names not observed).
-/
import Rpft.Lemmas.CoreSwitch
import Rpft.Lemmas.CoreChain
import Rpft.Lemmas.FlowFuse
set_option linter.unusedSimpArgs false
set_option linter.unusedVariables false
namespace Rpft.CoreSheet
open Rpft Rpft.Compile Rpft.RefFlow Rpft.Flow

theorem noIdsL_fragment : ∀ (rows : List CRow), (∀ c ∈ rows, rowOk c = true) →
    noIdsL (rows.map toEvent) = true := by
  intro rows
  induction rows with
  | nil => intro _; rfl
  | cons c l ih =>
    intro h
    have hu : c.row.nodeUuid = [] := by
      have := h c (by simp)
      simp only [rowOk, Bool.or_eq_true] at this
      rcases this with ((h1 | h1) | h1) | h1
      · exact (rowFacts c h1).nouid
      · simp only [exitRow, Bool.and_eq_true, List.isEmpty_iff] at h1; exact h1.2
      · simp only [gotoRow, Bool.and_eq_true, List.isEmpty_iff] at h1; exact h1.2
      · simp only [noopRow, Bool.and_eq_true, List.isEmpty_iff] at h1; exact h1.1.2
    simp only [List.map_cons, noIdsL, toEvent, Event.noIds, Bool.and_eq_true]
    exact ⟨by rw [hu]; rfl, ih (fun c' hc' => h c' (by simp [hc']))⟩

theorem pass1_state {rows : List RRow} {out : List OutEdge} (h : pass1 rows = .ok out) :
    ∃ st : P1, (rows.zipIdx 0).foldlM (fun st (p : RRow × Nat) => pass1Row st p.2 p.1) {} = .ok st ∧
      out = st.out.reverse := by
  unfold pass1 at h
  simp only [bind, Except.bind, pure, Except.pure] at h
  split at h
  · cases h
  · rename_i st hst
    simp only [Except.ok.injEq] at h
    exact ⟨st, by simpa using hst, h.symm⟩

theorem testRow_of_kind {c : CRow} (hk : isTestKind (kindOf c.row.type)) : testRow c = true := by
  unfold testRow
  rcases hk with hk | hk | hk
  · have : c.row.type ∈ switchTypes := by
      rcases switch_type_of_kind hk with h | h | h <;> rw [h] <;> decide
    rw [List.contains_iff_mem.mpr this]; rfl
  · rw [decide_eq_true hk]; simp
  · rw [decide_eq_true hk]; simp

theorem pass1F_state {rows : List CRow} {out : List OutEdge} (h : pass1F rows = .ok out) :
    ∃ st : P1, (rows.zipIdx 0).foldlM (fun st (p : CRow × Nat) => pass1RowF rows st p.2 p.1) {} = .ok st ∧
      out = st.out.reverse := by
  unfold pass1F at h
  simp only [bind, Except.bind, pure, Except.pure] at h
  split at h
  · cases h
  · rename_i st hst
    simp only [Except.ok.injEq] at h
    exact ⟨st, by simpa using hst, h.symm⟩

/-- what `inFragment` says, clause by clause (`rows`: the rows with the merged ones marked, `outE`:
the out-edges of the reference reading, `outF`: those of the fused reading) -/
theorem good_of_fragment (rows0 : List CRow) (outT : List OutEdge) (hf : inFragment rows0 = true)
    (hp : pass1 ((annotate rows0).map toRRow) = .ok outT) :
    ∃ outE, pass1F (annotate rows0) = .ok outE ∧ (∀ c ∈ annotate rows0, rowOk c = true) ∧
      Good (annotate rows0) outE ∧ noopShape (annotate rows0) outE = true ∧
      outE.foldlM (schedStep (annotate rows0)) [] = some [] ∧ firstOk (annotate rows0) = true ∧
      chainsOk (annotate rows0) outT outE = true := by
  have ha := annot_annotate rows0
  unfold inFragment at hf
  simp only at hf
  generalize annotate rows0 = rows at hp ha hf
  simp only [Bool.and_eq_true, List.all_eq_true] at hf
  obtain ⟨h1, hf⟩ := hf
  rw [hp] at hf
  simp only at hf
  cases hpF : pass1F rows with
  | error err => rw [hpF] at hf; cases hf
  | ok outE =>
  rw [hpF] at hf
  simp only [Bool.and_eq_true, List.all_eq_true] at hf
  obtain ⟨⟨⟨⟨⟨⟨⟨h2, h3⟩, h4⟩, h5⟩, h6⟩, h7⟩, h8⟩, h9⟩ := hf
  refine ⟨outE, rfl, h1, ⟨h2, ?_, ?_, ?_, ha⟩, h6, ?_, h8, h9⟩
  · intro j c hc hk
    have hj : j < rows.length := (List.getElem?_eq_some_iff.mp hc).1
    simp only [distinctTests, List.all_eq_true, List.mem_range] at h3
    have := h3 j hj
    rw [hc] at this
    have this2 : (!testRow c ||
        decide (((testsOf (kindOf c.row.type) (outE.filter (·.src = j))).map
          (fun e => refTest (kindOf c.row.type) e.cond)).Nodup)) = true := this
    rw [testRow_of_kind hk] at this2
    simpa using this2
  · intro j c hc hk e he
    have hj : j < rows.length := (List.getElem?_eq_some_iff.mp hc).1
    simp only [sameVars, List.all_eq_true, List.mem_range] at h4
    have := h4 j hj
    rw [hc] at this
    have this2 : (!(decide (kindOf c.row.type = .action) || decide (kindOf c.row.type = .noOp)) ||
        ((outE.filter (·.src = j)).filter (fun e => !e.cond.blank)).all
          (fun e => decide (e.cond.var = implVar (outE.filter (·.src = j))))) = true := this
    have hkk : (decide (kindOf c.row.type = .action) || decide (kindOf c.row.type = .noOp)) = true := by
      rcases hk with hk | hk <;> rw [decide_eq_true hk] <;> simp
    rw [hkk] at this2
    simp only [Bool.not_true, Bool.false_or, List.all_eq_true, decide_eq_true_eq] at this2
    exact this2 e he
  · intro j c hc hk
    have hj : j < rows.length := (List.getElem?_eq_some_iff.mp hc).1
    simp only [freshNames, List.all_eq_true, List.mem_range] at h5
    have := h5 j hj
    rw [hc] at this
    have this2 : (!testRow c ||
        namesOk (kindOf c.row.type) (timeoutOf c.row) [] (testsOf (kindOf c.row.type) (outE.filter (·.src = j)))) = true := this
    rw [testRow_of_kind hk] at this2
    simpa using this2
  · unfold noopSched at h7
    cases hfo : outE.foldlM (schedStep rows) [] with
    | none => rw [hfo] at h7; cases h7
    | some pnd =>
      rw [hfo] at h7
      simp only [List.isEmpty_iff] at h7
      rw [h7]

theorem forall2_map_eq {α β γ} {R : α → β → Prop} {f : α → γ} {g : β → γ} {l1 : List α} {l2 : List β}
    (h : List.Forall₂ R l1 l2) (hfg : ∀ a b, R a b → f a = g b) : l1.map f = l2.map g := by
  induction h with
  | nil => rfl
  | cons hab _ ih => simp [hfg _ _ hab, ih]

theorem type_of_wait {t : Str} (h : kindOf t = .wait) : t = "wait_for_response".toList := by
  rcases switch_type_of_kind (.inl h) with h1 | h1 | h1
  · exact h1
  · rw [h1, kindOf_value] at h; cases h
  · rw [h1, kindOf_group] at h; cases h

theorem type_not_wait {t : Str} (h : kindOf t = .splitValue ∨ kindOf t = .splitGroup) :
    t ≠ "wait_for_response".toList := by
  intro e; rw [e, kindOf_wait] at h; rcases h with h | h <;> cases h

theorem forall2_map_eq_mem {α β γ} {R : α → β → Prop} {f : α → γ} {g : β → γ} {l1 : List α} {l2 : List β}
    (h : List.Forall₂ R l1 l2) (hfg : ∀ a b, b ∈ l2 → R a b → f a = g b) : l1.map f = l2.map g := by
  induction h with
  | nil => rfl
  | cons hab _ ih =>
    simp only [List.map_cons]
    rw [hfg _ _ (by simp) hab, ih (fun a b hb => hfg a b (by simp [hb]))]

/-- one node: the reference node of row `j` and the compiled node have the same actions and the same
decision, and corresponding destinations -/
theorem node_abs_rel (rnf : Bool) (F r : Flow) (M : Maps) (ns : Array NodeM) (j : Nat) (n : NodeM) (c : CRow)
    (post : List Str) (es : List OutEdge) (hsim : NodeSim M ns n c post es) (hfc : nodeRowOk c = true)
    (hpost : kindOf c.row.type ≠ .action → post = [])
    (rows : List CRow) (hcj : rows[j]? = some c) (hok : ∀ e ∈ es, edgeOk rows e = true ∧ e.src = j)
    (hfn0 : n.fids.Nodup) :
    (absNode ⟨false, rnf⟩ F (renderNode n)).acts = (absNode ⟨false, rnf⟩ r (mkNode j (toRRow c) es)).acts ++ post ∧
    (absNode ⟨false, rnf⟩ F (renderNode n)).ask = (absNode ⟨false, rnf⟩ r (mkNode j (toRRow c) es)).ask ∧
    List.Forall₂ (DR F r M ns es) (absNode ⟨false, rnf⟩ r (mkNode j (toRRow c) es)).dests
      (absNode ⟨false, rnf⟩ F (renderNode n)).dests := by
  have hlast : ∀ (l : List OutEdge), (∀ e ∈ l, e ∈ es) → ∀ k, (l.getLast?).map (·.tgt) = some (Target.row k) →
      ∃ e ∈ es, e.tgt = Target.row k := by
    intro l hl k hk
    cases hg : l.getLast? with
    | none => rw [hg] at hk; cases hk
    | some e =>
      rw [hg] at hk
      simp only [Option.map_some, Option.some.injEq] at hk
      exact ⟨e, hl e (List.mem_of_getLast? hg), hk⟩
  have hfil : ∀ (p : OutEdge → Bool) (l : List OutEdge), (∀ e ∈ l, e ∈ es) → ∀ e ∈ l.filter p, e ∈ es :=
    fun p l hl e he => hl e (List.mem_filter.mp he).1
  have hall : ∀ e ∈ es, e ∈ es := fun e he => he
  cases hsim with
  | plain hk hp =>
    -- an action row: all its out-edges are unconditional
    have hbl : ∀ e ∈ es, e.cond.blank = true := hp.blank
    have hact : (toRRow c).act = c.row.action := by
      simp only [nodeRowOk, Bool.or_eq_true] at hfc
      rcases hfc with ((h1 | h1) | h1) | h1
      · simp only [plainActionRow, Bool.and_eq_true, decide_eq_true_eq] at h1
        exact h1.2.symm
      · simp only [switchRow, Bool.and_eq_true] at h1
        have := switch_type h1.1.1.1
        rcases kindOf_switch this with h2 | h2 | h2 <;> rw [hk] at h2 <;> cases h2
      · simp only [fixedRow, Bool.and_eq_true] at h1
        have := fixed_type h1.1.1.1
        rcases kindOf_fixed this with h2 | h2 | h2 <;> rw [hk] at h2 <;> cases h2
      · simp only [randomRow, Bool.and_eq_true, decide_eq_true_eq] at h1
        have h2 := kindOf_random; rw [← h1.1.1.1, hk] at h2; cases h2
    rw [mkNode_plain j (toRRow c) (es) hk hbl, absNode_plain_ref,
      absNode_plain_cmp' _ _ n _ hp.router hp.acts, hact]
    refine ⟨rfl, rfl, List.Forall₂.cons ⟨n.dexitDest, _, hp.dest, hlast es hall, ?_, rfl⟩ List.Forall₂.nil⟩
    cases (es).getLast? <;> rfl
  | sw rr hk hp =>
    have hp0 : post = [] := hpost (by rcases hk with h | h | h <;> rw [h] <;> decide)
    subst hp0
    have hact : (toRRow c).act = none := by
      simp only [nodeRowOk, Bool.or_eq_true] at hfc
      rcases hfc with ((h1 | h1) | h1) | h1
      · simp only [plainActionRow, Bool.and_eq_true, Bool.not_eq_true'] at h1
        have := kindOf_action h1.1.1.1
        rcases hk with h2 | h2 | h2 <;> rw [this] at h2 <;> cases h2
      · simp only [switchRow, Bool.and_eq_true, Option.isNone_iff_eq_none] at h1
        exact h1.2
      · simp only [fixedRow, Bool.and_eq_true] at h1
        have := fixed_type h1.1.1.1
        rcases kindOf_fixed this with h3 | h3 | h3 <;> rcases hk with h2 | h2 | h2 <;> rw [h3] at h2 <;> cases h2
      · simp only [randomRow, Bool.and_eq_true, Option.isNone_iff_eq_none] at h1
        exact h1.2
    -- identifiers of the compiled router are pairwise different
    have hfn := hfn0
    have hrids : rr.ids.Nodup := by
      unfold NodeM.fids NodeM.innerIds NodeM.tailIds at hfn
      rw [hp.router] at hfn
      exact (List.nodup_append.mp (List.nodup_append.mp hfn).2.1).2.1
    have hex : (rr.allCats.map (·.exitUid)).Nodup := by
      unfold SwitchR.ids at hrids; exact (List.nodup_append.mp hrids).1
    have hcu : (rr.allCats.map (·.uid)).Nodup := by
      unfold SwitchR.ids at hrids
      exact (List.nodup_append.mp (List.nodup_append.mp hrids).2.1).1
    rw [mkNode_switch j (toRRow c) (es) hk hact, absNode_mkSwitch,
      absNode_sw rnf _ n rr hp.router hp.acts hcu hex hp.casecat hp.nrSome]
    -- compare field by field
    have htests : (rr.cases.map renderCase).map (fun k => (k.type, testArgs k)) =
        (refTests (toRRow c).kind (es)).map (fun t =>
          (t.1, if t.1 = "has_group".toList then t.2.1.drop 1 else t.2.1)) := by
      have e1 : (rr.cases.map renderCase).map (fun k => (k.type, testArgs k)) =
          (rr.cases.map (fun k => (k.type, k.args.map (·.getD [])))).map
            (fun (p : Str × List Str) => (p.1, if p.1 = "has_group".toList then p.2.drop 1 else p.2)) := by
        rw [List.map_map, List.map_map]
        exact List.map_congr_left (fun k _ => rfl)
      rw [e1, hp.cases, List.map_map]
      unfold refTests
      rw [List.map_map]
      exact List.map_congr_left (fun e _ => rfl)
    have hwait : (renderWait rr).map (fun o => o.map (·.1)) =
        (refWait (toRRow c) (es)).map (fun o => o.map (·.1)) := by
      unfold refWait renderWait
      rcases hk with h1 | h1
      · -- a wait row
        have ht := type_of_wait h1
        have hw : rr.wait = some (timeoutOf c.row) := by rw [hp.wait]; unfold waitOf; rw [if_pos ht]
        have hk' : (toRRow c).kind = .wait := h1
        have hto : (toRRow c).timeout = timeoutOf c.row := rfl
        rw [if_pos hk', hto, hw]
        cases hto2 : timeoutOf c.row with
        | zero => simp
        | succ m =>
          have : rr.noResp.isSome = true := hp.nrSome.mpr ⟨m, by rw [hw, hto2]⟩
          cases hnn : rr.noResp with
          | none => rw [hnn] at this; cases this
          | some nr => simp
      · have ht := type_not_wait h1
        have hw : rr.wait = none := by rw [hp.wait]; unfold waitOf; rw [if_neg ht]
        have hk' : ¬ ((toRRow c).kind = .wait) := by
          show ¬ (kindOf c.row.type = .wait)
          rcases h1 with h1 | h1 <;> rw [h1] <;> decide
        rw [if_neg hk', hw]
        rfl
    have hdests : List.Forall₂ (DR F r M ns es)
        (((refTests (toRRow c).kind (es)).map (fun t => destIdx r t.2.2)) ++
          [destIdx r (lastTgt ((es).filter (·.cond.blank)) (fun _ => true))] ++
          (match refWait (toRRow c) (es) with
           | some (some (_, td)) => [destIdx r td]
           | _ => []))
        (rr.allCats.map (fun cat => destIdx F (renderDest cat.dest))) := by
      simp only [SwitchR.allCats, List.map_append, List.map_cons, List.map_nil]
      refine List.rel_append (List.rel_append ?_ ?_) ?_
      · -- the categories of the tests
        unfold refTests
        rw [List.map_map]
        refine forall2_flip_map hp.catd ?_
        intro cat e he hd
        refine ⟨cat.dest, some e.tgt, hd, ?_, rfl, rfl⟩
        intro k hk
        simp only [Option.some.injEq] at hk
        have : e ∈ es := by unfold testsOf at he; exact hfil _ _ (hfil _ _ hall) e he
        exact ⟨e, this, hk⟩
      · -- the default category
        refine List.Forall₂.cons ⟨rr.dflt.dest, _, hp.dflt, hlast _ (hfil _ _ hall), ?_, rfl⟩ List.Forall₂.nil
        rw [lastTgt_eq, List.filter_true]
      · -- the timeout category
        unfold refWait
        rcases hk with h1 | h1
        · have ht := type_of_wait h1
          have hw : rr.wait = some (timeoutOf c.row) := by rw [hp.wait]; unfold waitOf; rw [if_pos ht]
          have hk' : (toRRow c).kind = .wait := h1
          have hto : (toRRow c).timeout = timeoutOf c.row := rfl
          rw [if_pos hk', hto]
          cases hto2 : timeoutOf c.row with
          | zero =>
            have : rr.noResp = none := by
              cases hnn : rr.noResp with
              | none => rfl
              | some nr =>
                obtain ⟨m, hm⟩ := hp.nrSome.mp (by simp [hnn])
                rw [hw, hto2] at hm; cases hm
            simp only [this, Option.toList, List.map_nil, if_true]
            exact List.Forall₂.nil
          | succ m =>
            have : rr.noResp.isSome = true := hp.nrSome.mpr ⟨m, by rw [hw, hto2]⟩
            cases hnn : rr.noResp with
            | none => rw [hnn] at this; cases this
            | some nr =>
              simp only [Option.toList, List.map_cons, List.map_nil, Nat.succ_ne_zero, if_false]
              refine List.Forall₂.cons ⟨nr.dest, _, hp.nr nr hnn, hlast _ (hfil _ _ (hfil _ _ hall)), ?_, rfl⟩ List.Forall₂.nil
              rw [lastTgt_eq]
        · have ht := type_not_wait h1
          have hw : rr.wait = none := by rw [hp.wait]; unfold waitOf; rw [if_neg ht]
          have hk' : ¬ ((toRRow c).kind = .wait) := by
            show ¬ (kindOf c.row.type = .wait)
            rcases h1 with h1 | h1 <;> rw [h1] <;> decide
          rw [if_neg hk']
          have : rr.noResp = none := by
            cases hnn : rr.noResp with
            | none => rfl
            | some nr =>
              obtain ⟨m, hm⟩ := hp.nrSome.mp (by simp [hnn])
              rw [hw] at hm; cases hm
          simp only [this, Option.toList, List.map_nil]
          exact List.Forall₂.nil
    have hop : rr.operand = (toRRow c).operand := hp.operand
    have hrn' : rr.resultName = some (toRRow c).saveName := hp.rname
    refine ⟨(List.append_nil _).symm, ?_, hdests⟩
    simp only
    rw [htests, hwait, hop, hrn']
  | fix rr sc hk hp =>
    have hp0 : post = [] := hpost (by rcases hk with h | h | h <;> rw [h] <;> decide)
    subst hp0
    have hact : (toRRow c).act = some (c.row.ownAction.getD []) := by
      simp only [nodeRowOk, Bool.or_eq_true] at hfc
      rcases hfc with ((h1 | h1) | h1) | h1
      · simp only [plainActionRow, Bool.and_eq_true, Bool.not_eq_true'] at h1
        have := kindOf_action h1.1.1.1
        rcases hk with h2 | h2 | h2 <;> rw [this] at h2 <;> cases h2
      · simp only [switchRow, Bool.and_eq_true] at h1
        have := switch_type h1.1.1.1
        rcases kindOf_switch this with h3 | h3 | h3 <;> rcases hk with h2 | h2 | h2 <;> rw [h3] at h2 <;> cases h2
      · simp only [fixedRow, Bool.and_eq_true, decide_eq_true_eq] at h1
        exact h1.2
      · simp only [randomRow, Bool.and_eq_true, decide_eq_true_eq] at h1
        have h3 := kindOf_random; rw [← h1.1.1.1] at h3
        rcases hk with h2 | h2 | h2 <;> rw [h3] at h2 <;> cases h2
    have hk' : isFixedKind (toRRow c).kind := hk
    rw [absNode_fix_ref rnf r j (toRRow c) es hk', absNode_fix_cmp rnf F M ns n c es rr sc hk hp hfn0, hact]
    refine ⟨(List.append_nil _).symm, rfl, ?_⟩
    unfold fixAbs
    simp only
    refine List.Forall₂.cons ⟨sc.dest, _, hp.succ, hlast _ (hfil _ _ hall), ?_, rfl⟩ (forall2_replicate
      ⟨rr.dflt.dest, _, hp.dflt, hlast _ (hfil _ _ hall), ?_, rfl⟩ _)
    · rw [lastTgt_eq]; rfl
    · rw [lastTgt_eq]; rfl
  | rnd rr hk hp =>
    have hp0 : post = [] := hpost (by rw [hk]; decide)
    subst hp0
    have hact : (toRRow c).act = none := by
      simp only [nodeRowOk, Bool.or_eq_true] at hfc
      rcases hfc with ((h1 | h1) | h1) | h1
      · simp only [plainActionRow, Bool.and_eq_true, Bool.not_eq_true'] at h1
        have := kindOf_action h1.1.1.1
        rw [this] at hk; cases hk
      · simp only [switchRow, Bool.and_eq_true, Option.isNone_iff_eq_none] at h1
        exact h1.2
      · simp only [fixedRow, Bool.and_eq_true] at h1
        have := fixed_type h1.1.1.1
        rcases kindOf_fixed this with h3 | h3 | h3 <;> rw [h3] at hk <;> cases hk
      · simp only [randomRow, Bool.and_eq_true, Option.isNone_iff_eq_none] at h1
        exact h1.2
    have hk' : (toRRow c).kind = .splitRandom := hk
    rw [absNode_rnd_ref rnf r j (toRRow c) es hk' hact, absNode_rnd_cmp rnf F n rr c.row.saveName hp.router hp.acts hp.rname hfn0]
    refine ⟨(List.append_nil _).symm, rfl, ?_⟩
    unfold rndAbs
    simp only
    refine forall2_flip_map hp.rel ?_
    intro cat b hb hd
    refine ⟨cat.dest, some b.2, hd.1, ?_, rfl, rfl⟩
    intro k hk2
    simp only [Option.some.injEq] at hk2
    obtain ⟨e, he, het⟩ := buckets_tgt es b hb
    exact ⟨e, he, by rw [het]; exact hk2⟩
  | nop rr hk hp =>
    exfalso
    have := isNoop_false_of_ok c hfc
    rw [isNoop_of_kind hk] at this; cases this

theorem zipIdx_filterMap {α β} (F : α → Nat → Option β) : ∀ (l : List α) (k : Nat),
    (l.zipIdx k).filterMap (fun p => F p.1 p.2) =
      (List.range' k l.length).filterMap (fun j => (l[j - k]?).bind (fun x => F x j)) := by
  intro l
  induction l with
  | nil => intro k; simp
  | cons a l ih =>
    intro k
    simp only [List.zipIdx_cons, List.filterMap_cons, List.length_cons, List.range'_succ, Nat.sub_self,
      List.getElem?_cons_zero, Option.bind_some]
    rw [ih (k + 1)]
    have : (List.range' (k + 1) l.length).filterMap (fun j => ((a :: l)[j - k]?).bind (fun x => F x j)) =
        (List.range' (k + 1) l.length).filterMap (fun j => (l[j - (k + 1)]?).bind (fun x => F x j)) := by
      apply List.filterMap_congr
      intro j hj
      have hjk : k + 1 ≤ j := (List.mem_range'_1.mp hj).1
      have : j - k = (j - (k + 1)) + 1 := by omega
      rw [this, List.getElem?_cons_succ]
    rw [this]

theorem filterMap_length_congr {α β γ} (L : List α) (f : α → Option β) (g : α → Option γ)
    (h : ∀ x ∈ L, (f x).isSome = (g x).isSome) : (L.filterMap f).length = (L.filterMap g).length := by
  induction L with
  | nil => rfl
  | cons x L ih =>
    have hx := h x (by simp)
    have ih' := ih (fun y hy => h y (by simp [hy]))
    simp only [List.filterMap_cons]
    cases hf : f x <;> cases hg : g x <;> simp [hf, hg] at hx ⊢ <;> exact ih'

/-- **the compiled flow and the reference flow of a sheet of the fragment have the same
index-resolved abstraction** -/
theorem filterMap_flatMap' {α β γ} (f : α → List β) (g : β → Option γ) (L : List α) :
    (L.flatMap f).filterMap g = L.flatMap (fun x => (f x).filterMap g) := by
  induction L with
  | nil => rfl
  | cons x L ih => simp [List.flatMap_cons, List.filterMap_append, ih]

theorem map_flatMap' {α β γ} (f : α → List β) (g : β → γ) (L : List α) :
    (L.flatMap f).map g = L.flatMap (fun x => (f x).map g) := by
  induction L with
  | nil => rfl
  | cons x L ih => simp [List.flatMap_cons, ih]

/-- positions in a list built by `flatMap` -/
theorem flatMap_pos {α β} (f : α → List β) (L : List α) (t : Nat) (x : α) (hx : L[t]? = some x) (i : Nat)
    (hi : i < (f x).length) : (L.flatMap f)[((L.take t).flatMap f).length + i]? = (f x)[i]? := by
  have hL : L = L.take t ++ x :: L.drop (t + 1) := by
    have := List.getElem?_eq_some_iff.mp hx
    rw [← this.2]
    simp
  have : L.flatMap f = (L.take t).flatMap f ++ (f x ++ (L.drop (t + 1)).flatMap f) := by
    conv => lhs; rw [hL]
    rw [List.flatMap_append, List.flatMap_cons]
  rw [this, List.getElem?_append_right (Nat.le_add_right _ _), Nat.add_sub_cancel_left,
    List.getElem?_append_left hi]

theorem flatMap_nil_of {α β} (f : α → List β) (L : List α) (h : ∀ x ∈ L, f x = []) : L.flatMap f = [] := by
  induction L with
  | nil => rfl
  | cons x L ih => simp [List.flatMap_cons, h x (by simp), ih (fun y hy => h y (by simp [hy]))]

theorem filterMap_nil_of {α β} (f : α → Option β) (L : List α) (h : ∀ x ∈ L, f x = none) : L.filterMap f = [] := by
  induction L with
  | nil => rfl
  | cons x L ih => simp [List.filterMap_cons, h x (by simp), ih (fun y hy => h y (by simp [hy]))]

theorem find?_first {α} (p : α → Bool) : ∀ (l : List α) (j : Nat) (x : α), l[j]? = some x → p x = true →
    (∀ i y, i < j → l[i]? = some y → p y = false) → l.find? p = some x := by
  intro l
  induction l with
  | nil => intro j x h; cases h
  | cons a l ih =>
    intro j x hx hp hmin
    cases j with
    | zero =>
      simp only [List.getElem?_cons_zero, Option.some.injEq] at hx
      subst hx
      simp [List.find?_cons, hp]
    | succ j =>
      have ha : p a = false := hmin 0 a (Nat.succ_pos j) rfl
      simp only [List.find?_cons, ha]
      exact ih j x (by simpa using hx) hp (fun i y hi hy => hmin (i + 1) y (Nat.succ_lt_succ hi) (by simpa using hy))

/-- a `no_op` row of the fragment performs no action -/
theorem refAct_of_noop {c : CRow} (hok : rowOk c = true) (hn : isNoop c = true) : c.refAct = none := by
  have hk := kind_of_noop hn
  simp only [rowOk, Bool.or_eq_true] at hok
  rcases hok with ((h1 | h1) | h1) | h1
  · rw [isNoop_false_of_ok c h1] at hn; cases hn
  · exfalso
    simp only [exitRow, Bool.and_eq_true, Bool.or_eq_true, decide_eq_true_eq] at h1
    rcases h1.1 with h2 | h2 <;> rw [h2] at hk
    · rw [kindOf_hard] at hk; cases hk
    · rw [kindOf_loose] at hk; cases hk
  · exfalso
    simp only [gotoRow, Bool.and_eq_true, decide_eq_true_eq] at h1
    rw [h1.1, kindOf_goto] at hk; cases hk
  · simp only [noopRow, Bool.and_eq_true, Option.isNone_iff_eq_none] at h1
    exact h1.2

/-- a row with a node that is not a `no_op` row is one of the node rows of the fragment -/
theorem nodeRowOk_of_ok {c : CRow} (hok : rowOk c = true) (hn : isNodeRow c = true) (hno : isNoop c = false) :
    nodeRowOk c = true := by
  simp only [rowOk, Bool.or_eq_true] at hok
  rcases hok with ((h1 | h1) | h1) | h1
  · exact h1
  · exfalso
    simp only [exitRow, Bool.and_eq_true, Bool.or_eq_true, decide_eq_true_eq] at h1
    unfold isNodeRow at hn
    rcases h1.1 with h2 | h2 <;> rw [h2] at hn
    · rw [kindOf_hard] at hn; cases hn
    · rw [kindOf_loose] at hn; cases hn
  · exfalso
    simp only [gotoRow, Bool.and_eq_true, decide_eq_true_eq] at h1
    unfold isNodeRow at hn
    rw [h1.1, kindOf_goto] at hn; cases hn
  · exfalso
    simp only [noopRow, Bool.and_eq_true] at h1
    rw [h1.1.1] at hno; cases hno

/-! ### small facts about lists -/

theorem filterMap_all_some {α β} (g : α → Option β) : ∀ (l : List α), (∀ x ∈ l, (g x).isSome = true) →
    (l.filterMap g).length = l.length ∧ ∀ i : Nat, (l.filterMap g)[i]? = (l[i]?).bind g := by
  intro l
  induction l with
  | nil => intro _; exact ⟨rfl, fun i => by simp⟩
  | cons x l ih =>
    intro h
    obtain ⟨y, hy⟩ := Option.isSome_iff_exists.mp (h x (by simp))
    obtain ⟨h1, h2⟩ := ih (fun z hz => h z (by simp [hz]))
    simp only [List.filterMap_cons, hy]
    refine ⟨by simp [h1], fun i => ?_⟩
    cases i with
    | zero => simp [hy]
    | succ i => simpa using h2 i

theorem getLastD_of_getElem? {α} : ∀ (l : List α) (d t : α) (i : Nat), i + 1 = l.length → l[i]? = some t →
    l.getLastD d = t := by
  intro l d t i hi ht
  have hne : l ≠ [] := by intro e; rw [e] at hi; cases hi
  rw [List.getLastD_eq_getLast?, List.getLast?_eq_getElem?]
  have : l.length - 1 = i := by omega
  rw [this, ht]; rfl

theorem zip_tail_mem {α} : ∀ (l : List α) (i : Nat) (a b : α), l[i]? = some a → l[i + 1]? = some b →
    (a, b) ∈ l.zip l.tail := by
  intro l
  induction l with
  | nil => intro i a b h; cases h
  | cons x l ih =>
    intro i a b ha hb
    cases l with
    | nil => simp at hb
    | cons y l =>
      cases i with
      | zero =>
        simp only [List.getElem?_cons_zero, Option.some.injEq, Nat.zero_add, List.getElem?_cons_succ] at ha hb
        subst ha hb
        simp
      | succ i =>
        have := ih i a b (by simpa using ha) (by simpa using hb)
        simp only [List.tail_cons, List.zip_cons_cons, List.mem_cons]
        exact .inr (by simpa using this)

theorem map_resrc_self (l : List OutEdge) (R : Nat) :
    (l.filter (·.src = R)).map (fun e => ({ e with src := R } : OutEdge)) = l.filter (·.src = R) := by
  conv => rhs; rw [← List.map_id (l.filter (·.src = R))]
  apply List.map_congr_left
  intro e he
  have : e.src = R := by simpa using (List.mem_filter.mp he).2
  cases e; simp only at this; subst this; rfl

/-- what `chainsOk` says -/
theorem chains_of_ok {rows : List CRow} {outE outF : List OutEdge} (h : chainsOk rows outE outF = true) :
    (∀ e ∈ outF, ∀ t, e.tgt = Target.row t → ∃ ct, rows[t]? = some ct ∧ isNodeRow ct = true) ∧
    (∀ R cR, rows[R]? = some cR → isNodeRow cR = true →
      (∀ p ∈ (membersOf rows R).zip (membersOf rows R).tail, ∃ e, outE.filter (·.src = p.1) = [e] ∧
          e.tgt = Target.row p.2 ∧ e.cond.blank = true) ∧
      outF.filter (·.src = R) =
        (outE.filter (·.src = (membersOf rows R).getLastD R)).map (fun e => { e with src := R })) := by
  unfold chainsOk at h
  simp only [Bool.and_eq_true, List.all_eq_true, List.mem_range] at h
  obtain ⟨h1, h2⟩ := h
  refine ⟨fun e he t ht => ?_, fun R cR hcR hn => ?_⟩
  · have := h1 e he
    rw [ht] at this
    unfold tgtOwns at this
    simp only at this
    cases hct : rows[t]? with
    | none => rw [hct] at this; cases this
    | some ct => rw [hct] at this; exact ⟨ct, rfl, this⟩
  · have hR : R < rows.length := (List.getElem?_eq_some_iff.mp hcR).1
    have := h2 R hR
    rw [hcR] at this
    have hown : ownsNode cR = true := hn
    simp only [hown, Bool.not_true, Bool.false_or, Bool.and_eq_true, List.all_eq_true, decide_eq_true_eq] at this
    refine ⟨fun p hp => ?_, this.2⟩
    have := this.1 p hp
    split at this
    · rename_i e he
      simp only [Bool.and_eq_true, decide_eq_true_eq] at this
      exact ⟨e, he, this.1, this.2⟩
    · cases this


/-- an action row of the fragment performs its action, as the documentation says -/
theorem act_of_named {c : CRow} (hok : rowOk c = true) (hna : isNamedAct c = true) :
    ∃ a, c.row.action = some a ∧ (toRRow c).act = some a := by
  have hsp : specialTypes.contains c.row.type = false := by
    unfold isNamedAct at hna
    simp only [Bool.and_eq_true, Bool.not_eq_true'] at hna; exact hna.1
  obtain ⟨_, _, _, _, _, _, _, h8, h9, h10, h11, _⟩ := not_special hsp
  have hpl : plainActionRow c = true := by
    simp only [rowOk, Bool.or_eq_true] at hok
    rcases hok with ((hf | hf) | hf) | hf
    · simp only [nodeRowOk, Bool.or_eq_true] at hf
      rcases hf with ((h1 | h1) | h1) | h1
      · exact h1
      · simp only [switchRow, Bool.and_eq_true] at h1
        have := h1.1.1.1
        rw [List.contains_iff_mem] at this
        have h2 : c.row.type ∈ specialTypes := by
          simp only [switchTypes, List.map_cons, List.map_nil, List.mem_cons, List.not_mem_nil, or_false] at this
          rcases this with h | h | h <;> rw [h] <;> decide
        rw [List.contains_iff_mem.mpr h2] at hsp; cases hsp
      · simp only [fixedRow, Bool.and_eq_true] at h1
        have := fixed_type h1.1.1.1
        have h2 : c.row.type ∈ specialTypes := by rcases this with h | h | h <;> rw [h] <;> decide
        rw [List.contains_iff_mem.mpr h2] at hsp; cases hsp
      · simp only [randomRow, Bool.and_eq_true, decide_eq_true_eq] at h1
        have h2 : c.row.type ∈ specialTypes := by rw [h1.1.1.1]; decide
        rw [List.contains_iff_mem.mpr h2] at hsp; cases hsp
    · simp only [exitRow, Bool.and_eq_true, Bool.or_eq_true, decide_eq_true_eq] at hf
      rcases hf.1 with h1 | h1
      · exact absurd h1 h10
      · exact absurd h1 h11
    · simp only [gotoRow, Bool.and_eq_true, decide_eq_true_eq] at hf
      exact absurd hf.1 h9
    · simp only [noopRow, isNoop, Bool.and_eq_true, decide_eq_true_eq] at hf
      exact absurd hf.1.1 h8
  simp only [plainActionRow, Bool.and_eq_true, Bool.or_eq_true, decide_eq_true_eq] at hpl
  obtain ⟨⟨_, hnm⟩, hact⟩ := hpl
  have hne := name_ne_of_named hna
  have hsome : c.row.action.isSome = true := by
    rcases hnm with h | h
    · exact absurd (List.isEmpty_iff.mp h) hne
    · exact h
  obtain ⟨a, ha⟩ := Option.isSome_iff_exists.mp hsome
  exact ⟨a, ha, by show c.refAct = some a; rw [← hact, ha]⟩

/-- an action row that is not merged performs its action, as the documentation says -/
theorem act_of_action_row {c : CRow} (hok : rowOk c = true) (hn : isNodeRow c = true)
    (hk : kindOf c.row.type = .action) : (toRRow c).act = c.row.action := by
  have hfc := nodeRowOk_of_ok hok hn (by
    cases hh : isNoop c with
    | false => rfl
    | true => have := kind_of_noop hh; rw [hk] at this; cases this)
  simp only [nodeRowOk, Bool.or_eq_true] at hfc
  rcases hfc with ((h1 | h1) | h1) | h1
  · simp only [plainActionRow, Bool.and_eq_true, decide_eq_true_eq] at h1
    exact h1.2.symm
  · simp only [switchRow, Bool.and_eq_true] at h1
    have := switch_type h1.1.1.1
    rcases kindOf_switch this with h2 | h2 | h2 <;> rw [hk] at h2 <;> cases h2
  · simp only [fixedRow, Bool.and_eq_true] at h1
    have := fixed_type h1.1.1.1
    rcases kindOf_fixed this with h2 | h2 | h2 <;> rw [hk] at h2 <;> cases h2
  · simp only [randomRow, Bool.and_eq_true, decide_eq_true_eq] at h1
    have h2 := kindOf_random; rw [← h1.1.1.1, hk] at h2; cases h2

theorem postUpTo_unnamed (rows : List CRow) (kg R : Nat) (cR : CRow) (hc : rows[R]? = some cR)
    (hn : isNamedAct cR = false) : postUpTo rows kg R = [] := by
  unfold postUpTo; rw [hc]; simp [hn]

/-- **the refinement theorem on the fragment, at the level of traces**; `rows`: the rows with the merged
ones marked, `outE` / `outF`: the out-edges of the reference reading and of the fused reading -/
theorem fragment_traceA (rnf : Bool) (testTypes : List Str) (rows : List CRow) (out : Out) (r : Flow)
    (outE outF : List OutEdge)
    (hfr : ∀ c ∈ rows, rowOk c = true) (hp1 : pass1 (rows.map toRRow) = .ok outE) (hpF : pass1F rows = .ok outF)
    (hgood : Good rows outF) (hshape : noopShape rows outF = true)
    (hsched : outF.foldlM (schedStep rows) [] = some []) (hfirst : firstOk rows = true)
    (hch : chainsOk rows outE outF = true)
    (hc : compile RefFlow.noArgsTests testTypes (rows.map toEvent) = .ok out)
    (hr : refFlow (rows.map toRRow) = .ok r) (env : Nat → Nat) (len : Nat) :
    trace ⟨false, rnf⟩ r env len = trace ⟨false, rnf⟩ (renderOut out) env len := by
  obtain ⟨s, hrun, hl, ho⟩ := compile_ok hc
  obtain ⟨outE', hp1', hrn⟩ := refFlow_nodes _ _ hr
  rw [hp1] at hp1'; injection hp1' with hp1'; subst hp1'
  obtain ⟨stT, hfold, hoe⟩ := pass1F_state hpF
  obtain ⟨M, st, pnd, hrel, hs⟩ := wp_of_run (rows_simN rows outF hgood hshape ⟨_, hsched⟩ rows 0
    (fun i c hi => by simpa using hi) hfr
    ⟨fun _ => 0, fun _ => none, fun _ => false, fun _ => false⟩ _ {} stT
    (relN_init rows _ (fun _ => rfl) (fun _ => rfl) (fun _ => rfl) _ testTypes rfl) hfold (by rw [hoe])) hrun
  simp only [Nat.zero_add] at hrel hs
  have ha := hgood.annot
  obtain ⟨hC0, hC12⟩ := chains_of_ok hch
  -- at the end no edge is waiting
  have hpnd : pnd = [] := by
    have := hs.fold
    rw [← hoe, hsched] at this
    injection this with this
    exact this.symm
  subst hpnd
  have hsp : ∀ j, outOf stT j = outOf st j := by
    intro j
    have := hs.split j
    simpa using this
  -- identifiers of the compiled flow are pairwise different
  have hids := noIdsL_fragment rows hfr
  have a := final_ainv ⟨True, True⟩ ⟨fun _ => okIdsL_of_noIdsL _ hids, fun _ => hids⟩ hrun
  have hI := a.ids trivial
  have hU : ((renderOut out).nodes.map (·.uuid)).Nodup := by
    have := uids_nodup_of_invented hI (a.inv trivial) _ (emit_nodup (final_binv hrun) hl)
    rw [← ho] at this
    simpa [renderOut, List.map_map, Function.comp_def, renderNode] using this
  have hRU : (r.nodes.map (·.uuid)).Nodup := (refFlow_closed _ _ hr).1
  -- the reference nodes, per row
  obtain ⟨fR, hfR⟩ : ∃ fR : Nat → Option Node, fR = fun j => (rows[j]?).bind (fun c =>
      if (kindOf c.row.type).isNode then some (mkNode j (toRRow c) (outE.filter (·.src = j))) else none) := ⟨_, rfl⟩
  have hrn2 : r.nodes = (List.range rows.length).filterMap fR := by
    rw [hrn, hfR]
    unfold refNodes
    have := zipIdx_filterMap (fun (rr : RRow) (k : Nat) =>
      if rr.kind.isNode then some (mkNode k rr (outE.filter (·.src = k))) else none) (rows.map toRRow) 0
    simp only [List.length_map, Nat.sub_zero] at this
    rw [← List.range_eq_range'] at this
    rw [this]
    apply List.filterMap_congr
    intro j _
    simp only [List.getElem?_map]
    cases rows[j]? <;> rfl
  -- the compiled nodes, per row
  obtain ⟨gC, hgC⟩ : ∃ gC : Nat → List Node, gC = fun j =>
      ((nodeIdxs rows M j).filterMap (fun i => s.nodes[i]?)).map renderNode := ⟨_, rfl⟩
  have hFn : (renderOut out).nodes = (List.range rows.length).flatMap gC := by
    simp only [renderOut, ho, emit_rel hrel hs, filterMap_flatMap', map_flatMap', hgC]
  generalize renderOut out = F at hU hFn ⊢
  -- the correspondence: the `i`-th row of the chain of row `R` ↦ index of its reference node; index of
  -- the compiled node of `R`, in which its actions start at position `i`
  obtain ⟨iaR, hia⟩ : ∃ iaR : Nat → Nat, iaR = fun j => (((List.range rows.length).take j).filterMap fR).length := ⟨_, rfl⟩
  obtain ⟨ibR, hib⟩ : ∃ ibR : Nat → Nat, ibR = fun j => (((List.range rows.length).take j).flatMap gC).length := ⟨_, rfl⟩
  obtain ⟨mem, hmem⟩ : ∃ mem : Nat → Nat → Nat, mem = fun R i => ((membersOf rows R)[i]?).getD R := ⟨_, rfl⟩
  obtain ⟨V, hV⟩ : ∃ V : Nat × Nat → Prop, V = fun p => ∃ c, rows[p.1]? = some c ∧ isNodeRow c = true ∧ M.el p.1 = false ∧
      p.2 < (membersOf rows p.1).length := ⟨_, rfl⟩
  obtain ⟨ia, hiaP⟩ : ∃ ia : Nat × Nat → Nat, ia = fun p => iaR (mem p.1 p.2) := ⟨_, rfl⟩
  obtain ⟨ib, hibP⟩ : ∃ ib : Nat × Nat → Nat, ib = fun p => ibR p.1 := ⟨_, rfl⟩
  obtain ⟨off, hoff⟩ : ∃ off : Nat × Nat → Nat, off = fun p => p.2 := ⟨_, rfl⟩
  obtain ⟨ir, hir⟩ : ∃ ir : Nat × Nat → Option Nat, ir = fun p => (M.rOf p.1).map (fun _ => ibR p.1 + 1) := ⟨_, rfl⟩
  have hmem0 : ∀ R, mem R 0 = R := by intro R; rw [hmem]; simp [membersOf_head]
  have hmpos : ∀ R, 0 < (membersOf rows R).length := by
    intro R
    have := membersOf_head rows R
    exact (List.getElem?_eq_some_iff.mp this).1
  have hsub : ∀ j, ∀ e ∈ outOf st j, e ∈ outF ∧ e.src = j ∧ e ∈ st.out := by
    intro j e he
    have h1 := List.mem_filter.mp he
    have h2 : e ∈ outOf stT j := by rw [hsp]; exact he
    have h3 := List.mem_filter.mp h2
    exact ⟨by rw [hoe]; exact h3.1, by simpa using h1.2, by simpa using h1.1⟩
  have hes : ∀ j, outF.filter (·.src = j) = outOf st j := by intro j; rw [← hsp, hoe]; rfl
  -- what the rows give
  have hrowR : ∀ (j : Nat) (c : CRow), rows[j]? = some c → (kindOf c.row.type).isNode = true →
      r.nodes[iaR j]? = some (mkNode j (toRRow c) (outE.filter (·.src = j))) := by
    intro j c hcj hn
    have hj : j < rows.length := (List.getElem?_eq_some_iff.mp hcj).1
    have hrt : (List.range rows.length)[j]? = some j := by simp [hj]
    have hfr' : fR j = some (mkNode j (toRRow c) (outE.filter (·.src = j))) := by rw [hfR]; simp [hcj, hn]
    rw [hrn2, hia]
    exact filterMap_pos fR (List.range rows.length) j j _ hrt hfr'
  have hrowC : ∀ (j : Nat) (c : CRow), rows[j]? = some c → isNodeRow c = true → M.el j = false →
      ∃ n, s.nodes[M.nOf j]? = some n ∧
        RowSim M s.nodes n c (postUpTo rows rows.length j) (outOf st j) (M.rOf j) ∧
        F.nodes[ibR j]? = some (renderNode n) ∧
        ∀ i' n', M.rOf j = some i' → s.nodes[i']? = some n' → F.nodes[ibR j + 1]? = some (renderNode n') := by
    intro j c hcj hn hel
    have hj : j < rows.length := (List.getElem?_eq_some_iff.mp hcj).1
    have hrt : (List.range rows.length)[j]? = some j := by simp [hj]
    obtain ⟨n, hn', hsim⟩ := hrel.node j c ⟨.inl hj, hcj, hn, hel⟩
    refine ⟨n, hn', hsim, ?_, ?_⟩
    · have h0 : 0 < (gC j).length := by rw [hgC]; simp [nodeIdxs, hcj, hn, hel, idxs, hn']
      have := flatMap_pos gC (List.range rows.length) j j hrt 0 h0
      rw [hFn, hib]
      simp only [Nat.add_zero] at this
      rw [this, hgC]
      simp [nodeIdxs, hcj, hn, hel, idxs, hn']
    · intro i' n' hro hn''
      have h1 : 1 < (gC j).length := by rw [hgC]; simp [nodeIdxs, hcj, hn, hel, idxs, hn', hro, hn'']
      have := flatMap_pos gC (List.range rows.length) j j hrt 1 h1
      rw [hFn, hib]
      rw [this, hgC]
      simp [nodeIdxs, hcj, hn, hel, idxs, hn', hro, hn'']
  -- where a row with a node is found in the two flows
  have hidxR : ∀ (t : Nat) (ct : CRow), rows[t]? = some ct → (kindOf ct.row.type).isNode = true →
      destIdx r ((some (Target.row t)).bind tgtDest) = some (some (iaR t)) := by
    intro t ct hct hnt
    have hposR := hrowR t ct hct hnt
    have hR := findNode_unique r _ (nodeId t) _ hposR (mkNode_uuid _ _ _) hRU
    simp [destIdx, tgtDest, hR]
  have hidxC : ∀ (t : Nat) (ct : CRow) (m : NodeM) (d : Dest), rows[t]? = some ct → isNodeRow ct = true →
      M.el t = false → s.nodes[M.nOf t]? = some m → d = .node m.uid →
      destIdx F (renderDest d) = some (some (ibR t)) := by
    intro t ct m d hct hnt hel hm hdm
    obtain ⟨n, hn', _, hposC, _⟩ := hrowC t ct hct hnt hel
    rw [hm] at hn'; injection hn' with hn'; subst hn'
    have hF := findNode_unique F _ m.uid (renderNode m) hposC rfl hU
    simp [hdm, renderDest, destIdx, hF]
  have hV0 : ∀ (t : Nat) (ct : CRow), rows[t]? = some ct → isNodeRow ct = true → M.el t = false → V (t, 0) := by
    intro t ct hct hnt hel; rw [hV]; exact ⟨ct, hct, hnt, hel, hmpos t⟩
  have hnode0 : ∀ (t : Nat) (ct : CRow), rows[t]? = some ct → isNodeRow ct = true → M.el t = false →
      DRelO (absFlow ⟨false, rnf⟩ r) V ia ib off (some (some (iaR t))) (some (some (ibR t))) := by
    intro t ct hct hnt hel
    have := DRelO.node (A := absFlow ⟨false, rnf⟩ r) (V := V) (ia := ia) (ib := ib) (off := off) (t, 0)
      (hV0 t ct hct hnt hel) (by rw [hoff])
    rw [hiaP, hibP] at this
    simp only [hmem0] at this
    rw [hiaP, hibP]
    exact this
  -- corresponding destinations resolve to corresponding indices
  have dr_to_drel : ∀ (es : List OutEdge) (x y : Option (Option Nat)), (∀ e ∈ es, e ∈ outF ∧ e ∈ st.out) →
      DR F r M s.nodes es x y → DRelO (absFlow ⟨false, rnf⟩ r) V ia ib off x y := by
    intro es x y hes' ⟨d, t, hd, hv, hx, hy⟩
    subst hx hy
    cases t with
    | none => simp only [DestIs] at hd; subst hd; exact .none
    | some t =>
      cases t with
      | exit =>
        simp only [DestIs] at hd
        rcases hd with hd | hd <;> subst hd <;> exact .none
      | row t =>
        obtain ⟨m, hm, hdm⟩ := hd
        obtain ⟨e, he, het⟩ := hv t rfl
        obtain ⟨ct, hct, hnt⟩ := hC0 e (hes' e he).1 t het
        have hkt := isNodeRow_kind hnt
        have htl : t < rows.length := (List.getElem?_eq_some_iff.mp hct).1
        rw [hidxR t ct hct hkt]
        cases hel : M.el t with
        | false =>
          rw [hidxC t ct m d hct hnt hel hm hdm]
          exact hnode0 t ct hct hnt hel
        | true =>
          -- a `no_op` row that has disappeared: the reference flow passes through its empty node
          have hfrt : M.fr t = false := hrel.tgtfr e (hes' e he).2 t het
          obtain ⟨⟨ct', hct', hnoop⟩, b, T, cT, hout, hbb, hbt, hnOf, hcT, hnT, hnnT⟩ := hs.elided t hel hfrt htl
          rw [hct] at hct'; injection hct' with hct'; subst hct'
          have helT : M.el T = false := hrel.elno T cT hcT hnnT
          rw [hnOf] at hm
          rw [hidxC T cT m d hcT hnT helT hm hdm]
          -- the out-edges of the junction in the two readings
          obtain ⟨_, hlast⟩ := hC12 t ct hct hnt
          have hnna : isNamedAct ct = false := by
            cases hh : isNamedAct ct with
            | false => rfl
            | true => have := isNoop_of_named hh; rw [hnoop] at this; cases this
          rw [membersOf_single hct hnna] at hlast
          simp only [List.getLastD_cons, List.getLastD_nil] at hlast
          rw [map_resrc_self, hes, ← hsp, hout] at hlast
          have hposR := hrowR t ct hct hkt
          rw [← hlast, mkNode_noop_plain t (toRRow ct) [b] (kind_of_noop hnoop)
            (refAct_of_noop (hfr ct (List.mem_of_getElem? hct)) hnoop)
            (fun e he => by rw [List.mem_singleton.mp he]; exact hbb)] at hposR
          have hA : (absFlow ⟨false, rnf⟩ r)[iaR t]? = some
              { acts := [], ask := none, dests := [destIdx r ((some (Target.row T)).bind tgtDest)] } := by
            rw [absFlow_getElem?, hposR]
            simp only [Option.map_some, absNode_plain_ref, Option.toList, List.getLast?_singleton,
              Option.bind_some, hbt]
          refine .skip (iaR t) _ _ hA rfl rfl ?_
          simp only [List.head?_cons, Option.join_some]
          rw [hidxR T cT hcT (isNodeRow_kind hnT)]
          exact hnode0 T cT hcT hnT helT
  -- the split
  have hfuse : FuseOf (absFlow ⟨false, rnf⟩ r) (absFlow ⟨false, rnf⟩ F) V ia ib off ir := by
    constructor
    rintro ⟨R, i⟩ hvj
    rw [hV] at hvj
    obtain ⟨cR, hcR, hnR, helR, hi⟩ := hvj
    simp only at hcR hnR helR hi
    have hokR := hfr cR (List.mem_of_getElem? hcR)
    obtain ⟨n, hn', hsim, hposC, hposC'⟩ := hrowC R cR hcR hnR helR
    obtain ⟨hlink, hlast⟩ := hC12 R cR hcR hnR
    -- the row of the chain
    obtain ⟨t, ht⟩ : ∃ t, (membersOf rows R)[i]? = some t := ⟨_, List.getElem?_eq_getElem hi⟩
    have hmi : mem R i = t := by rw [hmem]; simp [ht]
    -- it is an action row with an action, or the only row of its chain
    have htrow : ∃ ct, rows[t]? = some ct ∧ (kindOf ct.row.type).isNode = true ∧
        ((i = 0 ∧ t = R ∧ ct = cR) ∨
         (0 < i ∧ isNamedAct cR = true ∧ isNamedAct ct = true ∧ ct.merged = true)) := by
      cases i with
      | zero =>
        have : t = R := by rw [membersOf_head] at ht; injection ht with ht; exact ht.symm
        subst this
        exact ⟨cR, hcR, isNodeRow_kind hnR, .inl ⟨rfl, rfl, rfl⟩⟩
      | succ i' =>
        have hmt : t ∈ (membersOf rows R).tail := by
          rw [List.mem_iff_getElem?]
          exact ⟨i', by rw [List.getElem?_tail]; exact ht⟩
        obtain ⟨h1, _, ct, hct, h3, h4, _⟩ := membersOf_mem_tail hcR hmt
        exact ⟨ct, hct, by rw [kindOf_of_named h4]; rfl, .inr ⟨Nat.succ_pos _, h1, h4, h3⟩⟩
    obtain ⟨ct, hct, hkt, hcase⟩ := htrow
    have hposR := hrowR t ct hct hkt
    have hiaj : ia (R, i) = iaR t := by rw [hiaP]; simp only; rw [hmi]
    have hibj : ib (R, i) = ibR R := by rw [hibP]
    have hoffj : off (R, i) = i := by rw [hoff]
    -- the actions of the compiled node: those of the chain, in order
    have hpostlen : isNamedAct cR = true →
        (postUpTo rows rows.length R).length = (membersOf rows R).length - 1 ∧
        ∀ i' t', (membersOf rows R)[i' + 1]? = some t' →
          (postUpTo rows rows.length R)[i']? = (rows[t']?).bind (fun c => c.row.action) := by
      intro hnaR
      rw [postUpTo_members rows R cR hcR hnaR]
      have hall : ∀ x ∈ (membersOf rows R).tail, ((rows[x]?).bind (fun c => c.row.action)).isSome = true := by
        intro x hx
        obtain ⟨_, _, cx, hcx, _, hnax, _⟩ := membersOf_mem_tail hcR hx
        obtain ⟨ax, hax, _⟩ := act_of_named (hfr cx (List.mem_of_getElem? hcx)) hnax
        rw [hcx]; simp [hax]
      obtain ⟨h1, h2⟩ := filterMap_all_some _ _ hall
      refine ⟨by rw [h1, List.length_tail], fun i' t' ht' => ?_⟩
      rw [h2 i', List.getElem?_tail, ht']; rfl
    have hes_R : outOf st R = (outE.filter (·.src = (membersOf rows R).getLastD R)).map (fun e => { e with src := R }) := by
      rw [← hes]; exact hlast
    have hokE : ∀ e ∈ outOf st R, edgeOk rows e = true ∧ e.src = R :=
      fun e he => ⟨hgood.ok e (hsub R e he).1, (hsub R e he).2.1⟩
    have hesub : ∀ e ∈ outOf st R, e ∈ outF ∧ e ∈ st.out := fun e he => ⟨(hsub R e he).1, (hsub R e he).2.2⟩
    refine ⟨absNode ⟨false, rnf⟩ r (mkNode t (toRRow ct) (outE.filter (·.src = t))),
      absNode ⟨false, rnf⟩ F (renderNode n),
      by rw [hiaj, absFlow_getElem?, hposR]; rfl, by rw [hibj, absFlow_getElem?, hposC]; rfl, ?_⟩
    rw [hoffj]
    by_cases hka : kindOf cR.row.type = .action
    swap
    · -- a row of another kind: the only row of its chain
      have hnaR : isNamedAct cR = false := by
        cases hh : isNamedAct cR with
        | false => rfl
        | true => exact absurd (kindOf_of_named hh) hka
      have hch1 : membersOf rows R = [R] := membersOf_single hcR hnaR
      have hi0 : i = 0 := by rw [hch1] at hi; simpa using hi
      subst hi0
      have htR : t = R := by rw [membersOf_head] at ht; injection ht with ht; exact ht.symm
      subst htR
      rw [hcR] at hct; injection hct with hct; subst hct
      rw [hch1] at hes_R
      simp only [List.getLastD_cons, List.getLastD_nil] at hes_R
      rw [map_resrc_self] at hes_R
      rw [← hes_R]
      have hpost0 : postUpTo rows rows.length t = [] := postUpTo_unnamed rows _ t cR hcR hnaR
      rw [hpost0] at hsim
      generalize hro : M.rOf t = ro at hsim
      cases hsim with
      | impl i' n' rr hk _ => exact absurd hk hka
      | one hsim =>
        have hrel1 : (absNode ⟨false, rnf⟩ F (renderNode n)).acts =
              (absNode ⟨false, rnf⟩ r (mkNode t (toRRow cR) (outOf st t))).acts ∧
            (absNode ⟨false, rnf⟩ F (renderNode n)).ask =
              (absNode ⟨false, rnf⟩ r (mkNode t (toRRow cR) (outOf st t))).ask ∧
            List.Forall₂ (DR F r M s.nodes (outOf st t))
              (absNode ⟨false, rnf⟩ r (mkNode t (toRRow cR) (outOf st t))).dests
              (absNode ⟨false, rnf⟩ F (renderNode n)).dests := by
          cases hno : isNoop cR with
          | false =>
            have := node_abs_rel rnf F r M s.nodes t n cR [] (outOf st t) hsim
              (nodeRowOk_of_ok hokR hnR hno) (fun _ => rfl) rows hcR hokE (hI.nodup _ n hn')
            rw [List.append_nil] at this; exact this
          | true =>
            have hk := kind_of_noop hno
            have hj : t < rows.length := (List.getElem?_eq_some_iff.mp hcR).1
            have hrt : testsOf .noOp (outOf st t) ≠ [] := by
              rw [← hsp]; exact hs.routed t cR hj hcR hno helR
            have hact : (toRRow cR).act = none := refAct_of_noop hokR hno
            have hv : ∀ e ∈ (outOf st t).filter (fun e => !e.cond.blank), e.cond.var = implVar (outOf st t) := by
              intro e he
              have := hgood.var t cR hcR (.inr hk) e (by rw [hes]; exact he)
              rw [hes] at this; exact this
            cases hsim with
            | plain hk' _ => rw [hk] at hk'; cases hk'
            | sw _ hk' _ => rw [hk] at hk'; rcases hk' with h | h | h <;> cases h
            | fix _ _ hk' _ => rw [hk] at hk'; rcases hk' with h | h | h <;> cases h
            | rnd _ hk' _ => rw [hk] at hk'; cases hk'
            | nop rr _ hp =>
              exact nop_abs rnf F r M s.nodes t n cR (outOf st t) rr hk hp hact hrt hv (hI.nodup _ n hn')
        refine ⟨fun k hk => by rw [hrel1.1, Nat.zero_add], .inl ⟨by rw [hir]; simp [hro], by rw [hrel1.1]; simp, hrel1.2.1, ?_⟩⟩
        exact hrel1.2.2.imp (fun x y hxy => dr_to_drel _ x y hesub hxy)
    · -- an action row: the first row of a chain of action rows
      have hactR : (toRRow cR).act = cR.row.action := act_of_action_row hokR hnR hka
      have hkt' : kindOf ct.row.type = .action := by
        rcases hcase with ⟨_, _, h3⟩ | ⟨_, _, h3, _⟩
        · rw [h3]; exact hka
        · exact kindOf_of_named h3
      have hvR : ∀ e ∈ (outOf st R).filter (fun e => !e.cond.blank), e.cond.var = implVar (outOf st R) := by
        intro e he
        have := hgood.var R cR hcR (.inl hka) e (by rw [hes]; exact he)
        rw [hes] at this; exact this
      -- the reference node of the chain's first row with the out-edges of the fused reading
      obtain ⟨aR', haR'⟩ : ∃ aR', aR' = absNode ⟨false, rnf⟩ r (mkNode R (toRRow cR) (outOf st R)) := ⟨_, rfl⟩
      have haRacts : aR'.acts = cR.row.action.toList := by
        rw [haR', (absNode_action_congr rnf r R R (toRRow cR) (toRRow cR) (outOf st R) hka hka hvR).2.2, hactR]
      -- the compiled node performs the actions of the chain
      have hbacts : (absNode ⟨false, rnf⟩ F (renderNode n)).acts =
          cR.row.action.toList ++ postUpTo rows rows.length R := by
        generalize hro : M.rOf R = ro at hsim
        cases hsim with
        | one hsim =>
          have := (node_abs_rel rnf F r M s.nodes R n cR _ (outOf st R) hsim
            (nodeRowOk_of_ok hokR hnR (by
              cases hh : isNoop cR with
              | false => rfl
              | true => have := kind_of_noop hh; rw [hka] at this; cases this))
            (fun h => absurd hka h) rows hcR hokE (hI.nodup _ n hn')).1
          rw [this, ← haR', haRacts]
        | impl i' n' rr hk hp =>
          have := (impl_abs rnf F r M s.nodes R n cR _ (outOf st R) i' n' rr hk hp hactR hvR
            (hI.nodup _ n' hp.rnode)).2.1
          rw [this, ← haR', haRacts]
      -- the own action of the row of the chain
      obtain ⟨aT, haT⟩ : ∃ aT, aT = absNode ⟨false, rnf⟩ r (mkNode t (toRRow ct) (outE.filter (·.src = t))) := ⟨_, rfl⟩
      rw [← haT]
      have hactsT : ∀ (hacts : aT.acts = (toRRow ct).act.toList),
          (∀ k, k < aT.acts.length → (absNode ⟨false, rnf⟩ F (renderNode n)).acts[i + k]? = aT.acts[k]?) ∧
          ((membersOf rows R).length = i + 1 →
            (absNode ⟨false, rnf⟩ F (renderNode n)).acts.length = i + aT.acts.length) := by
        intro hacts
        rw [hbacts, hacts]
        rcases hcase with ⟨hi0, htR, hctR⟩ | ⟨hipos, hnaR, hnat, hmt⟩
        · subst hi0 hctR
          rw [hactR]
          refine ⟨fun k hk => by rw [Nat.zero_add, List.getElem?_append_left hk], fun hlen => ?_⟩
          have : postUpTo rows rows.length R = [] := by
            cases hna : isNamedAct ct with
            | false => exact postUpTo_unnamed rows _ R ct hcR hna
            | true =>
              have := (hpostlen hna).1
              rw [hlen] at this
              exact List.eq_nil_of_length_eq_zero (by omega)
          rw [this]; simp
        · obtain ⟨aR, haR, _⟩ := act_of_named hokR hnaR
          obtain ⟨at', hat, hat2⟩ := act_of_named (hfr ct (List.mem_of_getElem? hct)) hnat
          obtain ⟨hpl, hpi⟩ := hpostlen hnaR
          rw [haR, hat2]
          obtain ⟨i', rfl⟩ : ∃ i', i = i' + 1 := ⟨i - 1, by omega⟩
          refine ⟨fun k hk => ?_, fun hlen => ?_⟩
          · have hk0 : k = 0 := by simpa using hk
            subst hk0
            simp only [Option.toList, List.singleton_append, Nat.add_zero, List.getElem?_cons_succ,
              List.getElem?_cons_zero]
            rw [hpi i' t ht, hct]; simp [hat]
          · simp only [Option.toList, List.singleton_append, List.length_cons, List.length_nil]
            rw [hpl, hlen]; omega
      by_cases hlastrow : i + 1 < (membersOf rows R).length
      · -- not the last row of its chain: it leads to the next one, and nowhere else
        obtain ⟨t', ht'⟩ : ∃ t', (membersOf rows R)[i + 1]? = some t' := ⟨_, List.getElem?_eq_getElem hlastrow⟩
        have hmt' : t' ∈ (membersOf rows R).tail := by
          rw [List.mem_iff_getElem?]
          exact ⟨i, by rw [List.getElem?_tail]; exact ht'⟩
        obtain ⟨hnaR, _, ct', hct', hmg', hna', _⟩ := membersOf_mem_tail hcR hmt'
        obtain ⟨e, hefil, hetgt, heb⟩ := hlink (t, t') (zip_tail_mem _ i t t' ht ht')
        simp only at hefil hetgt
        have hkt'' : (kindOf ct'.row.type).isNode = true := by rw [kindOf_of_named hna']; rfl
        have hnat : isNamedAct ct = true := by
          rcases hcase with ⟨_, _, h3⟩ | ⟨_, _, h3, _⟩
          · rw [h3]; exact hnaR
          · exact h3
        obtain ⟨at', hat, hat2⟩ := act_of_named (hfr ct (List.mem_of_getElem? hct)) hnat
        obtain ⟨at'', hat', hat2'⟩ := act_of_named (hfr ct' (List.mem_of_getElem? hct')) hna'
        have haTe : aT = { acts := [at'], ask := none, dests := [some (some (iaR t'))] } := by
          rw [haT, hefil, mkNode_plain t (toRRow ct) [e] hkt' (fun e' he' => by
            rw [List.mem_singleton.mp he']; exact heb), absNode_plain_ref, hat2]
          simp only [Option.toList, List.getLast?_singleton, Option.bind_some, hetgt]
          have := hidxR t' ct' hct' hkt''
          simp only [Option.bind_some] at this
          rw [this]
        have hacts : aT.acts = (toRRow ct).act.toList := by rw [haTe, hat2]; rfl
        refine ⟨(hactsT hacts).1, .inr (.inr ⟨(R, i + 1), ?_, ?_, ?_, ?_, ?_, ?_, ?_⟩)⟩
        · rw [hV]; exact ⟨cR, hcR, hnR, helR, hlastrow⟩
        · rw [haTe]; simp
        · rw [haTe]
        · rw [haTe, hiaP]
          simp only
          have : mem R (i + 1) = t' := by rw [hmem]; simp [ht']
          rw [this]
        · rw [hibP]
        · rw [hoff, haTe]; rfl
        · have hposR' := hrowR t' ct' hct' hkt''
          refine ⟨absNode ⟨false, rnf⟩ r (mkNode t' (toRRow ct') (outE.filter (·.src = t'))), ?_, ?_⟩
          · rw [hiaP]
            simp only
            have : mem R (i + 1) = t' := by rw [hmem]; simp [ht']
            rw [this, absFlow_getElem?, hposR']; rfl
          · rw [mkNode_action_acts _ r t' (toRRow ct') _ (kindOf_of_named hna'), hat2']; simp
      · -- the last row of its chain: the node is left as this row is left
        have hlen : (membersOf rows R).length = i + 1 := by omega
        have hgl : (membersOf rows R).getLastD R = t := getLastD_of_getElem? _ R t i hlen.symm ht
        rw [hgl] at hes_R
        have hT : mkNode t (toRRow ct) (outOf st R) = mkNode t (toRRow ct) (outE.filter (·.src = t)) := by
          rw [hes_R, mkNode_action_resrc _ _ _ R hkt']
        obtain ⟨hcask, hcdests, hcacts⟩ := absNode_action_congr rnf r t R (toRRow ct) (toRRow cR) (outOf st R) hkt' hka hvR
        rw [hT, ← haT, ← haR'] at hcask hcdests
        rw [hT, ← haT] at hcacts
        obtain ⟨hacts1, hacts2⟩ := hactsT hcacts
        generalize hro : M.rOf R = ro at hsim
        cases hsim with
        | one hsim =>
          obtain ⟨_, h2, h3⟩ := node_abs_rel rnf F r M s.nodes R n cR _ (outOf st R) hsim
            (nodeRowOk_of_ok hokR hnR (by
              cases hh : isNoop cR with
              | false => rfl
              | true => have := kind_of_noop hh; rw [hka] at this; cases this))
            (fun h => absurd hka h) rows hcR hokE (hI.nodup _ n hn')
          rw [← haR'] at h2 h3
          refine ⟨hacts1, .inl ⟨by rw [hir]; simp [hro], hacts2 hlen, by rw [h2, hcask], ?_⟩⟩
          rw [hcdests]
          exact h3.imp (fun x y hxy => dr_to_drel _ x y hesub hxy)
        | impl i' n' rr hk hp =>
          obtain ⟨h1, h2, h3, h4, h5⟩ := impl_abs rnf F r M s.nodes R n cR _ (outOf st R) i' n' rr hk hp hactR hvR
            (hI.nodup _ n' hp.rnode)
          rw [← haR'] at h1 h2 h4 h5
          have hposC2 := hposC' i' n' hro hp.rnode
          have hF' := findNode_unique F _ n'.uid (renderNode n') hposC2 rfl hU
          refine ⟨hacts1, .inr (.inl ⟨ibR R + 1, absNode ⟨false, rnf⟩ F (renderNode n'), by rw [hir]; simp [hro],
            by rw [hcask]; exact h1, hacts2 hlen, by rw [h2], ?_, by rw [absFlow_getElem?, hposC2]; rfl, h3,
            by rw [h4, hcask], ?_⟩)⟩
          · rw [h2]; simp [destIdx, hF']
          · rw [hcdests]
            exact h5.imp (fun x y hxy => dr_to_drel _ x y hesub hxy)
  -- where the two flows start
  have hstart : (absFlow ⟨false, rnf⟩ r = [] ∧ absFlow ⟨false, rnf⟩ F = []) ∨
      (absFlow ⟨false, rnf⟩ r ≠ [] ∧ absFlow ⟨false, rnf⟩ F ≠ [] ∧
        ∃ j0, V j0 ∧ off j0 = 0 ∧ ia j0 = 0 ∧ ib j0 = 0) := by
    obtain ⟨W, hW⟩ : ∃ W : Nat → Prop, W = fun j => ∃ c, rows[j]? = some c ∧ (kindOf c.row.type).isNode = true := ⟨_, rfl⟩
    have hnotW : ∀ j, ¬ W j → fR j = none ∧ gC j = [] := by
      intro j hj
      rw [hW] at hj
      rw [hfR, hgC]
      cases hcj : rows[j]? with
      | none => simp [nodeIdxs, hcj]
      | some c =>
        have hk0 : (kindOf c.row.type).isNode = false := by
          cases hh : (kindOf c.row.type).isNode
          · rfl
          · exact absurd ⟨c, hcj, hh⟩ hj
        have : isNodeRow c = false := by unfold isNodeRow; rw [hk0]; rfl
        simp [nodeIdxs, hcj, this, hk0]
    by_cases hex : ∃ j, W j
    · right
      -- the first node-producing row
      obtain ⟨j0, hj0, hmin⟩ : ∃ j0, W j0 ∧ ∀ j, j < j0 → ¬ W j := by
        obtain ⟨j, hj⟩ := hex
        induction j using Nat.strong_induction_on with
        | _ j ih =>
          by_cases hm : ∃ j', j' < j ∧ W j'
          · obtain ⟨j', hlt, hj'⟩ := hm
            exact ih j' hlt hj'
          · exact ⟨j, hj, fun j' hlt hj' => hm ⟨j', hlt, hj'⟩⟩
      have hia0 : iaR j0 = 0 := by
        rw [hia]
        simp only
        rw [filterMap_nil_of]; rfl
        intro x hx
        have : x < j0 := by
          have := List.mem_take_iff_getElem.mp hx
          obtain ⟨i, hi, rfl⟩ := this
          simp at hi ⊢; omega
        exact (hnotW x (hmin x this)).1
      have hib0 : ibR j0 = 0 := by
        rw [hib]
        simp only
        rw [flatMap_nil_of]; rfl
        intro x hx
        have : x < j0 := by
          have := List.mem_take_iff_getElem.mp hx
          obtain ⟨i, hi, rfl⟩ := this
          simp at hi ⊢; omega
        exact (hnotW x (hmin x this)).2
      have hj0' := hj0
      rw [hW] at hj0'
      obtain ⟨c, hcj, hn⟩ := hj0'
      -- it is not a `no_op` row
      have hfind : rows.find? (fun c => (kindOf c.row.type).isNode) = some c := by
        refine find?_first _ rows j0 c hcj hn ?_
        intro i y hi hy
        cases hh : (kindOf y.row.type).isNode with
        | false => rfl
        | true => exact absurd (by rw [hW]; exact ⟨y, hy, hh⟩) (hmin i hi)
      have hno : isNoop c = false := by
        unfold firstOk at hfirst
        rw [hfind] at hfirst
        simpa using hfirst
      -- … and it is not merged: no action row precedes it
      have hnr : isNodeRow c = true := by
        unfold isNodeRow
        rw [hn, Bool.true_and]
        cases hmm : c.merged && isNamedAct c with
        | false => rfl
        | true =>
          exfalso
          simp only [Bool.and_eq_true] at hmm
          have := ha j0 c hcj
          rw [hmm.1] at this
          unfold mergeAt at this
          rw [hcj] at this
          simp only [hmm.2, Bool.true_and] at this
          have := this.symm
          rw [List.any_eq_true] at this
          obtain ⟨c', hc', hp'⟩ := this
          obtain ⟨i', hi'⟩ := List.mem_iff_getElem?.mp hc'
          rw [List.getElem?_take] at hi'
          split at hi'
          · rename_i hlt
            simp only [Bool.and_eq_true] at hp'
            exact hmin i' hlt (by rw [hW]; exact ⟨c', hi', by rw [kindOf_of_named hp'.1]; rfl⟩)
          · cases hi'
      have hel : M.el j0 = false := hrel.elno j0 c hcj hno
      have hposR := hrowR j0 c hcj hn
      obtain ⟨n, _, _, hposC, _⟩ := hrowC j0 c hcj hnr hel
      refine ⟨?_, ?_, (j0, 0), hV0 j0 c hcj hnr hel, by rw [hoff], by rw [hiaP]; simp only; rw [hmem0, hia0],
        by rw [hibP]; exact hib0⟩
      · intro h0
        have := absFlow_getElem? ⟨false, rnf⟩ r (iaR j0)
        rw [h0, hposR] at this; simp at this
      · intro h0
        have := absFlow_getElem? ⟨false, rnf⟩ F (ibR j0)
        rw [h0, hposC] at this; simp at this
    · left
      have hall : ∀ j, ¬ W j := fun j hj => hex ⟨j, hj⟩
      constructor
      · unfold absFlow
        rw [hrn2, filterMap_nil_of _ _ (fun x _ => (hnotW x (hall x)).1)]; rfl
      · unfold absFlow
        rw [hFn, flatMap_nil_of _ _ (fun x _ => (hnotW x (hall x)).2)]; rfl
  exact trace_eq_of_fuse ⟨false, rnf⟩ r F V ia ib off ir hfuse hstart env len

/-- **the refinement theorem on the fragment, at the level of traces** -/
theorem fragment_trace (rnf : Bool) (testTypes : List Str) (rows : List CRow) (out : Out) (r : Flow)
    (hf : inFragment rows = true)
    (hc : compile RefFlow.noArgsTests testTypes (rows.map toEvent) = .ok out)
    (hr : refFlow (rows.map toRRow) = .ok r) (env : Nat → Nat) (len : Nat) :
    trace ⟨false, rnf⟩ r env len = trace ⟨false, rnf⟩ (renderOut out) env len := by
  rw [← annotate_toEvent] at hc
  rw [← annotate_toRRow] at hr
  obtain ⟨outT, hp1, _⟩ := refFlow_nodes _ _ hr
  obtain ⟨outF, hpF, hfr, hgood, hshape, hsched, hfirst, hch⟩ := good_of_fragment rows outT hf hp1
  exact fragment_traceA rnf testTypes (annotate rows) out r outT outF hfr hp1 hpF hgood hshape hsched hfirst hch hc hr env len

/-! ### sheets without merged rows: the fused reading is the reference reading

so the clauses about merged rows hold by themselves and the fragment is what it was without them -/

theorem fold_pass1F_unmerged (rows : List CRow) : ∀ (l : List CRow) (k : Nat) (st : P1),
    (∀ c ∈ l, (c.merged && isNamedAct c) = false) →
    (l.zipIdx k).foldlM (fun st (p : CRow × Nat) => pass1RowF rows st p.2 p.1) st =
      ((l.map toRRow).zipIdx k).foldlM (fun st (p : RRow × Nat) => pass1Row st p.2 p.1) st := by
  intro l
  induction l with
  | nil => intro k st _; rfl
  | cons c l ih =>
    intro k st h
    simp only [List.zipIdx_cons, List.map_cons, List.foldlM_cons]
    have hc : pass1RowF rows st k c = pass1Row st k (toRRow c) := by
      unfold pass1RowF; rw [h c (by simp)]; rfl
    rw [hc]
    cases pass1Row st k (toRRow c) with
    | error e => rfl
    | ok st1 => exact ih (k + 1) st1 (fun c' hc' => h c' (by simp [hc']))

/-- without merged rows the fused reading of a sheet is its reference reading -/
theorem pass1F_unmerged (rows : List CRow) (h : ∀ c ∈ rows, (c.merged && isNamedAct c) = false) :
    pass1F rows = pass1 (rows.map toRRow) := by
  unfold pass1F pass1
  have := fold_pass1F_unmerged rows rows 0 {} h
  simp only [bind, Except.bind] at this ⊢
  rw [show (fun st (x : CRow × Nat) => match x with | (c, k) => pass1RowF rows st k c) =
      (fun st (p : CRow × Nat) => pass1RowF rows st p.2 p.1) from rfl,
    show (fun st (x : RRow × Nat) => match x with | (r, k) => pass1Row st k r) =
      (fun st (p : RRow × Nat) => pass1Row st p.2 p.1) from rfl, this]

/-- … and the clause that ties the two readings holds by itself -/
theorem chainsOk_unmerged (rows : List CRow) (h : ∀ c ∈ rows, (c.merged && isNamedAct c) = false)
    (out : List OutEdge) (hp : pass1 (rows.map toRRow) = .ok out) : chainsOk rows out out = true := by
  unfold chainsOk
  simp only [Bool.and_eq_true, List.all_eq_true, List.mem_range]
  refine ⟨fun e he => ?_, fun R hR => ?_⟩
  · have := pass1_targets _ _ hp e he
    unfold tgtOwns
    cases ht : e.tgt with
    | exit => rfl
    | row t =>
      rw [ht] at this
      obtain ⟨rr, hrr, hrk⟩ := this
      simp only [List.getElem?_map] at hrr
      cases hct : rows[t]? with
      | none => rw [hct] at hrr; cases hrr
      | some ct =>
        rw [hct] at hrr
        simp only [Option.map_some, Option.some.injEq] at hrr
        have hm := h ct (List.mem_of_getElem? hct)
        rw [← hrr] at hrk
        have hk : (kindOf ct.row.type).isNode = true := hrk
        simp only [hct, ownsNode, hm, hk, Bool.not_false, Bool.and_self]
  · obtain ⟨cR, hcR⟩ : ∃ cR, rows[R]? = some cR := ⟨rows[R], by simp [hR]⟩
    rw [hcR]
    simp only
    have hch : membersOf rows R = [R] := by
      unfold membersOf
      rw [hcR]
      simp only
      split
      · congr 1
        rw [List.filter_eq_nil_iff]
        intro i _
        unfold mergedNamed
        cases hci : rows[i]? with
        | none => simp
        | some ci => simp [h ci (List.mem_of_getElem? hci)]
      · rfl
    rw [hch]
    simp only [List.tail_cons, List.zip_nil_right, List.all_nil, Bool.true_and, List.getLastD_cons,
      List.getLastD_nil, map_resrc_self, decide_true, Bool.or_true]

end Rpft.CoreSheet
