/-
The refinement theorem on the fragment: the compiled flow and the reference flow of a sheet of the
fragment have the same index-resolved abstraction (category names not observed).
-/
import Rpft.Lemmas.CoreSwitch
import Rpft.Lemmas.CoreFixAbs
set_option linter.unusedSimpArgs false
set_option linter.unusedVariables false
namespace Rpft.CoreSheet
open Rpft Rpft.Compile Rpft.RefFlow Rpft.Flow

theorem noIdsL_fragment : ∀ (rows : List CRow), (∀ c ∈ rows, rowOk c = true) →
    noIdsL (rows.map toEvent) = true := by
  intro rows
  induction rows with
  | nil => intro _; rfl
  | cons c l ih =>
    intro h
    have hu : c.row.nodeUuid = [] := by
      have := h c (by simp)
      simp only [rowOk, Bool.or_eq_true] at this
      rcases this with (h1 | h1) | h1
      · exact (rowFacts c h1).nouid
      · simp only [exitRow, Bool.and_eq_true, List.isEmpty_iff] at h1; exact h1.2
      · simp only [gotoRow, Bool.and_eq_true, List.isEmpty_iff] at h1; exact h1.2
    simp only [List.map_cons, noIdsL, toEvent, Event.noIds, Bool.and_eq_true]
    exact ⟨by rw [hu]; rfl, ih (fun c' hc' => h c' (by simp [hc']))⟩

theorem pass1_state {rows : List RRow} {out : List OutEdge} (h : pass1 rows = .ok out) :
    ∃ st : P1, (rows.zipIdx 0).foldlM (fun st (p : RRow × Nat) => pass1Row st p.2 p.1) {} = .ok st ∧
      out = st.out.reverse := by
  unfold pass1 at h
  simp only [bind, Except.bind, pure, Except.pure] at h
  split at h
  · cases h
  · rename_i st hst
    simp only [Except.ok.injEq] at h
    exact ⟨st, by simpa using hst, h.symm⟩

theorem good_of_fragment (rows : List CRow) (outE : List OutEdge) (hf : inFragment rows = true)
    (hp : pass1 (rows.map toRRow) = .ok outE) : (∀ c ∈ rows, rowOk c = true) ∧ Good rows outE := by
  simp only [inFragment, Bool.and_eq_true, List.all_eq_true, hp] at hf
  obtain ⟨h1, h2, h3⟩ := hf
  refine ⟨h1, ⟨h2, ?_⟩⟩
  intro j c hc
  have hj : j < rows.length := (List.getElem?_eq_some_iff.mp hc).1
  simp only [distinctTests, List.all_eq_true, List.mem_range] at h3
  have := h3 j hj
  rw [hc] at this
  intro hk
  have hmem : c.row.type ∈ switchTypes := by
    rcases switch_type_of_kind hk with h | h | h <;> rw [h] <;> decide
  simp only [Bool.or_eq_true, Bool.not_eq_true', decide_eq_true_eq] at this
  rcases this with h | h
  · rw [← List.contains_iff_mem, h] at hmem; cases hmem
  · exact h

theorem forall2_map_eq {α β γ} {R : α → β → Prop} {f : α → γ} {g : β → γ} {l1 : List α} {l2 : List β}
    (h : List.Forall₂ R l1 l2) (hfg : ∀ a b, R a b → f a = g b) : l1.map f = l2.map g := by
  induction h with
  | nil => rfl
  | cons hab _ ih => simp [hfg _ _ hab, ih]

theorem lastTgt_eq (es : List OutEdge) (p : OutEdge → Bool) :
    lastTgt es p = (((es.filter p).getLast?).map (·.tgt)).bind tgtDest := by
  unfold lastTgt
  cases (es.filter p).getLast? <;> rfl

theorem type_of_wait {t : Str} (h : kindOf t = .wait) : t = "wait_for_response".toList := by
  rcases switch_type_of_kind (.inl h) with h1 | h1 | h1
  · exact h1
  · rw [h1, kindOf_value] at h; cases h
  · rw [h1, kindOf_group] at h; cases h

theorem type_not_wait {t : Str} (h : kindOf t = .splitValue ∨ kindOf t = .splitGroup) :
    t ≠ "wait_for_response".toList := by
  intro e; rw [e, kindOf_wait] at h; rcases h with h | h <;> cases h

theorem forall2_map_eq_mem {α β γ} {R : α → β → Prop} {f : α → γ} {g : β → γ} {l1 : List α} {l2 : List β}
    (h : List.Forall₂ R l1 l2) (hfg : ∀ a b, b ∈ l2 → R a b → f a = g b) : l1.map f = l2.map g := by
  induction h with
  | nil => rfl
  | cons hab _ ih =>
    simp only [List.map_cons]
    rw [hfg _ _ (by simp) hab, ih (fun a b hb => hfg a b (by simp [hb]))]

/-- one node: the reference node of row `j` and the compiled node have the same abstraction, given
that destinations resolve alike (`dm`) -/
theorem node_abs_eq (rnf : Bool) (F r : Flow) (M : Maps) (ns : Array NodeM) (j : Nat) (n : NodeM) (c : CRow)
    (es : List OutEdge) (hsim : NodeSim M ns n c es) (hfc : nodeRowOk c = true)
    (rows : List CRow) (hcj : rows[j]? = some c) (hok : ∀ e ∈ es, edgeOk rows e = true ∧ e.src = j)
    (hfn0 : n.fids.Nodup)
    (dm : ∀ (d : Dest) (t : Option Target), (∀ k, t = some (Target.row k) → ∃ e ∈ es, e.tgt = Target.row k) →
      DestIs M ns d t → destIdx F (renderDest d) = destIdx r (t.bind tgtDest)) :
    absNode ⟨false, rnf⟩ r (mkNode j (toRRow c) es) = absNode ⟨false, rnf⟩ F (renderNode n) := by
  have hlast : ∀ (l : List OutEdge), (∀ e ∈ l, e ∈ es) → ∀ k, (l.getLast?).map (·.tgt) = some (Target.row k) →
      ∃ e ∈ es, e.tgt = Target.row k := by
    intro l hl k hk
    cases hg : l.getLast? with
    | none => rw [hg] at hk; cases hk
    | some e =>
      rw [hg] at hk
      simp only [Option.map_some, Option.some.injEq] at hk
      exact ⟨e, hl e (List.mem_of_getLast? hg), hk⟩
  have hfil : ∀ (p : OutEdge → Bool) (l : List OutEdge), (∀ e ∈ l, e ∈ es) → ∀ e ∈ l.filter p, e ∈ es :=
    fun p l hl e he => hl e (List.mem_filter.mp he).1
  have hall : ∀ e ∈ es, e ∈ es := fun e he => he
  cases hsim with
  | plain hk hp =>
    -- an action row: all its out-edges are unconditional
    have hbl : ∀ e ∈ es, e.cond.blank = true := by
      intro e he
      obtain ⟨this, hsrc⟩ := hok e he
      simp only [edgeOk, hsrc, hcj, Option.map_some, hk] at this
      exact this
    have hact : (toRRow c).act = c.row.action := by
      simp only [nodeRowOk, Bool.or_eq_true] at hfc
      rcases hfc with ((h1 | h1) | h1) | h1
      · simp only [plainActionRow, Bool.and_eq_true, decide_eq_true_eq] at h1
        exact h1.2.symm
      · simp only [switchRow, Bool.and_eq_true] at h1
        have := switch_type h1.1.1.1
        rcases kindOf_switch this with h2 | h2 | h2 <;> rw [hk] at h2 <;> cases h2
      · simp only [fixedRow, Bool.and_eq_true] at h1
        have := fixed_type h1.1.1.1
        rcases kindOf_fixed this with h2 | h2 | h2 <;> rw [hk] at h2 <;> cases h2
      · simp only [randomRow, Bool.and_eq_true, decide_eq_true_eq] at h1
        have h2 := kindOf_random; rw [← h1.1.1.1, hk] at h2; cases h2
    rw [mkNode_plain j (toRRow c) (es) hk hbl, absNode_plain_ref,
      absNode_plain_cmp _ _ n c.row.action hp.router hp.acts, hact]
    congr 2
    rw [dm _ _ (hlast es hall) hp.dest]
    cases (es).getLast? <;> rfl
  | sw rr hk hp =>
    have hact : (toRRow c).act = none := by
      simp only [nodeRowOk, Bool.or_eq_true] at hfc
      rcases hfc with ((h1 | h1) | h1) | h1
      · simp only [plainActionRow, Bool.and_eq_true, Bool.not_eq_true'] at h1
        have := kindOf_action h1.1.1.1
        rcases hk with h2 | h2 | h2 <;> rw [this] at h2 <;> cases h2
      · simp only [switchRow, Bool.and_eq_true, Option.isNone_iff_eq_none] at h1
        exact h1.2
      · simp only [fixedRow, Bool.and_eq_true] at h1
        have := fixed_type h1.1.1.1
        rcases kindOf_fixed this with h3 | h3 | h3 <;> rcases hk with h2 | h2 | h2 <;> rw [h3] at h2 <;> cases h2
      · simp only [randomRow, Bool.and_eq_true, Option.isNone_iff_eq_none] at h1
        exact h1.2
    -- identifiers of the compiled router are pairwise different
    have hfn := hfn0
    have hrids : rr.ids.Nodup := by
      unfold NodeM.fids NodeM.innerIds NodeM.tailIds at hfn
      rw [hp.router] at hfn
      exact (List.nodup_append.mp (List.nodup_append.mp hfn).2.1).2.1
    have hex : (rr.allCats.map (·.exitUid)).Nodup := by
      unfold SwitchR.ids at hrids; exact (List.nodup_append.mp hrids).1
    have hcu : (rr.allCats.map (·.uid)).Nodup := by
      unfold SwitchR.ids at hrids
      exact (List.nodup_append.mp (List.nodup_append.mp hrids).2.1).1
    rw [mkNode_switch j (toRRow c) (es) hk hact, absNode_mkSwitch,
      absNode_sw rnf _ n rr hp.router hp.acts hcu hex hp.casecat hp.nrSome]
    -- compare field by field
    have htests : (rr.cases.map renderCase).map (fun k => (k.type, testArgs k)) =
        (refTests (toRRow c).kind (es)).map (fun t =>
          (t.1, if t.1 = "has_group".toList then t.2.1.drop 1 else t.2.1)) := by
      have e1 : (rr.cases.map renderCase).map (fun k => (k.type, testArgs k)) =
          (rr.cases.map (fun k => (k.type, k.args.map (·.getD [])))).map
            (fun (p : Str × List Str) => (p.1, if p.1 = "has_group".toList then p.2.drop 1 else p.2)) := by
        rw [List.map_map, List.map_map]
        exact List.map_congr_left (fun k _ => rfl)
      rw [e1, hp.cases, List.map_map]
      unfold refTests
      rw [List.map_map]
      exact List.map_congr_left (fun e _ => rfl)
    have hwait : (renderWait rr).map (fun o => o.map (·.1)) =
        (refWait (toRRow c) (es)).map (fun o => o.map (·.1)) := by
      unfold refWait renderWait
      rcases hk with h1 | h1
      · -- a wait row
        have ht := type_of_wait h1
        have hw : rr.wait = some (timeoutOf c.row) := by rw [hp.wait]; unfold waitOf; rw [if_pos ht]
        have hk' : (toRRow c).kind = .wait := h1
        have hto : (toRRow c).timeout = timeoutOf c.row := rfl
        rw [if_pos hk', hto, hw]
        cases hto2 : timeoutOf c.row with
        | zero => simp
        | succ m =>
          have : rr.noResp.isSome = true := hp.nrSome.mpr ⟨m, by rw [hw, hto2]⟩
          cases hnn : rr.noResp with
          | none => rw [hnn] at this; cases this
          | some nr => simp
      · have ht := type_not_wait h1
        have hw : rr.wait = none := by rw [hp.wait]; unfold waitOf; rw [if_neg ht]
        have hk' : ¬ ((toRRow c).kind = .wait) := by
          show ¬ (kindOf c.row.type = .wait)
          rcases h1 with h1 | h1 <;> rw [h1] <;> decide
        rw [if_neg hk', hw]
        rfl
    have hdests : rr.allCats.map (fun cat => destIdx F (renderDest cat.dest)) =
        ((refTests (toRRow c).kind (es)).map (fun t => destIdx r t.2.2)) ++
          [destIdx r (lastTgt ((es).filter (·.cond.blank)) (fun _ => true))] ++
          (match refWait (toRRow c) (es) with
           | some (some (_, td)) => [destIdx r td]
           | _ => []) := by
      simp only [SwitchR.allCats, List.map_append, List.map_cons, List.map_nil]
      congr 1
      · congr 1
        · -- the categories of the tests
          unfold refTests
          rw [List.map_map]
          refine forall2_map_eq_mem hp.catd ?_
          intro cat e he hd
          refine dm _ _ ?_ hd
          intro k hk
          simp only [Option.some.injEq] at hk
          have : e ∈ es := by unfold testsOf at he; exact hfil _ _ (hfil _ _ hall) e he
          exact ⟨e, this, hk⟩
        · -- the default category
          rw [dm _ _ (hlast _ (hfil _ _ hall)) hp.dflt, lastTgt_eq, List.filter_true]
      · -- the timeout category
        unfold refWait
        rcases hk with h1 | h1
        · have ht := type_of_wait h1
          have hw : rr.wait = some (timeoutOf c.row) := by rw [hp.wait]; unfold waitOf; rw [if_pos ht]
          have hk' : (toRRow c).kind = .wait := h1
          have hto : (toRRow c).timeout = timeoutOf c.row := rfl
          rw [if_pos hk', hto]
          cases hto2 : timeoutOf c.row with
          | zero =>
            have : rr.noResp = none := by
              cases hnn : rr.noResp with
              | none => rfl
              | some nr =>
                obtain ⟨m, hm⟩ := hp.nrSome.mp (by simp [hnn])
                rw [hw, hto2] at hm; cases hm
            simp [this]
          | succ m =>
            have : rr.noResp.isSome = true := hp.nrSome.mpr ⟨m, by rw [hw, hto2]⟩
            cases hnn : rr.noResp with
            | none => rw [hnn] at this; cases this
            | some nr =>
              simp only [Option.toList, List.map_cons, List.map_nil, Nat.succ_ne_zero, if_false]
              rw [dm _ _ (hlast _ (hfil _ _ (hfil _ _ hall))) (hp.nr nr hnn), lastTgt_eq]
        · have ht := type_not_wait h1
          have hw : rr.wait = none := by rw [hp.wait]; unfold waitOf; rw [if_neg ht]
          have hk' : ¬ ((toRRow c).kind = .wait) := by
            show ¬ (kindOf c.row.type = .wait)
            rcases h1 with h1 | h1 <;> rw [h1] <;> decide
          rw [if_neg hk']
          have : rr.noResp = none := by
            cases hnn : rr.noResp with
            | none => rfl
            | some nr =>
              obtain ⟨m, hm⟩ := hp.nrSome.mp (by simp [hnn])
              rw [hw] at hm; cases hm
          simp [this]
    have hop : rr.operand = (toRRow c).operand := hp.operand
    have hrn' : rr.resultName = some (toRRow c).saveName := hp.rname
    rw [htests, hwait, hdests, hop, hrn']
    rfl
  | fix rr sc hk hp =>
    have hact : (toRRow c).act = some (c.row.ownAction.getD []) := by
      simp only [nodeRowOk, Bool.or_eq_true] at hfc
      rcases hfc with ((h1 | h1) | h1) | h1
      · simp only [plainActionRow, Bool.and_eq_true, Bool.not_eq_true'] at h1
        have := kindOf_action h1.1.1.1
        rcases hk with h2 | h2 | h2 <;> rw [this] at h2 <;> cases h2
      · simp only [switchRow, Bool.and_eq_true] at h1
        have := switch_type h1.1.1.1
        rcases kindOf_switch this with h3 | h3 | h3 <;> rcases hk with h2 | h2 | h2 <;> rw [h3] at h2 <;> cases h2
      · simp only [fixedRow, Bool.and_eq_true, decide_eq_true_eq] at h1
        exact h1.2
      · simp only [randomRow, Bool.and_eq_true, decide_eq_true_eq] at h1
        have h3 := kindOf_random; rw [← h1.1.1.1] at h3
        rcases hk with h2 | h2 | h2 <;> rw [h3] at h2 <;> cases h2
    have hk' : isFixedKind (toRRow c).kind := hk
    rw [absNode_fix_ref rnf r j (toRRow c) es hk', absNode_fix_cmp rnf F M ns n c es rr sc hk hp hfn0, hact]
    rw [dm _ _ (hlast _ (hfil _ _ hall)) hp.succ, dm _ _ (hlast _ (hfil _ _ hall)) hp.dflt, lastTgt_eq, lastTgt_eq]
    rfl
  | rnd rr hk hp =>
    have hact : (toRRow c).act = none := by
      simp only [nodeRowOk, Bool.or_eq_true] at hfc
      rcases hfc with ((h1 | h1) | h1) | h1
      · simp only [plainActionRow, Bool.and_eq_true, Bool.not_eq_true'] at h1
        have := kindOf_action h1.1.1.1
        rw [this] at hk; cases hk
      · simp only [switchRow, Bool.and_eq_true, Option.isNone_iff_eq_none] at h1
        exact h1.2
      · simp only [fixedRow, Bool.and_eq_true] at h1
        have := fixed_type h1.1.1.1
        rcases kindOf_fixed this with h3 | h3 | h3 <;> rw [h3] at hk <;> cases hk
      · simp only [randomRow, Bool.and_eq_true, Option.isNone_iff_eq_none] at h1
        exact h1.2
    have hk' : (toRRow c).kind = .splitRandom := hk
    rw [absNode_rnd_ref rnf r j (toRRow c) es hk' hact, absNode_rnd_cmp rnf F n rr c.row.saveName hp.router hp.acts hp.rname hfn0]
    congr 1
    refine (forall2_map_eq_mem hp.rel ?_).symm
    intro cat b hb hd
    refine dm _ _ ?_ hd.1
    intro k hk2
    simp only [Option.some.injEq] at hk2
    obtain ⟨e, he, het⟩ := buckets_tgt es b hb
    exact ⟨e, he, by rw [het]; exact hk2⟩

theorem zipIdx_filterMap {α β} (F : α → Nat → Option β) : ∀ (l : List α) (k : Nat),
    (l.zipIdx k).filterMap (fun p => F p.1 p.2) =
      (List.range' k l.length).filterMap (fun j => (l[j - k]?).bind (fun x => F x j)) := by
  intro l
  induction l with
  | nil => intro k; simp
  | cons a l ih =>
    intro k
    simp only [List.zipIdx_cons, List.filterMap_cons, List.length_cons, List.range'_succ, Nat.sub_self,
      List.getElem?_cons_zero, Option.bind_some]
    rw [ih (k + 1)]
    have : (List.range' (k + 1) l.length).filterMap (fun j => ((a :: l)[j - k]?).bind (fun x => F x j)) =
        (List.range' (k + 1) l.length).filterMap (fun j => (l[j - (k + 1)]?).bind (fun x => F x j)) := by
      apply List.filterMap_congr
      intro j hj
      have hjk : k + 1 ≤ j := (List.mem_range'_1.mp hj).1
      have : j - k = (j - (k + 1)) + 1 := by omega
      rw [this, List.getElem?_cons_succ]
    rw [this]

theorem filterMap_length_congr {α β γ} (L : List α) (f : α → Option β) (g : α → Option γ)
    (h : ∀ x ∈ L, (f x).isSome = (g x).isSome) : (L.filterMap f).length = (L.filterMap g).length := by
  induction L with
  | nil => rfl
  | cons x L ih =>
    have hx := h x (by simp)
    have ih' := ih (fun y hy => h y (by simp [hy]))
    simp only [List.filterMap_cons]
    cases hf : f x <;> cases hg : g x <;> simp [hf, hg] at hx ⊢ <;> exact ih'

/-- **the compiled flow and the reference flow of a sheet of the fragment have the same
index-resolved abstraction** -/
theorem fragment_abs (rnf : Bool) (testTypes : List Str) (rows : List CRow) (out : Out) (r : Flow)
    (hf : inFragment rows = true)
    (hc : compile RefFlow.noArgsTests testTypes (rows.map toEvent) = .ok out)
    (hr : refFlow (rows.map toRRow) = .ok r) :
    absFlow ⟨false, rnf⟩ r = absFlow ⟨false, rnf⟩ (renderOut out) := by
  obtain ⟨s, hrun, hl, ho⟩ := compile_ok hc
  obtain ⟨outE, hp1, hrn⟩ := refFlow_nodes _ _ hr
  obtain ⟨hfr, hgood⟩ := good_of_fragment rows outE hf hp1
  obtain ⟨st, hfold, hoe⟩ := pass1_state hp1
  obtain ⟨M, hrel⟩ := wp_of_run (rows_sim rows outE hgood rows 0 (fun i c hi => by simpa using hi) hfr
    ⟨fun _ => 0, fun _ => none⟩ _ {} st (rel_init rows _ (fun _ => rfl) _ testTypes rfl) hfold (by rw [hoe])) hrun
  simp only [Nat.zero_add] at hrel
  -- the compiled nodes, per row
  have hon : out.nodes = (List.range rows.length).filterMap
      (fun j => (nodeIdx rows M j).bind (fun i => s.nodes[i]?)) := by rw [ho]; exact out_nodes_rel hrel
  -- their identifiers are pairwise different
  have hids := noIdsL_fragment rows hfr
  have a := final_ainv ⟨True, True⟩ ⟨fun _ => okIdsL_of_noIdsL _ hids, fun _ => hids⟩ hrun
  have hI := a.ids trivial
  have hU : ((renderOut out).nodes.map (·.uuid)).Nodup := by
    have := uids_nodup_of_invented hI (a.inv trivial) _ (emit_nodup (final_binv hrun) hl)
    rw [← ho] at this
    simpa [renderOut, List.map_map, Function.comp_def, renderNode] using this
  have hRU : (r.nodes.map (·.uuid)).Nodup := (refFlow_closed _ _ hr).1
  -- the reference nodes, per row
  have hrn2 : r.nodes = (List.range rows.length).filterMap (fun j => (rows[j]?).bind (fun c =>
      if isNodeRow c then some (mkNode j (toRRow c) (outE.filter (·.src = j))) else none)) := by
    rw [hrn]
    unfold refNodes
    have := zipIdx_filterMap (fun (rr : RRow) (k : Nat) =>
      if rr.kind.isNode then some (mkNode k rr (outE.filter (·.src = k))) else none) (rows.map toRRow) 0
    simp only [List.length_map, Nat.sub_zero] at this
    rw [← List.range_eq_range'] at this
    rw [this]
    apply List.filterMap_congr
    intro j _
    simp only [List.getElem?_map]
    cases rows[j]? <;> rfl
  -- the two per-row functions
  obtain ⟨fR, hfR⟩ : ∃ fR : Nat → Option Node, fR = fun j => (rows[j]?).bind (fun c =>
      if isNodeRow c then some (mkNode j (toRRow c) (outE.filter (·.src = j))) else none) := ⟨_, rfl⟩
  obtain ⟨fC, hfC⟩ : ∃ fC : Nat → Option Node, fC = fun j =>
      ((nodeIdx rows M j).bind (fun i => s.nodes[i]?)).map renderNode := ⟨_, rfl⟩
  have hFn : (renderOut out).nodes = (List.range rows.length).filterMap fC := by
    rw [hfC]; simp only [renderOut, hon, List.map_filterMap]
  rw [← hfR] at hrn2
  -- what each function gives on a node row
  have hnodeC : ∀ j c, rows[j]? = some c → isNodeRow c = true →
      ∃ n, s.nodes[M.nOf j]? = some n ∧ fC j = some (renderNode n) ∧ NodeSim M s.nodes n c (outOf st j) := by
    intro j c hcj hn
    have hj : j < rows.length := (List.getElem?_eq_some_iff.mp hcj).1
    obtain ⟨n, hn', hsim⟩ := hrel.node j c ⟨.inl hj, hcj, hn⟩
    exact ⟨n, hn', by rw [hfC]; simp [nodeIdx, hcj, hn, hn'], hsim⟩
  have hsome : ∀ j ∈ List.range rows.length, (fR j).isSome = (fC j).isSome := by
    intro j hj
    obtain ⟨c, hcj⟩ : ∃ c, rows[j]? = some c := ⟨rows[j]'(List.mem_range.mp hj), by simp [List.mem_range.mp hj]⟩
    by_cases hn : isNodeRow c = true
    · obtain ⟨n, _, hfc, _⟩ := hnodeC j c hcj hn
      rw [hfc, hfR]; simp [hcj, hn]
    · have hn' : isNodeRow c = false := by simpa using hn
      rw [hfR, hfC]; simp [hcj, hn', nodeIdx]
  -- a destination of the compiled flow and the target it stands for resolve to the same index
  have htgts := pass1_targets _ _ hp1
  have dest_match : ∀ (d : Dest) (t : Option Target),
      (∀ k, t = some (Target.row k) → ∃ e ∈ outE, e.tgt = Target.row k) → DestIs M s.nodes d t →
      destIdx (renderOut out) (renderDest d) = destIdx r (t.bind tgtDest) := by
    intro d t hv hd
    cases t with
    | none => simp only [DestIs] at hd; simp [hd, renderDest, destIdx]
    | some t =>
      cases t with
      | exit =>
        simp only [DestIs] at hd
        rcases hd with hd | hd <;> simp [hd, renderDest, destIdx, tgtDest]
      | row t =>
        obtain ⟨m, hm, hdm⟩ := hd
        obtain ⟨e, he, het⟩ := hv t rfl
        have hnode := htgts e he
        rw [het] at hnode
        obtain ⟨rr, hrr, hrk⟩ := hnode
        simp only [List.getElem?_map] at hrr
        cases hct : rows[t]? with
        | none => rw [hct] at hrr; cases hrr
        | some ct =>
          rw [hct] at hrr
          simp only [Option.map_some, Option.some.injEq] at hrr
          have hnt : isNodeRow ct = true := by rw [← hrr] at hrk; exact hrk
          have htl : t < rows.length := (List.getElem?_eq_some_iff.mp hct).1
          obtain ⟨n, hn', hfc, _⟩ := hnodeC t ct hct hnt
          rw [hm] at hn'; injection hn' with hn'; subst hn'
          have hrt : (List.range rows.length)[t]? = some t := by simp [htl]
          have hposC := filterMap_pos fC (List.range rows.length) t t (renderNode m) hrt hfc
          have hfr' : fR t = some (mkNode t (toRRow ct) (outE.filter (·.src = t))) := by
            rw [hfR]; simp [hct, hnt]
          have hposR := filterMap_pos fR (List.range rows.length) t t _ hrt hfr'
          have hleq : (((List.range rows.length).take t).filterMap fR).length =
              (((List.range rows.length).take t).filterMap fC).length :=
            filterMap_length_congr _ _ _ (fun x hx => hsome x (List.mem_of_mem_take hx))
          rw [← hFn] at hposC
          rw [← hrn2] at hposR
          have hF := findNode_unique _ _ m.uid (renderNode m) hposC rfl hU
          have hR := findNode_unique r _ (nodeId t) _ hposR (mkNode_uuid _ _ _) hRU
          simp only [hdm, renderDest, destIdx, tgtDest, Option.map_some, Option.bind_some, hF, hR, hleq]
  -- node by node
  generalize renderOut out = F at dest_match hU hFn ⊢
  unfold absFlow
  rw [hrn2, hFn]
  apply filterMap_map_congr
  intro j hj
  obtain ⟨c, hcj⟩ : ∃ c, rows[j]? = some c := ⟨rows[j]'(List.mem_range.mp hj), by simp [List.mem_range.mp hj]⟩
  by_cases hn : isNodeRow c = true
  · obtain ⟨n, hn', hfc, hsim⟩ := hnodeC j c hcj hn
    have hfr' : fR j = some (mkNode j (toRRow c) (outE.filter (·.src = j))) := by rw [hfR]; simp [hcj, hn]
    rw [hfc, hfr']
    simp only [Option.map_some]
    congr 1
    have hes : outE.filter (·.src = j) = outOf st j := by rw [hoe]; rfl
    rw [hes]
    have hsub : ∀ e ∈ outOf st j, e ∈ outE ∧ e.src = j := by
      intro e he
      have := List.mem_filter.mp he
      exact ⟨by rw [hoe]; exact this.1, by simpa using this.2⟩
    have hnok : nodeRowOk c = true := by
      have := hfr c (List.mem_of_getElem? hcj)
      simp only [rowOk, Bool.or_eq_true] at this
      rcases this with (h1 | h1) | h1
      · exact h1
      · exfalso
        simp only [exitRow, Bool.and_eq_true, Bool.or_eq_true, decide_eq_true_eq] at h1
        unfold isNodeRow at hn
        rcases h1.1 with h2 | h2 <;> rw [h2] at hn
        · rw [kindOf_hard] at hn; cases hn
        · rw [kindOf_loose] at hn; cases hn
      · exfalso
        simp only [gotoRow, Bool.and_eq_true, decide_eq_true_eq] at h1
        unfold isNodeRow at hn
        rw [h1.1, kindOf_goto] at hn; cases hn
    refine node_abs_eq rnf F r M s.nodes j n c (outOf st j) hsim hnok rows hcj ?_ (hI.nodup _ n hn') ?_
    · intro e he
      obtain ⟨hm, hsrc⟩ := hsub e he
      exact ⟨hgood.ok e hm, hsrc⟩
    · intro d t hv hd
      exact dest_match d t (fun k hk => by
        obtain ⟨e, he, het⟩ := hv k hk
        exact ⟨e, (hsub e he).1, het⟩) hd
  · have hn' : isNodeRow c = false := by simpa using hn
    rw [hfR, hfC]; simp [hcj, hn', nodeIdx]

end Rpft.CoreSheet
