/-
C09, whole rows: a flow row written with the short headers (`from`, `condition`, …,
`message_text`) and `*` columns parses exactly like the fully indexed row
(`edges.1.from_`, `edges.2.condition.value`, …, `mainarg_…`) obtained by renaming the headers
and splitting every `*` cell into one column per element.
-/
import Rpft.Lemmas.RowGenFlow
set_option linter.unusedSimpArgs false
set_option linter.unusedVariables false
namespace Rpft.Row
open Rpft

/-! ### rows that differ entry by entry in an irrelevant way -/

/-- two entries that act alike on every output tree -/
def EntryEq (top : Ty) (e e' : Str × ColVal) : Prop :=
  ∀ out, parseEntry top out e = parseEntry top out e'

theorem foldE_entryEq (top : Ty) (f : Str × ColVal → Str × ColVal) :
    ∀ (es : List (Str × ColVal)), (∀ e ∈ es, EntryEq top e (f e)) →
      ∀ out, foldE (parseEntry top) out es = foldE (parseEntry top) out (es.map f)
  | [], _, _ => rfl
  | e :: es, h, out => by
    simp only [List.map_cons, foldE]
    rw [← h e (by simp) out]
    cases parseEntry top out e with
    | error er => rfl
    | ok out' => exact foldE_entryEq top f es (fun x hx => h x (List.mem_cons_of_mem _ hx)) out'

/-- the text of the cell that stands for an entry -/
def cellText : ColVal → Str
  | .inl s => s
  | .inr (.atom x) => x
  | .inr (.list _) => []

/-- the fully indexed row: one column per entry -/
def indexedRow (cols : List (Str × ColVal)) : List (Str × Str) :=
  (expandAll cols).map fun e => (e.1, cellText e.2)

theorem parseRow_eq_indexed (sch : Schema) (d d1 : List (Str × Str)) (cols : List (Str × ColVal))
    (h1 : rekey sch d = .ok d1) (h2 : preParse d1 = .ok cols)
    (hfix : rekey sch (indexedRow cols) = .ok (indexedRow cols))
    (hnostar : ∀ kv ∈ indexedRow cols, hasStar kv.1 = false)
    (heq : ∀ e ∈ expandAll cols, EntryEq sch.top e (e.1, Sum.inl (cellText e.2))) :
    parseRow sch d = parseRow sch (indexedRow cols) := by
  have hl : rowEntries sch d = .ok (expandAll cols) := by
    unfold rowEntries; rw [h1]; simp only; rw [h2]
  have hr := rowEntries_of_rekey sch _ _ hfix hnostar
  unfold parseRow
  rw [hl, hr]
  simp only [buildTree]
  have : (indexedRow cols).map (fun kv => (kv.1, (Sum.inl kv.2 : ColVal))) =
      (expandAll cols).map (fun e => (e.1, Sum.inl (cellText e.2))) := by
    simp [indexedRow, List.map_map, Function.comp]
  rw [this, ← foldE_entryEq sch.top _ (expandAll cols) heq]

/-! ### what `rekey` and `preParse` deliver -/

theorem mem_aset {α : Type} (k : Str) (v : α) : ∀ (l : List (Str × α)) (x : Str × α),
    x ∈ aset k v l → x ∈ l ∨ x = (k, v)
  | [], x, h => by simp [aset] at h; exact Or.inr h
  | (k', v') :: l, x, h => by
    simp only [aset] at h
    split at h
    · simp only [List.mem_cons] at h
      rcases h with h | h
      · exact Or.inr h
      · exact Or.inl (List.mem_cons_of_mem _ h)
    · simp only [List.mem_cons] at h
      rcases h with h | h
      · exact Or.inl (by simp [h])
      · rcases mem_aset k v l x h with h | h
        · exact Or.inl (List.mem_cons_of_mem _ h)
        · exact Or.inr h

theorem rekey_keys (sch : Schema) (ctx : List (Str × Str)) :
    ∀ (data acc d1 : List (Str × Str)), foldE (rekeyStep sch ctx) acc data = .ok d1 →
      ∀ kv ∈ d1, kv ∈ acc ∨ ∃ k0, ctxRemap sch ctx k0 = .ok kv.1
  | [], acc, d1, h, kv, hkv => by
    simp only [foldE] at h; cases h; exact Or.inl hkv
  | x :: rest, acc, d1, h, kv, hkv => by
    simp only [foldE, rekeyStep] at h
    cases hc : ctxRemap sch ctx x.1 with
    | error e => simp [hc] at h
    | ok k =>
      simp only [hc] at h
      rcases rekey_keys sch ctx rest _ d1 h kv hkv with h' | h'
      · rcases mem_aset k x.2 acc kv h' with h'' | h''
        · exact Or.inl h''
        · exact Or.inr ⟨x.1, by rw [h'']; exact hc⟩
      · exact Or.inr h'

theorem mapE_cons_ok {α β : Type} (f : α → Except Err β) (a : α) (as : List α) (r : List β)
    (h : mapE f (a :: as) = .ok r) : ∃ b bs, f a = .ok b ∧ mapE f as = .ok bs ∧ r = b :: bs := by
  simp only [mapE] at h
  cases hf : f a with
  | error e => simp [hf] at h
  | ok b =>
    simp only [hf] at h
    cases hm : mapE f as with
    | error e => simp [hm] at h
    | ok bs =>
      simp only [hm] at h
      cases h
      exact ⟨b, bs, rfl, rfl, rfl⟩

theorem preParse_spec : ∀ (d1 : List (Str × Str)) (cols : List (Str × ColVal)),
    preParse d1 = .ok cols → ∀ c ∈ cols,
      (∃ s, c.2 = Sum.inl s ∧ hasStar c.1 = false ∧ (c.1, s) ∈ d1) ∨
      (∃ pv, c.2 = Sum.inr pv ∧ hasStar c.1 = true)
  | [], cols, h, c, hc => by
    simp [preParse, mapE] at h; subst h; simp at hc
  | kv :: rest, cols, h, c, hc => by
    unfold preParse at h
    obtain ⟨b, bs, hb, hbs, rfl⟩ := mapE_cons_ok _ _ _ _ h
    have ih := preParse_spec rest bs hbs
    rcases List.mem_cons.mp hc with rfl | hc
    · cases hs : hasStar kv.1 with
      | true =>
        simp only [hs, if_true] at hb
        cases hp : cellParse kv.2 with
        | error e => simp [hp] at hb
        | ok pv =>
          simp only [hp] at hb
          cases hb
          exact Or.inr ⟨pv, rfl, hs⟩
      | false =>
        simp only [hs, Bool.false_eq_true, if_false] at hb
        cases hb
        exact Or.inl ⟨kv.2, rfl, hs, by simp⟩
    · rcases ih c hc with ⟨s, a, b', m⟩ | h'
      · exact Or.inl ⟨s, a, b', List.mem_cons_of_mem _ m⟩
      · exact Or.inr h'

theorem enumFrom1_mem {α : Type} : ∀ (xs : List α) (i : Nat) (p : Nat × α),
    p ∈ enumFrom1 i xs → p.2 ∈ xs
  | [], _, p, h => by simp [enumFrom1] at h
  | x :: xs, i, p, h => by
    simp only [enumFrom1, List.mem_cons] at h
    rcases h with rfl | h
    · simp
    · exact List.mem_cons_of_mem _ (enumFrom1_mem xs (i + 1) p h)

/-- an entry of the expanded row is a plain column, or an element of a `*` column -/
theorem expandAll_mem (cols : List (Str × ColVal)) (e : Str × ColVal) (h : e ∈ expandAll cols) :
    (e ∈ cols ∧ ∃ s, e.2 = Sum.inl s) ∨
    (∃ k pv i x, (k, Sum.inr pv) ∈ cols ∧ e = (replace1 '*' (printNat i) k, Sum.inr x) ∧
      (pv = x ∨ ∃ xs, pv = .list xs ∧ x ∈ xs)) := by
  unfold expandAll at h
  obtain ⟨c, hc, hec⟩ := List.mem_flatMap.mp h
  obtain ⟨k, cv⟩ := c
  cases cv with
  | inl s =>
    simp only [expandCol, List.mem_singleton] at hec
    subst hec
    exact Or.inl ⟨hc, s, rfl⟩
  | inr pv =>
    right
    simp only [expandCol, List.mem_map] at hec
    obtain ⟨p, hp, rfl⟩ := hec
    have hx := enumFrom1_mem _ _ p hp
    refine ⟨k, pv, p.1, p.2, hc, rfl, ?_⟩
    cases pv with
    | atom a =>
      left
      simp only at hx
      exact (List.eq_of_mem_replicate hx).symm
    | list xs => exact Or.inr ⟨xs, rfl, hx⟩

/-! ### the flow row schema -/

/-- the strings of a `*` cell: one string, or a flat list of strings -/
def flatPV : PV → Bool
  | .atom x => strOk x
  | .list xs => xs.all fun
    | .atom x => strOk x
    | .list _ => false

/-- the `*` columns of a flow row (after the header remap) are `edges.*.b` for the leaves `b`
of an edge, and hold flat lists -/
def flowStarOk (cols : List (Str × ColVal)) : Bool :=
  cols.all fun c => match c.2 with
    | .inl _ => true
    | .inr pv => edgeLeaves.any (fun b => c.1 == "edges.*.".toList ++ b) && flatPV pv

theorem idxKey_keyChar (k : Nat) (b : Str) (hb : b ∈ edgeLeaves) :
    ∀ c ∈ idxKey k b, keyChar c = true := by
  have hbk : ∀ c ∈ b, keyChar c = true := by
    simp only [edgeLeaves, List.mem_cons, List.not_mem_nil, or_false] at hb
    rcases hb with rfl | rfl | rfl | rfl | rfl <;> decide
  intro c hc
  simp only [idxKey, List.mem_append, List.mem_cons] at hc
  rcases hc with h | rfl | h | rfl | h
  · revert c; decide
  · decide
  · exact printNat_keyChar k c h
  · decide
  · exact hbk c h

/-- the `k`-th element `x` of a `*` column `edges.*.b` is assigned exactly like the cell `t`
of the column `edges.k.b`, for any cell text `t` that reads as `x` -/
theorem star_elem_eq_cell (k : Nat) (b : Str) (hb : b ∈ edgeLeaves) (out : Tree)
    (x t : Str) (h : parseAsString t = .ok x) :
    parseEntry flowRowTy out (idxKey k b, Sum.inr (.atom x)) =
    parseEntry flowRowTy out (idxKey k b, Sum.inl t) := by
  apply parseEntry_star_eq_cell flowRowTy out _ x t h
  rw [getFieldName_key _ (idxKey_keyChar k b hb)]
  simp only [idxKey]
  rw [splitDot_append edgesS _ (by decide), splitDot_append _ _ (printNat_no_dot k)]
  intro lt hlt
  simp only [edgeLeaves, List.mem_cons, List.not_mem_nil, or_false] at hb
  rcases hb with rfl | rfl | rfl | rfl | rfl
  all_goals
    have : lt = Ty.str := by
      have e : some lt = some Ty.str := hlt.symm.trans rfl
      exact Option.some.inj e
    subst this
    rfl

theorem flow_ctx_static :
    (flowBasicHeaders.all fun p => decide (alookup p.2 flowBasicHeaders = none) && decide (p.2 ≠ msgHdr)) = true ∧
    (flowMainArg.all fun p => decide (alookup p.2 flowBasicHeaders = none) && decide (p.2 ≠ msgHdr)) = true ∧
    ((ctxKeys flowRowSchema).all fun k => headSeg k != edgesS) = true := by decide +kernel

theorem alookup_mem {α : Type} : ∀ (l : List (Str × α)) (k : Str) (v : α),
    alookup k l = some v → (k, v) ∈ l
  | [], _, _, h => by simp [alookup] at h
  | (k', v') :: l, k, v, h => by
    simp only [alookup] at h
    split at h
    · rename_i hk; cases h; simp [hk]
    · exact List.mem_cons_of_mem _ (alookup_mem l k v h)

/-- what the flow sheet's context remap produces is not remapped again -/
theorem flow_ctx_idem (d : List (Str × Str)) (k0 k : Str)
    (h : ctxRemap flowRowSchema d k0 = .ok k) :
    alookup k flowBasicHeaders = none ∧ k ≠ msgHdr := by
  obtain ⟨S1, S2, _⟩ := flow_ctx_static
  simp only [List.all_eq_true, Bool.and_eq_true, decide_eq_true_eq] at S1 S2
  unfold ctxRemap at h
  rw [flow_basic] at h
  cases hb : alookup k0 flowBasicHeaders with
  | some k' =>
    simp only [hb] at h
    cases h
    exact S1 (k0, k) (alookup_mem _ _ _ hb)
  | none =>
    simp only [hb, flow_main] at h
    by_cases hk : k0 = msgHdr
    · simp only [hk, if_true] at h
      cases ht : alookup typeCol d with
      | none => simp [ht] at h
      | some t =>
        simp only [ht] at h
        cases ha : alookup (strip pyWs t) flowMainArg with
        | none => simp [ha] at h
        | some a =>
          simp only [ha] at h
          cases h
          exact S2 (strip pyWs t, k) (alookup_mem _ _ _ ha)
    · simp only [hk, if_false] at h
      cases h
      exact ⟨hb, hk⟩

theorem headSeg_idxKey (i : Nat) (b : Str) : headSeg (idxKey i b) = edgesS := by
  simp only [idxKey]
  exact headSeg_dotted (n := edgesS) (by decide) _

/-- **Short row = fully indexed row** (flow rows). -/
theorem flow_short_eq_indexed (d d1 : List (Str × Str)) (cols : List (Str × ColVal))
    (h1 : rekey flowRowSchema d = .ok d1) (h2 : preParse d1 = .ok cols)
    (hstar : flowStarOk cols = true) (hnd : ((indexedRow cols).map Prod.fst).Nodup) :
    parseRow flowRowSchema d = parseRow flowRowSchema (indexedRow cols) ∧
    ∀ kv ∈ indexedRow cols, hasStar kv.1 = false ∧
      ctxRemap flowRowSchema (indexedRow cols) kv.1 = .ok kv.1 := by
  obtain ⟨_, _, S3⟩ := flow_ctx_static
  simp only [List.all_eq_true, bne_iff_ne, ne_eq] at S3
  simp only [flowStarOk, List.all_eq_true] at hstar
  -- every entry of the expanded row
  have hentry : ∀ e ∈ expandAll cols,
      (∃ s, e.2 = Sum.inl s ∧ hasStar e.1 = false ∧ (e.1, s) ∈ d1) ∨
      (∃ i b x, b ∈ edgeLeaves ∧ e = (idxKey i b, Sum.inr (.atom x)) ∧ strOk x = true) := by
    intro e he
    rcases expandAll_mem cols e he with ⟨hm, s, hs⟩ | ⟨k, pv, i, x, hm, rfl, hx⟩
    · rcases preParse_spec d1 cols h2 e hm with h | ⟨pv, hp, _⟩
      · exact Or.inl h
      · rw [hs] at hp; cases hp
    · right
      have := hstar _ hm
      simp only [Bool.and_eq_true, List.any_eq_true, beq_iff_eq] at this
      obtain ⟨⟨b, hb, rfl⟩, hflat⟩ := this
      rw [star_key i b hb]
      rcases hx with rfl | ⟨xs, rfl, hx⟩
      · cases pv with
        | atom a => exact ⟨i, b, a, hb, rfl, hflat⟩
        | list ys =>
          -- a list as the single broadcast value cannot occur: `expandCol` spreads a list
          exfalso
          have hin := he
          unfold expandAll at hin
          obtain ⟨c, hc, hec⟩ := List.mem_flatMap.mp hin
          obtain ⟨k', cv⟩ := c
          cases cv with
          | inl s => simp [expandCol] at hec
          | inr pv' =>
            simp only [expandCol, List.mem_map] at hec
            obtain ⟨p, hp, hpe⟩ := hec
            have hx2 := enumFrom1_mem _ _ p hp
            have h3 := hstar _ hc
            simp only [Bool.and_eq_true] at h3
            have hpx : p.2 = PV.list ys := by
              have := congrArg Prod.snd hpe
              simpa using this
            cases pv' with
            | atom a =>
              simp only at hx2
              rw [List.eq_of_mem_replicate hx2] at hpx
              cases hpx
            | list zs =>
              simp only at hx2
              have := h3.2
              simp only [flatPV, List.all_eq_true] at this
              have h4 := this _ hx2
              rw [hpx] at h4
              simp at h4
      · simp only [flatPV, List.all_eq_true] at hflat
        have := hflat x hx
        cases x with
        | atom a => exact ⟨i, b, a, hb, rfl, this⟩
        | list _ => simp at this
  have hkeys : ∀ kv ∈ indexedRow cols, hasStar kv.1 = false ∧
      ∀ ctx, ctxRemap flowRowSchema ctx kv.1 = .ok kv.1 := by
    intro kv hkv
    obtain ⟨e, he, rfl⟩ := List.mem_map.mp hkv
    rcases hentry e he with ⟨s, _, hs, hm⟩ | ⟨i, b, x, hb, rfl, _⟩
    · refine ⟨hs, fun ctx => ?_⟩
      unfold rekey at h1
      rcases rekey_keys flowRowSchema d d [] d1 h1 _ hm with h | ⟨k0, hk0⟩
      · simp at h
      · obtain ⟨f1, f2⟩ := flow_ctx_idem d k0 _ hk0
        exact ctxRemap_id flowRowSchema ctx _ (by rw [flow_basic]; exact f1)
          (fun hd tc tb hmn => by
            rw [flow_main] at hmn
            simp only [Option.some.injEq, Prod.mk.injEq] at hmn
            rw [← hmn.1]; exact f2)
    · refine ⟨hasStar_of_keyChar (idxKey_keyChar i b hb), fun ctx => ?_⟩
      apply ctxRemap_untouched
      intro k' hk' e
      exact S3 k' hk' (by rw [e]; exact headSeg_idxKey i b)
  refine ⟨?_, fun kv hkv => ⟨(hkeys kv hkv).1, (hkeys kv hkv).2 _⟩⟩
  apply parseRow_eq_indexed flowRowSchema d d1 cols h1 h2
  · unfold rekey
    have := rekey_map flowRowSchema (indexedRow cols) id (indexedRow cols) []
      (fun kv hkv => (hkeys kv hkv).2 _) (by simpa using hnd)
    simpa using this
  · exact fun kv hkv => (hkeys kv hkv).1
  · intro e he out
    rcases hentry e he with ⟨s, hs, _, _⟩ | ⟨i, b, x, hb, rfl, hx⟩
    · obtain ⟨k, cv⟩ := e
      simp only at hs
      subst hs
      rfl
    · obtain ⟨f1, f2, _⟩ := strOk_spec hx
      exact star_elem_eq_cell i b hb out x x (parseAsString_ok f1 f2)

end Rpft.Row
