/-
Layer A, node constructors (`_get_row_node`): a new node has no destinations yet, its cases
name its categories, and — when the sheet gives no identifier — all its identifiers are
freshly allocated, each used once.
-/
import Rpft.Lemmas.CompileInvA2
set_option linter.unusedSimpArgs false
set_option linter.unusedVariables false
namespace Rpft.Compile
open Rpft

/-- `pre`: identifiers allocated before the constructor ran that end up in the node -/
def NewNode (s : St) (given : Str) (pre : List Uid) (n : NodeM) (s' : St) : Prop :=
  ∃ k, Bump s s' k ∧ ((∀ d ∈ n.exitDests, d = Dest.none) ∧ n.dexitDest = Dest.none) ∧
    (∀ r, n.router = some (.sw r) → CaseCatsOk r) ∧
    (¬ Invented given → Grow s.next (s.next + k) pre n.fids) ∧ (given = [] → Invented n.uid)

theorem wp_nodeUid (given : Str) (s : St) (Q : Uid → St → Prop) :
    wp (nodeUid given) s Q ↔
      (given = [] → Q (tid s.next) { s with next := s.next + 1 }) ∧ (given ≠ [] → Q given s) := by
  unfold nodeUid
  wp_simp [wp_fresh', List.isEmpty_iff]

/-- the node identifier: a fresh one, or the given one (which the counter does not account for
when it does not look invented) -/
theorem nodeUid_spec (given : Str) (s : St) :
    wp (nodeUid given) s (fun u s' =>
      ∃ j, Bump s s' j ∧ (¬ Invented given → Grow s.next (s.next + j) [] (uidPart u)) ∧
        (given = [] → Invented u)) := by
  rw [wp_nodeUid]
  constructor
  · intro _
    exact ⟨1, rfl, fun _ => by rw [uidPart_tid]; grow_new [tid s.next], fun _ => invented_tid _⟩
  · intro h
    refine ⟨0, rfl, fun h' => ?_, fun h' => absurd h' h⟩
    simp only [uidPart, h', if_false]; exact Grow.refl _ _ _

theorem exitDests_withAct (n : NodeM) (act : Option (Uid × Str)) : (n.withAct act).exitDests = n.exitDests := by
  cases act <;> rfl

theorem basicNode_spec (r : Row) (act : Option (Uid × Str)) (s : St) :
    wp (basicNode r act) s (NewNode s r.nodeUuid (act.toList.map (·.1))) := by
  unfold basicNode
  wp_simp [wp_newBasic]
  refine wp_mono (nodeUid_spec _ _) ?_
  intro u s1 ⟨j, hb, hu, hi⟩; subst hb
  refine ⟨j + 2, by simp [Bump, Nat.add_assoc], ?_, ?_, ?_, ?_⟩
  · cases act <;> simp [NodeM.withAct, NodeM.exitDests]
  · cases act <;> simp [NodeM.withAct]
  · intro hg
    have h2 : Grow (s.next + j) (s.next + (j + 2)) (act.toList.map (·.1))
        (act.toList.map (·.1) ++ [tid (s.next + j + 1)]) := by
      grow_new [tid (s.next + j + 1)]
    have := Grow.append (hu hg) h2 (by omega) (by omega)
    cases act <;> simpa [NodeM.withAct, NodeM.fids, NodeM.innerIds, NodeM.tailIds] using this
  · intro hg; cases act <;> exact hi hg

theorem otherNode_spec (r : Row) (act : Option (Uid × Str)) (s : St) :
    wp (otherNode r act) s (NewNode s r.nodeUuid (act.toList.map (·.1))) := by
  unfold otherNode
  wp_simp [wp_fresh']
  refine wp_mono (nodeUid_spec _ _) ?_
  intro u s1 ⟨j, hb, hu, hi⟩; subst hb
  refine ⟨j + 1, by simp [Bump, Nat.add_assoc], ?_, ?_, ?_, ?_⟩
  · cases act <;> simp [NodeM.withAct, NodeM.exitDests]
  · cases act <;> simp [NodeM.withAct]
  · intro hg
    have h2 : Grow (s.next + j) (s.next + (j + 1)) (act.toList.map (·.1))
        (act.toList.map (·.1) ++ [tid (s.next + j)]) := by
      grow_new [tid (s.next + j)]
    have := Grow.append (hu hg) h2 (by omega) (by omega)
    cases act <;> simpa [NodeM.withAct, NodeM.fids, NodeM.innerIds, NodeM.tailIds] using this
  · intro hg; cases act <;> exact hi hg

/-! ### router nodes -/

theorem newSwitch_spec (operand : Str) (rn : Option Str) (wait : Option Nat) (s : St) :
    wp (newSwitch operand rn wait) s (fun sw s' =>
      ∃ k, Bump s s' k ∧ Grow s.next (s.next + k) [] sw.ids ∧ SwD (· = Dest.none) sw ∧ sw.cases = []) := by
  rw [wp_newSwitch]
  rcases wait with _ | _ | n
  · refine ⟨2, rfl, ?_, ?_, rfl⟩
    · simp only [SwitchR.ids, SwitchR.allCats]
      grow_new [tid s.next, tid (s.next + 1)]
    · intro c hc; simp [SwitchR.allCats] at hc; subst hc; rfl
  · refine ⟨2, rfl, ?_, ?_, rfl⟩
    · simp only [SwitchR.ids, SwitchR.allCats]
      grow_new [tid s.next, tid (s.next + 1)]
    · intro c hc; simp [SwitchR.allCats] at hc; subst hc; rfl
  · refine ⟨4, rfl, ?_, ?_, rfl⟩
    · simp only [SwitchR.ids, SwitchR.allCats]
      grow_new [tid s.next, tid (s.next + 1), tid (s.next + 2), tid (s.next + 3)]
    · intro c hc; simp [SwitchR.allCats] at hc; rcases hc with rfl | rfl <;> rfl

theorem caseCatsOk_of_cases_nil {r : SwitchR} (h : r.cases = []) : CaseCatsOk r := by
  intro k hk; rw [h] at hk; simp at hk

/-- renaming the default category changes nothing that matters here -/
theorem rename_dflt (r : SwitchR) (nm : Str) :
    let r' : SwitchR := { r with dflt := { r.dflt with name := nm } }
    r'.ids = r.ids ∧ (∀ D, SwD D r → SwD D r') ∧ r'.cases = r.cases ∧ (CaseCatsOk r → CaseCatsOk r') := by
  refine ⟨?_, ?_, rfl, ?_⟩
  · simp [SwitchR.ids, SwitchR.allCats]
  · intro D h c hc
    simp only [SwitchR.allCats, List.mem_append, List.mem_singleton] at hc
    rcases hc with (hc | hc) | hc
    · exact h c (by simp [SwitchR.allCats, hc])
    · subst hc; exact h r.dflt (by simp [SwitchR.allCats])
    · exact h c (by simp [SwitchR.allCats, hc])
  · intro h k hk
    have := h k hk
    simpa [SwitchR.allCats] using this

theorem fids_swNode (u : Uid) (kind : NodeKind) (acts : List (Uid × Str)) (sw : SwitchR) (e : Uid) (d : Dest) :
    (NodeM.fids { uid := u, kind := kind, actions := acts, router := some (.sw sw), dexitUid := e, dexitDest := d })
      = uidPart u ++ (acts.map (·.1) ++ sw.ids) := rfl

/-- assembling a switch-router node from freshly allocated parts -/
theorem newNode_sw {s : St} {given : Str} {pre : List Uid} {u e : Uid} {kind : NodeKind}
    {acts : List (Uid × Str)} {sw : SwitchR} {k : Nat}
    (hd : SwD (· = Dest.none) sw) (hc : CaseCatsOk sw)
    (hg : ¬ Invented given → Grow s.next (s.next + k) [] (uidPart u ++ (acts.map (·.1) ++ sw.ids)))
    (hi : given = [] → Invented u) :
    NewNode s given pre
      ({ uid := u, kind := kind, actions := acts, router := some (.sw sw), dexitUid := e,
         dexitDest := .none } : NodeM)
      { s with next := s.next + k } := by
  refine ⟨k, rfl, ⟨?_, rfl⟩, ?_, ?_, hi⟩
  · intro d hdd
    simp only [NodeM.exitDests, List.mem_map] at hdd
    obtain ⟨c, hc1, rfl⟩ := hdd
    exact hd c hc1
  · intro r hr; simp at hr; subst hr; exact hc
  · intro h; rw [fids_swNode]; exact (hg h).weaken pre

theorem grow_part_append {b b1 b2 : Nat} {p l : List Uid} (h1 : Grow b b1 [] p)
    (h2 : Grow b1 b2 [] l) (hb : b ≤ b1) (hb' : b1 ≤ b2) : Grow b b2 [] (p ++ l) := by
  have := Grow.append h1 h2 hb hb'
  simpa using this

theorem grow_cons_append {b b1 b2 : Nat} {u : Uid} {l : List Uid} (h1 : Grow b b1 [] [u])
    (h2 : Grow b1 b2 [] l) (hb : b ≤ b1) (hb' : b1 ≤ b2) : Grow b b2 [] (u :: l) := by
  have := Grow.append h1 h2 hb hb'
  simpa using this

theorem splitGroupNode_spec (r : Row) (pre : List Uid) (s : St) :
    wp (splitGroupNode r) s (NewNode s r.nodeUuid pre) := by
  unfold splitGroupNode
  wp_simp [wp_newRouterNode]
  refine wp_mono (nodeUid_spec _ _) ?_
  intro u s1 ⟨j, hb, hu, hi⟩; subst hb
  refine wp_mono (newSwitch_spec _ _ _ _) ?_
  intro sw s2 ⟨k, hb, hgr, hd, hc⟩; subst hb
  dsimp only at hgr ⊢
  have := newNode_sw (s := s) (given := r.nodeUuid) (pre := pre) (u := u) (e := tid (s.next + j + k))
    (kind := .switch) (acts := []) (k := j + k + 1) hd (caseCatsOk_of_cases_nil hc) (by
      intro hg
      exact (grow_part_append (hu hg) hgr (by omega) (by omega)).mono (by omega) (by omega)) hi
  simpa [Nat.add_assoc] using this

theorem splitValueNode_spec (r : Row) (pre : List Uid) (s : St) :
    wp (splitValueNode r) s (NewNode s r.nodeUuid pre) := by
  unfold splitValueNode
  wp_simp [wp_newRouterNode]
  refine wp_mono (nodeUid_spec _ _) ?_
  intro u s1 ⟨j, hb, hu, hi⟩; subst hb
  refine ⟨fun _ => trivial, fun _ => ?_⟩
  refine wp_mono (newSwitch_spec _ _ _ _) ?_
  intro sw s2 ⟨k, hb, hgr, hd, hc⟩; subst hb
  dsimp only at hgr ⊢
  have := newNode_sw (s := s) (given := r.nodeUuid) (pre := pre) (u := u) (e := tid (s.next + j + k))
    (kind := .switch) (acts := []) (k := j + k + 1) hd (caseCatsOk_of_cases_nil hc) (by
      intro hg
      exact (grow_part_append (hu hg) hgr (by omega) (by omega)).mono (by omega) (by omega)) hi
  simpa [Nat.add_assoc] using this

theorem waitNode_spec (r : Row) (pre : List Uid) (s : St) :
    wp (waitNode r) s (NewNode s r.nodeUuid pre) := by
  unfold waitNode
  wp_simp [wp_newRouterNode]
  refine wp_mono (nodeUid_spec _ _) ?_
  intro u s1 ⟨j, hb, hu, hi⟩; subst hb
  have tail : ∀ w : Nat, wp (do
      let sw ← newSwitch "@input.text".toList (some r.saveName) (some w)
      newRouterNode u .switch (.sw sw)) { s with next := s.next + j } (NewNode s r.nodeUuid pre) := by
    intro w
    wp_simp [wp_newRouterNode]
    refine wp_mono (newSwitch_spec _ _ _ _) ?_
    intro sw s2 ⟨k, hb, hgr, hd, hc⟩; subst hb
    dsimp only at hgr ⊢
    have := newNode_sw (s := s) (given := r.nodeUuid) (pre := pre) (u := u) (e := tid (s.next + j + k))
      (kind := .switch) (acts := []) (k := j + k + 1) hd (caseCatsOk_of_cases_nil hc) (by
        intro hg
        exact (grow_part_append (hu hg) hgr (by omega) (by omega)).mono (by omega) (by omega)) hi
    simpa [Nat.add_assoc] using this
  simp only [wp_bind, wp_newRouterNode] at tail
  constructor
  · intro _; exact tail 0
  · intro _
    split
    · rename_i n hn
      wp_simp [wp_newRouterNode]
      exact tail n
    · wp_simp

theorem splitRandomNode_spec (r : Row) (pre : List Uid) (s : St) :
    wp (splitRandomNode r) s (NewNode s r.nodeUuid pre) := by
  unfold splitRandomNode
  wp_simp [wp_newRouterNode]
  refine wp_mono (nodeUid_spec _ _) ?_
  intro u s1 ⟨j, hb, hu, hi⟩; subst hb
  refine ⟨j + 1, by simp [Bump, Nat.add_assoc], ?_, ?_, ?_, hi⟩
  · simp [NodeM.exitDests]
  · intro r hr; simp at hr
  · intro hg
    have : Grow s.next (s.next + (j + 1)) [] (uidPart u) := (hu hg).mono (by omega) (by omega)
    exact Grow.weaken (by simpa [NodeM.fids, NodeM.innerIds, NodeM.tailIds, RandomR.ids] using this) pre

theorem enterNode_spec (r : Row) (pre : List Uid) (s : St) :
    wp (enterNode r) s (NewNode s r.nodeUuid pre) := by
  unfold enterNode
  wp_simp [wp_newRouterNode, wp_fresh']
  refine wp_mono (nodeUid_spec _ _) ?_
  intro u s1 ⟨j, hb, hu, hi⟩; subst hb
  refine wp_mono (newSwitch_spec _ _ _ _) ?_
  intro sw s2 ⟨k1, hb, hg1, hd1, hc1⟩; subst hb
  obtain ⟨ri, rd, rc, rk⟩ := rename_dflt sw "Expired".toList
  refine wp_mono (addChoice_spec _ _ _ _ _ _ _ _) ?_
  intro sw2 s3 ⟨k2, hb, hg2, hd2, hc2⟩; subst hb
  refine wp_mono (addChoice_spec _ _ _ _ _ _ _ _) ?_
  intro sw3 s4 ⟨k3, hb, hg3, hd3, hc3⟩; subst hb
  dsimp only at hg1 hg2 hg3 ⊢
  rw [ri] at hg2
  have hsw : Grow (s.next + j + 1) (s.next + j + 1 + k1 + k2 + k3) [] sw3.ids :=
    (hg1.trans hg2 (by omega) (by omega)).trans hg3 (by omega) (by omega)
  have hcc : CaseCatsOk sw3 := hc3 (hc2 (rk (caseCatsOk_of_cases_nil hc1)))
  have hdd : SwD (· = Dest.none) sw3 := hd3 _ rfl (hd2 _ rfl (rd _ hd1))
  have := newNode_sw (s := s) (given := r.nodeUuid) (pre := pre) (u := u)
    (e := tid (s.next + j + 1 + k1 + k2 + k3))
    (kind := .enter) (acts := [(tid (s.next + j), r.ownAction.getD [])]) (k := j + 1 + k1 + k2 + k3 + 1)
    hdd hcc (by
      intro hg
      have h1 : Grow (s.next + j) (s.next + j + 1) [] [tid (s.next + j)] := by grow_new [tid (s.next + j)]
      have h2 := grow_cons_append h1 hsw (by omega) (by omega)
      have h3 := grow_part_append (hu hg) h2 (by omega) (by omega)
      exact h3.mono (by omega) (by omega)) hi
  simpa [Nat.add_assoc] using this

theorem hookNode_spec (r : Row) (pre : List Uid) (s : St) :
    wp (hookNode r) s (NewNode s r.nodeUuid pre) := by
  unfold hookNode
  wp_simp
  refine wp_mono (nodeUid_spec _ _) ?_
  intro u s1 ⟨j, hb, hu, hi⟩; subst hb
  split
  · wp_simp
  · rename_i key hkey
    wp_simp [wp_newRouterNode, wp_fresh']
    generalize (if r.type = "call_webhook".toList then NodeKind.webhook else NodeKind.airtime) = kind
    refine wp_mono (newSwitch_spec _ _ _ _) ?_
    intro sw s2 ⟨k1, hb, hg1, hd1, hc1⟩; subst hb
    obtain ⟨ri, rd, rc, rk⟩ := rename_dflt sw "Failure".toList
    refine wp_mono (addChoice_spec _ _ _ _ _ _ _ _) ?_
    intro sw2 s3 ⟨k2, hb, hg2, hd2, hc2⟩; subst hb
    dsimp only at hg1 hg2 ⊢
    rw [ri] at hg2
    have hsw : Grow (s.next + j) (s.next + j + k1 + k2) [] sw2.ids :=
      hg1.trans hg2 (by omega) (by omega)
    have hcc : CaseCatsOk sw2 := hc2 (rk (caseCatsOk_of_cases_nil hc1))
    have hdd : SwD (· = Dest.none) sw2 := hd2 _ rfl (rd _ hd1)
    have := newNode_sw (s := s) (given := r.nodeUuid) (pre := pre) (u := u)
      (e := tid (s.next + j + k1 + k2))
      (kind := kind)
      (acts := [(tid (s.next + j + k1 + k2 + 1), r.ownAction.getD [])]) (k := j + k1 + k2 + 1 + 1)
      hdd hcc (by
        intro hg
        have h1 : Grow (s.next + j + k1 + k2) (s.next + j + k1 + k2 + 2) [] [tid (s.next + j + k1 + k2 + 1)] := by
          grow_new [tid (s.next + j + k1 + k2 + 1)]
        have h2 := Grow.append hsw h1 (by omega) (by omega)
        have h3 := grow_part_append (hu hg) h2 (by omega) (by omega)
        refine (h3.mono (by omega) (by omega)).perm_right ?_
        simp only [List.map_cons, List.map_nil]
        refine List.Perm.append_left _ ?_
        exact List.perm_append_comm (l₁ := sw2.ids) (l₂ := [tid (s.next + j + k1 + k2 + 1)])) hi
    simpa [Nat.add_assoc] using this

theorem rowNode_spec (r : Row) (act : Option (Uid × Str)) (s : St) :
    wp (rowNode r act) s (NewNode s r.nodeUuid (act.toList.map (·.1))) := by
  unfold rowNode
  wp_simp
  refine ⟨fun _ => ⟨fun _ => basicNode_spec _ _ _, fun _ => ⟨fun _ => enterNode_spec _ _ _, fun _ =>
    ⟨fun _ => hookNode_spec _ _ _, fun _ => ⟨fun _ => waitNode_spec _ _ _, fun _ =>
    ⟨fun _ => splitValueNode_spec _ _ _, fun _ => ⟨fun _ => splitGroupNode_spec _ _ _, fun _ =>
    ⟨fun _ => splitRandomNode_spec _ _ _, fun _ => otherNode_spec _ _ _⟩⟩⟩⟩⟩⟩⟩, fun _ => trivial⟩

end Rpft.Compile
