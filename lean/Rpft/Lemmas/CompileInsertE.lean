/-
The edges into the block: the twin applies them through the parents of the begin row's `no_op`
group (when the entry row of the template is read), the insert row after the template is parsed —
both runs call `add_exit` on the same source groups in the same order.
-/
import Rpft.Lemmas.CompileInsertTwin
set_option linter.unusedSimpArgs false
set_option linter.unusedVariables false
namespace Rpft.Compile
open Rpft Function

variable {P : Params}

theorem ScopeLike.of_blkEq {s₀ w w' : St} (h : ScopeLike s₀ w) (e : SEq w w') (hb : BlkEq w w') : ScopeLike s₀ w' :=
  ⟨e.2.1.trans h.1, by rw [hb.mostRecent]; exact h.2⟩

/-- postcondition of the comparison: simulation; scope and blocks unchanged on both sides -/
def EPost (P : Params) (t w : St) : PUnit → St → PUnit → St → Prop :=
  fun _ t' _ w' => ASim P t' w' ∧ SEq t t' ∧ SEq w w' ∧ BlkEq t t' ∧ BlkEq w w'

theorem E_rel (ok : P.Ok) (s₀ : St) (d : Dest) (hd : rnDest P.ρ d = d) (hdn : P.op = true → d ≠ Dest.none) (f₁ : Nat)
    (hsrc : ∀ src, src < s₀.groups.size → P.γ src = src ∧ P.DG src ∧ ¬ P.T src)
    (hval : ∀ (e : Edge) (src : Nat) (s' : St), (groupOfEdge e).run s₀ = .ok (some src, s') → src < s₀.groups.size) :
    ∀ (es : List Edge) (ps : List (Nat × Cond)), psOf s₀ es = some ps → ∀ (t w : St), ASim P t w → ScopeLike s₀ w →
      rwp (ps.forM (fun p => addExit f₁ p.1 d p.2)) (es.forM (addRowEdge d)) t w (EPost P t w) := by
  intro es
  induction es with
  | nil =>
    intro ps hp t w h _
    simp only [psOf, Option.some.injEq] at hp
    subst hp
    show rwp (pure PUnit.unit) (pure PUnit.unit) t w _
    rw [rwp_pure]
    exact ⟨h, SEq.refl _, SEq.refl _, BlkEq.refl _, BlkEq.refl _⟩
  | cons e es ih =>
    intro ps hp t w h hsl
    have hgw := groupOfEdge_scopeLike hsl e
    show rwp _ (addRowEdge d e >>= fun _ => es.forM (addRowEdge d)) t w _
    unfold psOf at hp
    cases hg : (groupOfEdge e).run s₀ with
    | error err => rw [hg] at hp; cases hp
    | ok pr =>
      obtain ⟨a0, s'⟩ := pr
      rw [hg] at hp hgw
      simp only [Except.map] at hgw
      cases a0 with
      | none =>
        simp only [] at hp
        -- the edge adds nothing on the right
        have hr : (addRowEdge d e).run w = .ok ((), w) := by
          unfold addRowEdge
          rw [run_bind_of hgw]
          rfl
        intro a t' b w' k1 k2
        rw [run_bind_of hr] at k2
        exact ih ps hp t w h hsl a t' b w' k1 k2
      | some src =>
        simp only [] at hp
        cases hps : psOf s₀ es with
        | none => rw [hps] at hp; cases hp
        | some ps' =>
          rw [hps] at hp
          simp only [Option.map_some, Option.some.injEq] at hp
          subst hp
          have hlt := hval e src s' hg
          obtain ⟨hγ, hdg, hnt⟩ := hsrc src hlt
          show rwp (addExit f₁ src d e.cond >>= fun _ => ps'.forM (fun p => addExit f₁ p.1 d p.2)) _ t w _
          -- the right side: look up, then `add_exit`
          have hr : ∀ (k : PUnit → M PUnit), (addRowEdge d e >>= k).run w =
              (addExit (2 * w.groups.size + 8) src d e.cond >>= k).run w := by
            intro k
            unfold addRowEdge
            simp only [bind_assoc]
            rw [run_bind_of hgw]
            simp only [bind_assoc]
            rw [run_bind_of (fuelOf_run w)]
          intro a t' b w' k1 k2
          rw [hr] at k2
          revert a t' b w' k1 k2
          change rwp _ _ t w _
          rw [rwp_bind]
          have hae := addExit_rel ok f₁ (2 * w.groups.size + 8) src d e.cond t w h hdg hnt hdn
          rw [hγ, hd] at hae
          refine rwp_of_wp_left (addExit_blk f₁ src d e.cond t) ?_
          refine rwp_of_wp_right (addExit_blk (2 * w.groups.size + 8) src d e.cond w) ?_
          refine rwp_mono hae ?_
          intro _ u₁ _ u₂ ⟨_, hu, e1, e2⟩ hb2 hb1
          refine rwp_mono (ih ps' hps u₁ u₂ hu (hsl.of_blkEq e2 hb2)) ?_
          intro _ t' _ w' ⟨ht, e1', e2', hb1', hb2'⟩
          exact ⟨ht, e1.trans e1', e2.trans e2', hb1.trans hb1', hb2.trans hb2'⟩

end Rpft.Compile
