/-
Rows merged into one node (C02 fragment), the static side: the mark `annotate` sets is what `mergeAt`
says; the chain of rows of a node (`membersOf`) and the actions merged into the node (`postUpTo`); the
reference node of an action row depends on its row and on the sources of its out-edges through the
identifiers and the actions only.
-/
import Rpft.Lemmas.CoreMerge
import Rpft.Lemmas.CoreImplAbs
set_option linter.unusedSimpArgs false
set_option linter.unusedVariables false
namespace Rpft.CoreSheet
open Rpft Rpft.Compile Rpft.RefFlow Rpft.Flow

/-! ### the mark -/

theorem annotate_getElem? (rows : List CRow) (j : Nat) :
    (annotate rows)[j]? = (rows[j]?).map (fun c => { c with merged := mergeAt rows j }) := by
  unfold annotate
  rw [List.getElem?_map, List.getElem?_zipIdx]
  cases rows[j]? <;> simp

theorem annotate_length (rows : List CRow) : (annotate rows).length = rows.length := by
  unfold annotate; simp

theorem annotate_toEvent (rows : List CRow) : (annotate rows).map toEvent = rows.map toEvent := by
  unfold annotate
  rw [List.map_map]
  have : (toEvent ∘ fun (p : CRow × Nat) => ({ p.1 with merged := mergeAt rows p.2 } : CRow)) = toEvent ∘ Prod.fst := by
    funext p; rfl
  rw [this, ← List.map_map, List.zipIdx_map_fst]

theorem annotate_toRRow (rows : List CRow) : (annotate rows).map toRRow = rows.map toRRow := by
  unfold annotate
  rw [List.map_map]
  have : (toRRow ∘ fun (p : CRow × Nat) => ({ p.1 with merged := mergeAt rows p.2 } : CRow)) = toRRow ∘ Prod.fst := by
    funext p; rfl
  rw [this, ← List.map_map, List.zipIdx_map_fst]

theorem mergeAt_annotate (rows : List CRow) (j : Nat) : mergeAt (annotate rows) j = mergeAt rows j := by
  unfold mergeAt
  rw [annotate_getElem?]
  cases hj : rows[j]? with
  | none => rfl
  | some c =>
    simp only [Option.map_some]
    have e1 : isNamedAct ({ c with merged := mergeAt rows j } : CRow) = isNamedAct c := rfl
    rw [e1]
    congr 1
    -- the earlier rows
    rw [Bool.eq_iff_iff, List.any_eq_true, List.any_eq_true]
    constructor
    · rintro ⟨c', hc', hp⟩
      obtain ⟨i, hi⟩ := List.mem_iff_getElem?.mp hc'
      rw [List.getElem?_take] at hi
      split at hi
      · rename_i hij
        rw [annotate_getElem?] at hi
        cases hri : rows[i]? with
        | none => rw [hri] at hi; cases hi
        | some c0 =>
          rw [hri] at hi
          simp only [Option.map_some, Option.some.injEq] at hi
          refine ⟨c0, List.mem_iff_getElem?.mpr ⟨i, by rw [List.getElem?_take, if_pos hij]; exact hri⟩, ?_⟩
          rw [← hi] at hp; exact hp
      · cases hi
    · rintro ⟨c0, hc0, hp⟩
      obtain ⟨i, hi⟩ := List.mem_iff_getElem?.mp hc0
      rw [List.getElem?_take] at hi
      split at hi
      · rename_i hij
        refine ⟨{ c0 with merged := mergeAt rows i }, List.mem_iff_getElem?.mpr ⟨i, ?_⟩, hp⟩
        rw [List.getElem?_take, if_pos hij, annotate_getElem?, hi]; rfl
      · cases hi

theorem annot_annotate (rows : List CRow) : Annot (annotate rows) := by
  intro j c hc
  rw [annotate_getElem?] at hc
  cases hj : rows[j]? with
  | none => rw [hj] at hc; cases hc
  | some c0 =>
    rw [hj] at hc
    simp only [Option.map_some, Option.some.injEq] at hc
    rw [mergeAt_annotate, ← hc]

/-! ### the rows of a node -/

theorem membersOf_head (rows : List CRow) (R : Nat) : (membersOf rows R)[0]? = some R := by
  unfold membersOf
  cases rows[R]? <;> rfl

theorem membersOf_single {rows : List CRow} {R : Nat} {cR : CRow} (hc : rows[R]? = some cR)
    (hn : isNamedAct cR = false) : membersOf rows R = [R] := by
  unfold membersOf
  rw [hc]; simp [hn]

theorem membersOf_tail {rows : List CRow} {R : Nat} {cR : CRow} (hc : rows[R]? = some cR)
    (hn : isNamedAct cR = true) :
    (membersOf rows R).tail =
      (List.range rows.length).filter (fun i => decide (R < i) && mergedNamed rows cR.row.nodeName i) := by
  unfold membersOf
  rw [hc]; simp [hn]

/-- a later row of the chain: merged, with the node name of the first row -/
theorem membersOf_mem_tail {rows : List CRow} {R t : Nat} {cR : CRow} (hc : rows[R]? = some cR)
    (ht : t ∈ (membersOf rows R).tail) :
    isNamedAct cR = true ∧ R < t ∧ ∃ ct, rows[t]? = some ct ∧ ct.merged = true ∧ isNamedAct ct = true ∧
      ct.row.nodeName = cR.row.nodeName := by
  cases hn : isNamedAct cR with
  | false => rw [membersOf_single hc hn] at ht; cases ht
  | true =>
    rw [membersOf_tail hc hn] at ht
    simp only [List.mem_filter, List.mem_range, Bool.and_eq_true, decide_eq_true_eq] at ht
    obtain ⟨_, hlt, hm⟩ := ht
    unfold mergedNamed at hm
    cases hct : rows[t]? with
    | none => rw [hct] at hm; cases hm
    | some ct =>
      rw [hct] at hm
      simp only [Bool.and_eq_true, decide_eq_true_eq] at hm
      exact ⟨rfl, hlt, ct, rfl, hm.1.1, hm.1.2, hm.2⟩

/-- the actions merged into the node of row `R` are the actions of the later rows of its chain -/
theorem postUpTo_members (rows : List CRow) (R : Nat) (cR : CRow) (hc : rows[R]? = some cR)
    (hn : isNamedAct cR = true) :
    postUpTo rows rows.length R =
      (membersOf rows R).tail.filterMap (fun i => (rows[i]?).bind (fun c => c.row.action)) := by
  rw [membersOf_tail hc hn]
  have key : ∀ kg, kg ≤ rows.length → postUpTo rows kg R =
      ((List.range kg).filter (fun i => decide (R < i) && mergedNamed rows cR.row.nodeName i)).filterMap
        (fun i => (rows[i]?).bind (fun c => c.row.action)) := by
    intro kg
    induction kg with
    | zero => intro _; rw [postUpTo_le rows (Nat.zero_le _)]; rfl
    | succ k ih =>
      intro hk
      have hkl : k < rows.length := hk
      obtain ⟨c, hck⟩ : ∃ c, rows[k]? = some c := ⟨rows[k], by simp [hkl]⟩
      rw [List.range_succ, List.filter_append, List.filterMap_append, ← ih (by omega)]
      by_cases hRk : R < k
      · by_cases hm : mergedNamed rows cR.row.nodeName k = true
        · -- the row is merged into the node of `R`
          have hm' := hm
          unfold mergedNamed at hm'
          rw [hck] at hm'
          simp only [Bool.and_eq_true, decide_eq_true_eq] at hm'
          rw [postUpTo_merge rows k R c cR hck hc hRk hm'.1.1 hm'.1.2 hn hm'.2]
          simp only [hRk, hm, decide_true, Bool.and_self, List.filter_cons, if_true, List.filter_nil,
            List.filterMap_cons, List.filterMap_nil, hck, Option.bind_some]
          cases c.row.action <;> rfl
        · have hm0 : mergedNamed rows cR.row.nodeName k = false := by simpa using hm
          have : postUpTo rows (k + 1) R = postUpTo rows k R := by
            unfold mergedNamed at hm0
            rw [hck] at hm0
            simp only at hm0
            by_cases hmn : (c.merged && isNamedAct c) = true
            · rw [hmn, Bool.true_and] at hm0
              have hne : c.row.nodeName ≠ cR.row.nodeName := by simpa using hm0
              exact postUpTo_other rows k R c hck (fun cj hcj _ => by
                rw [hc] at hcj; injection hcj with hcj; subst hcj; exact hne)
            · exact postUpTo_succ rows k R c hck (by simpa using hmn)
          rw [this]
          simp [hRk, hm0]
      · have h1 : postUpTo rows (k + 1) R = [] := postUpTo_le rows (by omega)
        have h2 : postUpTo rows k R = [] := postUpTo_le rows (by omega)
        rw [h1, h2]
        simp [hRk]
  exact key rows.length (Nat.le_refl _)

/-! ### the reference node of an action row -/

/-- the sources of the out-edges do not matter -/
theorem mkNode_action_resrc (k : Nat) (rr : RRow) (es : List OutEdge) (R : Nat) (hk : rr.kind = .action) :
    mkNode k rr (es.map (fun e => { e with src := R })) = mkNode k rr es := by
  have hf : ∀ (p : OutEdge → Bool), (∀ e : OutEdge, p { e with src := R } = p e) →
      (es.map (fun e => ({ e with src := R } : OutEdge))).filter p =
        (es.filter p).map (fun e => { e with src := R }) := by
    intro p hp
    rw [List.filter_map]
    congr 1
    apply List.filter_congr
    intro e _
    exact hp e
  unfold mkNode
  simp only [hk]
  rw [hf (fun e => e.cond.blank) (fun _ => rfl), hf (fun e => !e.cond.blank) (fun _ => rfl)]
  have h1 : lastTgt ((es.filter (fun e => e.cond.blank)).map (fun e => ({ e with src := R } : OutEdge))) (fun _ => true) =
      lastTgt (es.filter (fun e => e.cond.blank)) (fun _ => true) := by
    unfold lastTgt
    simp only [List.filter_true, List.getLast?_map]
    cases (es.filter (fun e => e.cond.blank)).getLast? <;> rfl
  have h2 : condVar ((es.filter (fun e => !e.cond.blank)).map (fun e => ({ e with src := R } : OutEdge))) =
      condVar (es.filter (fun e => !e.cond.blank)) := by
    unfold condVar
    rw [List.find?_map]
    simp only [Function.comp_def, Option.map_map]
  rw [h1, h2]
  simp only [List.isEmpty_map, List.map_map, Function.comp_def]

/-- the reference node of an action row performs the row's action -/
theorem mkNode_action_acts (lvl : ObsLevel) (r : Flow) (k : Nat) (rr : RRow) (es : List OutEdge)
    (hk : rr.kind = .action) : (absNode lvl r (mkNode k rr es)).acts = rr.act.toList := by
  have : (mkNode k rr es).actions = refActs k rr.act := by
    unfold mkNode refActs
    simp only [hk]
    split
    · rfl
    · split <;> rfl
  unfold absNode
  simp only [this]
  exact acts_obs k rr.act

/-- decision and exits of the reference node of an action row are those of its out-edges; its actions
its own -/
theorem absNode_action_congr (rnf : Bool) (r : Flow) (k k' : Nat) (rr rr' : RRow) (es : List OutEdge)
    (hk : rr.kind = .action) (hk' : rr'.kind = .action)
    (hv : ∀ e ∈ es.filter (fun e => !e.cond.blank), e.cond.var = implVar es) :
    (absNode ⟨false, rnf⟩ r (mkNode k rr es)).ask = (absNode ⟨false, rnf⟩ r (mkNode k' rr' es)).ask ∧
    (absNode ⟨false, rnf⟩ r (mkNode k rr es)).dests = (absNode ⟨false, rnf⟩ r (mkNode k' rr' es)).dests ∧
    (absNode ⟨false, rnf⟩ r (mkNode k rr es)).acts = rr.act.toList := by
  by_cases hne : es.filter (fun e => !e.cond.blank) = []
  · have hb : ∀ e ∈ es, e.cond.blank = true := by
      intro e he
      cases hbe : e.cond.blank with
      | true => rfl
      | false =>
        have : e ∈ es.filter (fun e => !e.cond.blank) := List.mem_filter.mpr ⟨he, by simp [hbe]⟩
        rw [hne] at this; cases this
    rw [mkNode_plain k rr es hk hb, mkNode_plain k' rr' es hk' hb, absNode_plain_ref, absNode_plain_ref]
    exact ⟨rfl, rfl, rfl⟩
  · have key : ∀ (k0 : Nat) (r0 : RRow), r0.kind = .action →
        absNode ⟨false, rnf⟩ r (mkNode k0 r0 es) =
          { acts := (refActs k0 r0.act).map (·.obs),
            ask := some { kind := "switch".toList, operand := implOperand es, tests := (refTests .action es).map (fun t =>
                            (t.1, if t.1 = "has_group".toList then t.2.1.drop 1 else t.2.1)),
                          caseCats := [], otherCats := [], wait := (implRefWait es).map (fun o => o.map (·.1)),
                          resultName := if rnf then none else none },
            dests := ((refTests .action es).map (fun t => destIdx r t.2.2)) ++
              [destIdx r (lastTgt (es.filter (·.cond.blank)) (fun _ => true))] ++
              (match implRefWait es with
               | some (some (_, td)) => [destIdx r td]
               | _ => []) } := by
      intro k0 r0 h0
      rw [mkNode_impl k0 r0 es h0 hne hv, absNode_acts, absNode_mkSwitch]
      rfl
    rw [key k rr hk, key k' rr' hk']
    exact ⟨rfl, rfl, acts_obs k rr.act⟩

end Rpft.CoreSheet
