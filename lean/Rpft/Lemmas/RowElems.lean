/-
Field round trip (`FieldRT`) for a list field whose elements are each written as ONE cell
`f.1, f.2, …`: elements of a basic type (always), sub-records when a target header packs
every element (`f.*`).  Generalises the `List[str]` development of RowFields.lean.
-/
import Rpft.Lemmas.RowSub
set_option linter.unusedSimpArgs false
set_option linter.unusedVariables false
namespace Rpft.Row
open Rpft Rpft.Cell

/-- one list element: value, the text of its cell, the tree it is read back as -/
abbrev ElemD := Val × Str × Tree

/-- what is needed of every element, at every index -/
def ElemOk (lay : Layout) (n : Str) (ety : Ty) (e : ElemD) : Prop :=
  (∀ i out, unparseRec lay ety e.1 (idxPrefix ('.' :: n) i) out =
      writeOut (idxPrefix ('.' :: n) i) e.2.1 out) ∧
  leafFn (Sum.inl e.2.1) ety = .ok (some e.2.2) ∧
  validate ety e.2.2 = .ok e.1

theorem unparseSeq_elems {lay : Layout} {n : Str} (hn : simpleName n = true) {ety : Ty} :
    ∀ (es : List ElemD) (i : Nat) (out : Out), (∀ e ∈ es, ElemOk lay n ety e) →
    (∀ kv ∈ out, headSeg kv.1 ≠ n ∨ ∃ k, k < i ∧ kv.1 = n ++ '.' :: printNat k) →
    unparseSeq (unparseRec lay ety) ('.' :: n) i (es.map (·.1)) out =
      .ok (out ++ spreadCols n i (es.map (·.2.1)))
  | [], _, out, _, _ => by simp [unparseSeq, spreadCols]
  | e :: es, i, out, hok, hout => by
    have hkey : alookup (n ++ '.' :: printNat i) out = none := by
      rw [alookup_none_iff]
      intro hm
      obtain ⟨kv, hkv, e'⟩ := List.mem_map.mp hm
      rcases hout kv hkv with h | ⟨k, hk, h⟩
      · rw [e', headSeg_dotted hn] at h; exact h rfl
      · rw [e'] at h
        have := printNat_inj (List.cons.inj (List.append_cancel_left h)).2
        omega
    simp only [List.map_cons, unparseSeq]
    rw [(hok e (by simp)).1 i out]
    simp only [writeOut, idxPrefix, List.cons_append, trimPrefix, hkey]
    rw [unparseSeq_elems hn es (i + 1) (out ++ [(n ++ '.' :: printNat i, e.2.1)])
      (fun x hx => hok x (List.mem_cons_of_mem _ hx))]
    · simp [spreadCols]
    · intro kv hkv
      rcases List.mem_append.mp hkv with h | h
      · rcases hout kv h with h' | ⟨k, hk, h'⟩
        · exact Or.inl h'
        · exact Or.inr ⟨k, by omega, h'⟩
      · simp only [List.mem_singleton] at h
        exact Or.inr ⟨i, by omega, by rw [h]⟩

theorem fold_spread_elems {lay : Layout} {fs : List Field} {n : Str} {d : Option Val} {ety : Ty}
    (hn : simpleName n = true) (hf : fieldLookup n fs = some (n, .list ety, d))
    (kvs : List (Str × Tree)) (hk : alookup n kvs = none) :
    ∀ (es : List ElemD) (e : ElemD) (ts : List Tree) (cur : Option Tree),
      (cur = none ∧ ts = [] ∨ cur = some (.list ts)) →
      (∀ x ∈ e :: es, ElemOk lay n ety x) →
      foldE (parseEntry (plainTop fs)) (.dict (st kvs n cur))
          (inl (spreadCols n (ts.length + 1) ((e :: es).map (·.2.1)))) =
        .ok (.dict (st kvs n (some (.list (ts ++ (e :: es).map (·.2.2))))))
  | es, e, ts, cur, hcur, hok => by
    have hinit : initChild (.list ety) (cur.getD Tree.none) = .list ts := by
      rcases hcur with ⟨rfl, rfl⟩ | rfl <;> simp [initChild, isListTy]
    have hstep : parseEntry (plainTop fs) (.dict (st kvs n cur))
        (n ++ '.' :: printNat (ts.length + 1), Sum.inl e.2.1) =
        .ok (.dict (st kvs n (some (.list (ts ++ [e.2.2]))))) := by
      rw [parseEntry_nested hn hf kvs hk cur _ (printNat_keyChar _),
        splitDot_simple _ (printNat_no_dot _), hinit,
        findSet_list_next _ _ ts e.2.2 (hok e (by simp)).2.1]
    cases es with
    | nil =>
      simp only [spreadCols, inl, List.map_cons, List.map_nil, foldE]
      rw [hstep]
    | cons e' es' =>
      have ih := fold_spread_elems hn hf kvs hk es' e' (ts ++ [e.2.2])
        (some (.list (ts ++ [e.2.2]))) (Or.inr rfl)
        (fun x hx => hok x (List.mem_cons_of_mem _ hx))
      simp only [List.length_append, List.length_singleton] at ih
      simp only [spreadCols, inl, List.map_cons, foldE] at ih ⊢
      rw [hstep]
      simp only
      rw [ih]
      simp

theorem mapE_mem_ok {α β : Type} (f : α → Except Err β) (g : α → β) :
    ∀ (l : List α), (∀ a ∈ l, f a = .ok (g a)) → mapE f l = .ok (l.map g)
  | [], _ => rfl
  | a :: l, hf => by
    have ih := mapE_mem_ok f g l (fun x hx => hf x (List.mem_cons_of_mem _ hx))
    simp [mapE, hf a (by simp), ih]

/-- **a list whose elements are each one cell** `n.1, n.2, …` -/
theorem fieldRT_list_elems {lay : Layout} {fs : List Field} {n : Str} {d : Option Val} {ety : Ty}
    (hn : simpleName n = true) (hf : fieldLookup n fs = some (n, .list ety, d))
    (he : lay.excluded = []) (hm : matchesHeaders ('.' :: n) lay.targets = false)
    (es : List ElemD) (hne : es ≠ []) (hok : ∀ e ∈ es, ElemOk lay n ety e) :
    FieldRT lay fs n (.list ety) (.list (es.map (·.1))) := by
  refine ⟨spreadCols n 1 (es.map (·.2.1)), .list (es.map (·.2.2)), ?_, ?_,
    spreadCols_nodup n _ 1, ?_, ?_, rfl⟩
  · intro out hout
    unfold unparseRec
    simp only [he, matchesHeaders_nil, hm, isBasicVal, Bool.false_or, Bool.false_eq_true, if_false]
    exact unparseSeq_elems hn es 1 out hok (fun kv hkv => Or.inl (hout kv hkv))
  · intro kv hkv
    obtain ⟨k, _, e⟩ := spreadCols_keys n _ 1 kv hkv
    rw [e]
    refine ⟨headSeg_dotted hn _, ?_⟩
    intro c hc
    rcases List.mem_append.mp hc with h | h
    · exact simpleName_keyChar hn c h
    · simp only [List.mem_cons] at h
      rcases h with rfl | h
      · decide
      · exact printNat_keyChar k c h
  · intro kvs hk
    cases es with
    | nil => exact absurd rfl hne
    | cons e es' =>
      have := fold_spread_elems hn hf kvs hk es' e [] none (Or.inl ⟨rfl, rfl⟩) hok
      simpa [st] using this
  · simp only [validate]
    have := mapE_map_ok (validate ety) (fun e : ElemD => e.2.2) (fun e : ElemD => e.1) es
      (fun e he' => (hok e he').2.2)
    rw [this]

/-! ### elements of a basic type -/

theorem reprOk_basic_weaken {ty : Ty} {v : Val} (hb : isBasicTy ty = true)
    (h : reprOk true ty v = true) : reprOk false ty v = true ∧ fieldOk true ty v = true := by
  cases ty <;> simp [isBasicTy] at hb <;> cases v <;> simp [reprOk] at h <;>
    simp [reprOk, fieldOk, h]

theorem elemOk_basic {lay : Layout} (he : lay.excluded = []) (n : Str) {ty : Ty} {x : Val}
    (hb : isBasicTy ty = true) (hr : reprOk true ty x = true) :
    ElemOk lay n ty (x, printBasic x, leafTree x) := by
  obtain ⟨hr', _⟩ := reprOk_basic_weaken hb hr
  obtain ⟨hbv, hlv, hav, hval, _, _, _⟩ := basic_leaf hb hr'
  refine ⟨fun i out => unparseRec_basic he _ _ hbv _ out, ?_, hval⟩
  simp only [leafFn, hlv, hav]

/-! ### sub-record elements packed one per cell -/

theorem sub_packed_unparse {lay : Layout} (he : lay.excluded = []) {sfs : List Field}
    {skvs : List (Str × Val)} (D : SubData sfs skvs) (pfx : Str)
    (hm : matchesHeaders pfx lay.targets = true) (out : Out) :
    unparseRec lay (plainTop sfs) (.model skvs) pfx out =
      writeOut pfx (joinCell (.list ((D.pairs.filter nonDefault).map subElem))) out := by
  unfold unparseRec
  have h1 := nestedFields_sub sfs skvs D.pairs D.hok
  rw [D.hfst] at h1
  simp only [he, matchesHeaders_nil, hm, isBasicVal, Bool.false_or, if_true, Bool.false_eq_true,
    if_false, writeValue, toNested, h1]
  rw [joinPacked_cell]

theorem sub_packed_leaf {sfs : List Field} {skvs : List (Str × Val)} (D : SubData sfs skvs) :
    leafFn (Sum.inl (joinCell (.list ((D.pairs.filter nonDefault).map subElem)))) (plainTop sfs) =
      .ok (some (.dict ((D.pairs.filter nonDefault).map subTr))) := by
  have hokf := subOk_filter D.hok
  have hndall : ∀ p ∈ D.pairs.filter nonDefault, nonDefault p = true :=
    fun p hp => (List.mem_filter.mp hp).2
  obtain ⟨hwf, hcok⟩ := wfCell_pairs D.hne hokf hndall
    (fun p hp => D.hfok p (List.mem_filter.mp hp).1 (hndall p hp))
  simp only [leafFn, leafValue, isListTy, isModelTy, Bool.false_or, if_true]
  rw [cellParse_joinCell hwf hcok]
  have hpv : PV.ofCell (.list ((D.pairs.filter nonDefault).map subElem)) =
      .list ((D.pairs.filter nonDefault).map subEntry) := by
    simp [PV.ofCell, List.map_map, PV.ofElem, subElem, subEntry, Function.comp]
  simp only [hpv, assignValue, assignModel, tryKwarg_pairs_none]
  rw [assignEntries_kw sfs skvs _ _ [] hokf hndall (fun p _ => rfl)]
  simp

theorem elemOk_sub_packed {lay : Layout} (he : lay.excluded = []) (n : Str) {sfs : List Field}
    {skvs : List (Str × Val)} (D : SubData sfs skvs)
    (hm : ∀ i, matchesHeaders (idxPrefix ('.' :: n) i) lay.targets = true) :
    ElemOk lay n (plainTop sfs) (.model skvs,
      joinCell (.list ((D.pairs.filter nonDefault).map subElem)),
      .dict ((D.pairs.filter nonDefault).map subTr)) :=
  ⟨fun i out => sub_packed_unparse he D _ (hm i) out, sub_packed_leaf D, validate_sub D⟩

def subText (sfs : List Field) (skvs : List (Str × Val)) : Str :=
  joinCell (.list (((sfs.zip (skvs.map Prod.snd)).filter nonDefault).map subElem))
def subTree (sfs : List Field) (skvs : List (Str × Val)) : Tree :=
  .dict (((sfs.zip (skvs.map Prod.snd)).filter nonDefault).map subTr)

/-- element data of a sub-record value -/
def elemOfSub (sfs : List Field) : Val → ElemD
  | .model skvs => (.model skvs, subText sfs skvs, subTree sfs skvs)
  | v => (v, [], Tree.none)

theorem elemOfSub_fst (sfs : List Field) (v : Val) : (elemOfSub sfs v).1 = v := by
  cases v <;> rfl

theorem elemOk_sub {lay : Layout} (he : lay.excluded = []) (n : Str) {sfs : List Field}
    (hfam : subFamily sfs = true) {v : Val} (hr : reprOk true (plainTop sfs) v = true)
    (hm : ∀ i, matchesHeaders (idxPrefix ('.' :: n) i) lay.targets = true) :
    ElemOk lay n (plainTop sfs) (elemOfSub sfs v) := by
  cases v <;> simp [reprOk] at hr
  case model skvs =>
    have hr' : reprOk false (plainTop sfs) (.model skvs) = true := by
      simp [reprOk, hr.1.1, hr.2]
    have hfo : fieldOk false (plainTop sfs) (.model skvs) = true := by
      simp [fieldOk, hr.1.2]
    obtain ⟨D⟩ := subData_of_repr hfam hr' hfo
    have := elemOk_sub_packed he n D hm
    simp only [elemOfSub, subText, subTree, ← D.hpairs]
    exact this

def elemOfBasic (v : Val) : ElemD := (v, printBasic v, leafTree v)

/-! ### a list of basic values packed into one cell -/

theorem fieldRT_listBasic_packed {lay : Layout} {fs : List Field} {n : Str} {d : Option Val}
    {t : Ty} (hb : isBasicTy t = true)
    (hn : simpleName n = true) (hf : fieldLookup n fs = some (n, .list t, d))
    (he : lay.excluded = []) (hm : matchesHeaders ('.' :: n) lay.targets = true)
    (xs : List Val) (hne : xs ≠ []) (hxs : ∀ x ∈ xs, reprOk true t x = true) :
    FieldRT lay fs n (.list t) (.list xs) := by
  have hfacts : ∀ x ∈ xs, strOk (printBasic x) = true ∧ printBasic x ≠ [] := by
    intro x hx
    obtain ⟨h1, h2⟩ := reprOk_basic_weaken hb (hxs x hx)
    obtain ⟨_, _, _, _, _, hs, hnb⟩ := basic_leaf hb h1
    exact ⟨hs, hnb h2⟩
  have hss : ∀ s ∈ xs.map printBasic, strOk s = true ∧ s ≠ [] := by
    intro s hs
    obtain ⟨x, hx, rfl⟩ := List.mem_map.mp hs
    exact hfacts x hx
  obtain ⟨hwf, hok⟩ := wfCell_atoms (ss := xs.map printBasic) (by simpa using hne) hss
  refine fieldRT_single hn hf (joinCell (.list ((xs.map printBasic).map Elem.atom)))
    (.list ((xs.map printBasic).map PV.atom)) (.list (xs.map leafTree)) ?_ ?_ ?_ ?_ rfl
  · intro out
    unfold unparseRec
    have h1 : mapE (toNested t) xs = .ok (xs.map fun x => Nested.str (printBasic x)) :=
      mapE_mem_ok _ _ xs (fun x hx => toNested_basic hb (reprOk_basic_weaken hb (hxs x hx)).1)
    have h2 : (xs.map fun x => Nested.str (printBasic x)) =
        ((xs.map printBasic).map Elem.atom).map elemToNested := by
      simp [List.map_map, elemToNested, Function.comp]
    simp only [he, matchesHeaders_nil, hm, isBasicVal, Bool.false_or, if_true, Bool.false_eq_true,
      if_false, writeValue, toNested, h1]
    rw [h2, joinPacked_cell]
  · simp only [leafValue, isListTy, Bool.true_or, if_true]
    rw [cellParse_joinCell hwf hok]
    simp [PV.ofCell, List.map_map, PV.ofElem]
  · simp only [assignValue, assignList, listEntries, List.map_map]
    rw [mapE_map_ok _ (PV.atom ∘ printBasic) leafTree xs (fun x hx => by
      have := (basic_leaf hb (reprOk_basic_weaken hb (hxs x hx)).1).2.2.1
      simp [Function.comp, this])]
  · simp only [validate]
    rw [mapE_map_ok _ leafTree id xs (fun x hx =>
      (basic_leaf hb (reprOk_basic_weaken hb (hxs x hx)).1).2.2.2.1)]
    simp

/-! ### `f.*` packs every element -/

theorem matchPat_prefix : ∀ (a p t : Str), (∀ c ∈ a, c ≠ '*') → matchPat (a ++ p) (a ++ t) = matchPat p t
  | [], _, _, _ => rfl
  | c :: a, p, t, h => by
    have hc : c ≠ '*' := h c (by simp)
    simp [matchPat, hc, matchPat_prefix a p t (fun x hx => h x (List.mem_cons_of_mem _ hx))]

/-- the target header `n.*` matches the prefix of every element `n.i` -/
theorem matches_star_index {n : Str} (hn : simpleName n = true) (targets : List Str)
    (ht : (n ++ ".*".toList) ∈ targets) (i : Nat) :
    matchesHeaders (idxPrefix ('.' :: n) i) targets = true := by
  simp only [matchesHeaders, idxPrefix, List.cons_append, List.isEmpty_cons, Bool.not_false,
    Bool.true_and, trimPrefix, List.any_eq_true]
  refine ⟨_, ht, ?_⟩
  have hstar : ∀ c ∈ n, c ≠ '*' := by
    intro c hc
    simp only [simpleName, Bool.and_eq_true, List.all_eq_true] at hn
    have := hn.2 c hc
    simp [okChar] at this
    exact this.1.1.2
  rw [matchPat_prefix n _ _ hstar]
  obtain ⟨h1, h2, _⟩ := printNat_spec i
  cases hp : printNat i with
  | nil => exact absurd hp h2
  | cons c rest =>
    have hc : c ≠ '.' := printNat_no_dot i c (by rw [hp]; simp)
    simp [matchPat, starAux, hc]

end Rpft.Row
