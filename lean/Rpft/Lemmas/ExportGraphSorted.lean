/-
Helper lemmas for C04 (graph level): ORDER, the exact criterion.  Two lists with the same
sub-list per key, both sorted by the rank of the key, are equal (`eq_of_sorted_filters`); the edges
that leave a row and are carried by node rows are sorted by the sheet position of their target
(`outOf_sorted`).
-/
import Rpft.Lemmas.ExportGraphTop
set_option linter.unusedSimpArgs false
set_option linter.unusedVariables false
set_option linter.unusedSectionVars false
namespace Rpft.Export
open Function

/-- position of a row id in the sheet -/
def pos {I : Type} [DecidableEq I] (ids : List I) (x : I) : Nat := ids.idxOf x

theorem pos_cons {I : Type} [DecidableEq I] (a : I) (l : List I) (x : I) :
    pos (a :: l) x = if a = x then 0 else pos l x + 1 := by
  simp only [pos, List.idxOf_cons]
  by_cases h : a = x
  · simp [h]
  · have : (a == x) = false := by simpa using h
    simp [h, this]

theorem pos_inj {I : Type} [DecidableEq I] {l : List I} {x y : I} (hx : x ∈ l) (hy : y ∈ l) (h : pos l x = pos l y) : x = y := by
  have h1 := List.idxOf_lt_length_of_mem hx
  have h2 := List.idxOf_lt_length_of_mem hy
  have e1 := List.getElem_idxOf h1
  have e2 := List.getElem_idxOf h2
  simp only [pos] at h
  rw [← e1, ← e2]
  simp [h]

section Sorted
variable {α κ : Type} [DecidableEq κ]

/-- two lists that agree on the sub-list of every key and are both sorted by the rank of the key
(injective on the keys that occur) are equal -/
theorem eq_of_sorted_filters (key : α → κ) (rank : κ → Nat) :
    ∀ (L X : List α), L.Pairwise (fun a b => rank (key a) ≤ rank (key b)) →
      X.Pairwise (fun a b => rank (key a) ≤ rank (key b)) →
      (∀ a ∈ X, ∀ b ∈ X, rank (key a) = rank (key b) → key a = key b) →
      (∀ t, L.filter (fun a => decide (key a = t)) = X.filter (fun a => decide (key a = t))) → L = X := by
  intro L
  induction L with
  | nil =>
    intro X _ _ _ hf
    cases X with
    | nil => rfl
    | cons b X =>
      have := hf (key b)
      simp [List.filter_cons] at this
  | cons a L ih =>
    intro X hL hX hinj hf
    have hmemX : ∀ x, x ∈ a :: L ↔ x ∈ X := by
      intro x
      have := hf (key x)
      constructor
      · intro hx
        have : x ∈ (a :: L).filter (fun y => decide (key y = key x)) := List.mem_filter.2 ⟨hx, by simp⟩
        rw [hf] at this
        exact (List.mem_filter.1 this).1
      · intro hx
        have : x ∈ X.filter (fun y => decide (key y = key x)) := List.mem_filter.2 ⟨hx, by simp⟩
        rw [← hf] at this
        exact (List.mem_filter.1 this).1
    cases X with
    | nil =>
      have := hf (key a)
      simp [List.filter_cons] at this
    | cons b X =>
      rw [List.pairwise_cons] at hL hX
      have hkey : key b = key a := by
        by_cases hk : key b = key a
        · exact hk
        · exfalso
          have ha : a ∈ b :: X := (hmemX a).1 (List.mem_cons_self ..)
          have hb : b ∈ a :: L := (hmemX b).2 (List.mem_cons_self ..)
          have ha' : a ∈ X := by
            rcases List.mem_cons.1 ha with h | h
            · exact absurd (h ▸ rfl) hk
            · exact h
          have hb' : b ∈ L := by
            rcases List.mem_cons.1 hb with h | h
            · exact absurd (h ▸ rfl) hk
            · exact h
          have h1 := hX.1 a ha'
          have h2 := hL.1 b hb'
          exact hk (hinj b (List.mem_cons_self ..) a ha (by omega))
      have h0 := hf (key a)
      simp only [List.filter_cons, hkey, decide_true, if_true, List.cons.injEq] at h0
      obtain ⟨hab, _⟩ := h0
      subst hab
      congr 1
      apply ih X hL.2 hX.2 (fun x hx y hy => hinj x (List.mem_cons_of_mem _ hx) y (List.mem_cons_of_mem _ hy))
      intro t
      have := hf t
      simp only [List.filter_cons] at this
      by_cases ht : key a = t
      · simp only [ht, decide_true, if_true, List.cons.injEq, true_and] at this
        exact this
      · simpa only [ht, decide_false, Bool.false_eq_true, if_false] using this

end Sorted

variable {U : Type} [DecidableEq U]

/-- the targets, when every selected edge is carried by its target row (no `go_to` row carries one) -/
theorem outOf_dst_of_no_goto (s : TempId U) (rows : List (RowT U))
    (hg : ∀ r ∈ rows, r.goto ≠ [] → ∀ e ∈ r.edges, e.from_ ≠ some s) :
    (outOf s (edgesOfT rows)).map (·.dst) =
      rows.flatMap (fun r => List.replicate ((outOf s (readRow r.id r.cells r.goto)).length) r.id) := by
  induction rows with
  | nil => rfl
  | cons r rows ih =>
    have ih' := ih (fun r' hr' => hg r' (List.mem_cons_of_mem _ hr'))
    simp only [edgesOfT_cons, outOf, List.filter_append, List.map_append, List.flatMap_cons] at ih' ⊢
    rw [ih']
    congr 1
    by_cases hgo : r.goto = []
    · simp only [readRow, hgo]
      apply List.ext_getElem
      · simp
      · intro i h1 h2
        simp only [List.getElem_map, List.getElem_replicate]
        have := List.getElem_mem (l := List.filter (fun e => decide (e.src = some s)) (List.map (fun e => (⟨e.1, e.2, r.id⟩ : SEdge (TempId U))) r.cells)) (by simpa using h1)
        obtain ⟨c, _, hc⟩ := List.mem_map.1 (List.mem_filter.1 this).1
        rw [← hc]
    · have hnone : List.filter (fun e => decide (e.src = some s)) (readRow r.id r.cells r.goto) = [] := by
        rw [List.filter_eq_nil_iff]
        intro e he
        have hsrc : ∃ e0 ∈ r.edges, e.src = e0.from_ := by
          cases hgt : r.goto with
          | nil => exact absurd hgt hgo
          | cons t ts =>
            simp only [readRow, hgt, List.mem_map] at he
            obtain ⟨p, hp, rfl⟩ := he
            have := (List.of_mem_zip hp).1
            simp only [RowT.cells, List.mem_map] at this
            obtain ⟨e0, he0, hpe⟩ := this
            exact ⟨e0, he0, by rw [← hpe]⟩
        obtain ⟨e0, he0, hs0⟩ := hsrc
        simp only [decide_eq_true_eq, hs0]
        exact hg r (List.mem_cons_self ..) hgo e0 he0
      simp [hnone]

theorem pairwise_pos_flatMap_replicate {I : Type} [DecidableEq I] {β : Type} (idf : β → I) (cnt : β → Nat) :
    ∀ (rows : List β), (rows.map idf).Nodup →
      (rows.flatMap (fun r => List.replicate (cnt r) (idf r))).Pairwise
        (fun x y => pos (rows.map idf) x ≤ pos (rows.map idf) y) := by
  intro rows
  induction rows with
  | nil => intro _; simp
  | cons r rows ih =>
    intro hnd
    simp only [List.map_cons, List.nodup_cons] at hnd
    simp only [List.flatMap_cons, List.map_cons, List.pairwise_append]
    have hmem : ∀ y ∈ rows.flatMap (fun r => List.replicate (cnt r) (idf r)), y ∈ rows.map idf := by
      intro y hy
      obtain ⟨r', hr', hy'⟩ := List.mem_flatMap.1 hy
      rw [(List.mem_replicate.1 hy').2]
      exact List.mem_map.2 ⟨r', hr', rfl⟩
    refine ⟨?_, ?_, ?_⟩
    · rw [List.pairwise_replicate]
      exact Or.inr (Nat.le_refl _)
    · apply (ih hnd.2).imp_of_mem
      intro a b ha hb hab
      have ha' : idf r ≠ a := fun e => hnd.1 (e ▸ hmem a ha)
      have hb' : idf r ≠ b := fun e => hnd.1 (e ▸ hmem b hb)
      simp only [pos_cons, ha', hb', if_false]
      omega
    · intro x hx y _
      rw [(List.mem_replicate.1 hx).2]
      simp [pos_cons]

/-- the edges that leave row `s`, in sheet order, are sorted by the sheet position of their target —
when no `go_to` row carries one of them -/
theorem outOf_sorted (s : TempId U) (rows : List (RowT U)) (hnd : (rows.map (·.id)).Nodup)
    (hg : ∀ r ∈ rows, r.goto ≠ [] → ∀ e ∈ r.edges, e.from_ ≠ some s) :
    (outOf s (edgesOfT rows)).Pairwise (fun a b => pos (rows.map (·.id)) a.dst ≤ pos (rows.map (·.id)) b.dst) := by
  have h1 := outOf_dst_of_no_goto s rows hg
  have h2 := pairwise_pos_flatMap_replicate (fun r : RowT U => r.id)
    (fun r => (outOf s (readRow r.id r.cells r.goto)).length) rows hnd
  rw [← h1, List.pairwise_map] at h2
  exact h2

end Rpft.Export
