/-
What a sequence of events does to the scope: which row ids it may define, that rows without a
node name leave the named nodes alone, that named nodes exist, how deep the stack of open blocks is.
-/
import Rpft.Lemmas.CompileInsertFrame
import Rpft.Lemmas.CompileInsertDecomp
set_option linter.unusedSimpArgs false
set_option linter.unusedVariables false
namespace Rpft.Compile
open Rpft Function

/-- the row ids an event may define in the scope it is read in (an inserted template defines its
row ids in its own scope) -/
def Event.defs : Event → List Str
  | .row r => [r.rowId]
  | .openGroup _ _ => []
  | .closeGroup id => [id]
  | .insert r _ => [r.rowId]

def defsL : List Event → List Str
  | [] => []
  | e :: es => e.defs ++ defsL es

def opens : List Event → Nat
  | [] => 0
  | .openGroup _ _ :: es => opens es + 1
  | _ :: es => opens es

def closes : List Event → Nat
  | [] => 0
  | .closeGroup _ :: es => closes es + 1
  | _ :: es => closes es

/-- effect on the scope: row ids defined are among `ids`; if `nn`, named nodes are found as before;
named nodes exist; no node is removed -/
structure ScEff (ids : List Str) (nn : Bool) (s t : St) : Prop where
  ri : ∀ p ∈ t.rowIds, p ∈ s.rowIds ∨ p.1 ∈ ids
  nm : nn = true → ∀ x, x ≠ [] → lookupIn t.names x = lookupIn s.names x
  nv : (∀ p ∈ s.names, p.2 < s.nodes.size) → ∀ p ∈ t.names, p.2 < t.nodes.size
  sz : s.nodes.size ≤ t.nodes.size

theorem ScEff.refl (ids : List Str) (nn : Bool) (s : St) : ScEff ids nn s s :=
  ⟨fun _ hp => .inl hp, fun _ _ _ => rfl, fun h => h, Nat.le_refl _⟩

theorem ScEff.trans {ids ids' : List Str} {nn nn' : Bool} {s t u : St} (h : ScEff ids nn s t)
    (h' : ScEff ids' nn' t u) : ScEff (ids ++ ids') (nn && nn') s u := by
  refine ⟨fun p hp => ?_, fun hn x hx => ?_, fun hv => h'.nv (h.nv hv), Nat.le_trans h.sz h'.sz⟩
  · rcases h'.ri p hp with h1 | h1
    · rcases h.ri p h1 with h2 | h2
      · exact .inl h2
      · exact .inr (List.mem_append_left _ h2)
    · exact .inr (List.mem_append_right _ h1)
  · have hn' : nn = true ∧ nn' = true := by simpa using hn
    rw [h'.nm hn'.2 x hx, h.nm hn'.1 x hx]

theorem ScEff.weaken {ids ids' : List Str} {nn nn' : Bool} {s t : St} (h : ScEff ids nn s t)
    (hi : ∀ x ∈ ids, x ∈ ids') (hn : nn' = true → nn = true) : ScEff ids' nn' s t :=
  ⟨fun p hp => (h.ri p hp).imp id (hi _), fun h' => h.nm (hn h'), h.nv, h.sz⟩

theorem ScEff.of_rpost {id : Str} {s t : St} (h : RPostR id s t) (nn : Bool) : ScEff [id] nn s t := by
  refine ⟨fun p hp => ?_, fun _ x _ => by rw [h.2.1], fun hv p hp => ?_, h.2.2.1⟩
  · rcases h.2.2.2 p hp with h1 | h1
    · exact .inl h1
    · exact .inr (by simp [h1.1])
  · rw [h.2.1] at hp
    exact Nat.lt_of_lt_of_le (hv p hp) h.2.2.1

theorem ScEff.of_rpost_nil {s t : St} (h : RPostR [] s t) (nn : Bool) : ScEff [] nn s t := by
  refine ⟨fun p hp => ?_, fun _ x _ => by rw [h.2.1], fun hv p hp => ?_, h.2.2.1⟩
  · rcases h.2.2.2 p hp with h1 | h1
    · exact .inl h1
    · exact absurd rfl h1.2
  · rw [h.2.1] at hp
    exact Nat.lt_of_lt_of_le (hv p hp) h.2.2.1

theorem RPostR.of_keeps {id : Str} {s t : St} (h : SEq s t ∧ s.nodes.size ≤ t.nodes.size) : RPostR id s t :=
  ⟨h.1.1, h.1.2.2, h.2, fun p hp => .inl (h.1.2.1 ▸ hp)⟩

theorem keeps_rowAction (r : Row) : Keeps (rowAction r) :=
  Keeps.of_bump fun s => (wp_def _ _ _).mpr (fun a t h => bump_of_rowAction h)

theorem keeps_rowNode (r : Row) (act : Option (Uid × Str)) : Keeps (rowNode r act) :=
  Keeps.of_bump fun s => (wp_def _ _ _).mpr (fun a t h => bump_of_rowNode h)

/-- a row that creates its node -/
theorem newRow_eff (r : Row) (nm : Str) (s : St) :
    wp (newRow r nm) s (fun _ t => ScEff [r.rowId] nm.isEmpty s t ∧ t.stack = s.stack) := by
  rw [wp_def]
  intro _ t h
  obtain ⟨act, s1, n, s2, s3, t', h1, h2, h3, h4, h5⟩ := newRow_run h
  obtain ⟨k0, rfl⟩ := bump_of_rowAction h1
  obtain ⟨k1, rfl⟩ := bump_of_rowNode h2
  have e3 := wp_of_run ((Keeps.forM _ _ (fun x _ => keeps_addRowEdge (.node n.uid) x)).k _) h3
  have e4 := wp_of_run ((keepsr_appendGroup _ r.rowId).k _) h4
  have hsz : s.nodes.size < t'.nodes.size := by
    have a1 := e3.2
    have a2 := e4.2.2.1
    simp only [Array.size_push] at a1
    exact Nat.lt_of_lt_of_le (Nat.lt_of_lt_of_le (Nat.lt_succ_self _) a1) a2
  have hst : t'.stack = s.stack := e4.1.trans e3.1.1
  have hnm : t'.names = s.names := e4.2.1.trans e3.1.2.2
  subst h5
  refine ⟨⟨fun p hp => ?_, fun hn x hx => ?_, fun hv p hp => ?_, Nat.le_of_lt hsz⟩, hst⟩
  · have hp' : p ∈ t'.rowIds := hp
    rcases e4.2.2.2 p hp' with h' | h'
    · have : p ∈ s.rowIds := by
        have e := e3.1.2.1
        exact e ▸ h'
      exact .inl this
    · exact .inr (by simp [h'.1])
  · show lookupIn ((nm, _) :: t'.names) x = _
    have hnm0 : nm = [] := by cases nm <;> simp_all
    rw [lookupIn_cons, if_neg (by show ¬ (nm = x); rw [hnm0]; exact fun e => hx e.symm), hnm]
  · have hp' : p ∈ (nm, s.nodes.size) :: t'.names := hp
    simp only [List.mem_cons] at hp'
    rcases hp' with rfl | hp'
    · exact hsz
    · rw [hnm] at hp'
      exact Nat.lt_trans (hv p hp') hsz

theorem actionRow_eff (r : Row) (s : St) :
    wp (actionRow r) s (fun _ t => ScEff [r.rowId] (r.nodeUuid.isEmpty && r.nodeName.isEmpty) s t ∧
      t.stack = s.stack) := by
  unfold actionRow
  split
  · rw [wp_fail]; trivial
  · dsimp only
    rw [wp_bind, wp_get]
    split
    · refine wp_mono ((keepsr_mergeRow r _ _).k s) ?_
      intro _ t h
      exact ⟨ScEff.of_rpost h _, h.1⟩
    · refine wp_mono (newRow_eff r _ s) ?_
      intro _ t ⟨h, hst⟩
      refine ⟨h.weaken (fun _ hx => hx) ?_, hst⟩
      intro hn
      have : r.nodeUuid.isEmpty = true ∧ r.nodeName.isEmpty = true := by simpa using hn
      simp [this.1, this.2]

theorem parseRow_eff (r : Row) (s : St) :
    wp (parseRow r) s (fun _ t => ScEff [r.rowId] (r.nodeUuid.isEmpty && r.nodeName.isEmpty) s t ∧
      t.stack = s.stack) := by
  unfold parseRow
  dsimp only
  split
  · refine wp_mono ((Keeps.forM _ _ (fun x _ => keeps_addRowEdge _ x)).k s) ?_
    intro _ t h
    exact ⟨ScEff.of_rpost (RPostR.of_keeps h) _, h.1.1⟩
  · split
    · refine wp_mono ((keeps_parseGoto _).k s) ?_
      intro _ t h
      exact ⟨ScEff.of_rpost (RPostR.of_keeps h) _, h.1.1⟩
    · split
      · refine wp_mono ((keepsr_parseNoop _ r.rowId).k s) ?_
        intro _ t h
        exact ⟨ScEff.of_rpost h _, h.1⟩
      · split
        · rw [wp_fail]; trivial
        · exact actionRow_eff { r with edges := dropTrivial r.edges } s

theorem openGroup_eff (edges : List Edge) (starting : Bool) (s : St) :
    wp (openGroup edges starting) s (fun _ t => ScEff [] true s t ∧ ∃ b, t.stack = b :: s.stack) := by
  unfold openGroup
  rw [wp_bind, wp_addGrp, wp_bind, wp_modify]
  split
  · rw [wp_pure]
    exact ⟨⟨fun _ hp => .inl hp, fun _ _ _ => rfl, fun h => h, Nat.le_refl _⟩, _, rfl⟩
  · refine wp_mono ((keepsr_parseNoop _ []).k _) ?_
    intro _ t h
    have h0 := ScEff.of_rpost_nil h true
    exact ⟨⟨h0.ri, h0.nm, h0.nv, h0.sz⟩, _, h.1⟩

theorem closeGroup_eff (id : Str) (s : St) :
    wp (closeGroup id) s (fun _ t => ScEff [id] true s t ∧ ∃ b, s.stack = b :: t.stack) := by
  rw [wp_def]
  intro _ t h
  obtain ⟨b, c, rest, hst, h'⟩ := closeGroup_run h
  have e := wp_of_run ((keepsr_appendGroup b id).k _) h'
  have h0 := ScEff.of_rpost e true
  exact ⟨⟨h0.ri, h0.nm, h0.nv, h0.sz⟩, b, by rw [hst, e.1]⟩

theorem closes_cons (e : Event) (es : List Event) : closes (e :: es) = closes [e] + closes es := by
  cases e <;> simp [closes, Nat.add_comm]

theorem opens_cons (e : Event) (es : List Event) : opens (e :: es) = opens [e] + opens es := by
  cases e <;> simp [opens, Nat.add_comm]

mutual
theorem step_eff : ∀ (e : Event) (s : St), wp (step e) s (fun _ t => ScEff e.defs e.noNames s t ∧
    t.stack.length + closes [e] = s.stack.length + opens [e])
  | .row r, s => by
    unfold step
    refine wp_mono (parseRow_eff r s) ?_
    intro _ t ⟨h, hst⟩
    exact ⟨h, by simp [opens, closes, hst]⟩
  | .openGroup edges st, s => by
    unfold step
    refine wp_mono (openGroup_eff edges st s) ?_
    intro _ t ⟨h, b, hst⟩
    exact ⟨h, by simp [opens, closes, hst]⟩
  | .closeGroup id, s => by
    unfold step
    refine wp_mono (closeGroup_eff id s) ?_
    intro _ t ⟨h, b, hst⟩
    exact ⟨h, by simp [opens, closes, hst]⟩
  | .insert r body, s => by
    rw [wp_def]
    intro _ z h
    unfold step at h
    obtain ⟨p, u, h1, h⟩ := run_bind_ok h
    obtain ⟨rfl, rfl⟩ := run_insertEnter_ok h1
    obtain ⟨_, b₁, h2, h⟩ := run_bind_ok h
    have hb := (wp_of_run (steps_eff body (enterSt s)) h2).1.sz
    obtain ⟨hlen, i, n, x₁, hEN, hn, hEd, hApp⟩ := insertLeave_run h
    have e1 := wp_of_run ((Keeps.forM _ _ (fun x _ => keeps_addRowEdge (.node n.uid) x)).k _) hEd
    have e2 := wp_of_run ((keepsr_appendGroup _ r.rowId).k _) hApp
    have hsz : s.nodes.size ≤ z.nodes.size := by
      have a0 : s.nodes.size ≤ b₁.nodes.size := hb
      have a1 : b₁.nodes.size ≤ x₁.nodes.size := e1.2
      exact Nat.le_trans (Nat.le_trans a0 a1) e2.2.2.1
    have hnm : z.names = s.names := e2.2.1.trans e1.1.2.2
    have hst : z.stack = s.stack := e2.1.trans e1.1.1
    refine ⟨⟨fun p hp => ?_, fun _ x _ => by rw [hnm], fun hv p hp => ?_, hsz⟩, by simp [opens, closes, hst]⟩
    · rcases e2.2.2.2 p hp with h' | h'
      · have e := e1.1.2.1
        exact .inl (e ▸ h')
      · exact .inr (by simp [Event.defs, h'.1])
    · rw [hnm] at hp
      exact Nat.lt_of_lt_of_le (hv p hp) hsz
theorem steps_eff : ∀ (es : List Event) (s : St), wp (steps es) s (fun _ t =>
    ScEff (defsL es) (noNamesL es) s t ∧ t.stack.length + closes es = s.stack.length + opens es)
  | [], s => by
    unfold steps
    rw [wp_pure]
    exact ⟨ScEff.refl _ _ s, rfl⟩
  | e :: es, s => by
    rw [steps, wp_bind]
    refine wp_mono (step_eff e s) ?_
    intro _ u ⟨h1, d1⟩
    refine wp_mono (steps_eff es u) ?_
    intro _ t ⟨h2, d2⟩
    refine ⟨(h1.trans h2).weaken (fun _ hx => hx) (fun hn => by simpa [noNamesL] using hn), ?_⟩
    rw [closes_cons, opens_cons]
    omega
end

/-- the row ids a nested parser knows when it is done are those its events define -/
theorem nested_keys {s₀ v : St} {es : List Event} (h : (steps es).run (enterSt s₀) = .ok ((), v)) :
    ∀ p ∈ v.rowIds, p.1 ∈ defsL es := by
  intro p hp
  rcases (wp_of_run (steps_eff es (enterSt s₀)) h).1.ri p hp with h' | h'
  · exact absurd h' (by show p ∉ []; simp)
  · exact h'

/-- named nodes exist -/
theorem names_valid_run {na nt : List Str} {es : List Event} {s₀ : St}
    (h : (steps es).run (initSt na nt) = .ok ((), s₀)) : ∀ p ∈ s₀.names, p.2 < s₀.nodes.size :=
  (wp_of_run (steps_eff es (initSt na nt)) h).1.nv (by intro p hp; simp [initSt] at hp)

/-- as many blocks closed as opened: the parser is back at top level -/
theorem top_of_balanced {na nt : List Str} {es : List Event} {s₀ : St}
    (h : (steps es).run (initSt na nt) = .ok ((), s₀)) (hb : opens es = closes es) : s₀.stack.length = 1 := by
  have := (wp_of_run (steps_eff es (initSt na nt)) h).2
  have e : (initSt na nt).stack.length = 1 := rfl
  omega

end Rpft.Compile
