/-
Kind and router-lessness of a node never change: whatever the parser does later, a basic node
without router stays one (its exits may be re-targeted, actions added, a router node put BEHIND it).
-/
import Rpft.Lemmas.CompileInsertFrame
set_option linter.unusedSimpArgs false
set_option linter.unusedVariables false
namespace Rpft.Compile
open Rpft Function

/-- what stays of a node -/
def KR (n n' : NodeM) : Prop := n'.kind = n.kind ∧ (n.router = none → n'.router = none)

theorem KR.refl (n : NodeM) : KR n n := ⟨rfl, fun h => h⟩
theorem KR.trans {a b c : NodeM} (h : KR a b) (h' : KR b c) : KR a c := ⟨h'.1.trans h.1, fun e => h'.2 (h.2 e)⟩

/-- every node is still there, of the same kind, and without router if it had none -/
def NK (s t : St) : Prop := ∀ (i : Nat) (n : NodeM), s.nodes[i]? = some n → ∃ n', t.nodes[i]? = some n' ∧ KR n n'

theorem NK.refl (s : St) : NK s s := fun i n h => ⟨n, h, KR.refl n⟩
theorem NK.trans {s t u : St} (h : NK s t) (h' : NK t u) : NK s u := by
  intro i n hn
  obtain ⟨n1, h1, k1⟩ := h i n hn
  obtain ⟨n2, h2, k2⟩ := h' i n1 h1
  exact ⟨n2, h2, k1.trans k2⟩
theorem NK.of_nodes {s t : St} (h : t.nodes = s.nodes) : NK s t := fun i n hn => ⟨n, by rw [h]; exact hn, KR.refl n⟩
theorem NK.push (s : St) (m : NodeM) {t : St} (h : t.nodes = s.nodes.push m) : NK s t :=
  fun i n hn => ⟨n, by rw [h]; exact getElem?_push_lt' hn, KR.refl n⟩
theorem NK.set {s t : St} {i : Nat} {n n' : NodeM} (hn : s.nodes[i]? = some n) (hk : KR n n')
    (h : t.nodes = s.nodes.setIfInBounds i n') : NK s t := by
  intro j m hm
  rw [h, Array.getElem?_setIfInBounds]
  by_cases hij : i = j
  · subst hij
    rw [hn] at hm; injection hm with hm; subst hm
    rw [if_pos rfl, if_pos (Array.getElem?_eq_some_iff.mp hn).1]
    exact ⟨n', rfl, hk⟩
  · rw [if_neg hij]; exact ⟨m, hm, KR.refl m⟩

theorem NK.set2 {s s1 : St} {i : Nat} {n : NodeM} (hn : s.nodes[i]? = some n) (n' : NodeM) (hk : KR n n')
    (h1 : s1.nodes = s.nodes) : NK s { s1 with nodes := s1.nodes.setIfInBounds i n' } :=
  NK.set hn hk (by rw [h1])

theorem NK.push_set {s t : St} {i : Nat} {n m n' : NodeM} (hn : s.nodes[i]? = some n)
    (h : t.nodes = (s.nodes.push m).setIfInBounds i n') (hk : KR n n') : NK s t :=
  NK.trans (NK.push s m (t := { s with nodes := s.nodes.push m }) rfl)
    (NK.set (s := { s with nodes := s.nodes.push m }) (getElem?_push_lt' hn) hk h)

structure KeepsN {α} (m : M α) : Prop where
  k : ∀ s, wp m s (fun _ t => NK s t)

theorem KeepsN.of_ro {α} {m : M α} (h : ReadOnly m) : KeepsN m := ⟨fun s => wp_ro h s _ (fun _ => NK.refl s)⟩
theorem KeepsN.pure {α} (a : α) : KeepsN (pure a : M α) := ⟨fun s => by rw [wp_pure]; exact NK.refl s⟩
theorem KeepsN.fail {α} (e : Err) : KeepsN (fail e : M α) := ⟨fun s => by rw [wp_fail]; trivial⟩
theorem KeepsN.bind {α β} {m : M α} {f : α → M β} (h1 : KeepsN m) (h2 : ∀ a, KeepsN (f a)) : KeepsN (m >>= f) := by
  constructor
  intro s
  rw [wp_bind]
  refine wp_mono (h1.k s) ?_
  intro a s1 e1
  refine wp_mono ((h2 a).k s1) ?_
  intro b s2 e2
  exact e1.trans e2
theorem KeepsN.forM {β} (l : List β) (f : β → M PUnit) (hf : ∀ x ∈ l, KeepsN (f x)) : KeepsN (l.forM f) := by
  constructor
  intro s
  exact wp_forM (fun t => NK s t) l f (by
    intro x hx s1 h1
    refine wp_mono ((hf x hx).k s1) ?_
    intro _ s2 h2
    exact h1.trans h2) s (NK.refl s)
theorem KeepsN.of_bump {α} {m : M α} (h : ∀ s, wp m s (fun _ t => ∃ k, Bump s t k)) : KeepsN m := by
  constructor
  intro s
  refine wp_mono (h s) ?_
  intro _ t ⟨k, hk⟩
  rw [hk]
  exact NK.of_nodes rfl

theorem keepn_fresh : KeepsN fresh := ⟨fun s => by rw [wp_fresh']; exact NK.of_nodes rfl⟩
theorem keepn_getNode (i : Nat) : KeepsN (getNode i) := KeepsN.of_ro (ro_getNode i)
theorem keepn_getGrp (i : Nat) : KeepsN (getGrp i) := KeepsN.of_ro (ro_getGrp i)
theorem keepn_setGrp (i : Nat) (g : Grp) : KeepsN (setGrp i g) := ⟨fun s => by rw [wp_setGrp]; exact NK.of_nodes rfl⟩
theorem keepn_addNode (n : NodeM) : KeepsN (addNode n) := ⟨fun s => by rw [wp_addNode]; exact NK.push s n rfl⟩
theorem keepn_addGrp (g : Grp) : KeepsN (addGrp g) := ⟨fun s => by rw [wp_addGrp]; exact NK.of_nodes rfl⟩
theorem keepn_newSwitch (o : Str) (rn : Option Str) (w : Option Nat) : KeepsN (newSwitch o rn w) :=
  KeepsN.of_bump fun s => wp_mono (newSwitch_spec o rn w s) (fun _ _ ⟨k, hk, _⟩ => ⟨k, hk⟩)
theorem keepn_newRouterNode (u : Uid) (k : NodeKind) (r : RouterM) : KeepsN (newRouterNode u k r) := ⟨fun s => by
  rw [wp_newRouterNode]; exact NK.of_nodes rfl⟩

syntax "keepn_leaf" : tactic
macro_rules | `(tactic| keepn_leaf) => `(tactic| first
  | exact KeepsN.pure _ | exact KeepsN.fail _ | assumption
  | exact keepn_fresh | exact keepn_getNode _ | exact keepn_getGrp _
  | exact keepn_setGrp _ _ | exact keepn_addNode _ | exact keepn_addGrp _ | exact keepn_newSwitch _ _ _
  | exact keepn_newRouterNode _ _ _
  | exact KeepsN.of_ro (ro_hasLoose _ _) | exact KeepsN.of_ro (ro_groupOfEdge _) | exact KeepsN.of_ro ro_fuelOf
  | exact KeepsN.of_ro (ro_lookupRow _) | exact KeepsN.of_ro (ro_entryNode _ _) | exact KeepsN.of_ro ro_mostRecent)

macro "keepn" : tactic => `(tactic| repeat' (first
  | (with_reducible keepn_leaf) | (with_reducible apply KeepsN.bind) | intro _ | split | dsimp only))

/-! the operations that overwrite a node -/

theorem connectLoose_KR (n : NodeM) (d : Dest) : KR n (n.connectLoose d) := by
  unfold NodeM.connectLoose
  cases hr : n.router with
  | none =>
    simp only []
    split
    · exact ⟨rfl, fun _ => rfl⟩
    · exact ⟨rfl, fun _ => hr⟩
  | some rt => cases rt <;> exact ⟨rfl, fun e => by rw [hr] at e; cases e⟩

theorem keepn_connectNode (i : Nat) (d : Dest) : KeepsN (connectNode i d) := by
  constructor
  intro s
  unfold connectNode
  rw [wp_bind, wp_getNode]
  intro n hn
  rw [wp_setNode]
  exact NK.set2 hn _ (connectLoose_KR n d) rfl
macro_rules | `(tactic| keepn_leaf) => `(tactic| exact keepn_connectNode _ _)

theorem keepn_updSwitch (i : Nat) (d : Dest) (f : SwitchR → M SwitchR) (hf : SwUpd d f) : KeepsN (updSwitch i f) := by
  constructor
  intro s
  unfold updSwitch
  rw [wp_bind, wp_getNode]
  intro n hn
  split
  · rename_i r hr
    rw [wp_bind]
    refine wp_mono (hf r s) ?_
    intro r' s1 ⟨k, hb, _⟩
    rw [wp_setNode, hb]
    exact NK.set2 hn _ ⟨rfl, fun e => by rw [hr] at e; cases e⟩ rfl
  · rw [wp_fail]; trivial

theorem keepn_rowExitBlank (i : Nat) (n : NodeM) (d : Dest) :
    ∀ s, s.nodes[i]? = some n → wp (rowExitBlank i n d) s (fun _ t => NK s t) := by
  intro s hn
  unfold rowExitBlank
  split
  · rw [wp_bind, wp_fresh', wp_setNode]
    exact NK.set2 hn _ ⟨rfl, fun e => e⟩ rfl
  · rw [wp_fail]; trivial
  · exact (keepn_updSwitch i d _ (swUpd_setDflt d)).k s

theorem keepn_rowExitEnter (i : Nat) (c : Cond) (d : Dest) : KeepsN (rowExitEnter i c d) := by
  constructor
  intro s
  unfold rowExitEnter
  dsimp only
  split
  · exact (keepn_updSwitch i d _ (swUpd_byName _ d)).k s
  · split
    · exact (keepn_updSwitch i d _ (swUpd_setDflt d)).k s
    · rw [wp_fail]; trivial
macro_rules | `(tactic| keepn_leaf) => `(tactic| exact keepn_rowExitEnter _ _ _)

theorem keepn_rowExitHook (i : Nat) (c : Cond) (d : Dest) : KeepsN (rowExitHook i c d) := by
  constructor
  intro s
  unfold rowExitHook
  dsimp only
  split
  · exact (keepn_updSwitch i d _ (swUpd_byName _ d)).k s
  · split
    · exact (keepn_updSwitch i d _ (swUpd_setDflt d)).k s
    · rw [wp_fail]; trivial
macro_rules | `(tactic| keepn_leaf) => `(tactic| exact keepn_rowExitHook _ _ _)

theorem keepn_rowExitNoResp (i : Nat) (n : NodeM) (d : Dest) :
    ∀ s, s.nodes[i]? = some n → wp (rowExitNoResp i n d) s (fun _ t => NK s t) := by
  intro s hn
  unfold rowExitNoResp
  split
  · rename_i r hr
    split
    · rw [wp_setNode]
      exact NK.set2 hn _ ⟨rfl, fun e => by rw [hr] at e; cases e⟩ rfl
    · rw [wp_pure]; exact NK.refl s
  · rw [wp_pure]; exact NK.refl s

theorem keepn_noopRouterExit (j : Nat) (d : Dest) (c : Cond) : KeepsN (noopRouterExit j d c) := by
  constructor
  intro s
  unfold noopRouterExit
  split
  · exact (keepn_updSwitch j d _ (swUpd_setDflt d)).k s
  · exact (keepn_updSwitch j d _ (swUpd_addChoice _ _ _ _ d false)).k s
macro_rules | `(tactic| keepn_leaf) => `(tactic| exact keepn_noopRouterExit _ _ _)

theorem keepn_attachRowNode' (g : Nat) (nodes : List Nat) (rowType : Str) (rn : NodeM) :
    KeepsN (attachRowNode g nodes rowType rn) := by
  unfold attachRowNode; keepn

theorem keepn_routerBehind (g : Nat) (nodes : List Nat) (rowType : Str) (i : Nat) (n : NodeM)
    (operandV : Str) (waitT : Option Nat) :
    ∀ s, s.nodes[i]? = some n → wp (routerBehind g nodes rowType i n operandV waitT) s
      (fun a t => NK s t ∧ t.nodes[a.1]? = some a.2) := by
  intro s hn
  unfold routerBehind
  rw [wp_bind, wp_fresh']
  split
  · rw [wp_fail]; trivial
  · rw [wp_bind]
    refine wp_mono (newSwitch_spec operandV none waitT _) ?_
    intro sw s1 ⟨k, hb, _⟩
    rw [wp_bind, wp_newRouterNode, wp_bind]
    unfold attachRowNode
    rw [wp_bind, wp_addNode, wp_bind, wp_setGrp, wp_pure, wp_bind, wp_fresh', wp_bind, wp_setNode, wp_pure, hb]
    refine ⟨NK.push_set hn (by rfl) (by exact ⟨rfl, fun e => e⟩), ?_⟩
    have hlt : i < s.nodes.size := (Array.getElem?_eq_some_iff.mp hn).1
    show ((s.nodes.push _).setIfInBounds i _)[s.nodes.size]? = _
    rw [Array.getElem?_setIfInBounds, if_neg (by omega)]
    simp

theorem keepn_nodeAddChoice (i : Nat) (n : NodeM) (operandV ctype : Str) (args : List (Option Str)) (c : Cond)
    (d : Dest) : ∀ s, s.nodes[i]? = some n → wp (nodeAddChoice i n operandV ctype args c d) s (fun _ t => NK s t) := by
  intro s hn
  unfold nodeAddChoice
  split
  · rename_i r hr
    rw [wp_bind]
    refine wp_mono (addChoice_spec r _ _ _ _ d false s) ?_
    intro r' s1 ⟨k, hb, _⟩
    rw [wp_setNode, hb]
    exact NK.set2 hn _ ⟨rfl, fun e => by rw [hr] at e; cases e⟩ rfl
  · rename_i r hr
    rw [wp_bind]
    refine wp_mono (randomAddChoice_spec r _ d s) ?_
    intro r' s1 ⟨k, hb, _⟩
    rw [wp_setNode, hb]
    exact NK.set2 hn _ ⟨rfl, fun e => by rw [hr] at e; cases e⟩ rfl
  · rw [wp_fail]; trivial

/-! the rest, mechanically -/

theorem keepn_connectLoose (d : Dest) : ∀ fuel g, KeepsN (connectLoose fuel g d) := by
  intro fuel
  induction fuel with
  | zero => intro g; unfold connectLoose; keepn
  | succ f ih =>
    intro g
    unfold connectLoose
    keepn
    · exact KeepsN.forM _ _ (fun x _ => ih x.1)
    · exact KeepsN.forM _ _ (fun x _ => ih x)
macro_rules | `(tactic| keepn_leaf) => `(tactic| exact keepn_connectLoose _ _ _)


theorem keepn_setCatDestByName (r : SwitchR) (name : Str) (d : Dest) : KeepsN (setCatDestByName r name d) := by
  unfold setCatDestByName; keepn
macro_rules | `(tactic| keepn_leaf) => `(tactic| exact keepn_setCatDestByName _ _ _)

theorem keepn_setDfltM (d : Dest) (r : SwitchR) : KeepsN (setDfltM d r) := by unfold setDfltM; keepn
macro_rules | `(tactic| keepn_leaf) => `(tactic| exact keepn_setDfltM _ _)





theorem keepn_attachRowNode (g : Nat) (nodes : List Nat) (rowType : Str) (rn : NodeM) :
    KeepsN (attachRowNode g nodes rowType rn) := by
  unfold attachRowNode; keepn
macro_rules | `(tactic| keepn_leaf) => `(tactic| exact keepn_attachRowNode _ _ _ _)



theorem keepn_rowExitCond (g : Nat) (nodes : List Nat) (rowType : Str) (i : Nat) (n : NodeM) (d : Dest)
    (c : Cond) : ∀ s, s.nodes[i]? = some n → wp (rowExitCond g nodes rowType i n d c) s (fun _ t => NK s t) := by
  intro s hn
  unfold rowExitCond
  dsimp only
  rw [wp_bind]
  split
  · refine wp_mono (keepn_routerBehind g nodes rowType i n _ _ s hn) ?_
    intro a t ⟨h1, h2⟩
    refine wp_mono (keepn_nodeAddChoice a.1 a.2 _ _ _ c d t h2) ?_
    intro _ u h3
    exact h1.trans h3
  · rw [wp_pure]
    exact keepn_nodeAddChoice i n _ _ _ c d s hn

theorem keepn_rowAddExit (g : Nat) (nodes : List Nat) (rowType : Str) (d : Dest) (c : Cond) :
    KeepsN (rowAddExit g nodes rowType d c) := by
  constructor
  intro s
  unfold rowAddExit
  split
  · rw [wp_fail]; trivial
  · rename_i i hi
    rw [wp_bind, wp_getNode]
    intro n hn
    split
    · exact keepn_rowExitBlank i n d s hn
    · split
      · exact (keepn_rowExitEnter i c d).k s
      · split
        · exact (keepn_rowExitHook i c d).k s
        · split
          · exact keepn_rowExitNoResp i n d s hn
          · exact keepn_rowExitCond g nodes rowType i n d c s hn
macro_rules | `(tactic| keepn_leaf) => `(tactic| exact keepn_rowAddExit _ _ _ _ _)

theorem keepn_connectIfLoose (fuel : Nat) (d : Dest) (ch : Nat) : KeepsN (connectIfLoose fuel d ch) := by
  unfold connectIfLoose; keepn
macro_rules | `(tactic| keepn_leaf) => `(tactic| exact keepn_connectIfLoose _ _ _)

theorem keepn_attachNoopRouter (g : Nat) (parents : List (Nat × Cond)) (rn : NodeM) :
    KeepsN (attachNoopRouter g parents rn) := by
  unfold attachNoopRouter; keepn
macro_rules | `(tactic| keepn_leaf) => `(tactic| exact keepn_attachNoopRouter _ _ _)

theorem keepn_addExit : ∀ fuel g d c, KeepsN (addExit fuel g d c) := by
  intro fuel
  induction fuel with
  | zero => intro g d c; unfold addExit; keepn
  | succ f ih =>
    intro g d c
    unfold addExit
    keepn
    · exact KeepsN.forM _ _ (fun x _ => keepn_connectIfLoose _ _ _)
    · exact KeepsN.forM _ _ (fun x _ => ih x.1 d x.2)
    · exact KeepsN.forM _ _ (fun x _ => ih x.1 _ x.2)
macro_rules | `(tactic| keepn_leaf) => `(tactic| exact keepn_addExit _ _ _ _)

theorem keepn_addRowEdge (d : Dest) (e : Edge) : KeepsN (addRowEdge d e) := by
  unfold addRowEdge; keepn
macro_rules | `(tactic| keepn_leaf) => `(tactic| exact keepn_addRowEdge _ _)

theorem keepn_noopEdge (g : Nat) (e : Edge) : KeepsN (noopEdge g e) := by
  unfold noopEdge; keepn
macro_rules | `(tactic| keepn_leaf) => `(tactic| exact keepn_noopEdge _ _)

theorem keepn_gotoEdge (ed : Edge × Str) : KeepsN (gotoEdge ed) := by
  unfold gotoEdge; keepn
macro_rules | `(tactic| keepn_leaf) => `(tactic| exact keepn_gotoEdge _)

theorem keepn_parseGoto (r : Row) : KeepsN (parseGoto r) := by
  unfold parseGoto
  dsimp only
  generalize (if r.dests.length = 1 then List.replicate r.edges.length (r.dests.headD []) else r.dests) = ds
  split
  · exact KeepsN.fail _
  · exact KeepsN.forM _ _ (fun x _ => keepn_gotoEdge x)


end Rpft.Compile
