/-
Lemmas for JSON workbook files (`Rpft/Sheets.lean`, section JsonFiles): the text `to_json` writes
has no CR (so text mode reads it unchanged), the `book` value has distinct keys at every level,
`contentOf` inverts `contentJV`, and `sheetsOfMembers` runs `readJson` sheet by sheet.
-/
import Rpft.Lemmas.Sheets
import Rpft.Lemmas.JsonText
set_option linter.unusedSimpArgs false
set_option linter.unusedVariables false
namespace Rpft.Sheets
open Rpft Rpft.JsonText

/-! ### no CR in the written text -/

theorem hexDigit_noCR : ∀ n : Fin 16, hexDigit n.val ≠ '\r' := by decide

theorem escapeChar_noCR (c : Char) : ∀ x ∈ escapeChar c, x ≠ '\r' := by
  intro x hx
  unfold escapeChar at hx
  repeat' split at hx
  all_goals (simp only [List.mem_cons, List.mem_singleton, List.not_mem_nil, or_false] at hx)
  all_goals (try (rcases hx with h | h <;> subst h <;> decide))
  · rename_i h1 h2 h3 h4 h5 h6 h7 hlt
    rcases hx with h | h | h | h | h | h <;> try (subst h; decide)
    · subst h
      exact hexDigit_noCR ⟨c.toNat / 16, by omega⟩
    · subst h
      exact hexDigit_noCR ⟨c.toNat % 16, Nat.mod_lt _ (by decide)⟩
  · rename_i h1 h2 h3 h4 h5 h6 h7 hlt
    subst hx
    exact h6

theorem encodeString_noCR (s : Str) : ∀ x ∈ encodeString s, x ≠ '\r' := by
  intro x hx
  simp only [encodeString, List.mem_cons, List.mem_append, List.mem_flatMap, List.mem_singleton,
    List.not_mem_nil, or_false] at hx
  rcases hx with h | ⟨c, _, hc⟩ | h
  · subst h; decide
  · exact escapeChar_noCR c x hc
  · subst h; decide

theorem nl_noCR (lvl : Nat) : ∀ x ∈ nl lvl, x ≠ '\r' := by
  intro x hx
  simp only [nl, List.mem_cons, List.mem_replicate] at hx
  rcases hx with h | ⟨_, h⟩ <;> subst h <;> decide

mutual
theorem dumpValue_noCR : ∀ (v : JV) (lvl : Nat), ∀ x ∈ dumpValue lvl v, x ≠ '\r'
  | .str s, lvl => by rw [dumpValue]; exact encodeString_noCR s
  | .arr .nil, lvl => by intro x hx; simp [dumpValue] at hx; rcases hx with h | h <;> subst h <;> decide
  | .arr (.cons y ys), lvl => by
    intro x hx
    rw [dumpValue_arr_cons] at hx
    simp only [List.mem_cons, List.mem_append, List.mem_singleton, List.not_mem_nil, or_false] at hx
    rcases hx with h | ((h | h) | h) | h
    · subst h; decide
    · exact nl_noCR _ x h
    · exact dumpElems_noCR (.cons y ys) _ x h
    · exact nl_noCR _ x h
    · subst h; decide
  | .obj .nil, lvl => by intro x hx; simp [dumpValue] at hx; rcases hx with h | h <;> subst h <;> decide
  | .obj (.cons k v ms), lvl => by
    intro x hx
    rw [dumpValue_obj_cons] at hx
    simp only [List.mem_cons, List.mem_append, List.mem_singleton, List.not_mem_nil, or_false] at hx
    rcases hx with h | ((h | h) | h) | h
    · subst h; decide
    · exact nl_noCR _ x h
    · exact dumpMembers_noCR (.cons k v ms) _ x h
    · exact nl_noCR _ x h
    · subst h; decide
theorem dumpElems_noCR : ∀ (xs : JVs) (lvl : Nat), ∀ x ∈ dumpElems lvl xs, x ≠ '\r'
  | .nil, lvl => by intro x hx; simp [dumpElems] at hx
  | .cons y .nil, lvl => by rw [dumpElems]; exact dumpValue_noCR y lvl
  | .cons y (.cons z zs), lvl => by
    intro x hx
    rw [dumpElems_cons_cons] at hx
    simp only [List.mem_cons, List.mem_append] at hx
    rcases hx with h | h | h | h
    · exact dumpValue_noCR y lvl x h
    · subst h; decide
    · exact nl_noCR _ x h
    · exact dumpElems_noCR (.cons z zs) lvl x h
theorem dumpMembers_noCR : ∀ (ms : JMs) (lvl : Nat), ∀ x ∈ dumpMembers lvl ms, x ≠ '\r'
  | .nil, lvl => by intro x hx; simp [dumpMembers] at hx
  | .cons k v .nil, lvl => by
    intro x hx
    rw [dumpMembers] at hx
    simp only [List.mem_cons, List.mem_append] at hx
    rcases hx with h | h | h | h
    · exact encodeString_noCR k x h
    · subst h; decide
    · subst h; decide
    · exact dumpValue_noCR v lvl x h
  | .cons k v (.cons k2 v2 ms), lvl => by
    intro x hx
    rw [dumpMembers_cons_cons] at hx
    simp only [List.mem_cons, List.mem_append] at hx
    rcases hx with h | h | h | h | h | h | h
    · exact encodeString_noCR k x h
    · subst h; decide
    · subst h; decide
    · exact dumpValue_noCR v lvl x h
    · subst h; decide
    · exact nl_noCR _ x h
    · exact dumpMembers_noCR (.cons k2 v2 ms) lvl x h
end

theorem replace1_noOcc (c : Char) (r : Str) : ∀ (s : Str), c ∉ s → replace1 c r s = s
  | [], _ => rfl
  | x :: s, h => by
    have hx : x ≠ c := fun e => h (by simp [e])
    have hs : c ∉ s := fun e => h (by simp [e])
    have ih := replace1_noOcc c r s hs
    simp only [replace1] at ih ⊢
    simp [hx, ih]

theorem replace2_noOcc (a b : Char) (r : Str) : ∀ (s : Str), a ∉ s → replace2 a b r s = s
  | [], _ => rfl
  | [x], _ => rfl
  | x :: y :: rest, h => by
    have hx : x ≠ a := fun e => h (by simp [e])
    have hs : a ∉ y :: rest := fun e => h (by simp [e])
    have ih := replace2_noOcc a b r (y :: rest) hs
    simp [replace2, hx, ih]

theorem universalNewlines_noCR (s : Str) (h : ∀ x ∈ s, x ≠ '\r') : universalNewlines s = s := by
  have hn : '\r' ∉ s := fun hm => h _ hm rfl
  unfold universalNewlines
  rw [replace2_noOcc _ _ _ s hn, replace1_noOcc _ _ s hn]

/-! ### the `book` value has distinct keys everywhere -/

theorem jmKeys_ofList : ∀ (l : List (Str × JV)), jmKeys (jmsOfList l) = l.map Prod.fst
  | [] => rfl
  | (k, v) :: l => by simp [jmsOfList, jmKeys, jmKeys_ofList l]

theorem ukMs_ofList : ∀ (l : List (Str × JV)), (∀ p ∈ l, ukV p.2) → ukMs (jmsOfList l)
  | [], _ => by simp [jmsOfList, ukMs]
  | (k, v) :: l, h => by
    simp only [jmsOfList, ukMs]
    exact ⟨h (k, v) (by simp), ukMs_ofList l (fun p hp => h p (by simp [hp]))⟩

theorem ukVs_ofList : ∀ (l : List JV), (∀ x ∈ l, ukV x) → ukVs (jvsOfList l)
  | [], _ => by simp [jvsOfList, ukVs]
  | x :: l, h => by
    simp only [jvsOfList, ukVs]
    exact ⟨h x (by simp), ukVs_ofList l (fun y hy => h y (by simp [hy]))⟩

theorem ukV_strRow (r : List (Str × Str)) (h : (r.map Prod.fst).Nodup) :
    ukV (.obj (jmsOfList (r.map (fun kv => (kv.1, JV.str kv.2))))) := by
  simp only [ukV]
  refine ⟨?_, ukMs_ofList _ ?_⟩
  · rw [jmKeys_ofList, List.map_map]
    exact h
  · intro p hp
    simp only [List.mem_map] at hp
    obtain ⟨kv, _, rfl⟩ := hp
    simp [ukV]

theorem ukV_strList (r : List Str) : ukV (.arr (jvsOfList (r.map JV.str))) := by
  simp only [ukV]
  apply ukVs_ofList
  intro x hx
  simp only [List.mem_map] at hx
  obtain ⟨c, _, rfl⟩ := hx
  simp [ukV]

theorem ukV_content (s : Sheet) (hrect : ∀ r ∈ s.rows, r.length = s.headers.length)
    (hnd : s.headers.Nodup) : ukV (contentJV (toJson s)) := by
  unfold toJson tableDict
  split
  · split
    · simp [contentJV, jvsOfList, ukV, ukVs]
    · simp only [contentJV, ukV]
      apply ukVs_ofList
      intro x hx
      simp only [List.mem_map] at hx
      obtain ⟨r, _, rfl⟩ := hx
      exact ukV_strList r
  · simp only [contentJV, ukV]
    apply ukVs_ofList
    intro x hx
    simp only [List.mem_map] at hx
    obtain ⟨r', ⟨r, hr, rfl⟩, rfl⟩ := hx
    apply ukV_strRow
    have hfst : (s.headers.zip r).map Prod.fst = s.headers :=
      List.map_fst_zip (by rw [hrect r hr]; exact Nat.le_refl _)
    rw [odOfPairs_nodup _ (by rw [hfst]; exact hnd), hfst]
    exact hnd

theorem ukV_book (w : Workbook) (hn : (w.map Sheet.name).Nodup)
    (h : ∀ s ∈ w, (∀ r ∈ s.rows, r.length = s.headers.length) ∧ s.headers.Nodup) :
    ukV (bookJV w) := by
  simp only [bookJV, ukV, ukMs, jmKeys]
  refine ⟨by decide, ⟨by decide, trivial, trivial⟩, ⟨?_, ?_⟩, trivial⟩
  · rw [jmKeys_ofList, List.map_map]
    exact hn
  · apply ukMs_ofList
    intro p hp
    simp only [List.mem_map] at hp
    obtain ⟨s, hs, rfl⟩ := hp
    exact ukV_content s (h s hs).1 (h s hs).2

/-! ### `contentOf` inverts `contentJV` -/

theorem strMembers_ofList : ∀ (r : List (Str × Str)),
    strMembers (jmsOfList (r.map (fun kv => (kv.1, JV.str kv.2)))) = some r
  | [] => rfl
  | (k, v) :: r => by simp [jmsOfList, strMembers, strMembers_ofList r]

theorem strCells_ofList : ∀ (r : List Str), strCells (jvsOfList (r.map JV.str)) = some r
  | [] => rfl
  | c :: r => by simp [jvsOfList, strCells, strCells_ofList r]

theorem objRows_ofList : ∀ (rows : List (List (Str × Str))),
    objRows (jvsOfList (rows.map (fun r => JV.obj (jmsOfList (r.map (fun kv => (kv.1, JV.str kv.2)))))))
      = some rows
  | [] => rfl
  | r :: rows => by simp [jvsOfList, objRows, strMembers_ofList r, objRows_ofList rows]

theorem listRows_ofList : ∀ (rows : List (List Str)),
    listRows (jvsOfList (rows.map (fun r => JV.arr (jvsOfList (r.map JV.str))))) = some rows
  | [] => rfl
  | r :: rows => by simp [jvsOfList, listRows, strCells_ofList r, listRows_ofList rows]

theorem contentOf_contentJV (c : JContent) (h : c ≠ .lists []) : contentOf (contentJV c) = some c := by
  cases c with
  | objs rows =>
    cases rows with
    | nil => rfl
    | cons r rows =>
      have := objRows_ofList (r :: rows)
      simp only [List.map_cons, jvsOfList] at this
      simp [contentJV, jvsOfList, contentOf, this]
  | lists rows =>
    cases rows with
    | nil => exact absurd rfl h
    | cons r rows =>
      have := listRows_ofList (r :: rows)
      simp only [List.map_cons, jvsOfList] at this
      simp [contentJV, jvsOfList, contentOf, this]

theorem toJson_ne_lists_nil (s : Sheet) : toJson s ≠ .lists [] := by
  unfold toJson tableDict
  split
  · split
    · intro h; cases h
    · rename_i hr
      intro h
      have h2 : s.rows = [] := by injection h
      rw [h2] at hr
      simp at hr
  · intro h; cases h

/-- sheet by sheet: whatever `JSONSheetReader` makes of each sheet's `table.dict` (`g s`), the loop
over the members of the book delivers those, in order -/
theorem sheetsOfMembers_book_gen (g : Sheet → Sheet) : ∀ (w : Workbook),
    (∀ s ∈ w, readJsonSheet s.name (toJson s) = .ok (g s)) →
    sheetsOfMembers (jmsOfList (w.map (fun s => (s.name, contentJV (toJson s))))) = .ok (w.map g)
  | [], _ => rfl
  | s :: w, h => by
    have ih := sheetsOfMembers_book_gen g w (fun x hx => h x (by simp [hx]))
    simp [jmsOfList, sheetsOfMembers, contentOf_contentJV _ (toJson_ne_lists_nil s), h s (by simp), ih]

theorem sheetsOfMembers_book (w : Workbook) (h : ∀ s ∈ w, readJsonSheet s.name (toJson s) = .ok s) :
    sheetsOfMembers (jmsOfList (w.map (fun s => (s.name, contentJV (toJson s))))) = .ok w := by
  have := sheetsOfMembers_book_gen id w h
  simpa using this

end Rpft.Sheets
