/-
C18, nested case: the loops of `model_from_headers_rec` on the rendered headers of records,
indexed lists and lists of records (any depth).  Core Lean only.

Plan: a header is *classified* (`classify`: simple field / complex `key.sub` / error), the
first loop is a fold over the classes (`pass1I`), the rendered headers of a field list are
classified as `itemsOf` (the only place where strings are looked at); everything after that
is list reasoning.
-/
import Rpft.Lemmas.Infer
set_option linter.unusedSimpArgs false
set_option linter.unusedVariables false
namespace Rpft.Infer
open Rpft

/-! ### more string facts -/

theorem takeUntil_prefix {c : Char} : ∀ {a : Str} (b : Str), c ∉ a →
    takeUntil c (a ++ b) = a ++ takeUntil c b
  | [], b, _ => by simp
  | x :: a, b, h => by
    have hx : x ≠ c := fun e => h (by simp [e])
    have hs : c ∉ a := fun e => h (by simp [e])
    simp [takeUntil, hx, takeUntil_prefix b hs]

theorem mem_rstrip {ws : Char → Bool} {c : Char} (hc : ws c = false) :
    ∀ {s : Str}, c ∈ s → c ∈ rstrip ws s
  | x :: r, h => by
    rcases List.mem_cons.mp h with e | e
    · subst e
      rw [rstrip]
      split
      · simp [hc]
      · simp
    · have ih := mem_rstrip hc e
      rw [rstrip]
      split
      · next hnil => rw [hnil] at ih; cases ih
      · exact List.mem_cons_of_mem _ ih

theorem mem_lstrip {ws : Char → Bool} {c : Char} (hc : ws c = false) :
    ∀ {s : Str}, c ∈ s → c ∈ lstrip ws s
  | x :: r, h => by
    unfold lstrip
    rw [List.dropWhile_cons]
    split
    · next hx =>
      rcases List.mem_cons.mp h with e | e
      · subst e; rw [hc] at hx; cases hx
      · exact mem_lstrip hc e
    · exact h

theorem mem_strip {ws : Char → Bool} {c : Char} (hc : ws c = false) {s : Str} (h : c ∈ s) :
    c ∈ strip ws s := mem_rstrip hc (mem_lstrip hc h)

/-! ### classification of one header -/

inductive Cls where
  | simple (f : Field)
  | cx (k sub : Str)
  | bad (e : Err)

/-- what the first loop does with one header -/
def classify (h : Str) : Cls :=
  match (if (getFieldName h).contains sepField then splitFirst sepField h else none) with
  | some (k, sub) => .cx k sub
  | none =>
    match parseHeaderAnnotations h with
    | .ok td => .simple (getFieldName h, td)
    | .error e => .bad e

/-- the first loop as a fold over the classes -/
def pass1I : List Cls → List Field × List (Str × List Str) →
    Except Err (List Field × List (Str × List Str))
  | [], acc => .ok acc
  | .cx k s :: is, (F, C) => pass1I is (F, dictAppendTo C k s)
  | .simple f :: is, (F, C) => pass1I is (dictSet F f.1 f.2, C)
  | .bad e :: _, _ => .error e

theorem pass1_eq : ∀ (hs : List Str) (acc : List Field × List (Str × List Str)),
    pass1 hs acc = pass1I (hs.map classify) acc
  | [], acc => by simp [pass1, pass1I]
  | h :: hs, (F, C) => by
    have ih := pass1_eq hs
    rw [pass1, List.map_cons]
    cases hc : (if (getFieldName h).contains sepField then splitFirst sepField h else none) with
    | some p =>
      obtain ⟨k, sub⟩ := p
      have : classify h = .cx k sub := by unfold classify; rw [hc]
      rw [this]; simp only [pass1I]; exact ih _
    | none =>
      cases hp : parseHeaderAnnotations h with
      | ok td =>
        have : classify h = .simple (getFieldName h, td) := by unfold classify; rw [hc]; simp only [hp]
        rw [this]; simp only [pass1I]; exact ih _
      | error e =>
        have : classify h = .bad e := by unfold classify; rw [hc]; simp only [hp]
        rw [this]; simp only [pass1I]

theorem classify_simple {n : Str} (hn : NameFits n) (t : Ty) (d : Val)
    (hs : isSimple t d = true) (hf : famTD t d = true) :
    classify (n ++ (annOf t ++ dflOf d)) = .simple (n, t, d) := by
  have lr := leaf_roundtrip hn t d hs hf
  unfold classify
  simp [lr.1, lr.2.1, lr.2.2]

theorem classify_cx {n : Str} (hn : NameFits n) (s : Str) :
    classify (n ++ sepField :: s) = .cx n s := by
  obtain ⟨n1, n2, n3, n4⟩ := hn
  have e1 : sepField ≠ sepType := by decide
  have e2 : sepField ≠ sepDefault := by decide
  have hmem : sepField ∈ getFieldName (n ++ sepField :: s) := by
    unfold getFieldName
    apply mem_strip (by decide)
    rw [takeUntil_prefix _ n2]
    simp only [takeUntil, e1, if_false]
    rw [takeUntil_prefix _ n3]
    simp [takeUntil, e2]
  unfold classify
  have : (getFieldName (n ++ sepField :: s)).contains sepField = true := by
    simpa using hmem
  rw [this]
  simp [splitFirst_append s n1]

/-! ### the children of a complex field; an indexed list is a record with the names `1`, `2`, … -/

/-- the entries of an indexed list as fields named `i`, `i+1`, … -/
def idxFields : Nat → Ty → List Val → List Field
  | _, _, [] => []
  | i, t, d :: ds => (natToStr i, t, d) :: idxFields (i + 1) t ds

theorem elemsFrom_eq (t : Ty) : ∀ (i : Nat) (ds : List Val),
    elemsFrom (fun d => renderTD t d) i ds = renderFs (idxFields i t ds)
  | _, [] => by simp [elemsFrom, idxFields, renderFs]
  | i, d :: ds => by
    rw [elemsFrom, idxFields, renderFs, elemsFrom_eq t (i + 1) ds]

/-- the fields one level below a complex field -/
def childFields : Ty → Val → List Field
  | .model fs, _ => fs
  | .list t, .list ds => idxFields 1 t ds
  | _, _ => []

theorem renderTD_complex : ∀ (t : Ty) (d : Val), isSimple t d = false →
    renderTD t d = (renderFs (childFields t d)).map (fun s => sepField :: s)
  | .model fs, _, _ => by simp [renderTD, childFields]
  | .list t, .list (d :: ds), _ => by
    rw [renderTD, elemsFrom_eq]; simp [childFields]
  | .list _, .list [], h | .list _, .none, h | .list _, .str _, h | .list _, .int _, h
  | .list _, .float _, h | .list _, .bool _, h | .list _, .record _, h => by simp [isSimple] at h
  | .str, _, h | .int, _, h | .float, _, h | .bool, _, h | .anyList, _, h => by simp [isSimple] at h

/-- the classes of the rendered headers of a field list -/
def itemsOf : List Field → List Cls
  | [] => []
  | (n, t, d) :: fs =>
    (if isSimple t d then [Cls.simple (n, t, d)]
     else (renderFs (childFields t d)).map (Cls.cx n)) ++ itemsOf fs

theorem classify_render : ∀ (fs : List Field),
    (∀ f ∈ fs, NameFits f.1 ∧ (isSimple f.2.1 f.2.2 = true → famTD f.2.1 f.2.2 = true)) →
    (renderFs fs).map classify = itemsOf fs
  | [], _ => by simp [renderFs, itemsOf]
  | (n, t, d) :: fs, h => by
    have h0 := h (n, t, d) (by simp)
    have ih := classify_render fs (fun f hf => h f (by simp [hf]))
    rw [renderFs, itemsOf, List.map_append, ih]
    congr 1
    cases hs : isSimple t d with
    | true =>
      rw [renderTD_simple t d hs]
      simp [classify_simple h0.1 t d hs (h0.2 hs)]
    | false =>
      rw [renderTD_complex t d hs]
      simp [List.map_map, Function.comp_def, classify_cx h0.1]

theorem mem_renderFs : ∀ {fs : List Field} {f : Field} {x : Str}, f ∈ fs →
    x ∈ renderTD f.2.1 f.2.2 → f.1 ++ x ∈ renderFs fs
  | (n, t, d) :: fs, f, x, hf, hx => by
    rw [renderFs]
    rcases List.mem_cons.mp hf with e | e
    · subst e
      exact List.mem_append_left _ (List.mem_map.mpr ⟨x, hx, rfl⟩)
    · exact List.mem_append_right _ (mem_renderFs e hx)

/-! ### the two loops on `itemsOf fs` (canonical column order) -/

theorem dictAppendTo_fresh : ∀ (C : List (Str × List Str)) (k s : Str),
    (∀ p ∈ C, p.1 ≠ k) → dictAppendTo C k s = C ++ [(k, [s])]
  | [], _, _, _ => rfl
  | (k', l) :: C, k, s, h => by
    have h1 : k' ≠ k := h (k', l) (by simp)
    simp [dictAppendTo, h1, dictAppendTo_fresh C k s (fun p hp => h p (by simp [hp]))]

theorem dictAppendTo_last : ∀ (C : List (Str × List Str)) (k : Str) (l : List Str) (s : Str),
    (∀ p ∈ C, p.1 ≠ k) → dictAppendTo (C ++ [(k, l)]) k s = C ++ [(k, l ++ [s])]
  | [], _, _, _, _ => by simp [dictAppendTo]
  | (k', l') :: C, k, l, s, h => by
    have h1 : k' ≠ k := h (k', l') (by simp)
    simp [dictAppendTo, h1, dictAppendTo_last C k l s (fun p hp => h p (by simp [hp]))]

theorem pass1I_block_tail (n : Str) (rest : List Cls) (F : List Field)
    (C : List (Str × List Str)) (hC : ∀ p ∈ C, p.1 ≠ n) : ∀ (ss l : List Str),
    pass1I (ss.map (Cls.cx n) ++ rest) (F, C ++ [(n, l)]) = pass1I rest (F, C ++ [(n, l ++ ss)])
  | [], l => by simp
  | s :: ss, l => by
    simp only [List.map_cons, List.cons_append, pass1I]
    rw [dictAppendTo_last C n l s hC, pass1I_block_tail n rest F C hC ss (l ++ [s])]
    simp

theorem pass1I_block (n : Str) (rest : List Cls) (F : List Field)
    (C : List (Str × List Str)) (hC : ∀ p ∈ C, p.1 ≠ n) : ∀ (subs : List Str), subs ≠ [] →
    pass1I (subs.map (Cls.cx n) ++ rest) (F, C) = pass1I rest (F, C ++ [(n, subs)])
  | [], h => absurd rfl h
  | s :: ss, _ => by
    simp only [List.map_cons, List.cons_append, pass1I]
    rw [dictAppendTo_fresh C n s hC, pass1I_block_tail n rest F C hC ss [s]]
    simp

def simples (fs : List Field) : List Field := fs.filter (fun f => isSimple f.2.1 f.2.2)
def complexes (fs : List Field) : List Field := fs.filter (fun f => !isSimple f.2.1 f.2.2)
/-- the sub-headers collected under the key of a complex field -/
def subOf (f : Field) : List Str := renderFs (childFields f.2.1 f.2.2)

theorem pass1I_itemsOf : ∀ (fs : List Field) (rest : List Cls) (F : List Field)
    (C : List (Str × List Str)),
    (fs.map (fun f => f.1)).Nodup →
    (∀ f ∈ fs, ∀ p ∈ F, p.1 ≠ f.1) → (∀ f ∈ fs, ∀ p ∈ C, p.1 ≠ f.1) →
    (∀ f ∈ fs, isSimple f.2.1 f.2.2 = false → subOf f ≠ []) →
    pass1I (itemsOf fs ++ rest) (F, C) =
      pass1I rest (F ++ simples fs, C ++ (complexes fs).map (fun f => (f.1, subOf f)))
  | [], rest, F, C, _, _, _, _ => by simp [itemsOf, simples, complexes]
  | (n, t, d) :: fs, rest, F, C, hd, hF, hC, hne => by
    have hd' := List.nodup_cons.mp hd
    have hnf : ∀ f ∈ fs, n ≠ f.1 := fun f hf e =>
      hd'.1 (List.mem_map.mpr ⟨f, hf, e.symm⟩)
    rw [itemsOf, List.append_assoc]
    cases hs : isSimple t d with
    | true =>
      simp only [if_true, List.cons_append, List.nil_append, pass1I]
      rw [dictSet_fresh F n (t, d) (hF (n, t, d) (by simp))]
      rw [pass1I_itemsOf fs rest _ C hd'.2
        (by
          intro f hf p hp
          rcases List.mem_append.mp hp with hp | hp
          · exact hF f (by simp [hf]) p hp
          · simp at hp; subst hp; exact hnf f hf)
        (fun f hf => hC f (by simp [hf])) (fun f hf => hne f (by simp [hf]))]
      simp [simples, complexes, hs, List.filter_cons]
    | false =>
      simp only [Bool.false_eq_true, if_false]
      have hne0 : renderFs (childFields t d) ≠ [] := hne (n, t, d) (by simp) hs
      rw [pass1I_block n _ F C (hC (n, t, d) (by simp)) _ hne0]
      rw [pass1I_itemsOf fs rest F _ hd'.2 (fun f hf => hF f (by simp [hf]))
        (by
          intro f hf p hp
          rcases List.mem_append.mp hp with hp | hp
          · exact hC f (by simp [hf]) p hp
          · simp at hp; subst hp; exact hnf f hf)
        (fun f hf => hne f (by simp [hf]))]
      simp [simples, complexes, hs, List.filter_cons, subOf]

/-- the second loop: every complex field gets the model inferred from its sub-headers -/
theorem pass2_exact (rec : List Str → Except Err (Ty × Val)) (sub : Field → List Str) :
    ∀ (X : List Field) (F : List Field),
    (X.map (fun f => f.1)).Nodup → (∀ f ∈ X, ∀ p ∈ F, p.1 ≠ f.1) →
    (∀ f ∈ X, rec (sub f) = .ok f.2) →
    pass2 rec (X.map (fun f => (f.1, sub f))) F = .ok (F ++ X)
  | [], F, _, _, _ => by simp [pass2]
  | (n, td) :: X, F, hd, hF, hr => by
    have hd' := List.nodup_cons.mp hd
    simp only [List.map_cons, pass2]
    rw [hr (n, td) (by simp)]
    simp only []
    rw [dictSet_fresh F n td (hF (n, td) (by simp))]
    rw [pass2_exact rec sub X _ hd'.2
      (by
        intro f hf p hp
        rcases List.mem_append.mp hp with hp | hp
        · exact hF f (by simp [hf]) p hp
        · simp at hp; subst hp
          exact fun e => hd'.1 (List.mem_map.mpr ⟨f, hf, e.symm⟩))
      (fun f hf => hr f (by simp [hf]))]
    simp

theorem simpleFirst_split {α : Type} (p : α → Bool) : ∀ (l : List α),
    simpleFirst (l.map p) = true → l.filter p ++ l.filter (fun a => !p a) = l
  | [], _ => rfl
  | a :: l, h => by
    cases hp : p a with
    | true =>
      simp only [List.map_cons, hp, simpleFirst] at h
      simp [List.filter_cons, hp, simpleFirst_split p l h]
    | false =>
      simp only [List.map_cons, hp, simpleFirst, List.all_map, List.all_eq_true,
        Function.comp_apply, Bool.not_eq_true'] at h
      have h1 : l.filter p = [] := by
        rw [List.filter_eq_nil_iff]; intro x hx; simp [h x hx]
      have h2 : l.filter (fun a => !p a) = l := by
        rw [List.filter_eq_self]; intro x hx; simp [h x hx]
      simp [List.filter_cons, hp, h1, h2]

theorem nodupStr_iff : ∀ (l : List Str), nodupStr l = true ↔ l.Nodup
  | [] => by simp [nodupStr]
  | a :: l => by
    simp [nodupStr, nodupStr_iff l]

theorem nodup_map_inj {α β : Type} (g : α → β) : ∀ {l : List α}, (l.map g).Nodup →
    ∀ {a b : α}, a ∈ l → b ∈ l → g a = g b → a = b
  | x :: l, hd, a, b, ha, hb, e => by
    have hd' := List.nodup_cons.mp hd
    rcases List.mem_cons.mp ha with ea | ha' <;> rcases List.mem_cons.mp hb with eb | hb'
    · rw [ea, eb]
    · subst ea; exact absurd (List.mem_map.mpr ⟨b, hb', e.symm⟩) hd'.1
    · subst eb; exact absurd (List.mem_map.mpr ⟨a, ha', e⟩) hd'.1
    · exact nodup_map_inj g hd'.2 ha' hb' e

theorem nodup_map_of_inj {α β : Type} (g : α → β) : ∀ {l : List α},
    (∀ a ∈ l, ∀ b ∈ l, g a = g b → a = b) → l.Nodup → (l.map g).Nodup
  | [], _, _ => by simp
  | x :: l, hi, hd => by
    have hd' := List.nodup_cons.mp hd
    rw [List.map_cons, List.nodup_cons]
    refine ⟨?_, nodup_map_of_inj g (fun a ha b hb => hi a (by simp [ha]) b (by simp [hb])) hd'.2⟩
    intro hm
    obtain ⟨y, hy, e⟩ := List.mem_map.mp hm
    have := hi y (by simp [hy]) x (by simp) e
    subst this
    exact hd'.1 hy

/-- **One level** of `model_from_headers_rec` on the canonical headers of a field list whose
complex fields are read back exactly one level down: the two loops rebuild the field list. -/
theorem level_exact (cf : List Field) (fuel : Nat)
    (h1 : ∀ f ∈ cf, NameFits f.1) (h2 : (cf.map (fun f => f.1)).Nodup)
    (h3 : simpleFirst (cf.map (fun f => isSimple f.2.1 f.2.2)) = true)
    (h4 : ∀ f ∈ cf, isSimple f.2.1 f.2.2 = true → famTD f.2.1 f.2.2 = true)
    (h5 : ∀ f ∈ cf, isSimple f.2.1 f.2.2 = false →
      subOf f ≠ [] ∧ inferRec fuel (subOf f) = .ok f.2) :
    inferRec (fuel + 1) (renderFs cf) = finish cf := by
  have p1 := pass1I_itemsOf cf [] [] [] h2 (by simp) (by simp) (fun f hf hs => (h5 f hf hs).1)
  simp only [List.append_nil, List.nil_append, pass1I] at p1
  have hX : ((complexes cf).map (fun f => f.1)).Nodup :=
    List.Sublist.nodup (List.Sublist.map _ List.filter_sublist) h2
  have p2 := pass2_exact (inferRec fuel) subOf (complexes cf) (simples cf) hX
    (by
      intro f hf p hp e
      have hf' := List.mem_filter.mp hf
      have hp' := List.mem_filter.mp hp
      have := nodup_map_inj (fun f : Field => f.1) h2 hp'.1 hf'.1 e
      subst this
      simp [hp'.2] at hf')
    (by
      intro f hf
      have hf' := List.mem_filter.mp hf
      exact (h5 f hf'.1 (by simpa using hf'.2)).2)
  have e : simples cf ++ complexes cf = cf := simpleFirst_split _ cf h3
  rw [inferRec, pass1_eq, classify_render cf (fun f hf => ⟨h1 f hf, h4 f hf⟩), p1]
  simp only []
  rw [p2, e]

/-! ### list detection: integer keys, `dict_to_list` -/

/-- `int(field) - 1` of a field whose name reads as an integer -/
def keyOf (f : Field) : Int :=
  match pyInt f.1 with
  | .ok i => i - 1
  | _ => 0

theorem collectInts_all : ∀ (F : List Field), (∀ f ∈ F, ∃ i, pyInt f.1 = .ok i) →
    collectInts F = .ok (F.map (fun f => (keyOf f, f.2.1, f.2.2)))
  | [], _ => rfl
  | (k, t, d) :: F, h => by
    obtain ⟨i, hi⟩ := h (k, t, d) (by simp)
    have ih := collectInts_all F (fun f hf => h f (by simp [hf]))
    simp [collectInts, hi, ih, keyOf]

theorem maxKey_ge : ∀ (r : List (Int × Ty × Val)) (m : Int),
    m ≤ maxKey m r ∧ ∀ p ∈ r, p.1 ≤ maxKey m r
  | [], m => by simp [maxKey]
  | (k, x) :: r, m => by
    have ih := maxKey_ge r (if m < k then k else m)
    rw [maxKey]
    refine ⟨?_, ?_⟩
    · have := ih.1; split at this <;> omega
    · intro p hp
      rcases List.mem_cons.mp hp with e | e
      · subst e; have := ih.1; split at this <;> simp <;> omega
      · exact ih.2 p e

theorem maxKey_mem : ∀ (r : List (Int × Ty × Val)) (m : Int),
    maxKey m r = m ∨ ∃ p ∈ r, p.1 = maxKey m r
  | [], m => by simp [maxKey]
  | (k, x) :: r, m => by
    rw [maxKey]
    rcases maxKey_mem r (if m < k then k else m) with h | ⟨p, hp, e⟩
    · rw [h]
      split
      · exact Or.inr ⟨(k, x), by simp, rfl⟩
      · exact Or.inl rfl
    · exact Or.inr ⟨p, by simp [hp], e⟩

theorem fillList_spec : ∀ (ints : List (Int × Ty × Val)) (out : List Val),
    (∀ p ∈ ints, 0 ≤ p.1 ∧ p.1 < out.length) → (ints.map (fun p => p.1)).Nodup →
    ∃ out', fillList ints out = .ok out' ∧ out'.length = out.length ∧
      (∀ p ∈ ints, out'[p.1.toNat]? = some p.2.2) ∧
      (∀ j : Nat, (∀ p ∈ ints, p.1 ≠ (j : Int)) → out'[j]? = out[j]?)
  | [], out, _, _ => ⟨out, rfl, rfl, by simp, by simp⟩
  | (k, t, d) :: r, out, hr, hd => by
    have hk := hr (k, t, d) (by simp)
    simp only at hk
    have hd' := List.nodup_cons.mp hd
    have hset : pySet out k d = .ok (out.set k.toNat d) := by
      unfold pySet
      simp [hk.1, hk.2]
    obtain ⟨out', e1, e2, e3, e4⟩ := fillList_spec r (out.set k.toNat d)
      (by intro p hp; simpa using hr p (by simp [hp])) hd'.2
    refine ⟨out', ?_, ?_, ?_, ?_⟩
    · simp only [fillList, hset]; exact e1
    · simpa using e2
    · intro p hp
      rcases List.mem_cons.mp hp with e | e
      · subst e
        simp only
        have hnot : ∀ q ∈ r, q.1 ≠ ((k.toNat : Nat) : Int) := by
          intro q hq e
          apply hd'.1
          have : q.1 = k := by omega
          exact List.mem_map.mpr ⟨q, hq, this⟩
        rw [e4 k.toNat hnot, List.getElem?_set]
        have : k.toNat < out.length := by omega
        simp [this]
      · exact e3 p e
    · intro j hj
      have hjk : k ≠ (j : Int) := hj (k, t, d) (by simp)
      rw [e4 j (fun p hp => hj p (by simp [hp])), List.getElem?_set_ne]
      omega

/-- `dict_to_list` when the keys are `0 … n-1` in some order -/
theorem dictToList_spec (ints : List (Int × Ty × Val)) (n : Nat) (hn : 0 < n)
    (hk : (ints.map (fun p => p.1)).Perm ((List.range n).map (fun j : Nat => (j : Int)))) :
    ∃ ds, dictToList ints = .ok ds ∧ ds.length = n ∧
      ∀ p ∈ ints, ds[p.1.toNat]? = some p.2.2 := by
  have hnd : (ints.map (fun p => p.1)).Nodup := by
    rw [hk.nodup_iff]
    exact nodup_map_of_inj _ (fun a _ b _ e => by omega) List.nodup_range
  have hrange : ∀ p ∈ ints, 0 ≤ p.1 ∧ p.1 < (n : Int) := by
    intro p hp
    have := hk.subset (List.mem_map.mpr ⟨p, hp, rfl⟩)
    obtain ⟨j, hj, e⟩ := List.mem_map.mp this
    have := List.mem_range.mp hj
    omega
  have hlast : ∃ p ∈ ints, p.1 = ((n - 1 : Nat) : Int) := by
    have : ((n - 1 : Nat) : Int) ∈ (List.range n).map (fun j : Nat => (j : Int)) :=
      List.mem_map.mpr ⟨n - 1, List.mem_range.mpr (by omega), rfl⟩
    obtain ⟨p, hp, e⟩ := List.mem_map.mp (hk.symm.subset this)
    exact ⟨p, hp, e⟩
  cases ints with
  | nil => obtain ⟨p, hp, _⟩ := hlast; cases hp
  | cons p0 r =>
    obtain ⟨k, td⟩ := p0
    have hmx : maxKey k r = ((n - 1 : Nat) : Int) := by
      have g := maxKey_ge r k
      obtain ⟨p, hp, e⟩ := hlast
      have lo : ((n - 1 : Nat) : Int) ≤ maxKey k r := by
        rcases List.mem_cons.mp hp with e' | e'
        · subst e'; simp only at e; omega
        · have := g.2 p e'; omega
      have hi : maxKey k r < (n : Int) := by
        rcases maxKey_mem r k with h | ⟨q, hq, e⟩
        · rw [h]; exact (hrange (k, td) (by simp)).2
        · rw [← e]; exact (hrange q (by simp [hq])).2
      omega
    have hlen : (maxKey k r + 1).toNat = n := by rw [hmx]; omega
    obtain ⟨out', e1, e2, e3, _⟩ := fillList_spec ((k, td) :: r) (List.replicate n Val.none)
      (by intro p hp; simpa using hrange p hp) hnd
    refine ⟨out', ?_, by simpa using e2, e3⟩
    simp only [dictToList, hlen]
    exact e1

theorem pyInt_natToStr_key (j : Nat) (t : Ty) (d : Val) : keyOf (natToStr (j + 1), t, d) = (j : Int) := by
  simp [keyOf, pyInt_natToStr]

/-- list detection on fields named `1 … n` in some order: the element type is the type of one
of them, the default list has the defaults at their indices -/
theorem finish_list (F : List Field) (n : Nat) (hn : 0 < n)
    (hnames : (F.map (fun f => f.1)).Perm ((List.range n).map (fun j => natToStr (j + 1)))) :
    ∃ f₀ ∈ F, ∃ ds, finish F = .ok (.list f₀.2.1, .list ds) ∧ ds.length = n ∧
      ∀ f ∈ F, ∀ j, f.1 = natToStr (j + 1) → ds[j]? = some f.2.2 := by
  have hname : ∀ f ∈ F, ∃ j, j < n ∧ f.1 = natToStr (j + 1) := by
    intro f hf
    have := hnames.subset (List.mem_map.mpr ⟨f, hf, rfl⟩)
    obtain ⟨j, hj, e⟩ := List.mem_map.mp this
    exact ⟨j, List.mem_range.mp hj, e.symm⟩
  have hci := collectInts_all F (by
    intro f hf
    obtain ⟨j, _, e⟩ := hname f hf
    exact ⟨_, by rw [e]; exact pyInt_natToStr _⟩)
  have hkeys : ((F.map (fun f => (keyOf f, f.2.1, f.2.2))).map (fun p => p.1)).Perm
      ((List.range n).map (fun j : Nat => (j : Int))) := by
    have e1 : (F.map (fun f => (keyOf f, f.2.1, f.2.2))).map (fun p => p.1) =
        (F.map (fun f => f.1)).map (fun s => keyOf (s, Ty.str, Val.none)) := by
      simp [List.map_map, Function.comp_def, keyOf]
    have e2 : (List.range n).map (fun j : Nat => (j : Int)) =
        ((List.range n).map (fun j => natToStr (j + 1))).map (fun s => keyOf (s, Ty.str, Val.none)) := by
      simp [List.map_map, Function.comp_def, pyInt_natToStr_key]
    rw [e1, e2]
    exact hnames.map _
  obtain ⟨ds, d1, d2, d3⟩ := dictToList_spec _ n hn hkeys
  have hne : F ≠ [] := by
    intro e; subst e
    have := hnames.length_eq
    simp at this; omega
  obtain ⟨f₀, hf₀⟩ : ∃ f₀, F.getLast? = some f₀ := by
    cases h : F.getLast? with
    | none => exact absurd (List.getLast?_eq_none_iff.mp h) hne
    | some f => exact ⟨f, rfl⟩
  refine ⟨f₀, List.mem_of_getLast? hf₀, ds, ?_, d2, ?_⟩
  · simp only [finish, hci, List.getLast?_map, hf₀, Option.map_some, d1]
  · intro f hf j e
    have := d3 (keyOf f, f.2.1, f.2.2) (List.mem_map.mpr ⟨f, hf, rfl⟩)
    simp only at this
    have hk : keyOf f = (j : Int) := by
      obtain ⟨n', t', d'⟩ := f
      simp only at e; subst e
      exact pyInt_natToStr_key j t' d'
    rw [hk] at this
    simpa using this

/-! ### structural equality of defaults is equality -/

mutual
theorem Val.eq_of_beq : ∀ (a b : Val), Val.beq a b = true → a = b
  | .none, b, h => by cases b <;> simp_all [Val.beq]
  | .str _, b, h => by cases b <;> simp_all [Val.beq]
  | .int _, b, h => by cases b <;> simp_all [Val.beq]
  | .float _, b, h => by cases b <;> simp_all [Val.beq]
  | .bool _, b, h => by cases b <;> simp_all [Val.beq]
  | .list as, b, h => by
    cases b with
    | list bs => rw [Val.eqL_of_beqL as bs (by simpa [Val.beq] using h)]
    | _ => simp [Val.beq] at h
  | .record as, b, h => by
    cases b with
    | record bs => rw [Val.eqR_of_beqR as bs (by simpa [Val.beq] using h)]
    | _ => simp [Val.beq] at h
theorem Val.eqL_of_beqL : ∀ (a b : List Val), Val.beqL a b = true → a = b
  | [], b, h => by cases b <;> simp_all [Val.beqL]
  | x :: as, b, h => by
    cases b with
    | nil => simp [Val.beqL] at h
    | cons y bs =>
      simp only [Val.beqL, Bool.and_eq_true] at h
      rw [Val.eq_of_beq x y h.1, Val.eqL_of_beqL as bs h.2]
theorem Val.eqR_of_beqR : ∀ (a b : List (Str × Val)), Val.beqR a b = true → a = b
  | [], b, h => by cases b <;> simp_all [Val.beqR]
  | (k, x) :: as, b, h => by
    cases b with
    | nil => simp [Val.beqR] at h
    | cons y bs =>
      obtain ⟨k', y⟩ := y
      simp only [Val.beqR, Bool.and_eq_true, beq_iff_eq] at h
      rw [h.1.1, Val.eq_of_beq x y h.1.2, Val.eqR_of_beqR as bs h.2]
end

/-! ### an indexed list as a field list -/

theorem nameFits_natToStr (i : Nat) : NameFits (natToStr i) := by
  have hd := (natToStr_spec i).2.1
  have dig : ∀ c ∈ natToStr i, _ := fun c hc => isDigit_facts c (List.all_eq_true.mp hd c hc)
  exact ⟨fun h => (dig _ h).1 rfl, fun h => (dig _ h).2.1 rfl, fun h => (dig _ h).2.2.1 rfl,
    strip_noWs (fun c hc => (dig c hc).2.2.2.1)⟩

theorem natToStr_inj {i j : Nat} (h : natToStr i = natToStr j) : i = j := by
  have a := (natToStr_spec i).2.2
  have b := (natToStr_spec j).2.2
  rw [h] at a; omega

theorem idxFields_names (t : Ty) : ∀ (i : Nat) (ds : List Val),
    (idxFields i t ds).map (fun f => f.1) = (List.range ds.length).map (fun j => natToStr (i + j))
  | _, [] => by simp [idxFields]
  | i, d :: ds => by
    simp only [idxFields, List.map_cons, List.length_cons, List.range_succ_eq_map,
      idxFields_names t (i + 1) ds, List.map_map]
    simp [Function.comp_def, Nat.add_assoc, Nat.add_comm 1]

theorem mem_idxFields (t : Ty) : ∀ {i : Nat} {ds : List Val} {f : Field}, f ∈ idxFields i t ds →
    f.2.1 = t ∧ f.2.2 ∈ ds
  | i, d :: ds, f, h => by
    simp only [idxFields, List.mem_cons] at h
    rcases h with e | e
    · subst e; simp
    · have := mem_idxFields t e; exact ⟨this.1, by simp [this.2]⟩

theorem idxFields_mem (t : Ty) : ∀ (i : Nat) (ds : List Val) (j : Nat) (h : j < ds.length),
    (natToStr (i + j), t, ds[j]) ∈ idxFields i t ds
  | i, d :: ds, 0, _ => by simp [idxFields]
  | i, d :: ds, j + 1, h => by
    have := idxFields_mem t (i + 1) ds j (by simpa using h)
    simp only [idxFields, List.mem_cons, List.getElem_cons_succ]
    right
    rw [show i + (j + 1) = i + 1 + j by omega]; exact this

theorem idxFields_simple (t : Ty) : ∀ (i : Nat) (ds : List Val),
    (idxFields i t ds).map (fun f => isSimple f.2.1 f.2.2) = ds.map (fun d => isSimple t d)
  | _, [] => rfl
  | i, d :: ds => by simp [idxFields, idxFields_simple t (i + 1) ds]

theorem idxFields_nodup (t : Ty) (i : Nat) (ds : List Val) :
    ((idxFields i t ds).map (fun f => f.1)).Nodup := by
  rw [idxFields_names]
  exact nodup_map_of_inj _ (fun a _ b _ e => by have := natToStr_inj e; omega) List.nodup_range

/-- list detection on the entries `1 … n` in order -/
theorem finish_idxFields (t : Ty) (ds : List Val) (hne : ds ≠ []) :
    finish (idxFields 1 t ds) = .ok (.list t, .list ds) := by
  have hn : 0 < ds.length := List.length_pos_iff.mpr hne
  have hnames : ((idxFields 1 t ds).map (fun f => f.1)).Perm
      ((List.range ds.length).map (fun j => natToStr (j + 1))) := by
    rw [idxFields_names]; simp [Nat.add_comm 1]
  obtain ⟨f₀, hf₀, ds', e, hl, hd⟩ := finish_list _ ds.length hn hnames
  rw [e, (mem_idxFields t hf₀).1]
  have : ds' = ds := by
    apply List.ext_getElem?
    intro j
    by_cases hj : j < ds.length
    · have hm := idxFields_mem t 1 ds j hj
      have := hd _ hm j (by simp [Nat.add_comm 1])
      simpa [hj] using this
    · rw [List.getElem?_eq_none (by omega), List.getElem?_eq_none (by omega)]
  rw [this]

/-! ### what `famTD` says about the level below a complex field -/

theorem sizeOf_field_lt {fs : List Field} {f : Field} (h : f ∈ fs) :
    sizeOf f.2.1 < sizeOf (Ty.model fs) := by
  have := List.sizeOf_lt_of_mem h
  obtain ⟨n, t, d⟩ := f
  simp only [Ty.model.sizeOf_spec, Prod.mk.sizeOf_spec] at this ⊢
  omega

theorem fam_children : ∀ (t : Ty) (d : Val), famTD t d = true → isSimple t d = false →
    childFields t d ≠ [] ∧ (∀ f ∈ childFields t d, NameFits f.1) ∧
    ((childFields t d).map (fun f => f.1)).Nodup ∧
    simpleFirst ((childFields t d).map (fun f => isSimple f.2.1 f.2.2)) = true ∧
    (∀ f ∈ childFields t d, famTD f.2.1 f.2.2 = true ∧ sizeOf f.2.1 < sizeOf t) ∧
    finish (childFields t d) = .ok (t, d)
  | .model fs, d, hf, _ => by
    simp only [famTD, Bool.and_eq_true, Bool.not_eq_true', List.isEmpty_eq_false_iff] at hf
    obtain ⟨⟨⟨hne, hfam⟩, hnames⟩, hd⟩ := hf
    obtain ⟨n1, n2, n3, n4, n5, n6⟩ := namesOk_unpack hnames
    have := Val.eq_of_beq _ _ hd
    subst this
    exact ⟨hne, n1, (nodupStr_iff _).mp n5, n6,
      fun f hf => ⟨famFs_mem hfam f hf, sizeOf_field_lt hf⟩, finish_model fs n2 n3 n4⟩
  | .list t, .list (d :: ds), hf, _ => by
    simp only [famTD, Bool.and_eq_true, List.all_eq_true] at hf
    refine ⟨by simp [childFields, idxFields], fun f hf' => ?_, idxFields_nodup t 1 _, ?_, ?_,
      finish_idxFields t (d :: ds) (by simp)⟩
    · simp only [childFields] at hf'
      have : f.1 ∈ (idxFields 1 t (d :: ds)).map (fun f => f.1) := List.mem_map.mpr ⟨f, hf', rfl⟩
      rw [idxFields_names] at this
      obtain ⟨j, _, e⟩ := List.mem_map.mp this
      rw [← e]; exact nameFits_natToStr _
    · simp only [childFields]; rw [idxFields_simple]; exact hf.2
    · intro f hf'
      have := mem_idxFields t hf'
      rw [this.1]
      refine ⟨hf.1 _ this.2, ?_⟩
      simp only [Ty.list.sizeOf_spec]; omega
  | .list _, .list [], _, h | .list _, .none, _, h | .list _, .str _, _, h | .list _, .int _, _, h
  | .list _, .float _, _, h | .list _, .bool _, _, h | .list _, .record _, _, h => by
    simp [isSimple] at h
  | .str, _, _, h | .int, _, _, h | .float, _, _, h | .bool, _, _, h | .anyList, _, _, h => by
    simp [isSimple] at h

theorem renderFs_ne_nil : ∀ {fs : List Field}, fs ≠ [] →
    (∀ f ∈ fs, renderTD f.2.1 f.2.2 ≠ []) → renderFs fs ≠ []
  | (n, t, d) :: fs, _, h => by
    rw [renderFs]
    have := h (n, t, d) (by simp)
    simp only at this
    simp [this]

/-- **The nested round trip**, by induction on the size of the type: a family field renders to
at least one header, and the headers below a complex field (record, indexed list, list of
records, to any depth) are inferred back as exactly its type and default. -/
theorem nested_roundtrip : ∀ (N : Nat) (t : Ty) (d : Val), sizeOf t < N → famTD t d = true →
    renderTD t d ≠ [] ∧
    (isSimple t d = false → ∀ fuel, (∀ s ∈ renderFs (childFields t d), s.length < fuel) →
      inferRec fuel (renderFs (childFields t d)) = .ok (t, d))
  | 0, _, _, h, _ => by omega
  | N + 1, t, d, hN, hf => by
    cases hs : isSimple t d with
    | true => rw [renderTD_simple t d hs]; simp
    | false =>
      obtain ⟨c1, c2, c3, c4, c5, c6⟩ := fam_children t d hf hs
      have ih : ∀ f ∈ childFields t d, _ := fun f hf' =>
        nested_roundtrip N f.2.1 f.2.2 (by have := (c5 f hf').2; omega) (c5 f hf').1
      have hne : renderFs (childFields t d) ≠ [] := renderFs_ne_nil c1 (fun f hf' => (ih f hf').1)
      refine ⟨by rw [renderTD_complex t d hs]; simpa using hne, fun _ fuel hfuel => ?_⟩
      cases fuel with
      | zero =>
        cases hr : renderFs (childFields t d) with
        | nil => exact absurd hr hne
        | cons s _ => have := hfuel s (by simp [hr]); omega
      | succ fuel =>
        rw [level_exact (childFields t d) fuel c2 c3 c4 (fun f hf' _ => (c5 f hf').1), c6]
        intro f hf' hsf
        have hsub : ∀ s ∈ subOf f, f.1 ++ sepField :: s ∈ renderFs (childFields t d) := by
          intro s hs'
          apply mem_renderFs hf'
          rw [renderTD_complex _ _ hsf]
          exact List.mem_map.mpr ⟨s, hs', rfl⟩
        refine ⟨?_, ?_⟩
        · have := (ih f hf').1
          rw [renderTD_complex _ _ hsf] at this
          simpa [subOf] using this
        · apply (ih f hf').2 hsf
          intro s hs'
          have := hfuel _ (hsub s hs')
          simp at this; omega

theorem length_le_maxLen : ∀ {hs : List Str} {h : Str}, h ∈ hs → h.length ≤ maxLen hs
  | x :: hs, h, hm => by
    rcases List.mem_cons.mp hm with e | e
    · subst e; simp only [maxLen]; omega
    · have := length_le_maxLen e; simp only [maxLen]; omega

/-- the top level: a family schema's canonical headers give back the schema -/
theorem infer_render_family (sch : Schema) (h : inFamilyB sch = true) :
    infer (renderHeaders sch) = .ok (.model sch) := by
  unfold inFamilyB at h
  simp only [Bool.and_eq_true] at h
  obtain ⟨hfam, hnames⟩ := h
  obtain ⟨n1, n2, n3, n4, n5, n6⟩ := namesOk_unpack hnames
  have lvl := level_exact sch (maxLen (renderFs sch)) n1 ((nodupStr_iff _).mp n5) n6
    (fun f hf _ => famFs_mem hfam f hf)
    (by
      intro f hf hsf
      have nr := nested_roundtrip (sizeOf f.2.1 + 1) f.2.1 f.2.2 (by omega) (famFs_mem hfam f hf)
      refine ⟨?_, ?_⟩
      · have := nr.1
        rw [renderTD_complex _ _ hsf] at this
        simpa [subOf] using this
      · apply nr.2 hsf
        intro s hs'
        have hm : f.1 ++ sepField :: s ∈ renderFs sch := by
          apply mem_renderFs hf
          rw [renderTD_complex _ _ hsf]
          exact List.mem_map.mpr ⟨s, hs', rfl⟩
        have := length_le_maxLen hm
        simp at this; omega)
  unfold infer renderHeaders
  rw [lvl, finish_model sch n2 n3 n4]

end Rpft.Infer
