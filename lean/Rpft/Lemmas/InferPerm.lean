/-
C18, order-insensitivity: ANY permutation of the rendered headers of a schema (interleaved
fields, column-major lists of records, split sub-records / lists, list entries out of order)
is inferred as the same model up to the order of the fields (`TyEquiv`).  Core Lean only.
-/
import Rpft.Lemmas.InferNorm
set_option linter.unusedSimpArgs false
set_option linter.unusedVariables false
namespace Rpft.Infer
open Rpft

/-! ### the first loop as two independent folds -/

def getS : Cls → Option Field
  | .simple f => some f
  | _ => none

def getC : Cls → Option (Str × Str)
  | .cx k s => some (k, s)
  | _ => none

def foldS (F : List Field) (S : List Field) : List Field :=
  S.foldl (fun F f => dictSet F f.1 f.2) F

def foldC (C : List (Str × List Str)) (ps : List (Str × Str)) : List (Str × List Str) :=
  ps.foldl (fun C p => dictAppendTo C p.1 p.2) C

theorem pass1I_ok : ∀ (items : List Cls) (F : List Field) (C : List (Str × List Str)),
    (∀ c ∈ items, ∀ e, c ≠ Cls.bad e) →
    pass1I items (F, C) = .ok (foldS F (items.filterMap getS), foldC C (items.filterMap getC))
  | [], F, C, _ => by simp [pass1I, foldS, foldC]
  | .cx k s :: is, F, C, h => by
    rw [pass1I, pass1I_ok is F _ (fun c hc => h c (by simp [hc]))]
    simp [List.filterMap_cons, getS, getC, foldS, foldC]
  | .simple f :: is, F, C, h => by
    rw [pass1I, pass1I_ok is _ C (fun c hc => h c (by simp [hc]))]
    simp [List.filterMap_cons, getS, getC, foldS, foldC]
  | .bad e :: is, F, C, h => absurd rfl (h (.bad e) (by simp) e)

theorem foldS_fresh : ∀ (S F : List Field), (S.map (fun f => f.1)).Nodup →
    (∀ f ∈ S, ∀ p ∈ F, p.1 ≠ f.1) → foldS F S = F ++ S
  | [], F, _, _ => by simp [foldS]
  | (n, td) :: S, F, hd, hF => by
    have hd' := List.nodup_cons.mp hd
    have := foldS_fresh S (F ++ [(n, td)]) hd'.2 (by
      intro f hf p hp
      rcases List.mem_append.mp hp with hp | hp
      · exact hF f (by simp [hf]) p hp
      · simp at hp; subst hp
        exact fun e => hd'.1 (List.mem_map.mpr ⟨f, hf, e.symm⟩))
    simp only [foldS, List.foldl_cons] at this ⊢
    rw [dictSet_fresh F n td (hF (n, td) (by simp)), this]
    simp

/-! ### grouping the complex headers by key -/

/-- the sub-headers stored under key `k` -/
def lookupL (k : Str) : List (Str × List Str) → List Str
  | [] => []
  | (k', l) :: C => if k' = k then l else lookupL k C

/-- the sub-headers of the pairs with key `k`, in order -/
def sel (k : Str) (ps : List (Str × Str)) : List Str :=
  ps.filterMap (fun p => if p.1 = k then some p.2 else none)

theorem lookupL_dictAppendTo (k : Str) : ∀ (C : List (Str × List Str)) (k₀ s : Str),
    lookupL k (dictAppendTo C k₀ s) = if k₀ = k then lookupL k C ++ [s] else lookupL k C
  | [], k₀, s => by
    simp only [dictAppendTo, lookupL]; split <;> simp
  | (k', l) :: C, k₀, s => by
    simp only [dictAppendTo]
    by_cases h1 : k' = k₀
    · subst h1
      simp only [if_true, lookupL]
      split <;> rfl
    · simp only [h1, if_false, lookupL, lookupL_dictAppendTo k C k₀ s]
      by_cases h2 : k' = k
      · subst h2
        have : ¬ k₀ = k' := fun e => h1 e.symm
        simp [this]
      · simp [h2]

theorem keys_dictAppendTo : ∀ (C : List (Str × List Str)) (k₀ s : Str),
    (dictAppendTo C k₀ s).map (fun p => p.1) =
      if k₀ ∈ C.map (fun p => p.1) then C.map (fun p => p.1) else C.map (fun p => p.1) ++ [k₀]
  | [], k₀, s => by simp [dictAppendTo]
  | (k', l) :: C, k₀, s => by
    simp only [dictAppendTo]
    by_cases h1 : k' = k₀
    · subst h1; simp
    · have h1' : ¬ k₀ = k' := fun e => h1 e.symm
      simp only [h1, if_false, List.map_cons, keys_dictAppendTo C k₀ s, List.mem_cons, h1', false_or]
      split <;> simp

theorem lookupL_foldC (k : Str) : ∀ (ps : List (Str × Str)) (C : List (Str × List Str)),
    lookupL k (foldC C ps) = lookupL k C ++ sel k ps
  | [], C => by simp [foldC, sel]
  | (k₀, s) :: ps, C => by
    have := lookupL_foldC k ps (dictAppendTo C k₀ s)
    simp only [foldC, List.foldl_cons] at this ⊢
    rw [this, lookupL_dictAppendTo]
    by_cases h : k₀ = k <;> simp [sel, h]

theorem keys_foldC : ∀ (ps : List (Str × Str)) (C : List (Str × List Str)),
    ((C.map (fun p => p.1)).Nodup → ((foldC C ps).map (fun p => p.1)).Nodup) ∧
    ∀ k, k ∈ (foldC C ps).map (fun p => p.1) ↔ k ∈ C.map (fun p => p.1) ∨ k ∈ ps.map (fun p => p.1)
  | [], C => by simp [foldC]
  | (k₀, s) :: ps, C => by
    have ih := keys_foldC ps (dictAppendTo C k₀ s)
    simp only [foldC, List.foldl_cons] at ih ⊢
    rw [keys_dictAppendTo] at ih
    refine ⟨fun hd => ih.1 ?_, fun k => ?_⟩
    · split
      · exact hd
      · next hn => exact List.nodup_append.mpr ⟨hd, by simp, by
          intro a ha b hb; simp at hb; subst hb; exact fun e => hn (e ▸ ha)⟩
    · rw [ih.2 k]
      split
      · next hm =>
        simp only [List.map_cons, List.mem_cons]
        constructor
        · rintro (h | h)
          · exact Or.inl h
          · exact Or.inr (Or.inr h)
        · rintro (h | h | h)
          · exact Or.inl h
          · subst h; exact Or.inl hm
          · exact Or.inr h
      · simp only [List.mem_append, List.mem_singleton, List.map_cons, List.mem_cons,
          List.mem_nil_iff, or_false]
        constructor
        · rintro ((h | h) | h)
          · exact Or.inl h
          · exact Or.inr (Or.inl h)
          · exact Or.inr (Or.inr h)
        · rintro (h | h | h)
          · exact Or.inl (Or.inl h)
          · exact Or.inl (Or.inr h)
          · exact Or.inr h

theorem lookupL_of_mem : ∀ {C : List (Str × List Str)} {k : Str} {l : List Str},
    (C.map (fun p => p.1)).Nodup → (k, l) ∈ C → lookupL k C = l
  | (k', l') :: C, k, l, hd, hm => by
    have hd' := List.nodup_cons.mp hd
    rcases List.mem_cons.mp hm with e | e
    · cases e; simp [lookupL]
    · have : k' ≠ k := fun e' => hd'.1 (List.mem_map.mpr ⟨(k, l), e, e'.symm⟩)
      simp [lookupL, this, lookupL_of_mem hd'.2 e]

/-- grouping from scratch: distinct keys, exactly the keys that occur, and under each key the
sub-headers of that key in their order of occurrence -/
theorem foldC_spec (ps : List (Str × Str)) :
    ((foldC [] ps).map (fun p => p.1)).Nodup ∧
    (∀ k, k ∈ (foldC [] ps).map (fun p => p.1) ↔ k ∈ ps.map (fun p => p.1)) ∧
    ∀ p ∈ foldC [] ps, p.2 = sel p.1 ps := by
  have h := keys_foldC ps []
  have hd := h.1 (by simp)
  refine ⟨hd, fun k => by simpa using h.2 k, fun p hp => ?_⟩
  have := lookupL_foldC p.1 ps []
  rw [lookupL_of_mem hd (show (p.1, p.2) ∈ foldC [] ps from hp)] at this
  simpa [lookupL] using this

/-! ### the classes of a rendered field list, split into simple fields and (key, sub) pairs -/

def cxPairs : List Field → List (Str × Str)
  | [] => []
  | (n, t, d) :: fs =>
    (if isSimple t d then [] else (subOf (n, t, d)).map (fun s => (n, s))) ++ cxPairs fs

theorem itemsOf_getS : ∀ (fs : List Field), (itemsOf fs).filterMap getS = simples fs
  | [] => rfl
  | (n, t, d) :: fs => by
    rw [itemsOf, List.filterMap_append, itemsOf_getS fs]
    cases hs : isSimple t d <;>
      simp [simples, List.filter_cons, hs, getS, List.filterMap_map, Function.comp_def]

theorem itemsOf_getC : ∀ (fs : List Field), (itemsOf fs).filterMap getC = cxPairs fs
  | [] => rfl
  | (n, t, d) :: fs => by
    rw [itemsOf, List.filterMap_append, itemsOf_getC fs, cxPairs]
    cases hs : isSimple t d <;>
      simp [getC, List.filterMap_map, Function.comp_def, subOf]

theorem itemsOf_no_bad : ∀ (fs : List Field), ∀ c ∈ itemsOf fs, ∀ e, c ≠ Cls.bad e
  | (n, t, d) :: fs, c, hc, e => by
    rw [itemsOf] at hc
    rcases List.mem_append.mp hc with h | h
    · split at h
      · simp at h; subst h; simp
      · obtain ⟨s, _, e'⟩ := List.mem_map.mp h; subst e'; simp
    · exact itemsOf_no_bad fs c h e

theorem keys_cxPairs : ∀ {fs : List Field} {k : Str}, k ∈ (cxPairs fs).map (fun p => p.1) →
    ∃ f ∈ fs, isSimple f.2.1 f.2.2 = false ∧ f.1 = k
  | (n, t, d) :: fs, k, h => by
    rw [cxPairs, List.map_append] at h
    rcases List.mem_append.mp h with h | h
    · cases hs : isSimple t d with
      | true => simp [hs] at h
      | false =>
        simp only [hs, Bool.false_eq_true, if_false, List.map_map] at h
        obtain ⟨s, _, e⟩ := List.mem_map.mp h
        exact ⟨(n, t, d), by simp, hs, e⟩
    · obtain ⟨f, hf, h1, h2⟩ := keys_cxPairs h
      exact ⟨f, by simp [hf], h1, h2⟩

theorem sel_none {k : Str} : ∀ {ps : List (Str × Str)}, k ∉ ps.map (fun p => p.1) → sel k ps = []
  | [], _ => rfl
  | (k', s) :: ps, h => by
    have h1 : ¬ k' = k := fun e => h (by simp [e])
    have h2 : k ∉ ps.map (fun p => p.1) := fun e => h (by simp [e])
    have := sel_none h2
    simp only [sel] at this ⊢
    simp [List.filterMap_cons, h1, this]

theorem sel_append (k : Str) (a b : List (Str × Str)) : sel k (a ++ b) = sel k a ++ sel k b := by
  simp [sel, List.filterMap_append]

theorem sel_block (k : Str) (l : List Str) : sel k (l.map (fun s => (k, s))) = l := by
  induction l with
  | nil => rfl
  | cons s l ih => simp only [sel] at ih ⊢; simp [List.filterMap_cons, ih]

theorem sel_block_ne {k n : Str} (h : n ≠ k) (l : List Str) : sel k (l.map (fun s => (n, s))) = [] := by
  induction l with
  | nil => rfl
  | cons s l ih => simp only [sel] at ih ⊢; simp [List.filterMap_cons, ih, h]

/-- the pairs with the key of a complex field are exactly its sub-headers -/
theorem sel_cxPairs : ∀ {fs : List Field} {f : Field}, (fs.map (fun f => f.1)).Nodup → f ∈ fs →
    isSimple f.2.1 f.2.2 = false → sel f.1 (cxPairs fs) = subOf f
  | (n, t, d) :: fs, f, hd, hf, hs => by
    have hd' := List.nodup_cons.mp hd
    rw [cxPairs, sel_append]
    rcases List.mem_cons.mp hf with e | e
    · subst e
      simp only at hs
      have hnot : n ∉ (cxPairs fs).map (fun p => p.1) := by
        intro hm
        obtain ⟨g, hg, _, e⟩ := keys_cxPairs hm
        exact hd'.1 (List.mem_map.mpr ⟨g, hg, e⟩)
      simp only [hs, Bool.false_eq_true, if_false]
      rw [sel_block, sel_none hnot]; simp
    · have hne : n ≠ f.1 := fun e' => hd'.1 (List.mem_map.mpr ⟨f, e, e'.symm⟩)
      rw [sel_cxPairs hd'.2 e hs]
      split
      · simp [sel]
      · rw [sel_block_ne hne]; simp

theorem cxPairs_key_mem : ∀ {fs : List Field} {f : Field}, f ∈ fs →
    isSimple f.2.1 f.2.2 = false → subOf f ≠ [] → f.1 ∈ (cxPairs fs).map (fun p => p.1)
  | (n, t, d) :: fs, f, hf, hs, hne => by
    rw [cxPairs, List.map_append]
    rcases List.mem_cons.mp hf with e | e
    · subst e
      simp only at hs
      apply List.mem_append_left
      simp only [hs, Bool.false_eq_true, if_false, List.map_map]
      cases hsub : subOf (n, t, d) with
      | nil => exact absurd hsub hne
      | cons s l => simp
    · exact List.mem_append_right _ (cxPairs_key_mem e hs hne)

/-! ### the second loop, all recursive calls succeeding -/

def okOr (e : Except Err (Ty × Val)) : Ty × Val :=
  match e with
  | .ok x => x
  | .error _ => (.str, .none)

theorem pass2_all (rec : List Str → Except Err (Ty × Val)) :
    ∀ (C : List (Str × List Str)) (F : List Field),
    (C.map (fun p => p.1)).Nodup → (∀ p ∈ C, ∀ q ∈ F, q.1 ≠ p.1) →
    (∀ p ∈ C, ∃ td, rec p.2 = .ok td) →
    pass2 rec C F = .ok (F ++ C.map (fun p => (p.1, okOr (rec p.2))))
  | [], F, _, _, _ => by simp [pass2]
  | (k, subs) :: C, F, hd, hF, hr => by
    have hd' := List.nodup_cons.mp hd
    obtain ⟨td, htd⟩ := hr (k, subs) (by simp)
    simp only at htd
    have hok : okOr (Except.ok td) = td := rfl
    simp only [pass2, htd, List.map_cons, hok]
    rw [dictSet_fresh F k td (hF (k, subs) (by simp))]
    rw [pass2_all rec C _ hd'.2
      (by
        intro p hp q hq
        rcases List.mem_append.mp hq with hq | hq
        · exact hF p (by simp [hp]) q hq
        · simp at hq; subst hq
          exact fun e => hd'.1 (List.mem_map.mpr ⟨p, hp, e.symm⟩))
      (fun p hp => hr p (by simp [hp]))]
    simp

theorem nodup_of_nodup_map {α β : Type} (g : α → β) : ∀ {l : List α}, (l.map g).Nodup → l.Nodup
  | [], _ => by simp
  | x :: l, h => by
    have h' := List.nodup_cons.mp h
    exact List.nodup_cons.mpr ⟨fun hx => h'.1 (List.mem_map.mpr ⟨x, hx, rfl⟩),
      nodup_of_nodup_map g h'.2⟩

/-- **One level, any column order**: on any permutation of the rendered headers of a field
list whose complex fields are read back (from any permutation of their sub-headers) up to
field order, the two loops rebuild a field list that is a permutation of the original one
with every field equal up to field order. -/
theorem level_perm (cf : List Field) (fuel : Nat) (hs : List Str) (hp : hs.Perm (renderFs cf))
    (h1 : ∀ f ∈ cf, NameFits f.1) (h2 : (cf.map (fun f => f.1)).Nodup)
    (h4 : ∀ f ∈ cf, isSimple f.2.1 f.2.2 = true → famTD f.2.1 f.2.2 = true)
    (h5 : ∀ f ∈ cf, isSimple f.2.1 f.2.2 = false → subOf f ≠ [] ∧
      ∀ subs, subs.Perm (subOf f) → ∃ td, inferRec fuel subs = .ok td ∧
        td.1.norm = f.2.1.norm ∧ td.2.norm = f.2.2.norm) :
    ∃ F, inferRec (fuel + 1) hs = finish F ∧ (F.map normField).Perm (cf.map normField) := by
  have hI : (hs.map classify).Perm (itemsOf cf) := by
    rw [← classify_render cf (fun f hf => ⟨h1 f hf, h4 f hf⟩)]; exact hp.map classify
  have nobad : ∀ c ∈ hs.map classify, ∀ e, c ≠ Cls.bad e :=
    fun c hc => itemsOf_no_bad cf c (hI.subset hc)
  have hS : ((hs.map classify).filterMap getS).Perm (simples cf) := by
    rw [← itemsOf_getS]; exact hI.filterMap getS
  have hps : ((hs.map classify).filterMap getC).Perm (cxPairs cf) := by
    rw [← itemsOf_getC]; exact hI.filterMap getC
  generalize hSdef : (hs.map classify).filterMap getS = S at hS
  generalize hpsd : (hs.map classify).filterMap getC = ps at hps
  have hSd : (S.map (fun f => f.1)).Nodup :=
    ((hS.map _).nodup_iff).mpr (List.Sublist.nodup (List.Sublist.map _ List.filter_sublist) h2)
  have hfS : foldS [] S = S := by
    have := foldS_fresh S [] hSd (by simp); simpa using this
  obtain ⟨c1, c2, c3⟩ := foldC_spec ps
  have hC : ∀ p ∈ foldC [] ps, ∃ f ∈ cf, isSimple f.2.1 f.2.2 = false ∧ f.1 = p.1 ∧
      ∃ td, inferRec fuel p.2 = .ok td ∧ td.1.norm = f.2.1.norm ∧ td.2.norm = f.2.2.norm := by
    intro p hp'
    have hk : p.1 ∈ (cxPairs cf).map (fun p => p.1) :=
      (hps.map _).subset ((c2 p.1).mp (List.mem_map.mpr ⟨p, hp', rfl⟩))
    obtain ⟨f, hf, hsf, e⟩ := keys_cxPairs hk
    have hsub : p.2.Perm (subOf f) := by
      rw [c3 p hp', ← e, ← sel_cxPairs h2 hf hsf]
      exact hps.filterMap _
    obtain ⟨td, t1, t2, t3⟩ := (h5 f hf hsf).2 p.2 hsub
    exact ⟨f, hf, hsf, e, td, t1, t2, t3⟩
  have hdisj : ∀ p ∈ foldC [] ps, ∀ q ∈ S, q.1 ≠ p.1 := by
    intro p hp' q hq e
    obtain ⟨f, hf, hsf, e', _⟩ := hC p hp'
    have hq' := List.mem_filter.mp (hS.subset hq)
    have := nodup_map_inj (fun f : Field => f.1) h2 hq'.1 hf (e.trans e'.symm)
    subst this
    simp [hsf] at hq'
  have p2 := pass2_all (inferRec fuel) (foldC [] ps) S c1 hdisj
    (fun p hp' => by obtain ⟨_, _, _, _, td, t1, _⟩ := hC p hp'; exact ⟨td, t1⟩)
  refine ⟨S ++ (foldC [] ps).map (fun p => (p.1, okOr (inferRec fuel p.2))), ?_, ?_⟩
  · rw [inferRec, pass1_eq, pass1I_ok _ [] [] nobad, hpsd, hSdef, hfS]
    simp only []
    rw [p2]
  · have hX : (((foldC [] ps).map (fun p => (p.1, okOr (inferRec fuel p.2)))).map normField).Perm
        ((complexes cf).map normField) := by
      have hXd : (((foldC [] ps).map (fun p => (p.1, okOr (inferRec fuel p.2)))).map normField).Nodup := by
        apply nodup_of_nodup_map (fun f : Field => f.1)
        simpa [List.map_map, Function.comp_def, normField] using c1
      have hYd : ((complexes cf).map normField).Nodup := by
        apply nodup_of_nodup_map (fun f : Field => f.1)
        have : ((complexes cf).map (fun f => f.1)).Nodup :=
          List.Sublist.nodup (List.Sublist.map _ List.filter_sublist) h2
        simpa [List.map_map, Function.comp_def, normField] using this
      have key : ∀ p ∈ foldC [] ps, ∃ f ∈ complexes cf, f.1 = p.1 ∧
          normField (p.1, okOr (inferRec fuel p.2)) = normField f := by
        intro p hp'
        obtain ⟨f, hf, hsf, e, td, t1, t2, t3⟩ := hC p hp'
        refine ⟨f, List.mem_filter.mpr ⟨hf, by simp [hsf]⟩, e, ?_⟩
        have : okOr (inferRec fuel p.2) = td := by rw [t1]; rfl
        rw [this]
        simp only [normField, t2, t3, e]
      rw [List.perm_ext_iff_of_nodup hXd hYd]
      intro y
      constructor
      · intro hy
        obtain ⟨x, hx, e⟩ := List.mem_map.mp hy
        obtain ⟨p, hp', e'⟩ := List.mem_map.mp hx
        obtain ⟨f, hf, _, hn⟩ := key p hp'
        rw [← e, ← e', hn]
        exact List.mem_map.mpr ⟨f, hf, rfl⟩
      · intro hy
        obtain ⟨f, hf, e⟩ := List.mem_map.mp hy
        have hf' := List.mem_filter.mp hf
        have hsf : isSimple f.2.1 f.2.2 = false := by simpa using hf'.2
        have hk : f.1 ∈ (foldC [] ps).map (fun p => p.1) :=
          (c2 f.1).mpr ((hps.map _).symm.subset (cxPairs_key_mem hf'.1 hsf (h5 f hf'.1 hsf).1))
        obtain ⟨p, hp', e'⟩ := List.mem_map.mp hk
        obtain ⟨g, hg, e'', hn⟩ := key p hp'
        have : g = f := nodup_map_inj (fun f : Field => f.1) h2 (List.mem_filter.mp hg).1 hf'.1
          (e''.trans e')
        subst this
        rw [← e, ← hn]
        exact List.mem_map.mpr ⟨_, List.mem_map.mpr ⟨p, hp', rfl⟩, rfl⟩
    rw [List.map_append]
    refine (List.Perm.append (hS.map normField) hX).trans ?_
    rw [← List.map_append]
    exact (List.filter_append_perm _ cf).map normField

/-! ### the family without any condition on the order of the fields -/

theorem namesOkU_unpack {fs : List Field} (h : namesOkU fs = true) :
    (∀ f ∈ fs, NameFits f.1) ∧ (∀ f ∈ fs, pyInt f.1 = .invalid) ∧
    (∀ f ∈ fs, (f.1.head? == some '_') = false) ∧
    (∀ f ∈ fs, shadowNames.contains f.1 = false) ∧
    (fs.map (fun f => f.1)).Nodup := by
  simp only [namesOkU, Bool.and_eq_true, List.all_eq_true, nameOk, Bool.not_eq_true',
    beq_iff_eq, List.contains_eq_mem, decide_eq_false_iff_not] at h
  obtain ⟨ha, hd⟩ := h
  refine ⟨?_, ?_, ?_, ?_, (nodupStr_iff _).mp hd⟩
  · intro f hf
    obtain ⟨⟨⟨⟨⟨⟨a1, a2⟩, a3⟩, a4⟩, _⟩, _⟩, _⟩ := ha f hf
    exact ⟨a1, a2, a3, a4⟩
  · intro f hf; exact (ha f hf).2
  · intro f hf; exact (ha f hf).1.1.2
  · intro f hf
    have := (ha f hf).1.2
    simpa using this

theorem wfFs_mem : ∀ {fs : List Field}, wfFs fs = true → ∀ f ∈ fs, wfTD f.2.1 f.2.2 = true
  | [], _, f, hf => by simp at hf
  | (n, t, d) :: fs, h, f, hf => by
    simp only [wfFs, Bool.and_eq_true] at h
    rcases List.mem_cons.mp hf with e | e
    · subst e; exact h.1
    · exact wfFs_mem h.2 f e

theorem wfFs_of_forall : ∀ {fs : List Field}, (∀ f ∈ fs, wfTD f.2.1 f.2.2 = true) → wfFs fs = true
  | [], _ => rfl
  | (n, t, d) :: fs, h => by
    simp only [wfFs, Bool.and_eq_true]
    exact ⟨h (n, t, d) (by simp), wfFs_of_forall (fun f hf => h f (by simp [hf]))⟩

/-- on a field written as one header the two families coincide -/
theorem wf_simple_fam : ∀ (t : Ty) (d : Val), isSimple t d = true → wfTD t d = true →
    famTD t d = true
  | .model _, _, h, _ => by simp [isSimple] at h
  | .list _, .list (_ :: _), h, _ => by simp [isSimple] at h
  | .list t, .list [], _, h => by simpa [wfTD, famTD] using h
  | .list _, .none, _, h | .list _, .str _, _, h | .list _, .int _, _, h
  | .list _, .float _, _, h | .list _, .bool _, _, h | .list _, .record _, _, h => by
    simp [wfTD] at h
  | .str, d, _, h => by cases d <;> simp_all [wfTD, famTD]
  | .int, d, _, h => by cases d <;> simp_all [wfTD, famTD]
  | .float, d, _, h => by cases d <;> simp_all [wfTD, famTD]
  | .bool, d, _, h => by cases d <;> simp_all [wfTD, famTD]
  | .anyList, d, _, h => by
    cases d with
    | list l => cases l <;> simp_all [wfTD, famTD]
    | _ => simp [wfTD] at h

/-! ### list detection / `create_model` on a rebuilt field list -/

theorem names_of_normPerm {F G : List Field} (h : (F.map normField).Perm (G.map normField)) :
    (F.map (fun f => f.1)).Perm (G.map (fun f => f.1)) := by
  have := h.map (fun f : Field => f.1)
  simpa [List.map_map, Function.comp_def, normField] using this

/-- a record: the created model and its default record are those of the schema up to the
order of the fields -/
theorem finish_equiv_record (fs F : List Field)
    (hF : (F.map normField).Perm (fs.map normField))
    (n2 : ∀ f ∈ fs, pyInt f.1 = .invalid) (n3 : ∀ f ∈ fs, (f.1.head? == some '_') = false)
    (n4 : ∀ f ∈ fs, shadowNames.contains f.1 = false) (n5 : (fs.map (fun f => f.1)).Nodup) :
    finish F = .ok (.model F, defaultRecord F) ∧ (Ty.model F).norm = (Ty.model fs).norm ∧
    (defaultRecord F).norm = (defaultRecord fs).norm := by
  have hn := names_of_normPerm hF
  have byName : ∀ f ∈ F, ∃ g ∈ fs, g.1 = f.1 := by
    intro f hf
    obtain ⟨g, hg, e⟩ := List.mem_map.mp (hn.subset (List.mem_map.mpr ⟨f, hf, rfl⟩))
    exact ⟨g, hg, e⟩
  refine ⟨finish_model F ?_ ?_ ?_, ?_, ?_⟩
  · intro f hf; obtain ⟨g, hg, e⟩ := byName f hf; rw [← e]; exact n2 g hg
  · intro f hf; obtain ⟨g, hg, e⟩ := byName f hf; rw [← e]; exact n3 g hg
  · intro f hf; obtain ⟨g, hg, e⟩ := byName f hf; rw [← e]; exact n4 g hg
  · simp only [Ty.norm, Ty.normF_eq_map]
    congr 1
    apply isortK_eq_of_perm _ hF
    have : (F.map (fun f => f.1)).Nodup := hn.nodup_iff.mpr n5
    simpa [List.map_map, Function.comp_def, normField] using this
  · simp only [defaultRecord, Val.norm, Val.normR_eq_map, List.map_map]
    congr 1
    have e : ∀ L : List Field, L.map ((fun p : Str × Val => (p.1, p.2.norm)) ∘ fun f => (f.1, f.2.2)) =
        (L.map normField).map (fun f => (f.1, f.2.2)) := by
      intro L; simp [List.map_map, Function.comp_def, normField]
    rw [e F, e fs]
    apply isortK_eq_of_perm _ (hF.map _)
    have : (F.map (fun f => f.1)).Nodup := hn.nodup_iff.mpr n5
    simpa [List.map_map, Function.comp_def, normField] using this

/-- an indexed list: the element type is the schema's up to field order, the default list has
the schema's defaults (up to field order) at their indices -/
theorem finish_equiv_list (t₀ : Ty) (ds : List Val) (hne : ds ≠ []) (F : List Field)
    (hF : (F.map normField).Perm ((idxFields 1 t₀ ds).map normField)) :
    ∃ t' ds', finish F = .ok (.list t', .list ds') ∧ t'.norm = t₀.norm ∧
      (Val.list ds').norm = (Val.list ds).norm := by
  have hn : 0 < ds.length := List.length_pos_iff.mpr hne
  have hnames : (F.map (fun f => f.1)).Perm ((List.range ds.length).map (fun j => natToStr (j + 1))) := by
    have := names_of_normPerm hF
    rw [idxFields_names] at this
    simpa [Nat.add_comm 1] using this
  obtain ⟨f₀, hf₀, ds', e, hl, hd⟩ := finish_list F ds.length hn hnames
  refine ⟨f₀.2.1, ds', e, ?_, ?_⟩
  · obtain ⟨g, hg, eg⟩ := List.mem_map.mp (hF.subset (List.mem_map.mpr ⟨f₀, hf₀, rfl⟩))
    have := (mem_idxFields t₀ hg).1
    have e2 : (normField g).2.1 = (normField f₀).2.1 := by rw [eg]
    simp only [normField] at e2
    rw [← e2, this]
  · simp only [Val.norm, Val.normL_eq_map]
    congr 1
    apply List.ext_getElem?
    intro j
    by_cases hj : j < ds.length
    · have hm : normField (natToStr (1 + j), t₀, ds[j]) ∈ (idxFields 1 t₀ ds).map normField :=
        List.mem_map.mpr ⟨_, idxFields_mem t₀ 1 ds j hj, rfl⟩
      obtain ⟨f, hf, ef⟩ := List.mem_map.mp (hF.symm.subset hm)
      have e1 : f.1 = natToStr (j + 1) := by
        have : (normField f).1 = natToStr (1 + j) := by rw [ef]; rfl
        simpa [normField, Nat.add_comm 1] using this
      have e2 : f.2.2.norm = ds[j].norm := by
        have : (normField f).2.2 = ds[j].norm := by rw [ef]; rfl
        simpa [normField] using this
      have := hd f hf j e1
      simp [List.getElem?_map, this, e2, hj]
    · rw [List.getElem?_eq_none (by simp; omega), List.getElem?_eq_none (by simp; omega)]

/-! ### what `wfTD` says about the level below a complex field -/

theorem wf_children : ∀ (t : Ty) (d : Val), wfTD t d = true → isSimple t d = false →
    childFields t d ≠ [] ∧ (∀ f ∈ childFields t d, NameFits f.1) ∧
    ((childFields t d).map (fun f => f.1)).Nodup ∧
    (∀ f ∈ childFields t d, wfTD f.2.1 f.2.2 = true ∧ sizeOf f.2.1 < sizeOf t) ∧
    (∀ F, (F.map normField).Perm ((childFields t d).map normField) →
      ∃ td, finish F = .ok td ∧ td.1.norm = t.norm ∧ td.2.norm = d.norm)
  | .model fs, d, hf, _ => by
    simp only [wfTD, Bool.and_eq_true, Bool.not_eq_true', List.isEmpty_eq_false_iff] at hf
    obtain ⟨⟨⟨hne, hfam⟩, hnames⟩, hd⟩ := hf
    obtain ⟨n1, n2, n3, n4, n5⟩ := namesOkU_unpack hnames
    have := Val.eq_of_beq _ _ hd
    subst this
    refine ⟨hne, n1, n5, fun f hf => ⟨wfFs_mem hfam f hf, sizeOf_field_lt hf⟩, fun F hF => ?_⟩
    obtain ⟨e1, e2, e3⟩ := finish_equiv_record fs F hF n2 n3 n4 n5
    exact ⟨_, e1, e2, e3⟩
  | .list t, .list (d :: ds), hf, _ => by
    simp only [wfTD, List.all_eq_true] at hf
    refine ⟨by simp [childFields, idxFields], fun f hf' => ?_, idxFields_nodup t 1 _, ?_, ?_⟩
    · simp only [childFields] at hf'
      have : f.1 ∈ (idxFields 1 t (d :: ds)).map (fun f => f.1) := List.mem_map.mpr ⟨f, hf', rfl⟩
      rw [idxFields_names] at this
      obtain ⟨j, _, e⟩ := List.mem_map.mp this
      rw [← e]; exact nameFits_natToStr _
    · intro f hf'
      have := mem_idxFields t hf'
      rw [this.1]
      refine ⟨hf _ this.2, ?_⟩
      simp only [Ty.list.sizeOf_spec]; omega
    · intro F hF
      obtain ⟨t', ds', e1, e2, e3⟩ := finish_equiv_list t (d :: ds) (by simp) F hF
      exact ⟨_, e1, by simp only [Ty.norm, e2], e3⟩
  | .list _, .list [], _, h | .list _, .none, _, h | .list _, .str _, _, h | .list _, .int _, _, h
  | .list _, .float _, _, h | .list _, .bool _, _, h | .list _, .record _, _, h => by
    simp [isSimple] at h
  | .str, _, _, h | .int, _, _, h | .float, _, _, h | .bool, _, _, h | .anyList, _, _, h => by
    simp [isSimple] at h

/-- **The nested round trip in any column order**, by induction on the size of the type: any
permutation of the headers below a complex field is inferred back as its type and default up
to the order of the fields. -/
theorem perm_roundtrip : ∀ (N : Nat) (t : Ty) (d : Val), sizeOf t < N → wfTD t d = true →
    renderTD t d ≠ [] ∧
    (isSimple t d = false → ∀ fuel hs, hs.Perm (renderFs (childFields t d)) →
      (∀ s ∈ hs, s.length < fuel) →
      ∃ td, inferRec fuel hs = .ok td ∧ td.1.norm = t.norm ∧ td.2.norm = d.norm)
  | 0, _, _, h, _ => by omega
  | N + 1, t, d, hN, hf => by
    cases hs : isSimple t d with
    | true => rw [renderTD_simple t d hs]; simp
    | false =>
      obtain ⟨c1, c2, c3, c5, c6⟩ := wf_children t d hf hs
      have ih : ∀ f ∈ childFields t d, _ := fun f hf' =>
        perm_roundtrip N f.2.1 f.2.2 (by have := (c5 f hf').2; omega) (c5 f hf').1
      have hne : renderFs (childFields t d) ≠ [] := renderFs_ne_nil c1 (fun f hf' => (ih f hf').1)
      refine ⟨by rw [renderTD_complex t d hs]; simpa using hne, fun _ fuel hs' hp hfuel => ?_⟩
      cases fuel with
      | zero =>
        cases hr : hs' with
        | nil => subst hr; exact absurd (List.perm_nil.mp hp.symm) hne
        | cons s _ => have := hfuel s (by simp [hr]); omega
      | succ fuel =>
        obtain ⟨F, e1, e2⟩ := level_perm (childFields t d) fuel hs' hp c2 c3
          (fun f hf' hsf => wf_simple_fam _ _ hsf (c5 f hf').1)
          (by
            intro f hf' hsf
            have hsub : ∀ s ∈ subOf f, f.1 ++ sepField :: s ∈ renderFs (childFields t d) := by
              intro s hs''
              apply mem_renderFs hf'
              rw [renderTD_complex _ _ hsf]
              exact List.mem_map.mpr ⟨s, hs'', rfl⟩
            refine ⟨?_, ?_⟩
            · have := (ih f hf').1
              rw [renderTD_complex _ _ hsf] at this
              simpa [subOf] using this
            · intro subs hsubs
              apply (ih f hf').2 hsf fuel subs hsubs
              intro s hs''
              have := hfuel _ (hp.symm.subset (hsub s (hsubs.subset hs'')))
              simp at this; omega)
        obtain ⟨td, f1, f2, f3⟩ := c6 F e2
        exact ⟨td, by rw [e1, f1], f2, f3⟩

/-- the top level: any permutation of the canonical headers of a schema (fields in any order)
is inferred as the schema up to the order of the fields -/
theorem infer_perm_family (sch : Schema) (h : inFamilyUB sch = true) (hs : List Str)
    (hp : hs.Perm (renderHeaders sch)) : ∃ t, infer hs = .ok t ∧ TyEquiv t (.model sch) := by
  unfold inFamilyUB at h
  simp only [Bool.and_eq_true] at h
  obtain ⟨hfam, hnames⟩ := h
  obtain ⟨n1, n2, n3, n4, n5⟩ := namesOkU_unpack hnames
  obtain ⟨F, e1, e2⟩ := level_perm sch (maxLen hs) hs hp n1 n5
    (fun f hf hsf => wf_simple_fam _ _ hsf (wfFs_mem hfam f hf))
    (by
      intro f hf hsf
      have nr := perm_roundtrip (sizeOf f.2.1 + 1) f.2.1 f.2.2 (by omega) (wfFs_mem hfam f hf)
      refine ⟨?_, ?_⟩
      · have := nr.1
        rw [renderTD_complex _ _ hsf] at this
        simpa [subOf] using this
      · intro subs hsubs
        apply nr.2 hsf _ subs hsubs
        intro s hs'
        have hm : f.1 ++ sepField :: s ∈ renderFs sch := by
          apply mem_renderFs hf
          rw [renderTD_complex _ _ hsf]
          exact List.mem_map.mpr ⟨s, hsubs.subset hs', rfl⟩
        have := length_le_maxLen (hp.symm.subset hm)
        simp at this; omega)
  obtain ⟨f1, f2, _⟩ := finish_equiv_record sch F e2 n2 n3 n4 n5
  refine ⟨.model F, ?_, f2⟩
  unfold infer
  rw [e1, f1]

/-! ### the ordered family is a subset of the unordered one -/

theorem namesOk_U {fs : List Field} (h : namesOk fs = true) : namesOkU fs = true := by
  simp only [namesOk, Bool.and_eq_true] at h
  simp only [namesOkU, Bool.and_eq_true]
  exact h.1

theorem fam_wf : ∀ (N : Nat) (t : Ty) (d : Val), sizeOf t < N → famTD t d = true →
    wfTD t d = true
  | 0, _, _, h, _ => by omega
  | N + 1, t, d, hN, hf => by
    cases hs : isSimple t d with
    | true =>
      revert hf
      cases t with
      | model _ => simp [isSimple] at hs
      | list t =>
        cases d with
        | list l =>
          cases l with
          | nil => simp [famTD, wfTD]
          | cons _ _ => simp [isSimple] at hs
        | _ => simp [famTD]
      | str => cases d <;> simp [famTD, wfTD]
      | int => cases d <;> simp [famTD, wfTD]
      | float => cases d <;> simp [famTD, wfTD]
      | bool => cases d <;> simp [famTD, wfTD]
      | anyList =>
        cases d with
        | list l => cases l <;> simp [famTD, wfTD]
        | _ => simp [famTD]
    | false =>
      obtain ⟨_, _, _, _, c5, _⟩ := fam_children t d hf hs
      have ih : ∀ f ∈ childFields t d, wfTD f.2.1 f.2.2 = true := fun f hf' =>
        fam_wf N f.2.1 f.2.2 (by have := (c5 f hf').2; omega) (c5 f hf').1
      cases t with
      | model fs =>
        simp only [famTD, Bool.and_eq_true] at hf
        simp only [wfTD, Bool.and_eq_true]
        exact ⟨⟨⟨hf.1.1.1, wfFs_of_forall ih⟩, namesOk_U hf.1.2⟩, hf.2⟩
      | list t =>
        cases d with
        | list l =>
          cases l with
          | nil => simp [isSimple] at hs
          | cons d ds =>
            simp only [wfTD, List.all_eq_true]
            intro x hx
            obtain ⟨j, hj, e⟩ := List.getElem_of_mem hx
            have := ih _ (idxFields_mem t 1 (d :: ds) j hj)
            simpa [e] using this
        | _ => simp [isSimple] at hs
      | _ => simp [isSimple] at hs

theorem inFamily_U {sch : Schema} (h : inFamilyB sch = true) : inFamilyUB sch = true := by
  simp only [inFamilyB, Bool.and_eq_true] at h
  simp only [inFamilyUB, Bool.and_eq_true]
  exact ⟨wfFs_of_forall (fun f hf => fam_wf _ _ _ (Nat.lt_succ_self _) (famFs_mem h.1 f hf)),
    namesOk_U h.2⟩

end Rpft.Infer
