/-
`connect_loose_exits` at GROUP level (the recursion of `Compile.connectLoose`, and `add_exit` of a
block): which arena nodes an edge naming a block touches (`Reach`), what happens to them
(`n.connectLoose d`), and that nothing else in the machine state changes.  For ALL states.
-/
import Rpft.Lemmas.CompileInvA4
import Rpft.Lemmas.CompileFinalB
set_option linter.unusedSimpArgs false
set_option linter.unusedVariables false
namespace Rpft.Compile
open Rpft

/-- the nodes the recursion of `connect_loose_exits` (and `has_loose_exits`) visits from group `g`:
the last node of a row group; the router node of a `no_op` group, or else whatever its parents
reach; whatever the children of a block reach -/
inductive Reach (gs : Array Grp) : Nat → Nat → Prop
  | row {g : Nat} {nodes : List Nat} {t : Str} {i : Nat} :
      gs[g]? = some (.row nodes t) → nodes.getLast? = some i → Reach gs g i
  | router {g : Nat} {ps : List (Nat × Cond)} {i : Nat} :
      gs[g]? = some (.noop ps (some i)) → Reach gs g i
  | parent {g : Nat} {ps : List (Nat × Cond)} {p : Nat × Cond} {i : Nat} :
      gs[g]? = some (.noop ps none) → p ∈ ps → Reach gs p.1 i → Reach gs g i
  | child {g : Nat} {ch : List Nat} {c i : Nat} :
      gs[g]? = some (.block ch) → c ∈ ch → Reach gs c i → Reach gs g i

/-! ### node level: idempotence -/

def fillCat (d : Dest) (c : Cat) : Cat := if c.dest == Dest.none then { c with dest := d } else c

theorem fillCat_idem (d : Dest) (c : Cat) : fillCat d (fillCat d c) = fillCat d c := by
  unfold fillCat
  by_cases h : c.dest == Dest.none
  · simp only [h, if_true]
    by_cases hd : d == Dest.none
    · simp [hd]
    · simp [hd]
  · simp [h]

theorem fillCat_of_not_loose (d : Dest) (c : Cat) (h : (c.dest == Dest.none) = false) : fillCat d c = c := by
  simp [fillCat, h]

theorem connectLoose_eq (n : NodeM) (d : Dest) :
    n.connectLoose d =
      match n.router with
      | none => if n.dexitDest == Dest.none then { n with dexitDest := d } else n
      | some (.sw r) => { n with router := some (.sw (r.mapCats (fillCat d))) }
      | some (.rnd r) => { n with router := some (.rnd { r with cats := r.cats.map (fillCat d) }) } := by
  unfold NodeM.connectLoose fillCat
  rfl

theorem mapCats_mapCats (r : SwitchR) (f g : Cat → Cat) : (r.mapCats f).mapCats g = r.mapCats (g ∘ f) := by
  unfold SwitchR.mapCats
  cases r.noResp <;> simp [List.map_map]

theorem mapCats_id' (r : SwitchR) (f : Cat → Cat) (hf : ∀ c ∈ r.allCats, f c = c) : r.mapCats f = r := by
  unfold SwitchR.mapCats
  have h1 : r.cats.map f = r.cats := by
    conv => rhs; rw [← List.map_id r.cats]
    apply List.map_congr_left
    intro c hc; exact hf c (by simp [SwitchR.allCats, hc])
  have h2 : f r.dflt = r.dflt := hf _ (by simp [SwitchR.allCats])
  have h3 : r.noResp.map f = r.noResp := by
    cases hnr : r.noResp with
    | none => rfl
    | some c => simp; exact hf c (by simp [SwitchR.allCats, hnr])
  rw [h1, h2, h3]

/-- connecting twice is connecting once -/
theorem connectLoose_idem (n : NodeM) (d : Dest) : (n.connectLoose d).connectLoose d = n.connectLoose d := by
  rw [connectLoose_eq n d]
  rcases hr : n.router with _ | r | r
  · simp only
    by_cases h : n.dexitDest == Dest.none
    · simp only [h, if_true]
      rw [connectLoose_eq]; simp only [hr]
      by_cases hd : d == Dest.none <;> simp [hd]
    · simp only [h]
      rw [connectLoose_eq]; simp [hr, h]
  · simp only
    rw [connectLoose_eq]; simp only [mapCats_mapCats]
    congr 3
    unfold SwitchR.mapCats
    cases r.noResp <;> simp [fillCat_idem, Function.comp_def]
  · simp only
    rw [connectLoose_eq]; simp only [List.map_map]
    have : List.map (fillCat d ∘ fillCat d) r.cats = List.map (fillCat d) r.cats :=
      List.map_congr_left (fun c _ => fillCat_idem d c)
    rw [this]

/-- a node without loose exit is not changed -/
theorem connectLoose_of_not_loose (n : NodeM) (d : Dest) (h : n.hasLoose = false) : n.connectLoose d = n := by
  rw [connectLoose_eq]
  unfold NodeM.hasLoose NodeM.exitDests at h
  rcases hr : n.router with _ | r | r
  · simp only [hr, List.any_cons, List.any_nil, Bool.or_false] at h
    simp [h]
  · simp only [hr, List.any_map, List.any_eq_false, Function.comp] at h
    simp only
    rw [mapCats_id' r _ (fun c hc => fillCat_of_not_loose d c (by simpa using h c hc))]
    cases n; simp_all
  · simp only [hr, List.any_map, List.any_eq_false, Function.comp] at h
    simp only
    have : r.cats.map (fillCat d) = r.cats := by
      conv => rhs; rw [← List.map_id r.cats]
      apply List.map_congr_left
      intro c hc; exact fillCat_of_not_loose d c (by simpa using h c hc)
    rw [this]
    cases n; simp_all

/-! ### the state relation -/

/-- nothing but the contents of the node arena changed -/
def OnlyNodes (s s' : St) : Prop := s' = { s with nodes := s'.nodes } ∧ s'.nodes.size = s.nodes.size

theorem OnlyNodes.refl (s : St) : OnlyNodes s s := ⟨rfl, rfl⟩

theorem OnlyNodes.trans {a b c : St} (h1 : OnlyNodes a b) (h2 : OnlyNodes b c) : OnlyNodes a c := by
  obtain ⟨e1, z1⟩ := h1
  obtain ⟨e2, z2⟩ := h2
  refine ⟨?_, z2.trans z1⟩
  rw [e2, e1]

theorem OnlyNodes.groups {s s' : St} (h : OnlyNodes s s') : s'.groups = s.groups := by rw [h.1]

/-- exactly the nodes in `T` were connected to `d` (all other nodes, and everything else in the
state, are as before) -/
def Conn (d : Dest) (T : Nat → Prop) (s s' : St) : Prop :=
  OnlyNodes s s' ∧ ∀ (i : Nat) (n : NodeM), s.nodes[i]? = some n →
    (T i → s'.nodes[i]? = some (n.connectLoose d)) ∧ (¬ T i → s'.nodes[i]? = some n)

theorem Conn.refl (d : Dest) (s : St) : Conn d (fun _ => False) s s :=
  ⟨OnlyNodes.refl s, fun i n h => ⟨fun f => f.elim, fun _ => h⟩⟩

theorem Conn.congr {d : Dest} {T T' : Nat → Prop} {s s' : St} (h : Conn d T s s') (ht : ∀ i, T i ↔ T' i) :
    Conn d T' s s' :=
  ⟨h.1, fun i n hn => ⟨fun t => (h.2 i n hn).1 ((ht i).mpr t), fun t => (h.2 i n hn).2 (fun t' => t ((ht i).mp t'))⟩⟩

theorem Conn.trans {d : Dest} {T1 T2 : Nat → Prop} {a b c : St} (h1 : Conn d T1 a b) (h2 : Conn d T2 b c) :
    Conn d (fun i => T1 i ∨ T2 i) a c := by
  refine ⟨h1.1.trans h2.1, ?_⟩
  intro i n hn
  by_cases t1 : T1 i
  · have hb := (h1.2 i n hn).1 t1
    by_cases t2 : T2 i
    · refine ⟨fun _ => ?_, fun hh => absurd (.inl t1) hh⟩
      have := (h2.2 i _ hb).1 t2
      rw [connectLoose_idem] at this; exact this
    · exact ⟨fun _ => (h2.2 i _ hb).2 t2, fun hh => absurd (.inl t1) hh⟩
  · have hb := (h1.2 i n hn).2 t1
    by_cases t2 : T2 i
    · exact ⟨fun _ => (h2.2 i _ hb).1 t2, fun hh => absurd (.inr t2) hh⟩
    · refine ⟨fun hh => ?_, fun _ => (h2.2 i _ hb).2 t2⟩
      rcases hh with hh | hh
      · exact absurd hh t1
      · exact absurd hh t2

/-- a loop whose iterations connect `T x` (a set that depends on the groups only) connects the union -/
theorem conn_forM {β} (d : Dest) (gs : Array Grp) (T : β → Nat → Prop) (l : List β) (f : β → M PUnit)
    (hf : ∀ x ∈ l, ∀ s, s.groups = gs → wp (f x) s (fun _ s' => Conn d (T x) s s')) :
    ∀ s, s.groups = gs → wp (l.forM f) s (fun _ s' => Conn d (fun i => ∃ x ∈ l, T x i) s s') := by
  induction l with
  | nil =>
    intro s _
    rw [wp_forM_nil]
    exact (Conn.refl d s).congr (fun i => by simp)
  | cons x l ih =>
    intro s hs
    rw [wp_forM_cons]
    refine wp_mono (hf x (by simp) s hs) ?_
    intro _ s1 c1
    refine wp_mono (ih (fun y hy => hf y (by simp [hy])) s1 (by rw [c1.1.groups, hs])) ?_
    intro _ s2 c2
    exact (c1.trans c2).congr (fun i => by simp)

theorem connectNode_conn (i : Nat) (d : Dest) (s : St) :
    wp (connectNode i d) s (fun _ s' => Conn d (fun j => j = i) s s') := by
  unfold connectNode
  wp_simp [wp_getNode, wp_setNode]
  intro n hn
  have hlt : i < s.nodes.size := (Array.getElem?_eq_some_iff.mp hn).1
  refine ⟨⟨rfl, by simp⟩, ?_⟩
  intro j m hm
  simp only [Array.getElem?_setIfInBounds]
  constructor
  · intro e; subst e
    rw [hn] at hm; injection hm with hm; subst hm
    simp [hlt]
  · intro e
    have : ¬ i = j := fun e' => e e'.symm
    simp [this, hm]

/-- **`connect_loose_exits`, group level**: exactly the nodes the recursion reaches are connected -/
theorem connectLoose_conn (d : Dest) : ∀ fuel g s,
    wp (connectLoose fuel g d) s (fun _ s' => Conn d (Reach s.groups g) s s') := by
  intro fuel
  induction fuel with
  | zero => intro g s; unfold connectLoose; wp_simp
  | succ fuel ih =>
    intro g s
    unfold connectLoose
    wp_simp [wp_getGrp]
    intro grp hgrp
    split
    · rename_i nodes t
      split
      · rename_i hlast
        wp_simp
        refine (Conn.refl d s).congr (fun i => ⟨fun f => f.elim, fun r => ?_⟩)
        cases r with
        | row h1 h2 => rw [hgrp] at h1; injection h1 with h1; injection h1 with h1 _; subst h1; rw [hlast] at h2; cases h2
        | router h1 => rw [hgrp] at h1; cases h1
        | parent h1 => rw [hgrp] at h1; cases h1
        | child h1 => rw [hgrp] at h1; cases h1
      · rename_i i hlast
        refine wp_mono (connectNode_conn i d s) ?_
        intro _ s' c
        refine c.congr (fun j => ⟨fun e => e ▸ Reach.row hgrp hlast, fun r => ?_⟩)
        cases r with
        | row h1 h2 =>
          rw [hgrp] at h1; injection h1 with h1; injection h1 with h1 _; subst h1
          rw [hlast] at h2; injection h2 with h2; exact h2.symm
        | router h1 => rw [hgrp] at h1; cases h1
        | parent h1 => rw [hgrp] at h1; cases h1
        | child h1 => rw [hgrp] at h1; cases h1
    · rename_i parents router
      split
      · rename_i i
        refine wp_mono (connectNode_conn i d s) ?_
        intro _ s' c
        refine c.congr (fun j => ⟨fun e => e ▸ Reach.router hgrp, fun r => ?_⟩)
        cases r with
        | row h1 => rw [hgrp] at h1; cases h1
        | router h1 => rw [hgrp] at h1; injection h1 with h1; injection h1 with _ h1; injection h1 with h1; exact h1.symm
        | parent h1 => rw [hgrp] at h1; cases h1
        | child h1 => rw [hgrp] at h1; cases h1
      · refine wp_mono (conn_forM d s.groups (fun (p : Nat × Cond) => Reach s.groups p.1) parents _
          (fun x _ s1 hs1 => by have := ih x.1 s1; rw [hs1] at this; exact this) s rfl) ?_
        intro _ s' c
        refine c.congr (fun j => ⟨fun ⟨p, hp, r⟩ => Reach.parent hgrp hp r, fun r => ?_⟩)
        cases r with
        | row h1 => rw [hgrp] at h1; cases h1
        | router h1 => rw [hgrp] at h1; cases h1
        | parent h1 hp r =>
          rw [hgrp] at h1; injection h1 with h1; injection h1 with h1 _; subst h1
          exact ⟨_, hp, r⟩
        | child h1 => rw [hgrp] at h1; cases h1
    · rename_i children
      refine wp_mono (conn_forM d s.groups (fun (c : Nat) => Reach s.groups c) children _
        (fun x _ s1 hs1 => by have := ih x s1; rw [hs1] at this; exact this) s rfl) ?_
      intro _ s' c
      refine c.congr (fun j => ⟨fun ⟨p, hp, r⟩ => Reach.child hgrp hp r, fun r => ?_⟩)
      cases r with
      | row h1 => rw [hgrp] at h1; cases h1
      | router h1 => rw [hgrp] at h1; cases h1
      | parent h1 => rw [hgrp] at h1; cases h1
      | child h1 hp r =>
        rw [hgrp] at h1; injection h1 with h1; injection h1 with h1; subst h1
        exact ⟨_, hp, r⟩

/-! ### `has_loose_exits` -/

/-- what `has_loose_exits` answers: whether some reached node has an exit that leads nowhere -/
def LooseAns (s : St) (g : Nat) (b : Bool) : Prop :=
  (b = false → ∀ i, Reach s.groups g i → ∀ n, s.nodes[i]? = some n → n.hasLoose = false) ∧
  (b = true → ∃ (i : Nat) (n : NodeM), Reach s.groups g i ∧ s.nodes[i]? = some n ∧ n.hasLoose = true)

theorem wp_anyM {β} (F Tr : β → Prop) (l : List β) (f : β → M Bool) (s : St)
    (hf : ∀ x ∈ l, wp (f x) s (fun b s' => s' = s ∧ (b = false → F x) ∧ (b = true → Tr x))) :
    wp (l.anyM f) s (fun b s' => s' = s ∧ (b = false → ∀ x ∈ l, F x) ∧ (b = true → ∃ x ∈ l, Tr x)) := by
  induction l with
  | nil => simp [List.anyM, wp_pure]
  | cons x l ih =>
    simp only [List.anyM, wp_bind]
    refine wp_mono (hf x (by simp)) ?_
    intro b s1 ⟨e, h1, h2⟩
    subst e
    cases b with
    | true =>
      rw [wp_pure]
      exact ⟨rfl, fun h => Bool.noConfusion h, fun _ => ⟨x, by simp, h2 rfl⟩⟩
    | false =>
      refine wp_mono (ih (fun y hy => hf y (by simp [hy]))) ?_
      intro b s2 ⟨e, k1, k2⟩
      refine ⟨e, fun hb y hy => ?_, fun hb => ?_⟩
      · simp only [List.mem_cons] at hy
        rcases hy with rfl | hy
        · exact h1 rfl
        · exact k1 hb y hy
      · obtain ⟨y, hy, ty⟩ := k2 hb
        exact ⟨y, by simp [hy], ty⟩

theorem hasLoose_spec : ∀ fuel g s, wp (hasLoose fuel g) s (fun b s' => s' = s ∧ LooseAns s g b) := by
  intro fuel
  induction fuel with
  | zero => intro g s; unfold hasLoose; wp_simp
  | succ fuel ih =>
    intro g s
    unfold hasLoose
    wp_simp [wp_getGrp]
    intro grp hgrp
    split
    · rename_i nodes t
      split
      · rename_i hlast
        wp_simp
        refine ⟨trivial, fun _ i r => ?_, fun h => Bool.noConfusion h⟩
        cases r with
        | row h1 h2 => rw [hgrp] at h1; injection h1 with h1; injection h1 with h1 _; subst h1; rw [hlast] at h2; cases h2
        | router h1 => rw [hgrp] at h1; cases h1
        | parent h1 => rw [hgrp] at h1; cases h1
        | child h1 => rw [hgrp] at h1; cases h1
      · rename_i i hlast
        wp_simp [wp_getNode]
        intro n hn
        refine ⟨trivial, fun hb j r m hm => ?_, fun hb => ⟨i, n, Reach.row hgrp hlast, hn, hb⟩⟩
        cases r with
        | row h1 h2 =>
          rw [hgrp] at h1; injection h1 with h1; injection h1 with h1 _; subst h1
          rw [hlast] at h2; injection h2 with h2; subst h2
          rw [hn] at hm; injection hm with hm; subst hm; exact hb
        | router h1 => rw [hgrp] at h1; cases h1
        | parent h1 => rw [hgrp] at h1; cases h1
        | child h1 => rw [hgrp] at h1; cases h1
    · rename_i parents router
      split
      · rename_i i
        wp_simp [wp_getNode]
        intro n hn
        refine ⟨trivial, fun hb j r m hm => ?_, fun hb => ⟨i, n, Reach.router hgrp, hn, hb⟩⟩
        cases r with
        | row h1 => rw [hgrp] at h1; cases h1
        | router h1 =>
          rw [hgrp] at h1; injection h1 with h1; injection h1 with _ h1; injection h1 with h1; subst h1
          rw [hn] at hm; injection hm with hm; subst hm; exact hb
        | parent h1 => rw [hgrp] at h1; cases h1
        | child h1 => rw [hgrp] at h1; cases h1
      · refine wp_mono (wp_anyM (fun (p : Nat × Cond) => LooseAns s p.1 false) (fun p => LooseAns s p.1 true)
          parents _ s (fun x _ => ?_)) ?_
        · refine wp_mono (ih x.1 s) ?_
          intro b s' ⟨e, ans⟩
          exact ⟨e, fun hb => hb ▸ ans, fun hb => hb ▸ ans⟩
        · intro b s' ⟨e, h1, h2⟩
          refine ⟨e, fun hb j r m hm => ?_, fun hb => ?_⟩
          · cases r with
            | row k1 => rw [hgrp] at k1; cases k1
            | router k1 => rw [hgrp] at k1; cases k1
            | parent k1 hp r =>
              rw [hgrp] at k1; injection k1 with k1; injection k1 with k1 _; subst k1
              exact (h1 hb _ hp).1 rfl j r m hm
            | child k1 => rw [hgrp] at k1; cases k1
          · obtain ⟨p, hp, ans⟩ := h2 hb
            obtain ⟨i, n, r, hn, hl⟩ := ans.2 rfl
            exact ⟨i, n, Reach.parent hgrp hp r, hn, hl⟩
    · rename_i children
      refine wp_mono (wp_anyM (fun (c : Nat) => LooseAns s c false) (fun c => LooseAns s c true)
        children _ s (fun x _ => ?_)) ?_
      · refine wp_mono (ih x s) ?_
        intro b s' ⟨e, ans⟩
        exact ⟨e, fun hb => hb ▸ ans, fun hb => hb ▸ ans⟩
      · intro b s' ⟨e, h1, h2⟩
        refine ⟨e, fun hb j r m hm => ?_, fun hb => ?_⟩
        · cases r with
          | row k1 => rw [hgrp] at k1; cases k1
          | router k1 => rw [hgrp] at k1; cases k1
          | parent k1 => rw [hgrp] at k1; cases k1
          | child k1 hp r =>
            rw [hgrp] at k1; injection k1 with k1; injection k1 with k1; subst k1
            exact (h1 hb _ hp).1 rfl j r m hm
        · obtain ⟨c, hc, ans⟩ := h2 hb
          obtain ⟨i, n, r, hn, hl⟩ := ans.2 rfl
          exact ⟨i, n, Reach.child hgrp hc r, hn, hl⟩

/-! ### `add_exit` of a block -/

theorem connectIfLoose_conn (fuel : Nat) (d : Dest) (ch : Nat) (s : St) :
    wp (connectIfLoose fuel d ch) s (fun _ s' => Conn d (Reach s.groups ch) s s') := by
  unfold connectIfLoose
  wp_simp
  refine wp_mono (hasLoose_spec fuel ch s) ?_
  intro b s1 ⟨e, ans⟩
  subst e
  refine ⟨fun _ => connectLoose_conn d fuel ch s1, fun hb => ?_⟩
  have hb' : b = false := by cases b <;> simp_all
  refine ⟨OnlyNodes.refl _, fun i n hn => ⟨fun r => ?_, fun _ => hn⟩⟩
  rw [connectLoose_of_not_loose n d (ans.1 hb' i r n hn)]; exact hn

/-- **an edge naming a block**: `add_exit` of a block group succeeds only for a blank condition and a
block with some loose exit, and then connects exactly the nodes reached from the block -/
theorem addExit_block_conn (fuel g : Nat) (d : Dest) (c : Cond) (s : St) (children : List Nat)
    (hg : s.groups[g]? = some (.block children)) :
    wp (addExit fuel g d c) s (fun _ s' =>
      c.blank = true ∧ Conn d (Reach s.groups g) s s' ∧
      ∃ (i : Nat) (n : NodeM), Reach s.groups g i ∧ s.nodes[i]? = some n ∧ n.hasLoose = true) := by
  cases fuel with
  | zero => unfold addExit; wp_simp
  | succ fuel =>
    unfold addExit
    wp_simp [wp_getGrp]
    intro grp hgrp
    rw [hg] at hgrp; injection hgrp with hgrp; subst hgrp
    wp_simp
    refine ⟨fun hc => ?_, fun _ => trivial⟩
    refine wp_mono (hasLoose_spec (fuel + 1) g s) ?_
    intro b s1 ⟨e, ans⟩
    subst e
    refine ⟨fun hb => ?_, fun _ => trivial⟩
    refine wp_mono (conn_forM d s1.groups (fun (c : Nat) => Reach s1.groups c) children _
      (fun x _ s2 hs2 => by have := connectIfLoose_conn (fuel + 1) d x s2; rw [hs2] at this; exact this) s1 rfl) ?_
    intro _ s' cn
    refine ⟨hc, cn.congr (fun j => ⟨fun ⟨p, hp, r⟩ => Reach.child hg hp r, fun r => ?_⟩), ans.2 hb⟩
    cases r with
    | row h1 => rw [hg] at h1; cases h1
    | router h1 => rw [hg] at h1; cases h1
    | parent h1 => rw [hg] at h1; cases h1
    | child h1 hp r =>
      rw [hg] at h1; injection h1 with h1; injection h1 with h1; subst h1
      exact ⟨_, hp, r⟩

/-! ### where the reached nodes live -/

/-- every `no_op` group below `b` that has no router node has all its parents below `b` -/
def NoParentLeak (gs : Array Grp) (b : Nat) : Prop :=
  ∀ (x : Nat) (ps : List (Nat × Cond)) (p : Nat × Cond), Desc (kidsF gs) b x →
    gs[x]? = some (.noop ps none) → p ∈ ps → Desc (kidsF gs) b p.1

/-- node `i` is held by a group of the subtree of `b` -/
def InSubtree (gs : Array Grp) (b i : Nat) : Prop :=
  ∃ (y : Nat) (grp : Grp), Desc (kidsF gs) b y ∧ gs[y]? = some grp ∧ i ∈ held grp

theorem reach_in_subtree {gs : Array Grp} {b : Nat} (h : NoParentLeak gs b) :
    ∀ {x i : Nat}, Reach gs x i → Desc (kidsF gs) b x → InSubtree gs b i := by
  intro x i r
  induction r with
  | @row g nodes t i h1 h2 =>
    intro hd
    exact ⟨g, _, hd, h1, by simp only [held]; exact List.mem_of_getLast? h2⟩
  | @router g ps i h1 =>
    intro hd
    exact ⟨g, _, hd, h1, by simp [held]⟩
  | @parent g ps p i h1 hp _ ih =>
    intro hd
    exact ih (h g ps p hd h1 hp)
  | @child g ch c i h1 hc _ ih =>
    intro hd
    exact ih (hd.snoc (by simp [kidsF, h1, kids]) hc)

/-! ### what connecting leaves alone in a node -/

theorem renderCat_fillCat (d : Dest) (c : Cat) : renderCat (fillCat d c) = renderCat c := by
  unfold fillCat; split <;> rfl

theorem fillCat_uid (d : Dest) (c : Cat) : (fillCat d c).uid = c.uid := by unfold fillCat; split <;> rfl

theorem renderExit_fillCat_uuid (d : Dest) (c : Cat) : (renderExit (fillCat d c)).uuid = (renderExit c).uuid := by
  unfold fillCat; split <;> rfl

theorem renderRouter_sw_fill (d : Dest) (r : SwitchR) :
    renderRouter (.sw (r.mapCats (fillCat d))) = renderRouter (.sw r) := by
  have e6 : List.map (renderCat ∘ fillCat d) r.allCats = List.map renderCat r.allCats :=
    List.map_congr_left (fun c _ => renderCat_fillCat d c)
  simp only [renderRouter, allCats_mapCats, List.map_map, e6]
  simp only [SwitchR.mapCats, fillCat_uid]
  rcases r.noResp with _ | c <;> rcases r.wait with _ | _ | w <;> simp [fillCat_uid]

theorem renderRouter_rnd_fill (d : Dest) (r : RandomR) :
    renderRouter (.rnd { r with cats := r.cats.map (fillCat d) }) = renderRouter (.rnd r) := by
  have e6 : List.map (renderCat ∘ fillCat d) r.cats = List.map renderCat r.cats :=
    List.map_congr_left (fun c _ => renderCat_fillCat d c)
  simp only [renderRouter, List.map_map, e6]

/-- connecting changes nothing but destinations: identifier, actions, router (operand, cases,
categories, timeout) and the identifiers of the exits stay -/
theorem connectLoose_render (n : NodeM) (d : Dest) :
    (renderNode (n.connectLoose d)).uuid = (renderNode n).uuid ∧
    (renderNode (n.connectLoose d)).actions = (renderNode n).actions ∧
    (renderNode (n.connectLoose d)).router = (renderNode n).router ∧
    (renderNode (n.connectLoose d)).exits.map (·.uuid) = (renderNode n).exits.map (·.uuid) := by
  rw [connectLoose_eq]
  rcases hr : n.router with _ | r | r
  · simp only
    split <;> simp [renderNode, hr]
  · refine ⟨rfl, rfl, ?_, ?_⟩
    · simp only [renderNode, hr, Option.map_some, renderRouter_sw_fill]
    · simp only [renderNode, hr, allCats_mapCats, List.map_map]
      exact List.map_congr_left (fun c _ => renderExit_fillCat_uuid d c)
  · refine ⟨rfl, rfl, ?_, ?_⟩
    · simp only [renderNode, hr, Option.map_some, renderRouter_rnd_fill]
    · simp only [renderNode, hr, List.map_map]
      exact List.map_congr_left (fun c _ => renderExit_fillCat_uuid d c)

end Rpft.Compile
