/-
Helper lemmas for C17: the exporter model is equivariant under injective renamings.
-/
import Rpft.Export
set_option linter.unusedSimpArgs false
set_option linter.unusedVariables false
set_option linter.unusedSectionVars false
namespace Rpft.Export
open Function

variable {U V : Type} [DecidableEq U] [DecidableEq V] {ρ : U → V}

theorem mem_map_inj (h : Injective ρ) {a : U} {l : List U} : ρ a ∈ l.map ρ ↔ a ∈ l := by
  constructor
  · intro hm
    obtain ⟨b, hb, e⟩ := List.mem_map.1 hm
    exact h e ▸ hb
  · intro ha
    exact List.mem_map.2 ⟨a, ha, rfl⟩

theorem TempId.map_injective (h : Injective ρ) : Injective (TempId.map (U := U) ρ) := by
  intro a b e
  obtain ⟨a1, a2⟩ := a
  obtain ⟨b1, b2⟩ := b
  simp only [TempId.map, Prod.mk.injEq] at e
  obtain ⟨e1, e2⟩ := e
  subst e2
  cases a1 <;> cases b1 <;> simp [Sum.map] at e1 ⊢
  · exact h e1
  · exact e1

theorem TempId.map_eq_iff (h : Injective ρ) {a b : TempId U} : TempId.map ρ a = TempId.map ρ b ↔ a = b :=
  ⟨fun e => TempId.map_injective h e, fun e => e ▸ rfl⟩

@[simp] theorem NodeX.map_uuid (n : NodeX U) : (NodeX.map ρ n).uuid = ρ n.uuid := rfl
@[simp] theorem NodeX.map_short (n : NodeX U) : (NodeX.map ρ n).short = n.short := rfl
@[simp] theorem NodeX.map_rows (n : NodeX U) : (NodeX.map ρ n).rows = n.rows.map (fun po => (po.1, po.2.map ρ)) := rfl
@[simp] theorem NodeX.map_edges (n : NodeX U) : (NodeX.map ρ n).edges = n.edges.map (fun le => (le.1, le.2.map ρ)) := rfl

theorem findNode_map (h : Injective ρ) (f : FlowX U) (u : U) :
    findNode (mapU ρ f) (ρ u) = (findNode f u).map (NodeX.map ρ) := by
  induction f with
  | nil => rfl
  | cons n f ih =>
    have ih' : List.find? (fun n => decide (n.uuid = ρ u)) (List.map (NodeX.map ρ) f)
        = Option.map (NodeX.map ρ) (List.find? (fun n => decide (n.uuid = u)) f) := ih
    simp only [findNode, mapU, List.map_cons, List.find?_cons]
    by_cases hu : n.uuid = u
    · simp [hu]
    · have : ρ n.uuid ≠ ρ u := fun e => hu (h e)
      simp only [NodeX.map_uuid, this, hu, decide_false]
      exact ih'

theorem rowId_map (n : NodeX U) (i : Nat) : rowId (NodeX.map ρ n) i = TempId.map ρ (rowId n i) := by
  simp [rowId, TempId.map, Sum.map]

theorem mkRowsFrom_map (n : NodeX U) (i : Nat) (pe : EdgeT U) (rs : List (Payload × Option U)) :
    mkRowsFrom (NodeX.map ρ n) i (EdgeT.map ρ pe) (rs.map (fun po => (po.1, po.2.map ρ)))
      = (mkRowsFrom n i pe rs).map (RowT.map ρ) := by
  induction rs generalizing i pe with
  | nil => rfl
  | cons r rs ih =>
    obtain ⟨p, o⟩ := r
    simp only [List.map_cons, mkRowsFrom]
    have := ih (i + 1) ⟨some (rowId n i), blankLabel⟩
    simp only [EdgeT.map, Option.map_some, ← rowId_map] at this
    rw [this]
    simp [RowT.map, rowId_map, EdgeT.map]

theorem mkRows_map (n : NodeX U) (pe : EdgeT U) :
    mkRows (NodeX.map ρ n) (EdgeT.map ρ pe) = (mkRows n pe).map (RowT.map ρ) := by
  simp [mkRows, mkRowsFrom_map]

theorem prependEdge_map (h : Injective ρ) (tid : TempId U) (e : EdgeT U) (rows : List (RowT U)) :
    prependEdge (TempId.map ρ tid) (EdgeT.map ρ e) (rows.map (RowT.map ρ))
      = (prependEdge tid e rows).map (RowT.map ρ) := by
  simp only [prependEdge, List.map_map]
  apply List.map_congr_left
  intro r _
  simp only [Function.comp]
  have : (RowT.map ρ r).id = TempId.map ρ r.id := rfl
  rw [this]
  by_cases hr : r.id = tid
  · simp [hr, RowT.map]
  · have : TempId.map ρ r.id ≠ TempId.map ρ tid := fun e => hr (TempId.map_injective h e)
    simp [hr, this]

theorem gotoRow_map (k : Nat) (child : NodeX U) (e : EdgeT U) :
    gotoRow k (NodeX.map ρ child) (EdgeT.map ρ e) = RowT.map ρ (gotoRow k child e) := by
  simp [gotoRow, RowT.map, rowId_map, TempId.map, Sum.map]

/-- `Except.map` spelled out (no monad lemmas needed) -/
def exMap {α β : Type} (g : α → β) : Except Err α → Except Err β
  | .ok a => .ok (g a)
  | .error e => .error e

theorem loop_map (h : Injective ρ) (f : FlowX U)
    (rc : NodeX U → EdgeT U → St U → Except Err (St U))
    (rc' : NodeX V → EdgeT V → St V → Except Err (St V))
    (hrc : ∀ n e s, rc' (NodeX.map ρ n) (EdgeT.map ρ e) (St.map ρ s) = exMap (St.map ρ) (rc n e s))
    (fromId : TempId U) (es : List (Label × Option U)) (st : St U) :
    loop (mapU ρ f) rc' (TempId.map ρ fromId) (es.map (fun le => (le.1, le.2.map ρ))) (St.map ρ st)
      = exMap (St.map ρ) (loop f rc fromId es st) := by
  induction es generalizing st with
  | nil => rfl
  | cons le es ih =>
    obtain ⟨lab, d⟩ := le
    cases d with
    | none => simpa [loop] using ih st
    | some d =>
      simp only [List.map_cons, Option.map_some, loop, findNode_map h]
      cases hfn : findNode f d with
      | none => simp [exMap]
      | some child =>
        simp only [Option.map_some, NodeX.map_uuid]
        have e1 : (⟨some (TempId.map ρ fromId), lab⟩ : EdgeT V) = EdgeT.map ρ ⟨some fromId, lab⟩ := rfl
        have hc : (St.map ρ st).completed = st.completed.map ρ := rfl
        have hv : (St.map ρ st).visited = st.visited.map ρ := rfl
        rw [hc, hv]
        simp only [mem_map_inj h]
        by_cases h1 : child.uuid ∈ st.completed
        · simp only [h1, if_true]
          rw [← ih, e1, rowId_map]
          congr 1
          simp only [St.map, prependEdge_map h]
        · simp only [h1, if_false]
          by_cases h2 : child.uuid ∈ st.visited
          · simp only [h2, if_true]
            rw [← ih, e1, gotoRow_map]
            congr 1
          · simp only [h2, if_false]
            rw [e1, hrc]
            cases rc child ⟨some fromId, lab⟩ st with
            | error e => simp [exMap]
            | ok st' => simpa [exMap] using ih st'

theorem dfs_map (h : Injective ρ) (f : FlowX U) (fuel : Nat) (n : NodeX U) (pe : EdgeT U) (st : St U) :
    dfs (mapU ρ f) fuel (NodeX.map ρ n) (EdgeT.map ρ pe) (St.map ρ st)
      = exMap (St.map ρ) (dfs f fuel n pe st) := by
  induction fuel generalizing n pe st with
  | zero => rfl
  | succ fuel ih =>
    simp only [dfs]
    by_cases hr : n.rows = []
    · simp [hr, exMap]
    · have hr' : ¬ (NodeX.map ρ n).rows = [] := by simpa using hr
      simp only [hr, hr', if_false]
      have hl := loop_map h f (dfs f fuel) (dfs (mapU ρ f) fuel) (fun n e s => ih n e s)
        (rowId n (n.rows.length - 1)) n.edges.reverse { st with visited := n.uuid :: st.visited }
      have hst : St.map ρ { st with visited := n.uuid :: st.visited }
          = { St.map ρ st with visited := ρ n.uuid :: (St.map ρ st).visited } := by simp [St.map]
      rw [hst, ← rowId_map] at hl
      simp only [NodeX.map_rows, List.length_map, NodeX.map_edges, ← List.map_reverse, NodeX.map_uuid] at hl ⊢
      rw [hl]
      cases loop f (dfs f fuel) (rowId n (n.rows.length - 1)) n.edges.reverse { st with visited := n.uuid :: st.visited } with
      | error e => simp [exMap]
      | ok st2 => simp [exMap, St.map, mkRows_map]

theorem toRowsT_map (h : Injective ρ) (f : FlowX U) :
    toRowsT (mapU ρ f) = exMap (List.map (RowT.map ρ)) (toRowsT f) := by
  cases f with
  | nil => rfl
  | cons n0 f =>
    have := dfs_map h (n0 :: f) ((n0 :: f).length + 1) n0 ⟨none, blankLabel⟩ ⟨[], [], [], 0⟩
    simp only [toRowsT, mapU, List.map_cons, List.length_cons, List.length_map] at this ⊢
    have e0 : (⟨none, blankLabel⟩ : EdgeT V) = EdgeT.map ρ ⟨none, blankLabel⟩ := rfl
    have s0 : (⟨[], [], [], 0⟩ : St V) = St.map ρ ⟨[], [], [], 0⟩ := rfl
    rw [e0, s0, this]
    cases dfs (n0 :: f) (f.length + 1 + 1) n0 ⟨none, blankLabel⟩ ⟨[], [], [], 0⟩ with
    | error e => simp [exMap]
    | ok st => simp [exMap, St.map]

/-! ### the remapping never looks inside a temp id -/

def mapKeys (ρ : U → V) (d : Dict (TempId U) Str) : Dict (TempId V) Str := d.map (fun kv => (TempId.map ρ kv.1, kv.2))

theorem dictSet_map (h : Injective ρ) (d : Dict (TempId U) Str) (k : TempId U) (v : Str) :
    Dict.set (mapKeys ρ d) (TempId.map ρ k) v = mapKeys ρ (Dict.set d k v) := by
  induction d with
  | nil => rfl
  | cons kv d ih =>
    obtain ⟨k', v'⟩ := kv
    simp only [mapKeys, List.map_cons, Dict.set] at ih ⊢
    by_cases hk : k' = k
    · simp [hk]
    · have : TempId.map ρ k' ≠ TempId.map ρ k := fun e => hk (TempId.map_injective h e)
      simp [hk, this, ih]

theorem dictGet_map (h : Injective ρ) (d : Dict (TempId U) Str) (k : TempId U) :
    Dict.get (mapKeys ρ d) (TempId.map ρ k) = Dict.get d k := by
  induction d with
  | nil => rfl
  | cons kv d ih =>
    obtain ⟨k', v'⟩ := kv
    simp only [mapKeys, List.map_cons, Dict.get] at ih ⊢
    by_cases hk : k' = k
    · simp [hk]
    · have : TempId.map ρ k' ≠ TempId.map ρ k := fun e => hk (TempId.map_injective h e)
      simp [hk, this, ih]

theorem usedValues_map (d : Dict (TempId U) Str) : usedValues (mapKeys ρ d) = usedValues d := by
  simp [usedValues, mapKeys, List.map_map, Function.comp_def]

theorem buildTable_map (h : Injective ρ) (numbered : Bool) (idx : Nat) (rows : List (RowT U)) (d : Dict (TempId U) Str) :
    buildTable numbered idx (rows.map (RowT.map ρ)) (mapKeys ρ d) = exMap (mapKeys ρ) (buildTable numbered idx rows d) := by
  induction rows generalizing idx d with
  | nil => rfl
  | cons r rows ih =>
    have hid : (RowT.map ρ r).id = TempId.map ρ r.id := rfl
    have hid2 : (TempId.map ρ r.id).2 = r.id.2 := rfl
    simp only [List.map_cons, buildTable, hid, hid2, usedValues_map]
    cases numbered with
    | true => simp only [if_true, dictSet_map h, ih]
    | false =>
      simp only [Bool.false_eq_true, if_false]
      cases pickName r.id.2 (usedValues d) with
      | error e => simp [exMap]
      | ok new => simp only [dictSet_map h, ih]

theorem look_map (h : Injective ρ) (d : Dict (TempId U) Str) (k : TempId U) :
    look (mapKeys ρ d) (TempId.map ρ k) = look d k := by
  simp [look, dictGet_map h]

theorem lookFrom_map (h : Injective ρ) (d : Dict (TempId U) Str) (k : Option (TempId U)) :
    lookFrom (mapKeys ρ d) (k.map (TempId.map ρ)) = lookFrom d k := by
  cases k with
  | none => rfl
  | some k => simp [lookFrom, look_map h]

theorem remapEdges_map (h : Injective ρ) (d : Dict (TempId U) Str) (es : List (EdgeT U)) :
    remapEdges (mapKeys ρ d) (es.map (EdgeT.map ρ)) = remapEdges d es := by
  induction es with
  | nil => rfl
  | cons e es ih =>
    simp only [List.map_cons, remapEdges, ih]
    have : (EdgeT.map ρ e).from_ = e.from_.map (TempId.map ρ) := rfl
    rw [this, lookFrom_map h]
    rfl

theorem remapIds_map (h : Injective ρ) (d : Dict (TempId U) Str) (ks : List (TempId U)) :
    remapIds (mapKeys ρ d) (ks.map (TempId.map ρ)) = remapIds d ks := by
  induction ks with
  | nil => rfl
  | cons k ks ih => simp only [List.map_cons, remapIds, ih, look_map h]

theorem remapRow_map (h : Injective ρ) (d : Dict (TempId U) Str) (r : RowT U) :
    remapRow (mapKeys ρ d) (RowT.map ρ r) = remapRow d r := by
  simp only [remapRow, RowT.map, look_map h, remapIds_map h, remapEdges_map h]

theorem remapRows_map (h : Injective ρ) (d : Dict (TempId U) Str) (rs : List (RowT U)) :
    remapRows (mapKeys ρ d) (rs.map (RowT.map ρ)) = remapRows d rs := by
  induction rs with
  | nil => rfl
  | cons r rs ih => simp only [List.map_cons, remapRows, ih, remapRow_map h]

theorem remap_map (h : Injective ρ) (numbered : Bool) (rows : List (RowT U)) :
    remap numbered (rows.map (RowT.map ρ)) = remap numbered rows := by
  have := buildTable_map h numbered 0 rows []
  simp only [mapKeys, List.map_nil] at this
  simp only [remap, this]
  cases buildTable numbered 0 rows [] with
  | error e => simp [exMap]
  | ok d => simpa [exMap] using remapRows_map h d rows

theorem strippedRows_map (h : Injective ρ) (numbered : Bool) (f : FlowX U) :
    strippedRows numbered (mapU ρ f) = strippedRows numbered f := by
  simp only [strippedRows, toRowsT_map h]
  cases toRowsT f with
  | error e => simp [exMap]
  | ok rows => simpa [exMap] using remap_map h numbered rows

end Rpft.Export
