/-
Lock-step simulation between the compiler machine (`Compile.step` on `toEvent c`) and pass 1 of the
reference interpretation (`RefFlow.pass1Row` on `toRRow c`) for the rows of the fragment: after the
same prefix of the sheet, arena node `j` is the compiled form of row `j` with the out-edges
recorded for `j` so far.
-/
import Rpft.CoreSheet
import Rpft.Lemmas.CompileInvA4
import Rpft.Lemmas.RefFlowPass1
import Rpft.Lemmas.CompileChoice
import Mathlib.Data.List.Forall2
import Mathlib.Data.List.Infix
set_option linter.unusedSimpArgs false
set_option linter.unusedVariables false
namespace Rpft.CoreSheet
open Rpft Rpft.Compile Rpft.RefFlow

/-- destination `d` of a compiled exit is what the reference target means -/
def DestIs (ns : Array NodeM) (d : Dest) : Option Target → Prop
  | none => d = Dest.none
  | some (.row t) => ∃ m : NodeM, ns[t]? = some m ∧ d = Dest.node m.uid
  | some .exit => d = Dest.hard ∨ d = Dest.none

theorem DestIs.ext {ns ns' : Array NodeM} (h : NExt ns ns') {d : Dest} {t : Option Target}
    (hd : DestIs ns d t) : DestIs ns' d t := by
  cases t with
  | none => exact hd
  | some t =>
    cases t with
    | exit => exact hd
    | row k =>
      obtain ⟨m, hm, e⟩ := hd
      obtain ⟨m', hm', hu⟩ := h k m hm
      exact ⟨m', hm', by rw [e, hu]⟩

/-- the out-edges recorded so far that leave row `j`, in order -/
def outOf (st : P1) (j : Nat) : List OutEdge := st.out.reverse.filter (·.src = j)

theorem outOf_cons_same (st : P1) (e : OutEdge) :
    outOf { st with out := e :: st.out } e.src = outOf st e.src ++ [e] := by
  simp [outOf, List.filter_append]

theorem outOf_cons_other (st : P1) (e : OutEdge) (j : Nat) (h : e.src ≠ j) :
    outOf { st with out := e :: st.out } j = outOf st j := by
  simp [outOf, List.filter_append, h]

/-- an action row without conditional out-edges: one node, one exit -/
structure PlainSim (ns : Array NodeM) (n : NodeM) (act : Option Str) (es : List OutEdge) : Prop where
  kind : n.kind = NodeKind.basic
  router : n.router = none
  acts : n.actions.map (·.2) = act.toList
  dest : DestIs ns n.dexitDest ((es.getLast?).map (·.tgt))

/-- the `wait` attribute of the router of a deciding row -/
def waitOf (c : CRow) : Option Nat :=
  if c.row.type = "wait_for_response".toList then some (timeoutOf c.row) else none

/-- a deciding row: one node with a switch router; case `i` selects category `i`, whose exit leads
where the `i`-th test edge leads; the default category follows the last unconditional edge, the
"No Response" category (when there is a timeout) the last "no response" edge -/
structure SwitchSim (ns : Array NodeM) (n : NodeM) (c : CRow) (es : List OutEdge) (r : SwitchR) : Prop where
  kind : n.kind = NodeKind.switch
  acts : n.actions = []
  router : n.router = some (.sw r)
  operand : r.operand = operandOf c.row
  rname : r.resultName = some c.row.saveName
  wait : r.wait = waitOf c
  nrSome : r.noResp.isSome = true ↔ ∃ m, r.wait = some (m + 1)
  cases : r.cases.map (fun k => (k.type, k.args.map (·.getD []))) =
    (testsOf (kindOf c.row.type) es).map (fun e => refTest (kindOf c.row.type) e.cond)
  casecat : r.cases.map (·.catUid) = r.cats.map (·.uid)
  catd : List.Forall₂ (fun (cat : Cat) (e : OutEdge) => DestIs ns cat.dest (some e.tgt)) r.cats
    (testsOf (kindOf c.row.type) es)
  dflt : DestIs ns r.dflt.dest (((es.filter (·.cond.blank)).getLast?).map (·.tgt))
  nr : ∀ nr, r.noResp = some nr →
    DestIs ns nr.dest ((((es.filter (fun e => !e.cond.blank)).filter (fun e => isNR e.cond)).getLast?).map (·.tgt))

inductive NodeSim (ns : Array NodeM) (n : NodeM) (c : CRow) (es : List OutEdge) : Prop
  | plain : kindOf c.row.type = .action → PlainSim ns n c.row.action es → NodeSim ns n c es
  | sw (r : SwitchR) : (kindOf c.row.type = .wait ∨ kindOf c.row.type = .splitValue ∨ kindOf c.row.type = .splitGroup) →
      SwitchSim ns n c es r → NodeSim ns n c es

theorem NodeSim.ext {ns ns' : Array NodeM} (h : NExt ns ns') {n : NodeM} {c : CRow} {es : List OutEdge}
    (hs : NodeSim ns n c es) : NodeSim ns' n c es := by
  cases hs with
  | plain hk hp => exact .plain hk ⟨hp.kind, hp.router, hp.acts, hp.dest.ext h⟩
  | sw r hk hp =>
    refine .sw r hk ⟨hp.kind, hp.acts, hp.router, hp.operand, hp.rname, hp.wait, hp.nrSome, hp.cases, hp.casecat,
      ?_, hp.dflt.ext h, fun nr hnr => (hp.nr nr hnr).ext h⟩
    exact hp.catd.imp (fun _ _ hd => hd.ext h)

/-- `kn` nodes in the arena, `kg` rows fully processed (`kn = kg`, or `kn = kg + 1` while the edges
of row `kg` are being added) -/
structure Rel (rows : List CRow) (kn kg : Nat) (s : St) (st : P1) : Prop where
  nsize : s.nodes.size = kn
  gsize : s.groups.size = kg + 1
  root : s.groups[0]? = some (.block (List.range' 1 kg))
  grp : ∀ j, j < kg → ∃ c, rows[j]? = some c ∧ s.groups[j + 1]? = some (.row [j] c.row.type)
  stack : s.stack = [0]
  ids : s.rowIds = st.ids.map (fun p => (p.1, p.2 + 1))
  idlt : ∀ p ∈ st.ids, p.2 < kg
  prev : st.prev = if kg = 0 then none else some (kg - 1)
  srclt : ∀ e ∈ st.out, e.src < kg
  args : s.noArgs = RefFlow.noArgsTests
  node : ∀ j, j < kn → ∃ (n : NodeM) (c : CRow), s.nodes[j]? = some n ∧ rows[j]? = some c ∧
    NodeSim s.nodes n c (outOf st j)

/-- the node of row `j` is replaced (same identifier) by one that accounts for the new out-edge -/
theorem Rel.update {rows : List CRow} {kn kg : Nat} {s s' : St} {st : P1} (h : Rel rows kn kg s st)
    {j : Nat} {n n' : NodeM} {c : CRow} (new : OutEdge) (hsrc : new.src = j) (hj : j < kg)
    (hn : s.nodes[j]? = some n) (hc : rows[j]? = some c) (hu : n'.uid = n.uid)
    (hn' : s'.nodes[j]? = some n') (hoth : ∀ i, i ≠ j → s'.nodes[i]? = s.nodes[i]?)
    (hsz : s'.nodes.size = s.nodes.size) (hg : s'.groups = s.groups) (hst : s'.stack = s.stack)
    (hri : s'.rowIds = s.rowIds) (hna : s'.noArgs = s.noArgs)
    (hsim : NodeSim s'.nodes n' c (outOf st j ++ [new])) :
    Rel rows kn kg s' { st with out := new :: st.out } ∧ NExt s.nodes s'.nodes := by
  have hext : NExt s.nodes s'.nodes := by
    intro i m hm
    by_cases hij : i = j
    · subst hij; rw [hn] at hm; injection hm with hm; subst hm; exact ⟨n', hn', hu⟩
    · exact ⟨m, by rw [hoth i hij]; exact hm, rfl⟩
  refine ⟨⟨by rw [hsz]; exact h.nsize, by rw [hg]; exact h.gsize, by rw [hg]; exact h.root,
    by rw [hg]; exact h.grp, by rw [hst]; exact h.stack, by rw [hri]; exact h.ids, h.idlt, h.prev, ?_,
    by rw [hna]; exact h.args, ?_⟩, hext⟩
  · intro o ho
    simp only [List.mem_cons] at ho
    rcases ho with rfl | ho
    · rw [hsrc]; exact hj
    · exact h.srclt o ho
  · intro j' hj'
    by_cases hjj : j' = j
    · subst hjj
      refine ⟨n', c, hn', hc, ?_⟩
      have := outOf_cons_same st new
      rw [hsrc] at this
      rw [this]; exact hsim
    · obtain ⟨m, c', hm, hc', hp'⟩ := h.node j' hj'
      refine ⟨m, c', by rw [hoth j' hjj]; exact hm, hc', ?_⟩
      rw [outOf_cons_other st new j' (fun e1 => hjj (by rw [← e1, hsrc]))]
      exact hp'.ext hext

theorem lookup_ids (ids : List (Str × Nat)) (id : Str) :
    ((ids.map (fun p => (p.1, p.2 + 1))).find? (·.1 = id)).map (·.2) = (lookupId ids id).map (· + 1) := by
  unfold lookupId
  rw [List.find?_map]
  simp [Option.map_map, Function.comp_def]

theorem mostRecent_root (gs : Array Grp) (kg : Nat) (h : gs[0]? = some (.block (List.range' 1 kg))) :
    mostRecentIn gs [0] = if kg = 0 then none else some kg := by
  simp only [mostRecentIn, h]
  cases kg with
  | zero => simp
  | succ k =>
    have : (List.range' 1 (k + 1)).getLast? = some (k + 1) := by
      rw [List.range'_concat]; simp; omega
    simp [this]

theorem wp_fuelOf (s : St) (Q : Nat → St → Prop) : wp fuelOf s Q ↔ Q (2 * s.groups.size + 8) s := by
  unfold fuelOf; wp_simp

theorem wp_groupOfEdge (e : Compile.Edge) (s : St) (Q : Option Nat → St → Prop) :
    wp (groupOfEdge e) s Q ↔
      if e.from_ = "start".toList then Q none s
      else if e.from_ = [] then Q (mostRecentIn s.groups s.stack) s
      else match (s.rowIds.find? (·.1 = e.from_)).map (·.2) with
        | some g => Q (some g) s
        | none => True := by
  unfold groupOfEdge lookupRow mostRecent
  by_cases hs : e.from_ = "start".toList
  · simp only [hs, if_true]; wp_simp
  · by_cases hemp : e.from_ = []
    · have : ¬ ([] : Str) = "start".toList := by decide
      simp only [hemp, this, if_true, if_false]; wp_simp; simp
    · simp only [hs, hemp, if_false]
      wp_simp [List.isEmpty_iff, hemp]
      simp only [not_false_eq_true, true_implies, not_true_eq_false, false_implies, and_true]
      generalize Option.map (fun x => x.snd) (List.find? (fun x => decide (x.fst = e.from_)) s.rowIds) = o
      cases o <;> wp_simp

theorem toRCond_blank (c : Compile.Cond) : (toRCond c).blank = c.blank := rfl

/-! ### list facts about the out-edges of one row -/

theorem getLast?_append_singleton {α} (l : List α) (a : α) : (l ++ [a]).getLast? = some a := by
  simp [List.getLast?_append]

theorem testsOf_append_skip (k : Kind) (es : List OutEdge) (e : OutEdge)
    (h : e.cond.blank = true ∨ (k = .wait ∧ isNR e.cond = true)) : testsOf k (es ++ [e]) = testsOf k es := by
  unfold testsOf
  rw [List.filter_append, List.filter_append]
  rcases h with h | ⟨h1, h2⟩
  · simp [h]
  · by_cases hb : e.cond.blank = true
    · simp [hb]
    · simp [hb, h1, h2]

theorem testsOf_append_test (k : Kind) (es : List OutEdge) (e : OutEdge) (hb : e.cond.blank = false)
    (h : ¬ (k = .wait ∧ isNR e.cond = true)) : testsOf k (es ++ [e]) = testsOf k es ++ [e] := by
  unfold testsOf
  rw [List.filter_append, List.filter_append]
  have : (decide (k = Kind.wait) && isNR e.cond) = false := by
    by_cases h1 : k = .wait
    · have : isNR e.cond = false := by
        cases hh : isNR e.cond
        · rfl
        · exact absurd ⟨h1, hh⟩ h
      simp [h1, this]
    · simp [h1]
  simp only [Bool.and_eq_false_iff, decide_eq_false_iff_not] at this
  simp [hb, this]

theorem blanks_append_blank (es : List OutEdge) (e : OutEdge) (h : e.cond.blank = true) :
    (es ++ [e]).filter (·.cond.blank) = es.filter (·.cond.blank) ++ [e] := by
  simp [List.filter_append, h]

theorem blanks_append_cond (es : List OutEdge) (e : OutEdge) (h : e.cond.blank = false) :
    (es ++ [e]).filter (·.cond.blank) = es.filter (·.cond.blank) := by
  simp [List.filter_append, h]

theorem nrs_append_nr (es : List OutEdge) (e : OutEdge) (hb : e.cond.blank = false) (h : isNR e.cond = true) :
    ((es ++ [e]).filter (fun e => !e.cond.blank)).filter (fun e => isNR e.cond) =
      (es.filter (fun e => !e.cond.blank)).filter (fun e => isNR e.cond) ++ [e] := by
  simp [List.filter_append, hb, h]

theorem nrs_append_other (es : List OutEdge) (e : OutEdge) (h : e.cond.blank = true ∨ isNR e.cond = false) :
    ((es ++ [e]).filter (fun e => !e.cond.blank)).filter (fun e => isNR e.cond) =
      (es.filter (fun e => !e.cond.blank)).filter (fun e => isNR e.cond) := by
  rcases h with h | h
  · simp [List.filter_append, h]
  · by_cases hb : e.cond.blank = true
    · simp [List.filter_append, hb]
    · simp [List.filter_append, hb, h]

theorem isNR_toRCond (c : Compile.Cond) : isNR (toRCond c) = decide (Compile.lower c.value = "no response".toList) := rfl

theorem set_getElem?_self {ns : Array NodeM} {j : Nat} {n : NodeM} (n' : NodeM) (hn : ns[j]? = some n) :
    (ns.setIfInBounds j n')[j]? = some n' := by
  simp [Array.getElem?_setIfInBounds, (Array.getElem?_eq_some_iff.mp hn).1]

theorem set_getElem?_other (ns : Array NodeM) (j i : Nat) (n' : NodeM) (h : i ≠ j) :
    (ns.setIfInBounds j n')[i]? = ns[i]? := by
  simp [Array.getElem?_setIfInBounds, Ne.symm h]

theorem switch_type_of_kind {t : Str}
    (hk : kindOf t = .wait ∨ kindOf t = .splitValue ∨ kindOf t = .splitGroup) :
    t = "wait_for_response".toList ∨ t = "split_by_value".toList ∨ t = "split_by_group".toList := by
  by_cases h1 : t = "wait_for_response".toList
  · exact .inl h1
  by_cases h2 : t = "split_by_value".toList
  · exact .inr (.inl h2)
  by_cases h3 : t = "split_by_group".toList
  · exact .inr (.inr h3)
  exfalso
  unfold kindOf at hk
  rw [if_neg h1, if_neg h2, if_neg h3] at hk
  by_cases h4 : t = "split_random".toList
  · rw [if_pos h4] at hk; rcases hk with hk | hk | hk <;> cases hk
  rw [if_neg h4] at hk
  by_cases h5 : t = "start_new_flow".toList
  · rw [if_pos h5] at hk; rcases hk with hk | hk | hk <;> cases hk
  rw [if_neg h5] at hk
  by_cases h6 : t = "call_webhook".toList
  · rw [if_pos h6] at hk; rcases hk with hk | hk | hk <;> cases hk
  rw [if_neg h6] at hk
  by_cases h7 : t = "transfer_airtime".toList
  · rw [if_pos h7] at hk; rcases hk with hk | hk | hk <;> cases hk
  rw [if_neg h7] at hk
  by_cases h8 : t = "no_op".toList
  · rw [if_pos h8] at hk; rcases hk with hk | hk | hk <;> cases hk
  rw [if_neg h8] at hk
  by_cases h9 : t = "go_to".toList
  · rw [if_pos h9] at hk; rcases hk with hk | hk | hk <;> cases hk
  rw [if_neg h9] at hk
  by_cases h10 : t = "hard_exit".toList
  · rw [if_pos h10] at hk; rcases hk with hk | hk | hk <;> cases hk
  rw [if_neg h10] at hk
  by_cases h11 : t = "loose_exit".toList
  · rw [if_pos h11] at hk; rcases hk with hk | hk | hk <;> cases hk
  rw [if_neg h11] at hk
  rcases hk with hk | hk | hk <;> cases hk

theorem kindOf_wait : kindOf "wait_for_response".toList = .wait := by decide
theorem kindOf_value : kindOf "split_by_value".toList = .splitValue := by decide
theorem kindOf_group : kindOf "split_by_group".toList = .splitGroup := by decide

theorem hasGroup_not_noArgs : RefFlow.noArgsTests.contains "has_group".toList = false := by decide

theorem ne_wg : ¬ ("wait_for_response".toList = "split_by_group".toList) := by decide
theorem ne_wv : ¬ ("wait_for_response".toList = "split_by_value".toList) := by decide
theorem ne_vg : ¬ ("split_by_value".toList = "split_by_group".toList) := by decide
theorem ne_gv : ¬ ("split_by_group".toList = "split_by_value".toList) := by decide

/-- the test the compiler stores for a conditional edge leaving a deciding row is the reference's -/
theorem stored_test (t : Str) (cond : Compile.Cond)
    (htype : t = "wait_for_response".toList ∨ t = "split_by_value".toList ∨ t = "split_by_group".toList) :
    ((if (if t = "split_by_group".toList then "has_group".toList else cond.type).isEmpty = true
        then "has_any_word".toList
        else (if t = "split_by_group".toList then "has_group".toList else cond.type)),
      (if RefFlow.noArgsTests.contains
          (if (if t = "split_by_group".toList then "has_group".toList else cond.type).isEmpty = true
            then "has_any_word".toList
            else (if t = "split_by_group".toList then "has_group".toList else cond.type)) = true
        then ([] : List (Option Str))
        else (if t = "split_by_group".toList then [none, some cond.value] else [some cond.value])).map (·.getD [])) =
      refTest (kindOf t) (toRCond cond) := by
  have hne : ("has_group".toList).isEmpty = false := by decide
  have plain : ∀ (k : Kind), k ≠ .splitGroup →
      ((if cond.type.isEmpty = true then "has_any_word".toList else cond.type),
        (if RefFlow.noArgsTests.contains (if cond.type.isEmpty = true then "has_any_word".toList else cond.type) = true
          then ([] : List (Option Str)) else [some cond.value]).map (·.getD [])) = refTest k (toRCond cond) := by
    intro k hk
    unfold refTest
    rw [if_neg hk]
    unfold RefFlow.condTest toRCond
    simp only
    generalize (if cond.type.isEmpty = true then "has_any_word".toList else cond.type) = ty
    cases RefFlow.noArgsTests.contains ty <;> rfl
  rcases htype with h | h | h
  · subst h
    simp only [ne_wg, if_false]
    rw [kindOf_wait]
    exact plain _ (by decide)
  · subst h
    simp only [ne_vg, if_false]
    rw [kindOf_value]
    exact plain _ (by decide)
  · subst h
    simp only [if_true, hne, Bool.false_eq_true, if_false, hasGroup_not_noArgs]
    rw [kindOf_group]
    rfl

/-- the operand the compiler passes to `add_choice` leaves the operand of a deciding row alone -/
theorem operand_kept (t : Str) (cond : Compile.Cond) (n : NodeM) (r : SwitchR) (c : CRow) (hr : n.router = some (.sw r))
    (ht : c.row.type = t)
    (htype : t = "wait_for_response".toList ∨ t = "split_by_value".toList ∨ t = "split_by_group".toList)
    (hvar : t = "wait_for_response".toList → cond.var = []) (hop : r.operand = operandOf c.row) :
    (if (if t = "split_by_group".toList ∨ t = "split_by_value".toList
          then (Compile.operandOf n, (none : Option Nat))
          else if ¬ cond.var.isEmpty = true then (cond.var, none) else ("@input.text".toList, some 0)).1.isEmpty = true
      then r.operand
      else (if t = "split_by_group".toList ∨ t = "split_by_value".toList
          then (Compile.operandOf n, (none : Option Nat))
          else if ¬ cond.var.isEmpty = true then (cond.var, none) else ("@input.text".toList, some 0)).1) = r.operand := by
  have hsplit : (if (Compile.operandOf n).isEmpty = true then r.operand else Compile.operandOf n) = r.operand := by
    simp only [Compile.operandOf, hr]
    split <;> rfl
  rcases htype with h | h | h
  · have hv := hvar h
    subst h
    rw [if_neg (show ¬ ("wait_for_response".toList = "split_by_group".toList ∨
      "wait_for_response".toList = "split_by_value".toList) from fun hh => hh.elim ne_wg ne_wv), hv]
    have e0 : (if ¬ ([] : Str).isEmpty = true then (([] : Str), (none : Option Nat)) else ("@input.text".toList, some 0)) =
        ("@input.text".toList, some 0) := rfl
    rw [e0]
    have : ("@input.text".toList).isEmpty = false := by decide
    show (if ("@input.text".toList).isEmpty = true then r.operand else "@input.text".toList) = r.operand
    rw [this, if_neg (by decide : ¬ (false = true))]
    rw [hop]; unfold CoreSheet.operandOf
    rw [ht]
    have e1 : ¬ ("wait_for_response".toList = "start_new_flow".toList) := by decide
    have e2 : ¬ ("wait_for_response".toList = "call_webhook".toList) := by decide
    have e3 : ¬ ("wait_for_response".toList = "transfer_airtime".toList) := by decide
    rw [if_neg e1, if_neg e2, if_neg e3, if_pos rfl]
  · subst h
    rw [if_pos (show ("split_by_value".toList = "split_by_group".toList ∨
      "split_by_value".toList = "split_by_value".toList) from Or.inr rfl)]
    exact hsplit
  · subst h
    rw [if_pos (show ("split_by_group".toList = "split_by_group".toList ∨
      "split_by_group".toList = "split_by_value".toList) from Or.inl rfl)]
    exact hsplit

/-! ### one out-edge, by kind of the source row -/

section
variable (rows : List CRow) (kg : Nat) (u : Uid) (cond : Compile.Cond) (s : St) (st : P1) (j : Nat)
  (n : NodeM) (c : CRow)

/-- the out-edge the reference records -/
abbrev newEdge : OutEdge := { src := j, cond := toRCond cond, tgt := Target.row kg }

/-- what the state must look like afterwards -/
abbrev EdgePost : PUnit → St → Prop := fun _ s' =>
  Rel rows (kg + 1) kg s' { st with out := newEdge kg cond j :: st.out } ∧ NExt s.nodes s'.nodes

variable (h : Rel rows (kg + 1) kg s st) (hj : j < kg) (hn : s.nodes[j]? = some n) (hc : rows[j]? = some c)
  (hu : ∃ m, s.nodes[kg]? = some m ∧ m.uid = u)
include h hj hn hc hu

theorem destIs_new (n' : NodeM) (next : Nat) :
    DestIs ({ s with nodes := s.nodes.setIfInBounds j n', next := next } : St).nodes (Dest.node u)
      (some (Target.row kg)) := by
  obtain ⟨m, hm, hmu⟩ := hu
  have hjk : kg ≠ j := by omega
  exact ⟨m, by rw [set_getElem?_other _ _ _ _ hjk]; exact hm, by rw [hmu]⟩

/-- an action row is left unconditionally: its one exit now leads to the new row -/
theorem plain_edge_sim (hk : kindOf c.row.type = .action) (hp : PlainSim s.nodes n c.row.action (outOf st j))
    (he : cond.blank = true) :
    wp (rowExitBlank j n (.node u)) s (EdgePost rows kg cond s st j) := by
  unfold rowExitBlank
  split
  rotate_left
  · rename_i hk2; rw [hp.kind] at hk2; cases hk2
  · rename_i hk1 _; exact absurd hp.kind hk1
  wp_simp [wp_fresh', wp_setNode]
  have hext : NExt s.nodes (s.nodes.setIfInBounds j { n with dexitUid := tid s.next, dexitDest := .node u }) :=
    NExt.set hn rfl
  refine Rel.update h (newEdge kg cond j) rfl hj hn hc (n' := { n with dexitUid := tid s.next, dexitDest := .node u })
    rfl (set_getElem?_self _ hn) (fun i hi => set_getElem?_other _ _ _ _ hi) (by simp) rfl rfl rfl rfl ?_
  refine .plain hk ⟨hp.kind, hp.router, hp.acts, ?_⟩
  rw [getLast?_append_singleton]
  exact destIs_new rows kg u s st j n c h hj hn hc hu _ _

/-- an unconditional edge leaving a deciding row: the default category -/
theorem sw_blank_sim (r : SwitchR) (hk : kindOf c.row.type = .wait ∨ kindOf c.row.type = .splitValue ∨ kindOf c.row.type = .splitGroup)
    (hp : SwitchSim s.nodes n c (outOf st j) r) (he : cond.blank = true) :
    wp (rowExitBlank j n (.node u)) s (EdgePost rows kg cond s st j) := by
  unfold rowExitBlank
  split
  · rename_i hk2; rw [hp.kind] at hk2; cases hk2
  · rename_i hk2; rw [hp.kind] at hk2; cases hk2
  unfold updSwitch setDfltM
  wp_simp [wp_getNode, wp_setNode]
  intro n' hn'
  rw [hn] at hn'; injection hn' with hn'; subst hn'
  simp only [hp.router]
  wp_simp [wp_setNode]
  have heb : (newEdge kg cond j).cond.blank = true := by simpa [toRCond_blank] using he
  refine Rel.update h (newEdge kg cond j) rfl hj hn hc (n' := { n with router := some (.sw (r.setDflt (.node u))) })
    rfl (set_getElem?_self _ hn) (fun i hi => set_getElem?_other _ _ _ _ hi) (by simp) rfl rfl rfl rfl ?_
  have hext : NExt s.nodes (s.nodes.setIfInBounds j { n with router := some (.sw (r.setDflt (.node u))) }) :=
    NExt.set hn rfl
  refine .sw (r.setDflt (.node u)) hk ⟨hp.kind, hp.acts, rfl, hp.operand, hp.rname, hp.wait, hp.nrSome, ?_, hp.casecat, ?_, ?_, ?_⟩
  · rw [testsOf_append_skip _ _ _ (.inl heb)]; exact hp.cases
  · rw [testsOf_append_skip _ _ _ (.inl heb)]
    exact hp.catd.imp (fun _ _ hd => hd.ext hext)
  · rw [blanks_append_blank _ _ heb, getLast?_append_singleton]
    have := destIs_new rows kg u s st j n c h hj hn hc hu { n with router := some (.sw (r.setDflt (.node u))) } s.next
    simpa [SwitchR.setDflt] using this
  · intro nr hnr
    rw [nrs_append_other _ _ (.inl heb)]
    exact (hp.nr nr hnr).ext hext

/-- a "no response" edge leaving a `wait_for_response` row: the timeout category (or, without
timeout, nothing — on both sides) -/
theorem sw_nr_sim (r : SwitchR) (hk : kindOf c.row.type = .wait) (hp : SwitchSim s.nodes n c (outOf st j) r)
    (he : cond.blank = false) (hnr : Compile.lower cond.value = "no response".toList) :
    wp (rowExitNoResp j n (.node u)) s (EdgePost rows kg cond s st j) := by
  have heb : (newEdge kg cond j).cond.blank = false := by simpa [toRCond_blank] using he
  have hnr' : isNR (newEdge kg cond j).cond = true := by simp [isNR_toRCond, hnr]
  have htests : testsOf (kindOf c.row.type) (outOf st j ++ [newEdge kg cond j]) = testsOf (kindOf c.row.type) (outOf st j) :=
    testsOf_append_skip _ _ _ (.inr ⟨hk, hnr'⟩)
  unfold rowExitNoResp
  simp only [hp.router]
  split
  · rename_i nr w hnoresp hwait
    wp_simp [wp_setNode]
    have hext : NExt s.nodes (s.nodes.setIfInBounds j
        { n with router := some (.sw { r with noResp := some { nr with dest := .node u } }) }) := NExt.set hn rfl
    refine Rel.update h (newEdge kg cond j) rfl hj hn hc
      (n' := { n with router := some (.sw { r with noResp := some { nr with dest := .node u } }) })
      rfl (set_getElem?_self _ hn) (fun i hi => set_getElem?_other _ _ _ _ hi) (by simp) rfl rfl rfl rfl ?_
    refine .sw _ (.inl hk) ⟨hp.kind, hp.acts, rfl, hp.operand, hp.rname, hp.wait, ?_, ?_, hp.casecat, ?_, ?_, ?_⟩
    · simp only [Option.isSome_some, true_iff]; exact ⟨w, hwait⟩
    · rw [htests]; exact hp.cases
    · rw [htests]; exact hp.catd.imp (fun _ _ hd => hd.ext hext)
    · rw [blanks_append_cond _ _ heb]; exact hp.dflt.ext hext
    · intro nr' hnr''
      simp only [Option.some.injEq] at hnr''
      subst hnr''
      rw [nrs_append_nr _ _ heb hnr', getLast?_append_singleton]
      exact destIs_new rows kg u s st j n c h hj hn hc hu _ s.next
  · rename_i hnot
    wp_simp
    have hnone : r.noResp = none := by
      cases hnoresp : r.noResp with
      | none => rfl
      | some nr =>
        obtain ⟨m, hm⟩ := hp.nrSome.mp (by simp [hnoresp])
        exact absurd hm (by intro hm; exact hnot nr m hnoresp hm)
    refine Rel.update h (newEdge kg cond j) rfl hj hn hc (n' := n) rfl hn (fun i _ => rfl) rfl rfl rfl rfl rfl ?_
    refine .sw r (.inl hk) ⟨hp.kind, hp.acts, hp.router, hp.operand, hp.rname, hp.wait, hp.nrSome, ?_, hp.casecat, ?_, ?_, ?_⟩
    · rw [htests]; exact hp.cases
    · rw [htests]; exact hp.catd
    · rw [blanks_append_cond _ _ heb]; exact hp.dflt
    · intro nr hnr''; rw [hnone] at hnr''; cases hnr''

/-- a test edge leaving a deciding row: a new case and a new category at the end -/
theorem sw_test_sim (r : SwitchR) (hk : kindOf c.row.type = .wait ∨ kindOf c.row.type = .splitValue ∨ kindOf c.row.type = .splitGroup)
    (hp : SwitchSim s.nodes n c (outOf st j) r) (he : cond.blank = false)
    (hnr : kindOf c.row.type = .wait → Compile.lower cond.value ≠ "no response".toList)
    (hnrs : (kindOf c.row.type = .splitValue ∨ kindOf c.row.type = .splitGroup) →
      Compile.lower cond.value ≠ "no response".toList)
    (hvar : kindOf c.row.type = .wait → cond.var = []) (hname : cond.name = [])
    (hdist : ((testsOf (kindOf c.row.type) (outOf st j ++ [newEdge kg cond j])).map
      (fun e => refTest (kindOf c.row.type) e.cond)).Nodup) :
    wp (rowExitCond (j + 1) [j] c.row.type j n (.node u) cond) s (EdgePost rows kg cond s st j) := by
  have heb : (newEdge kg cond j).cond.blank = false := by simpa [toRCond_blank] using he
  have hnotnr : ¬ (kindOf c.row.type = .wait ∧ isNR (newEdge kg cond j).cond = true) := by
    rintro ⟨h1, h2⟩
    simp only [isNR_toRCond, decide_eq_true_eq] at h2
    exact hnr h1 h2
  have htests := testsOf_append_test (kindOf c.row.type) (outOf st j) (newEdge kg cond j) heb hnotnr
  rw [htests, List.map_append, List.nodup_append] at hdist
  -- the type of the row decides how the condition is read
  have htype := switch_type_of_kind hk
  unfold rowExitCond
  have hnb : n.kind ≠ NodeKind.basic := by rw [hp.kind]; intro hh; cases hh
  simp only [hnb, if_false]
  wp_simp
  unfold nodeAddChoice
  simp only [hp.router, hname]
  wp_simp [wp_setNode]
  -- the stored test is the reference's test
  have hstored0 := stored_test c.row.type cond htype
  generalize hty : (if (if c.row.type = "split_by_group".toList then "has_group".toList else cond.type).isEmpty = true
      then "has_any_word".toList
      else (if c.row.type = "split_by_group".toList then "has_group".toList else cond.type)) = ty at hstored0 ⊢
  generalize hargs : (if c.row.type = "split_by_group".toList then [none, some cond.value] else [some cond.value] :
      List (Option Str)) = args at hstored0 ⊢
  have hstored : (ty, (if s.noArgs.contains ty then [] else args).map (·.getD [])) =
      refTest (kindOf c.row.type) (newEdge kg cond j).cond := by
    rw [h.args]; exact hstored0
  refine addChoice_new r _ ty args (.node u) s ?_ _ ?_
  · -- no case with this test yet
    intro k hkm ⟨e1, e2⟩
    have hmem : (k.type, k.args.map (·.getD [])) ∈ r.cases.map (fun k => (k.type, k.args.map (·.getD []))) :=
      List.mem_map_of_mem hkm
    rw [hp.cases] at hmem
    have : (k.type, k.args.map (·.getD [])) = refTest (kindOf c.row.type) (newEdge kg cond j).cond := by
      rw [← hstored, e1, e2]
    rw [this] at hmem
    exact hdist.2.2 _ hmem _ (by simp) rfl
  · intro _
    wp_simp [wp_setNode]
    -- the operand does not change
    have hopd0 := operand_kept c.row.type cond n r c hp.router rfl htype
      (fun hw => hvar (by rw [hw]; exact kindOf_wait)) hp.operand
    generalize hop : (if c.row.type = "split_by_group".toList ∨ c.row.type = "split_by_value".toList
        then (Compile.operandOf n, (none : Option Nat))
        else if ¬ cond.var.isEmpty = true then (cond.var, none) else ("@input.text".toList, some 0)).1 = op at hopd0 ⊢
    have hopd : (if op.isEmpty = true then r.operand else op) = r.operand := hopd0
    rw [hopd]
    obtain ⟨r', hr'⟩ : ∃ r' : SwitchR, r' = { r with
        cats := r.cats ++ [{ uid := tid s.next, name := genCatName (if op.isEmpty = true then r else { r with operand := op }) args,
                             exitUid := tid (s.next + 1), dest := .node u }],
        cases := r.cases ++ [{ uid := tid (s.next + 2), type := ty,
                               args := if s.noArgs.contains ty = true then [] else args, catUid := tid s.next }] } := ⟨_, rfl⟩
    have hr'' : ({ r with
        operand := r.operand,
        cats := r.cats ++ [{ uid := tid s.next, name := genCatName (if op.isEmpty = true then r else { r with operand := op }) args,
                             exitUid := tid (s.next + 1), dest := .node u }],
        cases := r.cases ++ [{ uid := tid (s.next + 2), type := ty,
                               args := if s.noArgs.contains ty = true then [] else args, catUid := tid s.next }] } : SwitchR) = r' := by
      rw [hr']
    rw [hr'']
    have hext : NExt s.nodes (s.nodes.setIfInBounds j { n with router := some (.sw r') }) := NExt.set hn rfl
    refine Rel.update h (newEdge kg cond j) rfl hj hn hc (n' := { n with router := some (.sw r') })
      rfl (set_getElem?_self _ hn) (fun i hi => set_getElem?_other _ _ _ _ hi) (by simp) rfl rfl rfl rfl ?_
    have fcats : ∃ nm, r'.cats = r.cats ++ [{ uid := tid s.next, name := nm, exitUid := tid (s.next + 1), dest := .node u }] :=
      ⟨_, by rw [hr']⟩
    have fcases : r'.cases = r.cases ++ [{ uid := tid (s.next + 2), type := ty, args := if s.noArgs.contains ty = true then [] else args, catUid := tid s.next }] := by
      rw [hr']
    obtain ⟨nm, fcats⟩ := fcats
    have fop : r'.operand = r.operand := by rw [hr']
    have frn : r'.resultName = r.resultName := by rw [hr']
    have fw : r'.wait = r.wait := by rw [hr']
    have fnr : r'.noResp = r.noResp := by rw [hr']
    have fd : r'.dflt = r.dflt := by rw [hr']
    refine .sw r' hk ⟨hp.kind, hp.acts, rfl, by rw [fop]; exact hp.operand, by rw [frn]; exact hp.rname,
      by rw [fw]; exact hp.wait, by rw [fnr, fw]; exact hp.nrSome, ?_, ?_, ?_, ?_, ?_⟩
    · rw [htests, fcases]
      simp only [List.map_append, List.map_cons, List.map_nil, hp.cases]
      rw [hstored]
    · rw [fcases, fcats]; simp only [List.map_append, List.map_cons, List.map_nil, hp.casecat]
    · rw [htests, fcats]
      refine List.rel_append (hp.catd.imp (fun _ _ hd => hd.ext hext)) ?_
      refine List.Forall₂.cons ?_ List.Forall₂.nil
      exact destIs_new rows kg u s st j n c h hj hn hc hu _ (s.next + 3)
    · rw [blanks_append_cond _ _ heb, fd]; exact hp.dflt.ext hext
    · intro nr hnr''
      rw [fnr] at hnr''
      have hother : (newEdge kg cond j).cond.blank = true ∨ isNR (newEdge kg cond j).cond = false := by
        right
        cases hh : isNR (newEdge kg cond j).cond
        · rfl
        · -- a split row is never left by a "no response" edge, a wait row's would not be a test
          simp only [isNR_toRCond, decide_eq_true_eq] at hh
          rcases hk with h1 | h1 | h1
          · exact absurd hh (hnr h1)
          · exact absurd hh (hnrs (.inl h1))
          · exact absurd hh (hnrs (.inr h1))
      rw [nrs_append_other _ _ hother]
      exact (hp.nr nr hnr'').ext hext

end

/-! ### the single-meaning conditions, read off the reference's out-edges -/

/-- `outF`: all out-edges pass 1 records for the sheet -/
structure Good (rows : List CRow) (outF : List OutEdge) : Prop where
  ok : ∀ e ∈ outF, edgeOk rows e = true
  dist : ∀ (j : Nat) (c : CRow), rows[j]? = some c →
    ((testsOf (kindOf c.row.type) (outF.filter (·.src = j))).map (fun e => refTest (kindOf c.row.type) e.cond)).Nodup

theorem Good.nodup_prefix {rows : List CRow} {outF l : List OutEdge} (g : Good rows outF) (hl : l <+: outF)
    (j : Nat) (c : CRow) (hc : rows[j]? = some c) :
    ((testsOf (kindOf c.row.type) (l.filter (·.src = j))).map (fun e => refTest (kindOf c.row.type) e.cond)).Nodup := by
  refine List.Nodup.sublist ?_ (g.dist j c hc)
  unfold testsOf
  exact ((((hl.filter _).filter _).filter _).map _).sublist

/-- one out-edge from row `j` to the row being processed -/
theorem addExit_sim (rows : List CRow) (outF : List OutEdge) (g : Good rows outF) (kg : Nat) (u : Uid)
    (cond : Compile.Cond) (s : St) (st : P1) (j : Nat) (h : Rel rows (kg + 1) kg s st) (hj : j < kg)
    (hu : ∃ m, s.nodes[kg]? = some m ∧ m.uid = u)
    (hpre : (newEdge kg cond j :: st.out).reverse <+: outF) :
    wp (addExit (2 * s.groups.size + 8) (j + 1) (.node u) cond) s (EdgePost rows kg cond s st j) := by
  obtain ⟨cg, hcg, hg⟩ := h.grp j hj
  obtain ⟨n, c, hn, hc, hsim⟩ := h.node j (by omega)
  rw [hcg] at hc; injection hc with hc; subst hc
  have hc := hcg
  -- what the single-meaning conditions say about this edge
  have hok : edgeOk rows (newEdge kg cond j) = true :=
    g.ok _ (hpre.subset (by simp))
  have hdist := g.nodup_prefix hpre j cg hc
  have hfil : (newEdge kg cond j :: st.out).reverse.filter (·.src = j) = outOf st j ++ [newEdge kg cond j] := by
    simp [outOf, List.filter_append]
  rw [hfil] at hdist
  simp only [edgeOk, hc, Option.map_some, toRCond_blank, Bool.or_eq_true] at hok
  have hfuel : 2 * s.groups.size + 8 = (2 * s.groups.size + 7) + 1 := by omega
  rw [hfuel]
  unfold addExit
  wp_simp [wp_getGrp]
  intro grp hgrp
  rw [hg] at hgrp; injection hgrp with hgrp; subst hgrp
  simp only
  unfold rowAddExit
  simp only [List.getLast?_singleton]
  wp_simp [wp_getNode]
  intro n' hn'
  rw [hn] at hn'; injection hn' with hn'; subst hn'
  cases hsim with
  | plain hk hp =>
    have he : cond.blank = true := by
      rcases hok with hok | hok
      · exact hok
      · rw [hk] at hok; simp at hok
    have hkr : n.kind ≠ NodeKind.random := by rw [hp.kind]; intro hh; cases hh
    refine ⟨fun _ => plain_edge_sim rows kg u cond s st j n cg h hj hn hc hu hk hp he, fun hh => absurd ⟨he, hkr⟩ hh⟩
  | sw r hk hp =>
    have hkr : n.kind ≠ NodeKind.random := by rw [hp.kind]; intro hh; cases hh
    have hke : n.kind ≠ NodeKind.enter := by rw [hp.kind]; intro hh; cases hh
    have hkw : ¬ (n.kind = NodeKind.webhook ∨ n.kind = NodeKind.airtime) := by
      rw [hp.kind]; rintro (hh | hh) <;> cases hh
    by_cases he : cond.blank = true
    · exact ⟨fun _ => sw_blank_sim rows kg u cond s st j n cg h hj hn hc hu r hk hp he, fun hh => absurd ⟨he, hkr⟩ hh⟩
    · have he' : cond.blank = false := by simpa using he
      refine ⟨fun hh => absurd hh.1 he, fun _ => ⟨fun hh => absurd hh hke, fun _ => ⟨fun hh => absurd hh hkw, fun _ => ?_⟩⟩⟩
      have hok' : (match some (kindOf cg.row.type) with
          | some .wait => (toRCond cond).var.isEmpty && (toRCond cond).name.isEmpty
          | some .splitValue => !isNR (toRCond cond) && (toRCond cond).name.isEmpty
          | some .splitGroup => !isNR (toRCond cond) && (toRCond cond).name.isEmpty
          | _ => false) = true := by
        rcases hok with hok | hok
        · exact absurd hok he
        · exact hok
      by_cases hnr : Compile.lower cond.value = "no response".toList
      · -- only a wait row can be left by a "no response" edge
        have hkwait : kindOf cg.row.type = .wait := by
          rcases hk with h1 | h1 | h1
          · exact h1
          · rw [h1] at hok'; simp [isNR_toRCond, hnr] at hok'
          · rw [h1] at hok'; simp [isNR_toRCond, hnr] at hok'
        exact ⟨fun _ => sw_nr_sim rows kg u cond s st j n cg h hj hn hc hu r hkwait hp he' hnr,
          fun hh => absurd ⟨hp.kind, hnr⟩ hh⟩
      · refine ⟨fun hh => absurd hh.2 hnr, fun _ => ?_⟩
        have hname : cond.name = [] := by
          rcases hk with h1 | h1 | h1 <;> rw [h1] at hok' <;>
            simp only [Bool.and_eq_true, List.isEmpty_iff, toRCond] at hok' <;> exact hok'.2
        have hvar : kindOf cg.row.type = .wait → cond.var = [] := by
          intro h1; rw [h1] at hok'
          simp only [Bool.and_eq_true, List.isEmpty_iff, toRCond] at hok'; exact hok'.1
        exact sw_test_sim rows kg u cond s st j n cg h hj hn hc hu r hk hp he' (fun _ => hnr) (fun _ => hnr) hvar hname hdist

/-- one edge of the row being processed (node `kg`, identifier `u`): the compiler machine and pass 1
stay related -/
theorem edge_sim (rows : List CRow) (outF : List OutEdge) (g : Good rows outF) (kg : Nat) (u : Uid)
    (e : Compile.Edge) (s : St) (st st' : P1) (h : Rel rows (kg + 1) kg s st)
    (hu : ∃ m, s.nodes[kg]? = some m ∧ m.uid = u)
    (hst : (match edgeSrc st kg (toREdge e) with
      | .error err => Except.error err
      | .ok none => .ok st
      | .ok (some j) => .ok { st with out := { src := j, cond := toRCond e.cond, tgt := Target.row kg } :: st.out })
        = .ok st')
    (hpre : st'.out.reverse <+: outF) :
    wp (addRowEdge (.node u) e) s (fun _ s' => Rel rows (kg + 1) kg s' st' ∧ NExt s.nodes s'.nodes) := by
  -- the source group on the compiler side, the source row on the reference side
  have key : ∀ j, edgeSrc st kg (toREdge e) = .ok (some j) → j < kg →
      wp (addExit (2 * s.groups.size + 8) (j + 1) (.node u) e.cond) s (fun _ s' =>
        Rel rows (kg + 1) kg s' st' ∧ NExt s.nodes s'.nodes) := by
    intro j hsrc hj
    rw [hsrc] at hst
    simp only [Except.ok.injEq] at hst
    subst hst
    exact addExit_sim rows outF g kg u e.cond s st j h hj hu hpre
  unfold addRowEdge
  wp_simp [wp_groupOfEdge, wp_fuelOf]
  by_cases hs : e.from_ = "start".toList
  · -- no edge
    have : edgeSrc st kg (toREdge e) = .ok none := by simp [edgeSrc, toREdge, hs]
    rw [this] at hst; injection hst with hst; subst hst
    rw [if_pos hs]
    exact ⟨h, NExt.refl _⟩
  · rw [if_neg hs]
    by_cases hemp : e.from_ = []
    · -- blank `from`: the previous row
      have hsrc : edgeSrc st kg (toREdge e) = .ok st.prev := by
        simp only [edgeSrc, toREdge, hs, hemp, List.isEmpty_nil, if_true, if_false]
        cases st.prev <;> rfl
      rw [if_pos hemp, h.stack, mostRecent_root s.groups kg h.root]
      by_cases hk0 : kg = 0
      · have hsrc2 : edgeSrc st kg (toREdge e) = .ok none := by rw [hsrc, h.prev]; simp [hk0]
        rw [hsrc2] at hst
        simp only [hk0, if_true] at hst ⊢
        injection hst with hst; subst hst
        exact ⟨hk0 ▸ h, NExt.refl _⟩
      · have hsrc2 : edgeSrc st kg (toREdge e) = .ok (some (kg - 1)) := by rw [hsrc, h.prev]; simp [hk0]
        simp only [hk0, if_false]
        wp_simp [wp_fuelOf]
        have := key (kg - 1) hsrc2 (by omega)
        have e1 : kg - 1 + 1 = kg := by omega
        rw [e1] at this
        exact this
    · -- explicit `from`
      have hsrc : edgeSrc st kg (toREdge e) =
          match lookupId st.ids e.from_ with
          | some j => .ok (some j)
          | none => .error (.unknownFrom kg e.from_) := by
        simp only [edgeSrc, toREdge, hs, if_false, List.isEmpty_iff, hemp]
        rfl
      rw [if_neg hemp, h.ids, lookup_ids]
      cases hl : lookupId st.ids e.from_ with
      | none => simp only [Option.map_none]
      | some j =>
        simp only [Option.map_some]
        obtain ⟨p, hp, hpj⟩ := lookupId_mem hl
        exact key j (by rw [hsrc, hl]) (hpj ▸ h.idlt p hp)

/-! ### all edges of a row -/

/-- what pass 1 does with one edge -/
def edgeStep (st : P1) (k : Nat) (e : REdge) (t : Target) : Except WfErr P1 :=
  match edgeSrc st k e with
  | .error err => .error err
  | .ok none => .ok st
  | .ok (some j) => .ok { st with out := { src := j, cond := e.cond, tgt := t } :: st.out }

theorem addEdges_nil (st : P1) (k : Nat) : addEdges st k [] = .ok st := rfl

theorem addEdges_cons (st : P1) (k : Nat) (e : REdge) (t : Target) (es : List (REdge × Target)) :
    addEdges st k ((e, t) :: es) =
      match edgeStep st k e t with
      | .error err => .error err
      | .ok st1 => addEdges st1 k es := by
  simp only [addEdges, List.foldlM_cons, edgeStep, bind, Except.bind]
  cases edgeSrc st k e with
  | error err => rfl
  | ok o => cases o <;> rfl

theorem edgeStep_prefix {st st1 : P1} {k : Nat} {e : REdge} {t : Target} (h : edgeStep st k e t = .ok st1) :
    st.out.reverse <+: st1.out.reverse ∧ st1.ids = st.ids ∧ st1.prev = st.prev := by
  unfold edgeStep at h
  split at h
  · cases h
  · injection h with h; subst h; exact ⟨List.prefix_rfl, rfl, rfl⟩
  · injection h with h; subst h
    exact ⟨by simp only [List.reverse_cons]; exact List.prefix_append _ _, rfl, rfl⟩

theorem addEdges_prefix : ∀ (es : List (REdge × Target)) (st st' : P1) (k : Nat),
    addEdges st k es = .ok st' → st.out.reverse <+: st'.out.reverse := by
  intro es
  induction es with
  | nil => intro st st' k h; rw [addEdges_nil] at h; injection h with h; subst h; exact List.prefix_rfl
  | cons p es ih =>
    intro st st' k h
    obtain ⟨e, t⟩ := p
    rw [addEdges_cons] at h
    cases h1 : edgeStep st k e t with
    | error err => rw [h1] at h; cases h
    | ok st1 =>
      rw [h1] at h
      exact (edgeStep_prefix h1).1.trans (ih st1 st' k h)

theorem edges_sim (rows : List CRow) (outF : List OutEdge) (g : Good rows outF) (kg : Nat) (u : Uid) :
    ∀ (es : List Compile.Edge) (s : St) (st st' : P1),
      Rel rows (kg + 1) kg s st → (∃ m, s.nodes[kg]? = some m ∧ m.uid = u) →
      addEdges st kg (es.map fun e => (toREdge e, Target.row kg)) = .ok st' →
      st'.out.reverse <+: outF →
      wp (es.forM (addRowEdge (.node u))) s (fun _ s' =>
        Rel rows (kg + 1) kg s' st' ∧ NExt s.nodes s'.nodes) := by
  intro es
  induction es with
  | nil =>
    intro s st st' h _ hst _
    rw [List.map_nil, addEdges_nil] at hst
    injection hst with hst; subst hst
    rw [wp_forM_nil]; exact ⟨h, NExt.refl _⟩
  | cons e es ih =>
    intro s st st' h hu hst hpre
    rw [List.map_cons, addEdges_cons] at hst
    rw [wp_forM_cons]
    cases h1 : edgeStep st kg (toREdge e) (Target.row kg) with
    | error err => rw [h1] at hst; cases hst
    | ok st1 =>
      rw [h1] at hst
      simp only at hst
      have hpre1 : st1.out.reverse <+: outF := (addEdges_prefix _ _ _ _ hst).trans hpre
      refine wp_mono (edge_sim rows outF g kg u e s st st1 h hu h1 hpre1) ?_
      intro _ s1 ⟨r1, e1⟩
      obtain ⟨m, hm, hmu⟩ := hu
      obtain ⟨m', hm', hmu'⟩ := e1 kg m hm
      refine wp_mono (ih s1 st1 st' r1 ⟨m', hm', by rw [hmu', hmu]⟩ hst hpre) ?_
      intro _ s2 ⟨r2, e2⟩
      exact ⟨r2, e1.trans e2⟩

/-! ### one row -/

theorem not_special {t : Str} (h : specialTypes.contains t = false) :
    t ≠ "wait_for_response".toList ∧ t ≠ "split_by_value".toList ∧ t ≠ "split_by_group".toList ∧
    t ≠ "split_random".toList ∧ t ≠ "start_new_flow".toList ∧ t ≠ "call_webhook".toList ∧
    t ≠ "transfer_airtime".toList ∧ t ≠ "no_op".toList ∧ t ≠ "go_to".toList ∧ t ≠ "hard_exit".toList ∧
    t ≠ "loose_exit".toList ∧ t ≠ "insert_as_block".toList := by
  have hm : ∀ x ∈ specialTypes, t ≠ x := by
    intro x hx e
    have : specialTypes.contains t = true := by rw [List.contains_iff_mem, e]; exact hx
    rw [h] at this; cases this
  exact ⟨hm _ (by decide), hm _ (by decide), hm _ (by decide), hm _ (by decide), hm _ (by decide),
    hm _ (by decide), hm _ (by decide), hm _ (by decide), hm _ (by decide), hm _ (by decide),
    hm _ (by decide), hm _ (by decide)⟩

theorem kindOf_action {t : Str} (h : specialTypes.contains t = false) : kindOf t = .action := by
  obtain ⟨h1, h2, h3, h4, h5, h6, h7, h8, h9, h10, h11, _⟩ := not_special h
  unfold kindOf
  rw [if_neg h1, if_neg h2, if_neg h3, if_neg h4, if_neg h5, if_neg h6, if_neg h7, if_neg h8, if_neg h9,
    if_neg h10, if_neg h11]

theorem switch_type {t : Str} (h : switchTypes.contains t = true) :
    t = "wait_for_response".toList ∨ t = "split_by_value".toList ∨ t = "split_by_group".toList := by
  rw [List.contains_iff_mem] at h
  simp only [switchTypes, List.map_cons, List.map_nil, List.mem_cons, List.not_mem_nil, or_false] at h
  exact h

theorem kindOf_switch {t : Str}
    (h : t = "wait_for_response".toList ∨ t = "split_by_value".toList ∨ t = "split_by_group".toList) :
    kindOf t = .wait ∨ kindOf t = .splitValue ∨ kindOf t = .splitGroup := by
  rcases h with h | h | h <;> subst h
  · exact .inl kindOf_wait
  · exact .inr (.inl kindOf_value)
  · exact .inr (.inr kindOf_group)

/-- the node of an action row -/
theorem rowNode_plain (r : Row) (act : Option (Uid × Str)) (s : St) (h : specialTypes.contains r.type = false) :
    wp (rowNode r act) s (fun n s' => (∃ k, Bump s s' k) ∧ n.kind = NodeKind.basic ∧ n.router = none ∧
      n.actions = act.toList ∧ n.dexitDest = Dest.none) := by
  obtain ⟨h1, h2, h3, h4, h5, h6, h7, _, _, _, _, _⟩ := not_special h
  unfold rowNode
  wp_simp
  refine ⟨fun _ => ⟨fun _ => ?_, fun _ => ⟨fun hh => absurd hh h5, fun _ => ⟨fun hh => ?_, fun _ =>
    ⟨fun hh => absurd hh h1, fun _ => ⟨fun hh => absurd hh h2, fun _ => ⟨fun hh => absurd hh h3, fun _ =>
    ⟨fun hh => absurd hh h4, fun _ => ?_⟩⟩⟩⟩⟩⟩⟩, fun _ => trivial⟩
  · unfold basicNode
    wp_simp [wp_newBasic]
    refine wp_mono (nodeUid_spec _ _) ?_
    intro u s1 ⟨j, hb, _⟩; subst hb
    refine ⟨⟨j + 2, by simp [Bump, Nat.add_assoc]⟩, ?_⟩
    cases act <;> simp [NodeM.withAct]
  · rcases hh with hh | hh
    · exact absurd hh h6
    · exact absurd hh h7
  · unfold otherNode
    wp_simp [wp_fresh']
    refine wp_mono (nodeUid_spec _ _) ?_
    intro u s1 ⟨j, hb, _⟩; subst hb
    refine ⟨⟨j + 1, by simp [Bump, Nat.add_assoc]⟩, ?_⟩
    cases act <;> simp [NodeM.withAct]

/-- what a freshly built switch router looks like -/
structure FreshSw (sw : SwitchR) (operand : Str) (rn : Option Str) (wait : Option Nat) : Prop where
  operand : sw.operand = operand
  rname : sw.resultName = rn
  wait : sw.wait = wait
  nrSome : sw.noResp.isSome = true ↔ ∃ m, sw.wait = some (m + 1)
  cases : sw.cases = []
  cats : sw.cats = []
  dflt : sw.dflt.dest = Dest.none
  nr : ∀ nr, sw.noResp = some nr → nr.dest = Dest.none

theorem newSwitch_fresh (operand : Str) (rn : Option Str) (wait : Option Nat) (s : St) :
    wp (newSwitch operand rn wait) s (fun sw s' => (∃ k, Bump s s' k) ∧ FreshSw sw operand rn wait) := by
  rw [wp_newSwitch]
  rcases wait with _ | _ | m
  · exact ⟨⟨2, rfl⟩, ⟨rfl, rfl, rfl, by simp, rfl, rfl, rfl, by intro nr h; cases h⟩⟩
  · exact ⟨⟨2, rfl⟩, ⟨rfl, rfl, rfl, by simp, rfl, rfl, rfl, by intro nr h; cases h⟩⟩
  · refine ⟨⟨4, rfl⟩, ⟨rfl, rfl, rfl, by simp, rfl, rfl, rfl, ?_⟩⟩
    intro nr h; simp only [Option.some.injEq] at h; subst h; rfl

theorem not_basic_w : basicTypes.contains "wait_for_response".toList = false := by decide
theorem not_basic_v : basicTypes.contains "split_by_value".toList = false := by decide
theorem not_basic_g : basicTypes.contains "split_by_group".toList = false := by decide

/-- the node of a deciding row -/
theorem rowNode_switch (r : Row) (act : Option (Uid × Str)) (s : St)
    (ht : r.type = "wait_for_response".toList ∨ r.type = "split_by_value".toList ∨ r.type = "split_by_group".toList) :
    wp (rowNode r act) s (fun n s' => (∃ k, Bump s s' k) ∧ n.kind = NodeKind.switch ∧ n.actions = [] ∧
      ∃ sw, n.router = some (.sw sw) ∧
        FreshSw sw (operandOf r) (some r.saveName)
          (if r.type = "wait_for_response".toList then some (timeoutOf r) else none)) := by
  unfold rowNode
  wp_simp
  refine ⟨fun _ => ?_, fun _ => trivial⟩
  have tail : ∀ (u : Uid) (s1 : St) (j : Nat) (operand : Str) (w : Option Nat), Bump s s1 j →
      wp (newSwitch operand (some r.saveName) w) s1 (fun sw s2 =>
        wp (newRouterNode u NodeKind.switch (RouterM.sw sw)) s2 (fun n s' =>
          (∃ k, Bump s s' k) ∧ n.kind = NodeKind.switch ∧ n.actions = [] ∧
            ∃ sw, n.router = some (.sw sw) ∧ FreshSw sw operand (some r.saveName) w)) := by
    intro u s1 j operand w hb
    subst hb
    refine wp_mono (newSwitch_fresh _ _ _ _) ?_
    intro sw s2 ⟨⟨k, hb2⟩, hfr⟩; subst hb2
    rw [wp_newRouterNode]
    exact ⟨⟨j + k + 1, by simp [Bump, Nat.add_assoc]⟩, rfl, rfl, sw, rfl, hfr⟩
  rcases ht with h | h | h
  · -- wait_for_response
    have e0 : basicTypes.contains r.type = false := by rw [h]; exact not_basic_w
    have e1 : ¬ r.type = "start_new_flow".toList := by rw [h]; decide
    have e2 : ¬ (r.type = "call_webhook".toList ∨ r.type = "transfer_airtime".toList) := by
      rw [h]; rintro (hh | hh) <;> exact absurd hh (by decide)
    refine ⟨fun hh => (by rw [e0] at hh; cases hh), fun _ => ⟨fun hh => absurd hh e1, fun _ =>
      ⟨fun hh => absurd hh e2, fun _ => ⟨fun _ => ?_, fun hh => absurd h hh⟩⟩⟩⟩
    unfold waitNode
    wp_simp
    refine wp_mono (nodeUid_spec _ _) ?_
    intro u s1 ⟨j, hb, _⟩
    have hop : operandOf r = "@input.text".toList := by
      unfold CoreSheet.operandOf
      rw [h, if_neg (by decide), if_neg (by decide), if_neg (by decide), if_pos rfl]
    rw [if_pos h, hop]
    have hto : timeoutOf r = (parseNat? r.noResponse).getD 0 := by unfold timeoutOf; rw [if_pos h]
    constructor
    · intro hemp
      have : timeoutOf r = 0 := by
        rw [hto]; unfold parseNat?; rw [if_pos hemp]; rfl
      rw [this]
      exact tail u s1 j _ _ hb
    · intro _
      split
      · rename_i m hm
        wp_simp
        have : timeoutOf r = m := by rw [hto, hm]; rfl
        rw [this]
        exact tail u s1 j _ _ hb
      · wp_simp
  · -- split_by_value
    have e0 : basicTypes.contains r.type = false := by rw [h]; exact not_basic_v
    have e1 : ¬ r.type = "start_new_flow".toList := by rw [h]; decide
    have e2 : ¬ (r.type = "call_webhook".toList ∨ r.type = "transfer_airtime".toList) := by
      rw [h]; rintro (hh | hh) <;> exact absurd hh (by decide)
    have e3 : ¬ r.type = "wait_for_response".toList := by rw [h]; decide
    refine ⟨fun hh => (by rw [e0] at hh; cases hh), fun _ => ⟨fun hh => absurd hh e1, fun _ =>
      ⟨fun hh => absurd hh e2, fun _ => ⟨fun hh => absurd hh e3, fun _ => ⟨fun _ => ?_, fun hh => absurd h hh⟩⟩⟩⟩⟩
    unfold splitValueNode
    wp_simp
    refine wp_mono (nodeUid_spec _ _) ?_
    intro u s1 ⟨j, hb, _⟩
    refine ⟨fun _ => trivial, fun _ => ?_⟩
    have hop : operandOf r = r.expression := by
      unfold CoreSheet.operandOf
      rw [h, if_neg (by decide), if_neg (by decide), if_neg (by decide), if_neg (by decide), if_pos rfl]
    rw [if_neg e3, hop]
    exact tail u s1 j _ _ hb
  · -- split_by_group
    have e0 : basicTypes.contains r.type = false := by rw [h]; exact not_basic_g
    have e1 : ¬ r.type = "start_new_flow".toList := by rw [h]; decide
    have e2 : ¬ (r.type = "call_webhook".toList ∨ r.type = "transfer_airtime".toList) := by
      rw [h]; rintro (hh | hh) <;> exact absurd hh (by decide)
    have e3 : ¬ r.type = "wait_for_response".toList := by rw [h]; decide
    have e4 : ¬ r.type = "split_by_value".toList := by rw [h]; decide
    refine ⟨fun hh => (by rw [e0] at hh; cases hh), fun _ => ⟨fun hh => absurd hh e1, fun _ =>
      ⟨fun hh => absurd hh e2, fun _ => ⟨fun hh => absurd hh e3, fun _ => ⟨fun hh => absurd hh e4, fun _ =>
      ⟨fun _ => ?_, fun hh => absurd h hh⟩⟩⟩⟩⟩⟩
    unfold splitGroupNode
    wp_simp
    refine wp_mono (nodeUid_spec _ _) ?_
    intro u s1 ⟨j, hb, _⟩
    have hop : operandOf r = "@contact.groups".toList := by
      unfold CoreSheet.operandOf
      rw [h, if_neg (by decide), if_neg (by decide), if_neg (by decide), if_neg (by decide), if_neg (by decide),
        if_pos rfl]
    rw [if_neg e3, hop]
    exact tail u s1 j _ _ hb


theorem trivial_toREdge (e : Compile.Edge) : isTrivial (toREdge e) = e.trivial := rfl

theorem dropTrivial_ref (es : List Compile.Edge) :
    ((es.map toREdge).zipIdx.filter fun (p : REdge × Nat) => p.2 = 0 || !isTrivial p.1).map (·.1) =
      (dropTrivial es).map toREdge := by
  unfold dropTrivial
  rw [List.zipIdx_map, List.filter_map, List.map_map, List.map_map]
  congr 1

theorem outOf_nil_of_srclt (st : P1) (k : Nat) (h : ∀ e ∈ st.out, e.src < k) : outOf st k = [] := by
  unfold outOf
  rw [List.filter_eq_nil_iff]
  intro e he
  have := h e (by simpa using he)
  simp; omega

theorem rowAction_exact (r : Row) (s : St) :
    wp (rowAction r) s (fun act s' => (∃ k, Bump s s' k) ∧ act.map (·.2) = r.action) := by
  unfold rowAction
  split
  · rename_i a ha
    wp_simp [wp_fresh']
    exact ⟨⟨1, rfl⟩, by simp [ha]⟩
  · rename_i ha
    wp_simp
    exact ⟨⟨0, rfl⟩, by simp [ha]⟩

/-- the facts about a row of the fragment that the parser looks at -/
structure RowFacts (c : CRow) : Prop where
  nouid : c.row.nodeUuid = []
  noname : c.row.nodeName = []
  t8 : c.row.type ≠ "no_op".toList
  t9 : c.row.type ≠ "go_to".toList
  t10 : c.row.type ≠ "hard_exit".toList
  t11 : c.row.type ≠ "loose_exit".toList
  t12 : c.row.type ≠ "insert_as_block".toList
  kind : kindOf c.row.type = .action ∨ kindOf c.row.type = .wait ∨ kindOf c.row.type = .splitValue ∨
    kindOf c.row.type = .splitGroup

theorem rowFacts (c : CRow) (hf : rowOk c = true) : RowFacts c := by
  simp only [rowOk, Bool.or_eq_true] at hf
  rcases hf with hf | hf
  · simp only [plainActionRow, Bool.and_eq_true, Bool.not_eq_true', List.isEmpty_iff, decide_eq_true_eq] at hf
    obtain ⟨⟨⟨hsp, hu⟩, hnm⟩, _⟩ := hf
    obtain ⟨_, _, _, _, _, _, _, h8, h9, h10, h11, h12⟩ := not_special hsp
    exact ⟨hu, hnm, h8, h9, h10, h11, h12, .inl (kindOf_action hsp)⟩
  · simp only [switchRow, Bool.and_eq_true, List.isEmpty_iff] at hf
    obtain ⟨⟨⟨hsw, hu⟩, hnm⟩, _⟩ := hf
    have ht := switch_type hsw
    refine ⟨hu, hnm, ?_, ?_, ?_, ?_, ?_, .inr (kindOf_switch ht)⟩ <;>
      (rcases ht with h | h | h <;> rw [h] <;> decide)

/-- a row of the fragment goes straight to `newRow` -/
theorem wp_parseRow_new (c : CRow) (hf : RowFacts c) (s : St) (Q : PUnit → St → Prop)
    (h : c.row.actionOk = true → wp (newRow { c.row with edges := dropTrivial c.row.edges } []) s Q) :
    wp (parseRow c.row) s Q := by
  unfold parseRow
  simp only
  rw [if_neg (by rintro (hh | hh); exact hf.t10 hh; exact hf.t11 hh), if_neg hf.t9, if_neg hf.t8, if_neg hf.t12]
  unfold actionRow
  wp_simp
  refine ⟨fun _ => trivial, fun hok => ?_⟩
  have e1 : (if List.isEmpty c.row.nodeUuid = true then c.row.nodeName else c.row.nodeUuid) = [] := by
    simp [hf.nouid, hf.noname]
  rw [e1]
  simp only [List.isEmpty_nil, if_true]
  exact h (by simpa using hok)

/-- pass 1 on a node-producing row -/
theorem pass1Row_node (st : P1) (k : Nat) (r : RRow)
    (hk : r.kind = .action ∨ r.kind = .wait ∨ r.kind = .splitValue ∨ r.kind = .splitGroup) :
    pass1Row st k r =
      match addEdges st k (((r.edges.zipIdx.filter fun (p : REdge × Nat) => p.2 = 0 || !isTrivial p.1).map (·.1)).map
          (fun e => (e, Target.row k))) with
      | .error err => .error err
      | .ok st1 => .ok { st1 with prev := some k, ids := if r.rowId.isEmpty then st1.ids else (r.rowId, k) :: st1.ids } := by
  unfold pass1Row
  rcases hk with h | h | h | h <;> simp only [h, bind, Except.bind, pure, Except.pure] <;>
    (cases addEdges st k _ <;> rfl)

/-- the node the compiler creates for a row of the fragment is the compiled form of the row with no
out-edge yet -/
theorem rowNode_sim (c : CRow) (hf : rowOk c = true) (edges : List Compile.Edge) (act : Option (Uid × Str))
    (hact : act.map (·.2) = c.row.action) (s : St) :
    wp (rowNode { c.row with edges := edges } act) s (fun n s' =>
      (∃ k, Bump s s' k) ∧ ∀ ns, NodeSim ns n c []) := by
  simp only [rowOk, Bool.or_eq_true] at hf
  rcases hf with hf | hf
  · simp only [plainActionRow, Bool.and_eq_true, Bool.not_eq_true', List.isEmpty_iff, decide_eq_true_eq] at hf
    obtain ⟨⟨⟨hsp, _⟩, _⟩, _⟩ := hf
    refine wp_mono (rowNode_plain _ act s hsp) ?_
    intro n s' ⟨hb, hnk, hnr, hna, hnd⟩
    refine ⟨hb, fun ns => .plain (kindOf_action hsp) ⟨hnk, hnr, ?_, ?_⟩⟩
    · have e2 : act.toList.map (·.2) = (act.map (·.2)).toList := by cases act <;> rfl
      rw [hna, e2, hact]
    · rw [hnd]; rfl
  · simp only [switchRow, Bool.and_eq_true, List.isEmpty_iff] at hf
    obtain ⟨⟨⟨hsw, _⟩, _⟩, _⟩ := hf
    have ht := switch_type hsw
    refine wp_mono (rowNode_switch _ act s ht) ?_
    intro n s' ⟨hb, hnk, hna, sw, hrt, hfr⟩
    refine ⟨hb, fun ns => .sw sw (kindOf_switch ht) ⟨hnk, hna, hrt, hfr.operand, hfr.rname, ?_, hfr.nrSome, ?_, ?_, ?_, ?_, ?_⟩⟩
    · rw [hfr.wait]; rfl
    · rw [hfr.cases]; rfl
    · rw [hfr.cases, hfr.cats]; rfl
    · rw [hfr.cats]; exact List.Forall₂.nil
    · rw [hfr.dflt]; rfl
    · intro nr hnr; rw [hfr.nr nr hnr]; rfl

theorem row_sim (rows : List CRow) (outF : List OutEdge) (g : Good rows outF) (k : Nat) (c : CRow)
    (hc : rows[k]? = some c) (hf : rowOk c = true) (s : St) (st st' : P1) (h : Rel rows k k s st)
    (hst : pass1Row st k (toRRow c) = .ok st') (hpre : st'.out.reverse <+: outF) :
    wp (step (toEvent c)) s (fun _ s' => Rel rows (k + 1) (k + 1) s' st') := by
  have hfacts := rowFacts c hf
  -- the reference side
  rw [pass1Row_node st k (toRRow c) hfacts.kind] at hst
  have hes : (((toRRow c).edges.zipIdx.filter fun (p : REdge × Nat) => p.2 = 0 || !isTrivial p.1).map (·.1)).map
      (fun e => (e, Target.row k)) = (dropTrivial c.row.edges).map (fun e => (toREdge e, Target.row k)) := by
    have := dropTrivial_ref c.row.edges
    simp only [toRRow]
    rw [this, List.map_map]; rfl
  rw [hes] at hst
  cases hst1 : addEdges st k ((dropTrivial c.row.edges).map (fun e => (toREdge e, Target.row k))) with
  | error err => rw [hst1] at hst; cases hst
  | ok st1 =>
    rw [hst1] at hst
    simp only [Except.ok.injEq] at hst
    have hpre1 : st1.out.reverse <+: outF := by rw [← hst] at hpre; exact hpre
    -- the compiler side
    unfold step toEvent
    refine wp_parseRow_new c hfacts s _ (fun _ => ?_)
    unfold newRow
    wp_simp [wp_addNode, wp_addGrp]
    refine wp_mono (rowAction_exact _ s) ?_
    intro act s1 ⟨⟨k1, hb1⟩, hact1⟩; subst hb1
    refine wp_mono (rowNode_sim c hf _ act hact1 _) ?_
    intro n s2 ⟨⟨k2, hb2⟩, hnsim⟩; subst hb2
    dsimp only
    -- the arena with the pending node
    have r1 : Rel rows (k + 1) k { s with nodes := s.nodes.push n, next := s.next + k1 + k2 } st := by
      refine ⟨by simp [h.nsize], h.gsize, h.root, h.grp, h.stack, h.ids, h.idlt, h.prev, h.srclt, h.args, ?_⟩
      intro j hj
      by_cases hjk : j = k
      · subst hjk
        refine ⟨n, c, by simp [← h.nsize], hc, ?_⟩
        rw [outOf_nil_of_srclt st j h.srclt]
        exact hnsim _
      · obtain ⟨n', c', hn', hc', hp'⟩ := h.node j (by omega)
        exact ⟨n', c', getElem?_push_of_some n hn', hc', hp'.ext (NExt.push _ _)⟩
    refine wp_mono (edges_sim rows outF g k n.uid _ _ st st1 r1 ⟨n, by simp [← h.nsize], rfl⟩ hst1 hpre1) ?_
    intro _ s3 ⟨r3, _⟩
    -- the row group is created and appended to the root block
    unfold appendGroup
    wp_simp [wp_setGrp]
    simp only [r3.stack]
    have hroot3 : (s3.groups.push (Grp.row [s.nodes.size] c.row.type))[0]? = some (.block (List.range' 1 k)) := by
      rw [Array.getElem?_push]
      have : ¬ 0 = s3.groups.size := by rw [r3.gsize]; omega
      simp [this, r3.root]
    rw [hroot3]
    wp_simp [wp_setGrp]
    unfold addRowId
    have hsz : s3.groups.size = k + 1 := r3.gsize
    have hfinal : ∀ (rowIds : List (Str × Nat)) (ids : List (Str × Nat)) (names : List (Str × Nat)),
        rowIds = ids.map (fun p => (p.1, p.2 + 1)) → (∀ p ∈ ids, p.2 < k + 1) →
        Rel rows (k + 1) (k + 1)
          { s3 with groups := (s3.groups.push (Grp.row [s.nodes.size] c.row.type)).setIfInBounds 0
                      (Grp.block (List.range' 1 k ++ [s3.groups.size])),
                    rowIds := rowIds, names := names }
          { st1 with prev := some k, ids := ids } := by
      intro rowIds ids names hids hlt
      refine ⟨r3.nsize, by simp [hsz], ?_, ?_, r3.stack, hids, hlt, by simp,
        fun e he => by have := r3.srclt e he; omega, r3.args, r3.node⟩
      · simp only [Array.getElem?_setIfInBounds, Array.size_push]
        simp [hsz, List.range'_concat]; omega
      · intro j hj
        simp only [Array.getElem?_setIfInBounds, Array.getElem?_push]
        have h0 : ¬ 0 = j + 1 := by omega
        simp only [h0, if_false]
        by_cases hjk : j = k
        · subst hjk; exact ⟨c, hc, by simp [hsz, h.nsize]⟩
        · obtain ⟨t, hct, ht⟩ := r3.grp j (by omega)
          have : ¬ j + 1 = s3.groups.size := by omega
          exact ⟨t, hct, by simp [this, ht]⟩
    by_cases hrid : c.row.rowId = []
    · simp only [hrid, List.isEmpty_nil, if_true]
      wp_simp
      have := hfinal s3.rowIds st1.ids (([], s.nodes.size) :: s3.names) r3.ids
        (fun p hp => by have := r3.idlt p hp; omega)
      rw [← hst]
      simpa [toRRow, hrid, r3.stack] using this
    · simp only [List.isEmpty_iff, hrid, if_false]
      wp_simp
      have := hfinal ((c.row.rowId, s3.groups.size) :: s3.rowIds) ((c.row.rowId, k) :: st1.ids)
        (([], s.nodes.size) :: s3.names) (by simp [r3.ids, hsz])
        (fun p hp => by
          simp only [List.mem_cons] at hp
          rcases hp with rfl | hp
          · simp
          · have := r3.idlt p hp; omega)
      rw [← hst]
      simpa [toRRow, List.isEmpty_iff, hrid, r3.stack] using this

end Rpft.CoreSheet
