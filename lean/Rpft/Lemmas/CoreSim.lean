/-
Lock-step simulation between the compiler machine (`Compile.step` on `toEvent c`) and pass 1 of the
reference interpretation (`RefFlow.pass1Row` on `toRRow c`) for the rows of the fragment.  Rows need
not produce exactly one node: `gOf rows j` is the group of a node-producing row `j` (static), the
ghost maps `M.nOf` / `M.rOf` give the arena index of its node (and of the router node the compiler
may create behind it).  After the same prefix of the sheet, the node of row `j` is the compiled form
of row `j` with the out-edges recorded for `j` so far.
-/
import Rpft.Lemmas.CoreBase
set_option linter.unusedSimpArgs false
set_option linter.unusedVariables false
set_option linter.unusedSectionVars false
namespace Rpft.CoreSheet
open Rpft Rpft.Compile Rpft.RefFlow

/-! ### where the rows live -/

/-- a row that produces a node (and a node group) -/
def isNodeRow (c : CRow) : Bool := (kindOf c.row.type).isNode && !(c.merged && isNamedAct c)

theorem isNodeRow_kind {c : CRow} (h : isNodeRow c = true) : (kindOf c.row.type).isNode = true := by
  unfold isNodeRow at h
  simp only [Bool.and_eq_true] at h
  exact h.1

/-- the mark matters for action rows with a node name only -/
theorem isNodeRow_of_special {c : CRow} (h : specialTypes.contains c.row.type = true) :
    isNodeRow c = (kindOf c.row.type).isNode := by
  unfold isNodeRow isNamedAct
  rw [h]; simp

theorem isNodeRow_of_unmerged {c : CRow} (h : c.merged = false) : isNodeRow c = (kindOf c.row.type).isNode := by
  unfold isNodeRow
  rw [h]; simp

/-- the node group of a node-producing row: groups are created in row order, group 0 is the root -/
def gOf (rows : List CRow) (j : Nat) : Nat := ((rows.take j).filter isNodeRow).length + 1

theorem gOf_zero (rows : List CRow) : gOf rows 0 = 1 := by simp [gOf]

theorem gOf_pos (rows : List CRow) (j : Nat) : 1 ≤ gOf rows j := by unfold gOf; omega

theorem gOf_succ (rows : List CRow) (j : Nat) (c : CRow) (h : rows[j]? = some c) :
    gOf rows (j + 1) = gOf rows j + (if isNodeRow c then 1 else 0) := by
  unfold gOf
  rw [List.take_add_one, h]
  simp only [Option.toList, List.filter_append, List.length_append]
  by_cases hn : isNodeRow c = true
  · simp [hn, List.filter_cons]
  · simp [hn, List.filter_cons]

theorem gOf_mono (rows : List CRow) {j k : Nat} (h : j ≤ k) : gOf rows j ≤ gOf rows k := by
  unfold gOf
  have : (rows.take j).Sublist (rows.take k) := (List.take_sublist_take_left h)
  have := (this.filter isNodeRow).length_le
  omega

theorem gOf_lt (rows : List CRow) {j k : Nat} {c : CRow} (h : j < k) (hc : rows[j]? = some c)
    (hn : isNodeRow c = true) : gOf rows j < gOf rows k := by
  have h1 := gOf_succ rows j c hc
  rw [hn] at h1
  have h2 := gOf_mono rows (show j + 1 ≤ k from h)
  simp at h1; omega

theorem isNoop_of_kind {c : CRow} (h : kindOf c.row.type = .noOp) : isNoop c = true := by
  unfold isNoop
  rw [decide_eq_true_iff]
  by_cases hn : c.row.type = "no_op".toList
  · exact hn
  · exfalso
    unfold kindOf at h
    repeat' split at h
    all_goals first | cases h | exact hn ‹_›

theorem kindOf_noop : kindOf "no_op".toList = .noOp := by decide

theorem isNodeRow_of_noop {c : CRow} (h : isNoop c = true) : isNodeRow c = true := by
  unfold isNoop at h
  have ht := of_decide_eq_true h
  rw [isNodeRow_of_special (by rw [ht]; decide), ht]; decide

/-- ghost maps: arena index of the node of a row, and of the router node behind it (if any) -/
structure Maps where
  nOf : Nat → Nat
  rOf : Nat → Option Nat
  /-- the row owns no node: a `no_op` row that has not been left yet, or that has been left
  unconditionally (then `nOf` is the node its sources lead to) -/
  el : Nat → Bool := fun _ => false
  /-- a `no_op` row that has not been left yet -/
  fr : Nat → Bool := fun _ => false

/-- destination `d` of a compiled exit is what the reference target means -/
def DestIs (M : Maps) (ns : Array NodeM) (d : Dest) : Option Target → Prop
  | none => d = Dest.none
  | some (.row t) => ∃ m : NodeM, ns[M.nOf t]? = some m ∧ d = Dest.node m.uid
  | some .exit => d = Dest.hard ∨ d = Dest.none

theorem DestIs.ext {M : Maps} {ns ns' : Array NodeM} (h : NExt ns ns') {d : Dest} {t : Option Target}
    (hd : DestIs M ns d t) : DestIs M ns' d t := by
  cases t with
  | none => exact hd
  | some t =>
    cases t with
    | exit => exact hd
    | row k =>
      obtain ⟨m, hm, e⟩ := hd
      obtain ⟨m', hm', hu⟩ := h _ m hm
      exact ⟨m', hm', by rw [e, hu]⟩

/-- an action row without conditional out-edges: one node, one exit -/
structure PlainSim (M : Maps) (ns : Array NodeM) (n : NodeM) (act : Option Str) (post : List Str) (es : List OutEdge) :
    Prop where
  kind : n.kind = NodeKind.basic
  router : n.router = none
  /-- its own action, then the actions of the rows merged into the node -/
  acts : n.actions.map (·.2) = act.toList ++ post
  dest : DestIs M ns n.dexitDest ((es.getLast?).map (·.tgt))
  blank : ∀ e ∈ es, e.cond.blank = true

/-- the `wait` attribute of the router of a deciding row -/
def waitOf (c : CRow) : Option Nat :=
  if c.row.type = "wait_for_response".toList then some (timeoutOf c.row) else none

/-- a deciding row: one node with a switch router; case `i` selects category `i`, whose exit leads
where the `i`-th test edge leads; the default category follows the last unconditional edge, the
"No Response" category (when there is a timeout) the last "no response" edge -/
structure SwitchSim (M : Maps) (ns : Array NodeM) (n : NodeM) (c : CRow) (es : List OutEdge) (r : SwitchR) : Prop where
  kind : n.kind = NodeKind.switch
  acts : n.actions = []
  router : n.router = some (.sw r)
  operand : r.operand = operandOf c.row
  rname : r.resultName = some c.row.saveName
  wait : r.wait = waitOf c
  nrSome : r.noResp.isSome = true ↔ ∃ m, r.wait = some (m + 1)
  cases : r.cases.map (fun k => (k.type, k.args.map (·.getD []))) =
    (testsOf (kindOf c.row.type) es).map (fun e => refTest (kindOf c.row.type) e.cond)
  casecat : r.cases.map (·.catUid) = r.cats.map (·.uid)
  catd : List.Forall₂ (fun (cat : Cat) (e : OutEdge) => DestIs M ns cat.dest (some e.tgt)) r.cats
    (testsOf (kindOf c.row.type) es)
  dflt : DestIs M ns r.dflt.dest (((es.filter (·.cond.blank)).getLast?).map (·.tgt))
  nr : ∀ nr, r.noResp = some nr →
    DestIs M ns nr.dest ((((es.filter (fun e => !e.cond.blank)).filter (fun e => isNR e.cond)).getLast?).map (·.tgt))
  names : r.cats.map (·.name) = namesFrom (kindOf c.row.type) (timeoutOf c.row) [] (testsOf (kindOf c.row.type) es) ∧
    ([r.dflt] ++ r.noResp.toList).map (·.name) = baseNames (kindOf c.row.type) (timeoutOf c.row)

/-! #### rows with fixed outcomes -/

/-- the edges that set the first outcome (Complete / Success) of a fixed-outcome row -/
def isSucc (K : Kind) (e : OutEdge) : Bool :=
  if K = .enterFlow then
    (decide (RefFlow.lower e.cond.value = "complete".toList) || decide (RefFlow.lower e.cond.value = "completed".toList))
  else decide (RefFlow.lower e.cond.value = "success".toList)

/-- the edges that set the other outcome (Expired / Failure) -/
def isFail (K : Kind) (e : OutEdge) : Bool :=
  if K = .enterFlow then decide (RefFlow.lower e.cond.value = "expired".toList)
  else (e.cond.blank || decide (RefFlow.lower e.cond.value = "failure".toList))

def fixKind : Kind → NodeKind
  | .enterFlow => .enter
  | .webhook => .webhook
  | _ => .airtime

def succName (K : Kind) : Str := if K = .enterFlow then "Complete".toList else "Success".toList

/-- the (fixed) cases of such a row: test type, arguments, category -/
def fixCases (K : Kind) (su du : Uid) : List (Str × List Str × Uid) :=
  match K with
  | .enterFlow => [("has_only_text".toList, ["completed".toList], su), ("has_only_text".toList, ["expired".toList], du)]
  | .webhook => [("has_only_text".toList, ["Success".toList], su)]
  | _ => [("has_category".toList, ["Success".toList], su)]

/-- a `start_new_flow` / `call_webhook` / `transfer_airtime` row: one node performing the row's own
action, with a switch whose cases are fixed; category `sc` (Complete / Success) follows the last
edge naming that outcome, the default category (Expired / Failure) the last edge naming the other -/
structure FixSim (M : Maps) (ns : Array NodeM) (n : NodeM) (c : CRow) (es : List OutEdge) (r : SwitchR) (sc : Cat) : Prop where
  kind : n.kind = fixKind (kindOf c.row.type)
  acts : n.actions.map (·.2) = [c.row.ownAction.getD []]
  router : n.router = some (.sw r)
  operand : r.operand = operandOf c.row
  rname : r.resultName = none
  wait : r.wait = none
  noResp : r.noResp = none
  cats : r.cats = [sc]
  sname : sc.name = succName (kindOf c.row.type)
  uidne : sc.uid ≠ r.dflt.uid
  cases : r.cases.map (fun k => (k.type, k.args.map (·.getD []), k.catUid)) = fixCases (kindOf c.row.type) sc.uid r.dflt.uid
  succ : DestIs M ns sc.dest (((es.filter (isSucc (kindOf c.row.type))).getLast?).map (·.tgt))
  dflt : DestIs M ns r.dflt.dest (((es.filter (isFail (kindOf c.row.type))).getLast?).map (·.tgt))

theorem isSucc_enter (e : OutEdge) : isSucc .enterFlow e = true ↔
    (RefFlow.lower e.cond.value = "complete".toList ∨ RefFlow.lower e.cond.value = "completed".toList) := by
  unfold isSucc
  rw [if_pos rfl, Bool.or_eq_true, decide_eq_true_iff, decide_eq_true_iff]

theorem isFail_enter (e : OutEdge) : isFail .enterFlow e = true ↔ RefFlow.lower e.cond.value = "expired".toList := by
  unfold isFail
  rw [if_pos rfl, decide_eq_true_iff]

theorem isSucc_hook (K : Kind) (hK : K ≠ .enterFlow) (e : OutEdge) :
    isSucc K e = true ↔ RefFlow.lower e.cond.value = "success".toList := by
  unfold isSucc
  rw [if_neg hK, decide_eq_true_iff]

theorem isFail_hook (K : Kind) (hK : K ≠ .enterFlow) (e : OutEdge) :
    isFail K e = true ↔ (e.cond.blank = true ∨ RefFlow.lower e.cond.value = "failure".toList) := by
  unfold isFail
  rw [if_neg hK, Bool.or_eq_true, decide_eq_true_iff]

theorem bool_false_of_not {b : Bool} (h : ¬ b = true) : b = false := by cases b <;> simp_all

/-! #### `split_random` rows -/

/-- a `split_random` row: one node with a random router; its categories are the buckets of the
leaving edges, in order of first appearance, each leading where its last edge leads -/
structure RandSim (M : Maps) (ns : Array NodeM) (n : NodeM) (c : CRow) (es : List OutEdge) (r : RandomR) : Prop where
  kind : n.kind = NodeKind.random
  acts : n.actions = []
  router : n.router = some (.rnd r)
  rname : r.resultName = some c.row.saveName
  uids : (r.cats.map (·.uid)).Nodup
  names : (r.cats.map (·.name)).Nodup
  rel : List.Forall₂ (fun (cat : Cat) (b : Str × Target) => DestIs M ns cat.dest (some b.2) ∧ NameRel cat.name b.1)
    r.cats (bucketsOf es).1
  gen : ∀ cat ∈ r.cats, ∀ k, cat.name = "Bucket ".toList ++ Compile.natStr k → k < r.cats.length + 2

/-! #### `no_op` rows left conditionally -/

/-- a `no_op` row with conditional out-edges: one node with a switch router on the variable the edges
name, no action, no wait -/
structure NopSim (M : Maps) (ns : Array NodeM) (n : NodeM) (c : CRow) (es : List OutEdge) (r : SwitchR) : Prop where
  kind : n.kind = NodeKind.switch
  acts : n.actions = []
  router : n.router = some (.sw r)
  operand : r.operand ≠ [] ∧ (testsOf .noOp es ≠ [] → r.operand = implVar es)
  rname : r.resultName = none
  wait : r.wait = none
  noResp : r.noResp = none
  cases : r.cases.map (fun k => (k.type, k.args.map (·.getD []))) =
    (testsOf .noOp es).map (fun e => refTest .noOp e.cond)
  casecat : r.cases.map (·.catUid) = r.cats.map (·.uid)
  catd : List.Forall₂ (fun (cat : Cat) (e : OutEdge) => DestIs M ns cat.dest (some e.tgt)) r.cats (testsOf .noOp es)
  dflt : DestIs M ns r.dflt.dest (((es.filter (·.cond.blank)).getLast?).map (·.tgt))
  names : r.cats.map (·.name) = namesFrom .noOp (timeoutOf c.row) [] (testsOf .noOp es) ∧
    r.dflt.name = "Other".toList

def isFixedKind (K : Kind) : Prop := K = .enterFlow ∨ K = .webhook ∨ K = .airtime

inductive NodeSim (M : Maps) (ns : Array NodeM) (n : NodeM) (c : CRow) (post : List Str) (es : List OutEdge) : Prop
  | plain : kindOf c.row.type = .action → PlainSim M ns n c.row.action post es → NodeSim M ns n c post es
  | sw (r : SwitchR) : (kindOf c.row.type = .wait ∨ kindOf c.row.type = .splitValue ∨ kindOf c.row.type = .splitGroup) →
      SwitchSim M ns n c es r → NodeSim M ns n c post es
  | fix (r : SwitchR) (sc : Cat) : isFixedKind (kindOf c.row.type) → FixSim M ns n c es r sc → NodeSim M ns n c post es
  | rnd (r : RandomR) : kindOf c.row.type = .splitRandom → RandSim M ns n c es r → NodeSim M ns n c post es
  | nop (r : SwitchR) : kindOf c.row.type = .noOp → NopSim M ns n c es r → NodeSim M ns n c post es

theorem NodeSim.ext {M : Maps} {ns ns' : Array NodeM} (h : NExt ns ns') {n : NodeM} {c : CRow} {post : List Str} {es : List OutEdge}
    (hs : NodeSim M ns n c post es) : NodeSim M ns' n c post es := by
  cases hs with
  | plain hk hp => exact .plain hk ⟨hp.kind, hp.router, hp.acts, hp.dest.ext h, hp.blank⟩
  | sw r hk hp =>
    refine .sw r hk ⟨hp.kind, hp.acts, hp.router, hp.operand, hp.rname, hp.wait, hp.nrSome, hp.cases, hp.casecat,
      ?_, hp.dflt.ext h, fun nr hnr => (hp.nr nr hnr).ext h, hp.names⟩
    exact hp.catd.imp (fun _ _ hd => hd.ext h)
  | fix r sc hk hp =>
    exact .fix r sc hk ⟨hp.kind, hp.acts, hp.router, hp.operand, hp.rname, hp.wait, hp.noResp, hp.cats, hp.sname,
      hp.uidne, hp.cases, hp.succ.ext h, hp.dflt.ext h⟩
  | rnd r hk hp =>
    exact .rnd r hk ⟨hp.kind, hp.acts, hp.router, hp.rname, hp.uids, hp.names,
      hp.rel.imp (fun _ _ hd => ⟨hd.1.ext h, hd.2⟩), hp.gen⟩
  | nop r hk hp =>
    exact .nop r hk ⟨hp.kind, hp.acts, hp.router, hp.operand, hp.rname, hp.wait, hp.noResp, hp.cases, hp.casecat,
      hp.catd.imp (fun _ _ hd => hd.ext h), hp.dflt.ext h, hp.names⟩

/-! #### an action row with conditional out-edges: the compiler puts a router node behind its node -/

/-- what the router behind the node of an action row decides on: the variable its conditional edges
name, or the reply -/
def implOperand (es : List OutEdge) : Str := if (implVar es).isEmpty then "@input.text".toList else implVar es

/-- it waits for a reply iff the edges name no variable -/
def implWait (es : List OutEdge) : Option Nat := if (implVar es).isEmpty then some 0 else none

/-- node `n` performs the action and leads to node `n'` (arena index `i'`), which decides -/
structure ImplSim (M : Maps) (ns : Array NodeM) (n : NodeM) (c : CRow) (post : List Str) (es : List OutEdge) (i' : Nat)
    (n' : NodeM) (r : SwitchR) : Prop where
  kind : n.kind = NodeKind.basic
  router : n.router = none
  acts : n.actions.map (·.2) = c.row.action.toList ++ post
  link : n.dexitDest = Dest.node n'.uid
  rnode : ns[i']? = some n'
  kind' : n'.kind = NodeKind.switch
  acts' : n'.actions = []
  router' : n'.router = some (.sw r)
  operand : r.operand = implOperand es
  rname : r.resultName = none
  wait : r.wait = implWait es
  noResp : r.noResp = none
  cases : r.cases.map (fun k => (k.type, k.args.map (·.getD []))) =
    (testsOf .action es).map (fun e => refTest .action e.cond)
  casecat : r.cases.map (·.catUid) = r.cats.map (·.uid)
  catd : List.Forall₂ (fun (cat : Cat) (e : OutEdge) => DestIs M ns cat.dest (some e.tgt)) r.cats (testsOf .action es)
  dflt : DestIs M ns r.dflt.dest (((es.filter (·.cond.blank)).getLast?).map (·.tgt))
  some : testsOf .action es ≠ []
  names : r.cats.map (·.name) = namesFrom .action (timeoutOf c.row) [] (testsOf .action es) ∧
    r.dflt.name = "Other".toList

/-- the nodes of a row: one node, or (action row with conditional out-edges) two -/
inductive RowSim (M : Maps) (ns : Array NodeM) (n : NodeM) (c : CRow) (post : List Str) (es : List OutEdge) :
    Option Nat → Prop
  | one : NodeSim M ns n c post es → RowSim M ns n c post es none
  | impl (i' : Nat) (n' : NodeM) (r : SwitchR) : kindOf c.row.type = .action → ImplSim M ns n c post es i' n' r →
      RowSim M ns n c post es (some i')

/-- other nodes change (keeping their identifiers), the router node of the row does not -/
theorem RowSim.transfer {M : Maps} {ns ns' : Array NodeM} (h : NExt ns ns') {n : NodeM} {c : CRow} {post : List Str} {es : List OutEdge}
    {ro : Option Nat} (hro : ∀ i ∈ ro.toList, ns'[i]? = ns[i]?) (hs : RowSim M ns n c post es ro) : RowSim M ns' n c post es ro := by
  cases hs with
  | one hn => exact .one (hn.ext h)
  | impl i' n' r hk hp =>
    refine .impl i' n' r hk ⟨hp.kind, hp.router, hp.acts, hp.link, by rw [hro i' (by simp)]; exact hp.rnode, hp.kind',
      hp.acts', hp.router', hp.operand, hp.rname, hp.wait, hp.noResp, hp.cases, hp.casecat, ?_, hp.dflt.ext h, hp.some, hp.names⟩
    exact hp.catd.imp (fun _ _ hd => hd.ext h)

theorem DestIs.congrN {M M' : Maps} (hM : ∀ t, M'.nOf t = M.nOf t) {ns : Array NodeM} {d : Dest} {t : Option Target}
    (hd : DestIs M ns d t) : DestIs M' ns d t := by
  cases t with
  | none => exact hd
  | some t =>
    cases t with
    | exit => exact hd
    | row k =>
      obtain ⟨m, hm, e⟩ := hd
      exact ⟨m, by rw [hM k]; exact hm, e⟩

/-- only `nOf` matters for the nodes of a row -/
theorem NodeSim.congrN {M M' : Maps} (hM : ∀ t, M'.nOf t = M.nOf t) {ns : Array NodeM} {n : NodeM} {c : CRow} {post : List Str}
    {es : List OutEdge} (hs : NodeSim M ns n c post es) : NodeSim M' ns n c post es := by
  cases hs with
  | plain hk hp => exact .plain hk ⟨hp.kind, hp.router, hp.acts, hp.dest.congrN hM, hp.blank⟩
  | sw r hk hp =>
    refine .sw r hk ⟨hp.kind, hp.acts, hp.router, hp.operand, hp.rname, hp.wait, hp.nrSome, hp.cases, hp.casecat,
      ?_, hp.dflt.congrN hM, fun nr hnr => (hp.nr nr hnr).congrN hM, hp.names⟩
    exact hp.catd.imp (fun _ _ hd => hd.congrN hM)
  | fix r sc hk hp =>
    exact .fix r sc hk ⟨hp.kind, hp.acts, hp.router, hp.operand, hp.rname, hp.wait, hp.noResp, hp.cats, hp.sname,
      hp.uidne, hp.cases, hp.succ.congrN hM, hp.dflt.congrN hM⟩
  | rnd r hk hp =>
    exact .rnd r hk ⟨hp.kind, hp.acts, hp.router, hp.rname, hp.uids, hp.names,
      hp.rel.imp (fun _ _ hd => ⟨hd.1.congrN hM, hd.2⟩), hp.gen⟩
  | nop r hk hp =>
    exact .nop r hk ⟨hp.kind, hp.acts, hp.router, hp.operand, hp.rname, hp.wait, hp.noResp, hp.cases, hp.casecat,
      hp.catd.imp (fun _ _ hd => hd.congrN hM), hp.dflt.congrN hM, hp.names⟩

theorem RowSim.congrN {M M' : Maps} (hM : ∀ t, M'.nOf t = M.nOf t) {ns : Array NodeM} {n : NodeM} {c : CRow} {post : List Str}
    {es : List OutEdge} {ro : Option Nat} (hs : RowSim M ns n c post es ro) : RowSim M' ns n c post es ro := by
  cases hs with
  | one hn => exact .one (hn.congrN hM)
  | impl i' n' r hk hp =>
    refine .impl i' n' r hk ⟨hp.kind, hp.router, hp.acts, hp.link, hp.rnode, hp.kind',
      hp.acts', hp.router', hp.operand, hp.rname, hp.wait, hp.noResp, hp.cases, hp.casecat, ?_, hp.dflt.congrN hM, hp.some, hp.names⟩
    exact hp.catd.imp (fun _ _ hd => hd.congrN hM)

/-- the arena indices of the nodes of row `j` -/
def idxs (M : Maps) (j : Nat) : List Nat := M.nOf j :: (M.rOf j).toList

/-- the category identifiers of the random routers in the arena were drawn from the counter -/
def RFresh (nodes : Array NodeM) (next : Nat) : Prop :=
  ∀ (i : Nat) (n : NodeM) (r : RandomR), nodes[i]? = some n → n.router = some (RouterM.rnd r) →
    ∀ cat ∈ r.cats, ∃ k, k < next ∧ cat.uid = tid k

/-- the actions the rows before row `kg` have merged into the node of row `j` (they carry its node
name and the mark) -/
def postUpTo (rows : List CRow) (kg j : Nat) : List Str :=
  match rows[j]? with
  | some c =>
    if !isNamedAct c then []
    else ((rows.take kg).drop (j + 1)).filterMap fun c' =>
      if c'.merged && isNamedAct c' && decide (c'.row.nodeName = c.row.nodeName) then c'.row.action else none
  | none => []

theorem postUpTo_le (rows : List CRow) {kg j : Nat} (h : kg ≤ j + 1) : postUpTo rows kg j = [] := by
  unfold postUpTo
  cases rows[j]? with
  | none => rfl
  | some c =>
    simp only
    split
    · rfl
    · have : (rows.take kg).drop (j + 1) = [] := by
        rw [List.drop_eq_nil_iff]; simp; omega
      rw [this]; rfl

/-- a row that is not merged adds nothing -/
theorem postUpTo_succ (rows : List CRow) (k j : Nat) (c : CRow) (hc : rows[k]? = some c)
    (hm : (c.merged && isNamedAct c) = false) : postUpTo rows (k + 1) j = postUpTo rows k j := by
  unfold postUpTo
  cases rows[j]? with
  | none => rfl
  | some cj =>
    simp only
    split
    · rfl
    · rw [List.take_add_one, hc]
      simp only [Option.toList, List.drop_append, List.filterMap_append]
      have : ([c].drop (j + 1 - (rows.take k).length)).filterMap (fun c' =>
          if c'.merged && isNamedAct c' && decide (c'.row.nodeName = cj.row.nodeName) then c'.row.action else none) = [] := by
        cases hd : (j + 1 - (rows.take k).length) with
        | zero =>
          simp only [List.drop_zero, List.filterMap_cons, List.filterMap_nil]
          cases h1 : c.merged && isNamedAct c with
          | false => simp [h1]
          | true => rw [h1] at hm; cases hm
        | succ m => simp
      rw [this, List.append_nil]

/-- the mark is what `mergeAt` says -/
def Annot (rows : List CRow) : Prop := ∀ j c, rows[j]? = some c → c.merged = mergeAt rows j

/-- the node names in use are those of the rows that created a node, and lead to these nodes -/
def NamesInv (rows : List CRow) (M : Maps) (kg : Nat) (names : List (Str × Nat)) : Prop :=
  (∀ p ∈ names, p.1 ≠ [] → ∃ i c, i < kg ∧ rows[i]? = some c ∧ isNodeRow c = true ∧ isNoop c = false ∧
      isNamedAct c = true ∧ c.row.nodeName = p.1 ∧ p.2 = M.nOf i) ∧
  (∀ i c, i < kg → rows[i]? = some c → isNodeRow c = true → isNoop c = false → c.row.nodeName ≠ [] →
      (c.row.nodeName, M.nOf i) ∈ names)

theorem NamesInv.congr {rows : List CRow} {M M' : Maps} {kg : Nat} {names : List (Str × Nat)}
    (h : NamesInv rows M kg names)
    (hM : ∀ i c, i < kg → rows[i]? = some c → isNodeRow c = true → isNoop c = false → M'.nOf i = M.nOf i) :
    NamesInv rows M' kg names := by
  refine ⟨fun p hp hne => ?_, fun i c hi hc hn hnn hne => ?_⟩
  · obtain ⟨i, c, hi, hc, hn, hnn, hna, he, hp2⟩ := h.1 p hp hne
    exact ⟨i, c, hi, hc, hn, hnn, hna, he, by rw [hM i c hi hc hn hnn]; exact hp2⟩
  · rw [hM i c hi hc hn hnn]; exact h.2 i c hi hc hn hnn hne

/-- row `j` has been parsed (or is the row being parsed, its node pending) and produces a node -/
def Valid (rows : List CRow) (M : Maps) (pd : Bool) (kg j : Nat) (c : CRow) : Prop :=
  (j < kg ∨ (pd = true ∧ j = kg)) ∧ rows[j]? = some c ∧ (isNodeRow c = true ∧ M.el j = false)

/-- `kg` rows fully processed; `pd`: the node of row `kg` is in the arena already (its edges are being
added, its group does not exist yet) -/
structure Rel (rows : List CRow) (M : Maps) (pd : Bool) (kg : Nat) (s : St) (st : P1) : Prop where
  gsize : s.groups.size = gOf rows kg
  root : s.groups[0]? = some (.block (List.range' 1 (gOf rows kg - 1)))
  grp : ∀ j c, j < kg → rows[j]? = some c → isNodeRow c = true → isNoop c = false →
    s.groups[gOf rows j]? = some (.row (M.nOf j :: (M.rOf j).toList) c.row.type)
  grpN : ∀ j c, j < kg → rows[j]? = some c → isNoop c = true →
    ∃ ps ro, s.groups[gOf rows j]? = some (.noop ps ro) ∧ (M.el j = false → ro = some (M.nOf j))
  elno : ∀ j c, rows[j]? = some c → isNoop c = false → M.el j = false
  frel : ∀ j, M.fr j = true → M.el j = true ∧ j < kg ∧ ∃ c, rows[j]? = some c ∧ isNoop c = true
  tgtfr : ∀ e ∈ st.out, ∀ t, e.tgt = Target.row t → M.fr t = false
  stack : s.stack = [0]
  ids : s.rowIds = st.ids.map (fun p => (p.1, gOf rows p.2))
  idok : ∀ p ∈ st.ids, p.2 < kg ∧ ∃ c, rows[p.2]? = some c ∧ isNodeRow c = true
  prev : match st.prev with
    | none => gOf rows kg = 1
    | some p => p < kg ∧ (∃ c, rows[p]? = some c ∧ isNodeRow c = true) ∧ gOf rows p + 1 = gOf rows kg
  srcok : ∀ e ∈ st.out, e.src < kg ∧ ∃ c, rows[e.src]? = some c ∧ isNodeRow c = true
  tgtok : ∀ e ∈ st.out, ∀ t, e.tgt = Target.row t → t < kg ∨ (pd = true ∧ t = kg)
  args : s.noArgs = RefFlow.noArgsTests
  node : ∀ j c, Valid rows M pd kg j c →
    ∃ n : NodeM, s.nodes[M.nOf j]? = some n ∧ RowSim M s.nodes n c (postUpTo rows kg j) (outOf st j) (M.rOf j)
  disj : ∀ j c j' c', Valid rows M pd kg j c → Valid rows M pd kg j' c' → ∀ x, x ∈ idxs M j → x ∈ idxs M j' → j = j'
  rne : ∀ j i', M.rOf j = some i' → i' ≠ M.nOf j
  rnone : ∀ j, kg ≤ j → M.rOf j = none
  rnoop : ∀ j c, rows[j]? = some c → isNoop c = true → M.rOf j = none
  rfresh : RFresh s.nodes s.next
  names : NamesInv rows M kg s.names

theorem Rel.inj {rows : List CRow} {M : Maps} {pd : Bool} {kg : Nat} {s : St} {st : P1} (h : Rel rows M pd kg s st)
    (j : Nat) (c : CRow) (j' : Nat) (c' : CRow) (hv : Valid rows M pd kg j c) (hv' : Valid rows M pd kg j' c')
    (e : M.nOf j = M.nOf j') : j = j' :=
  h.disj j c j' c' hv hv' (M.nOf j) (by simp [idxs]) (by rw [e]; simp [idxs])

/-- every arena index in use is below the size of the arena -/
theorem Rel.idx_lt {rows : List CRow} {M : Maps} {pd : Bool} {kg : Nat} {s : St} {st : P1} (h : Rel rows M pd kg s st)
    (j0 : Nat) (c0 : CRow) (hv : Valid rows M pd kg j0 c0) : ∀ x ∈ idxs M j0, x < s.nodes.size := by
  intro x hx
  obtain ⟨m, hm, hsim⟩ := h.node j0 c0 hv
  simp only [idxs, List.mem_cons] at hx
  rcases hx with rfl | hx
  · exact (Array.getElem?_eq_some_iff.mp hm).1
  · generalize hro : M.rOf j0 = ro at hsim hx
    cases hsim with
    | one _ => cases hx
    | impl i' n' r _ hp =>
      simp only [Option.toList, List.mem_singleton] at hx
      rw [hx]
      exact (Array.getElem?_eq_some_iff.mp hp.rnode).1

/-- one node (arena index `x`) of row `j` is replaced, keeping its identifier, so that the row accounts
for the new out-edge -/
theorem Rel.updateG {rows : List CRow} {M : Maps} {pd : Bool} {kg : Nat} {s s' : St} {st : P1}
    (h : Rel rows M pd kg s st)
    {j : Nat} {c : CRow} (new : OutEdge) (hsrc : new.src = j) (hj : j < kg)
    (hc : rows[j]? = some c) (hnr : isNodeRow c = true ∧ M.el j = false)
    (htg : ∀ t, new.tgt = Target.row t → (t < kg ∨ (pd = true ∧ t = kg)) ∧ M.fr t = false)
    (x : Nat) (hx : x ∈ idxs M j) (hext : NExt s.nodes s'.nodes)
    (hoth : ∀ i, i ≠ x → s'.nodes[i]? = s.nodes[i]?)
    (hg : s'.groups = s.groups) (hst : s'.stack = s.stack)
    (hri : s'.rowIds = s.rowIds) (hna : s'.noArgs = s.noArgs) (hnx : s.next ≤ s'.next)
    (hrow : ∃ n', s'.nodes[M.nOf j]? = some n' ∧
      RowSim M s'.nodes n' c (postUpTo rows kg j) (outOf st j ++ [new]) (M.rOf j))
    (hfr : ∀ n' r, s'.nodes[x]? = some n' → n'.router = some (.rnd r) → ∀ cat ∈ r.cats, ∃ k, k < s'.next ∧ cat.uid = tid k)
    (hnm : s'.names = s.names := by rfl) :
    Rel rows M pd kg s' { st with out := new :: st.out } := by
  refine ⟨by rw [hg]; exact h.gsize, by rw [hg]; exact h.root,
    by rw [hg]; exact h.grp, by rw [hg]; exact h.grpN, h.elno, h.frel, ?_,
    by rw [hst]; exact h.stack, by rw [hri]; exact h.ids, h.idok, h.prev, ?_, ?_,
    by rw [hna]; exact h.args, ?_, h.disj, h.rne, h.rnone, h.rnoop, ?_, by rw [hnm]; exact h.names⟩
  · intro o ho t ht
    simp only [List.mem_cons] at ho
    rcases ho with rfl | ho
    · exact (htg t ht).2
    · exact h.tgtfr o ho t ht
  · intro o ho
    simp only [List.mem_cons] at ho
    rcases ho with rfl | ho
    · rw [hsrc]; exact ⟨hj, c, hc, hnr.1⟩
    · exact h.srcok o ho
  · intro o ho t ht
    simp only [List.mem_cons] at ho
    rcases ho with rfl | ho
    · exact (htg t ht).1
    · exact h.tgtok o ho t ht
  · intro j' c' hv
    by_cases hjj : j' = j
    · subst hjj
      have : c' = c := by have := hv.2.1; rw [hc] at this; injection this with this; exact this.symm
      subst this
      have := outOf_cons_same st new
      rw [hsrc] at this
      rw [this]; exact hrow
    · obtain ⟨m, hm, hp'⟩ := h.node j' c' hv
      have hnotin : ∀ y, y ∈ idxs M j' → y ≠ x := by
        intro y hy e
        exact hjj (h.disj j' c' j c hv ⟨.inl hj, hc, hnr⟩ y hy (e ▸ hx))
      refine ⟨m, by rw [hoth _ (hnotin _ (by simp [idxs]))]; exact hm, ?_⟩
      rw [outOf_cons_other st new j' (fun e1 => hjj (by rw [← e1, hsrc]))]
      refine hp'.transfer hext ?_
      intro i hi
      exact hoth i (hnotin i (by simp only [idxs, List.mem_cons]; exact .inr hi))
  · unfold RFresh
    intro i m r hm hr cat hcat
    by_cases hij : i = x
    · subst hij
      exact hfr m r hm hr cat hcat
    · rw [hoth i hij] at hm
      obtain ⟨k, hk, e⟩ := h.rfresh i m r hm hr cat hcat
      exact ⟨k, by omega, e⟩

/-- the only node of row `j` is replaced (same identifier) by one that accounts for the new out-edge -/
theorem Rel.update {rows : List CRow} {M : Maps} {pd : Bool} {kg : Nat} {s s' : St} {st : P1}
    (h : Rel rows M pd kg s st)
    {j : Nat} {n n' : NodeM} {c : CRow} (new : OutEdge) (hsrc : new.src = j) (hj : j < kg)
    (hn : s.nodes[M.nOf j]? = some n) (hc : rows[j]? = some c) (hnr : isNodeRow c = true ∧ M.el j = false)
    (hro : M.rOf j = none) (hu : n'.uid = n.uid)
    (htg : ∀ t, new.tgt = Target.row t → (t < kg ∨ (pd = true ∧ t = kg)) ∧ M.fr t = false)
    (hn' : s'.nodes[M.nOf j]? = some n') (hoth : ∀ i, i ≠ M.nOf j → s'.nodes[i]? = s.nodes[i]?)
    (hg : s'.groups = s.groups) (hst : s'.stack = s.stack)
    (hri : s'.rowIds = s.rowIds) (hna : s'.noArgs = s.noArgs)
    (hsim : NodeSim M s'.nodes n' c (postUpTo rows kg j) (outOf st j ++ [new]))
    (hnx : s.next ≤ s'.next := by first | exact Nat.le_refl _ | exact Nat.le_add_right _ _)
    (hfr : ∀ r, n'.router = some (.rnd r) → ∀ cat ∈ r.cats, ∃ k, k < s'.next ∧ cat.uid = tid k := by
      intro r hr; cases hr)
    (hnm : s'.names = s.names := by rfl) :
    Rel rows M pd kg s' { st with out := new :: st.out } ∧ NExt s.nodes s'.nodes ∧ s'.groups = s.groups := by
  have hext : NExt s.nodes s'.nodes := by
    intro i m hm
    by_cases hij : i = M.nOf j
    · subst hij; rw [hn] at hm; injection hm with hm; subst hm; exact ⟨n', hn', hu⟩
    · exact ⟨m, by rw [hoth i hij]; exact hm, rfl⟩
  refine ⟨Rel.updateG h new hsrc hj hc hnr htg (M.nOf j) (by simp [idxs]) hext hoth hg hst hri hna hnx
    ⟨n', hn', by rw [hro]; exact .one hsim⟩ ?_ hnm, hext, hg⟩
  intro m r hm hr cat hcat
  rw [hn'] at hm; injection hm with hm; subst hm
  exact hfr r hr cat hcat

theorem lookup_ids (rows : List CRow) (ids : List (Str × Nat)) (id : Str) :
    ((ids.map (fun p => (p.1, gOf rows p.2))).find? (·.1 = id)).map (·.2) = (lookupId ids id).map (gOf rows) := by
  unfold lookupId
  rw [List.find?_map]
  simp [Option.map_map, Function.comp_def]

theorem mostRecent_root (gs : Array Grp) (m : Nat) (h : gs[0]? = some (.block (List.range' 1 m))) :
    mostRecentIn gs [0] = if m = 0 then none else some m := by
  simp only [mostRecentIn, h]
  cases m with
  | zero => simp
  | succ k =>
    have : (List.range' 1 (k + 1)).getLast? = some (k + 1) := by
      rw [List.range'_concat]; simp; omega
    simp [this]

theorem eq_of_nodup_map {α β} (f : α → β) : ∀ (l : List α), (l.map f).Nodup → ∀ x ∈ l, ∀ y ∈ l, f x = f y → x = y := by
  intro l
  induction l with
  | nil => intro _ x hx; cases hx
  | cons a l ih =>
    intro hnd x hx y hy e
    rw [List.map_cons, List.nodup_cons] at hnd
    simp only [List.mem_cons] at hx hy
    rcases hx with rfl | hx <;> rcases hy with rfl | hy
    · rfl
    · exact absurd (e ▸ List.mem_map_of_mem hy) hnd.1
    · exact absurd (e ▸ List.mem_map_of_mem hx) hnd.1
    · exact ih hnd.2 x hx y hy e

theorem uid_iff_name (l : List Cat) (hu : (l.map (·.uid)).Nodup) (hn : (l.map (·.name)).Nodup)
    (c0 a : Cat) (hc0 : c0 ∈ l) (ha : a ∈ l) : a.uid = c0.uid ↔ a.name = c0.name := by
  constructor
  · intro e; rw [eq_of_nodup_map _ l hu a ha c0 hc0 e]
  · intro e; rw [eq_of_nodup_map _ l hn a ha c0 hc0 e]

theorem take7_bucket (x : Str) : ("Bucket ".toList ++ x).take 7 = "Bucket ".toList :=
  List.take_left' (by decide)

theorem head_hash (x : Str) : ("#".toList ++ x).head? = some '#' := rfl

/-- the names of all categories of a deciding row -/
theorem SwitchSim.allNames {M : Maps} {ns : Array NodeM} {n : NodeM} {c : CRow} {es : List OutEdge} {r : SwitchR}
    (hp : SwitchSim M ns n c es r) :
    r.allCats.map (·.name) = namesFrom (kindOf c.row.type) (timeoutOf c.row) [] (testsOf (kindOf c.row.type) es) ++
      baseNames (kindOf c.row.type) (timeoutOf c.row) := by
  unfold SwitchR.allCats
  rw [List.append_assoc, List.map_append, hp.names.1, hp.names.2]

theorem args_switch (t : Str) (cond : Compile.Cond)
    (htype : t = "wait_for_response".toList ∨ t = "split_by_value".toList ∨ t = "split_by_group".toList) :
    (if t = "split_by_group".toList then [none, some cond.value] else [some cond.value] : List (Option Str)) =
      argsOf (kindOf t) (toRCond cond) := by
  unfold argsOf
  rcases htype with h | h | h <;> subst h
  · rw [if_neg ne_wg, kindOf_wait, if_neg (by decide)]; rfl
  · rw [if_neg ne_vg, kindOf_value, if_neg (by decide)]; rfl
  · rw [if_pos rfl, kindOf_group, if_pos rfl]; rfl

theorem catByName_none_of_not_mem (r : SwitchR) (nm : Str) (h : nm ∉ r.allCats.map (·.name)) : r.catByName nm = none := by
  cases hc : r.catByName nm with
  | none => rfl
  | some c0 => exact absurd ((catByName_isSome_iff r nm).mp (by simp [hc])) h

section
variable (rows : List CRow) (M : Maps) (pd : Bool) (kg : Nat) (d : Dest) (tgt : Target) (cond : Compile.Cond) (s : St) (st : P1) (j : Nat)
  (n : NodeM) (c : CRow)

/-- the out-edge the reference records -/
abbrev newEdge : OutEdge := { src := j, cond := toRCond cond, tgt := tgt }

/-- what the state must look like afterwards -/
abbrev EdgePost : PUnit → St → Prop := fun _ s' =>
  Rel rows M pd kg s' { st with out := newEdge tgt cond j :: st.out } ∧ NExt s.nodes s'.nodes ∧ s'.groups = s.groups

variable (h : Rel rows M pd kg s st) (hj : j < kg) (hn : s.nodes[M.nOf j]? = some n) (hc : rows[j]? = some c)
  (hnode : isNodeRow c = true ∧ M.el j = false) (hro : M.rOf j = none)
  (hd : DestIs M s.nodes d (some tgt))
  (htg : ∀ t, tgt = Target.row t → (t < kg ∨ (pd = true ∧ t = kg)) ∧ M.fr t = false)
include h hj hn hc hnode hro hd htg

/-- an action row is left unconditionally: its one exit now leads to the new row -/
theorem plain_edge_sim (hk : kindOf c.row.type = .action) (hp : PlainSim M s.nodes n c.row.action (postUpTo rows kg j) (outOf st j))
    (he : cond.blank = true) :
    wp (rowExitBlank (M.nOf j) n d) s (EdgePost rows M pd kg tgt cond s st j) := by
  unfold rowExitBlank
  split
  rotate_left
  · rename_i hk2; rw [hp.kind] at hk2; cases hk2
  · rename_i hk1 _; exact absurd hp.kind hk1
  wp_simp [wp_fresh', wp_setNode]
  have hext : NExt s.nodes (s.nodes.setIfInBounds (M.nOf j) { n with dexitUid := tid s.next, dexitDest := d }) :=
    NExt.set hn rfl
  refine Rel.update h (newEdge tgt cond j) rfl hj hn hc hnode hro (n' := { n with dexitUid := tid s.next, dexitDest := d })
    rfl htg (set_getElem?_self _ hn) (fun i hi => set_getElem?_other _ _ _ _ hi) rfl rfl rfl rfl ?_
    (hfr := fun r hr => by have h2 : n.router = some (.rnd r) := hr; rw [hp.router] at h2; cases h2)
  refine .plain hk ⟨hp.kind, hp.router, hp.acts, ?_, ?_⟩
  · rw [getLast?_append_singleton]
    exact hd.ext hext
  · intro e hmem
    simp only [List.mem_append, List.mem_singleton] at hmem
    rcases hmem with hmem | hmem
    · exact hp.blank e hmem
    · rw [hmem]; simpa [toRCond_blank] using he

/-- an unconditional edge leaving a deciding row: the default category -/
theorem sw_blank_sim (r : SwitchR) (hk : kindOf c.row.type = .wait ∨ kindOf c.row.type = .splitValue ∨ kindOf c.row.type = .splitGroup)
    (hp : SwitchSim M s.nodes n c (outOf st j) r) (he : cond.blank = true) :
    wp (rowExitBlank (M.nOf j) n d) s (EdgePost rows M pd kg tgt cond s st j) := by
  unfold rowExitBlank
  split
  · rename_i hk2; rw [hp.kind] at hk2; cases hk2
  · rename_i hk2; rw [hp.kind] at hk2; cases hk2
  unfold updSwitch setDfltM
  wp_simp [wp_getNode, wp_setNode]
  intro n' hn'
  rw [hn] at hn'; injection hn' with hn'; subst hn'
  simp only [hp.router]
  wp_simp [wp_setNode]
  have heb : (newEdge tgt cond j).cond.blank = true := by simpa [toRCond_blank] using he
  refine Rel.update h (newEdge tgt cond j) rfl hj hn hc hnode hro (n' := { n with router := some (.sw (r.setDflt d)) })
    rfl htg (set_getElem?_self _ hn) (fun i hi => set_getElem?_other _ _ _ _ hi) rfl rfl rfl rfl ?_
  have hext : NExt s.nodes (s.nodes.setIfInBounds (M.nOf j) { n with router := some (.sw (r.setDflt d)) }) :=
    NExt.set hn rfl
  refine .sw (r.setDflt d) hk ⟨hp.kind, hp.acts, rfl, hp.operand, hp.rname, hp.wait, hp.nrSome, ?_, hp.casecat, ?_, ?_, ?_,
    ⟨by rw [testsOf_append_skip _ _ _ (.inl heb)]; exact hp.names.1, hp.names.2⟩⟩
  · rw [testsOf_append_skip _ _ _ (.inl heb)]; exact hp.cases
  · rw [testsOf_append_skip _ _ _ (.inl heb)]
    exact hp.catd.imp (fun _ _ hd => hd.ext hext)
  · rw [blanks_append_blank _ _ heb, getLast?_append_singleton]
    exact hd.ext hext
  · intro nr hnr
    rw [nrs_append_other _ _ (.inl heb)]
    exact (hp.nr nr hnr).ext hext

/-- a "no response" edge leaving a `wait_for_response` row: the timeout category (or, without
timeout, nothing — on both sides) -/
theorem sw_nr_sim (r : SwitchR) (hk : kindOf c.row.type = .wait) (hp : SwitchSim M s.nodes n c (outOf st j) r)
    (he : cond.blank = false) (hnr : Compile.lower cond.value = "no response".toList) :
    wp (rowExitNoResp (M.nOf j) n d) s (EdgePost rows M pd kg tgt cond s st j) := by
  have heb : (newEdge tgt cond j).cond.blank = false := by simpa [toRCond_blank] using he
  have hnr' : isNR (newEdge tgt cond j).cond = true := by simp [isNR_toRCond, hnr]
  have htests : testsOf (kindOf c.row.type) (outOf st j ++ [newEdge tgt cond j]) = testsOf (kindOf c.row.type) (outOf st j) :=
    testsOf_append_skip _ _ _ (.inr ⟨hk, hnr'⟩)
  unfold rowExitNoResp
  simp only [hp.router]
  split
  · rename_i nr w hnoresp hwait
    wp_simp [wp_setNode]
    have hext : NExt s.nodes (s.nodes.setIfInBounds (M.nOf j)
        { n with router := some (.sw { r with noResp := some { nr with dest := d } }) }) := NExt.set hn rfl
    refine Rel.update h (newEdge tgt cond j) rfl hj hn hc hnode hro
      (n' := { n with router := some (.sw { r with noResp := some { nr with dest := d } }) })
      rfl htg (set_getElem?_self _ hn) (fun i hi => set_getElem?_other _ _ _ _ hi) rfl rfl rfl rfl ?_
    refine .sw _ (.inl hk) ⟨hp.kind, hp.acts, rfl, hp.operand, hp.rname, hp.wait, ?_, ?_, hp.casecat, ?_, ?_, ?_,
      ⟨by rw [htests]; exact hp.names.1, by have := hp.names.2; rw [hnoresp] at this; exact this⟩⟩
    · simp only [Option.isSome_some, true_iff]; exact ⟨w, hwait⟩
    · rw [htests]; exact hp.cases
    · rw [htests]; exact hp.catd.imp (fun _ _ hd => hd.ext hext)
    · rw [blanks_append_cond _ _ heb]; exact hp.dflt.ext hext
    · intro nr' hnr''
      simp only [Option.some.injEq] at hnr''
      subst hnr''
      rw [nrs_append_nr _ _ heb hnr', getLast?_append_singleton]
      exact hd.ext hext
  · rename_i hnot
    wp_simp
    have hnone : r.noResp = none := by
      cases hnoresp : r.noResp with
      | none => rfl
      | some nr =>
        obtain ⟨m, hm⟩ := hp.nrSome.mp (by simp [hnoresp])
        exact absurd hm (by intro hm; exact hnot nr m hnoresp hm)
    refine Rel.update h (newEdge tgt cond j) rfl hj hn hc hnode hro (n' := n) rfl htg hn (fun i _ => rfl) rfl rfl rfl rfl ?_
      (hfr := fun r hr => by have h2 : n.router = some (.rnd r) := hr; rw [hp.router] at h2; cases h2)
    refine .sw r (.inl hk) ⟨hp.kind, hp.acts, hp.router, hp.operand, hp.rname, hp.wait, hp.nrSome, ?_, hp.casecat, ?_, ?_, ?_,
      ⟨by rw [htests]; exact hp.names.1, hp.names.2⟩⟩
    · rw [htests]; exact hp.cases
    · rw [htests]; exact hp.catd
    · rw [blanks_append_cond _ _ heb]; exact hp.dflt
    · intro nr hnr''; rw [hnone] at hnr''; cases hnr''

/-- a test edge leaving a deciding row: a new case and a new category at the end -/
theorem sw_test_sim (r : SwitchR) (hk : kindOf c.row.type = .wait ∨ kindOf c.row.type = .splitValue ∨ kindOf c.row.type = .splitGroup)
    (hp : SwitchSim M s.nodes n c (outOf st j) r) (he : cond.blank = false)
    (hnr : kindOf c.row.type = .wait → Compile.lower cond.value ≠ "no response".toList)
    (hnrs : (kindOf c.row.type = .splitValue ∨ kindOf c.row.type = .splitGroup) →
      Compile.lower cond.value ≠ "no response".toList)
    (hvar : kindOf c.row.type = .wait → cond.var = [])
    (hfreeN : cond.name ≠ [] → cond.name ∉ namesFrom (kindOf c.row.type) (timeoutOf c.row) []
      (testsOf (kindOf c.row.type) (outOf st j)) ++ baseNames (kindOf c.row.type) (timeoutOf c.row))
    (hdist : ((testsOf (kindOf c.row.type) (outOf st j ++ [newEdge tgt cond j])).map
      (fun e => refTest (kindOf c.row.type) e.cond)).Nodup) :
    wp (rowExitCond (gOf rows j) [M.nOf j] c.row.type (M.nOf j) n d cond) s (EdgePost rows M pd kg tgt cond s st j) := by
  have heb : (newEdge tgt cond j).cond.blank = false := by simpa [toRCond_blank] using he
  have hnotnr : ¬ (kindOf c.row.type = .wait ∧ isNR (newEdge tgt cond j).cond = true) := by
    rintro ⟨h1, h2⟩
    simp only [isNR_toRCond, decide_eq_true_eq] at h2
    exact hnr h1 h2
  have htests := testsOf_append_test (kindOf c.row.type) (outOf st j) (newEdge tgt cond j) heb hnotnr
  rw [htests, List.map_append, List.nodup_append] at hdist
  -- the type of the row decides how the condition is read
  have htype := switch_type_of_kind hk
  unfold rowExitCond
  have hnb : n.kind ≠ NodeKind.basic := by rw [hp.kind]; intro hh; cases hh
  simp only [hnb, if_false]
  wp_simp
  unfold nodeAddChoice
  simp only [hp.router]
  wp_simp [wp_setNode]
  -- the stored test is the reference's test
  have hstored0 := stored_test c.row.type cond htype
  have hargs0 := args_switch c.row.type cond htype
  generalize hty : (if (if c.row.type = "split_by_group".toList then "has_group".toList else cond.type).isEmpty = true
      then "has_any_word".toList
      else (if c.row.type = "split_by_group".toList then "has_group".toList else cond.type)) = ty at hstored0 ⊢
  generalize hargs : (if c.row.type = "split_by_group".toList then [none, some cond.value] else [some cond.value] :
      List (Option Str)) = args at hstored0 hargs0 ⊢
  have hstored : (ty, (if s.noArgs.contains ty then [] else args).map (·.getD [])) =
      refTest (kindOf c.row.type) (newEdge tgt cond j).cond := by
    rw [h.args]; exact hstored0
  refine addChoice_any r _ ty args cond.name d s ?_ ?_ _ ?_
  · -- no case with this test yet
    intro k hkm ⟨e1, e2⟩
    have hmem : (k.type, k.args.map (·.getD [])) ∈ r.cases.map (fun k => (k.type, k.args.map (·.getD []))) :=
      List.mem_map_of_mem hkm
    rw [hp.cases] at hmem
    have : (k.type, k.args.map (·.getD [])) = refTest (kindOf c.row.type) (newEdge tgt cond j).cond := by
      rw [← hstored, e1, e2]
    rw [this] at hmem
    exact hdist.2.2 _ hmem _ (by simp) rfl
  · -- an explicit category name is not in use
    intro hne
    refine catByName_none_of_not_mem r _ ?_
    rw [hp.allNames]; exact hfreeN hne
  · intro _
    wp_simp [wp_setNode]
    -- the operand does not change
    have hopd0 := operand_kept c.row.type cond n r c hp.router rfl htype
      (fun hw => hvar (by rw [hw]; exact kindOf_wait)) hp.operand
    generalize hop : (if c.row.type = "split_by_group".toList ∨ c.row.type = "split_by_value".toList
        then (Compile.operandOf n, (none : Option Nat))
        else if ¬ cond.var.isEmpty = true then (cond.var, none) else ("@input.text".toList, some 0)).1 = op at hopd0 ⊢
    have hopd : (if op.isEmpty = true then r.operand else op) = r.operand := hopd0
    rw [hopd]
    -- the name of the new category
    obtain ⟨nm, hnm⟩ : ∃ nm : Str, nm = if cond.name.isEmpty = true
        then genCatName (if op.isEmpty = true then r else { r with operand := op }) args else cond.name := ⟨_, rfl⟩
    rw [← hnm]
    have hnm2 : nm = catNameOf (kindOf c.row.type) (timeoutOf c.row)
        (namesFrom (kindOf c.row.type) (timeoutOf c.row) [] (testsOf (kindOf c.row.type) (outOf st j))) (newEdge tgt cond j).cond := by
      rw [hnm]
      unfold catNameOf
      have e0 : (newEdge tgt cond j).cond.name = cond.name := rfl
      rw [e0, genCatName_eq, ← hargs0]
      have e1 : (if op.isEmpty = true then r else { r with operand := op }).allCats = r.allCats := by split <;> rfl
      rw [e1, hp.allNames]
    obtain ⟨r', hr'⟩ : ∃ r' : SwitchR, r' = { r with
        cats := r.cats ++ [Cat.mk (tid s.next) nm (tid (s.next + 1)) d],
        cases := r.cases ++ [Case.mk (tid (s.next + 2)) ty (if s.noArgs.contains ty = true then [] else args) (tid s.next)] } := ⟨_, rfl⟩
    have hr'' : ({ r with
        operand := r.operand,
        cats := r.cats ++ [{ uid := tid s.next, name := nm, exitUid := tid (s.next + 1), dest := d }],
        cases := r.cases ++ [{ uid := tid (s.next + 2), type := ty,
                               args := if s.noArgs.contains ty = true then [] else args, catUid := tid s.next }] } : SwitchR) = r' := by
      rw [hr']
    rw [hr'']
    have hext : NExt s.nodes (s.nodes.setIfInBounds (M.nOf j) { n with router := some (.sw r') }) := NExt.set hn rfl
    refine Rel.update h (newEdge tgt cond j) rfl hj hn hc hnode hro (n' := { n with router := some (.sw r') })
      rfl htg (set_getElem?_self _ hn) (fun i hi => set_getElem?_other _ _ _ _ hi) rfl rfl rfl rfl ?_
    have fcats : r'.cats = r.cats ++ [{ uid := tid s.next, name := nm, exitUid := tid (s.next + 1), dest := d }] := by
      rw [hr']
    have fcases : r'.cases = r.cases ++ [{ uid := tid (s.next + 2), type := ty, args := if s.noArgs.contains ty = true then [] else args, catUid := tid s.next }] := by
      rw [hr']
    have fop : r'.operand = r.operand := by rw [hr']
    have frn : r'.resultName = r.resultName := by rw [hr']
    have fw : r'.wait = r.wait := by rw [hr']
    have fnr : r'.noResp = r.noResp := by rw [hr']
    have fd : r'.dflt = r.dflt := by rw [hr']
    refine .sw r' hk ⟨hp.kind, hp.acts, rfl, by rw [fop]; exact hp.operand, by rw [frn]; exact hp.rname,
      by rw [fw]; exact hp.wait, by rw [fnr, fw]; exact hp.nrSome, ?_, ?_, ?_, ?_, ?_, ?_⟩
    rotate_right
    · constructor
      · rw [fcats, htests, namesFrom_append, List.map_append, hp.names.1]
        simp only [List.map_cons, List.map_nil, namesFrom]
        rw [hnm2]
      · rw [fd, fnr]; exact hp.names.2
    · rw [htests, fcases]
      simp only [List.map_append, List.map_cons, List.map_nil, hp.cases]
      rw [hstored]
    · rw [fcases, fcats]; simp only [List.map_append, List.map_cons, List.map_nil, hp.casecat]
    · rw [htests, fcats]
      refine List.rel_append (hp.catd.imp (fun _ _ hd => hd.ext hext)) ?_
      refine List.Forall₂.cons ?_ List.Forall₂.nil
      exact hd.ext hext
    · rw [blanks_append_cond _ _ heb, fd]; exact hp.dflt.ext hext
    · intro nr hnr''
      rw [fnr] at hnr''
      have hother : (newEdge tgt cond j).cond.blank = true ∨ isNR (newEdge tgt cond j).cond = false := by
        right
        cases hh : isNR (newEdge tgt cond j).cond
        · rfl
        · -- a split row is never left by a "no response" edge, a wait row's would not be a test
          simp only [isNR_toRCond, decide_eq_true_eq] at hh
          rcases hk with h1 | h1 | h1
          · exact absurd hh (hnr h1)
          · exact absurd hh (hnrs (.inl h1))
          · exact absurd hh (hnrs (.inr h1))
      rw [nrs_append_other _ _ hother]
      exact (hp.nr nr hnr'').ext hext

/-- an edge naming the first outcome (Complete / Success) of a fixed-outcome row -/
theorem fix_succ_sim (r : SwitchR) (sc : Cat) (hk : isFixedKind (kindOf c.row.type))
    (hp : FixSim M s.nodes n c (outOf st j) r sc)
    (hs : isSucc (kindOf c.row.type) (newEdge tgt cond j) = true)
    (hf : isFail (kindOf c.row.type) (newEdge tgt cond j) = false) :
    wp (updSwitch (M.nOf j) fun r => setCatDestByName r (succName (kindOf c.row.type)) d) s
      (EdgePost rows M pd kg tgt cond s st j) := by
  unfold updSwitch
  wp_simp [wp_getNode]
  intro n' hn'
  rw [hn] at hn'; injection hn' with hn'; subst hn'
  simp only [hp.router]
  have hfind : r.catByName (succName (kindOf c.row.type)) = some sc := by
    unfold SwitchR.catByName SwitchR.allCats
    rw [hp.cats]
    simp [List.find?_cons, hp.sname]
  unfold setCatDestByName
  rw [hfind]
  wp_simp [wp_setNode]
  have hr' : r.setDest sc.uid d = { r with cats := [{ sc with dest := d }] } := by
    unfold SwitchR.setDest SwitchR.mapCats
    rw [hp.cats, hp.noResp]
    have : ¬ (r.dflt.uid = sc.uid) := fun e => hp.uidne e.symm
    simp [this]
  rw [hr']
  have hext : NExt s.nodes (s.nodes.setIfInBounds (M.nOf j)
      { n with router := some (.sw { r with cats := [{ sc with dest := d }] }) }) := NExt.set hn rfl
  refine Rel.update h (newEdge tgt cond j) rfl hj hn hc hnode hro
    (n' := { n with router := some (.sw { r with cats := [{ sc with dest := d }] }) })
    rfl htg (set_getElem?_self _ hn) (fun i hi => set_getElem?_other _ _ _ _ hi) rfl rfl rfl rfl ?_
  refine .fix { r with cats := [{ sc with dest := d }] } { sc with dest := d } hk
    ⟨hp.kind, hp.acts, rfl, hp.operand, hp.rname, hp.wait, hp.noResp, rfl, hp.sname,
      hp.uidne, hp.cases, ?_, ?_⟩
  · rw [List.filter_append]
    simp only [List.filter_cons, hs, if_true, List.filter_nil]
    rw [getLast?_append_singleton]
    exact hd.ext hext
  · rw [List.filter_append]
    simp only [List.filter_cons, hf, Bool.false_eq_true, if_false, List.filter_nil, List.append_nil]
    exact hp.dflt.ext hext

/-- an edge naming the other outcome (Expired / Failure; for `call_webhook` / `transfer_airtime`
also an unconditional edge) of a fixed-outcome row -/
theorem fix_fail_sim (r : SwitchR) (sc : Cat) (hk : isFixedKind (kindOf c.row.type))
    (hp : FixSim M s.nodes n c (outOf st j) r sc)
    (hs : isSucc (kindOf c.row.type) (newEdge tgt cond j) = false)
    (hf : isFail (kindOf c.row.type) (newEdge tgt cond j) = true) :
    wp (updSwitch (M.nOf j) (setDfltM d)) s (EdgePost rows M pd kg tgt cond s st j) := by
  unfold updSwitch setDfltM
  wp_simp [wp_getNode]
  intro n' hn'
  rw [hn] at hn'; injection hn' with hn'; subst hn'
  simp only [hp.router]
  wp_simp [wp_setNode]
  have hext : NExt s.nodes (s.nodes.setIfInBounds (M.nOf j) { n with router := some (.sw (r.setDflt d)) }) :=
    NExt.set hn rfl
  refine Rel.update h (newEdge tgt cond j) rfl hj hn hc hnode hro (n' := { n with router := some (.sw (r.setDflt d)) })
    rfl htg (set_getElem?_self _ hn) (fun i hi => set_getElem?_other _ _ _ _ hi) rfl rfl rfl rfl ?_
  refine .fix (r.setDflt d) sc hk
    ⟨hp.kind, hp.acts, rfl, hp.operand, hp.rname, hp.wait, hp.noResp, hp.cats, hp.sname, hp.uidne, hp.cases, ?_, ?_⟩
  · rw [List.filter_append]
    simp only [List.filter_cons, hs, Bool.false_eq_true, if_false, List.filter_nil, List.append_nil]
    exact hp.succ.ext hext
  · rw [List.filter_append]
    simp only [List.filter_cons, hf, if_true, List.filter_nil]
    rw [getLast?_append_singleton]
    exact hd.ext hext

/-- an edge leaving a `split_random` row: a new bucket, or a new target for the bucket of that name -/
theorem rand_edge_sim (r : RandomR) (hk : kindOf c.row.type = .splitRandom)
    (hp : RandSim M s.nodes n c (outOf st j) r)
    (hok : bucketNameOk (bucketName (toRCond cond)) = true) :
    wp (rowExitCond (gOf rows j) [M.nOf j] c.row.type (M.nOf j) n d cond) s (EdgePost rows M pd kg tgt cond s st j) := by
  unfold rowExitCond
  have hnb : n.kind ≠ NodeKind.basic := by rw [hp.kind]; intro hh; cases hh
  simp only [hnb, if_false]
  wp_simp
  unfold nodeAddChoice
  simp only [hp.router]
  have hbn : (if cond.name.isEmpty = true then cond.value else cond.name) = bucketName (toRCond cond) := rfl
  rw [hbn]
  have hbk : bucketsOf (outOf st j ++ [newEdge tgt cond j]) = bstep (bucketsOf (outOf st j)) (newEdge tgt cond j) :=
    bucketsOf_append _ _
  generalize hnm0 : bucketName (toRCond cond) = nm0 at hok ⊢
  have hbc : bucketName (newEdge tgt cond j).cond = nm0 := hnm0
  have hfresh := h.rfresh (M.nOf j) n r hn hp.router
  unfold randomAddChoice
  by_cases hemp : nm0 = []
  · -- an unnamed bucket
    subst hemp
    simp only [List.isEmpty_nil, if_true]
    have hnone : r.cats.find? (fun c => decide (c.name = "Bucket ".toList ++ Compile.natStr (r.cats.length + 2))) = none := by
      rw [List.find?_eq_none]
      intro c0 hc0 hh
      have := hp.gen c0 hc0 _ (of_decide_eq_true hh)
      omega
    rw [hnone]
    wp_simp [wp_mkCat, wp_setNode]
    obtain ⟨nc, hnc⟩ : ∃ nc : Cat, nc = Cat.mk (tid s.next) ("Bucket ".toList ++ Compile.natStr (r.cats.length + 2))
        (tid (s.next + 1)) d := ⟨_, rfl⟩
    rw [← hnc]
    have hext : NExt s.nodes (s.nodes.setIfInBounds (M.nOf j) { n with router := some (.rnd { r with cats := r.cats ++ [nc] }) }) :=
      NExt.set hn rfl
    refine Rel.update h (newEdge tgt cond j) rfl hj hn hc hnode hro
      (n' := { n with router := some (.rnd { r with cats := r.cats ++ [nc] }) })
      rfl htg (set_getElem?_self _ hn) (fun i hi => set_getElem?_other _ _ _ _ hi) rfl rfl rfl rfl ?_ (Nat.le_add_right _ _) ?_
    · refine .rnd _ hk ⟨hp.kind, hp.acts, rfl, hp.rname, ?_, ?_, ?_, ?_⟩
      · simp only [List.map_append, List.map_cons, List.map_nil]
        refine List.nodup_append.mpr ⟨hp.uids, by simp, ?_⟩
        intro u hu1 u2 hu2 hu3
        simp only [List.mem_singleton] at hu2
        rw [hu3] at hu1
        obtain ⟨c0, hc0, e0⟩ := List.mem_map.mp hu1
        obtain ⟨k0, hk0, e1⟩ := hfresh c0 hc0
        rw [hu2] at e0; rw [hnc] at e0
        rw [e1] at e0
        have := tid_inj.mp e0
        omega
      · simp only [List.map_append, List.map_cons, List.map_nil]
        refine List.nodup_append.mpr ⟨hp.names, by simp, ?_⟩
        intro u hu1 u2 hu2 hu3
        simp only [List.mem_singleton] at hu2
        rw [hu3] at hu1
        obtain ⟨c0, hc0, e0⟩ := List.mem_map.mp hu1
        rw [hu2] at e0; rw [hnc] at e0
        have := hp.gen c0 hc0 _ e0
        omega
      · rw [hbk]
        unfold bstep
        rw [hbc]
        simp only [List.isEmpty_nil, if_true]
        refine List.rel_append (hp.rel.imp (fun _ _ hd => ⟨hd.1.ext hext, hd.2⟩)) ?_
        refine List.Forall₂.cons ⟨?_, .inr ⟨?_, head_hash _⟩⟩ List.Forall₂.nil
        · have : nc.dest = d := by rw [hnc]
          rw [this]; exact hd.ext hext
        · have : nc.name = "Bucket ".toList ++ Compile.natStr (r.cats.length + 2) := by rw [hnc]
          rw [this]; exact take7_bucket _
      · intro cat hcat k0 hk0
        simp only [List.mem_append, List.mem_singleton] at hcat
        simp only [List.length_append, List.length_singleton]
        rcases hcat with hcat | hcat
        · have := hp.gen cat hcat k0 hk0; omega
        · rw [hcat, hnc] at hk0
          have := Compile.natStr_injective (List.append_cancel_left hk0)
          omega
    · intro r' hr' cat hcat
      injection hr' with hr'; injection hr' with hr'; subst hr'
      simp only [List.mem_append, List.mem_singleton] at hcat
      rcases hcat with hcat | hcat
      · obtain ⟨k0, hk0, e1⟩ := hfresh cat hcat
        exact ⟨k0, by show k0 < s.next + 2; omega, e1⟩
      · exact ⟨s.next, by show s.next < s.next + 2; omega, by rw [hcat, hnc]⟩
  · -- a named bucket
    have hemp' : nm0.isEmpty = false := by cases nm0 with | nil => exact absurd rfl hemp | cons _ _ => rfl
    obtain ⟨hk1, hk2⟩ := bucketNameOk_spec hok hemp
    simp only [hemp', Bool.false_eq_true, if_false]
    have hany : r.cats.any (fun c => decide (c.name = nm0)) = (bucketsOf (outOf st j)).1.any (fun p => decide (p.1 = nm0)) := by
      refine forall2_any_iff hp.rel ?_
      intro a b hab
      have := hab.2.eq_iff hk1 hk2
      by_cases e : a.name = nm0
      · simp [e, this.mp e]
      · have e' : ¬ b.1 = nm0 := fun hh => e (this.mpr hh)
        simp [e, e']
    cases hfind : r.cats.find? (fun c => decide (c.name = nm0)) with
    | none =>
      have hnot : ∀ c0 ∈ r.cats, c0.name ≠ nm0 := by
        intro c0 hc0
        have := List.find?_eq_none.mp hfind c0 hc0
        simpa using this
      have hanyF : (bucketsOf (outOf st j)).1.any (fun p => decide (p.1 = nm0)) = false := by
        rw [← hany]
        rw [List.any_eq_false]
        intro c0 hc0; simpa using hnot c0 hc0
      wp_simp [wp_mkCat, wp_setNode]
      obtain ⟨nc, hnc⟩ : ∃ nc : Cat, nc = { uid := tid s.next, name := nm0, exitUid := tid (s.next + 1), dest := d } := ⟨_, rfl⟩
      rw [← hnc]
      have hext : NExt s.nodes (s.nodes.setIfInBounds (M.nOf j) { n with router := some (.rnd { r with cats := r.cats ++ [nc] }) }) :=
        NExt.set hn rfl
      refine Rel.update h (newEdge tgt cond j) rfl hj hn hc hnode hro
        (n' := { n with router := some (.rnd { r with cats := r.cats ++ [nc] }) })
        rfl htg (set_getElem?_self _ hn) (fun i hi => set_getElem?_other _ _ _ _ hi) rfl rfl rfl rfl ?_ (Nat.le_add_right _ _) ?_
      · refine .rnd _ hk ⟨hp.kind, hp.acts, rfl, hp.rname, ?_, ?_, ?_, ?_⟩
        · simp only [List.map_append, List.map_cons, List.map_nil]
          refine List.nodup_append.mpr ⟨hp.uids, by simp, ?_⟩
          intro u hu1 u2 hu2 hu3
          simp only [List.mem_singleton] at hu2
          rw [hu3] at hu1
          obtain ⟨c0, hc0, e0⟩ := List.mem_map.mp hu1
          obtain ⟨k0, hk0, e1⟩ := hfresh c0 hc0
          rw [hu2] at e0; rw [hnc] at e0
          rw [e1] at e0
          have := tid_inj.mp e0
          omega
        · simp only [List.map_append, List.map_cons, List.map_nil]
          refine List.nodup_append.mpr ⟨hp.names, by simp, ?_⟩
          intro u hu1 u2 hu2 hu3
          simp only [List.mem_singleton] at hu2
          rw [hu3] at hu1
          obtain ⟨c0, hc0, e0⟩ := List.mem_map.mp hu1
          rw [hu2] at e0; rw [hnc] at e0
          exact hnot c0 hc0 e0
        · rw [hbk]
          unfold bstep
          rw [hbc]
          simp only [hemp', Bool.false_eq_true, if_false, hanyF]
          refine List.rel_append (hp.rel.imp (fun _ _ hd => ⟨hd.1.ext hext, hd.2⟩)) ?_
          refine List.Forall₂.cons ⟨?_, .inl ⟨?_, hemp, hk1, hk2⟩⟩ List.Forall₂.nil
          · have : nc.dest = d := by rw [hnc]
            rw [this]; exact hd.ext hext
          · rw [hnc]
        · intro cat hcat k0 hk0
          simp only [List.mem_append, List.mem_singleton] at hcat
          simp only [List.length_append, List.length_singleton]
          rcases hcat with hcat | hcat
          · have := hp.gen cat hcat k0 hk0; omega
          · rw [hcat, hnc] at hk0
            exfalso
            apply hk1
            have : nm0 = "Bucket ".toList ++ Compile.natStr k0 := hk0
            rw [this]; exact take7_bucket _
      · intro r' hr' cat hcat
        injection hr' with hr'; injection hr' with hr'; subst hr'
        simp only [List.mem_append, List.mem_singleton] at hcat
        rcases hcat with hcat | hcat
        · obtain ⟨k0, hk0, e1⟩ := hfresh cat hcat
          exact ⟨k0, by show k0 < s.next + 2; omega, e1⟩
        · exact ⟨s.next, by show s.next < s.next + 2; omega, by rw [hcat, hnc]⟩
    | some c0 =>
      have hc0m : c0 ∈ r.cats := List.mem_of_find?_eq_some hfind
      have hc0n : c0.name = nm0 := by simpa using List.find?_some hfind
      have hanyT : (bucketsOf (outOf st j)).1.any (fun p => decide (p.1 = nm0)) = true := by
        rw [← hany, List.any_eq_true]
        exact ⟨c0, hc0m, by simp [hc0n]⟩
      wp_simp [wp_setNode]
      obtain ⟨f, hf⟩ : ∃ f : Cat → Cat, f = fun c' => if c'.uid = c0.uid then { c' with dest := d } else c' := ⟨_, rfl⟩
      rw [← hf]
      have hfu : ∀ a, (f a).uid = a.uid := by intro a; rw [hf]; simp only; split <;> rfl
      have hfn : ∀ a, (f a).name = a.name := by intro a; rw [hf]; simp only; split <;> rfl
      have hext : NExt s.nodes (s.nodes.setIfInBounds (M.nOf j) { n with router := some (.rnd { r with cats := r.cats.map f }) }) :=
        NExt.set hn rfl
      refine Rel.update h (newEdge tgt cond j) rfl hj hn hc hnode hro
        (n' := { n with router := some (.rnd { r with cats := r.cats.map f }) })
        rfl htg (set_getElem?_self _ hn) (fun i hi => set_getElem?_other _ _ _ _ hi) rfl rfl rfl rfl ?_ (Nat.le_refl _) ?_
      · refine .rnd _ hk ⟨hp.kind, hp.acts, rfl, hp.rname, ?_, ?_, ?_, ?_⟩
        · have : (r.cats.map f).map (·.uid) = r.cats.map (·.uid) := by
            rw [List.map_map]; exact List.map_congr_left (fun a _ => hfu a)
          show ((r.cats.map f).map (·.uid)).Nodup
          rw [this]; exact hp.uids
        · have : (r.cats.map f).map (·.name) = r.cats.map (·.name) := by
            rw [List.map_map]; exact List.map_congr_left (fun a _ => hfn a)
          show ((r.cats.map f).map (·.name)).Nodup
          rw [this]; exact hp.names
        · rw [hbk]
          unfold bstep
          rw [hbc]
          simp only [hemp', Bool.false_eq_true, if_false, hanyT, if_true]
          refine forall2_map_mem hp.rel ?_
          intro a b ha hab
          have h1 : a.uid = c0.uid ↔ a.name = nm0 := by
            rw [← hc0n]; exact uid_iff_name r.cats hp.uids hp.names c0 a hc0m ha
          have h2 := hab.2.eq_iff hk1 hk2
          by_cases e : a.uid = c0.uid
          · have e2 : b.1 = nm0 := h2.mp (h1.mp e)
            have hfa : f a = { a with dest := d } := by rw [hf]; simp only [e, if_true]
            rw [hfa]
            simp only [e2, if_true]
            exact ⟨hd.ext hext, by rw [← e2]; exact hab.2⟩
          · have e2 : ¬ b.1 = nm0 := fun hh => e (h1.mpr (h2.mpr hh))
            have hfa : f a = a := by rw [hf]; simp only [e, if_false]
            rw [hfa]
            simp only [e2, if_false]
            exact ⟨hab.1.ext hext, hab.2⟩
        · intro cat hcat k0 hk0
          obtain ⟨a, ha, e⟩ := List.mem_map.mp hcat
          simp only [List.length_map]
          rw [← e, hfn] at hk0
          exact hp.gen a ha k0 hk0
      · intro r' hr' cat hcat
        injection hr' with hr'; injection hr' with hr'; subst hr'
        obtain ⟨a, ha, e⟩ := List.mem_map.mp hcat
        obtain ⟨k0, hk0, e1⟩ := hfresh a ha
        exact ⟨k0, hk0, by rw [← e, hfu, e1]⟩

end
end Rpft.CoreSheet
