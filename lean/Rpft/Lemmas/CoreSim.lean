/-
Lock-step simulation between the compiler machine (`Compile.step` on `toEvent c`) and pass 1 of the
reference interpretation (`RefFlow.pass1Row` on `toRRow c`) for the rows of the fragment: after the
same prefix of the sheet, arena node `j` is the compiled form of row `j` with the out-edges
recorded for `j` so far.
-/
import Rpft.CoreSheet
import Rpft.Lemmas.CompileInvA4
import Rpft.Lemmas.RefFlowPass1
set_option linter.unusedSimpArgs false
set_option linter.unusedVariables false
namespace Rpft.CoreSheet
open Rpft Rpft.Compile Rpft.RefFlow

/-- destination `d` of a compiled exit is what the reference target means -/
def DestIs (ns : Array NodeM) (d : Dest) : Option Target → Prop
  | none => d = Dest.none
  | some (.row t) => ∃ m : NodeM, ns[t]? = some m ∧ d = Dest.node m.uid
  | some .exit => d = Dest.hard ∨ d = Dest.none

theorem DestIs.ext {ns ns' : Array NodeM} (h : NExt ns ns') {d : Dest} {t : Option Target}
    (hd : DestIs ns d t) : DestIs ns' d t := by
  cases t with
  | none => exact hd
  | some t =>
    cases t with
    | exit => exact hd
    | row k =>
      obtain ⟨m, hm, e⟩ := hd
      obtain ⟨m', hm', hu⟩ := h k m hm
      exact ⟨m', hm', by rw [e, hu]⟩

/-- the out-edges recorded so far that leave row `j`, in order -/
def outOf (st : P1) (j : Nat) : List OutEdge := st.out.reverse.filter (·.src = j)

theorem outOf_cons_same (st : P1) (e : OutEdge) :
    outOf { st with out := e :: st.out } e.src = outOf st e.src ++ [e] := by
  simp [outOf, List.filter_append]

theorem outOf_cons_other (st : P1) (e : OutEdge) (j : Nat) (h : e.src ≠ j) :
    outOf { st with out := e :: st.out } j = outOf st j := by
  simp [outOf, List.filter_append, h]

/-- an action row without conditional out-edges: one node, one exit -/
structure PlainSim (ns : Array NodeM) (n : NodeM) (act : Option Str) (es : List OutEdge) : Prop where
  kind : n.kind = NodeKind.basic
  router : n.router = none
  acts : n.actions.map (·.2) = act.toList
  dest : DestIs ns n.dexitDest ((es.getLast?).map (·.tgt))

/-- `kn` nodes in the arena, `kg` rows fully processed (`kn = kg`, or `kn = kg + 1` while the edges
of row `kg` are being added) -/
structure Rel (rows : List CRow) (kn kg : Nat) (s : St) (st : P1) : Prop where
  nsize : s.nodes.size = kn
  gsize : s.groups.size = kg + 1
  root : s.groups[0]? = some (.block (List.range' 1 kg))
  grp : ∀ j, j < kg → ∃ t, s.groups[j + 1]? = some (.row [j] t)
  stack : s.stack = [0]
  ids : s.rowIds = st.ids.map (fun p => (p.1, p.2 + 1))
  idlt : ∀ p ∈ st.ids, p.2 < kg
  prev : st.prev = if kg = 0 then none else some (kg - 1)
  blank : ∀ e ∈ st.out, e.cond.blank = true
  srclt : ∀ e ∈ st.out, e.src < kg
  node : ∀ j, j < kn → ∃ (n : NodeM) (c : CRow), s.nodes[j]? = some n ∧ rows[j]? = some c ∧
    PlainSim s.nodes n c.row.action (outOf st j)

theorem lookup_ids (ids : List (Str × Nat)) (id : Str) :
    ((ids.map (fun p => (p.1, p.2 + 1))).find? (·.1 = id)).map (·.2) = (lookupId ids id).map (· + 1) := by
  unfold lookupId
  rw [List.find?_map]
  simp [Option.map_map, Function.comp_def]

theorem mostRecent_root (gs : Array Grp) (kg : Nat) (h : gs[0]? = some (.block (List.range' 1 kg))) :
    mostRecentIn gs [0] = if kg = 0 then none else some kg := by
  simp only [mostRecentIn, h]
  cases kg with
  | zero => simp
  | succ k =>
    have : (List.range' 1 (k + 1)).getLast? = some (k + 1) := by
      rw [List.range'_concat]; simp; omega
    simp [this]

theorem wp_fuelOf (s : St) (Q : Nat → St → Prop) : wp fuelOf s Q ↔ Q (2 * s.groups.size + 8) s := by
  unfold fuelOf; wp_simp

theorem wp_groupOfEdge (e : Compile.Edge) (s : St) (Q : Option Nat → St → Prop) :
    wp (groupOfEdge e) s Q ↔
      if e.from_ = "start".toList then Q none s
      else if e.from_ = [] then Q (mostRecentIn s.groups s.stack) s
      else match (s.rowIds.find? (·.1 = e.from_)).map (·.2) with
        | some g => Q (some g) s
        | none => True := by
  unfold groupOfEdge lookupRow mostRecent
  by_cases hs : e.from_ = "start".toList
  · simp only [hs, if_true]; wp_simp
  · by_cases hemp : e.from_ = []
    · have : ¬ ([] : Str) = "start".toList := by decide
      simp only [hemp, this, if_true, if_false]; wp_simp; simp
    · simp only [hs, hemp, if_false]
      wp_simp [List.isEmpty_iff, hemp]
      simp only [not_false_eq_true, true_implies, not_true_eq_false, false_implies, and_true]
      generalize Option.map (fun x => x.snd) (List.find? (fun x => decide (x.fst = e.from_)) s.rowIds) = o
      cases o <;> wp_simp

theorem toRCond_blank (c : Compile.Cond) : (toRCond c).blank = c.blank := rfl

/-- one edge of the row being processed (node `kg`, identifier `u`): the compiler machine and pass 1
stay related -/
theorem edge_sim (rows : List CRow) (kg : Nat) (u : Uid) (e : Compile.Edge) (he : e.cond.blank = true)
    (s : St) (st st' : P1) (h : Rel rows (kg + 1) kg s st)
    (hu : ∃ m, s.nodes[kg]? = some m ∧ m.uid = u)
    (hst : (match edgeSrc st kg (toREdge e) with
      | .error err => Except.error err
      | .ok none => .ok st
      | .ok (some j) => .ok { st with out := { src := j, cond := toRCond e.cond, tgt := Target.row kg } :: st.out })
        = .ok st') :
    wp (addRowEdge (.node u) e) s (fun _ s' => Rel rows (kg + 1) kg s' st' ∧ NExt s.nodes s'.nodes) := by
  -- the source group on the compiler side, the source row on the reference side
  have key : ∀ j, edgeSrc st kg (toREdge e) = .ok (some j) → j < kg →
      wp (addExit (2 * s.groups.size + 8) (j + 1) (.node u) e.cond) s (fun _ s' =>
        Rel rows (kg + 1) kg s' { st with out := { src := j, cond := toRCond e.cond, tgt := Target.row kg } :: st.out } ∧
        NExt s.nodes s'.nodes) := by
    intro j _ hj
    obtain ⟨t, hg⟩ := h.grp j hj
    obtain ⟨n, c, hn, hc, hp⟩ := h.node j (by omega)
    have hfuel : 2 * s.groups.size + 8 = (2 * s.groups.size + 7) + 1 := by omega
    rw [hfuel]
    unfold addExit
    wp_simp [wp_getGrp]
    intro grp hgrp
    rw [hg] at hgrp; injection hgrp with hgrp; subst hgrp
    simp only
    unfold rowAddExit
    simp only [List.getLast?_singleton]
    wp_simp [wp_getNode]
    intro n' hn'
    rw [hn] at hn'; injection hn' with hn'; subst hn'
    have hk : n.kind ≠ NodeKind.random := by rw [hp.kind]; intro hh; cases hh
    refine ⟨fun _ => ?_, fun hh => absurd ⟨he, hk⟩ hh⟩
    unfold rowExitBlank
    split
    rotate_left
    · rename_i hk2; rw [hp.kind] at hk2; cases hk2
    · rename_i hk1 _; exact absurd hp.kind hk1
    wp_simp [wp_fresh', wp_setNode]
    obtain ⟨m, hm, hmu⟩ := hu
    have hjk : j ≠ kg := by omega
    have hext : NExt s.nodes (s.nodes.setIfInBounds j { n with dexitUid := tid s.next, dexitDest := .node u }) :=
      NExt.set hn rfl
    refine ⟨⟨by simp [h.nsize], h.gsize, h.root, h.grp, h.stack, h.ids, h.idlt, h.prev, ?_, ?_, ?_⟩, hext⟩
    · intro o ho
      simp only [List.mem_cons] at ho
      rcases ho with rfl | ho
      · simpa [toRCond_blank] using he
      · exact h.blank o ho
    · intro o ho
      simp only [List.mem_cons] at ho
      rcases ho with rfl | ho
      · exact hj
      · exact h.srclt o ho
    · intro j' hj'
      obtain ⟨n', c', hn', hc', hp'⟩ := h.node j' hj'
      by_cases hjj : j' = j
      · subst hjj
        rw [hn] at hn'; injection hn' with hn'; subst hn'
        rw [hc] at hc'; injection hc' with hc'; subst hc'
        refine ⟨{ n with dexitUid := tid s.next, dexitDest := .node u }, c,
          by simp [Array.getElem?_setIfInBounds, (Array.getElem?_eq_some_iff.mp hn).1], hc,
          ⟨hp.kind, hp.router, hp.acts, ?_⟩⟩
        have := outOf_cons_same st { src := j', cond := toRCond e.cond, tgt := Target.row kg }
        simp only at this
        rw [this]
        simp only [List.getLast?_append, List.getLast?_singleton, Option.some_or, Option.map_some]
        refine ⟨m, ?_, by rw [hmu]⟩
        simp [Array.getElem?_setIfInBounds, hjk, hm]
      · refine ⟨n', c', by simp [Array.getElem?_setIfInBounds, hn', Ne.symm hjj], hc',
          ⟨hp'.kind, hp'.router, hp'.acts, ?_⟩⟩
        rw [outOf_cons_other st _ j' (fun e1 => hjj e1.symm)]
        exact hp'.dest.ext hext
  unfold addRowEdge
  wp_simp [wp_groupOfEdge, wp_fuelOf]
  by_cases hs : e.from_ = "start".toList
  · -- no edge
    have : edgeSrc st kg (toREdge e) = .ok none := by simp [edgeSrc, toREdge, hs]
    rw [this] at hst; injection hst with hst; subst hst
    rw [if_pos hs]
    exact ⟨h, NExt.refl _⟩
  · rw [if_neg hs]
    by_cases hemp : e.from_ = []
    · -- blank `from`: the previous row
      have hsrc : edgeSrc st kg (toREdge e) = .ok st.prev := by
        simp only [edgeSrc, toREdge, hs, hemp, List.isEmpty_nil, if_true, if_false]
        cases st.prev <;> rfl
      rw [if_pos hemp, h.stack, mostRecent_root s.groups kg h.root]
      by_cases hk0 : kg = 0
      · have hsrc2 : edgeSrc st kg (toREdge e) = .ok none := by rw [hsrc, h.prev]; simp [hk0]
        rw [hsrc2] at hst
        simp only [hk0, if_true] at hst ⊢
        injection hst with hst; subst hst
        exact ⟨hk0 ▸ h, NExt.refl _⟩
      · have hsrc2 : edgeSrc st kg (toREdge e) = .ok (some (kg - 1)) := by rw [hsrc, h.prev]; simp [hk0]
        rw [hsrc2] at hst
        simp only [hk0, if_false] at hst ⊢
        injection hst with hst; subst hst
        wp_simp [wp_fuelOf]
        have := key (kg - 1) hsrc2 (by omega)
        have e1 : kg - 1 + 1 = kg := by omega
        rw [e1] at this
        exact this
    · -- explicit `from`
      have hsrc : edgeSrc st kg (toREdge e) =
          match lookupId st.ids e.from_ with
          | some j => .ok (some j)
          | none => .error (.unknownFrom kg e.from_) := by
        simp only [edgeSrc, toREdge, hs, if_false, List.isEmpty_iff, hemp]
        rfl
      rw [if_neg hemp, h.ids, lookup_ids]
      cases hl : lookupId st.ids e.from_ with
      | none => simp only [Option.map_none]
      | some j =>
        simp only [Option.map_some]
        rw [hsrc, hl] at hst
        simp only at hst
        injection hst with hst; subst hst
        obtain ⟨p, hp, hpj⟩ := lookupId_mem hl
        exact key j (by rw [hsrc, hl]) (hpj ▸ h.idlt p hp)

/-! ### all edges of a row -/

/-- what pass 1 does with one edge -/
def edgeStep (st : P1) (k : Nat) (e : REdge) (t : Target) : Except WfErr P1 :=
  match edgeSrc st k e with
  | .error err => .error err
  | .ok none => .ok st
  | .ok (some j) => .ok { st with out := { src := j, cond := e.cond, tgt := t } :: st.out }

theorem addEdges_nil (st : P1) (k : Nat) : addEdges st k [] = .ok st := rfl

theorem addEdges_cons (st : P1) (k : Nat) (e : REdge) (t : Target) (es : List (REdge × Target)) :
    addEdges st k ((e, t) :: es) =
      match edgeStep st k e t with
      | .error err => .error err
      | .ok st1 => addEdges st1 k es := by
  simp only [addEdges, List.foldlM_cons, edgeStep, bind, Except.bind]
  cases edgeSrc st k e with
  | error err => rfl
  | ok o => cases o <;> rfl

theorem edges_sim (rows : List CRow) (kg : Nat) (u : Uid) :
    ∀ (es : List Compile.Edge), (∀ e ∈ es, e.cond.blank = true) → ∀ (s : St) (st st' : P1),
      Rel rows (kg + 1) kg s st → (∃ m, s.nodes[kg]? = some m ∧ m.uid = u) →
      addEdges st kg (es.map fun e => (toREdge e, Target.row kg)) = .ok st' →
      wp (es.forM (addRowEdge (.node u))) s (fun _ s' =>
        Rel rows (kg + 1) kg s' st' ∧ NExt s.nodes s'.nodes) := by
  intro es
  induction es with
  | nil =>
    intro _ s st st' h _ hst
    rw [List.map_nil, addEdges_nil] at hst
    injection hst with hst; subst hst
    rw [wp_forM_nil]; exact ⟨h, NExt.refl _⟩
  | cons e es ih =>
    intro hb s st st' h hu hst
    rw [List.map_cons, addEdges_cons] at hst
    rw [wp_forM_cons]
    cases h1 : edgeStep st kg (toREdge e) (Target.row kg) with
    | error err => rw [h1] at hst; cases hst
    | ok st1 =>
      rw [h1] at hst
      simp only at hst
      refine wp_mono (edge_sim rows kg u e (hb e (by simp)) s st st1 h hu h1) ?_
      intro _ s1 ⟨r1, e1⟩
      obtain ⟨m, hm, hmu⟩ := hu
      obtain ⟨m', hm', hmu'⟩ := e1 kg m hm
      refine wp_mono (ih (fun x hx => hb x (by simp [hx])) s1 st1 st' r1 ⟨m', hm', by rw [hmu', hmu]⟩ hst) ?_
      intro _ s2 ⟨r2, e2⟩
      exact ⟨r2, e1.trans e2⟩

/-! ### one row -/

theorem not_special {t : Str} (h : specialTypes.contains t = false) :
    t ≠ "wait_for_response".toList ∧ t ≠ "split_by_value".toList ∧ t ≠ "split_by_group".toList ∧
    t ≠ "split_random".toList ∧ t ≠ "start_new_flow".toList ∧ t ≠ "call_webhook".toList ∧
    t ≠ "transfer_airtime".toList ∧ t ≠ "no_op".toList ∧ t ≠ "go_to".toList ∧ t ≠ "hard_exit".toList ∧
    t ≠ "loose_exit".toList ∧ t ≠ "insert_as_block".toList := by
  have hm : ∀ x ∈ specialTypes, t ≠ x := by
    intro x hx e
    have : specialTypes.contains t = true := by rw [List.contains_iff_mem, e]; exact hx
    rw [h] at this; cases this
  exact ⟨hm _ (by decide), hm _ (by decide), hm _ (by decide), hm _ (by decide), hm _ (by decide),
    hm _ (by decide), hm _ (by decide), hm _ (by decide), hm _ (by decide), hm _ (by decide),
    hm _ (by decide), hm _ (by decide)⟩

theorem kindOf_action {t : Str} (h : specialTypes.contains t = false) : kindOf t = .action := by
  obtain ⟨h1, h2, h3, h4, h5, h6, h7, h8, h9, h10, h11, _⟩ := not_special h
  unfold kindOf
  rw [if_neg h1, if_neg h2, if_neg h3, if_neg h4, if_neg h5, if_neg h6, if_neg h7, if_neg h8, if_neg h9,
    if_neg h10, if_neg h11]

/-- the node of an action row -/
theorem rowNode_plain (r : Row) (act : Option (Uid × Str)) (s : St) (h : specialTypes.contains r.type = false) :
    wp (rowNode r act) s (fun n s' => (∃ k, Bump s s' k) ∧ n.kind = NodeKind.basic ∧ n.router = none ∧
      n.actions = act.toList ∧ n.dexitDest = Dest.none) := by
  obtain ⟨h1, h2, h3, h4, h5, h6, h7, _, _, _, _, _⟩ := not_special h
  unfold rowNode
  wp_simp
  refine ⟨fun _ => ⟨fun _ => ?_, fun _ => ⟨fun hh => absurd hh h5, fun _ => ⟨fun hh => ?_, fun _ =>
    ⟨fun hh => absurd hh h1, fun _ => ⟨fun hh => absurd hh h2, fun _ => ⟨fun hh => absurd hh h3, fun _ =>
    ⟨fun hh => absurd hh h4, fun _ => ?_⟩⟩⟩⟩⟩⟩⟩, fun _ => trivial⟩
  · unfold basicNode
    wp_simp [wp_newBasic]
    refine wp_mono (nodeUid_spec _ _) ?_
    intro u s1 ⟨j, hb, _⟩; subst hb
    refine ⟨⟨j + 2, by simp [Bump, Nat.add_assoc]⟩, ?_⟩
    cases act <;> simp [NodeM.withAct]
  · rcases hh with hh | hh
    · exact absurd hh h6
    · exact absurd hh h7
  · unfold otherNode
    wp_simp [wp_fresh']
    refine wp_mono (nodeUid_spec _ _) ?_
    intro u s1 ⟨j, hb, _⟩; subst hb
    refine ⟨⟨j + 1, by simp [Bump, Nat.add_assoc]⟩, ?_⟩
    cases act <;> simp [NodeM.withAct]

theorem trivial_toREdge (e : Compile.Edge) : isTrivial (toREdge e) = e.trivial := rfl

theorem dropTrivial_ref (es : List Compile.Edge) :
    ((es.map toREdge).zipIdx.filter fun (p : REdge × Nat) => p.2 = 0 || !isTrivial p.1).map (·.1) =
      (dropTrivial es).map toREdge := by
  unfold dropTrivial
  rw [List.zipIdx_map, List.filter_map, List.map_map, List.map_map]
  congr 1

theorem outOf_nil_of_srclt (st : P1) (k : Nat) (h : ∀ e ∈ st.out, e.src < k) : outOf st k = [] := by
  unfold outOf
  rw [List.filter_eq_nil_iff]
  intro e he
  have := h e (by simpa using he)
  simp; omega

theorem rowAction_exact (r : Row) (s : St) :
    wp (rowAction r) s (fun act s' => (∃ k, Bump s s' k) ∧ act.map (·.2) = r.action) := by
  unfold rowAction
  split
  · rename_i a ha
    wp_simp [wp_fresh']
    exact ⟨⟨1, rfl⟩, by simp [ha]⟩
  · rename_i ha
    wp_simp
    exact ⟨⟨0, rfl⟩, by simp [ha]⟩

/-- an action row of the fragment goes straight to `newRow` -/
theorem wp_parseRow_plain (c : CRow) (hf : plainActionRow c = true) (s : St) (Q : PUnit → St → Prop)
    (h : c.row.actionOk = true → wp (newRow { c.row with edges := dropTrivial c.row.edges } []) s Q) :
    wp (parseRow c.row) s Q := by
  simp only [plainActionRow, Bool.and_eq_true, Bool.not_eq_true', List.isEmpty_iff, decide_eq_true_eq] at hf
  obtain ⟨⟨⟨⟨hsp, hu⟩, hnm⟩, _⟩, _⟩ := hf
  obtain ⟨_, _, _, _, _, _, _, h8, h9, h10, h11, h12⟩ := not_special hsp
  unfold parseRow
  simp only
  rw [if_neg (by rintro (hh | hh); exact h10 hh; exact h11 hh), if_neg h9, if_neg h8, if_neg h12]
  unfold actionRow
  wp_simp
  refine ⟨fun _ => trivial, fun hok => ?_⟩
  have e1 : (if List.isEmpty c.row.nodeUuid = true then c.row.nodeName else c.row.nodeUuid) = [] := by
    simp [hu, hnm]
  rw [e1]
  simp only [List.isEmpty_nil, if_true]
  exact h (by simpa using hok)

theorem row_sim (rows : List CRow) (k : Nat) (c : CRow) (hc : rows[k]? = some c)
    (hf : plainActionRow c = true) (s : St) (st st' : P1) (h : Rel rows k k s st)
    (hst : pass1Row st k (toRRow c) = .ok st') :
    wp (step (toEvent c)) s (fun _ s' => Rel rows (k + 1) (k + 1) s' st') := by
  have hf' := hf
  simp only [plainActionRow, Bool.and_eq_true, Bool.not_eq_true', List.isEmpty_iff, decide_eq_true_eq,
    List.all_eq_true] at hf'
  obtain ⟨⟨⟨⟨hsp, hu⟩, hnm⟩, hact⟩, hblank⟩ := hf'
  -- the reference side
  have hkind : (toRRow c).kind = .action := kindOf_action hsp
  unfold pass1Row at hst
  simp only [hkind, bind, Except.bind, pure, Except.pure] at hst
  have hes : (((toRRow c).edges.zipIdx.filter fun (p : REdge × Nat) => p.2 = 0 || !isTrivial p.1).map (·.1)).map
      (fun e => (e, Target.row k)) = (dropTrivial c.row.edges).map (fun e => (toREdge e, Target.row k)) := by
    have := dropTrivial_ref c.row.edges
    simp only [toRRow]
    rw [this, List.map_map]; rfl
  rw [hes] at hst
  cases hst1 : addEdges st k ((dropTrivial c.row.edges).map (fun e => (toREdge e, Target.row k))) with
  | error err => rw [hst1] at hst; cases hst
  | ok st1 =>
    rw [hst1] at hst
    simp only [Except.ok.injEq] at hst
    -- the compiler side
    unfold step toEvent
    refine wp_parseRow_plain c hf s _ (fun _ => ?_)
    unfold newRow
    wp_simp [wp_addNode, wp_addGrp]
    refine wp_mono (rowAction_exact _ s) ?_
    intro act s1 ⟨⟨k1, hb1⟩, hact1⟩; subst hb1
    refine wp_mono (rowNode_plain _ act _ hsp) ?_
    intro n s2 ⟨⟨k2, hb2⟩, hnk, hnr, hna, hnd⟩; subst hb2
    dsimp only
    have hblank' : ∀ e ∈ dropTrivial c.row.edges, e.cond.blank = true := by
      intro e he
      apply hblank
      unfold dropTrivial at he
      simp only [List.mem_map, List.mem_filter] at he
      obtain ⟨p, ⟨hp, _⟩, rfl⟩ := he
      exact (List.mem_zipIdx' hp).2 ▸ List.getElem_mem _
    -- the arena with the pending node
    have r1 : Rel rows (k + 1) k { s with nodes := s.nodes.push n, next := s.next + k1 + k2 } st := by
      refine ⟨by simp [h.nsize], h.gsize, h.root, h.grp, h.stack, h.ids, h.idlt, h.prev, h.blank, h.srclt, ?_⟩
      intro j hj
      by_cases hjk : j = k
      · subst hjk
        refine ⟨n, c, by simp [← h.nsize], hc, ⟨hnk, hnr, ?_, ?_⟩⟩
        · have e2 : act.toList.map (·.2) = (act.map (·.2)).toList := by cases act <;> rfl
          rw [hna, e2, hact1]
        · rw [outOf_nil_of_srclt st j h.srclt, hnd]; rfl
      · obtain ⟨n', c', hn', hc', hp'⟩ := h.node j (by omega)
        exact ⟨n', c', getElem?_push_of_some n hn', hc', ⟨hp'.kind, hp'.router, hp'.acts, hp'.dest.ext (NExt.push _ _)⟩⟩
    refine wp_mono (edges_sim rows k n.uid _ hblank' _ st st1 r1 ⟨n, by simp [← h.nsize], rfl⟩ hst1) ?_
    intro _ s3 ⟨r3, _⟩
    -- the row group is created and appended to the root block
    unfold appendGroup
    wp_simp [wp_setGrp]
    simp only [r3.stack]
    have hroot3 : (s3.groups.push (Grp.row [s.nodes.size] c.row.type))[0]? = some (.block (List.range' 1 k)) := by
      rw [Array.getElem?_push]
      have : ¬ 0 = s3.groups.size := by rw [r3.gsize]; omega
      simp [this, r3.root]
    rw [hroot3]
    wp_simp [wp_setGrp]
    unfold addRowId
    have hsz : s3.groups.size = k + 1 := r3.gsize
    have hfinal : ∀ (rowIds : List (Str × Nat)) (ids : List (Str × Nat)) (names : List (Str × Nat)),
        rowIds = ids.map (fun p => (p.1, p.2 + 1)) → (∀ p ∈ ids, p.2 < k + 1) →
        Rel rows (k + 1) (k + 1)
          { s3 with groups := (s3.groups.push (Grp.row [s.nodes.size] c.row.type)).setIfInBounds 0
                      (Grp.block (List.range' 1 k ++ [s3.groups.size])),
                    rowIds := rowIds, names := names }
          { st1 with prev := some k, ids := ids } := by
      intro rowIds ids names hids hlt
      refine ⟨r3.nsize, by simp [hsz], ?_, ?_, r3.stack, hids, hlt, by simp, r3.blank,
        fun e he => by have := r3.srclt e he; omega, r3.node⟩
      · simp only [Array.getElem?_setIfInBounds, Array.size_push]
        simp [hsz, List.range'_concat]; omega
      · intro j hj
        simp only [Array.getElem?_setIfInBounds, Array.getElem?_push]
        have h0 : ¬ 0 = j + 1 := by omega
        simp only [h0, if_false]
        by_cases hjk : j = k
        · subst hjk; simp [hsz, h.nsize]
        · obtain ⟨t, ht⟩ := r3.grp j (by omega)
          have : ¬ j + 1 = s3.groups.size := by omega
          simp [this, ht]
    by_cases hrid : c.row.rowId = []
    · simp only [hrid, List.isEmpty_nil, if_true]
      wp_simp
      have := hfinal s3.rowIds st1.ids (([], s.nodes.size) :: s3.names) r3.ids
        (fun p hp => by have := r3.idlt p hp; omega)
      rw [← hst]
      simpa [toRRow, hrid, r3.stack] using this
    · simp only [List.isEmpty_iff, hrid, if_false]
      wp_simp
      have := hfinal ((c.row.rowId, s3.groups.size) :: s3.rowIds) ((c.row.rowId, k) :: st1.ids)
        (([], s.nodes.size) :: s3.names) (by simp [r3.ids, hsz])
        (fun p hp => by
          simp only [List.mem_cons] at hp
          rcases hp with rfl | hp
          · simp
          · have := r3.idlt p hp; omega)
      rw [← hst]
      simpa [toRRow, List.isEmpty_iff, hrid, r3.stack] using this

end Rpft.CoreSheet
