/-
Lemmas on the `*` columns of `parse_row` (asterisk length, expansion, broadcast) and on the
context remap of headers (C09).
-/
import Rpft.Lemmas.Row
set_option linter.unusedSimpArgs false
set_option linter.unusedVariables false
namespace Rpft.Row
open Rpft

theorem starLen_pos (pfx : Str) : ∀ (cols : List (Str × ColVal)), 1 ≤ starLen pfx cols
  | [] => by simp [starLen]
  | (k, .inl _) :: rest => by simpa [starLen] using starLen_pos pfx rest
  | (k, .inr (.atom _)) :: rest => by simpa [starLen] using starLen_pos pfx rest
  | (k, .inr (.list xs)) :: rest => by
    have := starLen_pos pfx rest
    simp only [starLen]
    split <;> omega

theorem starLen_append (pfx : Str) : ∀ (a b : List (Str × ColVal)),
    starLen pfx (a ++ b) = max (starLen pfx a) (starLen pfx b)
  | [], b => by
    have := starLen_pos pfx b
    simp [starLen]; omega
  | (k, .inl _) :: rest, b => by simpa [starLen] using starLen_append pfx rest b
  | (k, .inr (.atom _)) :: rest, b => by simpa [starLen] using starLen_append pfx rest b
  | (k, .inr (.list xs)) :: rest, b => by
    have ih := starLen_append pfx rest b
    simp only [List.cons_append, starLen, ih]
    split <;> omega

/-- the length a `*` prefix stands for does not change when a scalar cell is replaced by
the list of that many copies -/
theorem starLen_broadcast (pre post : List (Str × ColVal)) (k : Str) (s : Str) (pfx : Str) :
    starLen pfx (pre ++ [(k, Sum.inr (.list (List.replicate
        (starLen (starPrefix k) (pre ++ [(k, Sum.inr (.atom s))] ++ post)) (.atom s))))] ++ post) =
    starLen pfx (pre ++ [(k, Sum.inr (.atom s))] ++ post) := by
  simp only [starLen_append, starLen, List.length_replicate]
  have h1 := starLen_pos pfx pre
  have h2 := starLen_pos pfx post
  have h3 := starLen_pos (starPrefix k) pre
  have h4 := starLen_pos (starPrefix k) post
  split
  · rename_i h
    rw [← h.2]
    omega
  · omega

theorem flatMap_congr_mem {α β : Type} {f g : α → List β} : ∀ (l : List α),
    (∀ a ∈ l, f a = g a) → l.flatMap f = l.flatMap g
  | [], _ => rfl
  | a :: l, h => by
    simp only [List.flatMap_cons]
    rw [h a (by simp), flatMap_congr_mem l (fun x hx => h x (List.mem_cons_of_mem _ hx))]

theorem expandCol_congr (all all' : List (Str × ColVal))
    (h : ∀ pfx, starLen pfx all = starLen pfx all') (col : Str × ColVal) :
    expandCol all col = expandCol all' col := by
  obtain ⟨k, cv⟩ := col
  cases cv with
  | inl s => rfl
  | inr pv => cases pv <;> simp [expandCol, h]

/-! ### context remap of headers -/

theorem alookup_swap_key {α : Type} (pre post : List (Str × α)) (h l t : Str) (c : α)
    (hh : h ≠ t) (hl : l ≠ t) :
    alookup t (pre ++ [(h, c)] ++ post) = alookup t (pre ++ [(l, c)] ++ post) := by
  simp [alookup_append, alookup, hh, hl]

/-- `ctxRemap` looks at the row only through the type column -/
theorem ctxRemap_ctx_congr (sch : Schema) (d₁ d₂ : List (Str × Str))
    (h : ∀ hd tcol tb, sch.ctxMain = some (hd, tcol, tb) → alookup tcol d₁ = alookup tcol d₂)
    (k : Str) : ctxRemap sch d₁ k = ctxRemap sch d₂ k := by
  unfold ctxRemap
  cases alookup k sch.ctxBasic with
  | some k' => rfl
  | none =>
    cases hm : sch.ctxMain with
    | none => rfl
    | some m =>
      obtain ⟨hd, tcol, tb⟩ := m
      simp only [h hd tcol tb hm]

theorem ctxRemap_basic (sch : Schema) (d : List (Str × Str)) (k k' : Str)
    (h : alookup k sch.ctxBasic = some k') : ctxRemap sch d k = .ok k' := by
  simp only [ctxRemap, h]

theorem ctxRemap_id (sch : Schema) (d : List (Str × Str)) (k : Str)
    (h1 : alookup k sch.ctxBasic = none)
    (h2 : ∀ hd tc tb, sch.ctxMain = some (hd, tc, tb) → k ≠ hd) : ctxRemap sch d k = .ok k := by
  unfold ctxRemap
  rw [h1]
  cases hm : sch.ctxMain with
  | none => rfl
  | some m =>
    obtain ⟨hd, tc, tb⟩ := m
    simp only [h2 hd tc tb hm, if_false]

theorem ctxRemap_main (sch : Schema) (d : List (Str × Str)) (hd tc : Str) (tb : List (Str × Str))
    (hm : sch.ctxMain = some (hd, tc, tb)) (h1 : alookup hd sch.ctxBasic = none) (t arg : Str)
    (ht : alookup tc d = some t) (ha : alookup (strip pyWs t) tb = some arg) : ctxRemap sch d hd = .ok arg := by
  unfold ctxRemap
  rw [h1, hm]
  simp only [if_true, ht, ha]

/-- a key that is found in a table of trimmed keys is trimmed: the type cell `unparse_row` writes is read
as written -/
theorem strip_of_alookup (tb : List (Str × Str)) (htb : ∀ kv ∈ tb, strip pyWs kv.1 = kv.1) (t arg : Str)
    (ha : alookup t tb = some arg) : strip pyWs t = t := by
  induction tb with
  | nil => simp [alookup] at ha
  | cons kv tb ih =>
    unfold alookup at ha
    split at ha
    · rename_i hk
      have := htb kv (by simp)
      have hk' : kv.1 = t := by simpa using hk
      rw [← hk']; exact this
    · exact ih (fun kv' h => htb kv' (List.mem_cons_of_mem _ h)) ha

/-- renaming one header to another header with the same remap image does not change the
re-keyed row -/
theorem rekey_header_swap (sch : Schema) (pre post : List (Str × Str)) (h l c : Str)
    (H1 : ∀ k, ctxRemap sch (pre ++ [(h, c)] ++ post) k = ctxRemap sch (pre ++ [(l, c)] ++ post) k)
    (H2 : ctxRemap sch (pre ++ [(l, c)] ++ post) h = ctxRemap sch (pre ++ [(l, c)] ++ post) l) :
    rekey sch (pre ++ [(h, c)] ++ post) = rekey sch (pre ++ [(l, c)] ++ post) := by
  unfold rekey
  rw [foldE_congr (g := rekeyStep sch (pre ++ [(l, c)] ++ post))
    (by intro acc kv; simp only [rekeyStep, H1])]
  simp only [foldE_append]
  cases foldE (rekeyStep sch (pre ++ [(l, c)] ++ post)) [] pre with
  | error e => rfl
  | ok acc =>
    simp only [foldE, rekeyStep, H2]

theorem parseRow_of_rekey_eq (sch : Schema) (d₁ d₂ : List (Str × Str))
    (h : rekey sch d₁ = rekey sch d₂) : parseRow sch d₁ = parseRow sch d₂ := by
  unfold parseRow rowEntries
  rw [h]

end Rpft.Row
