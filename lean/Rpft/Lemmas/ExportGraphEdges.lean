/-
Helper lemmas for C04 (graph level): the graph READ from the rendered skeleton (`edgesOfT ∘ renderAll`)
is the list `skelEdges`; the edges the flow prescribes (`exitsEdges`, `chain`); splitting the
skeleton at the block of a completed node.
-/
import Rpft.Lemmas.ExportGraphInv
set_option linter.unusedSimpArgs false
set_option linter.unusedVariables false
set_option linter.unusedSectionVars false
namespace Rpft.Export
open Function

variable {U : Type} [DecidableEq U]

abbrev GEdge (U : Type) := SEdge (TempId U)

/-- the blank edges chaining rows `i, i+1, …, i+k` of one node -/
def chainFrom (n : NodeX U) : Nat → Nat → List (GEdge U)
  | _, 0 => []
  | i, k + 1 => ⟨some (rowId n i), blankLabel, rowId n (i + 1)⟩ :: chainFrom n (i + 1) k

/-- the edges inside a node: row `i+1` hangs off row `i` by a blank edge -/
def chain (n : NodeX U) : List (GEdge U) := chainFrom n 0 (n.rows.length - 1)

def inEdge (n : NodeX U) (e : EdgeT U) : GEdge U := ⟨e.from_, e.label, firstId n⟩

def itemEdges : Item U → List (GEdge U)
  | .goto _ c e => [inEdge c e]
  | .block n es => es.map (inEdge n) ++ chain n

def skelEdges (items : List (Item U)) : List (GEdge U) := items.flatMap itemEdges

/-- the sheet edge the flow prescribes for one exit: from the LAST row of `n` to the FIRST row of the
node `find_node` returns for the destination; nothing for an exit that leads nowhere -/
def exitEdge (f : FlowX U) (n : NodeX U) (le : Label × Option U) : Option (GEdge U) :=
  match le.2 with
  | none => none
  | some d => (findNode f d).map (fun c => ⟨some (lastId n), le.1, firstId c⟩)

def loopEdges (f : FlowX U) (n : NodeX U) (es : List (Label × Option U)) : List (GEdge U) :=
  es.filterMap (exitEdge f n)

/-- the edges leaving node `n`, in EXIT ORDER -/
def exitsEdges (f : FlowX U) (n : NodeX U) : List (GEdge U) := loopEdges f n n.edges

/-- everything a completed node contributes besides its incoming edges -/
def nodeOut (f : FlowX U) (n : NodeX U) : List (GEdge U) := chain n ++ exitsEdges f n

def taskEdges (f : FlowX U) : Task U → List (GEdge U)
  | .loop n es => loopEdges f n es.reverse
  | .node n pe => [inEdge n pe]

theorem edgesOfT_cons (r : RowT U) (rows : List (RowT U)) :
    edgesOfT (r :: rows) = readRow r.id r.cells r.goto ++ edgesOfT rows := by
  simp [edgesOfT]

theorem edgesOfT_append (a b : List (RowT U)) : edgesOfT (a ++ b) = edgesOfT a ++ edgesOfT b := by
  simp [edgesOfT]

theorem edgesOfT_mkRowsFrom (n : NodeX U) (rest : List (Payload × Option U)) :
    ∀ i, edgesOfT (mkRowsFrom n (i + 1) ⟨some (rowId n i), blankLabel⟩ rest) = chainFrom n i rest.length := by
  induction rest with
  | nil => intro i; rfl
  | cons x rest ih =>
    intro i
    obtain ⟨p, o⟩ := x
    simp only [mkRowsFrom, edgesOfT_cons, ih (i + 1), List.length_cons, chainFrom]
    simp [readRow, RowT.cells]

theorem edgesOfT_blockRows (n : NodeX U) (es : List (EdgeT U)) (h : n.rows ≠ []) :
    edgesOfT (blockRows n es) = es.map (inEdge n) ++ chain n := by
  unfold blockRows chain
  cases hr : n.rows with
  | nil => exact absurd hr h
  | cons x rest =>
    obtain ⟨p, o⟩ := x
    simp only [edgesOfT_cons, edgesOfT_mkRowsFrom n rest 0, List.length_cons, Nat.add_sub_cancel]
    simp [readRow, RowT.cells, inEdge, firstId, List.map_map, Function.comp_def]

theorem edgesOfT_gotoRow (k : Nat) (c : NodeX U) (e : EdgeT U) :
    edgesOfT [gotoRow k c e] = [inEdge c e] := by
  simp [edgesOfT, gotoRow, readRow, RowT.cells, gotoTargets, inEdge, firstId]

/-- reading the rendered skeleton -/
theorem edgesOfT_renderAll (items : List (Item U)) (h : ∀ n es, Item.block n es ∈ items → n.rows ≠ []) :
    edgesOfT (renderAll items) = skelEdges items := by
  induction items with
  | nil => rfl
  | cons it items ih =>
    have ih' := ih (fun n es hm => h n es (List.mem_cons_of_mem _ hm))
    simp only [renderAll, skelEdges, List.flatMap_cons, edgesOfT_append] at ih' ⊢
    rw [ih']
    congr 1
    cases it with
    | goto k c e => exact edgesOfT_gotoRow k c e
    | block n es => exact edgesOfT_blockRows n es (h n es (List.mem_cons_self ..))

theorem skelEdges_cons (it : Item U) (items : List (Item U)) : skelEdges (it :: items) = itemEdges it ++ skelEdges items := by
  simp [skelEdges]

theorem skelEdges_append (a b : List (Item U)) : skelEdges (a ++ b) = skelEdges a ++ skelEdges b := by
  simp [skelEdges]

/-! ### splitting at the block of a completed node -/

theorem map_prepend_of_not_mem (cu : U) (e : EdgeT U) (items : List (Item U)) (h : cu ∉ blockUuids items) :
    items.map (prependItem cu e) = items := by
  induction items with
  | nil => rfl
  | cons it items ih =>
    cases it with
    | goto k c e' =>
      simp only [blockUuids, blockNodes_cons_goto] at h
      simp only [List.map_cons, prependItem, ih h]
    | block n es =>
      simp only [blockUuids, blockNodes_cons_block, List.map_cons, List.mem_cons, not_or] at h
      have : n.uuid ≠ cu := fun e => h.1 e.symm
      simp only [List.map_cons, prependItem, this, if_false, ih h.2]

theorem blockUuids_append (a b : List (Item U)) : blockUuids (a ++ b) = blockUuids a ++ blockUuids b := by
  simp [blockUuids, blockNodes]

/-- a completed node has exactly one block -/
theorem split_block {f : FlowX U} {vis : List U} {items : List (Item U)} (hi : Inv f vis items) {c : NodeX U}
    (hc : Canon f c) (hm : c.uuid ∈ blockUuids items) :
    ∃ A es B, items = A ++ Item.block c es :: B ∧ c.uuid ∉ blockUuids A ∧ c.uuid ∉ blockUuids B := by
  obtain ⟨m, hm1, hm2⟩ := List.mem_map.1 hm
  obtain ⟨es, hes⟩ := mem_blockNodes.1 hm1
  have : m = c := Canon.eq (hi.canonB m es hes).1 hc hm2
  subst this
  obtain ⟨A, B, hAB⟩ := List.append_of_mem hes
  refine ⟨A, es, B, hAB, ?_, ?_⟩
  all_goals
    have hnd := hi.nodup
    rw [hAB, blockUuids_append] at hnd
    simp only [blockUuids, blockNodes_cons_block, List.map_cons] at hnd
    have := List.nodup_append.1 hnd
  · intro ha
    exact this.2.2 _ ha _ (List.mem_cons_self ..) rfl
  · intro hb
    exact (List.nodup_cons.1 this.2.1).1 hb

theorem map_prepend_split (c : NodeX U) (e : EdgeT U) (A B : List (Item U)) (es : List (EdgeT U))
    (hA : c.uuid ∉ blockUuids A) (hB : c.uuid ∉ blockUuids B) :
    (A ++ Item.block c es :: B).map (prependItem c.uuid e) = A ++ Item.block c (e :: es) :: B := by
  simp only [List.map_append, List.map_cons, map_prepend_of_not_mem _ _ _ hA, map_prepend_of_not_mem _ _ _ hB,
    prependItem, if_true]

theorem skelEdges_split (c : NodeX U) (A B : List (Item U)) (es : List (EdgeT U)) :
    skelEdges (A ++ Item.block c es :: B) = skelEdges A ++ (es.map (inEdge c) ++ chain c ++ skelEdges B) := by
  simp only [skelEdges_append, skelEdges_cons, itemEdges, List.append_assoc]

end Rpft.Export
