/-
M2 (part 3) — model of `RowParser.unparse_row` (rowparser.py 377-506):
`unparse_row_recurse` (excluded headers, target headers = pack into one cell, lists spread
as `.1 .2 …`, default elision, the "remap stops recursion" rule), `write_to_output_dict`
(duplicate key error), `matches_headers` (the regex `^h` with `.`→`\.`, `*`→`[^.]+`, i.e.
a character-level prefix match with backtracking for `*`), `to_nested_list` (records as
`[[field, value], …]` without defaults) and `join_from_lists` (Rpft.Cell).

Basic values are written as `str(value)` — what a sheet file (csv/xlsx) or
`parse_as_string` makes of them.  Core Lean only.
-/
import Rpft.RowParse
namespace Rpft.Row
open Rpft

/-! ### matches_headers -/

/-- `[^.]+` followed by the rest of the pattern (greedy or not is irrelevant for `match`) -/
def starAux (rest : Str → Bool) : Str → Bool
  | [] => false
  | d :: t => d != '.' && (rest t || starAux rest t)

/-- `re.match("^" + h.replace(".", "\\.").replace("*", "[^.]+"), text)` for headers made of
identifier characters, `.` and `*` -/
def matchPat : Str → Str → Bool
  | [], _ => true
  | c :: p, t =>
    if c = '*' then starAux (matchPat p) t
    else match t with
      | [] => false
      | d :: t' => c == d && matchPat p t'

/-- `trim_prefix` -/
def trimPrefix : Str → Str
  | '.' :: r => r
  | r => r

/-- `matches_headers(prefix, headers)` -/
def matchesHeaders (pfx : Str) (hs : List Str) : Bool :=
  !pfx.isEmpty && hs.any fun h => matchPat h (trimPrefix pfx)

/-! ### to_nested_list -/

mutual
def nestedOfPV : PV → Cell.Nested
  | .atom s => .str s
  | .list xs => .list (nestedOfPVs xs)
def nestedOfPVs : List PV → List Cell.Nested
  | [] => []
  | x :: xs => nestedOfPV x :: nestedOfPVs xs
end

/-- `is_default_value` (a required field has no default: `get_default()` is `None`) -/
def isDefault (d : Option Val) (v : Val) : Bool := d = some v

def isBasicVal : Val → Bool
  | .str _ | .int _ | .float _ | .bool _ => true
  | _ => false

/-- `str(value)` of a basic value -/
def printBasic : Val → Str
  | .str s => s
  | .int i => printInt i
  | .float s => s
  | .bool b => printBool b
  | _ => []

mutual
/-- `to_nested_list`; non-string basic values appear as `str(value)` (what
`join_from_lists` prints; such texts contain nothing to escape) -/
def toNested : Ty → Val → Except Err Cell.Nested
  | .str, .str s => .ok (.str s)
  | .int, .int i => .ok (.str (printInt i))
  | .float, .float s => .ok (.str s)
  | .bool, .bool b => .ok (.str (printBool b))
  | .anyList, .any xs => .ok (.list (nestedOfPVs xs))
  | .list t, .list xs =>
    match mapE (toNested t) xs with
    | .error e => .error e
    | .ok ns => .ok (.list ns)
  | .model fs _ _, .model kvs =>
    match nestedFields fs kvs with
    | .error e => .error e
    | .ok ns => .ok (.list ns)
  | _, _ => .error .illTyped
def nestedFields : List (Str × Ty × Option Val) → List (Str × Val) →
    Except Err (List Cell.Nested)
  | [], _ => .ok []
  | (n, t, d) :: rest, kvs =>
    match alookup n kvs with
    | none => .error .illTyped
    | some v =>
      if isDefault d v then nestedFields rest kvs
      else
        match toNested t v with
        | .error e => .error e
        | .ok x =>
          match nestedFields rest kvs with
          | .error e => .error e
          | .ok r => .ok (.list [.str n, x] :: r)
end

def joinPacked (n : Cell.Nested) : Except Err Str :=
  match Cell.joinNested 0 n with
  | .ok s => .ok s
  | .error _ => .error .tooDeep

/-! ### unparse_row_recurse -/

abbrev Out := List (Str × Str)

/-- `write_to_output_dict` (after the value has been turned into text) -/
def writeOut (pfx : Str) (text : Str) (out : Out) : Except Err Out :=
  let key := trimPrefix pfx
  match alookup key out with
  | some _ => .error .duplicateKey
  | none => .ok (out ++ [(key, text)])

structure Layout where
  targets : List Str := []
  excluded : List Str := []
  deriving Repr, Inhabited

def idxPrefix (pfx : Str) (i : Nat) : Str := pfx ++ '.' :: printNat i

/-- the `for i, entry in enumerate(value)` loop, `i` counted from 1 -/
def unparseSeq {α : Type} (f : α → Str → Out → Except Err Out) (pfx : Str) :
    Nat → List α → Out → Except Err Out
  | _, [], out => .ok out
  | i, x :: xs, out =>
    match f x (idxPrefix pfx i) out with
    | .error e => .error e
    | .ok out' => unparseSeq f pfx (i + 1) xs out'

mutual
/-- entries of an untyped list: strings are basic, lists recurse -/
def unparsePV (lay : Layout) : PV → Str → Out → Except Err Out
  | .atom s, pfx, out =>
    if matchesHeaders pfx lay.excluded then .ok out else writeOut pfx s out
  | .list xs, pfx, out =>
    if matchesHeaders pfx lay.excluded then .ok out
    else if matchesHeaders pfx lay.targets then
      match joinPacked (.list (nestedOfPVs xs)) with
      | .error e => .error e
      | .ok s => writeOut pfx s out
    else unparsePVs lay xs pfx 1 out
def unparsePVs (lay : Layout) : List PV → Str → Nat → Out → Except Err Out
  | [], _, _, out => .ok out
  | x :: xs, pfx, i, out =>
    match unparsePV lay x (idxPrefix pfx i) out with
    | .error e => .error e
    | .ok out' => unparsePVs lay xs pfx (i + 1) out'
end

/-- write a value as one cell -/
def writeValue (ty : Ty) (v : Val) (pfx : Str) (out : Out) : Except Err Out :=
  if isBasicVal v then writeOut pfx (printBasic v) out
  else
    match toNested ty v with
    | .error e => .error e
    | .ok n =>
      match joinPacked n with
      | .error e => .error e
      | .ok s => writeOut pfx s out

mutual
def unparseRec (lay : Layout) : Ty → Val → Str → Out → Except Err Out
  | ty, v, pfx, out =>
    if matchesHeaders pfx lay.excluded then .ok out
    else if isBasicVal v || matchesHeaders pfx lay.targets then writeValue ty v pfx out
    else
      match ty, v with
      | .anyList, .any xs => unparsePVs lay xs pfx 1 out
      | .list t, .list xs => unparseSeq (unparseRec lay t) pfx 1 xs out
      | .model fs _ f2h, .model kvs => unparseFields lay f2h pfx fs kvs out
      | _, _ => .error .illTyped
def unparseFields (lay : Layout) (f2h : List (Str × Str)) (pfx : Str) :
    List (Str × Ty × Option Val) → List (Str × Val) → Out → Except Err Out
  | [], _, out => .ok out
  | (n, t, d) :: rest, kvs, out =>
    match alookup n kvs with
    | none => .error .illTyped
    | some v =>
      if isDefault d v then unparseFields lay f2h pfx rest kvs out
      else
        let mapped := remap f2h n
        let fp := pfx ++ '.' :: mapped
        let r :=
          if n = mapped then unparseRec lay t v fp out
          else if matchesHeaders fp lay.excluded then .ok out
          else writeValue t v fp out
        match r with
        | .error e => .error e
        | .ok out' => unparseFields lay f2h pfx rest kvs out'
end

/-- `RowParser.unparse_row(instance, target_headers, excluded_headers)` -/
def unparseRow (sch : Schema) (lay : Layout) (v : Val) : Except Err Out :=
  unparseRec lay sch.top v [] []

end Rpft.Row
