/-
M0 — strings as lists of Unicode scalar values, and the handful of `str` methods of
CPython that the modelled code uses (`strip`, `replace` with 1- and 2-character
needles, `join`).  Core Lean only: this file is imported by the executable driver.
-/
namespace Rpft

abbrev Str := List Char

/-- `str.replace(c, r)` for a one-character needle. -/
def replace1 (c : Char) (r : Str) (s : Str) : Str :=
  s.flatMap (fun x => if x = c then r else [x])

/-- `str.replace(a+b, r)` for a two-character needle: left to right, non-overlapping. -/
def replace2 (a b : Char) (r : Str) : Str → Str
  | [] => []
  | [x] => [x]
  | x :: y :: rest =>
    if x = a ∧ y = b then r ++ replace2 a b r rest else x :: replace2 a b r (y :: rest)

/-- `str.lstrip()` for a whitespace predicate `ws`. -/
def lstrip (ws : Char → Bool) (s : Str) : Str := s.dropWhile ws

/-- `str.rstrip()`; structural so that it commutes with `flatMap`-style encoders. -/
def rstrip (ws : Char → Bool) : Str → Str
  | [] => []
  | c :: s =>
    match rstrip ws s with
    | [] => if ws c then [] else [c]
    | r => c :: r

/-- `str.strip()`. -/
def strip (ws : Char → Bool) (s : Str) : Str := rstrip ws (lstrip ws s)

/-- `sep.join(parts)` -/
def joinWith (sep : Str) : List Str → Str
  | [] => []
  | [p] => p
  | p :: q :: ps => p ++ sep ++ joinWith sep (q :: ps)

/-- Code points for which Python's `str.isspace()` is true (the set `str.strip()` removes).
The table is re-derived from the running interpreter and compared on every run
(harness `c08`: `isspace` sweep over all 1,114,112 code points). -/
def pyWhitespaceCodes : List Nat :=
  [9, 10, 11, 12, 13, 28, 29, 30, 31, 32, 133, 160, 5760, 8192, 8193, 8194, 8195, 8196,
   8197, 8198, 8199, 8200, 8201, 8202, 8232, 8233, 8239, 8287, 12288]

def pyWs (c : Char) : Bool := pyWhitespaceCodes.contains c.toNat

end Rpft
