/-
C05 — specification side of M9: the relation `≈` of the property statement and the
domain (`Valid` and the hypotheses the code forces).  Core Lean only.

`d ≈ d'` is equality of normal forms.  The normal form ONLY
* drops an optional key whose value is empty: `destination_uuid` (null), group
  `query/status/system/count` (null), `all_urns`, `all_groups`, `topic`, `category`,
  `result_name`, trigger `match_type` (Python-falsy), `exclude_groups` ([]),
* reduces `_ui` to the positions of the flow's nodes, in node order,
* brings a trigger to the shape with both keyword forms (`keywords := [keyword]` for a
  legacy trigger, `keyword := first keyword or null`) and writes the default match type
  `"F"` of a keyword trigger that has none.
Everything else — every other field, every list order, pass-through actions verbatim — is
compared by equality.
-/
import Rpft.Document
namespace Rpft.Document
open Rpft

def dropNull (o : Option Blob) : Option Blob := o.filter (fun b => !isNull b)
def dropFalsy (o : Option Blob) : Option Blob := o.filter truthy

def normGroup (g : GroupD) : GroupD :=
  { g with query := dropNull g.query, status := dropNull g.status, system := dropNull g.system,
           count := dropNull g.count }

def normExit (e : ExitD) : ExitD := { e with dest := dropNull e.dest }

def normAction : ActionD → ActionD
  | .sendMsg u t att q au tp tm => .sendMsg u t att q (dropFalsy au) (dropFalsy tp) tm
  | .removeGroups u gs ag => .removeGroups u (gs.map normGroup) (dropFalsy ag)
  | .addGroups u gs => .addGroups u (gs.map normGroup)
  | .setRunResult u n v c => .setRunResult u n v (dropFalsy c)
  | a => a

def normRouter : RouterD → RouterD
  | .switch op cases cats dflt wait rn => .switch op cases cats dflt wait (dropFalsy rn)
  | .random cats rn => .random cats (dropFalsy rn)

def normNode (n : NodeD) : NodeD :=
  { n with actions := n.actions.map normAction, router := n.router.map normRouter,
           exits := n.exits.map normExit }

def normFlow (f : FlowD) : FlowD :=
  { f with nodes := f.nodes.map normNode,
           ui := some (f.nodes.filterMap (fun n => (lookupPos n.uuid (f.ui.getD [])).map (fun p => (n.uuid, p)))) }

def normCampaign (c : CampaignD) : CampaignD := { c with group := normGroup c.group }

def normKeywords (t : TriggerD) : List Blob :=
  match t.keywords with
  | some ks => ks
  | none => match t.keyword with
    | none => []
    | some k => if isNull k then [] else [k]

/-- empty `match_type` dropped; a keyword trigger without one has RapidPro's default `"F"` -/
def normMatchType (ty : Str) (m : Option Blob) : Option Blob :=
  match dropFalsy m with
  | some x => some x
  | none => if ty = strK then some jMatchF else none

/-- absent `exclude_groups` ≡ `[]` -/
def normExcl (ex : Option (List GroupD)) : Option (List GroupD) :=
  match ex with
  | none => none
  | some [] => none
  | some gs => some (gs.map normGroup)

def normTrigger (t : TriggerD) : TriggerD :=
  let ks := normKeywords t
  { t with
    keywords := some ks,
    keyword := some (match ks with | [] => jNull | k :: _ => k),
    matchType := normMatchType t.type t.matchType,
    groups := t.groups.map normGroup,
    excludeGroups := normExcl t.excludeGroups }

def normDoc (d : DocD) : DocD :=
  { d with campaigns := d.campaigns.map normCampaign, flows := d.flows.map normFlow,
           groups := d.groups.map normGroup, triggers := d.triggers.map normTrigger }

/-- the exit a category is connected to by `RouterCategory.from_dict` -/
def exitOf (exits : List ExitD) (u : Str) : ExitD :=
  (exits.find? (fun e => e.uuid == u)).getD { uuid := [], dest := none }

def catImage (exits : List ExitD) (c : CategoryD) : CatC :=
  { uuid := c.uuid, name := c.name, exit := exitOf exits c.exitUuid }

/-! ### what the round trip writes for a valid, ordered document (`shape…`): the input with
falsy optional values dropped and `destination_uuid` always written -/

def shapeRouter : RouterD → RouterD
  | .switch op cases cats dflt wait rn => .switch op cases cats dflt wait (rn.filter (fun b => !isNull b))
  | .random cats rn => .random cats (rn.filter truthy)

def shapeNode (n : NodeD) : NodeD :=
  { uuid := n.uuid, actions := n.actions.map renderAction, router := n.router.map shapeRouter,
    exits := n.exits.map renderExit }

/-- positions written for a flow: those of its nodes, in node order -/
def uiOf (f : FlowD) : List (Str × Blob × Blob) :=
  f.nodes.filterMap (fun n => (lookupPos n.uuid (f.ui.getD [])).map (fun p => (n.uuid, p)))

def shapeFlow (f : FlowD) : FlowD :=
  { f with nodes := f.nodes.map shapeNode, ui := if uiOf f = [] then none else some (uiOf f) }

def plainOf (g : GroupD) : GroupD := { name := g.name, uuid := g.uuid }

/-- what a valid trigger loads to -/
def trigImg (t : TriggerD) : TriggerC :=
  { type := t.type, keywords := normKeywords t, channel := t.channel,
    matchType := loadMatchType t.type t.matchType,
    flow := t.flow, groups := t.groups, excludeGroups := t.excludeGroups.getD [] }

def shapeDoc (d : DocD) : DocD :=
  { campaigns := d.campaigns.map renderCampaign, fields := d.fields, flows := d.flows.map shapeFlow,
    groups := d.groups.map plainOf, site := d.site,
    triggers := d.triggers.map (fun t => renderTrigger (trigImg t)), version := d.version }

/-- the relation of the property statement -/
def Equiv (d d' : DocD) : Prop := normDoc d = normDoc d'
infix:50 " ≈ " => Equiv

/-- executable form of "the round trip of `d` succeeds and its result is `≈ d`" -/
def lossless (d : DocD) : Bool :=
  match roundtrip d with
  | .ok o => normDoc o == normDoc d
  | .error _ => false

/-! ### hypotheses the code forces (each has a negative witness in `Props/C05.lean`) -/

def routerCatsD : RouterD → List CategoryD
  | .switch _ _ cats _ _ _ => cats
  | .random cats _ => cats

/-- a switch router lists its default category last, or second-to-last before the
no-response category (F-C05-c otherwise) -/
def orderedRouter : RouterD → Bool
  | .random .. => true
  | .switch _ _ cats dflt wait _ =>
    match wait.bind (·.timeout) with
    | none => (cats.map (·.uuid)).getLast? == some dflt
    | some t =>
      match (cats.map (·.uuid)).reverse with
      | n :: d :: _ => n == t.categoryUuid && d == dflt
      | _ => false

/-- the exits of a router node are listed in the order of its categories (F-C05-d otherwise) -/
def exitsByCats (n : NodeD) : Bool :=
  match n.router with
  | none => true
  | some r => n.exits.map (·.uuid) == (routerCatsD r).map (·.exitUuid)

def allNodes (d : DocD) : List NodeD := (d.flows.map (·.nodes)).flatten

def orderedNode (n : NodeD) : Bool :=
  match n.router with
  | none => true
  | some r => orderedRouter r

abbrev OrderedCats (d : DocD) : Prop := ∀ n ∈ allNodes d, orderedNode n = true
abbrev ExitsByCats (d : DocD) : Prop := ∀ n ∈ allNodes d, exitsByCats n = true

/-- no contact-field reference carries a `type` (F-C05-a otherwise) -/
def untypedAction : ActionD → Bool
  | .setContactField _ _ _ t _ => t.isNone
  | _ => true
abbrev UntypedFields (d : DocD) : Prop := ∀ n ∈ allNodes d, ∀ a ∈ n.actions, untypedAction a = true

/-- top-level groups carry no attribute (F-C05-b otherwise) -/
def plainGroup (g : GroupD) : Bool :=
  (dropNull g.query).isNone && (dropNull g.status).isNone && (dropNull g.system).isNone && (dropNull g.count).isNone
abbrev PlainGroups (d : DocD) : Prop := ∀ g ∈ d.groups, plainGroup g = true

/-! ### re-join order: what the FIRST round trip does to a document that is not in it
(F-C05-c, F-C05-d): categories of a switch router come back as others ++ [default] ++
[no-response], the exits of a router node as its categories' exits -/

def reorderRouter : RouterD → RouterD
  | .random cats rn => .random cats rn
  | .switch op cases cats dflt wait rn =>
    match wait.bind (·.timeout) with
    | none =>
      .switch op cases (cats.filter (fun c => c.uuid != dflt) ++ (cats.find? (fun c => c.uuid == dflt)).toList) dflt wait rn
    | some t =>
      .switch op cases (cats.filter (fun c => c.uuid != dflt && c.uuid != t.categoryUuid)
        ++ (cats.find? (fun c => c.uuid == dflt)).toList ++ (cats.find? (fun c => c.uuid == t.categoryUuid)).toList) dflt wait rn

def reorderNode (n : NodeD) : NodeD :=
  match n.router with
  | none => n
  | some r =>
    { n with router := some (reorderRouter r),
             exits := (routerCatsD (reorderRouter r)).map (fun c => exitOf n.exits c.exitUuid) }

def reorderDoc (d : DocD) : DocD :=
  { d with flows := d.flows.map (fun f => { f with nodes := f.nodes.map reorderNode }) }

/-- what the loader needs of the categories of a router node, besides `validNode`: every
category names an exit of the node, no two categories share an exit, the default category
and the timeout category exist and differ -/
def catsWired (n : NodeD) : Bool :=
  match n.router with
  | none => true
  | some r =>
    (routerCatsD r).all (fun c => (n.exits.map (·.uuid)).contains c.exitUuid)
      && decide (((routerCatsD r).map (·.exitUuid)).Nodup)
      && (match r with
          | .random .. => true
          | .switch _ _ cats dflt wait _ =>
            (cats.map (·.uuid)).contains dflt
              && (match wait.bind (·.timeout) with
                  | none => true
                  | some t => (cats.map (·.uuid)).contains t.categoryUuid && t.categoryUuid != dflt))

abbrev CatsWired (d : DocD) : Prop := ∀ n ∈ allNodes d, catsWired n = true

/-! ### `Valid`: the export schema (what RapidPro writes) -/

/-- a value the code replaces when falsy is either truthy or already the replacement -/
def keepsOr (dflt : Blob) (b : Blob) : Bool := truthy b || b == dflt

def validExit (e : ExitD) : Bool := e.uuid != [] && e.dest != some jHardExit

def validCategory (c : CategoryD) : Bool := c.uuid != [] && decide (c.name.length ≤ 115)

/-- group references of a case (`has_group` carries `[uuid, name]`) -/
def caseRefsD (c : CaseD) : List (Str × Str) :=
  if c.type = strHasGroup then
    match c.arguments with
    | u :: n :: _ => [(n, u)]
    | _ => []
  else []

def validCase (c : CaseD) : Bool :=
  c.uuid != [] && routerTests.contains c.type
    && (!noArgTests.contains c.type || c.arguments == [])
    && (c.type != strHasGroup || decide (2 ≤ c.arguments.length))

def validRouter : RouterD → Bool
  | .random cats _ => cats.all validCategory && decide ((cats.map (·.uuid)).Nodup)
  | .switch _ cases cats _ wait _ =>
    cats.all validCategory && decide ((cats.map (·.uuid)).Nodup) && cases.all validCase
      && (match wait with
          | none => true
          | some w => w.type == jMsg && (match w.timeout with | none => true | some t => decide (0 < t.seconds)))

def validAction : ActionD → Bool
  | .sendMsg _ _ att _ _ _ tm => att.all truthy && (match tm with | none => true | some m => m.uuid != [])
  | .setContactField _ _ k _ _ => truthy k
  | .setContactProperty _ p _ => contactProps.contains p
  | _ => true

def validNode (n : NodeD) : Bool :=
  n.uuid != [] && n.exits.all validExit && decide ((n.exits.map (·.uuid)).Nodup) && n.actions.all validAction
    && (match n.router with
        | none => n.exits.length == 1
        | some (.random cats rn) => validRouter (.random cats rn) && n.actions == []
        | some r => validRouter r && (match n.actions with
            | [] => true
            | [a] => routerActionTypes.contains (actionType a)
            | _ => false))

def validFlow (f : FlowD) : Bool :=
  f.uuid != [] && keepsOr jEmptyObj f.metadata && keepsOr jEmptyObj f.localization && f.nodes.all validNode

def validEvent (e : EventD) : Bool :=
  e.uuid != [] && truthy e.relKey
    && ((e.eventType == strM && !isNull e.message && e.flow.isNone
          && (match e.baseLanguage with | some b => truthy b | none => false))
        || (e.eventType == strF && e.flow.isSome && e.baseLanguage.isNone))

def validCampaign (c : CampaignD) : Bool := c.uuid != [] && c.events.all validEvent

def validTrigger (t : TriggerD) : Bool :=
  keepsOr jNull t.channel
    && (match t.keywords, t.keyword with
        | some ks, none => !(t.type == strK && firstFalsy ks)
        | some ks, some k => !(t.type == strK && firstFalsy ks) && k == (match ks with | [] => jNull | k0 :: _ => k0)
        | none, some k => !(t.type == strK && falsy k)
        | none, none => false)

/-- every group the document refers to, with the site of the reference forgotten -/
def actionRefsD : ActionD → List (Str × Str) := actionGroupRefs
def nodeRefsD (n : NodeD) : List (Str × Str) :=
  (n.actions.map actionRefsD).flatten
    ++ (match n.router with
        | some (.switch _ cases _ _ _ _) => (cases.map caseRefsD).flatten
        | _ => [])
def triggerRefsD (t : TriggerD) : List (Str × Str) := t.groups.map gref ++ (t.excludeGroups.getD []).map gref
def docGroupRefs (d : DocD) : List (Str × Str) :=
  ((allNodes d).map nodeRefsD).flatten ++ d.campaigns.map (fun c => gref c.group)
    ++ (d.triggers.map triggerRefsD).flatten

/-- every flow reference, in recording order; triggers last -/
def nodeFlowRefsD (n : NodeD) : List (Str × Str) := (n.actions.map actionFlowRefs).flatten
def docFlowRefsPre (d : DocD) : List (Str × Str) :=
  d.flows.map (fun f => (f.name, f.uuid)) ++ ((allNodes d).map nodeFlowRefsD).flatten
    ++ ((d.campaigns.map (fun c => c.events.map eventFlowRefs)).flatten).flatten
def docFlowRefs (d : DocD) : List (Str × Str) := docFlowRefsPre d ++ d.triggers.map (fun t => fref t.flow)

/-- same name ⇒ same uuid, and no uuid missing -/
def Functional (refs : List (Str × Str)) : Prop :=
  (∀ r ∈ refs, r.2 ≠ []) ∧ ∀ r ∈ refs, ∀ s ∈ refs, r.1 = s.1 → r.2 = s.2

structure Valid (d : DocD) : Prop where
  flows : ∀ f ∈ d.flows, validFlow f = true
  campaigns : ∀ c ∈ d.campaigns, validCampaign c = true
  triggers : ∀ t ∈ d.triggers, validTrigger t = true
  fields : keepsOr jEmptyArr d.fields = true
  site : truthy d.site = true
  /-- top-level groups: distinct names, uuids present -/
  groupNames : (d.groups.map (·.name)).Nodup
  groupUuids : ∀ g ∈ d.groups, g.uuid ≠ []
  /-- every referenced group is listed with that uuid -/
  groupsListed : ∀ r ∈ docGroupRefs d, r ∈ d.groups.map gref
  /-- flow references agree with each other and with the flows of the document -/
  flowRefs : Functional (docFlowRefs d)
  /-- a trigger starts a flow the document knows -/
  triggerFlows : ∀ t ∈ d.triggers, t.flow.name ∈ (docFlowRefsPre d).map (·.1)

/-! ### executable forms of the hypotheses (served by the driver: `doc.hyps`) -/

instance (refs : List (Str × Str)) : Decidable (Functional refs) := by
  unfold Functional; exact inferInstance

def validB (d : DocD) : Bool :=
  decide (∀ f ∈ d.flows, validFlow f = true) && decide (∀ c ∈ d.campaigns, validCampaign c = true)
    && decide (∀ t ∈ d.triggers, validTrigger t = true) && keepsOr jEmptyArr d.fields && truthy d.site
    && decide ((d.groups.map (·.name)).Nodup) && decide (∀ g ∈ d.groups, g.uuid ≠ [])
    && decide (∀ r ∈ docGroupRefs d, r ∈ d.groups.map gref) && decide (Functional (docFlowRefs d))
    && decide (∀ t ∈ d.triggers, t.flow.name ∈ (docFlowRefsPre d).map (·.1))

theorem validB_iff (d : DocD) : validB d = true ↔ Valid d := by
  simp only [validB, Bool.and_eq_true, decide_eq_true_eq]
  constructor
  · rintro ⟨⟨⟨⟨⟨⟨⟨⟨⟨h1, h2⟩, h3⟩, h4⟩, h5⟩, h6⟩, h7⟩, h8⟩, h9⟩, h10⟩
    exact ⟨h1, h2, h3, h4, h5, h6, h7, h8, h9, h10⟩
  · intro h
    exact ⟨⟨⟨⟨⟨⟨⟨⟨⟨h.flows, h.campaigns⟩, h.triggers⟩, h.fields⟩, h.site⟩, h.groupNames⟩, h.groupUuids⟩, h.groupsListed⟩, h.flowRefs⟩, h.triggerFlows⟩

end Rpft.Document
