/-
C13 model — the logic that is supposed to make the toolkit's output a function of its input.

(a) `logger.py` 9-42 as a stack machine: `LoggingContextHandler.add / pop` on the two parallel
    module-global lists, `with logging_context(name, **kw): body` = `withCtx` (push, run the
    body in `Except`, pop on BOTH outcomes — the `with` contract of DESIGN §3), `ContextFilter`
    = every log record carries the processing stack it was emitted under.
(b) the fresh-id source (`generate_new_uuid`) as a counter / an arbitrary injective stream.
(c) an abstract id-consuming program: a tree `Shape` whose leaves are ids given in the input or
    holes to be filled with invented ids, filled left to right.
(d) `UUIDDict` (containers.py): `_record_uuid`, `generate_missing_uuids`, `validate` =
    record every reference; generate; assign.
(e) export scratch state of `FlowContainer.to_rows` (visited/completed/rows reset at entry).

Core Lean only (compiled into the driver).  Python lists are modelled as `List` with the
*last* element on top (`append` = `++ [x]`, `pop` = `dropLast`), as in the code.
-/
import Rpft.Str
namespace Rpft.Det

/-! ## (a) logger.py -/

/-- keyword arguments of one `logging_context(...)` -/
abbrev Vars := List (Str × Str)

/-- `LoggingContextHandler` + what `ContextFilter` lets a handler observe. -/
structure LState where
  /-- `processing_stack` -/
  stack : List Str
  /-- `context_variables` (parallel list) -/
  vars : List Vars
  /-- every record emitted so far: the `processing_stack` it saw and its message -/
  seen : List (List Str × Str)
deriving Repr, DecidableEq

def LState.empty : LState := ⟨[], [], []⟩

/-- the two observables of `LoggingContextHandler` (`get_processing_stack()`,
`get_context_variables()`) that `add` grows and `pop` restores (tied to the source by T1, which probes
them through the public getters: how the handler stores them is not part of the tie) -/
def stackFields : List Str := ["processing_stack".toList, "context_variables".toList]

/-- `LoggingContextHandler.add` -/
def add (n : Str) (kv : Vars) (st : LState) : LState :=
  { st with stack := st.stack ++ [n], vars := st.vars ++ [kv] }

/-- `LoggingContextHandler.pop` (Python `list.pop()` on both lists; on an empty list the real
code raises IndexError — unreachable after a matching `add`, modelled as `dropLast`) -/
def pop (st : LState) : LState :=
  { st with stack := st.stack.dropLast, vars := st.vars.dropLast }

/-- exceptions: only their message matters here -/
abbrev Err := Str

/-- `with logging_context(n, **kv): body` — `__enter__` adds, the body runs, `__exit__` pops
whether the body returned or raised, and the exception (if any) propagates. -/
def withCtx {α : Type} (n : Str) (kv : Vars) (body : LState → Except Err α × LState)
    (st : LState) : Except Err α × LState :=
  let r := body (add n kv st)
  (r.1, pop r.2)

/-- the realistic breakage: `__exit__` pops only when no exception is in flight -/
def withCtxLeaky {α : Type} (n : Str) (kv : Vars) (body : LState → Except Err α × LState)
    (st : LState) : Except Err α × LState :=
  let r := body (add n kv st)
  match r.1 with
  | .ok a => (.ok a, pop r.2)
  | .error e => (.error e, r.2)

/-- A small program type for "what an API call does to the logger":
`work m` emits a record (LOGGER.warning/critical in library mode: no exception),
`fail m` raises, `call n body` is `with logging_context(n): body…`,
`attempt body` is `try: body… except Exception: pass` (how a caller survives a failed call). -/
inductive Prog where
  | work (msg : Str)
  | fail (msg : Str)
  | call (name : Str) (body : List Prog)
  | attempt (body : List Prog)
deriving Repr

mutual
  def exec : Prog → LState → Except Err Unit × LState
    | .work m, st => (.ok (), { st with seen := st.seen ++ [(st.stack, m)] })
    | .fail m, st => (.error m, st)
    | .call n body, st => withCtx n [] (execList body) st
    | .attempt body, st => (.ok (), (execList body st).2)
  def execList : List Prog → LState → Except Err Unit × LState
    | [], st => (.ok (), st)
    | p :: ps, st =>
      match exec p st with
      | (.ok _, st') => execList ps st'
      | (.error e, st') => (.error e, st')
end

-- same programs under the leaky `__exit__`
mutual
  def execLeaky : Prog → LState → Except Err Unit × LState
    | .work m, st => (.ok (), { st with seen := st.seen ++ [(st.stack, m)] })
    | .fail m, st => (.error m, st)
    | .call n body, st => withCtxLeaky n [] (execListLeaky body) st
    | .attempt body, st => (.ok (), (execListLeaky body st).2)
  def execListLeaky : List Prog → LState → Except Err Unit × LState
    | [], st => (.ok (), st)
    | p :: ps, st =>
      match execLeaky p st with
      | (.ok _, st') => execListLeaky ps st'
      | (.error e, st') => (.error e, st')
end

/-! Reference reading of a program: what it raises and which records it emits is a function
of the processing stack it starts under — nothing else of the process state. -/
mutual
  def den : Prog → List Str → Except Err Unit × List (List Str × Str)
    | .work m, stk => (.ok (), [(stk, m)])
    | .fail m, _ => (.error m, [])
    | .call n body, stk => denList body (stk ++ [n])
    | .attempt body, stk => (.ok (), (denList body stk).2)
  def denList : List Prog → List Str → Except Err Unit × List (List Str × Str)
    | [], _ => (.ok (), [])
    | p :: ps, stk =>
      match den p stk with
      | (.ok _, r) => ((denList ps stk).1, r ++ (denList ps stk).2)
      | (.error e, r) => (.error e, r)
end

/-- a process history: API calls one after the other, each one survived by the caller -/
def runHistory (calls : List Prog) (st : LState) : LState :=
  calls.foldl (fun s p => (exec (.attempt [p]) s).2) st

/-- the records a program adds to the log -/
def records (p : Prog) (st : LState) : List (List Str × Str) :=
  ((exec p st).2.seen).drop st.seen.length

/-! ## (b), (c) fresh ids and an abstract id-consuming program -/

/-- input of an id-consuming program: ids given in the input, holes for invented ids -/
inductive Shape where
  | given (g : Str)
  | hole
  | node (label : Str) (l r : Shape)
deriving Repr, DecidableEq

/-- its output over an id type `I` -/
inductive Tree (I : Type) where
  | given (g : Str)
  | inv (i : I)
  | node (label : Str) (l r : Tree I)
deriving Repr, DecidableEq

/-- run the program with the fresh-id stream `f` (the k-th request returns `f k`), counter `c` -/
def fillWith {I : Type} (f : Nat → I) : Shape → Nat → Tree I × Nat
  | .given g, c => (.given g, c)
  | .hole, c => (.inv (f c), c + 1)
  | .node lb l r, c =>
    let a := fillWith f l c
    let b := fillWith f r a.2
    (.node lb a.1 b.1, b.2)

/-- the counter itself as the id source -/
def fill (s : Shape) (c : Nat) : Tree Nat × Nat := fillWith id s c

/-- consecutive runs sharing the counter -/
def fillAll {I : Type} (f : Nat → I) : List Shape → Nat → List (Tree I) × Nat
  | [], c => ([], c)
  | s :: ss, c =>
    let a := fillWith f s c
    let b := fillAll f ss a.2
    (a.1 :: b.1, b.2)

def Tree.invented {I : Type} : Tree I → List I
  | .given _ => []
  | .inv i => [i]
  | .node _ l r => l.invented ++ r.invented

def Tree.givens {I : Type} : Tree I → List Str
  | .given g => [g]
  | .inv _ => []
  | .node _ l r => l.givens ++ r.givens

def Tree.map {I J : Type} (h : I → J) : Tree I → Tree J
  | .given g => .given g
  | .inv i => .inv (h i)
  | .node lb l r => .node lb (l.map h) (r.map h)

/-- forget the invented ids again: what is left of the output is the input -/
def Tree.erase {I : Type} : Tree I → Shape
  | .given g => .given g
  | .inv _ => .hole
  | .node lb l r => .node lb l.erase r.erase

def Shape.holes : Shape → Nat
  | .given _ => 0
  | .hole => 1
  | .node _ l r => l.holes + r.holes

def Shape.givens : Shape → List Str
  | .given g => [g]
  | .hole => []
  | .node _ l r => l.givens ++ r.givens

/-- two outputs related leaf by leaf through a relation on invented ids -/
inductive TreeRel {I J : Type} (R : I → J → Prop) : Tree I → Tree J → Prop where
  | given (g : Str) : TreeRel R (.given g) (.given g)
  | inv {i : I} {j : J} : R i j → TreeRel R (.inv i) (.inv j)
  | node (lb : Str) {l r : Tree I} {l' r' : Tree J} :
      TreeRel R l l' → TreeRel R r r' → TreeRel R (.node lb l r) (.node lb l' r')

/-- the harness' canonicaliser on this class: rename invented ids `#k` by first occurrence
(`tbl` = ids seen so far, oldest first) -/
def canonAux {I : Type} [DecidableEq I] : Tree I → List I → Tree Nat × List I
  | .given g, tbl => (.given g, tbl)
  | .inv i, tbl =>
    if tbl.contains i then (.inv (tbl.idxOf i), tbl) else (.inv tbl.length, tbl ++ [i])
  | .node lb l r, tbl =>
    let a := canonAux l tbl
    let b := canonAux r a.2
    (.node lb a.1 b.1, b.2)

def canon {I : Type} [DecidableEq I] (t : Tree I) : Tree Nat := (canonAux t []).1

/-! ## (d) UUIDDict -/

/-- Python truthiness of a recorded uuid: `None` and `""` are falsy -/
def truthy : Option Str → Bool
  | none => false
  | some [] => false
  | some _ => true

/-- a Python dict name → uuid, in insertion order -/
abbrev PyDict := List (Str × Option Str)

def PyDict.get (d : PyDict) (k : Str) : Option Str :=
  match d.find? (fun e => e.1 = k) with
  | some e => e.2
  | none => none

/-- `d[k] = v`: an existing key keeps its position -/
def PyDict.set : PyDict → Str → Option Str → PyDict
  | [], k, v => [(k, v)]
  | (k', v') :: d, k, v => if k' = k then (k', v) :: d else (k', v') :: PyDict.set d k v

/-- `UUIDDict._record_uuid` -/
def recordUuid (d : PyDict) (name : Str) (uuid : Option Str) : Except Err PyDict :=
  let recorded := d.get name
  if truthy recorded then
    if truthy uuid ∧ uuid ≠ recorded then .error "multiple uuids".toList else .ok d
  else .ok (d.set name uuid)

/-- spelling of the k-th invented id in the model (`#k`; real ones are uuid4 strings) -/
def inventedName (k : Nat) : Str := '#' :: (toString k).toList

/-- one dictionary of `generate_missing_uuids`: every falsy value is replaced by a fresh id
(iterating `items()` while assigning to existing keys keeps the order) -/
def generateMissing : PyDict → Nat → PyDict × Nat
  | [], c => ([], c)
  | (k, v) :: d, c =>
    if truthy v then
      let r := generateMissing d c
      ((k, v) :: r.1, r.2)
    else
      let r := generateMissing d (c + 1)
      ((k, some (inventedName c)) :: r.1, r.2)

/-- record a list of references (name, uuid-or-blank), stopping at the first clash -/
def recordAll : PyDict → List (Str × Option Str) → Except Err PyDict
  | d, [] => .ok d
  | d, (n, u) :: rs =>
    match recordUuid d n u with
    | .ok d' => recordAll d' rs
    | .error e => .error e

/-- `assign_global_uuids`: every reference gets the recorded uuid of its name -/
def assign (d : PyDict) (refs : List (Str × Option Str)) : List (Str × Option Str) :=
  refs.map (fun r => (r.1, d.get r.1))

/-- one dictionary's share of `RapidProContainer.validate()` -/
def validate (d : PyDict) (refs : List (Str × Option Str)) (c : Nat) :
    Except Err (PyDict × List (Str × Option Str) × Nat) :=
  match recordAll d refs with
  | .error e => .error e
  | .ok d1 =>
    let g := generateMissing d1 c
    .ok (g.1, assign g.1 refs, g.2)

def allTruthy (d : PyDict) : Bool := d.all (fun e => truthy e.2)

/-! ## (e) export scratch state -/

/-- scratch attributes `to_rows` resets on the flow / `clear_row_model` on each node, by their names
at the time of writing.  The names are documentation: T1 ties the BEHAVIOUR (`Gen.toRowsScratchReset`:
junk in whatever attributes `to_rows` writes does not change its result; `Gen.toRowsClearsRowModels`). -/
def scratchFields : List Str := ["visited_nodes".toList, "completed_nodes".toList, "rows".toList]
def nodeScratchFields : List Str := ["row_models".toList]

/-- `FlowContainer` as far as `to_rows` is concerned: the nodes (never written by the export)
and the scratch attributes the export leaves behind on the object. -/
structure Flow (N S : Type) where
  nodes : N
  scratch : S

/-- `to_rows`: reset the scratch state (`visited_nodes`, `completed_nodes`, `rows`,
`clear_row_model` on every node), run the DFS — an arbitrary function of nodes and scratch —
and return what it left in the scratch state. -/
def toRows {N S : Type} (empty : S) (dfs : N → S → S) (fl : Flow N S) : S × Flow N S :=
  let s := dfs fl.nodes empty
  (s, { fl with scratch := s })

/-- the breakage: no reset -/
def toRowsNoClear {N S : Type} (dfs : N → S → S) (fl : Flow N S) : S × Flow N S :=
  let s := dfs fl.nodes fl.scratch
  (s, { fl with scratch := s })

end Rpft.Det
