/-
M9b — model of `render_ui` (nodes.py 134-144 BaseNode, 292-358 SwitchRouterNode, 420-426
RandomRouterNode, 512-518 EnterFlowNode, 615-621 CallWebhookNode, 704-710 TransferAirtimeNode).

`from_dict` keeps of a `_ui.nodes[uuid]` entry only its position (`add_ui_from_dict`); `render`
writes the entry again from the position and the NODE: its class and, for a plain switch node,
whether the router waits and what its operand is.  The entry written is therefore a function
of the rendered node; this file models that function, character by character for the operand
(the two `re.sub` calls with their unescaped `.` and the `re.match` of the urn-path pattern).
Tied to the code by the differential run of C05 (the driver adds `type` / `config` computed here
to every `_ui` entry of the model's round trip; the harness compares with the real output).
Core Lean only.
-/
import Rpft.Document
namespace Rpft.Document
open Rpft

/-- `config` of a `_ui.nodes` entry -/
inductive UiConfig
  /-- no `config` key (`execute_actions`) -/
  | absent
  /-- `None` (`split_by_random`) -/
  | null
  /-- `{}` (sub-flow, webhook, airtime) -/
  | empty
  /-- `{"cases": {}}`, with `"operand": {"id", "type", "name"}` when given -/
  | cases (operand : Option (Str × Str × Str))
  deriving DecidableEq, Repr

structure UiEntry where
  type : Str
  config : UiConfig
  deriving DecidableEq, Repr

/-- one alternative `(lit.)` of the substitution patterns: the literal followed by ONE
character that is not a newline (the `.` is not escaped in the source); the rest after it -/
def afterLitAny (lit s : Str) : Option Str :=
  if lit.isPrefixOf s then
    match s.drop lit.length with
    | [] => none
    | c :: rest => if c = '\n' then none else some rest
  else none

/-- `re.sub("(l₁.)|(l₂.)|…", "", s)`: every non-overlapping match, scanning from the left, is
removed — not only a prefix (fuel = length: every step consumes a character) -/
def stripAux (lits : List Str) : Nat → Str → Str
  | 0, s => s
  | _, [] => []
  | fuel + 1, c :: cs =>
    match lits.findSome? (fun l => afterLitAny l (c :: cs)) with
    | some rest => stripAux lits fuel rest
    | none => c :: stripAux lits fuel cs

def stripLits (lits : List Str) (s : Str) : Str := stripAux lits s.length s

def isLowerAz (c : Char) : Bool := 'a'.toNat ≤ c.toNat && c.toNat ≤ 'z'.toNat

/-- `\s` of a `str` pattern = `str.isspace` -/
def pyIsSpace (c : Char) : Bool :=
  let n := c.toNat
  (0x09 ≤ n && n ≤ 0x0D) || (0x1C ≤ n && n ≤ 0x20) || n == 0x85 || n == 0xA0 || n == 0x1680 ||
  (0x2000 ≤ n && n ≤ 0x200A) || n == 0x2028 || n == 0x2029 || n == 0x202F || n == 0x205F || n == 0x3000

/-- `re.match(r'@\(default\(urn_parts\(urns\.([a-z]+)\)\.path,\s+""\)\)', s)`: group 1.
A PREFIX match (`re.match`, no `$`); both repetitions are followed by a character outside their
class, so greedy matching is exact. -/
def schemeMatch (s : Str) : Option Str :=
  let pre := "@(default(urn_parts(urns.".toList
  if pre.isPrefixOf s then
    let r := s.drop pre.length
    let name := r.takeWhile isLowerAz
    let r := r.dropWhile isLowerAz
    let mid := ").path,".toList
    if name = [] then none
    else if mid.isPrefixOf r then
      let r := r.drop mid.length
      let ws := r.takeWhile pyIsSpace
      let r := r.dropWhile pyIsSpace
      if ws = [] then none
      else if "\"\"))".toList.isPrefixOf r then some name else none
    else none
  else none

/-- `str.title()` of a word of lower-case ASCII letters -/
def capitalize : Str → Str
  | [] => []
  | c :: cs => c.toUpper :: cs

def contactPropertiesUi : List Str := ["name".toList, "language".toList, "channel".toList]

/-- `SwitchRouterNode.render_ui` (type and config) -/
def switchUi (hasWait : Bool) (op : Str) : UiEntry :=
  if hasWait then ⟨"wait_for_response".toList, .cases none⟩
  else if op = "@contact.groups".toList then ⟨"split_by_groups".toList, .cases none⟩
  else if op = "@(urn_parts(contact.urn).scheme)".toList then ⟨"split_by_scheme".toList, .cases none⟩
  else if "@contact.".toList.isPrefixOf op || "@fields.".toList.isPrefixOf op || (schemeMatch op).isSome then
    match schemeMatch op with
    | some sch => ⟨"split_by_contact_field".toList, .cases (some (sch, "scheme".toList, capitalize sch))⟩
    | none =>
      let fid := stripLits ["@contact".toList, "@fields".toList] op
      if "@contact.".toList.isPrefixOf op && contactPropertiesUi.contains fid then
        ⟨"split_by_contact_field".toList, .cases (some (fid, "property".toList, capitalize fid))⟩
      else ⟨"split_by_contact_field".toList, .cases (some (fid, "field".toList, fid))⟩
  else if "@results.".toList.isPrefixOf op then
    let rid := stripLits ["@results".toList] op
    ⟨"split_by_run_result".toList, .cases (some (rid, "result".toList, rid))⟩
  else ⟨"split_by_expression".toList, .cases none⟩

/-- `render_ui` of the node's class (`BaseNode.from_dict` picks the class from the router type
and the type of the first action); `operand` = the operand as a string.  `none`: no class
(load has already failed on such a node). -/
def nodeUi (n : NodeD) (operand : Str) : Option UiEntry :=
  match n.router with
  | none => some ⟨"execute_actions".toList, .absent⟩
  | some (.random ..) => some ⟨"split_by_random".toList, .null⟩
  | some (.switch _ _ _ _ wait _) =>
    match n.actions with
    | [] => some (switchUi wait.isSome operand)
    | a :: _ =>
      if actionType a = "enter_flow".toList then some ⟨"split_by_subflow".toList, .empty⟩
      else if actionType a = "call_webhook".toList then some ⟨"split_by_webhook".toList, .empty⟩
      else if actionType a = "transfer_airtime".toList then some ⟨"split_by_airtime".toList, .empty⟩
      else none

/-! ### What the entry of a split says about its operand

The id / name shown by the editor is the WHOLE path behind the namespace, however many dotted
segments it has: kernel-checked instances for 1, 2 and 3 segments in each namespace, and for
the shapes next to them. -/

private def ui (t : String) (o : Option (String × String × String)) : UiEntry :=
  ⟨t.toList, .cases (o.map (fun (a, b, c) => (a.toList, b.toList, c.toList)))⟩

example : switchUi false "@results.quiz".toList = ui "split_by_run_result" (some ("quiz", "result", "quiz")) := by decide
example : switchUi false "@results.quiz.category".toList =
    ui "split_by_run_result" (some ("quiz.category", "result", "quiz.category")) := by decide
example : switchUi false "@results.a.b.c".toList = ui "split_by_run_result" (some ("a.b.c", "result", "a.b.c")) := by decide
example : switchUi false "@fields.age".toList = ui "split_by_contact_field" (some ("age", "field", "age")) := by decide
example : switchUi false "@fields.a.b".toList = ui "split_by_contact_field" (some ("a.b", "field", "a.b")) := by decide
example : switchUi false "@contact.name".toList = ui "split_by_contact_field" (some ("name", "property", "Name")) := by decide
example : switchUi false "@contact.urn.path".toList =
    ui "split_by_contact_field" (some ("urn.path", "field", "urn.path")) := by decide
example : switchUi false "@contact.name.first".toList =
    ui "split_by_contact_field" (some ("name.first", "field", "name.first")) := by decide
example : switchUi false "@contact.groups".toList = ui "split_by_groups" none := by decide
example : switchUi false "@contact.groups.x".toList =
    ui "split_by_contact_field" (some ("groups.x", "field", "groups.x")) := by decide
example : switchUi false "@results".toList = ui "split_by_expression" none := by decide
example : switchUi false "@contacts.name".toList = ui "split_by_expression" none := by decide
example : switchUi true "@results.quiz.category".toList = ui "wait_for_response" none := by decide
example : switchUi false "@(default(urn_parts(urns.tel).path, \"\"))".toList =
    ui "split_by_contact_field" (some ("tel", "scheme", "Tel")) := by decide
example : switchUi false "@(default(urn_parts(contact.urn).path, \"\"))".toList = ui "split_by_expression" none := by decide

end Rpft.Document
