/-
M7 `Index` — sequential processing of the content index
(contentindexparser.py: `__init__` 50-76, `_process_content_index_table` 78-142,
`_add_template` 144-157, `_process_ignore_row` 159-166, `_populate_missing_templates` 168-171,
`_get_sheet_or_die` 173-194, `create_campaign_parser` 386-394, `create_trigger_parser` 396-404,
`parse_all_campaigns/triggers/flows` 406-474, `_parse_flow` 486-499 (names);
tagmatcher.py 4-30; sheets.py `CompositeSheetReader.get_sheets_by_name` 178-192).

What a sheet *contains* is abstracted to its provenance (`prov`: which copy in which
workbook), its rows when read as a content index, and its rows when read as a data sheet.
Registries are Python dicts (`Rpft.Dict`).  Core Lean only.
-/
import Rpft.Str
import Rpft.Dict
import Rpft.DataOps
import Rpft.Cell
namespace Rpft.Index
open Rpft

/-- one parsed row of a content index sheet (`ContentIndexRowModel`, the fields the
processing looks at; `tplArgs` stands for `template_argument_definitions`) -/
structure IndexRow where
  ty : Str := []
  sheetNames : List Str := []
  newName : Str := []
  dataSheet : Str := []
  dataRowId : Str := []
  group : Str := []
  status : Str := []
  tags : List Str := []
  tplArgs : Nat := 0
deriving DecidableEq, Repr

structure Sheet where
  prov : Nat                            -- identifies (workbook, sheet): the table's content
  rows : List IndexRow := []            -- the sheet read as a content index
  dataRows : List DataOps.Row := []     -- the sheet read as a data sheet
deriving Repr

/-- one input workbook: sheet name → sheet -/
abbrev Workbook := Dict Str Sheet

/-! ### TagMatcher -/

/-- `int(param)` for the parameter spellings the harness ships: optional sign, ASCII digits -/
def parseIntParam (s : Str) : Option Int :=
  let digits (d : Str) : Option Nat :=
    if d = [] then none
    else if d.all (fun c => c.isDigit) then some (d.foldl (fun n c => 10 * n + (c.toNat - 48)) 0)
    else none
  match s with
  | '-' :: d => (digits d).map (fun n => -(n : Int))
  | '+' :: d => (digits d).map (fun n => (n : Int))
  | d => (digits d).map (fun n => (n : Int))

/-- `TagMatcher.__init__`: `n tag … n tag …`; `none` = ValueError (a tag before any position) -/
def tagPatternsAux : Option Int → Dict Int (List Str) → List Str → Option (Dict Int (List Str))
  | _, acc, [] => some acc
  | cur, acc, p :: ps =>
    match parseIntParam p with
    | some v => tagPatternsAux (some (v - 1)) acc ps
    | none =>
      match cur with
      | none => none
      | some i => tagPatternsAux cur (acc.set i ((acc.get i).getD [] ++ [p])) ps

def tagPatterns (params : List Str) : Option (Dict Int (List Str)) :=
  tagPatternsAux none [] params

/-- `TagMatcher.matches(tags)` -/
def tagMatchesAux (pats : Dict Int (List Str)) : Nat → List Str → Bool
  | _, [] => true
  | i, t :: ts =>
    let bad : Bool := t ≠ [] && (match pats.get (i : Int) with
      | some allowed => !(allowed.contains t)
      | none => false)
    !bad && tagMatchesAux pats (i + 1) ts

def tagMatches (pats : Dict Int (List Str)) (tags : List Str) : Bool := tagMatchesAux pats 0 tags

/-! ### readers -/

/-- `CompositeSheetReader.get_sheets_by_name` -/
def getSheetsByName (rd : List Workbook) (n : Str) : List Sheet := rd.filterMap (fun wb => wb.get n)

/-- `_get_sheet_or_die`: the last candidate is the active one -/
def getSheetOrDie (rd : List Workbook) (n : Str) : Option Sheet := (getSheetsByName rd n).getLast?

/-! ### state -/

inductive Err
  | sheetNotFound (n : Str)     -- ParserError
  | index                       -- IndexError: `row.sheet_name[0]` of an empty list
  | recursion                   -- RecursionError (an index that includes itself)
  | keyError (n : Str)          -- KeyError: unknown data sheet / data row in parse_all_flows
  | data (e : DataOps.Err)      -- exceptions of `_process_data_sheet`
deriving DecidableEq, Repr

structure Campaign where
  group : Str
  prov : Nat
deriving DecidableEq, Repr

structure Template where
  prov : Nat
  args : Nat
deriving DecidableEq, Repr

structure St where
  templates : Dict Str Template := []     -- self.template_sheets
  data : DataOps.St := {}                 -- self.data_sheets (+ CRITICAL count of data rows)
  flowRows : List IndexRow := []          -- self.flow_definition_rows
  campaigns : Dict Str Campaign := []     -- self.campaign_parsers (key: campaign name)
  triggers : Dict Str Nat := []           -- self.trigger_parsers (key: sheet name)
  errors : Nat := 0                       -- LOGGER.error / LOGGER.critical records of the index rows

/-- the reader as the processing sees it: a name resolves to a sheet or not -/
abbrev Resolve := Str → Option Sheet

def resolveOrDie (res : Resolve) (n : Str) : Except Err Sheet :=
  match res n with
  | some s => pure s
  | none => throw (.sheetNotFound n)

def firstName (r : IndexRow) : Except Err Str :=
  match r.sheetNames with
  | [] => throw .index
  | n :: _ => pure n

def str (s : String) : Str := s.toList

/-- the row types `_process_content_index_table` dispatches on, in source order (T1) -/
def rowTypeNames : List Str :=
  [str "content_index", str "data_sheet", str "template_definition", str "create_flow",
   str "create_campaign", str "create_triggers", str "ignore_row"]
/-- `row.status == "draft"` (T1) -/
def draftWord : Str := str "draft"
/-- the sheet every workbook is searched for (T1) -/
def indexSheetName : Str := str "content_index"

/-- `row.status == "draft"` or the tags fail the filter: the row has no effect -/
def inert (pats : Dict Int (List Str)) (r : IndexRow) : Bool :=
  r.status == draftWord || !tagMatches pats r.tags

/-- `row.new_name or row.sheet_name[0]` of a stored flow row -/
def flowKey (r : IndexRow) : Except Err Str :=
  if r.newName ≠ [] then pure r.newName else firstName r

/-- `_add_template` -/
def addTemplate (res : Resolve) (st : St) (r : IndexRow) (updateDuplicates : Bool) : Except Err St := do
  let n ← firstName r
  if st.templates.has n && !updateDuplicates then pure st
  else do
    let sh ← resolveOrDie res n
    pure { st with templates := st.templates.set n { prov := sh.prov, args := r.tplArgs } }

/-- the list comprehension of `_process_ignore_row`, left to right -/
def dropFlowRows (n : Str) : List IndexRow → Except Err (List IndexRow)
  | [] => pure []
  | r :: rs => do
    let k ← flowKey r
    let rest ← dropFlowRows n rs
    pure (if k ≠ n then r :: rest else rest)

/-- `_process_ignore_row` -/
def ignoreRow (st : St) (n : Str) : Except Err St := do
  let keep ← dropFlowRows n st.flowRows
  pure { st with flowRows := keep, campaigns := st.campaigns.pop n, triggers := st.triggers.pop n }

def dataEnv (res : Resolve) : DataOps.Env := fun n => (res n).map (·.dataRows)

/-- which branch of the `if row.type == … elif …` chain a row takes -/
inductive Kind
  | contentIndex | dataSheet | templateDefinition | createFlow | createCampaign | createTriggers
  | ignoreRow | invalid
deriving DecidableEq, Repr

def kindOf (ty : Str) : Kind :=
  if ty = str "content_index" then .contentIndex
  else if ty = str "data_sheet" then .dataSheet
  else if ty = str "template_definition" then .templateDefinition
  else if ty = str "create_flow" then .createFlow
  else if ty = str "create_campaign" then .createCampaign
  else if ty = str "create_triggers" then .createTriggers
  else if ty = str "ignore_row" then .ignoreRow
  else .invalid

/-- the body of the loop of `_process_content_index_table` for an active row that is not a
`content_index` row -/
def step (res : Resolve) (st : St) (r : IndexRow) : Except Err St :=
  let st := { st with errors := if r.sheetNames.length ≠ 1 ∧ kindOf r.ty ≠ .dataSheet
                                  then st.errors + 1 else st.errors }
  match kindOf r.ty with
  | .dataSheet =>
    match DataOps.processDataSheet (dataEnv res) st.data
        { sources := r.sheetNames, newName := r.newName, kind := .none } with
    | .ok d => pure { st with data := d }
    | .error e => throw (.data e)
  | .templateDefinition => addTemplate res st r true
  | .createFlow => pure { st with flowRows := st.flowRows ++ [r] }
  | .createCampaign => do
    let n ← firstName r
    let sh ← resolveOrDie res n
    let name := if r.newName ≠ [] then r.newName else n
    pure { st with campaigns := st.campaigns.set name { group := r.group, prov := sh.prov } }
  | .createTriggers => do
    let n ← firstName r
    let sh ← resolveOrDie res n
    pure { st with triggers := st.triggers.set n sh.prov }
  | .ignoreRow => do
    let n ← firstName r
    ignoreRow st n
  | _ => pure { st with errors := st.errors + 1 }    -- LOGGER.error("invalid type")

/-- one row of `_process_content_index_table`; `recur` processes a nested index sheet -/
def rowStep (res : Resolve) (pats : Dict Int (List Str))
    (recur : St → List IndexRow → Except Err St) (st : St) (r : IndexRow) : Except Err St :=
  if inert pats r then pure st
  else if kindOf r.ty = .contentIndex then do
    let st := { st with errors := if r.sheetNames.length ≠ 1 then st.errors + 1 else st.errors }
    let n ← firstName r
    let sh ← resolveOrDie res n
    recur st sh.rows
  else step res st r

/-- `_process_content_index_table`, rows top to bottom; `fuel` bounds the nesting depth
(Python: the interpreter's recursion limit) -/
def processTable (res : Resolve) (pats : Dict Int (List Str)) : Nat → St → List IndexRow → Except Err St
  | 0, st, rows => rows.foldlM (rowStep res pats (fun _ _ => throw .recursion)) st
  | fuel + 1, st, rows => rows.foldlM (rowStep res pats (processTable res pats fuel)) st

/-- `_populate_missing_templates` -/
def populateMissing (res : Resolve) (st : St) : Except Err St :=
  st.flowRows.foldlM (fun st r => addTemplate res st r false) st

/-- `ContentIndexParser.__init__`: every workbook's `content_index`, in workbook order -/
def processAll (rd : List Workbook) (pats : Dict Int (List Str)) (fuel : Nat) : Except Err St := do
  let res : Resolve := getSheetOrDie rd
  let indices := getSheetsByName rd indexSheetName
  let st0 : St := if indices = [] then { errors := 1 } else {}
  let st ← indices.foldlM (fun st sh => processTable res pats fuel st sh.rows) st0
  populateMissing res st

/-! ### outputs -/

structure FlowOut where
  name : Str
  tpl : Template
  dataRow : Option DataOps.Payload
deriving DecidableEq, Repr

def sepDash : Str := str " - "

/-- the (name, flow) pairs one stored flow row contributes, in order (`parse_all_flows` body) -/
def expandFlowRow (st : St) (r : IndexRow) : Except Err (List (Str × FlowOut)) := do
  let n ← firstName r
  let base := if r.newName ≠ [] then r.newName else n
  let tpl ← match st.templates.get n with
    | some t => pure t
    | none => throw (Err.keyError n)
  if r.dataSheet ≠ [] ∧ r.dataRowId = [] then
    match st.data.data.get r.dataSheet with
    | none => throw (.keyError r.dataSheet)
    | some rows =>
      pure (rows.map (fun ip =>
        let nm := base ++ sepDash ++ ip.1
        (nm, { name := nm, tpl := tpl, dataRow := some ip.2 })))
  else if r.dataSheet = [] ∧ r.dataRowId ≠ [] then pure []     -- CRITICAL, no flow
  else if r.dataSheet ≠ [] then
    match st.data.data.get r.dataSheet with
    | none => throw (.keyError r.dataSheet)
    | some rows =>
      match rows.get r.dataRowId with
      | none => throw (.keyError r.dataRowId)
      | some p =>
        let nm := base ++ sepDash ++ r.dataRowId
        pure [(nm, { name := nm, tpl := tpl, dataRow := some p })]
  else pure [(base, { name := base, tpl := tpl, dataRow := none })]

/-- `parse_all_flows`: `flows[flow.name] = flow` for every produced flow, then the dict's values -/
def parseAllFlows (st : St) : Except Err (Dict Str FlowOut) := do
  let parts ← st.flowRows.mapM (expandFlowRow st)
  pure (Dict.ofList parts.flatten)

/-- CRITICAL records of `parse_all_flows` ("if data_row_id is provided, data_sheet must also be") -/
def parseCrit (st : St) : Nat :=
  (st.flowRows.filter (fun r => r.dataSheet = [] ∧ r.dataRowId ≠ [])).length

/-- `parse_all_campaigns`: (name, group, provenance) in registry order -/
def allCampaigns (st : St) : List (Str × Campaign) := st.campaigns

/-- `parse_all_triggers`: provenance of each trigger sheet in registry order -/
def allTriggers (st : St) : List (Str × Nat) := st.triggers

/-! ### reading the raw cells of an index row

`SheetParser.parse_all` hands every row of the index to `RowParser(ContentIndexRowModel,
CellParser())`: a `str` field is `parse_as_string(cell)` = `str(cell).strip()`, a `List[str]`
field is `parse(cell)` = `split_into_lists(cell.strip())` (pieces between `;`, each stripped and
unescaped; a blank cell is `[]`, a cell without `;` the one-entry list).  What the processing
compares (`row.status == "draft"`, `row.type == …`, the names) is this TEXT of the cell, never
the raw content: surrounding whitespace of any kind `str.strip()` removes does not count. -/

/-- the cells of an index row as the sheet holds them -/
structure RawIndexRow where
  ty : Str := []
  sheetName : Str := []        -- the `sheet_name` cell
  newName : Str := []
  dataSheet : Str := []
  dataRowId : Str := []
  group : Str := []
  status : Str := []
  tags : List Str := []        -- the `tags.1`, `tags.2`, … cells
  tplArgs : Nat := 0
deriving DecidableEq, Repr

/-- `parse_as_string` of a cell without templates -/
def cellText (s : Str) : Str := strip pyWs s

/-- the value of a `List[str]` field (`assign_value`, `is_list_type` branch); a piece that is itself
a list (a cell with `|`, never shipped by the harness) is read as its `;`-joined text -/
def namesOfCell : Cell.Cell → List Str
  | .atom t => if t = [] then [] else [t]
  | .list es => es.map (fun e => match e with
      | .atom t => t
      | .list xs => joinWith [Cell.sep1] xs)

/-- `parse(cell)` for a `List[str]` field -/
def cellNames (s : Str) : List Str := namesOfCell (Cell.splitIntoLists pyWs (strip pyWs s))

/-- the parsed row of the raw cells -/
def RawIndexRow.read (r : RawIndexRow) : IndexRow :=
  { ty := cellText r.ty, sheetNames := cellNames r.sheetName, newName := cellText r.newName,
    dataSheet := cellText r.dataSheet, dataRowId := cellText r.dataRowId, group := cellText r.group,
    status := cellText r.status, tags := r.tags.map cellText, tplArgs := r.tplArgs }

end Rpft.Index
