import Rpft.Drv.Json
import Rpft.Cell
namespace Rpft.Drv.CellD
open Rpft.Drv
open Lean Rpft Rpft.Cell

def elemJ : Elem → Json
  | .atom s => strJ s
  | .list xs => strListJ xs

def cellJ : Cell → Json
  | .atom s => strJ s
  | .list es => Json.arr (es.map elemJ).toArray

def elemOfJ (j : Json) : Except String Elem :=
  match j with
  | Json.str s => pure (.atom s.toList)
  | Json.arr a => do let xs ← a.toList.mapM asStr; pure (.list xs)
  | _ => throw "elem"

def cellOfJ (j : Json) : Except String Cell :=
  match j with
  | Json.str s => pure (.atom s.toList)
  | Json.arr a => do let es ← a.toList.mapM elemOfJ; pure (.list es)
  | _ => throw "cell"

partial def nestedOfJ (j : Json) : Except String Nested :=
  match j with
  | Json.str s => pure (.str s.toList)
  | Json.arr a => do let xs ← a.toList.mapM nestedOfJ; pure (.list xs)
  | _ => throw "nested"

def splitSepJ : Sum Str (List Str) → Json
  | .inl s => strJ s
  | .inr xs => strListJ xs

def sepOf (j : Json) : Except String Char := do
  let s ← getStr j "sep"
  match s with
  | [c] => pure c
  | _ => throw "sep"

/-- all string-level cell operations on one input, in one answer -/
def cellAll (s : Str) : Json :=
  Json.mkObj [
    ("esc", strJ (escapeString s)),
    ("cleanse", strJ (cleanseStr pyWs s)),
    ("sp0", splitSepJ (splitBySeparator sep0 s)),
    ("sp1", splitSepJ (splitBySeparator sep1 s)),
    ("split", cellJ (splitIntoLists pyWs s))]

def handleCell (op : String) (j : Json) : Except String Json := do
  match op with
  | "cell.all" => do let s ← getStr j "s"; pure (cellAll s)
  | "cell.escape" => do let s ← getStr j "s"; pure (strJ (escapeString s))
  | "cell.cleanse" => do let s ← getStr j "s"; pure (strJ (cleanseStr pyWs s))
  | "cell.splitsep" => do
      let s ← getStr j "s"; let c ← sepOf j
      pure (splitSepJ (splitBySeparator c s))
  | "cell.split" => do let s ← getStr j "s"; pure (cellJ (splitIntoLists pyWs s))
  | "cell.join" => do
      let v ← j.getObjVal? "v"
      let c ← cellOfJ v
      pure (strJ (joinCell c))
  | "cell.joinrt" => do
      -- join, then split again: the round trip on the model side
      let v ← j.getObjVal? "v"
      let c ← cellOfJ v
      let t := joinCell c
      pure (Json.mkObj [("joined", strJ t), ("back", cellJ (splitIntoLists pyWs t))])
  | "cell.joinnested" => do
      let v ← j.getObjVal? "v"
      let n ← nestedOfJ v
      match joinNested 0 n with
      | .ok s => pure (Json.mkObj [("ok", strJ s)])
      | .error _ => pure (Json.mkObj [("err", Json.str "tooDeep")])
  | "str.strip" => do let s ← getStr j "s"; pure (strJ (strip pyWs s))
  | _ => throw s!"unknown op {op}"

end Rpft.Drv.CellD
