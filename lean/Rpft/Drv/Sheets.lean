import Rpft.Drv.Json
import Rpft.Sheets
namespace Rpft.Drv.SheetsD
open Rpft.Drv
open Lean Rpft Rpft.Sheets

def errJ (e : SErr) : Json :=
  Json.mkObj [("err", Json.str (match e with
    | .invalidDimensions => "invalidDimensions"
    | .noHeaders => "noHeaders"
    | .allNoneHeaders => "allNoneHeaders"))]

def gridJ (rows : List (List Str)) : Json := Json.arr (rows.map strListJ).toArray

def sheetJ (s : Sheet) : Json :=
  Json.mkObj [("ok", Json.mkObj [("headers", strListJ s.headers), ("rows", gridJ s.rows)])]

def exceptSheetJ : Except SErr Sheet → Json
  | .ok s => sheetJ s
  | .error e => errJ e

def xtableJ : Except SErr XTable → Json
  | .ok t => Json.mkObj [("ok", Json.mkObj [
      ("headers", Json.arr (t.headers.map optStrJ).toArray), ("rows", gridJ t.rows)])]
  | .error e => errJ e

/-- cell: null | "text" | {"int": n} | {"bool": b} | {"other": "str() of the value"} -/
def xvalOfJ (j : Json) : Except String XVal :=
  match j with
  | Json.null => pure .none
  | Json.str s => pure (.str s.toList)
  | _ =>
    match j.getObjVal? "int" with
    | .ok v => do let i ← v.getInt?; pure (.int i)
    | .error _ =>
      match j.getObjVal? "bool" with
      | .ok (Json.bool b) => pure (.bool b)
      | _ => do
        let v ← j.getObjVal? "other"
        let s ← v.getStr?
        pure (.other s.toList)

def gridOfJ (j : Json) : Except String (List (List Str)) := do
  let a ← j.getArr?
  a.toList.mapM asStrList

def xgridOfJ (j : Json) : Except String XGrid := do
  let hj ← j.getObjVal? "headers"
  let hs ← match hj with
    | Json.null => pure none
    | _ => do
      let a ← hj.getArr?
      let l ← a.toList.mapM asOptStr
      pure (some l)
  let ra ← getArr j "rows"
  let rows ← ra.toList.mapM (fun r => do let a ← r.getArr?; a.toList.mapM xvalOfJ)
  pure ⟨hs, rows⟩

def pairJ (p : Str × Str) : Json := Json.arr #[strJ p.1, strJ p.2]

def jcontentJ : JContent → Json
  | .objs rows => Json.mkObj [("objs", Json.arr (rows.map (fun r => Json.arr (r.map pairJ).toArray)).toArray)]
  | .lists rows => Json.mkObj [("lists", gridJ rows)]

def pairOfJ (j : Json) : Except String (Str × Str) := do
  let a ← j.getArr?
  match a.toList with
  | [k, v] => do let k ← asStr k; let v ← asStr v; pure (k, v)
  | _ => throw "pair"

def jcontentOfJ (j : Json) : Except String JContent :=
  match j.getObjVal? "objs" with
  | .ok o => do
    let a ← o.getArr?
    let rows ← a.toList.mapM (fun r => do let ps ← r.getArr?; ps.toList.mapM pairOfJ)
    pure (.objs rows)
  | .error _ => do
    let l ← j.getObjVal? "lists"
    let rows ← gridOfJ l
    pure (.lists rows)

def sheetOfJ (j : Json) : Except String Sheet := do
  let name := getStrD j "name" []
  let hj ← j.getObjVal? "headers"
  let hs ← asStrList hj
  let rj ← j.getObjVal? "rows"
  let rows ← gridOfJ rj
  pure ⟨name, hs, rows⟩

def handleSheets (op : String) (j : Json) : Except String Json := do
  match op with
  | "sheets.sanitize" => do let g ← xgridOfJ j; pure (xtableJ (xlsxSanitize g))
  | "sheets.tojson" => do let s ← sheetOfJ j; pure (jcontentJ (toJson s))
  | "sheets.readjson" => do
      let c ← j.getObjVal? "content"
      let c ← jcontentOfJ c
      pure (exceptSheetJ (readJsonSheet [] c))
  | "sheets.readcsv" => do
      let r ← j.getObjVal? "records"
      let r ← gridOfJ r
      pure (exceptSheetJ (readCsvSheet [] r))
  | "sheets.all" => do
      -- one sheet through every modelled path
      let s ← sheetOfJ j
      pure (Json.mkObj [
        ("tojson", jcontentJ (toJson s)),
        -- what `convert` writes for the sheet: `to_json` of what the source's reader delivered
        ("convert", jcontentJ (toJson s.omitEmpty)),
        ("json", exceptSheetJ (readJsonSheet s.name (toJson s))),
        ("xlsx", xtableJ (xlsxSanitize (toXlsxGrid s))),
        ("csv", exceptSheetJ (readCsvSheet s.name (toCsvRecords s)))])
  | _ => throw s!"unknown op {op}"

end Rpft.Drv.SheetsD
