import Rpft.Drv.Json
import Rpft.Drv.Sheets
import Rpft.Csv
import Rpft.Sheets
namespace Rpft.Drv.CsvD
open Rpft.Drv
open Lean Rpft Rpft.Csv Rpft.Sheets

def csvErrName : CsvErr → String
  | .fieldLimit => "fieldLimit"
  | .newlineInUnquoted => "newlineInUnquoted"
  | .decode => "decode"

def recordsJ (rows : List (List Str)) : Json := Json.arr (rows.map strListJ).toArray

def parsedJ : Except CsvErr (List (List Str)) → Json
  | .ok rs => Json.mkObj [("ok", recordsJ rs)]
  | .error e => Json.mkObj [("err", Json.str (csvErrName e))]

def loadedJ : Except LoadErr Sheet → Json
  | .ok s => SheetsD.sheetJ s
  | .error (.csv e) => Json.mkObj [("err", Json.str (csvErrName e))]
  | .error (.sheet e) => SheetsD.errJ e

def bytesJ (b : ByteArray) : Json := Json.arr (b.toList.map (fun x => Json.num (x.toNat : Nat))).toArray

def bytesOfJ (j : Json) : Except String ByteArray := do
  let a ← j.getArr?
  let l ← a.toList.mapM (fun x => do let n ← x.getNat?; pure (UInt8.ofNat n))
  pure (ByteArray.mk l.toArray)

def handleCsv (op : String) (j : Json) : Except String Json := do
  match op with
  | "csv.write" => do
      -- records through `csv.writer(lineterminator=lt, quoting=QUOTE_ALL|QUOTE_MINIMAL)`
      let r ← j.getObjVal? "records"
      let r ← SheetsD.gridOfJ r
      let lt := getStrD j "lt" crlf
      let qa := getBoolD j "quote_all" false
      pure (strJ (writeRows lt qa r))
  | "csv.rdsexport" => do
      -- the text of `RowDataSheet.export(…, "csv")` for the records (header record first)
      let r ← j.getObjVal? "records"
      let r ← SheetsD.gridOfJ r
      pure (strJ (rdsExportCsv r))
  | "csv.read" => do
      -- text of a file opened with newline="" through `csv.reader`
      let t ← getStr j "text"
      let limit := match getNat j "limit" with | .ok n => n | .error _ => fieldLimit
      pure (parsedJ (parseCsvWith limit t))
  | "csv.lines" => do
      let t ← getStr j "text"
      pure (strListJ (splitLines t))
  | "csv.export" => do
      -- `table.export("csv")` of a sheet, and its UTF-8 bytes
      let s ← SheetsD.sheetOfJ j
      pure (strJ (exportCsv s))
  | "csv.load" => do
      -- `load_csv` on the bytes of a file
      let b ← j.getObjVal? "bytes"
      let b ← bytesOfJ b
      pure (loadedJ (loadCsv [] b))
  | "csv.loadtext" => do
      let t ← getStr j "text"
      pure (loadedJ (loadCsvText [] t))
  | "csv.utf8enc" => do
      let t ← getStr j "text"
      pure (bytesJ (encodeUtf8 t))
  | "csv.utf8dec" => do
      let b ← j.getObjVal? "bytes"
      let b ← bytesOfJ b
      pure (match decodeUtf8 b with | some t => strJ t | none => Json.null)
  | _ => throw s!"unknown op {op}"

end Rpft.Drv.CsvD
