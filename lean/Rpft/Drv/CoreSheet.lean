import Rpft.Drv.Json
import Rpft.Drv.Compile
import Rpft.Drv.Flow
import Rpft.CoreSheet
namespace Rpft.Drv.CoreSheetD
open Rpft.Drv
open Lean Rpft Rpft.CoreSheet

/-- which fields of the reference row the Lean view `toRRow` computes differently from the harness -/
def diffFields (a b : RefFlow.RRow) : List String :=
  (if a.rowId = b.rowId then [] else ["row_id"]) ++ (if a.kind = b.kind then [] else ["kind"]) ++
  (if a.edges = b.edges then [] else ["edges"]) ++ (if a.act = b.act then [] else ["act"]) ++
  (if a.operand = b.operand then [] else ["operand"]) ++ (if a.saveName = b.saveName then [] else ["save_name"]) ++
  (if a.timeout = b.timeout then [] else ["timeout"]) ++ (if a.dests = b.dests then [] else ["dests"])

def handleCore (op : String) (j : Json) : Except String Json := do
  match op with
  | "core.views" => do
    -- per row: the compiler's view (`row_json`) and the reference view (`reference_row`) the harness
    -- built from ONE parsed row; the Lean views `toEvent` / `toRRow` of the CRow must be these
    let items ← getArr j "rows"
    let pairs ← items.toList.mapM fun it => do
      let row ← CompileD.rowOfJ (← it.getObjVal? "row")
      let ref ← FlowD.rrowOfJ (← it.getObjVal? "ref")
      pure (({ row := row, refAct := ref.act } : CRow), ref)
    let crows := pairs.map (·.1)
    let mism := pairs.zipIdx.filterMap fun ((c, ref), i) =>
      let d := diffFields (toRRow c) ref
      if d.isEmpty then none
      else some (Json.mkObj [("row", Json.num i), ("fields", Json.arr (d.map Json.str).toArray)])
    pure (Json.mkObj [("agree", Json.bool mism.isEmpty), ("mismatch", Json.arr mism.toArray),
      ("inFragment", Json.bool (inFragment crows))])
  | _ => throw s!"unknown op {op}"

end Rpft.Drv.CoreSheetD
