import Rpft.Drv.Json
import Rpft.Drv.Cell
import Rpft.Template
namespace Rpft.Drv.TemplateD
open Lean Rpft Rpft.Cell Rpft.Template Rpft.Drv Rpft.Drv.CellD

/-- values: `"s"` | `[v, …]` | `{"rec": [[k, v], …]}` (key order kept) -/
partial def tValOfJ (j : Json) : Except String Val :=
  match j with
  | Json.str s => pure (.str s.toList)
  | Json.arr a => do let xs ← a.toList.mapM tValOfJ; pure (.list xs)
  | Json.obj _ => do
      let fs ← getArr j "rec"
      let kvs ← fs.toList.mapM fun kv => do
        let a ← kv.getArr?
        match a.toList with
        | [k, v] => do let ks ← asStr k; let vv ← tValOfJ v; pure (ks, vv)
        | _ => throw "rec entry"
      pure (.record kvs)
  | _ => throw "val"

partial def tValJ : Val → Json
  | .str s => strJ s
  | .list xs => Json.arr (xs.map tValJ).toArray
  | .record fs => Json.mkObj [("rec", Json.arr (fs.map fun kv => Json.arr #[strJ kv.1, tValJ kv.2]).toArray)]

def tCtxOfJ (j : Json) : Except String (Option Ctx) :=
  match j with
  | Json.null => pure none
  | Json.arr a => do
      let kvs ← a.toList.mapM fun kv => do
        let x ← kv.getArr?
        match x.toList with
        | [k, v] => do let ks ← asStr k; let vv ← tValOfJ v; pure (ks, vv)
        | _ => throw "ctx entry"
      pure (some kvs)
  | _ => throw "ctx"

def tSegOfJ (j : Json) : Except String Seg := do
  let a ← j.getArr?
  match a.toList with
  | [Json.str "f", n] => do let s ← asStr n; pure (.fld s)
  | [Json.str "k", n] => do let s ← asStr n; pure (.key s)
  | [Json.str "i", n] => do let i ← n.getNat?; pure (.idx i)
  | _ => throw "seg"

def tPathOfJ (j : Json) : Except String Path := do
  let r ← getStr j "root"
  let ss ← getArr j "segs"
  let segs ← ss.toList.mapM tSegOfJ
  pure ⟨r, segs⟩

def tSeqOf : List Tmpl → Tmpl
  | [] => .lit []
  | [t] => t
  | t :: ts => .seq t (tSeqOf ts)

partial def tmplOfJ (j : Json) : Except String Tmpl := do
  if let .ok s := getStr j "lit" then return .lit s
  if let .ok p := j.getObjVal? "var" then return .var (← tPathOfJ p)
  if let .ok p := j.getObjVal? "esc" then return .escVar (← tPathOfJ p)
  if let .ok a := getArr j "seq" then
    let ts ← a.toList.mapM tmplOfJ
    return tSeqOf ts
  if let .ok f := j.getObjVal? "for" then
    let v ← getStr f "v"
    let p ← tPathOfJ (← f.getObjVal? "p")
    let b ← tmplOfJ (← f.getObjVal? "body")
    return .forJoin v p b
  if let .ok f := j.getObjVal? "if" then
    let c ← getStr f "c"
    let p ← tPathOfJ (← f.getObjVal? "p")
    let b ← tmplOfJ (← f.getObjVal? "body")
    return .ifEq p c b
  throw "tmpl"

def srcOfJ (j : Json) : Except String Src := do
  if let .ok t := j.getObjVal? "text" then return .text (← tmplOfJ t)
  if let .ok n := j.getObjVal? "nat" then
    let l ← getStr n "l"
    let r ← getStr n "r"
    let p ← tPathOfJ (← n.getObjVal? "p")
    return .nat l p r
  if let .ok a := getArr j "nat2" then
    match a.toList with
    | [p, q] => return .nat2 (← tPathOfJ p) (← tPathOfJ q)
    | _ => throw "nat2"
  throw "src"

def tPolOfJ (j : Json) (k : String) : Except String Policy := do
  let s ← getStr j k
  if s = "strict".toList then pure .strict
  else if s = "lenient".toList then pure .lenient
  else throw "policy"

def tConfOfJ (j : Json) : Except String Conf :=
  match j.getObjVal? "cf" with
  | .error _ => pure Conf.repo
  | .ok c => do
    let t ← tPolOfJ c "text"
    let n ← tPolOfJ c "nat"
    pure ⟨t, n, getBoolD c "check" true⟩

def tErrJ : Err → Json
  | .undefined p => Json.mkObj [("error", Json.str "undefined"), ("path", strJ p.show)]
  | .filterType p => Json.mkObj [("error", Json.str "filterType"), ("path", strJ p.show)]
  | .nestedNative => Json.mkObj [("error", Json.str "nestedNative")]

def tOutJ : Out → Json
  | .text s => Json.mkObj [("text", strJ s)]
  | .value v => Json.mkObj [("value", tValJ v)]
  | .undefinedObject => Json.mkObj [("undefined_object", Json.bool true)]

def tParsedJ : Parsed → Json
  | .cell c => Json.mkObj [("cell", cellJ c)]
  | .value v => Json.mkObj [("value", tValJ v)]
  | .undefinedObject => Json.mkObj [("undefined_object", Json.bool true)]

def handleTemplate (op : String) (j : Json) : Except String Json := do
  match op with
  | "template.render" => do
      let cf ← tConfOfJ j
      let ctx ← tCtxOfJ (← j.getObjVal? "ctx")
      let value ← getStr j "value"
      let ast ← srcOfJ (← j.getObjVal? "ast")
      let stripped := strip pyWs value
      -- the structure handed over must be a reading of the text (the harness prints it itself)
      if ast.show ≠ stripped then
        throw s!"ast does not print as the stripped cell: {String.ofList ast.show} vs {String.ofList stripped}"
      let isNat := match ast with | .text _ => false | _ => true
      if isNativeCell stripped ≠ isNat then throw "native detection and ast disagree"
      let fn := getStrD j "fn" "pas".toList
      if fn = "parse".toList then
        match parse cf ctx value ast with
        | .ok r => pure (tParsedJ r)
        | .error e => pure (tErrJ e)
      else
        match parseAsString cf ctx value ast with
        | .ok r => pure (tOutJ r)
        | .error e => pure (tErrJ e)
  | "template.show" => do
      let ast ← srcOfJ (← j.getObjVal? "ast")
      pure (strJ ast.show)
  | _ => throw s!"unknown op {op}"

end Rpft.Drv.TemplateD
