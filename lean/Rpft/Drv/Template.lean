import Rpft.Drv.Json
import Rpft.Drv.Cell
import Rpft.Template
namespace Rpft.Drv.TemplateD
open Lean Rpft Rpft.Cell Rpft.Template Rpft.Drv Rpft.Drv.CellD

/-- values: `"s"` | `[v, …]` | `{"rec": [[k, v], …]}` (key order kept) -/
partial def tValOfJ (j : Json) : Except String Val :=
  match j with
  | Json.str s => pure (.str s.toList)
  | Json.arr a => do let xs ← a.toList.mapM tValOfJ; pure (.list xs)
  | Json.obj _ => do
      let fs ← getArr j "rec"
      let kvs ← fs.toList.mapM fun kv => do
        let a ← kv.getArr?
        match a.toList with
        | [k, v] => do let ks ← asStr k; let vv ← tValOfJ v; pure (ks, vv)
        | _ => throw "rec entry"
      pure (.record kvs)
  | _ => throw "val"

partial def tValJ : Val → Json
  | .str s => strJ s
  | .list xs => Json.arr (xs.map tValJ).toArray
  | .record fs => Json.mkObj [("rec", Json.arr (fs.map fun kv => Json.arr #[strJ kv.1, tValJ kv.2]).toArray)]

def tCtxOfJ (j : Json) : Except String (Option Ctx) :=
  match j with
  | Json.null => pure none
  | Json.arr a => do
      let kvs ← a.toList.mapM fun kv => do
        let x ← kv.getArr?
        match x.toList with
        | [k, v] => do let ks ← asStr k; let vv ← tValOfJ v; pure (ks, vv)
        | _ => throw "ctx entry"
      pure (some kvs)
  | _ => throw "ctx"

def tSegOfJ (j : Json) : Except String Seg := do
  let a ← j.getArr?
  match a.toList with
  | [Json.str "f", n] => do let s ← asStr n; pure (.fld s)
  | [Json.str "k", n] => do let s ← asStr n; pure (.key s)
  | [Json.str "i", n] => do let i ← n.getNat?; pure (.idx i)
  | _ => throw "seg"

def tPathOfJ (j : Json) : Except String Path := do
  let r ← getStr j "root"
  let ss ← getArr j "segs"
  let segs ← ss.toList.mapM tSegOfJ
  pure ⟨r, segs⟩

def tKindOfJ (s : Str) : Except String CKind :=
  if s = "list".toList then pure .list
  else if s = "tuple".toList then pure .tuple
  else if s = "dict".toList then pure .dict
  else if s = "dictcall".toList then pure .dictCall
  else throw "container kind"

/-- expressions: `{"ref": path}` | `{"dflt": {"x": "name", "d": "…"}}` |
`{"coll": {"k": "list|tuple|dict|dictcall", "items": [[key, expr], …]}}` (keys of a dict form
must be distinct: Python keeps the LAST value of a repeated key) -/
partial def exprOfJ (j : Json) : Except String Expr := do
  if let .ok p := j.getObjVal? "ref" then return .ref (← tPathOfJ p)
  if let .ok d := j.getObjVal? "dflt" then
    return .dflt (← getStr d "x") (← getStr d "d")
  if let .ok c := j.getObjVal? "coll" then
    let k ← tKindOfJ (← getStr c "k")
    let its ← getArr c "items"
    let items ← its.toList.mapM fun kv => do
      let a ← kv.getArr?
      match a.toList with
      | [key, e] => do let ks ← asStr key; let ee ← exprOfJ e; pure (ks, ee)
      | _ => throw "coll item"
    let keys := items.map Prod.fst
    if (k = .dict ∨ k = .dictCall) ∧ keys.eraseDups.length ≠ keys.length then
      throw "repeated dict key: outside the fragment"
    return .coll k items
  throw "expr"

/-- consumer expressions: the forms of `exprOfJ` plus `{"len": e}` | `{"first": e}` | `{"last": e}` |
`{"index": {"e": e, "i": n}}` | `{"join": {"e": e, "sep": "…"}}` -/
partial def cexprOfJ (j : Json) : Except String CExpr := do
  if let .ok p := j.getObjVal? "ref" then return .ref (← tPathOfJ p)
  if let .ok d := j.getObjVal? "dflt" then
    return .dflt (← getStr d "x") (← getStr d "d")
  if let .ok c := j.getObjVal? "coll" then
    let k ← tKindOfJ (← getStr c "k")
    let its ← getArr c "items"
    let items ← its.toList.mapM fun kv => do
      let a ← kv.getArr?
      match a.toList with
      | [key, e] => do let ks ← asStr key; let ee ← cexprOfJ e; pure (ks, ee)
      | _ => throw "coll item"
    let keys := items.map Prod.fst
    if (k = .dict ∨ k = .dictCall) ∧ keys.eraseDups.length ≠ keys.length then
      throw "repeated dict key: outside the fragment"
    return .coll k items
  if let .ok e := j.getObjVal? "len" then return .len (← cexprOfJ e)
  if let .ok e := j.getObjVal? "first" then return .first (← cexprOfJ e)
  if let .ok e := j.getObjVal? "last" then return .last (← cexprOfJ e)
  if let .ok x := j.getObjVal? "index" then
    return .index (← cexprOfJ (← x.getObjVal? "e")) (← (← x.getObjVal? "i").getNat?)
  if let .ok x := j.getObjVal? "join" then
    return .join (← getStr x "sep") (← cexprOfJ (← x.getObjVal? "e"))
  throw "cexpr"

partial def tPValJ : PVal → Json
  | .num n => Json.num n
  | .val v => tValJ v
  | .undef p => Json.mkObj [("undef", strJ p.show)]
  | .coll .list items => Json.arr (items.map fun kv => tPValJ kv.2).toArray
  | .coll .tuple items => Json.mkObj [("tuple", Json.arr (items.map fun kv => tPValJ kv.2).toArray)]
  | .coll _ items => Json.mkObj [("rec", Json.arr (items.map fun kv => Json.arr #[strJ kv.1, tPValJ kv.2]).toArray)]

def tSeqOf : List Tmpl → Tmpl
  | [] => .lit []
  | [t] => t
  | t :: ts => .seq t (tSeqOf ts)

partial def tmplOfJ (j : Json) : Except String Tmpl := do
  if let .ok s := getStr j "lit" then return .lit s
  if let .ok p := j.getObjVal? "var" then return .var (← tPathOfJ p)
  if let .ok p := j.getObjVal? "esc" then return .escVar (← tPathOfJ p)
  if let .ok x := j.getObjVal? "expr" then
    let e ← exprOfJ (← x.getObjVal? "e")
    match x.getObjVal? "cat" with
    | .ok Json.null => return .expr e none
    | .ok f => return .expr e (some (← exprOfJ f))
    | .error _ => return .expr e none
  if let .ok a := getArr j "seq" then
    let ts ← a.toList.mapM tmplOfJ
    return tSeqOf ts
  if let .ok f := j.getObjVal? "for" then
    let v ← getStr f "v"
    let p ← tPathOfJ (← f.getObjVal? "p")
    let b ← tmplOfJ (← f.getObjVal? "body")
    return .forJoin v p b
  if let .ok f := j.getObjVal? "if" then
    let c ← getStr f "c"
    let p ← tPathOfJ (← f.getObjVal? "p")
    let b ← tmplOfJ (← f.getObjVal? "body")
    return .ifEq p c b
  throw "tmpl"

def srcOfJ (j : Json) : Except String Src := do
  if let .ok t := j.getObjVal? "text" then return .text (← tmplOfJ t)
  if let .ok n := j.getObjVal? "nat" then
    let l ← getStr n "l"
    let r ← getStr n "r"
    let p ← tPathOfJ (← n.getObjVal? "p")
    return .nat l p r
  if let .ok n := j.getObjVal? "natE" then
    let l ← getStr n "l"
    let r ← getStr n "r"
    return .natE l (← exprOfJ (← n.getObjVal? "e")) r
  if let .ok x := j.getObjVal? "textC" then
    let e ← cexprOfJ (← x.getObjVal? "e")
    match x.getObjVal? "cat" with
    | .ok Json.null => return .textC e none
    | .ok f => return .textC e (some (← cexprOfJ f))
    | .error _ => return .textC e none
  if let .ok n := j.getObjVal? "natC" then
    let l ← getStr n "l"
    let r ← getStr n "r"
    return .natC l (← cexprOfJ (← n.getObjVal? "e")) r
  if let .ok a := getArr j "nat2" then
    match a.toList with
    | [p, q] => return .nat2 (← tPathOfJ p) (← tPathOfJ q)
    | _ => throw "nat2"
  throw "src"

def tPolOfJ (j : Json) (k : String) : Except String Policy := do
  let s ← getStr j k
  if s = "strict".toList then pure .strict
  else if s = "strictShallow".toList then pure .strictShallow
  else if s = "lenient".toList then pure .lenient
  else throw "policy"

def tConfOfJ (j : Json) : Except String Conf :=
  match j.getObjVal? "cf" with
  | .error _ => pure Conf.repo
  | .ok c => do
    let t ← tPolOfJ c "text"
    let n ← tPolOfJ c "nat"
    pure ⟨t, n, getBoolD c "check" true, getBoolD c "deep" true⟩

def tErrJ : Err → Json
  | .undefined p => Json.mkObj [("error", Json.str "undefined"), ("path", strJ p.show)]
  | .filterType p => Json.mkObj [("error", Json.str "filterType"), ("path", strJ p.show)]
  | .nestedNative => Json.mkObj [("error", Json.str "nestedNative")]
  | .noElement => Json.mkObj [("error", Json.str "noElement")]
  | .badOperand => Json.mkObj [("error", Json.str "badOperand")]

/-- the Lean predicates of F-C16-d's trigger for a consumer cell: `names` = some bare reference
is undefined, `used` = `UsedUndef`, `off` = a consumer left the fragment -/
def tFlags (ctx : Option Ctx) (ast : Src) : List (String × Json) :=
  match ctx, ast with
  | some c, .textC e cat =>
    let f := cat.getD (.coll .list [])
    [("names", Json.bool (NamesUndef c e || NamesUndef c f)),
     ("used", Json.bool (UsedUndef c e || UsedUndef c f)),
     ("off", Json.bool (OffFragment c e || OffFragment c f))]
  | some c, .natC _ e _ =>
    [("names", Json.bool (NamesUndef c e)), ("used", Json.bool (UsedUndef c e)),
     ("off", Json.bool (OffFragment c e))]
  | _, _ => []

def withFlags (j : Json) (fl : List (String × Json)) : Json :=
  match fl with
  | [] => j
  | _ => j.mergeObj (Json.mkObj fl)

def tOutJ : Out → Json
  | .text s => Json.mkObj [("text", strJ s)]
  | .value v => Json.mkObj [("value", tValJ v)]
  | .undefinedObject => Json.mkObj [("undefined_object", Json.bool true)]
  | .pvalue v => Json.mkObj [("value", tPValJ v)]
  | .holdsUndefined => Json.mkObj [("holds_undefined", Json.bool true)]

def tParsedJ : Parsed → Json
  | .cell c => Json.mkObj [("cell", cellJ c)]
  | .value v => Json.mkObj [("value", tValJ v)]
  | .undefinedObject => Json.mkObj [("undefined_object", Json.bool true)]
  | .pvalue v => Json.mkObj [("value", tPValJ v)]
  | .holdsUndefined => Json.mkObj [("holds_undefined", Json.bool true)]

def handleTemplate (op : String) (j : Json) : Except String Json := do
  match op with
  | "template.render" => do
      let cf ← tConfOfJ j
      let ctx ← tCtxOfJ (← j.getObjVal? "ctx")
      let value ← getStr j "value"
      let ast ← srcOfJ (← j.getObjVal? "ast")
      let stripped := strip pyWs value
      -- the structure handed over must be a reading of the text (the harness prints it itself)
      if ast.show ≠ stripped then
        throw s!"ast does not print as the stripped cell: {String.ofList ast.show} vs {String.ofList stripped}"
      let isNat := match ast with | .text _ => false | .textC _ _ => false | _ => true
      if isNativeCell stripped ≠ isNat then throw "native detection and ast disagree"
      let fn := getStrD j "fn" "pas".toList
      if fn = "parse".toList then
        match parse cf ctx value ast with
        | .ok r => pure (withFlags (tParsedJ r) (tFlags ctx ast))
        | .error e => pure (withFlags (tErrJ e) (tFlags ctx ast))
      else
        match parseAsString cf ctx value ast with
        | .ok r => pure (withFlags (tOutJ r) (tFlags ctx ast))
        | .error e => pure (withFlags (tErrJ e) (tFlags ctx ast))
  | "template.show" => do
      let ast ← srcOfJ (← j.getObjVal? "ast")
      pure (strJ ast.show)
  | _ => throw s!"unknown op {op}"

end Rpft.Drv.TemplateD
