import Rpft.Drv.Json
import Rpft.Drv.DataOps
import Rpft.Index
namespace Rpft.Drv.IndexD
open Rpft.Drv Rpft.Drv.DataOpsD
open Lean Rpft Rpft.Index

def getStrListD (j : Json) (k : String) : List Str :=
  match j.getObjVal? k with
  | .ok v => match asStrList v with
    | .ok l => l
    | .error _ => []
  | .error _ => []

def indexRowOfJ (j : Json) : Except String IndexRow := do
  pure {
    ty := getStrD j "type" [],
    sheetNames := getStrListD j "sheet_name",
    newName := getStrD j "new_name" [],
    dataSheet := getStrD j "data_sheet" [],
    dataRowId := getStrD j "data_row_id" [],
    group := getStrD j "group" [],
    status := getStrD j "status" [],
    tags := getStrListD j "tags",
    tplArgs := match getNat j "tpl_args" with
      | .ok n => n
      | .error _ => 0 }

/-- a row given by its raw cells (`cells`: column → cell content, `tags`: the tag cells) is READ by the model -/
def rawIndexRowOfJ (c : Json) (j : Json) : IndexRow :=
  RawIndexRow.read {
    ty := getStrD c "type" [],
    sheetName := getStrD c "sheet_name" [],
    newName := getStrD c "new_name" [],
    dataSheet := getStrD c "data_sheet" [],
    dataRowId := getStrD c "data_row_id" [],
    group := getStrD c "group" [],
    status := getStrD c "status" [],
    tags := getStrListD c "tags",
    tplArgs := match getNat j "tpl_args" with
      | .ok n => n
      | .error _ => 0 }

def indexRowOfJ' (j : Json) : Except String IndexRow :=
  match j.getObjVal? "cells" with
  | .ok c => pure (rawIndexRowOfJ c j)
  | .error _ => indexRowOfJ j

def sheetOfJ (j : Json) : Except String (Str × Index.Sheet) := do
  let a ← j.getArr?
  match a.toList with
  | [n, body] => do
    let n ← asStr n
    let prov ← getNat body "prov"
    let rows ← match body.getObjVal? "rows" with
      | .ok v => do let a ← v.getArr?; a.toList.mapM indexRowOfJ'
      | .error _ => pure []
    let dat ← match body.getObjVal? "data" with
      | .ok v => do let a ← v.getArr?; a.toList.mapM rowOfJ
      | .error _ => pure []
    pure (n, { prov := prov, rows := rows, dataRows := dat })
  | _ => throw "sheet"

def workbookOfJ (j : Json) : Except String Workbook := do
  let a ← j.getArr?
  a.toList.mapM sheetOfJ

def indexErrJ : Index.Err → Json
  | .sheetNotFound n => Json.mkObj [("err", Json.str "sheetNotFound"), ("name", strJ n)]
  | .index => Json.mkObj [("err", Json.str "index")]
  | .recursion => Json.mkObj [("err", Json.str "recursion")]
  | .keyError n => Json.mkObj [("err", Json.str "keyError"), ("name", strJ n)]
  | .data e => errJ e

def natJ (n : Nat) : Json := Json.num n

def indexStJ (st : Index.St) (flows : Dict Str FlowOut) : Json :=
  Json.mkObj [
    ("flows", Json.arr (flows.map (fun nf => Json.arr #[strJ nf.1, natJ nf.2.tpl.prov, natJ nf.2.tpl.args,
        match nf.2.dataRow with
        | some p => natJ p
        | none => Json.null])).toArray),
    ("campaigns", Json.arr ((allCampaigns st).map (fun nc =>
        Json.arr #[strJ nc.1, strJ nc.2.group, natJ nc.2.prov])).toArray),
    ("triggers", Json.arr ((allTriggers st).map (fun nt => Json.arr #[strJ nt.1, natJ nt.2])).toArray),
    ("templates", Json.arr (st.templates.map (fun nt =>
        Json.arr #[strJ nt.1, natJ nt.2.prov, natJ nt.2.args])).toArray),
    ("data", Json.arr (st.data.data.map (fun ns => Json.arr #[strJ ns.1, sheetJ ns.2])).toArray),
    ("errors", natJ (st.errors + st.data.crit + parseCrit st))]

def handleIndex (op : String) (j : Json) : Except String Json := do
  match op with
  | "index.run" => do
      let wbs ← getArr j "workbooks"
      let rd ← wbs.toList.mapM workbookOfJ
      let tags := getStrListD j "tags"
      let fuel := match getNat j "fuel" with
        | .ok n => n
        | .error _ => 64
      match tagPatterns tags with
      | none => pure (Json.mkObj [("err", Json.str "tagValueError")])
      | some pats =>
        match processAll rd pats fuel with
        | .error e => pure (indexErrJ e)
        | .ok st =>
          match parseAllFlows st with
          | .error e => pure (Json.mkObj [("state", indexStJ st []), ("parse", indexErrJ e)])
          | .ok flows => pure (indexStJ st flows)
  | "index.tagmatch" => do
      let tags := getStrListD j "tags"
      let row := getStrListD j "row"
      match tagPatterns tags with
      | none => pure (Json.mkObj [("err", Json.str "tagValueError")])
      | some pats => pure (Json.bool (tagMatches pats row))
  | _ => throw s!"unknown op {op}"

end Rpft.Drv.IndexD
