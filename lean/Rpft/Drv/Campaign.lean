import Rpft.Drv.Json
import Rpft.Campaign
namespace Rpft.Drv.CampaignD
open Rpft.Drv
open Lean Rpft Rpft.Campaign

def uidJ : Uid → Json
  | .campaign c => Json.str s!"@campaign:{c}"
  | .event c i => Json.str s!"@event:{c}:{i}"
  | .flow none => Json.str "@flownone"
  | .flow (some n) => Json.str ("@flow:" ++ String.ofList n)
  | .group n => Json.str ("@group:" ++ String.ofList n)

partial def jJ : J → Json
  | .null => Json.null
  | .str s => strJ s
  | .int n => Json.num (JsonNumber.fromInt n)
  | .uid u => uidJ u
  | .arr xs => Json.arr (xs.map jJ).toArray
  | .obj kv => Json.mkObj (kv.map fun (k, v) => (k, jJ v))

def excJ : Exc → Json
  | .validation fs => Json.mkObj [("kind", "validation"), ("fields", strListJ fs)]
  | .keyError => Json.mkObj [("kind", "keyError")]
  | .valueError => Json.mkObj [("kind", "valueError")]
  | .keyTooLong => Json.mkObj [("kind", "keyTooLong")]
  | .keyNoLetter => Json.mkObj [("kind", "keyNoLetter")]
  | .undefinedFlow n => Json.mkObj [("kind", "undefinedFlow"), ("name", strJ n)]
  | .unsupported => Json.mkObj [("kind", "unsupported")]

def critName : Crit → String
  | .intOffset => "intOffset"
  | .msgNeedsText => "msgNeedsText"
  | .needsKeyword => "needsKeyword"
  | .needsFlow => "needsFlow"
  | .groupNeedsName => "groupNeedsName"

def critsJ (cs : List (Nat × Crit)) : Json :=
  Json.arr (cs.map fun (i, c) => Json.arr #[Json.num (JsonNumber.fromNat i), Json.str (critName c)]).toArray

/-- a `str` cell: `CellParser.parse_as_string` without templates = `str.strip()`; `none` = column absent -/
def strCell (j : Json) (k : String) : Option Str :=
  match getStr j k with
  | .ok s => some (strip pyWs s)
  | .error _ => none

def listCell (j : Json) (k : String) : Except Exc (List Str) :=
  match getStr j k with
  | .ok s => listOfCell s
  | .error _ => .ok []

/-- cells of one campaign row → row model (required columns missing → ValidationError) -/
def campRowOfJson (j : Json) : Except Exc CampRow :=
  let req (k : String) : List Str := if (strCell j k).isNone then [k.toList] else []
  let missing := req "offset" ++ req "unit" ++ req "event_type" ++ req "relative_to" ++ req "start_mode"
  if missing ≠ [] then .error (.validation missing) else
  let g (k : String) : Str := (strCell j k).getD []
  .ok { uuid := g "uuid", offset := g "offset", unit := g "unit", eventType := g "event_type",
        deliveryHour := g "delivery_hour", message := g "message", relativeTo := g "relative_to",
        startMode := g "start_mode", flow := g "flow", baseLanguage := g "base_language" }

def trigRowOfJson (j : Json) : Except Exc TrigRow := do
  match strCell j "type" with
  | none => .error (.validation ["type".toList])
  | some ty =>
    let kws ← listCell j "keywords"
    let gs ← listCell j "groups"
    let xs ← listCell j "exclude_groups"
    let g (k : String) : Str := (strCell j k).getD []
    pure { type := ty, keywords := kws, flow := g "flow", groups := gs, excludeGroups := xs,
           channel := g "channel", matchType := strCell j "match_type" }

def optStrJ' : Option Str → Json
  | none => Json.null
  | some s => strJ s

def excOut (e : Exc) : Json := Json.mkObj [("exc", excJ e)]

def handleCampaign (op : String) (j : Json) : Except String Json := do
  match op with
  | "campaign.rows" => do
      let c ← getNat j "index"
      let name ← getStr j "name"
      let group ← getStr j "group"
      let rowsJ ← getArr j "rows"
      match rowsJ.toList.mapM campRowOfJson with
      | .error e => pure (excOut e)
      | .ok rows =>
        match parseCampaign rows with
        | .error e => pure (excOut e)
        | .ok (evs, cs) =>
          pure (Json.mkObj [
            ("campaign", jJ (renderCampaign c name group evs)),
            ("crit", critsJ cs),
            ("flows", Json.arr (evs.map fun e => optStrJ' e.flowName).toArray)])
  | "trigger.rows" => do
      let rowsJ ← getArr j "rows"
      match rowsJ.toList.mapM trigRowOfJson with
      | .error e => pure (excOut e)
      | .ok rows =>
        match parseTriggers rows with
        | .error e => pure (excOut e)
        | .ok (ts, cs) =>
          pure (Json.mkObj [
            ("triggers", Json.arr (ts.map fun t => jJ (renderTrigger t)).toArray),
            ("crit", critsJ cs),
            ("flows", strListJ (ts.map (·.flowName)))])
  | "trigger.exist" => do
      let knownJ ← getArr j "known"
      let known ← knownJ.toList.mapM asOptStr
      let fl ← j.getObjVal? "flows"
      let flows ← asStrList fl
      match requireExisting known flows with
      | none => pure Json.null
      | some e => pure (excOut e)
  | "campaign.fieldkey" => do
      let s ← getStr j "s"
      match generateFieldKey s with
      | .ok k => pure (Json.mkObj [("ok", strJ k)])
      | .error e => pure (excOut e)
  | "campaign.int" => do
      let s ← getStr j "s"
      match pyInt s with
      | some n => pure (Json.num (JsonNumber.fromInt n))
      | none => pure Json.null
  | _ => throw s!"unknown op {op}"

end Rpft.Drv.CampaignD
