import Rpft.Drv.Json
import Rpft.Infer
namespace Rpft.Drv.InferD
open Rpft.Drv
open Lean Rpft Rpft.Infer

def intJ (i : Int) : Json := Json.num (JsonNumber.fromInt i)

mutual
partial def valJ : Val → Json
  | .none => Json.null
  | .str s => Json.mkObj [("s", strJ s)]
  | .int i => Json.mkObj [("i", intJ i)]
  | .float i => Json.mkObj [("f", intJ i)]
  | .bool b => Json.mkObj [("b", Json.bool b)]
  | .list vs => Json.mkObj [("l", Json.arr (vs.map valJ).toArray)]
  | .record fs => Json.mkObj [("r", Json.arr (fs.map (fun (k, v) => Json.arr #[strJ k, valJ v])).toArray)]
end

partial def tyJ : Ty → Json
  | .str => Json.str "str"
  | .int => Json.str "int"
  | .float => Json.str "float"
  | .bool => Json.str "bool"
  | .anyList => Json.str "list"
  | .list t => Json.mkObj [("list", tyJ t)]
  | .model fs =>
    Json.mkObj [("model", Json.arr (fs.map (fun (k, t, d) => Json.arr #[strJ k, tyJ t, valJ d])).toArray)]

partial def valOfJ (j : Json) : Except String Val :=
  match j with
  | Json.null => pure .none
  | _ =>
    match j.getObjVal? "s" with
    | .ok v => do let s ← asStr v; pure (.str s)
    | .error _ =>
    match j.getObjVal? "i" with
    | .ok v => do let i ← v.getInt?; pure (.int i)
    | .error _ =>
    match j.getObjVal? "f" with
    | .ok v => do let i ← v.getInt?; pure (.float i)
    | .error _ =>
    match j.getObjVal? "b" with
    | .ok v => do let b ← v.getBool?; pure (.bool b)
    | .error _ =>
    match j.getObjVal? "l" with
    | .ok v => do let a ← v.getArr?; let vs ← a.toList.mapM valOfJ; pure (.list vs)
    | .error _ =>
    match j.getObjVal? "r" with
    | .ok v => do
        let a ← v.getArr?
        let fs ← a.toList.mapM (fun e => do
          let p ← e.getArr?
          match p.toList with
          | [k, x] => do let k ← asStr k; let x ← valOfJ x; pure (k, x)
          | _ => throw "record entry")
        pure (.record fs)
    | .error _ => throw "val"

mutual
partial def tyOfJ (j : Json) : Except String Ty :=
  match j with
  | Json.str "str" => pure .str
  | Json.str "int" => pure .int
  | Json.str "float" => pure .float
  | Json.str "bool" => pure .bool
  | Json.str "list" => pure .anyList
  | _ =>
    match j.getObjVal? "list" with
    | .ok v => do let t ← tyOfJ v; pure (.list t)
    | .error _ =>
    match j.getObjVal? "model" with
    | .ok v => do let fs ← fieldsOfJ v; pure (.model fs)
    | .error _ => throw "ty"
partial def fieldsOfJ (j : Json) : Except String (List Field) := do
  let a ← j.getArr?
  a.toList.mapM (fun e => do
    let p ← e.getArr?
    match p.toList with
    | [k, t, d] => do let k ← asStr k; let t ← tyOfJ t; let d ← valOfJ d; pure (k, t, d)
    | _ => throw "field")
end

def errJ : Err → Json
  | .fuel => Json.str "fuel"
  | .unsupported => Json.str "unsupported"
  | .valueError => Json.str "ValueError"
  | .indexError => Json.str "IndexError"
  | .shadow => Json.str "NameError"

def inferJ (hs : List Str) : Json :=
  match inferRec (maxLen hs + 1) hs with
  | .ok (t, d) => Json.mkObj [("ok", Json.mkObj [("ty", tyJ t), ("dflt", valJ d)])]
  | .error e => Json.mkObj [("err", errJ e)]

def handleInfer (op : String) (j : Json) : Except String Json := do
  match op with
  | "infer.infer" => do
      let hs ← (← j.getObjVal? "headers") |> asStrList
      pure (inferJ hs)
  | "infer.render" => do
      -- schema → headers, family membership, and the model's own round trip
      let sch ← fieldsOfJ (← j.getObjVal? "schema")
      let hs := renderHeaders sch
      let back := match infer hs with
        | .ok t => Ty.beq t (.model sch)
        | .error _ => false
      pure (Json.mkObj [("headers", strListJ hs), ("inFamily", Json.bool (inFamilyB sch)),
                        ("inFamilyU", Json.bool (inFamilyUB sch)),
                        ("roundtrip", Json.bool back), ("infer", inferJ hs)])
  | "infer.fieldname" => do let s ← getStr j "s"; pure (strJ (getFieldName s))
  | _ => throw s!"unknown op {op}"

end Rpft.Drv.InferD
