/-
Driver ops for the row parser model: `row.parse`, `row.unparse`, `row.roundtrip`,
`row.match`, `row.flowschema`.
JSON encodings —
  type:   "str" | "int" | "float" | "bool" | "any" | {"list": T}
          | {"model": [[name, T, default-or-null], …], "h2f": [[a,b],…], "f2h": [[a,b],…]}
  value (decoded along the type): string | number | string (float repr) | bool
          | nested arrays of strings | array | object with every field
  schema: {"top": T, "basic": [[a,b],…], "main": null | [header, typeColumn, [[a,b],…]]}
-/
import Rpft.Drv.Json
import Rpft.RowUnparse
import Rpft.RowSpec
import Rpft.FlowSchema
namespace Rpft.Drv.RowD
open Rpft.Drv
open Lean Rpft Rpft.Row

def pairsOfJ (j : Json) : Except String (List (Str × Str)) := do
  let a ← j.getArr?
  a.toList.mapM fun p => do
    let xs ← asStrList p
    match xs with
    | [k, v] => pure (k, v)
    | _ => throw "pair"

partial def pvOfJ (j : Json) : Except String PV :=
  match j with
  | Json.str s => pure (.atom s.toList)
  | Json.arr a => do let xs ← a.toList.mapM pvOfJ; pure (.list xs)
  | _ => throw "pv"

partial def pvJ : PV → Json
  | .atom s => strJ s
  | .list xs => Json.arr (xs.map pvJ).toArray

mutual
partial def tyOfJ (j : Json) : Except String Ty :=
  match j with
  | Json.str "str" => pure .str
  | Json.str "int" => pure .int
  | Json.str "float" => pure .float
  | Json.str "bool" => pure .bool
  | Json.str "any" => pure .anyList
  | _ =>
    match j.getObjVal? "list" with
    | .ok t => do let t' ← tyOfJ t; pure (.list t')
    | .error _ => do
      let fsj ← getArr j "model"
      let fs ← fsj.toList.mapM fun fj => do
        let a ← fj.getArr?
        match a.toList with
        | [n, t, d] => do
          let n' ← asStr n
          let t' ← tyOfJ t
          let d' ← match d with
            | Json.null => pure none
            | _ => do let v ← valOfJ t' d; pure (some v)
          pure (n', t', d')
        | _ => throw "field"
      let h2f ← pairsOfJ (← j.getObjVal? "h2f")
      let f2h ← pairsOfJ (← j.getObjVal? "f2h")
      pure (.model fs h2f f2h)

partial def valOfJ (t : Ty) (j : Json) : Except String Val :=
  match t with
  | .str => do let s ← asStr j; pure (.str s)
  | .int => do let i ← j.getInt?; pure (.int i)
  | .float => do let s ← asStr j; pure (.float s)
  | .bool => do let b ← j.getBool?; pure (.bool b)
  | .anyList => do
    let a ← j.getArr?
    let xs ← a.toList.mapM pvOfJ
    pure (.any xs)
  | .list t' => do
    let a ← j.getArr?
    let xs ← a.toList.mapM (valOfJ t')
    pure (.list xs)
  | .model fs _ _ => do
    let kvs ← fs.mapM fun (n, ft, _) => do
      let x ← j.getObjVal? (String.ofList n)
      let v ← valOfJ ft x
      pure (n, v)
    pure (.model kvs)
end

partial def valJ : Val → Json
  | .str s => strJ s
  | .int i => Json.num (JsonNumber.fromInt i)
  | .float s => Json.mkObj [("f", strJ s)]
  | .bool b => Json.bool b
  | .any xs => Json.arr (xs.map pvJ).toArray
  | .list xs => Json.arr (xs.map valJ).toArray
  | .model kvs => Json.mkObj (kvs.map fun (k, v) => (String.ofList k, valJ v))

partial def tyJ : Ty → Json
  | .str => Json.str "str"
  | .int => Json.str "int"
  | .float => Json.str "float"
  | .bool => Json.str "bool"
  | .anyList => Json.str "any"
  | .list t => Json.mkObj [("list", tyJ t)]
  | .model fs h2f f2h =>
    let pj (ps : List (Str × Str)) := Json.arr (ps.map fun (a, b) => strListJ [a, b]).toArray
    Json.mkObj [
      ("model", Json.arr (fs.map fun (n, t, d) =>
        Json.arr #[strJ n, tyJ t, match d with | none => Json.null | some v => valJ v]).toArray),
      ("h2f", pj h2f), ("f2h", pj f2h)]

def schemaOfJ (j : Json) : Except String Schema := do
  let top ← tyOfJ (← j.getObjVal? "top")
  let basic ← match j.getObjVal? "basic" with
    | .ok b => pairsOfJ b
    | .error _ => pure []
  let main ← match j.getObjVal? "main" with
    | .ok (Json.arr a) =>
      match a.toList with
      | [h, tc, tb] => do
        let h' ← asStr h; let tc' ← asStr tc; let tb' ← pairsOfJ tb
        pure (some (h', tc', tb'))
      | _ => throw "main"
    | _ => pure none
  pure { top := top, ctxBasic := basic, ctxMain := main }

def errName (e : Err) : String := (reprStr e).replace "Rpft.Row.Err." ""

def outJ (o : List (Str × Str)) : Json :=
  Json.arr (o.map fun (k, v) => strListJ [k, v]).toArray

def resJ {α : Type} (f : α → Json) : Except Err α → Json
  | .ok a => Json.mkObj [("ok", f a)]
  | .error e => Json.mkObj [("err", Json.str (errName e))]

def layoutOfJ (j : Json) : Except String Layout := do
  let t ← match j.getObjVal? "targets" with
    | .ok x => asStrList x
    | .error _ => pure []
  let e ← match j.getObjVal? "excluded" with
    | .ok x => asStrList x
    | .error _ => pure []
  pure { targets := t, excluded := e }

def handleRow (op : String) (j : Json) : Except String Json := do
  match op with
  | "row.parse" => do
    let sch ← schemaOfJ (← j.getObjVal? "sch")
    let data ← pairsOfJ (← j.getObjVal? "data")
    pure (resJ valJ (parseRow sch data))
  | "row.unparse" => do
    let sch ← schemaOfJ (← j.getObjVal? "sch")
    let lay ← layoutOfJ j
    let v ← valOfJ sch.top (← j.getObjVal? "v")
    pure (resJ outJ (unparseRow sch lay v))
  | "row.roundtrip" => do
    let sch ← schemaOfJ (← j.getObjVal? "sch")
    let lay ← layoutOfJ j
    let v ← valOfJ sch.top (← j.getObjVal? "v")
    let cells := unparseRow sch lay v
    let back := match cells with
      | .ok o => resJ valJ (parseRow sch o)
      | .error _ => Json.null
    pure (Json.mkObj [("cells", resJ outJ cells), ("back", back)])
  | "row.domain" => do
    -- the decidable domain predicates of Props/C07.lean (mirrored in harness/rowlib.py)
    let sch ← schemaOfJ (← j.getObjVal? "sch")
    let lay ← layoutOfJ j
    let v ← valOfJ sch.top (← j.getObjVal? "v")
    pure (Json.mkObj [("repr", Json.bool (Representable sch.top v)),
      ("adm", Json.bool (Admissible sch lay)), ("any", Json.bool (AnySpreadOk sch lay v))])
  | "row.domain2" => do
    -- the hypotheses of the general theorem `Props.C07.parse_unparse`
    let sch ← schemaOfJ (← j.getObjVal? "sch")
    let lay ← layoutOfJ j
    let v ← valOfJ sch.top (← j.getObjVal? "v")
    pure (Json.mkObj [("good", Json.bool (goodTop sch.top)),
      ("repr", Json.bool (Representable sch.top v)),
      ("lay", Json.bool (LayoutOk sch lay v)), ("remap", Json.bool (RemapConsistent sch lay v))])
  | "row.match" => do
    let h ← asStrList (← j.getObjVal? "hs")
    let p ← getStr j "prefix"
    pure (Json.bool (matchesHeaders p h))
  | "row.flowschema" =>
    pure (Json.mkObj [("top", tyJ flowRowSchema.top),
      ("basic", Json.arr (flowRowSchema.ctxBasic.map fun (a, b) => strListJ [a, b]).toArray),
      ("main", match flowRowSchema.ctxMain with
        | some (h, tc, tb) =>
          Json.arr #[strJ h, strJ tc, Json.arr (tb.map fun (a, b) => strListJ [a, b]).toArray]
        | none => Json.null)])
  | _ => throw s!"unknown op {op}"

end Rpft.Drv.RowD
