/-
JSON helpers for the line-protocol driver (core Lean only).
-/
import Lean.Data.Json
import Rpft.Str
namespace Rpft.Drv
open Lean

def strJ (s : Str) : Json := Json.str (String.ofList s)

def getStr (j : Json) (k : String) : Except String Str := do
  let v ← j.getObjVal? k
  let s ← v.getStr?
  pure s.toList

def getStrD (j : Json) (k : String) (d : Str) : Str :=
  match getStr j k with
  | .ok s => s
  | .error _ => d

def getNat (j : Json) (k : String) : Except String Nat := do
  let v ← j.getObjVal? k
  v.getNat?

def getArr (j : Json) (k : String) : Except String (Array Json) := do
  let v ← j.getObjVal? k
  v.getArr?

def getBoolD (j : Json) (k : String) (d : Bool) : Bool :=
  match j.getObjVal? k with
  | .ok (Json.bool b) => b
  | _ => d

def asStr (j : Json) : Except String Str := do
  let s ← j.getStr?
  pure s.toList

def asStrList (j : Json) : Except String (List Str) := do
  let a ← j.getArr?
  a.toList.mapM asStr

def strListJ (xs : List Str) : Json := Json.arr (xs.map strJ).toArray

def optStrJ : Option Str → Json
  | none => Json.null
  | some s => strJ s

def asOptStr (j : Json) : Except String (Option Str) :=
  match j with
  | Json.null => pure none
  | _ => do let s ← asStr j; pure (some s)

end Rpft.Drv
