/-
Driver ops for M6 (`uuid.*`).  Names are `Option Str` (a campaign message event holds a
flow reference whose name is `None`), ids are `given s` (spelled in the input) or `inv n`
(the n-th invented one).  `null` and `""` uuids are the falsy `none`.
-/
import Rpft.Drv.Json
import Rpft.Uuid
namespace Rpft.Drv.UuidD
open Rpft.Drv
open Lean Rpft Rpft.Uuid

inductive UId
  | given (s : Str)
  | inv (n : Nat)
  /-- marker of `uuid.staged`: the object was there at the previous validation -/
  | kept
  deriving DecidableEq, Repr

def UId.isKept : UId → Bool
  | .kept => true
  | _ => false

abbrev UName := Option Str

def uuidUidJ : Option UId → Json
  | none => Json.null
  | some (.given s) => Json.mkObj [("g", strJ s)]
  | some (.inv n) => Json.mkObj [("i", Json.num n)]
  | some .kept => Json.mkObj [("kept", Json.bool true)]

def nameJ : UName → Json := optStrJ

def kindJ : Kind → Json
  | .group => Json.str "group"
  | .flow => Json.str "flow"

def siteJ : Site → Json
  | .pre _ => Json.str "pre"
  | .groupList => Json.str "groupList"
  | .flowDef => Json.str "flowDef"
  | .action _ => Json.str "action"
  | .case => Json.str "case"
  | .campEvent true => Json.str "campEvent"
  | .campEvent false => Json.str "campEventHidden"
  | .campGroup => Json.str "campGroup"
  | .trigFlow => Json.str "trigFlow"
  | .trigGroup => Json.str "trigGroup"
  | .trigExclude => Json.str "trigExclude"

/-- falsy (`null`, `""`) ↦ `none` -/
def asGiven (j : Json) : Except String (Option UId) :=
  match j with
  | Json.null => pure none
  | Json.str s => pure (if s.isEmpty then none else some (.given s.toList))
  | Json.obj _ => pure (some .kept)   -- `{"kept": true}`
  | _ => throw "uuid"

def asKind (j : Json) : Except String Kind :=
  match j with
  | Json.str "group" => pure .group
  | Json.str "flow" => pure .flow
  | _ => throw "kind"

def arrAt (a : Array Json) (i : Nat) : Except String Json :=
  match a[i]? with
  | some j => pure j
  | none => throw "index"

def asRef (j : Json) : Except String (Ref UName UId) := do
  let a ← j.getArr?
  let n ← asOptStr (← arrAt a 0)
  let g ← asGiven (← arrAt a 1)
  pure ⟨n, g⟩

def asRefs (j : Json) : Except String (List (Ref UName UId)) := do
  let a ← j.getArr?
  a.toList.mapM asRef

def asKRef (j : Json) : Except String (Kind × Ref UName UId) := do
  let a ← j.getArr?
  let k ← asKind (← arrAt a 0)
  let n ← asOptStr (← arrAt a 1)
  let g ← asGiven (← arrAt a 2)
  pure (k, ⟨n, g⟩)

def asNode (j : Json) : Except String (NodeRefs UName UId) := do
  let acts ← (← getArr j "actions").toList.mapM asKRef
  let cases ← asRefs (← j.getObjVal? "cases")
  pure ⟨acts, cases⟩

def asFlow (j : Json) : Except String (FlowC UName UId) := do
  let n ← asOptStr (← j.getObjVal? "name")
  let u ← asGiven (← j.getObjVal? "uuid")
  let nodes ← (← getArr j "nodes").toList.mapM asNode
  pure ⟨n, u, nodes⟩

def asEvent (j : Json) : Except String (EventC UName UId) := do
  let a ← j.getArr?
  let n ← asOptStr (← arrAt a 0)
  let g ← asGiven (← arrAt a 1)
  let shown ← (← arrAt a 2).getBool?
  pure ⟨⟨n, g⟩, shown⟩

def asCampaign (j : Json) : Except String (CampaignC UName UId) := do
  let evs ← (← getArr j "events").toList.mapM asEvent
  let g ← asRef (← j.getObjVal? "group")
  pure ⟨evs, g⟩

def asTrigger (j : Json) : Except String (TriggerC UName UId) := do
  let f ← asRef (← j.getObjVal? "flow")
  let gs ← asRefs (← j.getObjVal? "groups")
  let ex ← asRefs (← j.getObjVal? "exclude")
  pure ⟨f, gs, ex⟩

def asContainer (j : Json) : Except String (Container UName UId) := do
  let gs ← asRefs (← j.getObjVal? "groups")
  let fs ← (← getArr j "flows").toList.mapM asFlow
  let cs ← (← getArr j "campaigns").toList.mapM asCampaign
  let ts ← (← getArr j "triggers").toList.mapM asTrigger
  pure ⟨gs, fs, cs, ts⟩

/-- `["group"|"flow", name, uuid]` = a direct `record_*_uuid` call (e.g. `add_flow`);
    `["row:group"|"row:flow", name, obj_id]` = what a sheet row records while parsing -/
def asPreOccs (j : Json) : Except String (List (Occ UName UId)) := do
  let a ← j.getArr?
  let n ← asOptStr (← arrAt a 1)
  let g ← asGiven (← arrAt a 2)
  match ← arrAt a 0 with
  | Json.str "group" => pure [⟨n, g, .pre .group⟩]
  | Json.str "flow" => pure [⟨n, g, .pre .flow⟩]
  | Json.str "row:group" => pure (preOfRow (.groupRow n g))
  | Json.str "row:flow" => pure (preOfRow (.startFlow n g))
  | _ => throw "pre"

/-- … or `["block", [rows…]]` = the rows of one `insert_as_block` -/
def asPre (j : Json) : Except String (List (PreItem UName UId)) := do
  let a ← j.getArr?
  match ← arrAt a 0 with
  | Json.str "block" => do
      let rows ← (← arrAt a 1).getArr?
      let os ← rows.toList.mapM asPreOccs
      pure [.scratch os.flatten]
  | _ => do
      let os ← asPreOccs j
      pure (os.map .own)

def occJ (o : Occ UName UId) : Json :=
  Json.arr #[siteJ o.site, kindJ o.kind, nameJ o.name, uuidUidJ o.given]

def dictJ (d : Dict UName UId) : Json :=
  Json.arr (d.map (fun p => Json.arr #[nameJ p.1, uuidUidJ p.2])).toArray

def errJ : Err UName UId → Json
  | .conflict k n u r => Json.mkObj [("type", Json.str "conflict"), ("kind", kindJ k),
      ("name", nameJ n), ("new", uuidUidJ (some u)), ("recorded", uuidUidJ (some r))]
  | .triggerUnknownFlow n => Json.mkObj [("type", Json.str "triggerUnknownFlow"), ("name", nameJ n)]

def outJ (o : Out UName UId) : Json :=
  Json.mkObj [("occs", Json.arr (o.occs.map occJ).toArray), ("groups", dictJ o.groups),
    ("flow_dict", dictJ o.st.flows), ("group_dict", dictJ o.st.groups), ("next", Json.num o.next)]

/-- `k` further `validate()` calls, each on the container left by the previous one -/
def rerender : Nat → Out UName UId → List Json
  | 0, _ => []
  | k + 1, out =>
    match runOccs UId.inv out.st out.next (reOccs out) with
    | .ok out' => Json.mkObj [("ok", outJ out')] :: rerender k out'
    | .error e => [Json.mkObj [("err", errJ e)]]

/-- `k` further `validate()` calls; also hands back the container's last state -/
def rerenderSt : Nat → Out UName UId → List Json × Option (Out UName UId)
  | 0, out => ([], some out)
  | k + 1, out =>
    match runOccs UId.inv out.st out.next (reOccs out) with
    | .ok out' => let r := rerenderSt k out'; (Json.mkObj [("ok", outJ out')] :: r.1, r.2)
    | .error e => ([Json.mkObj [("err", errJ e)]], none)

/-- the stages of a history after the first: `(pre, grown container, number of validations)` -/
def runStages : Out UName UId → List (List (PreItem UName UId) × Container UName UId × Nat) → List Json
  | _, [] => []
  | prev, (pre, c, k) :: rest =>
    match runStage UId.inv UId.isKept prev pre c with
    | .error e => [Json.mkObj [("err", errJ e)]]
    | .ok out =>
      let r := rerenderSt (k - 1) out
      Json.mkObj [("ok", outJ out)] :: r.1 ++
        (match r.2 with
         | some last => runStages last rest
         | none => [])

def asStage (j : Json) : Except String (List (PreItem UName UId) × Container UName UId × Nat) := do
  let pre ← (← getArr j "pre").toList.mapM asPre
  let c ← asContainer (← j.getObjVal? "container")
  let k := match getNat j "renders" with | .ok n => n | .error _ => 1
  pure (pre.flatten, c, k)

def handleUuid (op : String) (j : Json) : Except String Json := do
  match op with
  | "uuid.staged" => do
      -- a container built in stages, validated after every stage (`renders` times each)
      let stages ← (← getArr j "stages").toList.mapM asStage
      match stages with
      | [] => throw "no stage"
      | (pre, c, k) :: rest =>
        let rs := match run UId.inv pre c with
          | .error e => [Json.mkObj [("err", errJ e)]]
          | .ok out =>
            let r := rerenderSt (k - 1) out
            Json.mkObj [("ok", outJ out)] :: r.1 ++
              (match r.2 with
               | some last => runStages last rest
               | none => [])
        pure (Json.mkObj [("renders", Json.arr rs.toArray)])
  | "uuid.run" => do
      let pre ← (← getArr j "pre").toList.mapM asPre
      let c ← asContainer (← j.getObjVal? "container")
      let renders := match getNat j "renders" with | .ok n => n | .error _ => 1
      let rs := match run UId.inv pre.flatten c with
        | .ok out => Json.mkObj [("ok", outJ out)] :: rerender (renders - 1) out
        | .error e => [Json.mkObj [("err", errJ e)]]
      pure (Json.mkObj [("renders", Json.arr rs.toArray)])
  | "uuid.occs" => do
      let pre ← (← getArr j "pre").toList.mapM asPre
      let c ← asContainer (← j.getObjVal? "container")
      let _ := pre
      pure (Json.arr ((occsOf c).map occJ).toArray)
  | _ => throw s!"unknown op {op}"

end Rpft.Drv.UuidD
