/-
Driver ops for M9 (`cli.*`): `cli.predict` (abstract workbook → status / file / fault),
`cli.blocks` (row types → block verdict), `cli.probe` (one detector).
-/
import Rpft.Drv.Json
import Rpft.Cli
namespace Rpft.Drv.CliD
open Rpft.Drv
open Lean Rpft Rpft.Cli Rpft.Cell

def rowTypeOf (s : Str) : RowType :=
  if s = "begin_for".toList then .beginFor
  else if s = "begin_block".toList then .beginBlock
  else if s = "end_for".toList then .endFor
  else if s = "end_block".toList then .endBlock
  else .other

def faultJ : Fault → Json
  | .unterminated => Json.mkObj [("k", "unterminated")]
  | .wrongTerminator t b => Json.mkObj [("k", "wrongTerminator"), ("row", strJ t.name), ("block", strJ b.name)]
  | .forWithoutVariable => Json.mkObj [("k", "forWithoutVariable")]
  | .edgeFromUnknownRow s => Json.mkObj [("k", "edgeFromUnknownRow"), ("arg", strJ s)]
  | .gotoArity => Json.mkObj [("k", "gotoArity")]
  | .gotoUnknownTarget s => Json.mkObj [("k", "gotoUnknownTarget"), ("arg", strJ s)]
  | .missingSheet s => Json.mkObj [("k", "missingSheet"), ("arg", strJ s)]
  | .missingDataSheet s => Json.mkObj [("k", "missingDataSheet"), ("arg", strJ s)]
  | .missingDataRow s => Json.mkObj [("k", "missingDataRow"), ("arg", strJ s)]
  | .dataRowIdWithoutSheet => Json.mkObj [("k", "dataRowIdWithoutSheet")]
  | .argMissing s => Json.mkObj [("k", "argMissing"), ("arg", strJ s)]
  | .argDoublyDefined s => Json.mkObj [("k", "argDoublyDefined"), ("arg", strJ s)]
  | .unknownDataModel s => Json.mkObj [("k", "unknownDataModel"), ("arg", strJ s)]
  | .unknownOperation => Json.mkObj [("k", "unknownOperation")]
  | .operationWithoutNewName => Json.mkObj [("k", "operationWithoutNewName")]
  | .emptyText => Json.mkObj [("k", "emptyText")]
  | .overlongValue => Json.mkObj [("k", "overlongValue")]
  | .overlongCategory => Json.mkObj [("k", "overlongCategory")]
  | .badHeaders => Json.mkObj [("k", "badHeaders")]
  | .badMethod => Json.mkObj [("k", "badMethod")]
  | .uuidConflict s => Json.mkObj [("k", "uuidConflict"), ("arg", strJ s)]
  | .triggerUnknownFlow s => Json.mkObj [("k", "triggerUnknownFlow"), ("arg", strJ s)]
  | .noContentIndex => Json.mkObj [("k", "noContentIndex")]
  | .sheetNameCount s => Json.mkObj [("k", "sheetNameCount"), ("arg", strJ s)]
  | .unknownIndexType s => Json.mkObj [("k", "unknownIndexType"), ("arg", strJ s)]
  | .rowTypeWithoutMainArg s => Json.mkObj [("k", "rowTypeWithoutMainArg"), ("arg", strJ s)]
  | .unknownContactProperty s => Json.mkObj [("k", "unknownContactProperty"), ("arg", strJ s)]
  | .unknownRowType s => Json.mkObj [("k", "unknownRowType"), ("arg", strJ s)]
  | .noDefaultExitFromFlow => Json.mkObj [("k", "noDefaultExitFromFlow")]
  | .badOutcomeCondition f => Json.mkObj [("k", "badOutcomeCondition"), ("flow", Json.bool f)]

def verdictJ : Except Fault Unit → Json
  | .ok _ => Json.mkObj [("ok", Json.bool true)]
  | .error f => Json.mkObj [("ok", Json.bool false), ("fault", faultJ f), ("viaLog", Json.bool f.viaLog)]

def strListD (j : Json) (k : String) : Except String (List Str) :=
  match j.getObjVal? k with
  | .ok v => asStrList v
  | .error _ => pure []

def elemOf (j : Json) : Except String Elem :=
  match j with
  | Json.str s => pure (.atom s.toList)
  | Json.arr a => do let xs ← a.toList.mapM asStr; pure (.list xs)
  | _ => throw "elem"

def elemsD (j : Json) (k : String) : Except String (List Elem) :=
  match j.getObjVal? k with
  | .ok (Json.arr a) => a.toList.mapM elemOf
  | _ => pure []

def natD (j : Json) (k : String) : Nat :=
  match getNat j k with
  | .ok n => n
  | .error _ => 0

def probe0Of (j : Json) : Except String Probe0 := do
  let p ← getStr j "p"
  let v := getStrD j "v" []
  match String.ofList p with
  | "text" => pure (.messageText v)
  | "field" => pure (.fieldValue v)
  | "result" => pure (.runResult v)
  | "cat" => pure (.categoryName v)
  | "webhook" => do let h ← elemsD j "h"; pure (.webhook (getStrD j "m" []) h)
  | "arity" => pure (.gotoArity (natD j "e") (natD j "d"))
  | "target" => pure (.gotoTarget v)
  | "loopvar" => do let xs ← strListD j "v"; pure (.loopVariable xs)
  | "from" => pure (.edgeFrom v)
  | "rowtype" => pure (.rowType v)
  | "outcome" =>
    let k : SrcKind := match String.ofList (getStrD j "src" []) with
      | "flow" => .enterFlow
      | "hook" => .hook
      | _ => .other
    pure (.outcome k v (getBoolD j "more" false))
  | other => throw s!"probe {other}"

def argDefOf (j : Json) : Except String ArgDef := do
  let xs ← asStrList j
  match xs with
  | [n, t, d] => pure ⟨n, t, d⟩
  | _ => throw "argdef"

def listD {α : Type} (j : Json) (k : String) (f : Json → Except String α) : Except String (List α) :=
  match j.getObjVal? k with
  | .ok (Json.arr a) => a.toList.mapM f
  | _ => pure []

def rowOf {P : Type} (pf : Json → Except String P) (j : Json) : Except String (Row P) := do
  let t ← getStr j "t"
  let probes ← listD j "probes" pf
  -- "mt": the sheet has a `message_text` column; `t` is the trimmed type cell
  pure { type := rowTypeOf t, rowId := getStrD j "id" [], includeIf := getBoolD j "inc" true,
         iterEmpty := getBoolD j "empty" false, probes := probes,
         keyError := mainArgKeyError (getBoolD j "mt" false) t }

def instOf {P : Type} (pf : Json → Except String P) (j : Json) : Except String (FlowInst P) := do
  let ctx ← strListD j "ctx"
  let defs ← listD j "defs" argDefOf
  let args ← strListD j "args"
  let rows ← listD j "rows" (rowOf pf)
  let refs ← strListD j "refs"
  pure { refs := refs, name := getStrD j "name" [], dataSheet := getStrD j "dataSheet" [],
         dataRowId := getStrD j "dataRowId" [], ctx := ctx, defs := defs, args := args, rows := rows }

def probe1Of (j : Json) : Except String Probe1 := do
  let p ← getStr j "p"
  if p = "insert".toList then
    let fj ← j.getObjVal? "f"
    let f ← instOf probe0Of fj
    pure (.insert f)
  else
    let q ← probe0Of j
    pure (.leaf q)

def flowDefOf (j : Json) : Except String FlowDef := do
  let insts ← listD j "insts" (instOf probe1Of)
  pure { dataSheet := getStrD j "dataSheet" [], dataRowId := getStrD j "dataRowId" [], insts := insts }

def sourceOf (j : Json) : Except String DataSource := do
  let n ← getStr j "name"
  pure { name := n, cached := getBoolD j "cached" false, dataModel := getStrD j "dataModel" [] }

def indexRowOf (j : Json) : Except String IndexRow := do
  let k ← getStr j "k"
  if k = "ref".toList then
    let n ← getStr j "name"
    pure (.sheetRef n)
  else if k = "other".toList then
    let t ← getStr j "type"
    pure (.other t (natD j "n"))
  else
    let srcs ← listD j "srcs" sourceOf
    pure (.dataSheet (getStrD j "op" []) (getStrD j "newName" []) srcs)

def pairOf (j : Json) : Except String (Str × Str) := do
  let xs ← asStrList j
  match xs with
  | [a, b] => pure (a, b)
  | _ => throw "pair"

def regOf (j : Json) : Except String (Str × List Str) := do
  let a ← j.getArr?
  match a.toList with
  | [n, ids] => do let n ← asStr n; let ids ← asStrList ids; pure (n, ids)
  | _ => throw "reg"

def workbookOf (j : Json) : Except String Workbook := do
  let sheets ← strListD j "sheets"
  let models ← strListD j "models"
  let index ← listD j "index" indexRowOf
  let reg ← listD j "reg" regOf
  let flows ← listD j "flows" flowDefOf
  let fu ← listD j "flowUuids" pairOf
  let gu ← listD j "groupUuids" pairOf
  let names ← strListD j "flowNames"
  let trig ← strListD j "triggers"
  pure { hasIndex := getBoolD j "hasIndex" true, sheets := sheets, hasModule := getBoolD j "hasModule" false,
         models := models, index := index, reg := reg, flows := flows, flowUuids := fu, groupUuids := gu,
         flowNames := names, triggers := trig }

/-- the abstract document: only that there is one -/
def docOf (_ : Workbook) : Unit := ()

def predict (j : Json) : Except String Json := do
  let w ← workbookOf j
  let pre : Option Str := match j.getObjVal? "pre" with
    | .ok (Json.str s) => some s.toList
    | _ => none
  let out := createFlows docOf w
  let res := cliFs (createFlows docOf) (fun _ => "<document>".toList) pre w
  let faultPart : List (String × Json) := match out with
    | .ok _ => [("fault", Json.null)]
    | .error f => [("fault", faultJ f), ("viaLog", Json.bool f.viaLog)]
  pure (Json.mkObj ([
    ("exit", Json.num res.exit),
    ("file", match res.file with | none => Json.null | some s => strJ s),
    ("fileUnchanged", Json.bool (res.file == pre))] ++ faultPart))

def handleCli (op : String) (j : Json) : Except String Json := do
  match op with
  | "cli.predict" => predict j
  | "cli.blocks" => do
      let ts ← strListD j "rows"
      pure (verdictJ (checkBlocks (ts.map rowTypeOf)))
  | "cli.probe" => do
      let pj ← j.getObjVal? "probe"
      let p ← probe0Of pj
      let known ← strListD j "known"
      pure (verdictJ (p.check known))
  | "cli.bind" => do
      let defs ← listD j "defs" argDefOf
      let args ← strListD j "args"
      let ctx ← strListD j "ctx"
      match bindArgs defs args ctx with
      | .ok c => pure (Json.mkObj [("ok", Json.bool true), ("ctx", strListJ c)])
      | .error f => pure (verdictJ (.error f))
  | _ => throw s!"unknown op {op}"

end Rpft.Drv.CliD
