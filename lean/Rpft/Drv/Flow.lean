import Rpft.Drv.Json
import Rpft.Flow
import Rpft.Bisim
import Rpft.FlowSys
import Rpft.RefFlow
namespace Rpft.Drv.FlowD
open Rpft.Drv
open Lean Rpft Rpft.Flow Rpft.Bisim Rpft.RefFlow

def optStrOf (j : Json) (k : String) : Option Str :=
  match j.getObjVal? k with
  | .ok (Json.str s) => some s.toList
  | _ => none

def argOf (j : Json) : Str :=
  match j with
  | Json.str s => s.toList
  | Json.null => []
  | other => other.compress.toList

def exitOfJ (j : Json) : Except String Exit := do
  let u ← getStr j "uuid"
  pure { uuid := u, dest := optStrOf j "destination_uuid" }

def categoryOfJ (j : Json) : Except String Category := do
  pure { uuid := ← getStr j "uuid", name := ← getStr j "name", exitUuid := ← getStr j "exit_uuid" }

def caseOfJ (j : Json) : Except String Case := do
  let args ← getArr j "arguments"
  pure { uuid := ← getStr j "uuid", type := ← getStr j "type",
         args := args.toList.map argOf, catUuid := ← getStr j "category_uuid" }

def routerOfJ (j : Json) : Except String Router := do
  let ty ← getStr j "type"
  let cats ← (← getArr j "categories").toList.mapM categoryOfJ
  let rn := optStrOf j "result_name"
  if ty = "random".toList then pure (.random cats rn)
  else
    let cases ← (← getArr j "cases").toList.mapM caseOfJ
    let d ← getStr j "default_category_uuid"
    let operand := getStrD j "operand" []
    let wait : Option (Option (Nat × Id)) ←
      match j.getObjVal? "wait" with
      | .ok (Json.null) => pure none
      | .ok w =>
        match w.getObjVal? "timeout" with
        | .ok t => do
          let secs ← getNat t "seconds"
          let c ← getStr t "category_uuid"
          pure (some (some (secs, c)))
        | .error _ => pure (some none)
      | .error _ => pure none
    pure (.switch operand cases cats d wait rn)

def actionOfJ (j : Json) : Except String Action := do
  pure { uuid := ← getStr j "uuid", obs := ← getStr j "obs" }

def nodeOfJ (j : Json) : Except String Node := do
  let actions ← (← getArr j "actions").toList.mapM actionOfJ
  let exits ← (← getArr j "exits").toList.mapM exitOfJ
  let router ← match j.getObjVal? "router" with
    | .ok Json.null => pure none
    | .ok r => do let r ← routerOfJ r; pure (some r)
    | .error _ => pure none
  pure { uuid := ← getStr j "uuid", actions := actions, router := router, exits := exits }

def flowOfJ (j : Json) : Except String Flow := do
  let nodes ← (← getArr j "nodes").toList.mapM nodeOfJ
  pure { uuid := getStrD j "uuid" [], name := getStrD j "name" [], nodes := nodes }

def lvlOfJ (j : Json) : ObsLevel :=
  match j.getObjVal? "lvl" with
  | .ok l => { catNames := getBoolD l "catNames" true, resultName := getBoolD l "resultName" true }
  | .error _ => { catNames := true, resultName := true }

def obsJ : Obs → Json
  | .act a => Json.mkObj [("act", strJ a)]
  | .diverge => Json.str "diverge"
  | .ask r => Json.mkObj [("ask", Json.mkObj [
      ("kind", strJ r.kind), ("operand", strJ r.operand),
      ("tests", Json.arr (r.tests.map fun (t, a) => Json.arr #[strJ t, strListJ a]).toArray),
      ("caseCats", strListJ r.caseCats), ("otherCats", strListJ r.otherCats),
      ("wait", match r.wait with
        | none => Json.null
        | some none => Json.str "msg"
        | some (some n) => Json.num n),
      ("resultName", optStrJ r.resultName)])]

def optObsJ : Option Obs → Json
  | none => Json.str "end"
  | some o => obsJ o

/-- untrusted diagnostics: which clause of `Closed` fails (for replay files) -/
def closedReport (f : Flow) : List String := Id.run do
  let ids := f.nodes.map (·.uuid)
  let mut out : List String := []
  if ¬ ids.Nodup then out := out ++ ["duplicate node uuid"]
  if ¬ f.ids.Nodup then out := out ++ ["an identifier is used for two objects"]
  for n in f.nodes do
    let nu := String.ofList n.uuid
    for e in n.exits do
      match e.dest with
      | some d => if ¬ ids.contains d then
          out := out ++ [s!"node {nu}: exit {String.ofList e.uuid} leads to {String.ofList d} which is not a node of the flow"]
      | none => pure ()
    match n.router with
    | none => if n.exits.length ≠ 1 then out := out ++ [s!"node {nu}: router-less node with {n.exits.length} exits"]
    | some r => if ¬ decide (RouterClosed r n.exits) then
        out := out ++ [s!"node {nu}: router categories/exits/cases/default not closed"]
  return out

def sysOf (lvl : ObsLevel) (f : Flow) : Sys St Obs := flowSys lvl f

/-- observations along a fixed choice path -/
def traceAlong (A : Sys St Obs) : Option St → List Nat → List Obs
  | none, _ => []
  | some s, [] => [A.obs s]
  | some s, c :: cs => A.obs s :: traceAlong A (A.step s c) cs


def bisimJ (lvl : ObsLevel) (a b : Flow) : Except String Json := do
  let A := sysOf lvl a
  let B := sysOf lvl b
  let fuel := 4 * (a.nodes.length + 2) * (b.nodes.length + 2) * 8 + 1000
  match findCert A B fuel (start a) (start b) with
  | .cert R =>
    let ok := certOk lvl a b R
    pure (Json.mkObj [("equiv", Json.bool ok), ("pairs", Json.num R.length),
      ("certValid", Json.bool ok)])
  | .diff path oa ob arA arB =>
    pure (Json.mkObj [("equiv", Json.bool false),
      ("path", Json.arr (path.map (fun (n : Nat) => Json.num n)).toArray),
      ("a", optObsJ oa), ("b", optObsJ ob), ("arityA", Json.num arA), ("arityB", Json.num arB),
      ("traceA", Json.arr ((traceAlong A (start a) path).map obsJ).toArray),
      ("traceB", Json.arr ((traceAlong B (start b) path).map obsJ).toArray)])
  | .outOfFuel => throw "bisim search out of fuel"

def condOfJ (j : Json) : Cond :=
  { value := getStrD j "value" [], var := getStrD j "variable" [],
    type := getStrD j "type" [], name := getStrD j "name" [] }

def kindOfS (s : String) : Except String Kind :=
  match s with
  | "action" => pure .action | "wait" => pure .wait | "split_value" => pure .splitValue
  | "split_group" => pure .splitGroup | "split_random" => pure .splitRandom
  | "enter_flow" => pure .enterFlow | "webhook" => pure .webhook | "airtime" => pure .airtime
  | "no_op" => pure .noOp | "go_to" => pure .goTo | "hard_exit" => pure .hardExit
  | "loose_exit" => pure .looseExit
  | k => throw s!"unknown row kind {k}"

def rrowOfJ (j : Json) : Except String RRow := do
  let edges ← (← getArr j "edges").toList.mapM fun e => do
    let c ← e.getObjVal? "condition"
    pure ({ from_ := getStrD e "from" [], cond := condOfJ c } : REdge)
  let kind ← kindOfS (String.ofList (← getStr j "kind"))
  let dests ← match j.getObjVal? "dests" with
    | .ok d => asStrList d
    | .error _ => pure []
  pure { rowId := getStrD j "row_id" [], kind := kind, edges := edges,
         act := optStrOf j "act", operand := getStrD j "operand" [],
         saveName := getStrD j "save_name" [],
         timeout := (getNat j "timeout").toOption.getD 0, dests := dests }

def handleFlow (op : String) (j : Json) : Except String Json := do
  match op with
  | "flow.closed" => do
    let f ← flowOfJ (← j.getObjVal? "flow")
    pure (Json.mkObj [("closed", Json.bool (closedB f)),
      ("report", Json.arr ((closedReport f).map Json.str).toArray),
      ("nodes", Json.num f.nodes.length), ("ids", Json.num f.ids.length)])
  | "flow.bisim" => do
    let a ← flowOfJ (← j.getObjVal? "a")
    let b ← flowOfJ (← j.getObjVal? "b")
    bisimJ (lvlOfJ j) a b
  | "flow.refcheck" => do
    -- reference interpretation of the parsed rows vs the real compiled flow
    let rows ← (← getArr j "rows").toList.mapM rrowOfJ
    let b ← flowOfJ (← j.getObjVal? "flow")
    match refFlow rows with
    | .error e => pure (Json.mkObj [("wf", Json.bool false), ("err", Json.str (reprStr e))])
    | .ok a =>
      let r ← bisimJ (lvlOfJ j) a b
      pure (r.setObjVal! "wf" (Json.bool true)
        |>.setObjVal! "refClosed" (Json.bool (closedB a))
        |>.setObjVal! "refNodes" (Json.num a.nodes.length))
  | "flow.trace" => do
    let f ← flowOfJ (← j.getObjVal? "flow")
    let lvl := lvlOfJ j
    let path ← (← getArr j "path").toList.mapM (fun x => x.getNat?)
    pure (Json.arr ((traceAlong (sysOf lvl f) (start f) path).map obsJ).toArray)
  | _ => throw s!"unknown op {op}"

end Rpft.Drv.FlowD
