/-
Driver ops for M5 (`export.*`): the exporter model instantiated at `U := Str`.

`export.rows`: `{"numbered": bool, "nodes": [{"uuid", "short", "rows": [[payload, obj_id|null]…],
"edges": [[label, destination|null]…]}…]}` ↦ `{"rows": [{"id","payload","edges":[[from,label]…],
"goto":[…]}…], "node_ids": […], "obj_ids": […]}` or `{"err": kind}`.

`export.graph`: READING of final rows as a graph (`Rpft/ExportGraph.lean`):
`{"rows": [{"id", "node": _nodeId|null, "edges": [[from,label]…], "goto": […]}…]}` ↦
`{"edges": [[src|null,label,dst]…], "groups": [[row id, first row of its node]…], "node_edges": […]}`.
-/
import Rpft.Drv.Json
import Rpft.Export
import Rpft.ExportGraph
namespace Rpft.Drv.ExportD
open Rpft.Drv
open Lean Rpft Rpft.Export

def arrAt (a : Array Json) (i : Nat) : Except String Json :=
  match a[i]? with
  | some j => pure j
  | none => throw "index"

/-- falsy (`null`, `""`) ↦ `none` -/
def asOptId (j : Json) : Except String (Option Str) :=
  match j with
  | Json.null => pure none
  | Json.str s => pure (if s.isEmpty then none else some s.toList)
  | _ => throw "id"

def asPair (j : Json) : Except String (Str × Option Str) := do
  let a ← j.getArr?
  let s ← asStr (← arrAt a 0)
  let o ← asOptId (← arrAt a 1)
  pure (s, o)

def asNode (j : Json) : Except String (NodeX Str) := do
  let uuid ← getStr j "uuid"
  let short ← getStr j "short"
  let rows ← (← getArr j "rows").toList.mapM asPair
  let edges ← (← getArr j "edges").toList.mapM asPair
  pure { uuid, short, rows, edges }

def errJ : Err → Json
  | .fuel => Json.str "fuel"
  | .noNode => Json.str "noNode"
  | .noRows => Json.str "noRows"
  | .keyError => Json.str "keyError"
  | .counterFuel => Json.str "counterFuel"

def rowJ (r : RowS) : Json :=
  Json.mkObj [("id", strJ r.id), ("payload", strJ r.payload),
    ("edges", Json.arr (r.edges.map (fun e => Json.arr #[strJ e.1, strJ e.2])).toArray),
    ("goto", strListJ r.goto)]

def asGraphRow (j : Json) : Except String (RowS × Option Str) := do
  let id ← getStr j "id"
  let node ← asOptId ((j.getObjVal? "node").toOption.getD Json.null)
  let edges ← (← getArr j "edges").toList.mapM (fun e => do
    let a ← e.getArr?
    pure ((← asStr (← arrAt a 0)), (← asStr (← arrAt a 1))))
  let goto ← (← getArr j "goto").toList.mapM asStr
  pure ({ id, payload := [], edges, goto }, node)

def sedgeJ (e : SEdge Str) : Json := Json.arr #[optStrJ e.src, strJ e.label, strJ e.dst]

def handleExport (op : String) (j : Json) : Except String Json := do
  match op with
  | "export.graph" => do
    let rows ← (← getArr j "rows").toList.mapM asGraphRow
    let es := edgesOfS (rows.map (·.1))
    let g := groupRows ((rows.filter (fun r => r.1.goto.isEmpty)).map (fun r => (r.1.id, r.2, r.1.cells)))
    pure (Json.mkObj [("edges", Json.arr (es.map sedgeJ).toArray),
      ("groups", Json.arr (g.map (fun p => Json.arr #[strJ p.1, strJ p.2])).toArray),
      ("node_edges", Json.arr ((nodeEdges g es).map sedgeJ).toArray)])
  | "export.rows" => do
    let nodes ← (← getArr j "nodes").toList.mapM asNode
    let numbered := getBoolD j "numbered" false
    match toRowsT nodes with
    | .error e => pure (Json.mkObj [("err", errJ e)])
    | .ok rowsT =>
      match remap numbered rowsT with
      | .error e => pure (Json.mkObj [("err", errJ e)])
      | .ok rows =>
        pure (Json.mkObj [("rows", Json.arr (rows.map rowJ).toArray),
          ("node_ids", Json.arr (rowsT.map (fun r => optStrJ r.nodeId)).toArray),
          ("obj_ids", Json.arr (rowsT.map (fun r => optStrJ r.objId)).toArray)])
  | _ => throw s!"unknown op {op}"

end Rpft.Drv.ExportD
