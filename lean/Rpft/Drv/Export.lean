/-
Driver ops for M5 (`export.*`): the exporter model instantiated at `U := Str`.

`export.rows`: `{"numbered": bool, "nodes": [{"uuid", "short", "rows": [[payload, obj_id|null]…],
"edges": [[label, destination|null]…]}…]}` ↦ `{"rows": [{"id","payload","edges":[[from,label]…],
"goto":[…]}…], "node_ids": […], "obj_ids": […]}` or `{"err": kind}`.
-/
import Rpft.Drv.Json
import Rpft.Export
namespace Rpft.Drv.ExportD
open Rpft.Drv
open Lean Rpft Rpft.Export

def arrAt (a : Array Json) (i : Nat) : Except String Json :=
  match a[i]? with
  | some j => pure j
  | none => throw "index"

/-- falsy (`null`, `""`) ↦ `none` -/
def asOptId (j : Json) : Except String (Option Str) :=
  match j with
  | Json.null => pure none
  | Json.str s => pure (if s.isEmpty then none else some s.toList)
  | _ => throw "id"

def asPair (j : Json) : Except String (Str × Option Str) := do
  let a ← j.getArr?
  let s ← asStr (← arrAt a 0)
  let o ← asOptId (← arrAt a 1)
  pure (s, o)

def asNode (j : Json) : Except String (NodeX Str) := do
  let uuid ← getStr j "uuid"
  let short ← getStr j "short"
  let rows ← (← getArr j "rows").toList.mapM asPair
  let edges ← (← getArr j "edges").toList.mapM asPair
  pure { uuid, short, rows, edges }

def errJ : Err → Json
  | .fuel => Json.str "fuel"
  | .noNode => Json.str "noNode"
  | .noRows => Json.str "noRows"
  | .keyError => Json.str "keyError"
  | .counterFuel => Json.str "counterFuel"

def rowJ (r : RowS) : Json :=
  Json.mkObj [("id", strJ r.id), ("payload", strJ r.payload),
    ("edges", Json.arr (r.edges.map (fun e => Json.arr #[strJ e.1, strJ e.2])).toArray),
    ("goto", strListJ r.goto)]

def handleExport (op : String) (j : Json) : Except String Json := do
  match op with
  | "export.rows" => do
    let nodes ← (← getArr j "nodes").toList.mapM asNode
    let numbered := getBoolD j "numbered" false
    match toRowsT nodes with
    | .error e => pure (Json.mkObj [("err", errJ e)])
    | .ok rowsT =>
      match remap numbered rowsT with
      | .error e => pure (Json.mkObj [("err", errJ e)])
      | .ok rows =>
        pure (Json.mkObj [("rows", Json.arr (rows.map rowJ).toArray),
          ("node_ids", Json.arr (rowsT.map (fun r => optStrJ r.nodeId)).toArray),
          ("obj_ids", Json.arr (rowsT.map (fun r => optStrJ r.objId)).toArray)])
  | _ => throw s!"unknown op {op}"

end Rpft.Drv.ExportD
