/-
Driver ops for C13 (`det.*`): the logger stack machine, the UUIDDict model, the first-occurrence
canonicaliser.
  det.stack  {"calls":[Prog…], "stack":[…]?, "leaky":bool?}  → per call {ok, err, records, stack, depth}
             Prog = {"w":msg} | {"f":msg} | {"c":name,"b":[Prog…]} | {"a":[Prog…]}
  det.uuid   {"ops":[{"k":"flow"|"group","name":s,"uuid":s|null} | {"k":"generate"}]}
             → {"flow":[[name,uuid|null]…], "group":[…], "errors":[index…], "drawn":n}
  det.canon  {"tree":T}  T = {"g":s} | {"i":s} | {"n":label,"l":T,"r":T}  → T with ids "#k"
-/
import Rpft.Drv.Json
import Rpft.Determinism
namespace Rpft.Drv.DetD
open Rpft.Drv
open Lean Rpft Rpft.Det

partial def progOfJ (j : Json) : Except String Prog := do
  match j.getObjVal? "w" with
  | .ok v => do let s ← asStr v; pure (.work s)
  | .error _ =>
  match j.getObjVal? "f" with
  | .ok v => do let s ← asStr v; pure (.fail s)
  | .error _ =>
  match j.getObjVal? "c" with
  | .ok v => do
      let n ← asStr v
      let b ← getArr j "b"
      let ps ← b.toList.mapM progOfJ
      pure (.call n ps)
  | .error _ => do
      let b ← getArr j "a"
      let ps ← b.toList.mapM progOfJ
      pure (.attempt ps)

def recordJ (r : List Str × Str) : Json :=
  Json.mkObj [("stack", strListJ r.1), ("msg", strJ r.2)]

def runCalls (leaky : Bool) : List Prog → LState → List Json → List Json
  | [], _, acc => acc.reverse
  | p :: ps, st, acc =>
    let r := if leaky then execLeaky p st else exec p st
    let recs := (r.2.seen).drop st.seen.length
    let out := Json.mkObj [
      ("ok", Json.bool (match r.1 with | .ok _ => true | .error _ => false)),
      ("err", match r.1 with | .ok _ => Json.null | .error e => strJ e),
      ("records", Json.arr (recs.map recordJ).toArray),
      ("stack", strListJ r.2.stack),
      ("depth", Json.num r.2.vars.length)]
    runCalls leaky ps r.2 (out :: acc)

def dictJ (d : PyDict) : Json :=
  Json.arr (d.map (fun e => Json.arr #[strJ e.1, optStrJ e.2])).toArray

structure UState where
  flow : PyDict
  group : PyDict
  ctr : Nat
  errors : List Nat

def uuidStep (st : UState) (idx : Nat) (j : Json) : Except String UState := do
  let k ← getStr j "k"
  if k = "generate".toList then
    -- generate_missing_uuids: flow_dict first, then group_dict, one id source
    let f := generateMissing st.flow st.ctr
    let g := generateMissing st.group f.2
    pure { st with flow := f.1, group := g.1, ctr := g.2 }
  else
    let name ← getStr j "name"
    let u ← asOptStr (← j.getObjVal? "uuid")
    if k = "flow".toList then
      match recordUuid st.flow name u with
      | .ok d => pure { st with flow := d }
      | .error _ => pure { st with errors := st.errors ++ [idx] }
    else
      match recordUuid st.group name u with
      | .ok d => pure { st with group := d }
      | .error _ => pure { st with errors := st.errors ++ [idx] }

def uuidRun (ops : List Json) : Except String UState := do
  let mut st : UState := ⟨[], [], 0, []⟩
  let mut i := 0
  for o in ops do
    st ← uuidStep st i o
    i := i + 1
  pure st

partial def treeOfJ (j : Json) : Except String (Tree Str) := do
  match j.getObjVal? "g" with
  | .ok v => do let s ← asStr v; pure (.given s)
  | .error _ =>
  match j.getObjVal? "i" with
  | .ok v => do let s ← asStr v; pure (.inv s)
  | .error _ => do
      let lb ← getStr j "n"
      let l ← treeOfJ (← j.getObjVal? "l")
      let r ← treeOfJ (← j.getObjVal? "r")
      pure (.node lb l r)

def treeJ : Tree Nat → Json
  | .given g => Json.mkObj [("g", strJ g)]
  | .inv k => Json.mkObj [("i", strJ (inventedName k))]
  | .node lb l r => Json.mkObj [("n", strJ lb), ("l", treeJ l), ("r", treeJ r)]

def handleDet (op : String) (j : Json) : Except String Json := do
  match op with
  | "det.stack" => do
      let calls ← getArr j "calls"
      let ps ← calls.toList.mapM progOfJ
      let stack := match j.getObjVal? "stack" with
        | .ok v => (asStrList v).toOption.getD []
        | .error _ => []
      let st : LState := ⟨stack, stack.map (fun _ => []), []⟩
      pure (Json.arr (runCalls (getBoolD j "leaky" false) ps st []).toArray)
  | "det.uuid" => do
      let ops ← getArr j "ops"
      let st ← uuidRun ops.toList
      pure (Json.mkObj [("flow", dictJ st.flow), ("group", dictJ st.group),
        ("errors", Json.arr (st.errors.map (fun (n : Nat) => (n : Json))).toArray), ("drawn", Json.num st.ctr)])
  | "det.canon" => do
      let t ← treeOfJ (← j.getObjVal? "tree")
      pure (treeJ (canon t))
  | _ => throw s!"unknown op {op}"

end Rpft.Drv.DetD
