import Rpft.Drv.Json
import Rpft.Drv.Sheets
import Rpft.Drv.Csv
import Rpft.JsonText
import Rpft.Sheets
namespace Rpft.Drv.JsonTextD
open Rpft.Drv
open Lean Rpft Rpft.JsonText Rpft.Sheets

def errName : JErr → String
  | .unterminated => "unterminated"
  | .controlChar => "controlChar"
  | .invalidEscape => "invalidEscape"
  | .invalidUnicodeEscape => "invalidUnicodeEscape"
  | .loneSurrogate => "loneSurrogate"

def derrName : DErr → String
  | .str e => errName e
  | .expectingValue => "expectingValue"
  | .expectingPropertyName => "expectingPropertyName"
  | .expectingColon => "expectingColon"
  | .expectingComma => "expectingComma"
  | .extraData => "extraData"
  | .bom => "bom"
  | .unsupported => "unsupported"
  | .fuel => "fuel"

mutual
/-- str → "s"; array → {"a": […]}; object → {"o": [[key, value] …]} (member order kept) -/
def jvJ : JV → Json
  | .str s => strJ s
  | .arr xs => Json.mkObj [("a", Json.arr (jvsJ xs).toArray)]
  | .obj ms => Json.mkObj [("o", Json.arr (jmsJ ms).toArray)]
def jvsJ : JVs → List Json
  | .nil => []
  | .cons x xs => jvJ x :: jvsJ xs
def jmsJ : JMs → List Json
  | .nil => []
  | .cons k v ms => Json.arr #[strJ k, jvJ v] :: jmsJ ms
end

def sheetObjJ (s : Sheet) : Json :=
  Json.mkObj [("name", strJ s.name), ("headers", strListJ s.headers), ("rows", SheetsD.gridJ s.rows)]

def loadedJ : Except JsonLoadErr Workbook → Json
  | .ok w => Json.mkObj [("ok", Json.arr (w.map sheetObjJ).toArray)]
  | .error .decode => Json.mkObj [("err", Json.str "decode")]
  | .error (.json e) => Json.mkObj [("err", Json.str (derrName e))]
  | .error .shape => Json.mkObj [("err", Json.str "shape")]
  | .error (.sheet e) => SheetsD.errJ e

def handleJsonText (op : String) (j : Json) : Except String Json := do
  match op with
  | "jsontext.encode" => do
      -- `json.dumps(s, ensure_ascii=False)` of a str
      let t ← getStr j "text"
      pure (strJ (encodeString t))
  | "jsontext.scan" => do
      -- `json.decoder.scanstring(text, 1)` on a text that starts with the opening quote
      let t ← getStr j "text"
      pure (match scanStr t with
        | .ok (s, rest) => Json.mkObj [("ok", Json.arr #[strJ s, strJ rest])]
        | .error e => Json.mkObj [("err", Json.str (errName e))])
  | "jsontext.loads" => do
      -- `json.loads(text)` for documents of strings / arrays / objects
      let t ← getStr j "text"
      pure (match loads t with
        | .ok v => Json.mkObj [("ok", jvJ v)]
        | .error e => Json.mkObj [("err", Json.str (derrName e))])
  | "jsontext.dumpbook" => do
      -- `to_json(reader)` for the sheets of a reader
      let a ← getArr j "sheets"
      let w ← a.toList.mapM SheetsD.sheetOfJ
      pure (strJ (toJsonText w))
  | "jsontext.loadbook" => do
      -- `JSONSheetReader(file)` on the bytes of the file
      let b ← j.getObjVal? "bytes"
      let b ← CsvD.bytesOfJ b
      pure (loadedJ (loadJson b))
  | _ => throw s!"unknown op {op}"

end Rpft.Drv.JsonTextD
