import Rpft.Drv.Json
import Rpft.JsonText
namespace Rpft.Drv.JsonTextD
open Rpft.Drv
open Lean Rpft Rpft.JsonText

def errName : JErr → String
  | .unterminated => "unterminated"
  | .controlChar => "controlChar"
  | .invalidEscape => "invalidEscape"
  | .invalidUnicodeEscape => "invalidUnicodeEscape"
  | .loneSurrogate => "loneSurrogate"

def handleJsonText (op : String) (j : Json) : Except String Json := do
  match op with
  | "jsontext.encode" => do
      -- `json.dumps(s, ensure_ascii=False)` of a str
      let t ← getStr j "text"
      pure (strJ (encodeString t))
  | "jsontext.scan" => do
      -- `json.decoder.scanstring(text, 1)` on a text that starts with the opening quote
      let t ← getStr j "text"
      pure (match scanStr t with
        | .ok (s, rest) => Json.mkObj [("ok", Json.arr #[strJ s, strJ rest])]
        | .error e => Json.mkObj [("err", Json.str (errName e))])
  | _ => throw s!"unknown op {op}"

end Rpft.Drv.JsonTextD
