import Rpft.Drv.Json
import Rpft.Compile
import Rpft.CompileRender
import Rpft.Gen.Tables
namespace Rpft.Drv.CompileD
open Rpft.Drv
open Lean Rpft Rpft.Compile

def optStr (j : Json) (k : String) : Option Str :=
  match j.getObjVal? k with
  | .ok (Json.str s) => some s.toList
  | _ => none

def condOfJ (j : Json) : Compile.Cond :=
  { value := getStrD j "value" [], var := getStrD j "variable" [],
    type := getStrD j "type" [], name := getStrD j "name" [] }

def edgeOfJ (j : Json) : Except String Compile.Edge := do
  let c ← j.getObjVal? "condition"
  pure { from_ := getStrD j "from" [], cond := condOfJ c }

def edgesOfJ (j : Json) (k : String) : Except String (List Compile.Edge) := do
  (← getArr j k).toList.mapM edgeOfJ

def rowOfJ (j : Json) : Except String Row := do
  let dests ← match j.getObjVal? "dests" with
    | .ok d => asStrList d
    | .error _ => pure []
  pure { rowId := getStrD j "row_id" [], type := getStrD j "type" [], edges := ← edgesOfJ j "edges",
         action := optStr j "action", actionOk := getBoolD j "action_ok" true,
         ownAction := optStr j "own_action",
         nodeUuid := getStrD j "node_uuid" [], nodeName := getStrD j "node_name" [],
         saveName := getStrD j "save_name" [], noResponse := getStrD j "no_response" [],
         expression := getStrD j "expression" [], flowName := getStrD j "flow_name" [],
         dests := dests, resultKey := optStr j "result_key", nodeOk := getBoolD j "node_ok" true }

partial def eventOfJ (j : Json) : Except String Event := do
  let k ← getStr j "ev"
  if k = "row".toList then pure (.row (← rowOfJ (← j.getObjVal? "row")))
  else if k = "insert".toList then do
    let body ← (← getArr j "events").toList.mapM eventOfJ
    pure (.insert (← rowOfJ (← j.getObjVal? "row")) body)
  else if k = "open".toList then pure (.openGroup (← edgesOfJ j "edges") (getBoolD j "starting" false))
  else if k = "close".toList then pure (.closeGroup (getStrD j "row_id" []))
  else throw "event kind"

/-! JSON of the RENDERED node (`Compile.renderNode : NodeM → Flow.Node`): what is compared with the
real compiler's output is exactly the structure the theorems of `Props/C01` speak about -/

def fExitJ (e : Flow.Exit) : Json :=
  Json.mkObj [("uuid", strJ e.uuid), ("destination_uuid", match e.dest with | some d => strJ d | none => Json.null)]

def fCatJ (c : Flow.Category) : Json :=
  Json.mkObj [("uuid", strJ c.uuid), ("name", strJ c.name), ("exit_uuid", strJ c.exitUuid)]

def fCaseJ (k : Flow.Case) : Json :=
  Json.mkObj [("uuid", strJ k.uuid), ("type", strJ k.type), ("category_uuid", strJ k.catUuid),
    ("arguments", strListJ k.args)]

def fRouterJ : Flow.Router → Json
  | .switch operand cases cats d w rn =>
    let base := [("type", Json.str "switch"), ("operand", strJ operand),
      ("cases", Json.arr (cases.map fCaseJ).toArray),
      ("categories", Json.arr (cats.map fCatJ).toArray),
      ("default_category_uuid", strJ d)]
    let wait := match w with
      | some (some (secs, t)) => [("wait", Json.mkObj [("type", Json.str "msg"),
          ("timeout", Json.mkObj [("seconds", Json.num (secs : JsonNumber)), ("category_uuid", strJ t)])])]
      | some none => [("wait", Json.mkObj [("type", Json.str "msg")])]
      | none => []
    let rnj := match rn with
      | some n => [("result_name", strJ n)]
      | none => []
    Json.mkObj (base ++ wait ++ rnj)
  | .random cats rn =>
    let rnj := match rn with
      | some n => [("result_name", strJ n)]
      | none => []
    Json.mkObj ([("type", Json.str "random"), ("categories", Json.arr (cats.map fCatJ).toArray)] ++ rnj)

def nodeJ (n0 : NodeM) : Json :=
  let n := renderNode n0
  Json.mkObj [("uuid", strJ n.uuid),
    ("actions", Json.arr (n.actions.map fun a => Json.mkObj [("uuid", strJ a.uuid), ("obs", strJ a.obs)]).toArray),
    ("router", match n.router with | some r => fRouterJ r | none => Json.null),
    ("exits", Json.arr (n.exits.map fExitJ).toArray)]

def errJ : Err → Json
  | .critical w => Json.mkObj [("err", Json.str "critical"), ("what", Json.str w)]
  | .exc w => Json.mkObj [("err", Json.str "exception"), ("what", Json.str w)]
  | .unsupported w => Json.mkObj [("err", Json.str "unsupported"), ("what", Json.str w)]
  | .fuel => Json.mkObj [("err", Json.str "fuel")]

def handleCompile (op : String) (j : Json) : Except String Json := do
  match op with
  | "compile.run" => do
    let evs ← (← getArr j "events").toList.mapM eventOfJ
    match compile Gen.routerNoArgsTests Gen.routerTestTypes evs with
    | .ok out => pure (Json.mkObj [("nodes", Json.arr (out.nodes.map nodeJ).toArray)])
    | .error e => pure (errJ e)
  | _ => throw s!"unknown op {op}"

end Rpft.Drv.CompileD
