import Rpft.Drv.Json
import Rpft.Compile
import Rpft.Gen.Tables
namespace Rpft.Drv.CompileD
open Rpft.Drv
open Lean Rpft Rpft.Compile

def optStr (j : Json) (k : String) : Option Str :=
  match j.getObjVal? k with
  | .ok (Json.str s) => some s.toList
  | _ => none

def condOfJ (j : Json) : Compile.Cond :=
  { value := getStrD j "value" [], var := getStrD j "variable" [],
    type := getStrD j "type" [], name := getStrD j "name" [] }

def edgeOfJ (j : Json) : Except String Compile.Edge := do
  let c ← j.getObjVal? "condition"
  pure { from_ := getStrD j "from" [], cond := condOfJ c }

def edgesOfJ (j : Json) (k : String) : Except String (List Compile.Edge) := do
  (← getArr j k).toList.mapM edgeOfJ

def rowOfJ (j : Json) : Except String Row := do
  let dests ← match j.getObjVal? "dests" with
    | .ok d => asStrList d
    | .error _ => pure []
  pure { rowId := getStrD j "row_id" [], type := getStrD j "type" [], edges := ← edgesOfJ j "edges",
         action := optStr j "action", actionOk := getBoolD j "action_ok" true,
         ownAction := optStr j "own_action",
         nodeUuid := getStrD j "node_uuid" [], nodeName := getStrD j "node_name" [],
         saveName := getStrD j "save_name" [], noResponse := getStrD j "no_response" [],
         expression := getStrD j "expression" [], flowName := getStrD j "flow_name" [],
         dests := dests, resultKey := optStr j "result_key", nodeOk := getBoolD j "node_ok" true }

partial def eventOfJ (j : Json) : Except String Event := do
  let k ← getStr j "ev"
  if k = "row".toList then pure (.row (← rowOfJ (← j.getObjVal? "row")))
  else if k = "insert".toList then do
    let body ← (← getArr j "events").toList.mapM eventOfJ
    pure (.insert (← rowOfJ (← j.getObjVal? "row")) body)
  else if k = "open".toList then pure (.openGroup (← edgesOfJ j "edges") (getBoolD j "starting" false))
  else if k = "close".toList then pure (.closeGroup (getStrD j "row_id" []))
  else throw "event kind"

def destJ : Dest → Json
  | .node u => strJ u
  | _ => Json.null

def catJ (c : Cat) : Json :=
  Json.mkObj [("uuid", strJ c.uid), ("name", strJ c.name), ("exit_uuid", strJ c.exitUid)]

def exitJ (c : Cat) : Json :=
  Json.mkObj [("uuid", strJ c.exitUid), ("destination_uuid", destJ c.dest)]

def caseJ (k : Compile.Case) : Json :=
  Json.mkObj [("uuid", strJ k.uid), ("type", strJ k.type), ("category_uuid", strJ k.catUid),
    ("arguments", Json.arr (k.args.map fun a => match a with | some s => strJ s | none => Json.null).toArray)]

def routerJ : RouterM → Json
  | .sw r =>
    let base := [("type", Json.str "switch"), ("operand", strJ r.operand),
      ("cases", Json.arr (r.cases.map caseJ).toArray),
      ("categories", Json.arr (r.allCats.map catJ).toArray),
      ("default_category_uuid", strJ r.dflt.uid)]
    let wait := match r.wait, r.noResp with
      | some (n + 1), some nr => [("wait", Json.mkObj [("type", Json.str "msg"),
          ("timeout", Json.mkObj [("seconds", Json.num ((n + 1 : Nat) : JsonNumber)), ("category_uuid", strJ nr.uid)])])]
      | some _, _ => [("wait", Json.mkObj [("type", Json.str "msg")])]
      | none, _ => []
    let rn := match r.resultName with
      | some n => [("result_name", strJ n)]
      | none => []
    Json.mkObj (base ++ wait ++ rn)
  | .rnd r =>
    let rn := match r.resultName with
      | some n => if n.isEmpty then [] else [("result_name", strJ n)]
      | none => []
    Json.mkObj ([("type", Json.str "random"), ("categories", Json.arr (r.cats.map catJ).toArray)] ++ rn)

def nodeJ (n : NodeM) : Json :=
  let exits := match n.router with
    | none => [Json.mkObj [("uuid", strJ n.dexitUid), ("destination_uuid", destJ n.dexitDest)]]
    | some (.sw r) => r.allCats.map exitJ
    | some (.rnd r) => r.cats.map exitJ
  Json.mkObj [("uuid", strJ n.uid),
    ("actions", Json.arr (n.actions.map fun (u, a) => Json.mkObj [("uuid", strJ u), ("obs", strJ a)]).toArray),
    ("router", match n.router with | some r => routerJ r | none => Json.null),
    ("exits", Json.arr exits.toArray)]

def errJ : Err → Json
  | .critical w => Json.mkObj [("err", Json.str "critical"), ("what", Json.str w)]
  | .exc w => Json.mkObj [("err", Json.str "exception"), ("what", Json.str w)]
  | .unsupported w => Json.mkObj [("err", Json.str "unsupported"), ("what", Json.str w)]
  | .fuel => Json.mkObj [("err", Json.str "fuel")]

def handleCompile (op : String) (j : Json) : Except String Json := do
  match op with
  | "compile.run" => do
    let evs ← (← getArr j "events").toList.mapM eventOfJ
    match compile Gen.routerNoArgsTests Gen.routerTestTypes evs with
    | .ok out => pure (Json.mkObj [("nodes", Json.arr (out.nodes.map nodeJ).toArray)])
    | .error e => pure (errJ e)
  | _ => throw s!"unknown op {op}"

end Rpft.Drv.CompileD
