import Rpft.Drv.Json
import Rpft.Bulk
namespace Rpft.Drv.BulkD
open Rpft.Drv
open Lean Rpft Rpft.Bulk

/-- `[[key, value], …]` -/
def pairsOfJ {α : Type} (f : Json → Except String α) (j : Json) : Except String (List (Str × α)) := do
  let a ← j.getArr?
  a.toList.mapM (fun e => do
    let p ← e.getArr?
    match p.toList with
    | [k, v] => do let k ← asStr k; let v ← f v; pure (k, v)
    | _ => throw "pair")

def pairsJ {α : Type} (f : α → Json) (xs : List (Str × α)) : Json :=
  Json.arr (xs.map (fun p => Json.arr #[strJ p.1, f p.2])).toArray

def bulkRowOfJ (j : Json) : Except String (Row Json) := pairsOfJ pure j
def bulkSheetOfJ (j : Json) : Except String (DataSheet Json) := pairsOfJ bulkRowOfJ j
def bulkSheetsOfJ (j : Json) : Except String (List (Str × DataSheet Json)) := pairsOfJ bulkSheetOfJ j

def argDefOfJ (j : Json) : Except String ArgDef := do
  let p ← j.getArr?
  match p.toList with
  | [n, t, d] => do
      let n ← asStr n; let t ← asStr t; let d ← asStr d
      pure { name := n, type := t, default := d }
  | _ => throw "argdef"

def argDefsOfJ (j : Json) : Except String (List ArgDef) := do
  let a ← j.getArr?
  a.toList.mapM argDefOfJ

def bulkRowJ (r : Row Json) : Json := pairsJ id r
def bulkSheetJ (d : DataSheet Json) : Json := pairsJ bulkRowJ d

def cvalJ : CVal Json → Json
  | .data v => Json.mkObj [("data", v)]
  | .text s => Json.mkObj [("text", strJ s)]
  | .sheet rows => Json.mkObj [("sheet", bulkSheetJ rows)]

def cvalOfJ (j : Json) : Except String (CVal Json) :=
  match j.getObjVal? "data" with
  | .ok v => pure (.data v)
  | .error _ =>
    match j.getObjVal? "text" with
    | .ok v => do let s ← asStr v; pure (.text s)
    | .error _ =>
      match j.getObjVal? "sheet" with
      | .ok v => do let d ← bulkSheetOfJ v; pure (.sheet d)
      | .error _ => throw "cval"

def ctxJ (c : Ctx Json) : Json := pairsJ cvalJ c

def bulkErrJ : Err → Json
  | .argDoublyDefined n => Json.arr #[Json.str "argDoublyDefined", strJ n]
  | .argMissing n => Json.arr #[Json.str "argMissing", strJ n]
  | .sheetNotFound n => Json.arr #[Json.str "sheetNotFound", strJ n]
  | .rowNotFound s i => Json.arr #[Json.str "rowNotFound", strJ s, strJ i]
  | .templateNotFound n => Json.arr #[Json.str "templateNotFound", strJ n]
  | .rowIdWithoutSheet => Json.arr #[Json.str "rowIdWithoutSheet"]

def flowRowOfJ (j : Json) : Except String FlowRow := do
  let args ← (← j.getObjVal? "args") |> asStrList
  pure { sheetName := ← getStr j "sheet_name", newName := getStrD j "new_name" [],
         dataSheet := getStrD j "data_sheet" [], dataRowId := getStrD j "data_row_id" [], args := args }

def handleBulk (op : String) (j : Json) : Except String Json := do
  match op with
  | "bulk.mapargs" => do
      let sheets ← bulkSheetsOfJ (← j.getObjVal? "sheets")
      let defs ← argDefsOfJ (← j.getObjVal? "defs")
      let args ← asStrList (← j.getObjVal? "args")
      let ctx ← pairsOfJ cvalOfJ (← j.getObjVal? "ctx")
      let warn := tooManyWarn defs args
      match mapArgs sheets defs args ctx with
      | .ok c => pure (Json.mkObj [("ok", ctxJ c), ("warn", Json.bool warn)])
      | .error e => pure (Json.mkObj [("err", bulkErrJ e), ("warn", Json.bool warn)])
  | "bulk.run" => do
      let sheets ← bulkSheetsOfJ (← j.getObjVal? "sheets")
      let templates ← pairsOfJ argDefsOfJ (← j.getObjVal? "templates")
      let rows ← (← getArr j "rows").toList.mapM flowRowOfJ
      -- the "compiler" returns what it was given: template sheet and context
      let env : Env Json Json :=
        { sheets := sheets, templates := templates,
          compile := fun t _ c => Json.mkObj [("template", strJ t), ("ctx", ctxJ c)] }
      match parseAllFlows env rows with
      | .ok fl => pure (Json.mkObj [("ok", pairsJ id fl)])
      | .error e => pure (Json.mkObj [("err", bulkErrJ e)])
  | _ => throw s!"unknown op {op}"

end Rpft.Drv.BulkD
