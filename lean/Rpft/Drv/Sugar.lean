import Rpft.Drv.Json
import Rpft.Sugar
namespace Rpft.Drv.SugarD
open Rpft.Drv
open Lean Rpft Rpft.Sugar

abbrev Ctx := List (Str × Str)      -- loop bindings, sorted by variable name

structure InstRec where
  pos : Nat
  key : Ctx
  incl : Bool
  lv : Option (Str × Option Str)
  iter : List Str
  deriving Repr

/-- list order on strings (code points) -/
def strLt : Str → Str → Bool
  | [], [] => false
  | [], _ :: _ => true
  | _ :: _, [] => false
  | a :: as, b :: bs => if a.toNat < b.toNat then true else if a.toNat > b.toNat then false else strLt as bs

def insertSorted (p : Str × Str) : Ctx → Ctx
  | [] => [p]
  | q :: qs => if strLt p.1 q.1 then p :: q :: qs else q :: insertSorted p qs

def bindCtx (ctx : Ctx) (v : Str) (x : Str) : Ctx :=
  insertSorted (v, x) (ctx.filter fun q => q.1 ≠ v)

def ctxOfJ (j : Json) : Except String Ctx := do
  let a ← j.getArr?
  a.toList.mapM fun p => do
    let q ← p.getArr?
    match q.toList with
    | [k, v] => do pure ((← asStr k), (← asStr v))
    | _ => throw "ctx pair"

def ctxJ (c : Ctx) : Json := Json.arr (c.map fun (k, v) => Json.arr #[strJ k, strJ v]).toArray

partial def itemOfJ (j : Json) : Except String (Item Nat) := do
  match j.getObjVal? "row" with
  | .ok p => pure (.row (← p.getNat?))
  | .error _ =>
    let body ← (← getArr j "body").toList.mapM itemOfJ
    match j.getObjVal? "for" with
    | .ok p => pure (.forLoop (← p.getNat?) body)
    | .error _ => do
      let p ← j.getObjVal? "block"
      pure (.block (← p.getNat?) body)

def tableEntryOfJ (j : Json) : Except String InstRec := do
  let lv ← match j.getObjVal? "lv" with
    | .ok (Json.arr a) =>
      match a.toList with
      | [v] => do pure (some ((← asStr v), none))
      | [v, Json.null] => do pure (some ((← asStr v), none))
      | [v, i] => do pure (some ((← asStr v), some (← asStr i)))
      | _ => pure none
    | _ => pure none
  let iter ← match j.getObjVal? "iter" with
    | .ok a => asStrList a
    | .error _ => pure []
  pure { pos := ← getNat j "pos", key := ← ctxOfJ (← j.getObjVal? "key"),
         incl := getBoolD j "incl" true, lv := lv, iter := iter }

def ifaceOf (table : List InstRec) : Iface Nat InstRec Ctx Str (Nat × Ctx) String :=
  { inst := fun ctx r =>
      match table.find? (fun t => t.pos = r ∧ t.key = ctx) with
      | some t => .ok t
      | none => .error s!"row {r} is not instantiated in this context by the real parser"
    includeIf := fun i => i.incl
    loopVars := fun i => i.lv
    iterList := fun i => i.iter
    bind := bindCtx
    bindIdx := fun c i k => bindCtx c i (toString k).toList
    hdr := fun i => (i.pos, i.key)
    noVarErr := "begin_for must have a loop_variable"
    lit := fun i => i.pos
    asBlock := fun i => i }

def evJ : Ev InstRec (Nat × Ctx) → Json
  | .row i => Json.arr #[Json.str "row", Json.num i.pos, ctxJ i.key]
  | .open_ h => Json.arr #[Json.str "open", Json.num h.1]
  | .close h => Json.arr #[Json.str "close", Json.num h.1]

def handleSugar (op : String) (j : Json) : Except String Json := do
  match op with
  | "sugar.events" => do
    let items ← (← getArr j "items").toList.mapM itemOfJ
    let table ← (← getArr j "table").toList.mapM tableEntryOfJ
    let ctx0 ← match j.getObjVal? "ctx" with
      | .ok c => ctxOfJ c
      | .error _ => pure []
    match evItems (ifaceOf table) ctx0 items with
    | .ok es => pure (Json.mkObj [("events", Json.arr (es.map evJ).toArray)])
    | .error e => pure (Json.mkObj [("err", Json.str e)])
  | _ => throw s!"unknown op {op}"

end Rpft.Drv.SugarD
