/-
Driver ops for M9 (`Rpft.Document`): JSON ↔ `DocD` codec, `doc.roundtrip`, `doc.codec`
(self-test: decode then encode), `doc.norm`.
The codec is strict: an object with a key the schema does not know, or a value of the
wrong JSON type, is answered with `{"unsupported": …}` (outside the modelled schema).
`_ui` is reduced to node positions on decode (see `FlowD.ui`).
-/
import Rpft.Drv.Json
import Rpft.Document
import Rpft.DocumentWitness
import Rpft.DocumentUi
namespace Rpft.Drv.DocumentD
open Rpft.Drv
open Lean Rpft Rpft.Document

/-- canonical form: every zero number is written `0` (Python truthiness on text) -/
partial def canonJ : Json → Json
  | .num n => if n.mantissa = 0 then .num 0 else .num n
  | .arr a => .arr (a.map canonJ)
  | .obj kvs => Json.mkObj (kvs.toList.map (fun (k, v) => (k, canonJ v)))
  | j => j

def blobOf (j : Json) : Blob := (canonJ j).compress.toList

def jsonOfBlob (b : Blob) : Json :=
  match Json.parse (String.ofList b) with
  | .ok j => j
  | .error _ => Json.str ("<bad blob> " ++ String.ofList b)

def objPairs (j : Json) (what : String) : Except String (List (String × Json)) :=
  match j with
  | .obj kvs => pure kvs.toList
  | _ => throw s!"{what}: not an object"

/-- all keys known, all required keys present -/
def checkKeys (kvs : List (String × Json)) (what : String) (required optional : List String) :
    Except String Unit := do
  for (k, _) in kvs do
    if !(required.contains k || optional.contains k) then throw s!"{what}: unknown key {k}"
  for k in required do
    if !(kvs.any (·.1 == k)) then throw s!"{what}: missing key {k}"

def fld (kvs : List (String × Json)) (k : String) : Option Json := (kvs.find? (·.1 == k)).map (·.2)

def reqJ (kvs : List (String × Json)) (k : String) : Except String Json :=
  match fld kvs k with
  | some j => pure j
  | none => throw s!"missing {k}"

def reqStr (kvs : List (String × Json)) (k : String) : Except String Str := do
  match ← reqJ kvs k with
  | .str s => pure s.toList
  | _ => throw s!"{k}: not a string"

def reqBlob (kvs : List (String × Json)) (k : String) : Except String Blob := do
  pure (blobOf (← reqJ kvs k))

def optBlob (kvs : List (String × Json)) (k : String) : Option Blob := (fld kvs k).map blobOf

def reqArr (kvs : List (String × Json)) (k : String) : Except String (List Json) := do
  match ← reqJ kvs k with
  | .arr a => pure a.toList
  | _ => throw s!"{k}: not a list"

/-! decode -/

def decGroup (j : Json) : Except String GroupD := do
  let kvs ← objPairs j "group"
  checkKeys kvs "group" ["name", "uuid"] ["query", "status", "system", "count"]
  pure { name := ← reqStr kvs "name", uuid := ← reqStr kvs "uuid", query := optBlob kvs "query",
         status := optBlob kvs "status", system := optBlob kvs "system", count := optBlob kvs "count" }

def decFlowRef (j : Json) : Except String FlowRefD := do
  let kvs ← objPairs j "flow ref"
  checkKeys kvs "flow ref" ["name", "uuid"] []
  pure { name := ← reqStr kvs "name", uuid := ← reqStr kvs "uuid" }

def decExit (j : Json) : Except String ExitD := do
  let kvs ← objPairs j "exit"
  checkKeys kvs "exit" ["uuid"] ["destination_uuid"]
  pure { uuid := ← reqStr kvs "uuid", dest := optBlob kvs "destination_uuid" }

def decCategory (j : Json) : Except String CategoryD := do
  let kvs ← objPairs j "category"
  checkKeys kvs "category" ["uuid", "name", "exit_uuid"] []
  pure { uuid := ← reqStr kvs "uuid", name := ← reqStr kvs "name", exitUuid := ← reqStr kvs "exit_uuid" }

def decCase (j : Json) : Except String CaseD := do
  let kvs ← objPairs j "case"
  checkKeys kvs "case" ["uuid", "type", "arguments", "category_uuid"] []
  let args ← (← reqArr kvs "arguments").mapM asStr
  pure { uuid := ← reqStr kvs "uuid", type := ← reqStr kvs "type", arguments := args,
         categoryUuid := ← reqStr kvs "category_uuid" }

def decWait (j : Json) : Except String WaitD := do
  let kvs ← objPairs j "wait"
  checkKeys kvs "wait" ["type"] ["timeout"]
  let timeout ← match fld kvs "timeout" with
    | none => pure none
    | some t => do
      let tk ← objPairs t "timeout"
      checkKeys tk "timeout" ["seconds", "category_uuid"] []
      let secs ← match ← reqJ tk "seconds" with
        | .num n => if n.exponent = 0 ∧ 0 ≤ n.mantissa then pure n.mantissa.toNat else throw "seconds: not a natural number"
        | _ => throw "seconds: not a number"
      pure (some { seconds := secs, categoryUuid := ← reqStr tk "category_uuid" })
  pure { type := ← reqBlob kvs "type", timeout := timeout }

def decRouter (j : Json) : Except String RouterD := do
  let kvs ← objPairs j "router"
  match ← reqStr kvs "type" with
  | ['r', 'a', 'n', 'd', 'o', 'm'] =>
    checkKeys kvs "random router" ["type", "categories"] ["result_name"]
    let cats ← (← reqArr kvs "categories").mapM decCategory
    pure (.random cats (optBlob kvs "result_name"))
  | ['s', 'w', 'i', 't', 'c', 'h'] =>
    checkKeys kvs "switch router" ["type", "operand", "cases", "categories", "default_category_uuid"] ["wait", "result_name"]
    let cats ← (← reqArr kvs "categories").mapM decCategory
    let cases ← (← reqArr kvs "cases").mapM decCase
    let wait ← match fld kvs "wait" with
      | none => pure none
      | some w => do pure (some (← decWait w))
    pure (.switch (← reqBlob kvs "operand") cases cats (← reqStr kvs "default_category_uuid") wait (optBlob kvs "result_name"))
  | _ => throw "router: invalid type"

def decTemplating (j : Json) : Except String TemplatingD := do
  let kvs ← objPairs j "templating"
  checkKeys kvs "templating" ["uuid", "template", "variables"] []
  let tk ← objPairs (← reqJ kvs "template") "template"
  checkKeys tk "template" ["uuid", "name"] []
  pure { uuid := ← reqStr kvs "uuid", tName := ← reqBlob tk "name", tUuid := ← reqBlob tk "uuid",
         variables := ← reqBlob kvs "variables" }

def passThroughTypes : List String :=
  ["add_contact_urn", "add_input_labels", "call_classifier", "call_resthook", "call_webhook",
   "open_ticket", "play_audio", "say_msg", "send_broadcast", "send_email", "start_session",
   "transfer_airtime"]

def decAction (j : Json) : Except String ActionD := do
  let kvs ← objPairs j "action"
  let typ ← match ← reqJ kvs "type" with
    | .str s => pure s
    | _ => throw "action type: not a string"
  let uuid ← reqBlob kvs "uuid"
  if passThroughTypes.contains typ then
    pure (.passThrough typ.toList (kvs.filter (·.1 != "type") |>.map (fun (k, v) => (k.toList, blobOf v))))
  else if typ == "send_msg" then
    checkKeys kvs "send_msg" ["type", "uuid", "text", "attachments", "quick_replies"] ["all_urns", "topic", "templating"]
    let tm ← match fld kvs "templating" with
      | none => pure none
      | some t => do pure (some (← decTemplating t))
    pure (.sendMsg uuid (← reqBlob kvs "text") ((← reqArr kvs "attachments").map blobOf) (← reqBlob kvs "quick_replies")
      (optBlob kvs "all_urns") (optBlob kvs "topic") tm)
  else if typ == "set_contact_field" then
    checkKeys kvs "set_contact_field" ["type", "uuid", "field", "value"] []
    let fk ← objPairs (← reqJ kvs "field") "field"
    checkKeys fk "field" ["name"] ["key", "type"]
    pure (.setContactField uuid (← reqBlob fk "name") ((optBlob fk "key").getD jNull) (optBlob fk "type") (← reqBlob kvs "value"))
  else if typ.startsWith "set_contact_" then
    let prop := (typ.drop 12).toString
    checkKeys kvs typ ["type", "uuid", prop] []
    pure (.setContactProperty uuid prop.toList (← reqBlob kvs prop))
  else if typ == "add_contact_groups" then
    checkKeys kvs typ ["type", "uuid", "groups"] []
    pure (.addGroups uuid (← (← reqArr kvs "groups").mapM decGroup))
  else if typ == "remove_contact_groups" then
    checkKeys kvs typ ["type", "uuid", "groups"] ["all_groups"]
    pure (.removeGroups uuid (← (← reqArr kvs "groups").mapM decGroup) (optBlob kvs "all_groups"))
  else if typ == "set_run_result" then
    checkKeys kvs typ ["type", "uuid", "name", "value"] ["category"]
    pure (.setRunResult uuid (← reqBlob kvs "name") (← reqBlob kvs "value") (optBlob kvs "category"))
  else if typ == "enter_flow" then
    checkKeys kvs typ ["type", "uuid", "flow"] []
    pure (.enterFlow uuid (← decFlowRef (← reqJ kvs "flow")))
  else throw s!"action: unknown type {typ}"

def decNode (j : Json) : Except String NodeD := do
  let kvs ← objPairs j "node"
  checkKeys kvs "node" ["uuid", "actions", "exits"] ["router"]
  let router ← match fld kvs "router" with
    | none => pure none
    | some r => do pure (some (← decRouter r))
  pure { uuid := ← reqStr kvs "uuid", actions := ← (← reqArr kvs "actions").mapM decAction,
         router := router, exits := ← (← reqArr kvs "exits").mapM decExit }

def decUi (j : Json) : Except String (Option (List (Str × Blob × Blob))) := do
  let kvs ← objPairs j "_ui"
  match fld kvs "nodes" with
  | none => pure none
  | some ns => do
    let es ← objPairs ns "_ui.nodes"
    let ps ← es.mapM (fun (u, e) => do
      let ek ← objPairs e "_ui entry"
      let pk ← objPairs (← reqJ ek "position") "position"
      pure (u.toList, ← reqBlob pk "left", ← reqBlob pk "top"))
    pure (some ps)

def decFlow (j : Json) : Except String FlowD := do
  let kvs ← objPairs j "flow"
  checkKeys kvs "flow" ["uuid", "name", "language", "type", "nodes", "spec_version", "revision",
    "expire_after_minutes", "metadata", "localization"] ["_ui"]
  let ui ← match fld kvs "_ui" with
    | none => pure none
    | some u => decUi u
  pure { uuid := ← reqStr kvs "uuid", name := ← reqStr kvs "name", language := ← reqBlob kvs "language",
         type := ← reqBlob kvs "type", specVersion := ← reqBlob kvs "spec_version",
         revision := ← reqBlob kvs "revision", expire := ← reqBlob kvs "expire_after_minutes",
         metadata := ← reqBlob kvs "metadata", localization := ← reqBlob kvs "localization",
         nodes := ← (← reqArr kvs "nodes").mapM decNode, ui := ui }

def decEvent (j : Json) : Except String EventD := do
  let kvs ← objPairs j "event"
  checkKeys kvs "event" ["uuid", "offset", "unit", "event_type", "delivery_hour", "message", "relative_to", "start_mode"]
    ["flow", "base_language"]
  let rk ← objPairs (← reqJ kvs "relative_to") "relative_to"
  checkKeys rk "relative_to" ["label", "key"] []
  let flow ← match fld kvs "flow" with
    | none => pure none
    | some f => do pure (some (← decFlowRef f))
  pure { uuid := ← reqStr kvs "uuid", offset := ← reqBlob kvs "offset", unit := ← reqBlob kvs "unit",
         eventType := ← reqStr kvs "event_type", deliveryHour := ← reqBlob kvs "delivery_hour",
         message := ← reqBlob kvs "message", relLabel := ← reqBlob rk "label", relKey := ← reqBlob rk "key",
         startMode := ← reqBlob kvs "start_mode", flow := flow, baseLanguage := optBlob kvs "base_language" }

def decCampaign (j : Json) : Except String CampaignD := do
  let kvs ← objPairs j "campaign"
  checkKeys kvs "campaign" ["uuid", "name", "group", "events"] []
  pure { uuid := ← reqStr kvs "uuid", name := ← reqBlob kvs "name", group := ← decGroup (← reqJ kvs "group"),
         events := ← (← reqArr kvs "events").mapM decEvent }

def decTrigger (j : Json) : Except String TriggerD := do
  let kvs ← objPairs j "trigger"
  checkKeys kvs "trigger" ["trigger_type", "flow", "groups", "channel"] ["keyword", "keywords", "match_type", "exclude_groups"]
  let keywords ← match fld kvs "keywords" with
    | none => pure none
    | some (.arr a) => pure (some (a.toList.map blobOf))
    | some _ => throw "keywords: not a list"
  let excl ← match fld kvs "exclude_groups" with
    | none => pure none
    | some (.arr a) => do pure (some (← a.toList.mapM decGroup))
    | some _ => throw "exclude_groups: not a list"
  pure { type := ← reqStr kvs "trigger_type", keyword := optBlob kvs "keyword", keywords := keywords,
         channel := ← reqBlob kvs "channel", matchType := optBlob kvs "match_type",
         flow := ← decFlowRef (← reqJ kvs "flow"), groups := ← (← reqArr kvs "groups").mapM decGroup,
         excludeGroups := excl }

def decDoc (j : Json) : Except String DocD := do
  let kvs ← objPairs j "document"
  checkKeys kvs "document" ["campaigns", "fields", "flows", "groups", "site", "triggers", "version"] []
  pure { campaigns := ← (← reqArr kvs "campaigns").mapM decCampaign, fields := ← reqBlob kvs "fields",
         flows := ← (← reqArr kvs "flows").mapM decFlow, groups := ← (← reqArr kvs "groups").mapM decGroup,
         site := ← reqBlob kvs "site", triggers := ← (← reqArr kvs "triggers").mapM decTrigger,
         version := ← reqBlob kvs "version" }

/-! encode -/

def optKV (k : String) (v : Option Blob) : List (String × Json) :=
  match v with
  | none => []
  | some b => [(k, jsonOfBlob b)]

def encGroup (g : GroupD) : Json :=
  Json.mkObj ([("name", strJ g.name), ("uuid", strJ g.uuid)] ++ optKV "query" g.query ++ optKV "status" g.status
    ++ optKV "system" g.system ++ optKV "count" g.count)

def encFlowRef (f : FlowRefD) : Json := Json.mkObj [("name", strJ f.name), ("uuid", strJ f.uuid)]

def encExit (e : ExitD) : Json := Json.mkObj ([("uuid", strJ e.uuid)] ++ optKV "destination_uuid" e.dest)

def encCategory (c : CategoryD) : Json :=
  Json.mkObj [("uuid", strJ c.uuid), ("name", strJ c.name), ("exit_uuid", strJ c.exitUuid)]

def encCase (c : CaseD) : Json :=
  Json.mkObj [("uuid", strJ c.uuid), ("type", strJ c.type), ("arguments", strListJ c.arguments),
    ("category_uuid", strJ c.categoryUuid)]

def arrJ {α : Type} (f : α → Json) (xs : List α) : Json := Json.arr (xs.map f).toArray

def encRouter : RouterD → Json
  | .random cats rn => Json.mkObj ([("type", Json.str "random"), ("categories", arrJ encCategory cats)] ++ optKV "result_name" rn)
  | .switch op cases cats dflt wait rn =>
    Json.mkObj ([("type", Json.str "switch"), ("operand", jsonOfBlob op), ("cases", arrJ encCase cases),
      ("categories", arrJ encCategory cats), ("default_category_uuid", strJ dflt)]
      ++ (match wait with
          | none => []
          | some w => [("wait", Json.mkObj ([("type", jsonOfBlob w.type)] ++ (match w.timeout with
              | none => []
              | some t => [("timeout", Json.mkObj [("seconds", Json.num (JsonNumber.fromNat t.seconds)), ("category_uuid", strJ t.categoryUuid)])])))])
      ++ optKV "result_name" rn)

def encAction : ActionD → Json
  | .sendMsg u t att q au tp tm =>
    Json.mkObj ([("type", Json.str "send_msg"), ("uuid", jsonOfBlob u), ("text", jsonOfBlob t),
      ("attachments", arrJ jsonOfBlob att), ("quick_replies", jsonOfBlob q)] ++ optKV "all_urns" au ++ optKV "topic" tp
      ++ (match tm with
          | none => []
          | some m => [("templating", Json.mkObj [("uuid", strJ m.uuid), ("variables", jsonOfBlob m.variables),
              ("template", Json.mkObj [("name", jsonOfBlob m.tName), ("uuid", jsonOfBlob m.tUuid)])])]))
  | .setContactField u n k t v =>
    Json.mkObj [("type", Json.str "set_contact_field"), ("uuid", jsonOfBlob u), ("value", jsonOfBlob v),
      ("field", Json.mkObj ([("name", jsonOfBlob n), ("key", jsonOfBlob k)] ++ optKV "type" t))]
  | .setContactProperty u p v =>
    Json.mkObj [("type", Json.str ("set_contact_" ++ String.ofList p)), ("uuid", jsonOfBlob u), (String.ofList p, jsonOfBlob v)]
  | .addGroups u gs => Json.mkObj [("type", Json.str "add_contact_groups"), ("uuid", jsonOfBlob u), ("groups", arrJ encGroup gs)]
  | .removeGroups u gs ag =>
    Json.mkObj ([("type", Json.str "remove_contact_groups"), ("uuid", jsonOfBlob u), ("groups", arrJ encGroup gs)] ++ optKV "all_groups" ag)
  | .setRunResult u n v c =>
    Json.mkObj ([("type", Json.str "set_run_result"), ("uuid", jsonOfBlob u), ("name", jsonOfBlob n), ("value", jsonOfBlob v)] ++ optKV "category" c)
  | .enterFlow u f => Json.mkObj [("type", Json.str "enter_flow"), ("uuid", jsonOfBlob u), ("flow", encFlowRef f)]
  | .passThrough t fs => Json.mkObj (("type", strJ t) :: fs.map (fun (k, v) => (String.ofList k, jsonOfBlob v)))

def encNode (n : NodeD) : Json :=
  Json.mkObj ([("uuid", strJ n.uuid), ("actions", arrJ encAction n.actions), ("exits", arrJ encExit n.exits)]
    ++ (match n.router with | none => [] | some r => [("router", encRouter r)]))

def flowFields (f : FlowD) : List (String × Json) :=
  [("uuid", strJ f.uuid), ("name", strJ f.name), ("language", jsonOfBlob f.language), ("type", jsonOfBlob f.type),
    ("nodes", arrJ encNode f.nodes), ("spec_version", jsonOfBlob f.specVersion), ("revision", jsonOfBlob f.revision),
    ("expire_after_minutes", jsonOfBlob f.expire), ("metadata", jsonOfBlob f.metadata), ("localization", jsonOfBlob f.localization)]

def encFlow (f : FlowD) : Json :=
  Json.mkObj (flowFields f
    ++ (match f.ui with
        | none => []
        | some ps => [("_ui", Json.mkObj [("nodes", Json.mkObj (ps.map (fun (u, l, t) =>
            (String.ofList u, Json.mkObj [("position", Json.mkObj [("left", jsonOfBlob l), ("top", jsonOfBlob t)])]))))])]))

/-- the operand of a switch router as a string (the model keeps it as canonical JSON text) -/
def operandStr (n : NodeD) : Option Str :=
  match n.router with
  | some (.switch op ..) =>
    match Json.parse (String.ofList op) with
    | .ok (.str s) => some s.toList
    | _ => none
  | _ => some []

def encUiConfig : UiConfig → List (String × Json)
  | .absent => []
  | .null => [("config", Json.null)]
  | .empty => [("config", Json.mkObj [])]
  | .cases o => [("config", Json.mkObj ([("cases", Json.mkObj [])] ++ (match o with
      | none => []
      | some (i, t, n) => [("operand", Json.mkObj [("id", strJ i), ("type", strJ t), ("name", strJ n)])])))]

/-- a RENDERED flow: every `_ui.nodes` entry carries the `type` / `config` that `render_ui` of
its node writes (`Rpft.Document.nodeUi`).  The positions are, in node order, those of the
positioned nodes (`renderFlow`). -/
def encFlowOut (f : FlowD) : Except String Json := do
  match f.ui with
  | none => pure (encFlow f)
  | some ps =>
    let ns := f.nodes.filter (fun n => ps.any (fun p => p.1 == n.uuid))
    if ns.length ≠ ps.length then throw "ui positions do not pair with nodes"
    let es ← (ns.zip ps).mapM (fun (n, (u, l, t)) => do
      let op ← match operandStr n with
        | some o => pure o
        | none => throw "operand of a positioned switch node is not a string"
      match nodeUi n op with
      | none => throw "positioned node of no class"
      | some e => pure (String.ofList u, Json.mkObj ([("position", Json.mkObj [("left", jsonOfBlob l), ("top", jsonOfBlob t)]),
          ("type", strJ e.type)] ++ encUiConfig e.config)))
    pure (Json.mkObj (flowFields f ++ [("_ui", Json.mkObj [("nodes", Json.mkObj es)])]))

def encEvent (e : EventD) : Json :=
  Json.mkObj ([("uuid", strJ e.uuid), ("offset", jsonOfBlob e.offset), ("unit", jsonOfBlob e.unit), ("event_type", strJ e.eventType),
    ("delivery_hour", jsonOfBlob e.deliveryHour), ("message", jsonOfBlob e.message),
    ("relative_to", Json.mkObj [("label", jsonOfBlob e.relLabel), ("key", jsonOfBlob e.relKey)]), ("start_mode", jsonOfBlob e.startMode)]
    ++ (match e.flow with | none => [] | some f => [("flow", encFlowRef f)]) ++ optKV "base_language" e.baseLanguage)

def encCampaign (c : CampaignD) : Json :=
  Json.mkObj [("uuid", strJ c.uuid), ("name", jsonOfBlob c.name), ("group", encGroup c.group), ("events", arrJ encEvent c.events)]

def encTrigger (t : TriggerD) : Json :=
  Json.mkObj ([("trigger_type", strJ t.type), ("flow", encFlowRef t.flow), ("groups", arrJ encGroup t.groups), ("channel", jsonOfBlob t.channel)]
    ++ optKV "keyword" t.keyword
    ++ (match t.keywords with | none => [] | some ks => [("keywords", arrJ jsonOfBlob ks)])
    ++ optKV "match_type" t.matchType
    ++ (match t.excludeGroups with | none => [] | some gs => [("exclude_groups", arrJ encGroup gs)]))

def encDocWith (flows : Json) (d : DocD) : Json :=
  Json.mkObj [("campaigns", arrJ encCampaign d.campaigns), ("fields", jsonOfBlob d.fields), ("flows", flows),
    ("groups", arrJ encGroup d.groups), ("site", jsonOfBlob d.site), ("triggers", arrJ encTrigger d.triggers),
    ("version", jsonOfBlob d.version)]

def encDoc (d : DocD) : Json := encDocWith (arrJ encFlow d.flows) d

/-- a rendered document (`_ui` entries in full) -/
def encDocOut (d : DocD) : Except String Json := do
  let fs ← d.flows.mapM encFlowOut
  pure (encDocWith (Json.arr fs.toArray) d)

def errName : Err → String
  | .freshUuid => "freshUuid" | .unsupported => "unsupported" | .valueError => "valueError"
  | .keyError => "keyError" | .assertion => "assertion" | .multipleUuids => "multipleUuids"
  | .undefinedFlow => "undefinedFlow"

def handleDocument (op : String) (j : Json) : Except String Json := do
  if op == "doc.witnesses" then
    return Json.arr (Witness.all.map (fun (n, d) => Json.mkObj [("name", Json.str n), ("doc", encDoc d),
      ("lossless", Json.bool (lossless d))])).toArray
  let dj ← j.getObjVal? "d"
  match decDoc dj with
  | .error e => pure (Json.mkObj [("unsupported", Json.str e)])
  | .ok d =>
    match op with
    | "doc.codec" => pure (Json.mkObj [("ok", encDoc d)])
    | "doc.hyps" =>
      -- the hypotheses of Props/C05.lean evaluated on this document (`validB_iff` ties `valid` to `Valid`)
      pure (Json.mkObj [("valid", Json.bool (validB d)), ("ordered", Json.bool (decide (OrderedCats d))),
        ("exitsByCats", Json.bool (decide (ExitsByCats d))), ("untyped", Json.bool (decide (UntypedFields d))),
        ("plain", Json.bool (decide (PlainGroups d))), ("wired", Json.bool (decide (CatsWired d))),
        ("lossless", Json.bool (lossless d))])
    | "doc.roundtrip" =>
      match roundtrip d with
      | .ok o =>
        match encDocOut o with
        | .ok j => pure (Json.mkObj [("ok", j)])
        | .error _ => pure (Json.mkObj [("err", Json.str "unsupported")])
      | .error e => pure (Json.mkObj [("err", Json.str (errName e))])
    | _ => throw s!"unknown op {op}"

end Rpft.Drv.DocumentD
