import Rpft.Drv.Json
import Rpft.DataOps
namespace Rpft.Drv.DataOpsD
open Rpft.Drv
open Lean Rpft Rpft.DataOps

def rowOfJ (j : Json) : Except String Row := do
  let a ← j.getArr?
  match a.toList with
  | [i, p] => do
    let i ← asStr i
    let p ← p.getNat?
    pure (i, p)
  | _ => throw "row"

def namedRowsOfJ (j : Json) : Except String (Str × List Row) := do
  let a ← j.getArr?
  match a.toList with
  | [n, rs] => do
    let n ← asStr n
    let rs ← rs.getArr?
    let rs ← rs.toList.mapM rowOfJ
    pure (n, rs)
  | _ => throw "named rows"

def fkeyOfJ (j : Json) : Except String FKey := do
  let s ← j.getStr?
  match s with
  | "T" => pure .isTrue
  | "O" => pure .other
  | "E" => pure .nameError
  | _ => throw "fkey"

def skeyOfJ (j : Json) : Except String (Option Key) :=
  match j with
  | Json.null => pure none
  | Json.str s => pure (some (.str s.toList))
  | _ => do
    let i ← j.getInt?
    pure (some (.int i))

def pairsOfJ {α : Type} (f : Json → Except String α) (j : Json) : Except String (List (Nat × α)) := do
  let a ← j.getArr?
  a.toList.mapM (fun x => do
    let b ← x.getArr?
    match b.toList with
    | [p, v] => do
      let p ← p.getNat?
      let v ← f v
      pure (p, v)
    | _ => throw "pair")

def opOfJ (j : Json) : Except String Op := do
  let srcJ ← j.getObjVal? "sources"
  let sources ← asStrList srcJ
  let newName ← getStr j "new_name"
  let ty ← getStr j "type"
  let order := getStrD j "order" []
  let fk ← match j.getObjVal? "fkeys" with
    | .ok v => pairsOfJ fkeyOfJ v
    | .error _ => pure []
  let sk ← match j.getObjVal? "skeys" with
    | .ok v => pairsOfJ skeyOfJ v
    | .error _ => pure []
  let p : Payload → FKey := fun x => (fk.lookup x).getD .other
  let k : Payload → Option Key := fun x => (sk.lookup x).getD none
  pure { sources := sources, newName := newName, kind := kindOfName ty p k order }

def sheetJ (s : Sheet) : Json :=
  Json.arr (s.map (fun r => Json.arr #[strJ r.1, Json.num (r.2 : Nat)])).toArray

def errJ : Err → Json
  | .sheetNotFound n => Json.mkObj [("err", Json.str "sheetNotFound"), ("name", strJ n)]
  | .unbound => Json.mkObj [("err", Json.str "unbound")]
  | .index => Json.mkObj [("err", Json.str "index")]

def stJ (st : St) : Json :=
  Json.mkObj [
    ("data", Json.arr (st.data.map (fun ns => Json.arr #[strJ ns.1, sheetJ ns.2])).toArray),
    ("crit", Json.num (st.crit : Nat)),
    ("dict", Json.arr ((dataSheetsToDict st).map (fun np =>
        Json.arr #[strJ np.1, Json.arr (np.2.map (fun (p : Nat) => Json.num p)).toArray])).toArray)]

def handleDataOps (op : String) (j : Json) : Except String Json := do
  match op with
  | "dataops.run" => do
      let fr ← getArr j "fresh"
      let envL ← fr.toList.mapM namedRowsOfJ
      let env : Env := fun n => Dict.get envL n
      let opsJ ← getArr j "ops"
      let ops ← opsJ.toList.mapM opOfJ
      let tr := traceOps env {} ops
      pure (Json.arr (tr.map (fun r => match r with
        | .ok st => stJ st
        | .error e => errJ e)).toArray)
  | "dataops.keyle" => do
      let a ← j.getObjVal? "a"; let b ← j.getObjVal? "b"
      let a ← skeyOfJ a; let b ← skeyOfJ b
      match a, b with
      | some a, some b => pure (Json.bool (a.le b))
      | _, _ => throw "key"
  | _ => throw s!"unknown op {op}"

end Rpft.Drv.DataOpsD
