import Rpft.Drv.Json
import Rpft.Drv.Sugar
import Rpft.SugarFlat
namespace Rpft.Drv.SugarFlatD
open Rpft.Drv
open Lean Rpft Rpft.Sugar Rpft.SugarFlat
open Rpft.Drv.SugarD (Ctx strLt insertSorted bindCtx ctxOfJ ctxJ)

/-- one instantiation the real parser performed (or failed to perform): row `pos` in context `key` -/
structure InstRec where
  pos : Nat
  key : Ctx
  fail : Bool
  kind : RowKind
  incl : Bool
  lv : Option (Str × Option Str)
  iter : List Str
  deriving Repr

inductive DErr where
  /-- the real parser could not instantiate row `pos` -/
  | inst (pos : Nat)
  /-- the untemplated parse of row `pos` raises -/
  | scan (pos : Nat)
  | noVar
  /-- the model asks for an instantiation the real parser never performed -/
  | missing (pos : Nat) (key : Ctx)

def kindOfStr (s : Str) : RowKind :=
  if s = "begin_for".toList then .beginFor
  else if s = "end_for".toList then .endFor
  else if s = "begin_block".toList then .beginBlock
  else if s = "end_block".toList then .endBlock
  else .other

def recOfJ (j : Json) : Except String InstRec := do
  let lv ← match j.getObjVal? "lv" with
    | .ok (Json.arr a) =>
      match a.toList with
      | [v] => do pure (some ((← asStr v), none))
      | [v, Json.null] => do pure (some ((← asStr v), none))
      | [v, i] => do pure (some ((← asStr v), some (← asStr i)))
      | _ => pure none
    | _ => pure none
  let iter ← match j.getObjVal? "iter" with
    | .ok a => asStrList a
    | .error _ => pure []
  pure { pos := ← getNat j "pos", key := ← ctxOfJ (← j.getObjVal? "key"),
         fail := getBoolD j "fail" false, kind := kindOfStr (getStrD j "type" []),
         incl := getBoolD j "incl" true, lv := lv, iter := iter }

def lookupCtx (c : Ctx) (k : Str) : Option Str :=
  match c.find? (fun q => q.1 = k) with
  | some q => some q.2
  | none => none

/-- the interface read off the real run: `kinds` / `scanFails` from the real row parser run
without templating on every row, `table` from the traced instantiations; the context is the
dictionary of the bindings, kept sorted by name (equality = equality of dicts) -/
def ifaceOf (kinds : Array RowKind) (scanFails : List Nat) (table : List InstRec) :
    FIface Nat InstRec Ctx Str (Nat × Ctx) DErr Str :=
  { inst := fun ctx r =>
      match table.find? (fun t => t.pos = r ∧ t.key = ctx) with
      | some t => if t.fail then .error (.inst r) else .ok t
      | none => .error (.missing r ctx)
    includeIf := fun i => i.incl
    loopVars := fun i => i.lv
    iterList := fun i => i.iter
    bind := bindCtx
    bindIdx := fun c i k => bindCtx c i (toString k).toList
    hdr := fun i => (i.pos, i.key)
    noVarErr := .noVar
    lit := fun i => i.pos
    asBlock := fun i => i
    kind := fun r => kinds.getD r .other
    scanFail := fun r => if r ∈ scanFails then some (.scan r) else none
    kindI := fun i => i.kind
    get := lookupCtx
    put := bindCtx
    del := fun c k => c.filter fun q => q.1 ≠ k
    ofVal := id
    ofIdx := fun k => (toString k).toList }

def evJ : Ev InstRec (Nat × Ctx) → Json
  | .row i => Json.arr #[Json.str "row", Json.num i.pos, ctxJ i.key]
  | .open_ h => Json.arr #[Json.str "open", Json.num h.1]
  | .close h => Json.arr #[Json.str "close", Json.num h.1]

def faultJ : Cli.Fault → Json
  | .unterminated => Json.mkObj [("fault", Json.str "unterminated")]
  | .wrongTerminator t b =>
    Json.mkObj [("fault", Json.str "wrong_terminator"), ("row", strJ t.name), ("block", strJ b.name)]
  | _ => Json.mkObj [("fault", Json.str "other")]

def stopJ : Stop DErr → Json
  | .fuel => Json.mkObj [("stop", Json.str "fuel")]
  | .noBookmark => Json.mkObj [("stop", Json.str "no_bookmark")]
  | .keyError k => Json.mkObj [("stop", Json.str "key_error"), ("key", strJ k)]
  | .fault f => Json.mkObj [("stop", Json.str "fault"), ("what", faultJ f)]
  | .err (.inst p) => Json.mkObj [("stop", Json.str "inst"), ("pos", Json.num p)]
  | .err (.scan p) => Json.mkObj [("stop", Json.str "scan"), ("pos", Json.num p)]
  | .err .noVar => Json.mkObj [("stop", Json.str "no_loop_variable")]
  | .err (.missing p k) => Json.mkObj [("stop", Json.str "missing"), ("pos", Json.num p), ("key", ctxJ k)]

mutual
partial def itemJ : FItem Nat → Json
  | .row r => Json.mkObj [("row", Json.num r)]
  | .forLoop b body e => Json.mkObj [("for", Json.num b), ("body", itemsJ body), ("end", Json.num e)]
  | .block b body e => Json.mkObj [("block", Json.num b), ("body", itemsJ body), ("end", Json.num e)]
partial def itemsJ (its : List (FItem Nat)) : Json := Json.arr (its.map itemJ).toArray
end

partial def ptreeJ : PTree Nat → Json
  | .done its => Json.mkObj [("done", itemsJ its)]
  | .fault its f rest =>
    Json.mkObj [("items", itemsJ its), ("fault", faultJ f), ("at", match rest with | [] => Json.null | r :: _ => Json.num r)]
  | .open_ its isFor b inner =>
    Json.mkObj [("items", itemsJ its), (if isFor then "for" else "block", Json.num b), ("inner", ptreeJ inner)]

def kindsOfJ (j : Json) : Except String (Array RowKind) := do
  let ks ← asStrList (← j.getObjVal? "kinds")
  pure (ks.map kindOfStr).toArray

def handleSugarFlat (op : String) (j : Json) : Except String Json := do
  match op with
  | "sugarflat.run" => do
    -- the flat machine on rows 0 … n-1
    let kinds ← kindsOfJ j
    let scanFails ← (← getArr j "scanfail").toList.mapM (·.getNat?)
    let table ← (← getArr j "table").toList.mapM recOfJ
    let ctx0 ← match j.getObjVal? "ctx" with
      | .ok c => ctxOfJ c
      | .error _ => pure []
    let rows := List.range kinds.size
    match runFlat (ifaceOf kinds scanFails table) ctx0 rows with
    | .ok (es, c) => pure (Json.mkObj [("events", Json.arr (es.map evJ).toArray), ("ctx", ctxJ c)])
    | .error s => pure (stopJ s)
  | "sugarflat.tree" => do
    -- the structural parser; `tree` in the harness' `tree_of_rows` format when well nested
    let kinds ← kindsOfJ j
    let rows := List.range kinds.size
    let kind : Nat → RowKind := fun r => kinds.getD r .other
    let t := parseAll kind rows
    let flat := flattenP t
    let base := [("scan", ptreeJ t), ("roundtrip", Json.bool (flat == rows))]
    match parseTree kind rows with
    | .ok its => pure (Json.mkObj (("tree", itemsJ its) :: base))
    | .error f =>
      let cli := match Cli.checkBlocks (rows.map kind) with
        | .ok _ => Json.null
        | .error f' => faultJ f'
      pure (Json.mkObj (("err", faultJ f) :: ("cli", cli) :: base))
  | "sugarflat.treerun" => do
    -- the tree reading `evP` of the scan tree (what `flat_eq_scan_tree` says `sugarflat.run` returns)
    let kinds ← kindsOfJ j
    let scanFails ← (← getArr j "scanfail").toList.mapM (·.getNat?)
    let table ← (← getArr j "table").toList.mapM recOfJ
    let ctx0 ← match j.getObjVal? "ctx" with
      | .ok c => ctxOfJ c
      | .error _ => pure []
    let rows := List.range kinds.size
    let I := ifaceOf kinds scanFails table
    match evP I ctx0 (parseAll I.kind rows) with
    | .ok es => pure (Json.mkObj [("events", Json.arr (es.map evJ).toArray), ("ctx", ctxJ ctx0)])
    | .error s => pure (stopJ s)
  | _ => throw s!"unknown op {op}"

end Rpft.Drv.SugarFlatD
