import Rpft.Drv.Json
import Rpft.ActionCodec
/-!
Driver ops of the action codec (`act.to_fields`, `act.of_fields`).

Action JSON (canonical form built by harness/actcodec.py `canon_action`):
  {"type":"send_msg","text","attachments":[..],"quick_replies":[..],"all_urns":bool,"topic",
   "templating": null | {"name","template_uuid","variables":[..]}}
  {"type":"set_contact_field","name","key","field_type","value"}
  {"type":"set_contact_prop","prop","value"}      {"type":"set_contact_channel","uuid","name"}
  {"type":"add_contact_groups","groups":[{"name","uuid":str|null,"attrs":bool}]}
  {"type":"remove_contact_groups","groups":[..],"all_groups":bool}
  {"type":"set_run_result","name","value","category"}
  {"type":"enter_flow","name","uuid":str|null}
  {"type":"call_webhook","result_name","url","method","body","headers":[[k,v]..]}
  {"type":"transfer_airtime","result_name","amounts":[[k,{"int":"12"}|{"float":"1.5"}]..]}
  {"type":"add_contact_urn","path","scheme"}      {"type":"unsupported","ty"}
Row fields JSON: the FlowRowModel field names.
-/
namespace Rpft.Drv.ActionCodecD
open Rpft.Drv
open Lean Rpft Rpft.ActionCodec

def errJ (e : Err) : Json :=
  -- `Rpft.ActionCodec.Err.emptyText` → `emptyText`
  Json.str (((reprStr e).splitOn ".").getLast!)

def itemJ : Item → Json
  | .atom s => strJ s
  | .list xs => strListJ xs

def itemOfJ (j : Json) : Except String Item :=
  match j with
  | Json.str s => pure (.atom s.toList)
  | Json.arr a => do let xs ← a.toList.mapM asStr; pure (.list xs)
  | _ => throw "item"

def fieldsJ (r : RowFields) : Json :=
  Json.mkObj [
    ("type", strJ r.type),
    ("mainarg_message_text", strJ r.mainargMessageText),
    ("mainarg_value", strJ r.mainargValue),
    ("mainarg_groups", strListJ r.mainargGroups),
    ("mainarg_dict", Json.arr (r.mainargDict.map itemJ).toArray),
    ("mainarg_flow_name", strJ r.mainargFlowName),
    ("wa_template", Json.mkObj [("name", strJ r.waTemplate.name), ("uuid", strJ r.waTemplate.uuid),
                                ("variables", strListJ r.waTemplate.vars)]),
    ("webhook", Json.mkObj [("url", strJ r.webhook.url), ("method", strJ r.webhook.method),
                            ("headers", Json.arr (r.webhook.headers.map itemJ).toArray),
                            ("body", strJ r.webhook.body)]),
    ("choices", strListJ r.choices),
    ("save_name", strJ r.saveName),
    ("result_category", strJ r.resultCategory),
    ("image", strJ r.image), ("audio", strJ r.audio), ("video", strJ r.video),
    ("attachments", strListJ r.attachments),
    ("urn_scheme", strJ r.urnScheme),
    ("obj_id", strJ r.objId)]

def getStrListD (j : Json) (k : String) : Except String (List Str) :=
  match j.getObjVal? k with
  | .ok v => asStrList v
  | .error _ => pure []

def getItemsD (j : Json) (k : String) : Except String (List Item) :=
  match j.getObjVal? k with
  | .ok v => do let a ← v.getArr?; a.toList.mapM itemOfJ
  | .error _ => pure []

def fieldsOfJ (j : Json) : Except String RowFields := do
  let ty ← getStr j "type"
  let wa := (j.getObjVal? "wa_template").toOption.getD (Json.mkObj [])
  let wh := (j.getObjVal? "webhook").toOption.getD (Json.mkObj [])
  pure {
    type := ty
    mainargMessageText := getStrD j "mainarg_message_text" []
    mainargValue := getStrD j "mainarg_value" []
    mainargGroups := ← getStrListD j "mainarg_groups"
    mainargDict := ← getItemsD j "mainarg_dict"
    mainargFlowName := getStrD j "mainarg_flow_name" []
    waTemplate := { name := getStrD wa "name" [], uuid := getStrD wa "uuid" [],
                    vars := ← getStrListD wa "variables" }
    webhook := { url := getStrD wh "url" [], method := getStrD wh "method" [],
                 headers := ← getItemsD wh "headers", body := getStrD wh "body" [] }
    choices := ← getStrListD j "choices"
    saveName := getStrD j "save_name" []
    resultCategory := getStrD j "result_category" []
    image := getStrD j "image" []
    audio := getStrD j "audio" []
    video := getStrD j "video" []
    attachments := ← getStrListD j "attachments"
    urnScheme := getStrD j "urn_scheme" []
    objId := getStrD j "obj_id" [] }

def groupJ (g : GroupRef) : Json :=
  Json.mkObj [("name", strJ g.name), ("uuid", optStrJ g.uuid), ("attrs", Json.bool g.attrs)]

def groupOfJ (j : Json) : Except String GroupRef := do
  let name ← getStr j "name"
  let uuid ← asOptStr ((j.getObjVal? "uuid").toOption.getD Json.null)
  pure { name := name, uuid := uuid, attrs := getBoolD j "attrs" false }

def amountJ : Amount → Json
  | .int i => Json.mkObj [("int", Json.str (toString i))]
  | .float r => Json.mkObj [("float", strJ r)]

def amountOfJ (j : Json) : Except String Amount :=
  match j.getObjVal? "int" with
  | .ok (Json.str s) =>
    match s.toInt? with
    | some i => pure (.int i)
    | none => throw "amount.int"
  | _ => do let r ← getStr j "float"; pure (.float r)

def pairOfJ {α : Type} (f : Json → Except String α) (j : Json) : Except String (Str × α) := do
  let a ← j.getArr?
  match a.toList with
  | [k, v] => do let k ← asStr k; let v ← f v; pure (k, v)
  | _ => throw "pair"

def actJ : Act → Json
  | .sendMsg text atts qrs allUrns topic templ =>
    Json.mkObj [("type", "send_msg"), ("text", strJ text), ("attachments", strListJ atts),
      ("quick_replies", strListJ qrs), ("all_urns", Json.bool allUrns), ("topic", strJ topic),
      ("templating", match templ with
        | none => Json.null
        | some t => Json.mkObj [("name", strJ t.name), ("template_uuid", strJ t.templateUuid),
                                ("variables", strListJ t.vars)])]
  | .setContactField name key ft value =>
    Json.mkObj [("type", "set_contact_field"), ("name", strJ name), ("key", strJ key),
      ("field_type", strJ ft), ("value", strJ value)]
  | .setContactProp p value =>
    Json.mkObj [("type", "set_contact_prop"), ("prop", strJ p.str), ("value", strJ value)]
  | .setContactChannel uuid name =>
    Json.mkObj [("type", "set_contact_channel"), ("uuid", strJ uuid), ("name", strJ name)]
  | .addGroups gs =>
    Json.mkObj [("type", "add_contact_groups"), ("groups", Json.arr (gs.map groupJ).toArray)]
  | .removeGroups gs all =>
    Json.mkObj [("type", "remove_contact_groups"), ("groups", Json.arr (gs.map groupJ).toArray),
      ("all_groups", Json.bool all)]
  | .setRunResult name value cat =>
    Json.mkObj [("type", "set_run_result"), ("name", strJ name), ("value", strJ value),
      ("category", strJ cat)]
  | .enterFlow name uuid =>
    Json.mkObj [("type", "enter_flow"), ("name", strJ name), ("uuid", optStrJ uuid)]
  | .callWebhook rn url method body headers =>
    Json.mkObj [("type", "call_webhook"), ("result_name", strJ rn), ("url", strJ url),
      ("method", strJ method), ("body", strJ body),
      ("headers", Json.arr (headers.map fun kv => strListJ [kv.1, kv.2]).toArray)]
  | .transferAirtime rn amounts =>
    Json.mkObj [("type", "transfer_airtime"), ("result_name", strJ rn),
      ("amounts", Json.arr (amounts.map fun kv => Json.arr #[strJ kv.1, amountJ kv.2]).toArray)]
  | .addContactUrn path scheme =>
    Json.mkObj [("type", "add_contact_urn"), ("path", strJ path), ("scheme", strJ scheme)]
  | .unsupported t => Json.mkObj [("type", "unsupported"), ("ty", strJ t)]

def actOfJ (j : Json) : Except String Act := do
  let ty ← j.getObjValAs? String "type"
  match ty with
  | "send_msg" => do
    let templ ← match j.getObjVal? "templating" with
      | .ok Json.null => pure none
      | .error _ => pure none
      | .ok t => do
        let vars ← getStrListD t "variables"
        pure (some { name := ← getStr t "name", templateUuid := ← getStr t "template_uuid",
                     vars := vars : Templating })
    pure (.sendMsg (← getStr j "text") (← getStrListD j "attachments") (← getStrListD j "quick_replies")
      (getBoolD j "all_urns" false) (getStrD j "topic" []) templ)
  | "set_contact_field" =>
    pure (.setContactField (← getStr j "name") (← getStr j "key") (getStrD j "field_type" [])
      (← getStr j "value"))
  | "set_contact_prop" => do
    let p ← getStr j "prop"
    match ContactProp.ofStr p with
    | some p => pure (.setContactProp p (← getStr j "value"))
    | none => throw "prop"
  | "set_contact_channel" => pure (.setContactChannel (getStrD j "uuid" []) (getStrD j "name" []))
  | "add_contact_groups" => do
    let gs ← (← getArr j "groups").toList.mapM groupOfJ
    pure (.addGroups gs)
  | "remove_contact_groups" => do
    let gs ← (← getArr j "groups").toList.mapM groupOfJ
    pure (.removeGroups gs (getBoolD j "all_groups" false))
  | "set_run_result" =>
    pure (.setRunResult (← getStr j "name") (← getStr j "value") (getStrD j "category" []))
  | "enter_flow" => do
    let uuid ← asOptStr ((j.getObjVal? "uuid").toOption.getD Json.null)
    pure (.enterFlow (← getStr j "name") uuid)
  | "call_webhook" => do
    let hs ← (← getArr j "headers").toList.mapM (pairOfJ asStr)
    pure (.callWebhook (← getStr j "result_name") (← getStr j "url") (← getStr j "method")
      (← getStr j "body") hs)
  | "transfer_airtime" => do
    let am ← (← getArr j "amounts").toList.mapM (pairOfJ amountOfJ)
    pure (.transferAirtime (← getStr j "result_name") am)
  | "add_contact_urn" => pure (.addContactUrn (← getStr j "path") (← getStr j "scheme"))
  | "unsupported" => pure (.unsupported (← getStr j "ty"))
  | _ => throw s!"unknown action type {ty}"

def resJ {α : Type} (f : α → Json) : Except Err α → Json
  | .ok a => Json.mkObj [("ok", f a)]
  | .error e => Json.mkObj [("err", errJ e)]

def actsJ (as : List Act) : Json := Json.arr (as.map actJ).toArray

def handleActionCodec (op : String) (j : Json) : Except String Json := do
  match op with
  | "act.to_fields" => do
    -- export, the decision of `Expressible`, and the model's own round trip, in one answer
    let a ← actOfJ (← j.getObjVal? "a")
    pure (Json.mkObj [
      ("fields", resJ fieldsJ (toFields a)),
      ("expressible", Json.bool (decide (Expressible a))),
      -- `Expressible` without the clause on the uuids of the groups after the first (`obj_id` is one cell)
      ("expressible_mod_tail_uuids", Json.bool (decide (ExpressibleModTailUuids a))),
      ("forget_tail_uuids", actJ a.forgetTailUuids),
      ("back", resJ actsJ (roundTrip a))])
  | "act.of_fields" => do
    let r ← fieldsOfJ (← j.getObjVal? "f")
    pure (resJ actsJ (ofFields r))
  | _ => throw s!"unknown op {op}"

end Rpft.Drv.ActionCodecD
