/-
M9 — model of the decision logic of `rpft create_flows` (C15).

Anchors
* `cli.py` `create_flows` 15-26: `flows = converters.create_flows(args.input, None, …)`, and
  only then `with open(args.output, "w") … json.dump(flows, …)`.
* `logger/logger.py` `ShutdownHandler.emit` 57-63: a record with `levelno >= CRITICAL` is
  printed to stderr and `sys.exit(1)` is called from inside the handler.  Together with an
  uncaught exception (traceback on stderr, status 1) this is the `error` constructor of
  `Except`: nothing after the detection site runs.
* `flowparser.py` `_parse_block` 381-437 / `_is_end_of_block` 439-457 (block structure),
  `_parse_row`, `_get_row_action` (dispatch on the row type: "Unknown operation set_contact_…",
  "Row type … not implemented"), `_get_row_node`, `_get_node_group_from_edge`, `_parse_goto_row`
  (row level detection sites); `RowNodeGroup.add_exit` (outcome words of the edges leaving a
  start_new_flow / call_webhook / transfer_airtime row).
* `flowrowmodel.py` `header_name_to_field_name_with_context`: `row_type_to_main_arg[type]` for
  the header `message_text` — a `KeyError` of the row parser for every row of unknown type.
* `contentindexparser.py` `__init__`, `_process_content_index_table` (sheet_name count, then the
  dispatch on the row type with its "invalid type" branch), `_process_data_sheet`,
  `_get_new_data_sheet`, `parse_all_flows`, `_parse_flow`, `map_template_arguments_to_context`.
* `actions.py` (640 / empty text), `routers.py` (115), `nodes.py` (HTTP methods),
  `flowrowmodel.py` `list_of_pairs_to_dict`, `containers.py` `_record_uuid`,
  `triggers.py` `record_global_uuids(require_existing=True)`.

What is *not* here: the construction of the flows themselves (C01–C03 model that); the
document is an abstract value.  Only the question "does the run reach the end, and if
not, which check stopped it" is modelled — with the quirks of the code kept (the order of
the checks, block structure checked even where content is omitted, a trigger for a flow
that is merely referenced is accepted, an unknown data model is only looked up when a
user module was given).

Core Lean only: compiled into the driver.
-/
import Rpft.Str
import Rpft.Cell
namespace Rpft.Cli
open Rpft Rpft.Cell

deriving instance DecidableEq for Except

/-! ## constants (tied to the source by `Props.C15.tables_agree`) -/

def maxFieldValueLen : Nat := 640
def maxRunResultLen : Nat := 640
def maxCategoryLen : Nat := 115
def maxFieldKeyLen : Nat := 36
def httpMethods : List Str :=
  ["CONNECT".toList, "DELETE".toList, "GET".toList, "HEAD".toList, "OPTIONS".toList,
   "POST".toList, "PUT".toList]
def defaultHttpMethod : Str := "POST".toList
/-- the row types `_process_content_index_table` dispatches on (anything else: "invalid type") -/
def indexRowTypes : List Str :=
  ["content_index".toList, "create_campaign".toList, "create_flow".toList, "create_triggers".toList,
   "data_sheet".toList, "ignore_row".toList, "template_definition".toList]
/-- keys of `row_type_to_main_arg` (flowrowmodel.py): the row types for which the header
`message_text` can be mapped to a field at all -/
def mainArgTypes : List Str :=
  ["add_contact_urn".toList, "add_to_group".toList, "begin_block".toList, "begin_for".toList,
   "call_webhook".toList, "end_block".toList, "end_for".toList, "go_to".toList, "hard_exit".toList,
   "insert_as_block".toList, "loose_exit".toList, "no_op".toList, "remove_from_group".toList,
   "save_flow_result".toList, "save_value".toList, "send_message".toList, "set_contact_channel".toList,
   "set_contact_language".toList, "set_contact_name".toList, "set_contact_status".toList,
   "set_contact_timezone".toList, "split_by_group".toList, "split_by_value".toList,
   "split_random".toList, "start_new_flow".toList, "transfer_airtime".toList,
   "wait_for_response".toList]
/-- `_get_row_action`: the types dispatched by equality (each builds an action) -/
def actionRowTypes : List Str :=
  ["add_contact_urn".toList, "add_to_group".toList, "remove_from_group".toList,
   "save_flow_result".toList, "save_value".toList, "send_message".toList]
/-- `_get_row_action`: the types that carry no action (`return None`) -/
def nodeRowTypes : List Str :=
  ["call_webhook".toList, "split_by_group".toList, "split_by_value".toList, "split_random".toList,
   "start_new_flow".toList, "transfer_airtime".toList, "wait_for_response".toList]
def setContactPrefix : Str := "set_contact_".toList
/-- `property not in [...]` -/
def contactProperties : List Str :=
  ["channel".toList, "language".toList, "name".toList, "status".toList, "timezone".toList]
/-- `RowNodeGroup.add_exit`: the lower-cased conditions an edge leaving a start_new_flow row /
a call_webhook or transfer_airtime row may carry -/
def flowOutcomes : List Str := ["complete".toList, "completed".toList, "expired".toList]
def hookOutcomes : List Str := ["failure".toList, "success".toList]
/-- `logging.CRITICAL` -/
def shutdownLevel : Nat := 50
def shutdownExit : Nat := 1

/-! ## faults -/

inductive RowType where
  | beginFor | beginBlock | endFor | endBlock | other
  deriving DecidableEq, Repr

inductive BlockType where
  | root | for_ | block
  deriving DecidableEq, Repr

def RowType.name : RowType → Str
  | .beginFor => "begin_for".toList
  | .beginBlock => "begin_block".toList
  | .endFor => "end_for".toList
  | .endBlock => "end_block".toList
  | .other => "".toList

def BlockType.name : BlockType → Str
  | .root => "root_block".toList
  | .for_ => "for".toList
  | .block => "block".toList

/-- what stopped the run: one constructor per detection site class. `viaLog = true`: a
`LOGGER.critical` (ShutdownHandler exits); `false`: an uncaught exception. -/
inductive Fault where
  | unterminated
  | wrongTerminator (t : RowType) (b : BlockType)
  | forWithoutVariable
  | edgeFromUnknownRow (id : Str)
  | gotoArity
  | gotoUnknownTarget (id : Str)
  | missingSheet (name : Str)
  | missingDataSheet (name : Str)
  | missingDataRow (id : Str)
  | dataRowIdWithoutSheet
  | argMissing (name : Str)
  | argDoublyDefined (name : Str)
  | unknownDataModel (name : Str)
  | unknownOperation
  | operationWithoutNewName
  | emptyText
  | overlongValue
  | overlongCategory
  | badHeaders
  | badMethod
  | uuidConflict (name : Str)
  | triggerUnknownFlow (name : Str)
  | noContentIndex
  /-- index row (other than data_sheet) whose `sheet_name` cell has not exactly one name -/
  | sheetNameCount (t : Str)
  /-- index row whose type is none of `indexRowTypes`: "invalid type: '<t>'" -/
  | unknownIndexType (t : Str)
  /-- flow row whose (trimmed) type cell is no key of `row_type_to_main_arg`, in a sheet that has
  a `message_text` column: the row parser cannot map that header (`KeyError`) -/
  | rowTypeWithoutMainArg (t : Str)
  /-- "Unknown operation set_contact_<p>." -/
  | unknownContactProperty (p : Str)
  /-- "Row type <t> not implemented" -/
  | unknownRowType (t : Str)
  /-- unconditional edge leaving a start_new_flow row ("EnterFlowNode does not support default
  exits") -/
  | noDefaultExitFromFlow
  /-- edge leaving a start_new_flow row (`flow = true`) with a condition other than
  Complete(d)/Expired, resp. leaving a call_webhook / transfer_airtime row with a condition
  other than Success/Failure -/
  | badOutcomeCondition (flow : Bool)
  deriving DecidableEq, Repr

/-- how each fault is reported: `true` a `LOGGER.critical` record (the ShutdownHandler exits),
`false` an uncaught exception -/
def Fault.viaLog : Fault → Bool
  | .gotoUnknownTarget _ | .missingSheet _ | .missingDataSheet _ | .missingDataRow _
  | .badMethod | .uuidConflict _ | .triggerUnknownFlow _ | .rowTypeWithoutMainArg _ => false
  | _ => true

/-! ## block structure: `_parse_block` / `_is_end_of_block` -/

/-- `block_end_map` -/
def blockEndMap : RowType → Option BlockType
  | .endFor => some .for_
  | .endBlock => some .block
  | _ => none

/-- `_is_end_of_block(block_type, row)`; `none` = end of the sheet.  `error` = the
`LOGGER.critical` branches. A terminator at root level takes the "wrong terminator" branch
(`block_end_map[row.type] != "root_block"`). -/
def isEndOfBlock (bt : BlockType) : Option RowType → Except Fault Bool
  | none => if bt = .root then .ok true else .error .unterminated
  | some t =>
    match blockEndMap t with
    | some b => if b = bt then .ok true else .error (.wrongTerminator t bt)
    | none => .ok false

/-- innermost open block: the `block_type` argument of the active `_parse_block` call -/
def top : List BlockType → BlockType
  | [] => .root
  | b :: _ => b

/-- the recursion of `_parse_block` with its call stack made explicit: the list holds the
block types of the active nested calls, innermost first (`[]` = only the root call). -/
def runBlocks : List BlockType → List RowType → Except Fault Unit
  | st, [] =>
    match isEndOfBlock (top st) none with
    | .error f => .error f
    | .ok _ => .ok ()
  | st, r :: rs =>
    match isEndOfBlock (top st) (some r) with
    | .error f => .error f
    | .ok true => runBlocks st.tail rs
    | .ok false =>
      match r with
      | .beginFor => runBlocks (.for_ :: st) rs
      | .beginBlock => runBlocks (.block :: st) rs
      | _ => runBlocks st rs

def checkBlocks (rows : List RowType) : Except Fault Unit := runBlocks [] rows

/-! ## value level detectors -/

/-- `SetContactFieldAction` / `SetRunResultAction`: `len(value) > 640` -/
def checkFieldValue (v : Str) : Except Fault Unit :=
  if v.length > maxFieldValueLen then .error .overlongValue else .ok ()

def checkRunResult (v : Str) : Except Fault Unit :=
  if v.length > maxRunResultLen then .error .overlongValue else .ok ()

/-- `RouterCategory.__init__`: `len(name) > 115` -/
def checkCategoryName (n : Str) : Except Fault Unit :=
  if n.length > maxCategoryLen then .error .overlongCategory else .ok ()

/-- `SendMessageAction.__init__`: `if not text` -/
def checkMessageText (t : Str) : Except Fault Unit :=
  if t = [] then .error .emptyText else .ok ()

/-- `CallWebhookNode.__init__`: `method = method or "POST"; if method not in http_methods` -/
def checkMethod (m : Str) : Except Fault Unit :=
  let m' := if m = [] then defaultHttpMethod else m
  if m' ∈ httpMethods then .ok () else .error .badMethod

/-- `list_of_pairs_to_dict` on what the cell parser produces for the `webhook.headers`
cell of a `list` field: a list whose elements are strings or lists of strings.
`[""]` is the empty dict; otherwise every element must be a list of length 2. -/
def isPair : Elem → Bool
  | .atom _ => false
  | .list xs => xs.length == 2

def checkHeaders (h : List Elem) : Except Fault Unit :=
  if h = [.atom []] then .ok ()
  else if h.all isPair then .ok () else .error .badHeaders

/-- `_parse_goto_row`: a single destination serves all edges; otherwise the numbers must
match. -/
def checkGotoArity (edges dests : Nat) : Except Fault Unit :=
  let d := if dests = 1 then edges else dests
  if edges = d then .ok () else .error .gotoArity

/-- `begin_for`: `len(row.loop_variable) >= 1 and row.loop_variable[0]` -/
def checkLoopVariable (v : List Str) : Except Fault Unit :=
  match v with
  | x :: _ => if x = [] then .error .forWithoutVariable else .ok ()
  | [] => .error .forWithoutVariable

/-- `_get_node_group_from_edge`: `"start"` and blank are never looked up -/
def checkEdgeFrom (known : List Str) (src : Str) : Except Fault Unit :=
  if src = [] ∨ src = "start".toList then .ok ()
  else if src ∈ known then .ok () else .error (.edgeFromUnknownRow src)

/-- `self.row_id_to_nodegroup[destination_row_id]` (a dict without default: KeyError) -/
def checkGotoTarget (known : List Str) (dst : Str) : Except Fault Unit :=
  if dst ∈ known then .ok () else .error (.gotoUnknownTarget dst)

/-! ## row type: `header_name_to_field_name_with_context`, `_get_row_action` -/

/-- `row_type_to_main_arg[row["type"].strip()]`, evaluated for the header `message_text` of
EVERY row the sheet parser reads (whatever the cell holds, before `include_if` or the block
structure are looked at): `some t` = the `KeyError`.  `t` is the trimmed type cell. -/
def mainArgKeyError (hasMessageText : Bool) (t : Str) : Option Str :=
  if hasMessageText && !(mainArgTypes.contains t) then some t else none

/-- `str.replace(pat, "")`: every non-overlapping occurrence, left to right (fuel = length) -/
def removeAllAux (pat : Str) : Nat → Str → Str
  | 0, s => s
  | _, [] => []
  | n + 1, c :: cs =>
    if pat ≠ [] ∧ pat.isPrefixOf (c :: cs) then removeAllAux pat n ((c :: cs).drop pat.length)
    else c :: removeAllAux pat n cs

def removeAll (pat s : Str) : Str := removeAllAux pat (s.length + 1) s

/-- the dispatch of `_get_row_action` for the rows `_parse_row` hands it (not hard_exit,
loose_exit, go_to, no_op, insert_as_block, not a block row): equality chain, then
`startswith("set_contact_")` with the property test — `replace`, so every occurrence of the
prefix is removed —, then the action-less types, else "not implemented". -/
def checkRowType (t : Str) : Except Fault Unit :=
  if t ∈ actionRowTypes then .ok ()
  else if setContactPrefix.isPrefixOf t then
    let p := removeAll setContactPrefix t
    if p ∈ contactProperties then .ok () else .error (.unknownContactProperty p)
  else if t ∈ nodeRowTypes then .ok ()
  else .error (.unknownRowType t)

/-! ## outcome edges: `RowNodeGroup.add_exit` -/

/-- what the exit node of the edge's source row is -/
inductive SrcKind where
  /-- start_new_flow (`EnterFlowNode`) -/
  | enterFlow
  /-- call_webhook / transfer_airtime -/
  | hook
  | other
  deriving DecidableEq, Repr

/-- `str.lower()` on ASCII (the harness marks other conditions on such edges as outside the model) -/
def lowerAscii (s : Str) : Str :=
  s.map (fun c => if 65 ≤ c.toNat ∧ c.toNat ≤ 90 then Char.ofNat (c.toNat + 32) else c)

/-- `add_exit(destination, condition)` up to the point where the source kind is settled.
`more`: one of condition variable / type / name is given (`condition == Condition()` is
`value = "" ∧ ¬more`).  The unconditional case comes first: a start_new_flow row has no default
exit (ValueError → critical), a webhook has; then the outcome words, compared lower-cased. -/
def checkOutcome (k : SrcKind) (value : Str) (more : Bool) : Except Fault Unit :=
  match k with
  | .other => .ok ()
  | .enterFlow =>
    if value = [] ∧ more = false then .error .noDefaultExitFromFlow
    else if lowerAscii value ∈ flowOutcomes then .ok () else .error (.badOutcomeCondition true)
  | .hook =>
    if value = [] ∧ more = false then .ok ()
    else if lowerAscii value ∈ hookOutcomes then .ok () else .error (.badOutcomeCondition false)

/-! ## template arguments: `map_template_arguments_to_context` -/

structure ArgDef where
  name : Str
  type : Str := []
  default : Str := []
  deriving DecidableEq, Repr

/-- `arg if arg != "" else arg_def.default_value` -/
def argValue (a dflt : Str) : Str := if a = [] then dflt else a

/-- `ctx`: the keys of the context so far (data row fields, then bound arguments).
Arguments beyond the definitions are dropped (a warning), missing ones are padded with
`""`; the "doubly defined" test comes before the "not provided" test, as in the code. -/
def bindArgs : List ArgDef → List Str → List Str → Except Fault (List Str)
  | [], _, ctx => .ok ctx
  | d :: ds, args, ctx =>
    if d.name ∈ ctx then .error (.argDoublyDefined d.name)
    else if argValue (args.headD []) d.default = [] then .error (.argMissing d.name)
    else bindArgs ds args.tail (d.name :: ctx)

/-! ## UUID dictionary: `UUIDDict._record_uuid` -/

def lookup (k : Str) : List (Str × Str) → Option Str
  | [] => none
  | (k', v) :: rest => if k' = k then some v else lookup k rest

def setKey (k v : Str) : List (Str × Str) → List (Str × Str)
  | [] => [(k, v)]
  | (k', v') :: rest => if k' = k then (k, v) :: rest else (k', v') :: setKey k v rest

/-- a falsy recorded value (`None`/`""`, here `[]`) is overwritten; a second, different,
non-empty uuid for the same name raises `ValueError`. -/
def recordUuid (d : List (Str × Str)) (name uuid : Str) : Except Fault (List (Str × Str)) :=
  match lookup name d with
  | some r =>
    if r ≠ [] then
      if uuid ≠ [] ∧ uuid ≠ r then .error (.uuidConflict name) else .ok d
    else .ok (setKey name uuid d)
  | none => .ok (setKey name uuid d)

def recordAll : List (Str × Str) → List (Str × Str) → Except Fault (List (Str × Str))
  | d, [] => .ok d
  | d, (n, u) :: rest =>
    match recordUuid d n u with
    | .error f => .error f
    | .ok d' => recordAll d' rest

/-! ## one flow sheet: rows with their detectors, in the order `_parse_block` visits them -/

/-- row level detectors that need nothing but the row (and the row ids seen so far) -/
inductive Probe0 where
  | messageText (t : Str)
  | fieldValue (v : Str)
  | runResult (v : Str)
  | categoryName (n : Str)
  | webhook (method : Str) (headers : List Elem)
  | gotoArity (edges dests : Nat)
  | gotoTarget (dst : Str)
  | loopVariable (v : List Str)
  | edgeFrom (src : Str)
  /-- `_get_row_action`'s dispatch on the row type (first thing `_parse_row` does for a plain row) -/
  | rowType (t : Str)
  /-- `add_exit` on the source of an edge (after the source was looked up) -/
  | outcome (k : SrcKind) (value : Str) (more : Bool)
  deriving Repr

/-- `webhook`: the headers are converted first (`_get_row_node`), the method is checked by
the node constructor afterwards. -/
def Probe0.check (known : List Str) : Probe0 → Except Fault Unit
  | .messageText t => checkMessageText t
  | .fieldValue v => checkFieldValue v
  | .runResult v => checkRunResult v
  | .categoryName n => checkCategoryName n
  | .webhook m h =>
    match checkHeaders h with
    | .error f => .error f
    | .ok _ => checkMethod m
  | .gotoArity e d => checkGotoArity e d
  | .gotoTarget d => checkGotoTarget known d
  | .loopVariable v => checkLoopVariable v
  | .edgeFrom s => checkEdgeFrom known s
  | .rowType t => checkRowType t
  | .outcome k v m => checkOutcome k v m

structure Row (P : Type) where
  type : RowType
  rowId : Str := []
  /-- `row.include_if` -/
  includeIf : Bool := true
  /-- `begin_for` only: `row.mainarg_iterlist` is empty (body parsed with content omitted) -/
  iterEmpty : Bool := false
  /-- detectors of this row in the order the code reaches them -/
  probes : List P := []
  /-- `mainArgKeyError` of the row: the sheet parser fails on the row before anything looks at it -/
  keyError : Option Str := none

/-- an active `_parse_block` call: its block type, its `omit_content`, and the row id that
is registered for the block once it is closed (`append_node_group(new_node_group, row.row_id)`) -/
structure Frame where
  bt : BlockType
  skip : Bool
  id : Str

def topOmit : List Frame → Bool
  | [] => false
  | f :: _ => f.skip

def addId (id : Str) (known : List Str) : List Str := if id = [] then known else id :: known

def runProbes {P : Type} (chk : List Str → P → Except Fault Unit) (known : List Str) :
    List P → Except Fault Unit
  | [] => .ok ()
  | p :: ps =>
    match chk known p with
    | .error f => .error f
    | .ok _ => runProbes chk known ps

/-- one turn of the `while` loop of `_parse_block` (including the return to the caller
when the row terminates the block).  State: the active calls and the keys of
`row_id_to_nodegroup`.  Rows under `omit_content`, or with a false `include_if`, are only
scanned for block structure (nested begin rows open omitted blocks); everything else runs
its detectors first.  Before any of this the row has been read by the sheet parser
(`parse_next_row`), which is where a type without main argument raises. -/
def step {P : Type} (chk : List Str → P → Except Fault Unit)
    (s : List Frame × List Str) (r : Row P) : Except Fault (List Frame × List Str) :=
  let st := s.1
  let known := s.2
  match r.keyError with
  | some t => .error (.rowTypeWithoutMainArg t)
  | none =>
  match isEndOfBlock (top (st.map (·.bt))) (some r.type) with
  | .error f => .error f
  | .ok true =>
    match st with
    | fr :: st' => .ok (st', if fr.skip then known else addId fr.id known)
    | [] => .ok ([], known)
  | .ok false =>
    if topOmit st || !r.includeIf then
      match r.type with
      | .beginFor => .ok (⟨.for_, true, []⟩ :: st, known)
      | .beginBlock => .ok (⟨.block, true, []⟩ :: st, known)
      | _ => .ok (st, known)
    else
      match runProbes chk known r.probes with
      | .error f => .error f
      | .ok _ =>
        match r.type with
        | .beginFor => .ok (⟨.for_, r.iterEmpty, r.rowId⟩ :: st, known)
        | .beginBlock => .ok (⟨.block, false, r.rowId⟩ :: st, known)
        | _ => .ok (st, addId r.rowId known)

/-- the rows of a sheet prefix, processed without reaching the end of the sheet -/
def steps {P : Type} (chk : List Str → P → Except Fault Unit) :
    List Frame × List Str → List (Row P) → Except Fault (List Frame × List Str)
  | s, [] => .ok s
  | s, r :: rs =>
    match step chk s r with
    | .error f => .error f
    | .ok s' => steps chk s' rs

/-- `_parse_block` over all rows of one sheet: the rows in order, then the end-of-sheet
test of the innermost active call. -/
def runSheet {P : Type} (chk : List Str → P → Except Fault Unit) (st : List Frame)
    (known : List Str) (rows : List (Row P)) : Except Fault Unit :=
  match steps chk (st, known) rows with
  | .error f => .error f
  | .ok s =>
    match isEndOfBlock (top (s.1.map (·.bt))) none with
    | .error f => .error f
    | .ok _ => .ok ()

/-! ## one flow instance: `_parse_flow` -/

structure FlowInst (P : Type) where
  name : Str := []
  /-- `(data_sheet, data_row_id)` of the create_flow / insert_as_block row -/
  dataSheet : Str := []
  dataRowId : Str := []
  /-- field names of the data row (the initial context) -/
  ctx : List Str := []
  defs : List ArgDef := []
  args : List Str := []
  rows : List (Row P) := []
  /-- flow names the instance refers to (`start_new_flow` rows, inserted blocks included).
  They reach the UUID dictionary through `flow.record_global_uuids` — i.e. only if the flow
  is still in the `flows` dict of `parse_all_flows` when the container is filled. -/
  refs : List Str := []

/-- registry of data sheets after the index was processed: name ↦ row ids -/
abbrev DataReg := List (Str × List Str)

def lookupRows (k : Str) : DataReg → Option (List Str)
  | [] => none
  | (k', v) :: rest => if k' = k then some v else lookupRows k rest

/-- `get_data_sheet_row` (two dict look-ups: KeyError) when both are given -/
def checkDataRow (reg : DataReg) (sheet id : Str) : Except Fault Unit :=
  if sheet ≠ [] ∧ id ≠ [] then
    match lookupRows sheet reg with
    | none => .error (.missingDataSheet sheet)
    | some ids => if id ∈ ids then .ok () else .error (.missingDataRow id)
  else .ok ()

def compileInst {P : Type} (chk : List Str → P → Except Fault Unit) (reg : DataReg)
    (f : FlowInst P) : Except Fault Unit :=
  match checkDataRow reg f.dataSheet f.dataRowId with
  | .error e => .error e
  | .ok _ =>
    match bindArgs f.defs f.args f.ctx with
    | .error e => .error e
    | .ok _ => runSheet chk [] [] f.rows

/-- detectors of a top-level flow row: the plain ones, or an `insert_as_block` row that
instantiates another sheet on the spot (`get_node_group`: the pairing test of
`data_sheet`/`data_row_id`, then `_parse_flow(..., parse_as_block=True)`). -/
inductive Probe1 where
  | leaf (p : Probe0)
  | insert (f : FlowInst Probe0)

def Probe1.check (reg : DataReg) (known : List Str) : Probe1 → Except Fault Unit
  | .leaf p => p.check known
  | .insert f =>
    if (f.dataSheet ≠ [] ∧ f.dataRowId = []) ∨ (f.dataSheet = [] ∧ f.dataRowId ≠ []) then
      .error .dataRowIdWithoutSheet
    else compileInst Probe0.check reg f

/-! ## the content index -/

/-- one source sheet of a `data_sheet` row as `_get_data_sheet` sees it -/
structure DataSource where
  name : Str
  /-- already registered under this name by an earlier row -/
  cached : Bool := false
  /-- `data_model` cell (looked up only if a `--datamodels` module was given) -/
  dataModel : Str := []
  deriving Repr

inductive IndexRow where
  /-- content_index / template_definition / create_campaign / create_triggers rows, and the
  create_flow rows in `_populate_missing_templates`: `_get_sheet_or_die` -/
  | sheetRef (name : Str)
  /-- data_sheet row: operation type, new_name, sources -/
  | dataSheet (op : Str) (newName : Str) (srcs : List DataSource)
  /-- a row of any other type (`ignore_row`, or a type the dispatch does not know) with the
  number of names in its `sheet_name` cell -/
  | other (type : Str) (nSheets : Nat)
  deriving Repr

def knownOps : List Str := ["concat".toList, "filter".toList, "sort".toList]

/-- `_get_new_data_sheet`: model lookup first, then the sheet -/
def checkSource (sheets : List Str) (hasModule : Bool) (models : List Str) (s : DataSource) :
    Except Fault Unit :=
  if s.cached then .ok ()
  else if hasModule ∧ s.dataModel ≠ [] ∧ s.dataModel ∉ models then .error (.unknownDataModel s.dataModel)
  else if s.name ∈ sheets then .ok () else .error (.missingSheet s.name)

def checkSources (sheets : List Str) (hasModule : Bool) (models : List Str) :
    List DataSource → Except Fault Unit
  | [] => .ok ()
  | s :: ss =>
    match checkSource sheets hasModule models s with
    | .error f => .error f
    | .ok _ => checkSources sheets hasModule models ss

/-- `_process_data_sheet`: without operation all sources are concatenated; with one, the
`new_name` test comes first, filter/sort read only the first source, anything else is
"Unknown operation".  A row of another type: the `len(row.sheet_name) != 1` test precedes
the dispatch on the type, whose `else` branch is "invalid type" (no sheet is looked up). -/
def IndexRow.check (sheets : List Str) (hasModule : Bool) (models : List Str) :
    IndexRow → Except Fault Unit
  | .sheetRef n => if n ∈ sheets then .ok () else .error (.missingSheet n)
  | .dataSheet op newName srcs =>
    if op = [] then checkSources sheets hasModule models srcs
    else if newName = [] then .error .operationWithoutNewName
    else if op = "concat".toList then checkSources sheets hasModule models srcs
    else if op ∈ knownOps then checkSources sheets hasModule models (srcs.take 1)
    else .error .unknownOperation
  | .other t n =>
    if n ≠ 1 then .error (.sheetNameCount t)
    else if t ∈ indexRowTypes then .ok () else .error (.unknownIndexType t)

def checkIndex (sheets : List Str) (hasModule : Bool) (models : List Str) :
    List IndexRow → Except Fault Unit
  | [] => .ok ()
  | r :: rs =>
    match r.check sheets hasModule models with
    | .error f => .error f
    | .ok _ => checkIndex sheets hasModule models rs

/-! ## the whole run -/

/-- a create_flow row as `parse_all_flows` treats it -/
structure FlowDef where
  dataSheet : Str := []
  dataRowId : Str := []
  /-- the instances to parse: one, or one per data row (expanded by the reader of the
  registry; each carries its own `dataRowId`) -/
  insts : List (FlowInst Probe1) := []

structure Workbook where
  hasIndex : Bool
  /-- names of all sheets the reader offers -/
  sheets : List Str := []
  hasModule : Bool := false
  models : List Str := []
  index : List IndexRow := []
  reg : DataReg := []
  flows : List FlowDef := []
  /-- (name, uuid) of every flow / group reference in document order -/
  flowUuids : List (Str × Str) := []
  groupUuids : List (Str × Str) := []
  /-- further names the UUID dictionary knows for flows after `update_global_uuids`'
  recording phase: flows referenced by the events of the campaigns that are still in
  `campaign_parsers` (a later `create_campaign` row of the same name replaces the earlier
  parser, whose events are then never looked at).  The created flows and the flows they
  refer to are computed by `knownFlowNames`. -/
  flowNames : List Str := []
  /-- `flow` cells of the trigger rows -/
  triggers : List Str := []

def compileInsts (reg : DataReg) : List (FlowInst Probe1) → Except Fault Unit
  | [] => .ok ()
  | f :: fs =>
    match compileInst (Probe1.check reg) reg f with
    | .error e => .error e
    | .ok _ => compileInsts reg fs

def FlowDef.compile (reg : DataReg) (d : FlowDef) : Except Fault Unit :=
  if d.dataSheet ≠ [] ∧ d.dataRowId = [] then
    match lookupRows d.dataSheet reg with
    | none => .error (.missingDataSheet d.dataSheet)
    | some _ => compileInsts reg d.insts
  else if d.dataSheet = [] ∧ d.dataRowId ≠ [] then .error .dataRowIdWithoutSheet
  else compileInsts reg d.insts

/-- `parse_all_flows`: the create_flow rows in index order; the first error ends the run
(`mapM` in `Except`). -/
def compileFlows (reg : DataReg) (ds : List FlowDef) : Except Fault Unit :=
  (ds.mapM (FlowDef.compile reg)).map (fun _ => ())

/-! ### redefinition: the `flows` dict of `parse_all_flows`

Every create_flow row is parsed (`compileFlows` above: nothing is skipped), and only then
`flows[flow.name] = flow` is executed: a later flow of the same name takes the place of the
earlier one ("Multiple definitions of flow … Overwriting", a warning).  So a replaced
definition is *checked* like any other; what it loses is its place in the container — its
name-only references never reach the UUID dictionary. -/

/-- `flows[name] = flow` on an insertion-ordered dict: value replaced, position kept -/
def putFlow (n : Str) (refs : List Str) : List (Str × List Str) → List (Str × List Str)
  | [] => [(n, refs)]
  | (n', r') :: rest => if n' = n then (n, refs) :: rest else (n', r') :: putFlow n refs rest

/-- the flows that reach the container, with the names each refers to -/
def survivors (ds : List FlowDef) : List (Str × List Str) :=
  (ds.flatMap (·.insts)).foldl (fun acc i => putFlow i.name i.refs acc) []

/-- `uuid_dict.contains_flow` at the time the triggers are recorded: the surviving flows, the
flows they refer to, every name that came with an `obj_id` (recorded while the row was
parsed, whether or not its flow survives), and the surviving campaigns' flows.  (A flow that
is only *referenced* counts — finding F-C06-b — that is what the code does.) -/
def knownFlowNames (w : Workbook) : List Str :=
  let s := survivors w.flows
  s.map (·.1) ++ s.flatMap (·.2) ++ w.flowUuids.map (·.1) ++ w.flowNames

def checkTriggers (flowNames : List Str) : List Str → Except Fault Unit
  | [] => .ok ()
  | t :: ts => if t ∈ flowNames then checkTriggers flowNames ts else .error (.triggerUnknownFlow t)

/-- the fault-detecting skeleton of `converters.create_flows`:
`ContentIndexParser.__init__` (index), `parse_all` (flows), `render` (uuid dictionary,
triggers).  The document itself is abstract: `doc` stands for what `render()` returns. -/
def createFlows {D : Type} (doc : Workbook → D) (w : Workbook) : Except Fault D :=
  if !w.hasIndex then .error .noContentIndex
  else
    match checkIndex w.sheets w.hasModule w.models w.index with
    | .error f => .error f
    | .ok _ =>
      match compileFlows w.reg w.flows with
      | .error f => .error f
      | .ok _ =>
        match recordAll [] w.flowUuids with
        | .error f => .error f
        | .ok _ =>
          match recordAll [] w.groupUuids with
          | .error f => .error f
          | .ok _ =>
            match checkTriggers (knownFlowNames w) w.triggers with
            | .error f => .error f
            | .ok _ => .ok (doc w)

/-! ## the command -/

abbrev Outcome (D : Type) := Except Fault D

structure CliResult where
  exit : Nat
  /-- content of the `--output` path after the run (`none`: no such file) -/
  file : Option Str
  deriving DecidableEq, Repr

/-- `cli.create_flows` on a file system where `--output` initially holds `pre`.
`create` stands for `converters.create_flows(args.input, None, …)`, `encode` for
`json.dump(flows, export, indent=4)`. -/
def cliFs {W D : Type} (create : W → Outcome D) (encode : D → Str) (pre : Option Str) (w : W) :
    CliResult :=
  match create w with
  | .ok d => ⟨0, some (encode d)⟩
  | .error _ => ⟨shutdownExit, pre⟩

/-- no pre-existing output file -/
def cli {W D : Type} (create : W → Outcome D) (encode : D → Str) (w : W) : CliResult :=
  cliFs create encode none w

end Rpft.Cli
