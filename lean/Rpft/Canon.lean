/-
Canonical ORDER for the T1 ties (`tables_agree…`, DESIGN §2.5a).

A table of the source whose order carries no meaning — a lookup dict with unique keys, a set, the
constants of an `if x == … elif x == …` chain over distinct constants — is compared UP TO ORDER:
both the regenerated literal (`Rpft.Gen.…`) and the constant the model uses are put through the
same insertion sort (by code point, Python's `sorted` on `str`) before `decide` compares them, so
re-ordering a dict literal / a chain / a list of alternatives in the source does not break the
proof step, while adding, dropping or changing an entry still does.  Tables whose order IS
meaningful (field order of row models — positional sub-record cells depend on it —, first-match
dispatch, call sequences) are compared exactly and say so where they are tied.

Core Lean only, structural recursion only (kernel `decide` evaluates it).
-/
import Rpft.Str
namespace Rpft.Canon
open Rpft

/-- Python `a <= b` on `str`: lexicographic by code point -/
def strLe : Str → Str → Bool
  | [], _ => true
  | _ :: _, [] => false
  | a :: as, b :: bs =>
    if a.toNat < b.toNat then true else if b.toNat < a.toNat then false else strLe as bs

def insertBy {α : Type} (le : α → α → Bool) (x : α) : List α → List α
  | [] => [x]
  | y :: ys => if le x y then x :: y :: ys else y :: insertBy le x ys

/-- insertion sort (stable) -/
def sortBy {α : Type} (le : α → α → Bool) : List α → List α
  | [] => []
  | x :: xs => insertBy le x (sortBy le xs)

/-- a set of strings, canonically -/
def sortS (xs : List Str) : List Str := sortBy strLe xs

def pairLe (a b : Str × Str) : Bool :=
  if a.1 = b.1 then strLe a.2 b.2 else strLe a.1 b.1

/-- a lookup table `key ↦ value`, canonically (by key, then value) -/
def sortP (ps : List (Str × Str)) : List (Str × Str) := sortBy pairLe ps

/-- a lookup table whose values are sets of strings: by key, every value sorted -/
def sortPL (ps : List (Str × List Str)) : List (Str × List Str) :=
  sortBy (fun a b => strLe a.1 b.1) (ps.map fun (k, v) => (k, sortS v))

/-- keys of a lookup table are unique: first-match lookup does not depend on the order -/
def uniqueKeys {β : Type} (ps : List (Str × β)) : Bool :=
  let rec go : List Str → Bool
    | [] => true
    | k :: ks => !ks.contains k && go ks
  go (ps.map (·.1))

/-- agreement of two sets of strings -/
abbrev sameSet (xs ys : List Str) : Prop := sortS xs = sortS ys
/-- agreement of two lookup tables -/
abbrev sameMap (xs ys : List (Str × Str)) : Prop := sortP xs = sortP ys

example : sortS ["b".toList, "a".toList, "ab".toList] = ["a".toList, "ab".toList, "b".toList] := by decide
example : sameMap [("b".toList, "1".toList), ("a".toList, "2".toList)]
    [("a".toList, "2".toList), ("b".toList, "1".toList)] := by decide
example : ¬ sameMap [("b".toList, "1".toList)] [("b".toList, "2".toList)] := by decide
example : uniqueKeys [("a".toList, 1), ("b".toList, 2)] = true := by decide
example : uniqueKeys [("a".toList, 1), ("a".toList, 2)] = false := by decide

end Rpft.Canon
