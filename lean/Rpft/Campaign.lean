/-
M9 — model of the campaign / trigger sheet compilers
(campaignparser.py 12-38, campaigneventrowmodel.py 17-36, campaigns.py 7-78,
 triggerparser.py 12-31, triggerrowmodel.py 16-31, triggers.py 12-60, 112-126,
 common.py `generate_field_key` 59-69, `ContactFieldReference.__init__`).

Core Lean only (imported by the executable driver).  The code is followed line by line,
quirks included:
* the message dict is keyed by the event's base language (since fix F-C19-a);
* the `uuid` column of a campaign row is never read;
* `if event_type == "F" and self.flow is None` can never fire (`self.flow` is always a
  `FlowReference` object), so a flow event without a flow name is accepted;
* a message on an `F` row is still rendered, a flow on an `M` row is recorded but not rendered;
* `int(row.delivery_hour)` is outside the `try`, `int(row.offset)` inside it;
* `generate_field_key` raises `RapidProActionError`, which is not a `ValueError`, so it
  propagates instead of being logged;
* an invalid trigger `type` makes the `match_type` validator die with `KeyError('type')`
  when the `match_type` column is present (pydantic only runs it for supplied values);
* `match_type` is only validated for `K` rows.

Outcomes: an *exception* (`Exc`) aborts the whole run; a *critical* (`Crit`) is what
`LOGGER.critical` reports — the CLI exits, the library continues with the row dropped.
Both count as "rejected".  The constants are tied to the source by `Props.C19.tables_agree`.
-/
import Rpft.Str
import Rpft.Cell
namespace Rpft.Campaign
open Rpft

/-! ### constants (checked against the source on every run) -/

def units : List Str := ["M".toList, "H".toList, "D".toList, "W".toList]
def startModes : List Str := ["I".toList, "S".toList, "P".toList]
def eventTypes : List Str := ["M".toList, "F".toList]
def trigTypes : List Str := ["K".toList, "C".toList, "M".toList, "T".toList]
def matchTypes : List Str := ["F".toList, "O".toList, []]
def maxKeyLen : Nat := 36
def defaultLang : Str := "eng".toList
def defaultHour : Int := -1
def evMessage : Str := "M".toList
def evFlow : Str := "F".toList
def trigKeyword : Str := "K".toList
def defaultMatch : Str := "F".toList

/-- field names of `CampaignEventRowModel` / `TriggerRowModel` with `required` flag -/
def campFields : List (Str × Bool) :=
  [("uuid".toList, false), ("offset".toList, true), ("unit".toList, true),
   ("event_type".toList, true), ("delivery_hour".toList, false), ("message".toList, false),
   ("relative_to".toList, true), ("start_mode".toList, true), ("flow".toList, false),
   ("base_language".toList, false)]
def trigFields : List (Str × Bool) :=
  [("type".toList, true), ("keywords".toList, false), ("flow".toList, false),
   ("groups".toList, false), ("exclude_groups".toList, false), ("channel".toList, false),
   ("match_type".toList, false)]

/-! ### errors -/

inductive Exc where
  | validation (fields : List Str)  -- pydantic ValidationError, failing fields in declaration order
  | keyError                         -- KeyError('type') out of the match_type validator
  | valueError                       -- int(delivery_hour) outside the try
  | keyTooLong                       -- RapidProActionError: key longer than 36
  | keyNoLetter                      -- RapidProActionError: key without a letter
  | undefinedFlow (name : Str)       -- RapidProTriggerError at container validation
  | unsupported                      -- outside the modelled domain (nested list in a List[str] cell)
  deriving Repr, DecidableEq

inductive Crit where
  | intOffset        -- int(offset) ValueError, caught and logged
  | msgNeedsText     -- CampaignEvent must have a message and base_language if the event_type is M
  | needsKeyword     -- Triggers of type "K" must have a keyword
  | needsFlow        -- Trigger must have flow or a flow_name
  | groupNeedsName   -- Trigger group must have a name.
  deriving Repr, DecidableEq

inductive RowRes (α : Type) where
  | ok (a : α)
  | crit (c : Crit)
  | exc (e : Exc)
  deriving Repr, DecidableEq

deriving instance DecidableEq for Except

/-! ### CPython pieces -/

def isDigit (c : Char) : Bool := '0' ≤ c && c ≤ '9'

/-- decimal digits with single underscores strictly between digits (PEP 515) -/
def digitsVal : Nat → Bool → Str → Option Nat
  -- acc, "previous character was a digit", rest
  | acc, prevDigit, [] => if prevDigit then some acc else none
  | acc, prevDigit, c :: rest =>
    if isDigit c then digitsVal (acc * 10 + (c.toNat - '0'.toNat)) true rest
    else if c = '_' ∧ prevDigit then
      match rest with
      | d :: _ => if isDigit d then digitsVal acc false rest else none
      | [] => none
    else none

/-- `int(s)` for a `str` of ASCII characters: surrounding whitespace, optional sign,
digits with single underscores; `none` = `ValueError`.  (Non-ASCII decimal digits, which
CPython also accepts, are outside the modelled domain.) -/
def pyInt (s : Str) : Option Int :=
  match strip pyWs s with
  | '-' :: ds => (digitsVal 0 false ds).map fun n => - (n : Int)
  | '+' :: ds => (digitsVal 0 false ds).map fun n => (n : Int)
  | ds => (digitsVal 0 false ds).map fun n => (n : Int)

/-- `str.lower()` restricted to ASCII -/
def lowerAscii (c : Char) : Char :=
  if 'A' ≤ c ∧ c ≤ 'Z' then Char.ofNat (c.toNat + 32) else c

def isAsciiLetter (c : Char) : Bool := ('A' ≤ c && c ≤ 'Z') || ('a' ≤ c && c ≤ 'z')

/-- `field_name.strip().lower().replace(" ", "_")` -/
def fieldKeyRaw (label : Str) : Str :=
  replace1 ' ' ['_'] ((strip pyWs label).map lowerAscii)

/-- `generate_field_key` -/
def generateFieldKey (label : Str) : Except Exc Str :=
  let k := fieldKeyRaw label
  if ¬ (k.length ≤ maxKeyLen) then .error .keyTooLong
  else if ¬ (k.any isAsciiLetter) then .error .keyNoLetter
  else .ok k

/-! ### campaign events -/

/-- `CampaignEventRowModel` after default filling (all cells are stripped strings) -/
structure CampRow where
  uuid : Str := []
  offset : Str
  unit : Str
  eventType : Str
  deliveryHour : Str := []
  message : Str := []
  relativeTo : Str
  startMode : Str
  flow : Str := []
  baseLanguage : Str := []
  deriving Repr, DecidableEq

/-- the pydantic validators: names of the failing fields, in declaration order -/
def campInvalidFields (r : CampRow) : List Str :=
  (if r.unit ∈ units then [] else ["unit".toList]) ++
  (if r.eventType ∈ eventTypes then [] else ["event_type".toList]) ++
  (if r.startMode ∈ startModes then [] else ["start_mode".toList])

def validateCampRow (r : CampRow) : Option Exc :=
  match campInvalidFields r with
  | [] => none
  | fs => some (.validation fs)

/-- `CampaignEvent` as constructed by the parser (uuid invented, never taken from the row) -/
structure Event where
  offset : Int
  unit : Str
  eventType : Str
  deliveryHour : Int
  startMode : Str
  relLabel : Str
  relKey : Str
  message : Option (Str × Str)    -- the one-entry dict {language key: text}
  flowName : Option Str
  baseLanguage : Option Str
  deriving Repr, DecidableEq

/-- body of the loop of `CampaignParser.parse` + `CampaignEvent.__init__` -/
def eventOfRow (r : CampRow) : RowRes Event :=
  let message : Option (Str × Str) :=
    if r.message ≠ [] then some ((if r.baseLanguage ≠ [] then r.baseLanguage else defaultLang), r.message) else none
  let baseLanguage : Option Str :=
    if r.message ≠ [] then some (if r.baseLanguage ≠ [] then r.baseLanguage else defaultLang) else none
  match (if r.deliveryHour ≠ [] then pyInt r.deliveryHour else some defaultHour) with
  | none => .exc .valueError
  | some dh =>
    match pyInt r.offset with
    | none => .crit .intOffset
    | some off =>
      match generateFieldKey r.relativeTo with
      | .error e => .exc e
      | .ok key =>
        if r.eventType = evMessage ∧ (message = none ∨ baseLanguage = none) then .crit .msgNeedsText
        else .ok {
          offset := off, unit := r.unit, eventType := r.eventType, deliveryHour := dh,
          startMode := r.startMode, relLabel := r.relativeTo, relKey := key,
          message := message, flowName := if r.flow ≠ [] then some r.flow else none,
          baseLanguage := baseLanguage }

/-! ### triggers -/

/-- `TriggerRowModel`; `matchType = none` ⇔ the column is absent (default, not validated) -/
structure TrigRow where
  type : Str
  keywords : List Str := []
  flow : Str := []
  groups : List Str := []
  excludeGroups : List Str := []
  channel : Str := []
  matchType : Option Str := none
  deriving Repr, DecidableEq

def validateTrigRow (r : TrigRow) : Option Exc :=
  if r.type ∈ trigTypes then
    match r.matchType with
    | some m =>
      if r.type = trigKeyword ∧ m ∉ matchTypes then some (.validation ["match_type".toList]) else none
    | none => none
  else
    match r.matchType with
    | some _ => some .keyError
    | none => some (.validation ["type".toList])

structure Trigger where
  type : Str
  keywords : List Str
  matchType : Option Str
  channel : Option Str
  flowName : Str
  groups : List Str
  excludeGroups : List Str
  deriving Repr, DecidableEq

def orNone (s : Str) : Option Str := if s ≠ [] then some s else none

/-- `Trigger.__init__` as called by `TriggerParser.parse` -/
def triggerOfRow (r : TrigRow) : RowRes Trigger :=
  let mt0 : Str := r.matchType.getD []
  if r.type = trigKeyword ∧ (r.keywords = [] ∨ r.keywords.head? = some []) then .crit .needsKeyword
  else
    let mt : Option Str :=
      if r.type = trigKeyword ∧ mt0 = [] then some defaultMatch else orNone mt0
    if r.flow = [] then .crit .needsFlow
    else if r.groups.any (· = []) then .crit .groupNeedsName
    else if r.excludeGroups.any (· = []) then .crit .groupNeedsName
    else .ok {
      type := r.type, keywords := r.keywords, matchType := mt, channel := orNone r.channel,
      flowName := r.flow, groups := r.groups, excludeGroups := r.excludeGroups }

/-! ### sheets -/

/-- row-model validation of the whole sheet (happens when the index is read): first failure -/
def validateAll {ρ : Type} (v : ρ → Option Exc) : List ρ → Option Exc
  | [] => none
  | r :: rs => match v r with
    | some e => some e
    | none => validateAll v rs

/-- the `for row_idx, row in enumerate(rows)` loop: an exception aborts, a critical is
recorded with its row index and the row produces nothing -/
def parseRows {ρ α : Type} (f : ρ → RowRes α) : Nat → List ρ → Except Exc (List α × List (Nat × Crit))
  | _, [] => .ok ([], [])
  | i, r :: rs =>
    match f r with
    | .exc e => .error e
    | .crit c =>
      match parseRows f (i + 1) rs with
      | .error e => .error e
      | .ok (out, cs) => .ok (out, (i, c) :: cs)
    | .ok a =>
      match parseRows f (i + 1) rs with
      | .error e => .error e
      | .ok (out, cs) => .ok (a :: out, cs)

def parseCampaign (rows : List CampRow) : Except Exc (List Event × List (Nat × Crit)) :=
  match validateAll validateCampRow rows with
  | some e => .error e
  | none => parseRows eventOfRow 0 rows

def parseTriggers (rows : List TrigRow) : Except Exc (List Trigger × List (Nat × Crit)) :=
  match validateAll validateTrigRow rows with
  | some e => .error e
  | none => parseRows triggerOfRow 0 rows

/-- `Trigger.record_global_uuids(require_existing=True)`: first trigger whose flow name is
not a key of the flow dictionary at that moment -/
def requireExisting (known : List (Option Str)) : List Str → Option Exc
  | [] => none
  | n :: ns => if some n ∈ known then requireExisting known ns else some (.undefinedFlow n)

/-! ### cells → rows (RowParser on `str` / `List[str]` fields, no templates) -/

/-- a `List[str]` cell: `CellParser.parse` then `assign_value` (`""` → `[]`, scalar → `[s]`) -/
def listOfCell (cell : Str) : Except Exc (List Str) :=
  match Cell.splitIntoLists pyWs (strip pyWs cell) with
  | .atom [] => .ok []
  | .atom s => .ok [s]
  | .list es => es.mapM fun
    | .atom s => .ok s
    | .list _ => .error .unsupported   -- str(list) — Python repr, not modelled

/-! ### rendering (symbolic UUIDs: the harness renames both sides by first occurrence) -/

inductive Uid where
  | campaign (c : Nat)
  | event (c i : Nat)
  | flow (name : Option Str)
  | group (name : Str)
  deriving Repr, DecidableEq

inductive J where
  | null
  | str (s : Str)
  | int (n : Int)
  | uid (u : Uid)
  | arr (xs : List J)
  | obj (kv : List (String × J))
  deriving Repr

def optStr : Option Str → J
  | none => .null
  | some s => .str s

def renderGroup (name : Str) : J := .obj [("name", .str name), ("uuid", .uid (.group name))]
def renderFlowRef (name : Option Str) : J := .obj [("name", optStr name), ("uuid", .uid (.flow name))]

/-- `CampaignEvent.render` -/
def renderEvent (c i : Nat) (e : Event) : J :=
  .obj ([
    ("uuid", .uid (.event c i)),
    ("offset", .int e.offset),
    ("unit", .str e.unit),
    ("event_type", .str e.eventType),
    ("delivery_hour", .int e.deliveryHour),
    ("message", match e.message with
      | none => .null
      | some (k, t) => .obj [(String.ofList k, .str t)]),
    ("relative_to", .obj [("label", .str e.relLabel), ("key", .str e.relKey)]),
    ("start_mode", .str e.startMode)] ++
    (if e.eventType = evFlow then [("flow", renderFlowRef e.flowName)] else []) ++
    (match e.baseLanguage with
      | some l => if e.eventType = evMessage ∧ l ≠ [] then [("base_language", .str l)] else []
      | none => []))

def renderEventsFrom (c : Nat) : Nat → List Event → List J
  | _, [] => []
  | i, e :: es => renderEvent c i e :: renderEventsFrom c (i + 1) es

/-- `Campaign.render` -/
def renderCampaign (c : Nat) (name group : Str) (evs : List Event) : J :=
  .obj [("group", renderGroup group), ("name", .str name), ("uuid", .uid (.campaign c)),
        ("events", .arr (renderEventsFrom c 0 evs))]

/-- `Trigger.render` -/
def renderTrigger (t : Trigger) : J :=
  .obj ([
    ("trigger_type", .str t.type),
    ("keyword", optStr t.keywords.head?),
    ("keywords", .arr (t.keywords.map .str)),
    ("channel", optStr t.channel),
    ("flow", renderFlowRef (some t.flowName)),
    ("groups", .arr (t.groups.map renderGroup)),
    ("exclude_groups", .arr (t.excludeGroups.map renderGroup))] ++
    (match t.matchType with
      | some m => if m ≠ [] then [("match_type", .str m)] else []
      | none => []))

end Rpft.Campaign
