/-
M4 — model of the flow compiler: `FlowParser._parse_row` and friends (flowparser.py 49-305,
346-379, 455-799), the router mutators of routers.py (add_choice, get_or_create_category,
generate_category_name, update_default_category, update_no_response_category) and the node
constructors of nodes.py, as an arena machine driven by the parser's event sequence
(`Rpft/Sugar.lean`: row / open group / close group).

Mutable Python objects become arena entries (`nodes`, `groups` indexed by creation order);
`generate_new_uuid()` becomes the counter `next` (identifiers `~n`); identifiers given in the
sheet (`_nodeId`) are kept verbatim.  Not modelled (parameters, see DESIGN §0/§3): the content
of actions (an opaque text per row, produced by the real `_get_row_action(...).render()`),
UI positions, group/flow uuid assignment (C06).  `insert_as_block` is an event carrying the
events of the nested parser that instantiates the template (`ContentIndexParser.get_node_group`).
In library mode a CRITICAL log record does not stop the real parser; the model stops at the
first one (`Err`): the tie compares outputs only when the real run logged nothing ≥ ERROR.
Core Lean only.
-/
import Rpft.Str
namespace Rpft.Compile
open Rpft

abbrev Uid := Str

inductive Dest where
  | none
  | hard                 -- the HARD_EXIT sentinel
  | node (u : Uid)
  deriving Repr, DecidableEq

structure Cond where
  value : Str
  var : Str
  type : Str
  name : Str
  deriving Repr, DecidableEq

def Cond.blank (c : Cond) : Bool := c.value.isEmpty && c.var.isEmpty && c.type.isEmpty && c.name.isEmpty

structure Edge where
  from_ : Str
  cond : Cond
  deriving Repr, DecidableEq

def Edge.trivial (e : Edge) : Bool := e.from_.isEmpty && e.cond.blank

/-- a parsed, instantiated row (the fields the compiler reads) -/
structure Row where
  rowId : Str
  type : Str
  edges : List Edge
  action : Option Str        -- canonical content of `_get_row_action(row)` (opaque), if any
  actionOk : Bool            -- `_get_row_action` does not raise (text non-empty, ≤ 640 chars, …)
  ownAction : Option Str     -- the action the node constructor adds itself (sub-flow, webhook, airtime)
  nodeUuid : Str             -- `_nodeId`
  nodeName : Str
  saveName : Str
  noResponse : Str
  expression : Str           -- mainarg_expression
  flowName : Str             -- mainarg_flow_name
  dests : List Str           -- mainarg_destination_row_ids
  resultKey : Option Str     -- generate_field_key(save_name) when it succeeds (webhook / airtime)
  nodeOk : Bool              -- the node constructor's own argument checks pass (url, amounts, …)
  deriving Repr, DecidableEq

structure Cat where
  uid : Uid
  name : Str
  exitUid : Uid
  dest : Dest
  deriving Repr, DecidableEq

structure Case where
  uid : Uid
  type : Str
  args : List (Option Str)
  catUid : Uid
  deriving Repr, DecidableEq

structure SwitchR where
  operand : Str
  cases : List Case
  cats : List Cat            -- the non-default, non-timeout categories, in creation order
  dflt : Cat
  noResp : Option Cat
  wait : Option Nat          -- wait_timeout: none / some 0 / some n
  resultName : Option Str
  deriving Repr, DecidableEq

structure RandomR where
  cats : List Cat
  resultName : Option Str
  deriving Repr, DecidableEq

inductive RouterM where
  | sw (r : SwitchR)
  | rnd (r : RandomR)
  deriving Repr, DecidableEq

inductive NodeKind where
  | basic | switch | random | enter | webhook | airtime
  deriving Repr, DecidableEq

structure NodeM where
  uid : Uid
  kind : NodeKind
  actions : List (Uid × Str)
  router : Option RouterM
  dexitUid : Uid
  dexitDest : Dest
  deriving Repr, DecidableEq

inductive Grp where
  | row (nodes : List Nat) (rowType : Str)
  | noop (parents : List (Nat × Cond)) (router : Option Nat)
  | block (children : List Nat)
  deriving Repr, DecidableEq

inductive Err where
  | critical (what : String)     -- LOGGER.critical / LOGGER.error
  | exc (what : String)          -- an exception escapes
  | unsupported (what : String)
  | fuel
  deriving Repr, DecidableEq

structure St where
  nodes : Array NodeM := #[]
  groups : Array Grp := #[.block []]      -- group 0 = the root block
  stack : List Nat := [0]                 -- open blocks, innermost first
  rowIds : List (Str × Nat) := []         -- row_id ↦ group (latest first)
  names : List (Str × Nat) := []          -- node name ↦ node
  next : Nat := 0
  noArgs : List Str := []                 -- RouterCase.NO_ARGS_TESTS (T1)
  testTypes : List Str := []              -- keys of RouterCase.TEST_VALIDATIONS (T1)
  deriving Repr

abbrev M := StateT St (Except Err)

def natStr (n : Nat) : Str := (toString n).toList

def fresh : M Uid := do
  let s ← get
  set { s with next := s.next + 1 }
  pure ('~' :: natStr s.next)

def fail {α : Type} (e : Err) : M α := throw e

def getNode (i : Nat) : M NodeM := do
  match (← get).nodes[i]? with
  | some n => pure n
  | none => fail (.exc "node index")

def setNode (i : Nat) (n : NodeM) : M Unit :=
  modify fun s => { s with nodes := s.nodes.setIfInBounds i n }

def getGrp (i : Nat) : M Grp := do
  match (← get).groups[i]? with
  | some g => pure g
  | none => fail (.exc "group index")

def setGrp (i : Nat) (g : Grp) : M Unit :=
  modify fun s => { s with groups := s.groups.setIfInBounds i g }

def addNode (n : NodeM) : M Nat := do
  let s ← get
  set { s with nodes := s.nodes.push n }
  pure s.nodes.size

def addGrp (g : Grp) : M Nat := do
  let s ← get
  set { s with groups := s.groups.push g }
  pure s.groups.size

/-! ### routers -/

def mkCat (name : Str) (dest : Dest) : M Cat := do
  let u ← fresh
  let e ← fresh
  pure { uid := u, name := name, exitUid := e, dest := dest }

def newSwitch (operand : Str) (resultName : Option Str) (wait : Option Nat) : M SwitchR := do
  let d ← mkCat "Other".toList .none
  let nr ← match wait with
    | some (n + 1) => do let c ← mkCat "No Response".toList .none; pure (some c)
    | _ => pure none
  pure { operand := operand, cases := [], cats := [], dflt := d, noResp := nr, wait := wait,
         resultName := resultName }

def SwitchR.allCats (r : SwitchR) : List Cat := r.cats ++ [r.dflt] ++ r.noResp.toList

def SwitchR.mapCats (r : SwitchR) (f : Cat → Cat) : SwitchR :=
  { r with cats := r.cats.map f, dflt := f r.dflt, noResp := r.noResp.map f }

def SwitchR.catByName (r : SwitchR) (name : Str) : Option Cat := r.allCats.find? (·.name = name)

/-- ASCII `str.title()`: a letter is upper-cased when the previous character is not a letter,
lower-cased otherwise (generators keep condition values ASCII in the compile tie) -/
def pyTitle (s : Str) : Str :=
  let rec go (prevLetter : Bool) : Str → Str
    | [] => []
    | c :: cs =>
      if c.isAlpha then (if prevLetter then c.toLower else c.toUpper) :: go true cs
      else c :: go false cs
  go false s

def argStr : Option Str → Str
  | none => "None".toList
  | some s => s

def joinUnderscore : List Str → Str
  | [] => []
  | [x] => x
  | x :: xs => x ++ ['_'] ++ joinUnderscore xs

/-- `generate_category_name`: title-cased arguments joined by `_`, `_alt` appended until free -/
def genCatName (r : SwitchR) (args : List (Option Str)) : Str :=
  let base := joinUnderscore (args.map fun a => pyTitle (argStr a))
  let rec go (fuel : Nat) (n : Str) : Str :=
    match fuel with
    | 0 => n
    | f + 1 => if (r.catByName n).isSome then go f (n ++ "_alt".toList) else n
  go (r.allCats.length + 1) base

/-- set the destination of the category with the given uuid -/
def SwitchR.setDest (r : SwitchR) (u : Uid) (d : Dest) : SwitchR :=
  r.mapCats fun c => if c.uid = u then { c with dest := d } else c

/-- `update_default_category(destination)` -/
def SwitchR.setDflt (r : SwitchR) (d : Dest) : SwitchR := { r with dflt := { r.dflt with dest := d } }

/-- `add_choice`, a new case: the category it selects (default / existing by name / new) -/
def choiceCat (r : SwitchR) (name : Str) (dest : Dest) (isDefault : Bool) : M (SwitchR × Uid) :=
  if isDefault then
    pure ({ r with dflt := { r.dflt with dest := dest, name := if name.isEmpty then r.dflt.name else name } },
          r.dflt.uid)
  else match r.catByName name with
    | some c => pure (r.setDest c.uid dest, c.uid)
    | none =>
      if name.length > 115 then fail (.exc "RapidProRouterError: category name too long")
      else do
        let c ← mkCat name dest
        pure ({ r with cats := r.cats ++ [c] }, c.uid)

/-- `add_choice`, a new case: the case itself -/
def choiceCase (r : SwitchR) (type : Str) (stored : List (Option Str)) (catUid : Uid) : M SwitchR := do
  let s ← get
  if s.testTypes.contains type then do
    let ku ← fresh
    pure { r with cases := r.cases ++ [{ uid := ku, type := type, args := stored, catUid := catUid }] }
  else fail (.exc "ValueError: invalid router test type")

/-- `SwitchRouter.add_choice` (is_default = False branch and the is_default = True branch) -/
def addChoice (r : SwitchR) (var : Str) (type : Str) (args : List (Option Str)) (catName : Str)
    (dest : Dest) (isDefault : Bool) : M SwitchR := do
  let s ← get
  let r := if var.isEmpty then r else { r with operand := var }
  -- RouterCase stores no arguments for the no-argument tests (and `_get_case_or_none` looks them up so)
  let stored := if s.noArgs.contains type then [] else args
  match r.cases.find? (fun k => k.type = type ∧ k.args = stored) with
  | some k =>
    -- the case exists: only its category's destination is updated
    match r.allCats.find? (·.uid = k.catUid) with
    | none => fail (.exc "KeyError: no category with given uuid")
    | some _ => pure (r.setDest k.catUid dest)
  | none => do
    let name := if catName.isEmpty then genCatName r args else catName
    let rc ← choiceCat r name dest isDefault
    choiceCase rc.1 type stored rc.2

def randomAddChoice (r : RandomR) (name : Str) (dest : Dest) : M RandomR :=
  let nm := if name.isEmpty then "Bucket ".toList ++ natStr (r.cats.length + 2) else name
  match r.cats.find? (·.name = nm) with
  | some c => pure { r with cats := r.cats.map fun c' => if c'.uid = c.uid then { c' with dest := dest } else c' }
  | none => do
    let c ← mkCat nm dest
    pure { r with cats := r.cats ++ [c] }

/-! ### nodes -/

def NodeM.exitDests (n : NodeM) : List Dest :=
  match n.router with
  | none => [n.dexitDest]
  | some (.sw r) => r.allCats.map (·.dest)
  | some (.rnd r) => r.cats.map (·.dest)

def NodeM.hasLoose (n : NodeM) : Bool := n.exitDests.any (· == Dest.none)

def NodeM.connectLoose (n : NodeM) (d : Dest) : NodeM :=
  let f := fun (c : Cat) => if c.dest == Dest.none then { c with dest := d } else c
  match n.router with
  | none => if n.dexitDest == Dest.none then { n with dexitDest := d } else n
  | some (.sw r) => { n with router := some (.sw (r.mapCats f)) }
  | some (.rnd r) => { n with router := some (.rnd { r with cats := r.cats.map f }) }

def newBasic (uid : Uid) : M NodeM := do
  let _e ← fresh       -- BaseNode.__init__ default exit
  let e2 ← fresh       -- node.update_default_exit(None) replaces it
  pure { uid := uid, kind := .basic, actions := [], router := none, dexitUid := e2, dexitDest := .none }

def newRouterNode (uid : Uid) (kind : NodeKind) (r : RouterM) : M NodeM := do
  let e ← fresh
  pure { uid := uid, kind := kind, actions := [], router := some r, dexitUid := e, dexitDest := .none }

def nodeUid (given : Str) : M Uid := if given.isEmpty then fresh else pure given

def parseNat? (s : Str) : Option Nat :=
  if s.isEmpty then none
  else if s.all Char.isDigit then some (s.foldl (fun a c => a * 10 + (c.toNat - '0'.toNat)) 0) else none

def NodeM.withAct (n : NodeM) : Option (Uid × Str) → NodeM
  | some a => { n with actions := n.actions ++ [a] }
  | none => n

def basicTypes : List Str :=
  ["send_message", "save_value", "add_to_group", "remove_from_group", "save_flow_result"].map String.toList

/-- `EnterFlowNode` -/
def enterNode (r : Row) : M NodeM := do
  let u ← nodeUid r.nodeUuid
  let au ← fresh
  let sw ← newSwitch "@child.run.status".toList none none
  let sw := { sw with dflt := { sw.dflt with name := "Expired".toList } }
  let sw ← addChoice sw "@child.run.status".toList "has_only_text".toList [some "completed".toList] "Complete".toList .none false
  let sw ← addChoice sw "@child.run.status".toList "has_only_text".toList [some "expired".toList] "Expired".toList .none true
  let n ← newRouterNode u .enter (.sw sw)
  pure { n with actions := [(au, r.ownAction.getD [])] }

/-- `CallWebhookNode` / `TransferAirtimeNode` -/
def hookNode (r : Row) : M NodeM := do
  let u ← nodeUid r.nodeUuid
  match r.resultKey with
  | none => fail (.exc "RapidProActionError: field key")
  | some key => do
    let web := r.type = "call_webhook".toList
    let operand := "@results.".toList ++ key ++ (if web then ".category".toList else [])
    let sw ← newSwitch operand none none
    let sw := { sw with dflt := { sw.dflt with name := "Failure".toList } }
    let sw ← addChoice sw operand (if web then "has_only_text".toList else "has_category".toList)
      [some "Success".toList] "Success".toList .none false
    let n ← newRouterNode u (if web then .webhook else .airtime) (.sw sw)
    let au ← fresh
    pure { n with actions := [(au, r.ownAction.getD [])] }

def waitNode (r : Row) : M NodeM := do
  let u ← nodeUid r.nodeUuid
  let wait ← if r.noResponse.isEmpty then pure 0 else match parseNat? r.noResponse with
    | some n => pure n
    | none => fail (.exc "ValueError: int(no_response)")
  let sw ← newSwitch "@input.text".toList (some r.saveName) (some wait)
  newRouterNode u .switch (.sw sw)

def splitValueNode (r : Row) : M NodeM := do
  let u ← nodeUid r.nodeUuid
  if r.expression.isEmpty then fail (.exc "ValueError: operand needed")
  else do
    let sw ← newSwitch r.expression (some r.saveName) none
    newRouterNode u .switch (.sw sw)

def splitGroupNode (r : Row) : M NodeM := do
  let u ← nodeUid r.nodeUuid
  let sw ← newSwitch "@contact.groups".toList (some r.saveName) none
  newRouterNode u .switch (.sw sw)

def splitRandomNode (r : Row) : M NodeM := do
  let u ← nodeUid r.nodeUuid
  newRouterNode u .random (.rnd { cats := [], resultName := some r.saveName })

def otherNode (r : Row) (act : Option (Uid × Str)) : M NodeM := do
  let u ← nodeUid r.nodeUuid
  let e ← fresh
  pure (NodeM.withAct { uid := u, kind := .basic, actions := [], router := none, dexitUid := e, dexitDest := .none } act)

def basicNode (r : Row) (act : Option (Uid × Str)) : M NodeM := do
  let u ← nodeUid r.nodeUuid
  let n ← newBasic u
  pure (n.withAct act)

/-- `_get_row_node` -/
def rowNode (r : Row) (act : Option (Uid × Str)) : M NodeM :=
  if r.nodeOk then
    if basicTypes.contains r.type then basicNode r act
    else if r.type = "start_new_flow".toList then enterNode r
    else if r.type = "call_webhook".toList ∨ r.type = "transfer_airtime".toList then hookNode r
    else if r.type = "wait_for_response".toList then waitNode r
    else if r.type = "split_by_value".toList then splitValueNode r
    else if r.type = "split_by_group".toList then splitGroupNode r
    else if r.type = "split_random".toList then splitRandomNode r
    else otherNode r act
  else fail (.exc "node constructor rejects its arguments")

def lower (s : Str) : Str := s.map Char.toLower

/-! ### node groups -/

/-- `has_loose_exits` -/
def hasLoose : Nat → Nat → M Bool
  | 0, _ => fail .fuel
  | fuel + 1, g => do
    match ← getGrp g with
    | .row nodes _ =>
      match nodes.getLast? with
      | none => pure false
      | some i => do pure (← getNode i).hasLoose
    | .noop parents router =>
      match router with
      | some i => do pure (← getNode i).hasLoose
      | none => parents.anyM fun (p, _) => hasLoose fuel p
    | .block children => children.anyM fun c => hasLoose fuel c

def connectNode (i : Nat) (d : Dest) : M Unit := do
  let n ← getNode i
  setNode i (n.connectLoose d)

/-- `connect_loose_exits` -/
def connectLoose : Nat → Nat → Dest → M Unit
  | 0, _, _ => fail .fuel
  | fuel + 1, g, d => do
    match ← getGrp g with
    | .row nodes _ =>
      match nodes.getLast? with
      | none => pure ()
      | some i => connectNode i d
    | .noop parents router =>
      match router with
      | some i => connectNode i d
      | none => parents.forM fun (p, _) => connectLoose fuel p d
    | .block children => children.forM fun c => connectLoose fuel c d

def updSwitch (i : Nat) (f : SwitchR → M SwitchR) : M Unit := do
  let n ← getNode i
  match n.router with
  | some (.sw r) => do
    let r' ← f r
    setNode i { n with router := some (.sw r') }
  | _ => fail (.exc "not a switch router")

def setCatDestByName (r : SwitchR) (name : Str) (d : Dest) : M SwitchR :=
  match r.catByName name with
  | none => fail (.exc "AttributeError: category not found")
  | some c => pure (r.setDest c.uid d)

def setDfltM (d : Dest) (r : SwitchR) : M SwitchR := pure (r.setDflt d)

/-- `add_exit` of a row group, unconditional edge: the default exit / default category -/
def rowExitBlank (i : Nat) (n : NodeM) (d : Dest) : M Unit :=
  match n.kind with
  | .basic => do
    let e ← fresh
    setNode i { n with dexitUid := e, dexitDest := d }
  | .enter => fail (.critical "EnterFlowNode does not support default exits.")
  | _ => updSwitch i (setDfltM d)

def rowExitEnter (i : Nat) (c : Cond) (d : Dest) : M Unit :=
  let v := lower c.value
  if v = "complete".toList ∨ v = "completed".toList then
    updSwitch i fun r => setCatDestByName r "Complete".toList d
  else if v = "expired".toList then updSwitch i (setDfltM d)
  else fail (.critical "Condition from start_new_flow must be 'Completed' or 'Expired'.")

def rowExitHook (i : Nat) (c : Cond) (d : Dest) : M Unit :=
  let v := lower c.value
  if v = "success".toList then updSwitch i fun r => setCatDestByName r "Success".toList d
  else if v = "failure".toList then updSwitch i (setDfltM d)
  else fail (.critical "Condition from call_webhook/transfer_airtime must be 'Success' or 'Failure'.")

def rowExitNoResp (i : Nat) (n : NodeM) (d : Dest) : M Unit :=
  match n.router with
  | some (.sw r) =>
    match r.noResp, r.wait with
    | some nr, some (_ + 1) => setNode i { n with router := some (.sw { r with noResp := some { nr with dest := d } }) }
    | _, _ => pure ()     -- a warning only: the edge is dropped
  | _ => pure ()

/-- a node created behind the last node of a row group joins the group -/
def attachRowNode (g : Nat) (nodes : List Nat) (rowType : Str) (rn : NodeM) : M Nat := do
  let j ← addNode rn
  setGrp g (.row (nodes ++ [j]) rowType)
  pure j

/-- a basic node with a conditional edge: a router node is created behind it -/
def routerBehind (g : Nat) (nodes : List Nat) (rowType : Str) (i : Nat) (n : NodeM)
    (operandV : Str) (waitT : Option Nat) : M (Nat × NodeM) := do
  let u ← fresh
  if operandV.isEmpty then fail (.exc "ValueError: operand needed")
  else do
    let sw ← newSwitch operandV none waitT
    let rn ← newRouterNode u .switch (.sw (sw.setDflt n.dexitDest))
    let j ← attachRowNode g nodes rowType rn
    let e ← fresh
    setNode i { n with dexitUid := e, dexitDest := .node u }
    pure (j, rn)

/-- the choice is added to the router of node `i` (whose current value is `n`) -/
def nodeAddChoice (i : Nat) (n : NodeM) (operandV ctype : Str) (args : List (Option Str)) (c : Cond)
    (d : Dest) : M Unit :=
  match n.router with
  | some (.sw r) => do
    let r' ← addChoice r operandV (if ctype.isEmpty then "has_any_word".toList else ctype) args c.name d false
    setNode i { n with router := some (.sw r') }
  | some (.rnd r) => do
    let r' ← randomAddChoice r (if c.name.isEmpty then c.value else c.name) d
    setNode i { n with router := some (.rnd r') }
  | none => fail (.exc "no router")

def operandOf (n : NodeM) : Str :=
  match n.router with
  | some (.sw r) => r.operand
  | _ => []

/-- a non-trivial condition: fill in defaults, create the router if need be, add the choice -/
def rowExitCond (g : Nat) (nodes : List Nat) (rowType : Str) (i : Nat) (n : NodeM) (d : Dest)
    (c : Cond) : M Unit := do
  let isGroup := rowType = "split_by_group".toList
  let isSplit := isGroup ∨ rowType = "split_by_value".toList
  let ctype := if isGroup then "has_group".toList else c.type
  let args : List (Option Str) := if isGroup then [none, some c.value] else [some c.value]
  let ow : Str × Option Nat :=
    if isSplit then (operandOf n, none)
    else if ¬ c.var.isEmpty then (c.var, none)
    else ("@input.text".toList, some 0)
  let jn ← (if n.kind = .basic then routerBehind g nodes rowType i n ow.1 ow.2 else pure (i, n))
  nodeAddChoice jn.1 jn.2 ow.1 ctype args c d

/-- `RowNodeGroup.add_exit` -/
def rowAddExit (g : Nat) (nodes : List Nat) (rowType : Str) (d : Dest) (c : Cond) : M Unit :=
  match nodes.getLast? with
  | none => fail (.exc "empty row group")
  | some i => do
    let n ← getNode i
    if c.blank ∧ n.kind ≠ .random then rowExitBlank i n d
    else if n.kind = .enter then rowExitEnter i c d
    else if n.kind = .webhook ∨ n.kind = .airtime then rowExitHook i c d
    else if n.kind = .switch ∧ lower c.value = "no response".toList then rowExitNoResp i n d
    else rowExitCond g nodes rowType i n d c

/-- exits of the router node of a `no_op` row -/
def noopRouterExit (j : Nat) (d : Dest) (c : Cond) : M Unit :=
  if c.value.isEmpty then updSwitch j (setDfltM d)
  else
    updSwitch j fun r =>
      addChoice r c.var (if c.type.isEmpty then "has_any_word".toList else c.type) [some c.value] c.name d false

def connectIfLoose (fuel : Nat) (d : Dest) (ch : Nat) : M Unit := do
  if ← hasLoose fuel ch then connectLoose fuel ch d else pure ()

/-- the router node of a `no_op` row is created when its first conditional exit is added -/
def attachNoopRouter (g : Nat) (parents : List (Nat × Cond)) (rn : NodeM) : M Nat := do
  let j ← addNode rn
  setGrp g (.noop parents (some j))
  pure j

/-- `add_exit` of any group -/
def addExit : Nat → Nat → Dest → Cond → M Unit
  | 0, _, _, _ => fail .fuel
  | fuel + 1, g, d, c => do
    match ← getGrp g with
    | .row nodes rowType => rowAddExit g nodes rowType d c
    | .block children =>
      if c.blank then do
        if ← hasLoose (fuel + 1) g then children.forM (connectIfLoose (fuel + 1) d)
        else fail (.critical "Block has no loose exit to connect to.")
      else fail (.critical "Cannot attach conditional edges to a block.")
    | .noop parents router =>
      match router with
      | none =>
        if c.blank then
          parents.forM fun (p, pc) => addExit fuel p d pc
        else if c.var.isEmpty then fail (.critical "Condition must have a variable.")
        else do
          let u ← fresh
          let sw ← newSwitch c.var none none
          let rn ← newRouterNode u .switch (.sw sw)
          let j ← attachNoopRouter g parents rn
          parents.forM fun (p, pc) => addExit fuel p (.node u) pc
          noopRouterExit j d c
      | some j => noopRouterExit j d c

/-! ### the parser -/

def fuelOf : M Nat := do
  let s ← get
  pure (2 * s.groups.size + 8)

def lookupRow (id : Str) : M (Option Nat) := do
  pure (((← get).rowIds.find? (·.1 = id)).map (·.2))

def mostRecentIn (groups : Array Grp) : List Nat → Option Nat
  | [] => none
  | b :: bs =>
    match groups[b]? with
    | some (.block children) =>
      match children.getLast? with
      | some c => some c
      | none => mostRecentIn groups bs
    | _ => mostRecentIn groups bs

/-- `most_recent_node_group` -/
def mostRecent : M (Option Nat) := do
  let s ← get
  pure (mostRecentIn s.groups s.stack)

/-- `_get_node_group_from_edge`: `none` = no edge -/
def groupOfEdge (e : Edge) : M (Option Nat) :=
  if e.from_ = "start".toList then pure none
  else if ¬ e.from_.isEmpty then do
    match ← lookupRow e.from_ with
    | some g => pure (some g)
    | none => fail (.critical "Edge from row_id which does not exist.")
  else mostRecent

def addRowEdge (d : Dest) (e : Edge) : M Unit := do
  match ← groupOfEdge e with
  | none => pure ()
  | some g => do addExit (← fuelOf) g d e.cond

def addRowId (rowId : Str) (g : Nat) : M Unit :=
  if rowId.isEmpty then pure () else modify fun s => { s with rowIds := (rowId, g) :: s.rowIds }

/-- `append_node_group` -/
def appendGroup (g : Nat) (rowId : Str) : M Unit := do
  let s ← get
  match s.stack with
  | [] => fail (.exc "empty stack")
  | b :: _ =>
    match s.groups[b]? with
    | some (.block children) => do
      setGrp b (.block (children ++ [g]))
      addRowId rowId g
    | _ => fail (.exc "stack entry is not a block")

/-- `entry_node` of a group -/
def entryNode : Nat → Nat → M Nat
  | 0, _ => fail .fuel
  | fuel + 1, g => do
    match ← getGrp g with
    | .row nodes _ => match nodes.head? with
      | some i => pure i
      | none => fail (.exc "empty row group")
    | .noop _ _ => fail (.critical "NotImplementedError: go_to not implemented to link to no_op row.")
    | .block children => match children.head? with
      | some c => entryNode fuel c
      | none => fail (.exc "IndexError: empty block has no entry node")

/-- one incoming edge of a `no_op` row -/
def noopEdge (g : Nat) (e : Edge) : M Unit := do
  match ← groupOfEdge e with
  | none => pure ()
  | some src => do
    match ← getGrp g with
    | .noop parents router => do
      setGrp g (.noop (parents ++ [(src, e.cond)]) router)
      match router with
      | some j => do
        let n ← getNode j
        addExit (← fuelOf) src (.node n.uid) e.cond
      | none => pure ()
    | _ => fail (.exc "noop group")

/-- `_parse_noop_row` -/
def parseNoop (edges : List Edge) (rowId : Str) : M Unit := do
  let g ← addGrp (.noop [] none)
  edges.forM (noopEdge g)
  appendGroup g rowId

def dropTrivial (es : List Edge) : List Edge :=
  (es.zipIdx.filter fun (e, i) => i = 0 || !e.trivial).map (·.1)

/-- one edge of a `go_to` row -/
def gotoEdge (ed : Edge × Str) : M Unit := do
  match ← lookupRow ed.2 with
  | none => fail (.exc "KeyError: go_to destination")
  | some g => do
    let i ← entryNode (← fuelOf) g
    let n ← getNode i
    addRowEdge (.node n.uid) ed.1

def parseGoto (r : Row) : M Unit :=
  let ds := if r.dests.length = 1 then List.replicate r.edges.length (r.dests.headD []) else r.dests
  if ds.length ≠ r.edges.length then fail (.critical "go_to: number of destinations")
  else (r.edges.zip ds).forM gotoEdge

/-- the group a merging row's edge comes from -/
def predGroup (e : Edge) : M (Option Nat) := if e.from_.isEmpty then mostRecent else lookupRow e.from_

/-- a row naming an existing node adds its action to that node -/
def mergeRow (r : Row) (ex : Nat) (act : Str) : M Unit :=
  match r.edges with
  | [e] =>
    if ¬ e.cond.blank then fail (.critical "merge: exactly one unconditional incoming edge")
    else do
      let pred ← predGroup e
      match pred with
      | none => fail (.exc "AttributeError: no predecessor group")
      | some pg => do
        let en ← entryNode (← fuelOf) pg
        if en ≠ ex then fail (.critical "merge: edge must come from a node with that name")
        else do
          let au ← fresh
          let n ← getNode ex
          setNode ex { n with actions := n.actions ++ [(au, act)] }
          if r.rowId.isEmpty then pure ()
          else do
            match ← lookupRow e.from_ with
            | some g0 => modify fun s => { s with rowIds := (r.rowId, g0) :: s.rowIds }
            | none => fail (.exc "KeyError: row_id_to_nodegroup[from]")
  | _ => fail (.critical "merge: exactly one unconditional incoming edge")

def rowAction (r : Row) : M (Option (Uid × Str)) :=
  match r.action with
  | some a => do let au ← fresh; pure (some (au, a))
  | none => pure none

/-- a row that creates its own node (and row group) -/
def newRow (r : Row) (nodeName : Str) : M Unit := do
  let act ← rowAction r
  let n ← rowNode r act
  let i ← addNode n
  r.edges.forM (addRowEdge (.node n.uid))
  let g ← addGrp (.row [i] r.type)
  appendGroup g r.rowId
  modify fun s => { s with names := (nodeName, i) :: s.names }

def actionRow (r : Row) : M Unit :=
  if ¬ r.actionOk then fail (.critical "RapidProActionError")
  else do
    let nodeName := if r.nodeUuid.isEmpty then r.nodeName else r.nodeUuid
    let s ← get
    let existing := if nodeName.isEmpty then none else (s.names.find? (·.1 = nodeName)).map (·.2)
    match existing, r.action with
    | some ex, some act => mergeRow r ex act
    | _, _ => newRow r nodeName

/-- `_parse_row` (include_if already decided by the event sequence) -/
def parseRow (r0 : Row) : M Unit :=
  let r := { r0 with edges := dropTrivial r0.edges }
  if r.type = "hard_exit".toList ∨ r.type = "loose_exit".toList then
    r.edges.forM (addRowEdge (if r.type = "hard_exit".toList then Dest.hard else Dest.none))
  else if r.type = "go_to".toList then parseGoto r
  else if r.type = "no_op".toList then parseNoop r.edges r.rowId
  else if r.type = "insert_as_block".toList then fail (.unsupported "insert_as_block row outside an insert event")
  else actionRow r

/-- events of the parser (Sugar.Ev), with the begin row's edges for `open`; an `insert_as_block`
row carries the events of the nested parser that instantiates the template -/
inductive Event where
  | row (r : Row)
  | openGroup (edges : List Edge) (starting : Bool)   -- push a block; begin row read like a no_op
  | closeGroup (rowId : Str)                          -- pop it, append under the begin row's id
  | insert (r : Row) (body : List Event)              -- `_parse_insert_as_block_row`
  deriving Repr

def openGroup (edges : List Edge) (starting : Bool) : M Unit := do
  let b ← addGrp (.block [])
  modify fun s => { s with stack := b :: s.stack }
  if starting then pure () else parseNoop (dropTrivial edges) []

def closeGroup (rowId : Str) : M Unit := do
  let s ← get
  match s.stack with
  | b :: rest@(_ :: _) => do
    set { s with stack := rest }
    appendGroup b rowId
  | _ => fail (.exc "pop from root")

/-- `get_node_group`: a nested FlowParser (its own stack, row ids and node names) over the same
objects -/
def insertEnter : M (St × Nat) := do
  let s ← get
  let b ← addGrp (.block [])
  modify fun s' => { s' with stack := [b], rowIds := [], names := [] }
  pure (s, b)

/-- `parse_as_block` returns the nested parser's root group; the row's edges lead to its entry -/
def insertLeave (s : St) (b : Nat) (r : Row) : M Unit := do
  let s2 ← get
  if s2.stack.length ≠ 1 then fail (.critical "Unexpected end of flow.")
  else do
    modify fun s' => { s' with stack := s.stack, rowIds := s.rowIds, names := s.names }
    let i ← entryNode (← fuelOf) b
    let n ← getNode i
    (dropTrivial r.edges).forM (addRowEdge (.node n.uid))
    appendGroup b r.rowId

mutual
def step : Event → M Unit
  | .row r => parseRow r
  | .openGroup edges starting => openGroup edges starting
  | .closeGroup rowId => closeGroup rowId
  | .insert r body => do
    let sb ← insertEnter
    steps body
    insertLeave sb.1 sb.2 r
def steps : List Event → M Unit
  | [] => pure ()
  | e :: es => do step e; steps es
end

/-- `add_nodes_to_flow`: emission order -/
def emit (s : St) : Nat → Nat → List Nat
  | 0, _ => []
  | fuel + 1, g =>
    match s.groups[g]? with
    | some (.row nodes _) => nodes
    | some (.noop _ (some j)) => [j]
    | some (.noop _ none) => []
    | some (.block children) => children.flatMap (emit s fuel)
    | none => []

structure Out where
  nodes : List NodeM
  deriving Repr

/-- the whole compilation of one flow from its event sequence -/
def compile (noArgs testTypes : List Str) (evs : List Event) : Except Err Out :=
  match (steps evs).run { noArgs := noArgs, testTypes := testTypes } with
  | .error e => .error e
  | .ok (_, s) =>
    if s.stack.length ≠ 1 then .error (.critical "Unexpected end of flow.")
    else .ok { nodes := (emit s (s.groups.size + 2) 0).filterMap fun i => s.nodes[i]? }

/-- `Exit.render`: the sentinel never reaches the document -/
def renderDest : Dest → Option Uid
  | .none => none
  | .hard => none
  | .node u => some u

end Rpft.Compile
