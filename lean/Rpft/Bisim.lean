/-
Deterministic observable systems, their traces for an arbitrary environment, and a
bisimulation *certificate checker* (`validCert`).  The search that proposes a certificate
(`findCert`) is not trusted; `Rpft.Props.C02.validCert_sound` proves that an accepted
certificate implies equal traces for every environment and every length.
Core Lean only.
-/
namespace Rpft.Bisim

/-- A deterministic system with observations: in state `s` the observation `obs s` is made,
then the environment answers with one of `arity s` choices. -/
structure Sys (S O : Type) where
  obs : S → O
  arity : S → Nat
  next : S → Nat → Option S

/-- one step under an environment answer; any natural number is a meaningful answer
(read modulo the arity); arity 0 means the path ends -/
def Sys.step {S O : Type} (A : Sys S O) (s : S) (c : Nat) : Option S :=
  if A.arity s = 0 then none else A.next s (c % A.arity s)

/-- the first `n` observations from `s` when the environment answers `env 0, env 1, …` -/
def run {S O : Type} (A : Sys S O) : Option S → (Nat → Nat) → Nat → List O
  | _, _, 0 => []
  | none, _, _ + 1 => []
  | some s, env, n + 1 => A.obs s :: run A (A.step s (env 0)) (fun k => env (k + 1)) n

variable {S T O : Type} [DecidableEq S] [DecidableEq T] [DecidableEq O]

def succOk (R : List (S × T)) : Option S → Option T → Bool
  | none, none => true
  | some p, some q => R.contains (p, q)
  | _, _ => false

/-- local condition on one pair of the certificate -/
def pairOk (A : Sys S O) (B : Sys T O) (R : List (S × T)) (pq : S × T) : Bool :=
  decide (A.obs pq.1 = B.obs pq.2) && decide (A.arity pq.1 = B.arity pq.2) &&
  (List.range (A.arity pq.1)).all fun c => succOk R (A.next pq.1 c) (B.next pq.2 c)

/-- `R` is a certificate for the start states `s0`, `t0` -/
def validCert (A : Sys S O) (B : Sys T O) (R : List (S × T)) (s0 : Option S) (t0 : Option T) : Bool :=
  succOk R s0 t0 && R.all (pairOk A B R)

/-! ### untrusted search for a certificate -/

inductive Found (S T O : Type) where
  | cert (R : List (S × T))
  /-- distinguishing choice sequence, with what each side shows at the end -/
  | diff (path : List Nat) (a : Option O) (b : Option O) (arA arB : Nat)
  | outOfFuel

/-- breadth-first exploration of the product; `todo` holds pairs with the path that reached them -/
def search (A : Sys S O) (B : Sys T O) :
    Nat → List ((S × T) × List Nat) → List (S × T) → Found S T O
  | 0, _, _ => .outOfFuel
  | _ + 1, [], seen => .cert seen
  | fuel + 1, ((p, q), path) :: rest, seen =>
    if seen.contains (p, q) then search A B fuel rest seen
    else if A.obs p ≠ B.obs q ∨ A.arity p ≠ B.arity q then
      .diff path.reverse (some (A.obs p)) (some (B.obs q)) (A.arity p) (B.arity q)
    else
      let succs := (List.range (A.arity p)).map fun c => (c, A.next p c, B.next q c)
      match succs.find? (fun (_, a, b) => a.isSome != b.isSome) with
      | some (c, a, b) =>
        .diff (c :: path).reverse (a.map A.obs) (b.map B.obs) 0 0
      | none =>
        let new := succs.filterMap fun (c, a, b) =>
          match a, b with
          | some a, some b => some ((a, b), c :: path)
          | _, _ => none
        search A B fuel (rest ++ new) ((p, q) :: seen)

def findCert (A : Sys S O) (B : Sys T O) (fuel : Nat) (s0 : Option S) (t0 : Option T) : Found S T O :=
  match s0, t0 with
  | none, none => .cert []
  | some s, some t => search A B fuel [((s, t), [])] []
  | a, b => .diff [] (a.map A.obs) (b.map B.obs) 0 0

end Rpft.Bisim
