/-
M9b — the CSV byte format (C14): Python's `csv.writer` / `csv.reader` as the project invokes them,
the text-mode line iteration the reader is fed from, and the UTF-8 layer of the file.

Anchors
* writer: tablib `Dataset.export("csv")` = `csv.writer(stream, delimiter=",")` + `writerow` per row
  (tablib/formats/_csv.py `export_stream_set`), i.e. the `excel` dialect: delimiter `,`,
  quotechar `"`, doublequote, QUOTE_MINIMAL, lineterminator `\r\n`, no escapechar.
  CPython `Modules/_csv.c`: `join_append_data` (which characters force quotes, quote doubling),
  `csv_writerow` (a record made of ONE EMPTY field is written as `""`).
  The line terminator and QUOTE_ALL are parameters because the harness (and other tools) also write
  LF-terminated / fully quoted files that the reader must understand.
* reader: `load_csv` (rpft/parsers/sheets.py) = `open(path, "r", encoding="utf-8", newline="")`
  handed to `tablib.import_set(…, format="csv")` = `csv.reader(file, delimiter=",")`.
  - `splitLines`: iterating a text file opened with `newline=""` — a line ends after `\n`, after
    `\r\n`, and after a `\r` that is not followed by `\n`; line ends are KEPT.
  - `processChar`: `parse_process_char` of `_csv.c`, state by state (the escapechar states cannot be
    reached: `escapechar=None`; `skipinitialspace=False`, `strict=False`).  `none` is the `EOL`
    pseudo character `Reader_iternext` feeds after every line.
  - `readerLoop`: `Reader_iternext` called until `StopIteration` (a record ends when a line leaves the
    automaton in START_RECORD; at end of input an unfinished record is still delivered).
  - `fieldLimit`: `csv.field_size_limit()` default — `parse_add_char` refuses the 131073rd character.
* bytes: `str.encode("utf-8")` / the strict UTF-8 decoder of the text layer = core Lean's
  `String.toUTF8` (= `List.utf8Encode`) / `ByteArray.utf8Decode?`.

Everything is checked against the real `csv` module / file iteration / codec on every run
(`harness/props/c14.py`, streams `csv_*`).  Core Lean only.
-/
import Rpft.Str
namespace Rpft.Csv
open Rpft

/-! ### writer (`csv.writer(...).writerow`) -/

def crlf : Str := ['\r', '\n']
def lf : Str := ['\n']

/-- `join_append_data`: the characters that set `*quoted = 1` under QUOTE_MINIMAL.  CPython 3.12:
the delimiter, the quotechar and the characters OF THE LINE TERMINATOR (so with
`lineterminator="\n"` a CR does NOT force quotes). -/
def special (lt : Str) (c : Char) : Bool := c == ',' || c == '"' || lt.contains c

def needsQuote (lt : Str) (f : Str) : Bool := f.any (special lt)

/-- copy phase of `join_append_data` with `doublequote`: every quotechar is written twice -/
def escape (f : Str) : Str := replace1 '"' ['"', '"'] f

/-- one field: `quoteAll` = QUOTE_ALL, otherwise QUOTE_MINIMAL -/
def writeField (lt : Str) (quoteAll : Bool) (f : Str) : Str :=
  if quoteAll || needsQuote lt f then '"' :: (escape f ++ ['"']) else f

/-- the record buffer after all `join_append` calls: a delimiter before every field but the first -/
def joinFields (lt : Str) (quoteAll : Bool) : List Str → Str
  | [] => []
  | [f] => writeField lt quoteAll f
  | f :: g :: fs => writeField lt quoteAll f ++ ',' :: joinFields lt quoteAll (g :: fs)

/-- `csv_writerow`: `if (self->num_fields > 0 && self->rec_len == 0)` the single empty field is
written again, quoted; then the line terminator. -/
def writeRow (lt : Str) (quoteAll : Bool) (r : List Str) : Str :=
  let buf := joinFields lt quoteAll r
  (if r.length > 0 && buf.isEmpty then ['"', '"'] else buf) ++ lt

def writeRows (lt : Str) (quoteAll : Bool) : List (List Str) → Str
  | [] => []
  | r :: rs => writeRow lt quoteAll r ++ writeRows lt quoteAll rs

/-- what tablib's `export("csv")` writes for the records `_package(dicts=False)` hands it -/
def writeCsv (records : List (List Str)) : Str := writeRows crlf false records

/-- `str.replace("\r", "")` -/
def dropCr (t : Str) : Str := t.filter (fun c => c != '\r')

/-- the text `RowDataSheet.export(filename, "csv")` writes (rowdatasheet.py): tablib's CSV text with
EVERY carriage return removed — the ones of the CRLF record ends and the ones inside cells. -/
def rdsExportCsv (records : List (List Str)) : Str := dropCr (writeCsv records)

/-! ### text-mode line iteration (`newline=""`) -/

/-- `cur` = the current line so far, REVERSED; `prevCR` = its last character is `\r`.
A line ends after `\n`; a `\r` ends it as soon as the next character is not `\n`. -/
def splitLinesAux : Str → Str → Bool → List Str
  | [], cur, _ => if cur.isEmpty then [] else [cur.reverse]
  | c :: t, cur, prevCR =>
    if c = '\n' then (c :: cur).reverse :: splitLinesAux t [] false
    else if prevCR then cur.reverse :: splitLinesAux t [c] (c == '\r')
    else splitLinesAux t (c :: cur) (c == '\r')

def splitLines (text : Str) : List Str := splitLinesAux text [] false

/-! ### reader (`csv.reader`) -/

inductive St
  | startRecord | startField | inField | inQuotedField | quoteInQuotedField | eatCrnl
deriving DecidableEq, Repr

inductive CsvErr
  | fieldLimit            -- "field larger than field limit (131072)"
  | newlineInUnquoted     -- "new-line character seen in unquoted field - do you need to open the file with newline=''?"
  | decode                -- UnicodeDecodeError (the file is not UTF-8)
deriving DecidableEq, Repr

/-- `ReaderObj`: `field` holds `self->field[0 .. field_len)` REVERSED, `fieldLen` is `field_len`. -/
structure Reader where
  state : St
  field : Str
  fieldLen : Nat
  fields : List Str
deriving DecidableEq, Repr

/-- `csv.field_size_limit()` (never changed by the project) -/
def fieldLimit : Nat := 131072

/-- `parse_reset` -/
def fresh : Reader := ⟨.startRecord, [], 0, []⟩

/-- `parse_save_field` -/
def saveField (r : Reader) : Reader :=
  { r with field := [], fieldLen := 0, fields := r.fields ++ [r.field.reverse] }

/-- `parse_add_char` -/
def addChar (limit : Nat) (r : Reader) (c : Char) : Except CsvErr Reader :=
  if r.fieldLen ≥ limit then .error .fieldLimit
  else .ok { r with field := c :: r.field, fieldLen := r.fieldLen + 1 }

def withState (s : St) : Except CsvErr Reader → Except CsvErr Reader
  | .ok r => .ok { r with state := s }
  | .error e => .error e

/-- `case START_FIELD:` (also reached by fall-through from START_RECORD) -/
def startFieldCase (limit : Nat) (r : Reader) (c : Option Char) : Except CsvErr Reader :=
  match c with
  | none => .ok { saveField r with state := .startRecord }
  | some ch =>
    if ch = '\n' ∨ ch = '\r' then .ok { saveField r with state := .eatCrnl }
    else if ch = '"' then .ok { r with state := .inQuotedField }
    else if ch = ',' then .ok (saveField r)
    else withState .inField (addChar limit r ch)

/-- `parse_process_char`; `none` = `EOL` -/
def processChar (limit : Nat) (r : Reader) (c : Option Char) : Except CsvErr Reader :=
  match r.state with
  | .startRecord =>
    match c with
    | none => .ok r                                             -- empty line: return []
    | some ch =>
      if ch = '\n' ∨ ch = '\r' then .ok { r with state := .eatCrnl }
      else startFieldCase limit { r with state := .startField } c
  | .startField => startFieldCase limit r c
  | .inField =>
    match c with
    | none => .ok { saveField r with state := .startRecord }
    | some ch =>
      if ch = '\n' ∨ ch = '\r' then .ok { saveField r with state := .eatCrnl }
      else if ch = ',' then .ok { saveField r with state := .startField }
      else addChar limit r ch
  | .inQuotedField =>
    match c with
    | none => .ok r
    | some ch =>
      if ch = '"' then .ok { r with state := .quoteInQuotedField }
      else addChar limit r ch
  | .quoteInQuotedField =>
    match c with
    | none => .ok { saveField r with state := .startRecord }
    | some ch =>
      if ch = '"' then withState .inQuotedField (addChar limit r ch)
      else if ch = ',' then .ok { saveField r with state := .startField }
      else if ch = '\n' ∨ ch = '\r' then .ok { saveField r with state := .eatCrnl }
      else withState .inField (addChar limit r ch)               -- not strict: `"a"b` reads `ab`
  | .eatCrnl =>
    match c with
    | none => .ok { r with state := .startRecord }
    | some ch => if ch = '\n' ∨ ch = '\r' then .ok r else .error .newlineInUnquoted

/-- the `while (linelen--)` loop over one line -/
def feedChars (limit : Nat) (r : Reader) : Str → Except CsvErr Reader
  | [] => .ok r
  | c :: t =>
    match processChar limit r (some c) with
    | .ok r' => feedChars limit r' t
    | .error e => .error e

/-- one line, then `EOL` -/
def feedLine (limit : Nat) (r : Reader) (line : Str) : Except CsvErr Reader :=
  match feedChars limit r line with
  | .ok r' => processChar limit r' none
  | .error e => .error e

/-- `list(csv.reader(lines))`: `Reader_iternext` until the input is exhausted.  `r` = the automaton
inside the current `do … while (state != START_RECORD)` loop, `acc` = the records delivered. -/
def readerLoop (limit : Nat) : List Str → Reader → List (List Str) → Except CsvErr (List (List Str))
  | [], r, acc =>
    if r.fieldLen != 0 || r.state == .inQuotedField then .ok (acc ++ [(saveField r).fields])
    else .ok acc
  | l :: ls, r, acc =>
    match feedLine limit r l with
    | .error e => .error e
    | .ok r' =>
      if r'.state = .startRecord then readerLoop limit ls fresh (acc ++ [r'.fields])
      else readerLoop limit ls r' acc

def parseCsvWith (limit : Nat) (text : Str) : Except CsvErr (List (List Str)) :=
  readerLoop limit (splitLines text) fresh []

/-- every record `csv.reader` yields for the text of a file opened with `newline=""` -/
def parseCsv (text : Str) : Except CsvErr (List (List Str)) := parseCsvWith fieldLimit text

/-! ### bytes -/

/-- `text.encode("utf-8")` -/
def encodeUtf8 (text : Str) : ByteArray := (String.ofList text).toUTF8

/-- the strict UTF-8 decoder of `open(…, encoding="utf-8")` (no BOM handling: U+FEFF stays a character) -/
def decodeUtf8 (b : ByteArray) : Option Str := b.utf8Decode?.map Array.toList

def parseCsvBytes (b : ByteArray) : Except CsvErr (List (List Str)) :=
  match decodeUtf8 b with
  | some text => parseCsv text
  | none => .error .decode

end Rpft.Csv
