/-
M10 — the action codec: how ONE action of a flow definition becomes the fields of a sheet row
and how a sheet row becomes an action again.

Export side (`toFields`): `Action.from_dict(d)` (loading never fails on the modelled domain
except through `generate_field_key`) and `Action.get_row_model_fields()` of every action class of
rapidpro/models/actions.py (82-115 add_contact_urn / call_webhook, 118-133 transfer_airtime,
233-266 send_msg, 297-302 set_contact_field, 339-343 set_contact_*, 374-421 group actions,
461-473 set_run_result, 499-504 enter_flow, 78-79 the pass-through types), followed by the
pydantic validation of `FlowRowModel(**fields)` in `BaseNode.initiate_row_models`
(nodes.py 160-174), which adds nothing action specific (row_id, edges, _nodeId, _ui_position).

Compile side (`ofFields`): `FlowParser._get_row_action(row)` (flowparser.py 485-549) inside the
`try … except RapidProActionError → LOGGER.critical` of `_parse_row` (754-757), then
`_get_row_node(row)` (559-672) whose node constructors create the action of start_new_flow /
call_webhook / transfer_airtime rows (nodes.py 436-460, 526-569, 627-660), then
`new_node.add_action(row_action)`; with `list_of_pairs_to_dict`, `string_to_int_or_float`,
`generate_field_key` (common.py 59-69).  The result is the node's action list as `render()`
shows it, up to the invented action uuid (and the invented uuid of a templating instance).

Core Lean only (compiled into the driver).  Quirks kept:
* export drops `all_urns`, `topic`, a field reference's `key` and `type`, `all_groups` and the
  group attributes query/status/system/count; every group NAME is written (`mainarg_groups`)
  but only the FIRST group's uuid (`obj_id`); the compile side (`_get_row_groups`) builds one
  group per listed name: the first with `obj_id`, every further NON-BLANK name without uuid
  (a blank further entry is skipped; an empty list is an IndexError as before);
* empty attachments are dropped on both sides, empty quick replies only on the compile side;
* exactly one attachment `image:`/`audio:`/`video:` goes to the column of that name, cut at 6
  characters (`attachment[6:]`), and comes back `strip()`ped and only if non-empty;
  two or more attachments, or another kind, use the generic `attachments` list;
* `scheme` `tel` is written as an empty `urn_scheme` and an empty `urn_scheme` reads as `tel`;
* an empty group / flow uuid is written as `""` and `""` reads as "none";
* `row.type.replace("set_contact_", "")` removes EVERY occurrence;
* an empty webhook method reads as POST; `headers == [""]` reads as no headers;
* `LOGGER.error` / `LOGGER.critical` do not stop the library: any record ≥ ERROR counts as
  an error here, as does any exception.
* group and sub-flow uuids travel through the container's dictionary (`_get_row_node` records
  `(name, obj_id)`; `record_global_uuids` records what the reference itself carries;
  `assign_global_uuids` overwrites the reference with the dictionary's uuid, inventing one where
  none was recorded): `ofFields` reports the uuid recorded for the name (`none` = invented) —
  `resolveGroups`: a further group named like the first one takes the first one's uuid.

Numbers (`transfer_airtime.amounts`): an `int` is printed by `str` and read by `int()`
(`Row.printInt` / `Row.pyInt`, ASCII digits; CPython's 4300-digit limit of `str(int)` is not
modelled); a `float` is carried as its `repr` text and never computed with — `float(s)` is
modelled as a syntax check (`pyFloatSyntax`) that keeps the text (abstract codec, as in `Schema`).
-/
import Rpft.Str
import Rpft.Schema
import Rpft.Campaign
namespace Rpft.ActionCodec
open Rpft

/-! ### constants (tied to the source by `Props.C04.tables_agree_actcodec`) -/

def tSendMsg : Str := "send_msg".toList
def tSetContactField : Str := "set_contact_field".toList
def tAddGroups : Str := "add_contact_groups".toList
def tRemoveGroups : Str := "remove_contact_groups".toList
def tSetRunResult : Str := "set_run_result".toList
def tEnterFlow : Str := "enter_flow".toList
def tCallWebhook : Str := "call_webhook".toList
def tTransferAirtime : Str := "transfer_airtime".toList
def tAddContactUrn : Str := "add_contact_urn".toList
def setContactPrefix : Str := "set_contact_".toList

def rSendMessage : Str := "send_message".toList
def rSaveValue : Str := "save_value".toList
def rAddToGroup : Str := "add_to_group".toList
def rRemoveFromGroup : Str := "remove_from_group".toList
def rSaveFlowResult : Str := "save_flow_result".toList
def rStartNewFlow : Str := "start_new_flow".toList
/-- row types for which `_get_row_action` returns `None` (the node carries the content) -/
def noActionRowTypes : List Str :=
  ["wait_for_response".toList, "split_by_value".toList, "split_by_group".toList,
   "split_random".toList, "start_new_flow".toList, "call_webhook".toList,
   "transfer_airtime".toList]

/-- action type ↦ row type written by `get_row_model_fields` (`self.type` = same word), in the
order of `action_map`; the types missing here are `passThroughTypes` -/
def exportRowType : List (Str × Str) :=
  [(tAddGroups, rAddToGroup), (tAddContactUrn, tAddContactUrn), (tCallWebhook, tCallWebhook),
   (tEnterFlow, rStartNewFlow), (tRemoveGroups, rRemoveFromGroup), (tSendMsg, rSendMessage),
   (setContactPrefix ++ "channel".toList, setContactPrefix ++ "channel".toList),
   (tSetContactField, rSaveValue),
   (setContactPrefix ++ "language".toList, setContactPrefix ++ "language".toList),
   (setContactPrefix ++ "name".toList, setContactPrefix ++ "name".toList),
   (setContactPrefix ++ "status".toList, setContactPrefix ++ "status".toList),
   (setContactPrefix ++ "timezone".toList, setContactPrefix ++ "timezone".toList),
   (tSetRunResult, rSaveFlowResult), (tTransferAirtime, tTransferAirtime)]

/-- the row-model keys each action class writes (sorted); everything else keeps its default -/
def exportKeys : List (Str × List Str) :=
  [("AddContactGroupAction".toList, ["mainarg_groups".toList, "obj_id".toList, "type".toList]),
   ("AddContactURNAction".toList, ["mainarg_value".toList, "type".toList, "urn_scheme".toList]),
   ("CallWebhookAction".toList, ["save_name".toList, "type".toList, "webhook".toList]),
   ("EnterFlowAction".toList, ["mainarg_flow_name".toList, "obj_id".toList, "type".toList]),
   ("RemoveContactGroupAction".toList, ["mainarg_groups".toList, "obj_id".toList, "type".toList]),
   ("SendMessageAction".toList,
     ["attachments".toList, "audio".toList, "choices".toList, "image".toList,
      "mainarg_message_text".toList, "type".toList, "video".toList, "wa_template".toList]),
   ("SetContactPropertyAction".toList, ["mainarg_value".toList, "type".toList]),
   ("SetContactFieldAction".toList, ["mainarg_value".toList, "save_name".toList, "type".toList]),
   ("SetRunResultAction".toList,
     ["mainarg_value".toList, "result_category".toList, "save_name".toList, "type".toList]),
   ("TransferAirtimeAction".toList, ["mainarg_dict".toList, "save_name".toList, "type".toList])]

/-- `_get_row_action`: row type ↦ type of the action it constructs, in the order of the
`if … elif` chain (then the `set_contact_` prefix branch, then `noActionRowTypes`) -/
def parseDispatch : List (Str × Str) :=
  [(rSendMessage, tSendMsg), (rSaveValue, tSetContactField), (rAddToGroup, tAddGroups),
   (tAddContactUrn, tAddContactUrn), (rRemoveFromGroup, tRemoveGroups),
   (rSaveFlowResult, tSetRunResult)]

/-- `_get_row_node`: row type ↦ type of the action its node constructor creates -/
def nodeDispatch : List (Str × Str) :=
  [(rStartNewFlow, tEnterFlow), (tCallWebhook, tCallWebhook), (tTransferAirtime, tTransferAirtime)]

def mediaKinds : List Str := ["image".toList, "audio".toList, "video".toList]
/-- `attachment[6:]` -/
def mediaCut : Nat := 6
def contactProps : List Str :=
  ["channel".toList, "language".toList, "name".toList, "status".toList, "timezone".toList]
def httpMethods : List Str :=
  ["CONNECT".toList, "DELETE".toList, "GET".toList, "HEAD".toList, "OPTIONS".toList,
   "POST".toList, "PUT".toList]
def defaultMethod : Str := "POST".toList
def defaultScheme : Str := "tel".toList
def maxFieldValue : Nat := 640
def maxResultValue : Nat := 640
/-- action types of `action_map` handled by the bare `DefaultRenderedAction`
(`get_row_model_fields` returns the CLASS `NotImplementedError`) -/
def passThroughTypes : List Str :=
  ["add_input_labels".toList, "call_classifier".toList, "call_resthook".toList,
   "open_ticket".toList, "play_audio".toList, "say_msg".toList, "send_broadcast".toList,
   "send_email".toList, "start_session".toList]

/-! ### actions -/

inductive ContactProp where
  | channel | language | name | status | timezone
  deriving Repr, DecidableEq

def ContactProp.str : ContactProp → Str
  | .channel => "channel".toList
  | .language => "language".toList
  | .name => "name".toList
  | .status => "status".toList
  | .timezone => "timezone".toList

def ContactProp.ofStr (s : Str) : Option ContactProp :=
  if s = "channel".toList then some .channel
  else if s = "language".toList then some .language
  else if s = "name".toList then some .name
  else if s = "status".toList then some .status
  else if s = "timezone".toList then some .timezone
  else none

/-- a group reference inside an action; `attrs` = "carries any of query / status / system /
count" (rendered by `Group.render` when present, never exported) -/
structure GroupRef where
  name : Str
  uuid : Option Str := none
  attrs : Bool := false
  deriving Repr, DecidableEq

/-- `templating` of a send_msg (the WhatsApp template reference; its own `uuid` is invented) -/
structure Templating where
  name : Str
  templateUuid : Str
  vars : List Str := []
  deriving Repr, DecidableEq

/-- a JSON number -/
inductive Amount where
  | int (i : Int)
  | float (repr : Str)
  deriving Repr, DecidableEq

/-- content of an action (everything `render()` shows except invented uuids).  Absent optional
keys read as `false` / `""` / `none`. -/
inductive Act where
  | sendMsg (text : Str) (attachments quickReplies : List Str) (allUrns : Bool) (topic : Str)
      (templating : Option Templating)
  | setContactField (name key fieldType value : Str)
  /-- set_contact_language / name / status / timezone (and channel given as text, which is
  what a set_contact_channel ROW compiles to) -/
  | setContactProp (p : ContactProp) (value : Str)
  /-- set_contact_channel as RapidPro writes it: the value is a channel reference (object) -/
  | setContactChannel (uuid name : Str)
  | addGroups (groups : List GroupRef)
  | removeGroups (groups : List GroupRef) (allGroups : Bool)
  | setRunResult (name value category : Str)
  | enterFlow (flowName : Str) (flowUuid : Option Str)
  | callWebhook (resultName url method body : Str) (headers : List (Str × Str))
  | transferAirtime (resultName : Str) (amounts : List (Str × Amount))
  | addContactUrn (path scheme : Str)
  /-- one of `passThroughTypes` (or any other word): no sheet form -/
  | unsupported (type : Str)
  deriving Repr, DecidableEq

def Act.typeStr : Act → Str
  | .sendMsg .. => tSendMsg
  | .setContactField .. => tSetContactField
  | .setContactProp p _ => setContactPrefix ++ p.str
  | .setContactChannel .. => setContactPrefix ++ ContactProp.channel.str
  | .addGroups _ => tAddGroups
  | .removeGroups .. => tRemoveGroups
  | .setRunResult .. => tSetRunResult
  | .enterFlow .. => tEnterFlow
  | .callWebhook .. => tCallWebhook
  | .transferAirtime .. => tTransferAirtime
  | .addContactUrn .. => tAddContactUrn
  | .unsupported t => t

/-! ### row fields -/

/-- element of an untyped `list` field (`mainarg_dict`, `webhook.headers`) -/
inductive Item where
  | atom (s : Str)
  | list (xs : List Str)
  deriving Repr, DecidableEq

structure WaTemplate where
  name : Str := []
  uuid : Str := []
  vars : List Str := []
  deriving Repr, DecidableEq

structure Webhook where
  url : Str := []
  method : Str := []
  headers : List Item := []
  body : Str := []
  deriving Repr, DecidableEq

/-- the action-related fields of `FlowRowModel` (flowrowmodel.py 78-112), with its defaults -/
structure RowFields where
  type : Str
  mainargMessageText : Str := []
  mainargValue : Str := []
  mainargGroups : List Str := []
  mainargDict : List Item := []
  mainargFlowName : Str := []
  waTemplate : WaTemplate := {}
  webhook : Webhook := {}
  choices : List Str := []
  saveName : Str := []
  resultCategory : Str := []
  image : Str := []
  audio : Str := []
  video : Str := []
  attachments : List Str := []
  urnScheme : Str := []
  objId : Str := []
  deriving Repr, DecidableEq

inductive Err where
  -- export side
  | exportIndex          -- IndexError: `[group.uuid …][0]` of an empty group list
  | exportValidation     -- pydantic: `mainarg_value` must be a str (channel reference)
  | exportNotImplemented -- `FlowRowModel(**NotImplementedError)`: TypeError
  -- compile side
  | emptyText            -- send_msg action requires non-empty text
  | valueTooLong         -- contact field / flow result longer than 640
  | emptyValue           -- set_contact_<p>: value must be non-empty
  | unknownProp          -- LOGGER.error: Unknown operation set_contact_<p>
  | unknownRowType       -- LOGGER.error: Row type … not implemented
  | noGroup              -- IndexError: `row.mainarg_groups[0]`
  | keyTooLong           -- generate_field_key: longer than 36
  | keyNoLetter          -- generate_field_key: no letter
  | noFlowName           -- EnterFlowNode: Either an action or a flow_name …
  | notPairs             -- list_of_pairs_to_dict: Value must be a list of pairs
  | badMethod            -- Method for WebhookNode must a valid HTTP method
  | noUrlOrName          -- Either an action or a url/result_name …
  | notNumeric           -- airtime_amounts: Current values must be numerical
  | noAmounts            -- Either an action or a amounts/result_name …
  deriving Repr, DecidableEq

deriving instance DecidableEq for Except

/-! ### CPython pieces -/

/-- `str.replace(needle, "")`: left to right, non-overlapping; `skip` = characters of the
current match still to drop. -/
def removeAll (needle : Str) : Nat → Str → Str
  | _, [] => []
  | skip + 1, _ :: s => removeAll needle skip s
  | 0, c :: s =>
    if needle ≠ [] ∧ needle.isPrefixOf (c :: s) then removeAll needle (needle.length - 1) s
    else c :: removeAll needle 0 s

/-- `dict[k] = v`: an existing key keeps its position and takes the new value -/
def dictSet {V : Type} : List (Str × V) → Str → V → List (Str × V)
  | [], k, v => [(k, v)]
  | (k', v') :: d, k, v => if k' = k then (k, v) :: d else (k', v') :: dictSet d k v

/-- `{k: v for k, v in pairs}` -/
def dictOfPairs {V : Type} (l : List (Str × V)) : List (Str × V) :=
  l.foldl (fun d kv => dictSet d kv.1 kv.2) []

def Item.asPair : Item → Option (Str × Str)
  | .list [k, v] => some (k, v)
  | _ => none

/-- flowrowmodel.py `list_of_pairs_to_dict` on a list -/
def pairsToDict (items : List Item) : Except Err (List (Str × Str)) :=
  if items = [Item.atom []] then .ok []
  else match items.mapM Item.asPair with
    | some ps => .ok (dictOfPairs ps)
    | none => .error .notPairs

/-- flowrowmodel.py `dict_to_list_of_pairs` on a dict -/
def dictToPairs (d : List (Str × Str)) : List Item := d.map fun kv => .list [kv.1, kv.2]

/-- states of the scanner for the decimal part of `float(s)` -/
inductive FSt where
  | start | int | intU | dot0 | dot | frac | fracU | exp | expS | expD | expU | bad
  deriving Repr, DecidableEq

def FSt.step (st : FSt) (c : Char) : FSt :=
  let d := Campaign.isDigit c
  let e := c = 'e' ∨ c = 'E'
  match st with
  | .start => if d then .int else if c = '.' then .dot0 else .bad
  | .int => if d then .int else if c = '_' then .intU else if c = '.' then .dot else if e then .exp else .bad
  | .intU => if d then .int else .bad
  | .dot0 => if d then .frac else .bad
  | .dot => if d then .frac else if e then .exp else .bad
  | .frac => if d then .frac else if c = '_' then .fracU else if e then .exp else .bad
  | .fracU => if d then .frac else .bad
  | .exp => if d then .expD else if c = '+' ∨ c = '-' then .expS else .bad
  | .expS => if d then .expD else .bad
  | .expD => if d then .expD else if c = '_' then .expU else .bad
  | .expU => if d then .expD else .bad
  | .bad => .bad

def FSt.accepting : FSt → Bool
  | .int | .dot | .frac | .expD => true
  | _ => false

/-- does `float(s)` succeed? (ASCII: surrounding whitespace, sign, `inf` / `infinity` / `nan`
in any case, decimal literal with single underscores between digits) -/
def pyFloatSyntax (s : Str) : Bool :=
  let t := strip pyWs s
  let u := match t with
    | '-' :: r => r
    | '+' :: r => r
    | r => r
  let w := u.map Campaign.lowerAscii
  w = "inf".toList || w = "infinity".toList || w = "nan".toList ||
    (u.foldl FSt.step .start).accepting

/-- `str(v)` of an amount -/
def Amount.print : Amount → Str
  | .int i => Row.printInt i
  | .float r => r

/-- flowparser.py `string_to_int_or_float`; `none` = ValueError -/
def parseAmount (s : Str) : Option Amount :=
  match Row.pyInt s with
  | some i => some (.int i)
  | none => if pyFloatSyntax s then some (.float s) else none

/-- `generate_field_key` used as a check (CallWebhookNode / TransferAirtimeNode build the
router operand from it; ContactFieldReference the key) -/
def fieldKey (name : Str) : Except Err Str :=
  match Campaign.generateFieldKey name with
  | .ok k => .ok k
  | .error .keyTooLong => .error .keyTooLong
  | .error _ => .error .keyNoLetter

/-! ### export: action → row fields -/

def groupFields (rowType : Str) (groups : List GroupRef) : Except Err RowFields :=
  -- `[group.uuid for group in self.groups][0] or ""`
  match groups with
  | [] => .error .exportIndex
  | g :: _ =>
    .ok { type := rowType, mainargGroups := groups.map (·.name), objId := g.uuid.getD [] }

/-- which media column a lone attachment goes to -/
def mediaKindOf (a : Str) : Option Str :=
  mediaKinds.find? fun t => (t ++ [':']).isPrefixOf a

/-- `WhatsAppMessageTemplating.to_whats_app_templating_dict` (only `if self.templating`) -/
def templToWa : Option Templating → WaTemplate
  | some t => { name := t.name, uuid := t.templateUuid, vars := t.vars }
  | none => {}

/-- `if row.wa_template.name: … from_whats_app_templating_model(row.wa_template)` -/
def waToTempl (w : WaTemplate) : Option Templating :=
  if w.name ≠ [] then some { name := w.name, templateUuid := w.uuid, vars := w.vars }
  else none

/-- send_msg: (media kind, payload after the cut, generic attachment list).  Only a LONE
attachment can use a media column ("we cannot encode their order" otherwise). -/
def splitMedia (atts : List Str) : Option Str × Str × List Str :=
  match atts with
  | [a] =>
    match mediaKindOf a with
    | some t => (some t, a.drop mediaCut, [])
    | none => (none, [], atts)
  | _ => (none, [], atts)

def toFields : Act → Except Err RowFields
  | .sendMsg text atts qrs _ _ templ =>
    -- `_get_attachments()`: non-empty ones
    let m := splitMedia (atts.filter (· ≠ []))
    let col := fun (t : Str) => if m.1 = some t then m.2.1 else []
    .ok { type := rSendMessage, mainargMessageText := text, choices := qrs,
          image := col "image".toList, audio := col "audio".toList, video := col "video".toList,
          attachments := m.2.2,
          waTemplate := templToWa templ }
  | .setContactField name key _ value =>
    -- loading the action (`Action.from_dict` → `ContactFieldReference(**field)`):
    -- `self.key = key or generate_field_key(name)` raises for a key-less reference with a bad name
    match (if key = [] then fieldKey name else .ok key) with
    | .error e => .error e
    | .ok _ => .ok { type := rSaveValue, mainargValue := value, saveName := name }
  | .setContactProp p value =>
    .ok { type := setContactPrefix ++ p.str, mainargValue := value }
  | .setContactChannel _ _ => .error .exportValidation
  | .addGroups groups => groupFields rAddToGroup groups
  | .removeGroups groups _ => groupFields rRemoveFromGroup groups
  | .setRunResult name value category =>
    -- `if self.category:` else the field keeps its default ""
    .ok { type := rSaveFlowResult, mainargValue := value, saveName := name,
          resultCategory := category }
  | .enterFlow name uuid =>
    .ok { type := rStartNewFlow, mainargFlowName := name, objId := uuid.getD [] }
  | .callWebhook resultName url method body headers =>
    .ok { type := tCallWebhook, saveName := resultName,
          webhook := { body := body, url := url, headers := dictToPairs headers, method := method } }
  | .transferAirtime resultName amounts =>
    .ok { type := tTransferAirtime, saveName := resultName,
          mainargDict := amounts.map fun kv => .list [kv.1, kv.2.print] }
  | .addContactUrn path scheme =>
    .ok { type := tAddContactUrn, mainargValue := path,
          urnScheme := if scheme ≠ defaultScheme then scheme else [] }
  | .unsupported _ => .error .exportNotImplemented

/-! ### compile: row fields → the node's actions -/

/-- `_get_or_create_group(name, uuid)` -/
def groupOf (name objId : Str) : GroupRef :=
  { name := name, uuid := if objId = [] then none else some objId, attrs := false }

/-- `UUIDDict._record_uuid` over the groups of the action, in order (`record_global_uuids`): the
dictionary keeps, per name, the first non-empty uuid recorded under it; `none` = the entry has no
uuid (one is invented later).  The ValueError of two different uuids under one name cannot arise
from a row: only the first group carries one. -/
def recordedUuid : List GroupRef → Str → Option Str
  | [], _ => none
  | g :: rest, name =>
    if g.name = name ∧ g.uuid ≠ none ∧ g.uuid ≠ some [] then g.uuid else recordedUuid rest name

/-- `assign_global_uuids`: every reference takes the dictionary's uuid for its name -/
def resolveGroups (gs : List GroupRef) : List GroupRef :=
  gs.map fun g => { g with uuid := recordedUuid gs g.name }

/-- `_get_row_groups(row)`: `names[0]` with the row's `obj_id` (IndexError on an empty list), then
`_get_or_create_group(name)` for every further name `if name` -/
def rowGroups (names : List Str) (objId : Str) : Except Err (List GroupRef) :=
  match names with
  | [] => .error .noGroup
  | n :: rest => .ok (groupOf n objId :: (rest.filter (· ≠ [])).map fun m => groupOf m [])

/-- the branch of `_get_row_action` a row type takes (the `if … elif` chain, in source order) -/
inductive RowKind where
  | sendMessage | saveValue | addToGroup | addContactUrn | removeFromGroup | saveFlowResult
  | setContact | noAction | unknown
  deriving Repr, DecidableEq

def classify (t : Str) : RowKind :=
  if t = rSendMessage then .sendMessage
  else if t = rSaveValue then .saveValue
  else if t = rAddToGroup then .addToGroup
  else if t = tAddContactUrn then .addContactUrn
  else if t = rRemoveFromGroup then .removeFromGroup
  else if t = rSaveFlowResult then .saveFlowResult
  else if setContactPrefix.isPrefixOf t then .setContact
  else if t ∈ noActionRowTypes then .noAction
  else .unknown

/-- the branch of `_get_row_node` that creates an action -/
inductive NodeKind where
  | enterFlow | callWebhook | transferAirtime | other
  deriving Repr, DecidableEq

def classifyNode (t : Str) : NodeKind :=
  if t = rStartNewFlow then .enterFlow
  else if t = tCallWebhook then .callWebhook
  else if t = tTransferAirtime then .transferAirtime
  else .other

/-- the media columns of a send_message row as attachments: `strip()`ped, non-empty ones -/
def mediaAttachments (r : RowFields) : List Str :=
  (mediaKinds.zip [r.image, r.audio, r.video]).filterMap fun (t, a) =>
    let a := strip pyWs a
    if a ≠ [] then some (t ++ ':' :: a) else none

/-- `_get_row_action`, with the `except RapidProActionError` of `_parse_row` -/
def rowAction (r : RowFields) : Except Err (Option Act) :=
  match classify r.type with
  | .sendMessage =>
    let templ := waToTempl r.waTemplate
    if r.mainargMessageText = [] then .error .emptyText
    else
      let atts := mediaAttachments r ++ r.attachments
      let qrs := r.choices.filter (· ≠ [])
      -- render(): `_get_attachments()` again; all_urns / topic are never set
      .ok (some (.sendMsg r.mainargMessageText (atts.filter (· ≠ [])) qrs false [] templ))
  | .saveValue =>
    match fieldKey r.saveName with
    | .error e => .error e
    | .ok key =>
      if r.mainargValue.length > maxFieldValue then .error .valueTooLong
      else .ok (some (.setContactField r.saveName key [] r.mainargValue))
  | .addToGroup =>
    match rowGroups r.mainargGroups r.objId with
    | .error e => .error e
    | .ok gs => .ok (some (.addGroups (resolveGroups gs)))
  | .addContactUrn =>
    .ok (some (.addContactUrn r.mainargValue (if r.urnScheme ≠ [] then r.urnScheme else defaultScheme)))
  | .removeFromGroup =>
    match rowGroups r.mainargGroups r.objId with
    | .error e => .error e
    | .ok gs => .ok (some (.removeGroups (resolveGroups gs) false))
  | .saveFlowResult =>
    if r.mainargValue.length > maxResultValue then .error .valueTooLong
    else .ok (some (.setRunResult r.saveName r.mainargValue r.resultCategory))
  | .setContact =>
    -- `property = row.type.replace("set_contact_", "")`
    match ContactProp.ofStr (removeAll setContactPrefix 0 r.type) with
    | none => .error .unknownProp
    | some p =>
      if r.mainargValue = [] then .error .emptyValue else .ok (some (.setContactProp p r.mainargValue))
  | .noAction => .ok none
  | .unknown => .error .unknownRowType

/-- the action a node constructor of `_get_row_node` creates (start_new_flow, call_webhook,
transfer_airtime); `none` for every other row type -/
def rowNodeAction (r : RowFields) : Except Err (Option Act) :=
  match classifyNode r.type with
  | .enterFlow =>
    if r.mainargFlowName = [] then .error .noFlowName
    else .ok (some (.enterFlow r.mainargFlowName (if r.objId = [] then none else some r.objId)))
  | .callWebhook =>
    match pairsToDict r.webhook.headers with
    | .error e => .error e
    | .ok headers =>
      let method := if r.webhook.method ≠ [] then r.webhook.method else defaultMethod
      if method ∉ httpMethods then .error .badMethod
      else if r.webhook.url = [] ∨ r.saveName = [] then .error .noUrlOrName
      else match fieldKey r.saveName with
        | .error e => .error e
        | .ok _ => .ok (some (.callWebhook r.saveName r.webhook.url method r.webhook.body headers))
  | .transferAirtime =>
    match pairsToDict r.mainargDict with
    | .error e => .error e
    | .ok amounts =>
      match amounts.mapM (fun kv => (parseAmount kv.2).map fun a => (kv.1, a)) with
      | none => .error .notNumeric
      | some amounts =>
        if amounts = [] ∨ r.saveName = [] then .error .noAmounts
        else match fieldKey r.saveName with
          | .error e => .error e
          | .ok _ => .ok (some (.transferAirtime r.saveName amounts))
  | .other => .ok none

/-- `_parse_row` for one row on a fresh node: the node's rendered action list -/
def ofFields (r : RowFields) : Except Err (List Act) :=
  match rowAction r with
  | .error e => .error e
  | .ok a =>
    match rowNodeAction r with
    | .error e => .error e
    | .ok n => .ok (n.toList ++ a.toList)

/-- export, then compile -/
def roundTrip (a : Act) : Except Err (List Act) :=
  match toFields a with
  | .error e => .error e
  | .ok r => ofFields r

/-! ### what the sheet format can express -/

def GroupRef.Expressible (g : GroupRef) : Prop := g.uuid ≠ some [] ∧ g.attrs = false

instance (g : GroupRef) : Decidable g.Expressible := by unfold GroupRef.Expressible; exact inferInstance

/-- a lone media attachment survives the media column: the payload is trimmed and non-empty -/
def MediaOk (atts : List Str) : Prop :=
  match atts with
  | [a] => mediaKindOf a ≠ none → strip pyWs (a.drop mediaCut) = a.drop mediaCut ∧ a.drop mediaCut ≠ []
  | _ => True

instance (atts : List Str) : Decidable (MediaOk atts) := by
  unfold MediaOk; split <;> exact inferInstance

def KeysNodup {V : Type} (d : List (Str × V)) : Prop := (d.map (·.1)).Nodup

def Amount.WellFormed : Amount → Prop
  | .int _ => True
  | .float r => Row.pyInt r = none ∧ pyFloatSyntax r = true

instance (a : Amount) : Decidable a.WellFormed := by
  cases a <;> (unfold Amount.WellFormed; exact inferInstance)

instance {V : Type} (d : List (Str × V)) : Decidable (KeysNodup d) := by
  unfold KeysNodup; exact inferInstance

/-- a group after the first, up to its uuid: a name (a blank entry of the list cell is skipped)
and no attributes -/
def GroupRef.TailOk (g : GroupRef) : Prop := g.name ≠ [] ∧ g.attrs = false

instance (g : GroupRef) : Decidable g.TailOk := by unfold GroupRef.TailOk; exact inferInstance

/-- the uuid a group after the first comes back with: `obj_id` is ONE cell and carries the first
group's uuid only; the others are referenced by name and resolved through the container's
dictionary — the first group's uuid under the first group's name, none (invented) otherwise -/
def tailUuid (g0 g : GroupRef) : Option Str := if g.name = g0.name then g0.uuid else none

/-- at least one group; the first with a proper (absent or non-empty) uuid and no attributes; the
others named, without attributes — their uuids are NOT constrained: the round trip holds up to them -/
def GroupsOkModTailUuids : List GroupRef → Prop
  | [] => False
  | g0 :: rest => g0.Expressible ∧ ∀ g ∈ rest, g.TailOk

/-- the uuids of the groups after the first are the ones the sheet gives back -/
def TailUuidsKept : List GroupRef → Prop
  | [] => True
  | g0 :: rest => ∀ g ∈ rest, g.uuid = tailUuid g0 g

/-- the group lists that come back intact -/
def GroupsOk (gs : List GroupRef) : Prop := GroupsOkModTailUuids gs ∧ TailUuidsKept gs

instance (gs : List GroupRef) : Decidable (GroupsOkModTailUuids gs) := by
  unfold GroupsOkModTailUuids; split <;> exact inferInstance

instance (gs : List GroupRef) : Decidable (TailUuidsKept gs) := by
  unfold TailUuidsKept; split <;> exact inferInstance

instance (gs : List GroupRef) : Decidable (GroupsOk gs) := by unfold GroupsOk; exact inferInstance

/-- forget what `obj_id` cannot carry: the uuids of the groups after the first -/
def forgetTail : List GroupRef → List GroupRef
  | [] => []
  | g0 :: rest => g0 :: rest.map fun g => { g with uuid := none }

def Act.forgetTailUuids : Act → Act
  | .addGroups gs => .addGroups (forgetTail gs)
  | .removeGroups gs all => .removeGroups (forgetTail gs) all
  | a => a

def TemplOk : Option Templating → Prop
  | some t => t.name ≠ []
  | none => True

instance (t : Option Templating) : Decidable (TemplOk t) := by
  unfold TemplOk; split <;> exact inferInstance

/-- `generate_field_key(name)` succeeds: at most 36 characters, at least one letter -/
def KeyOk (name : Str) : Prop := (fieldKey name).toBool = true

instance (n : Str) : Decidable (KeyOk n) := by unfold KeyOk; exact inferInstance

/-- The actions a sheet row can carry, clause by clause. -/
def Expressible : Act → Prop
  | .sendMsg text atts qrs allUrns topic templ =>
    text ≠ [] ∧ [] ∉ atts ∧ [] ∉ qrs ∧ MediaOk atts ∧ allUrns = false ∧ topic = [] ∧ TemplOk templ
  | .setContactField name key fieldType value =>
    fieldKey name = .ok key ∧ fieldType = [] ∧ value.length ≤ maxFieldValue
  | .setContactProp _ value => value ≠ []
  | .setContactChannel _ _ => False
  | .addGroups groups => GroupsOk groups
  | .removeGroups groups allGroups => GroupsOk groups ∧ allGroups = false
  | .setRunResult _ value _ => value.length ≤ maxResultValue
  | .enterFlow name uuid => name ≠ [] ∧ uuid ≠ some []
  | .callWebhook resultName url method _ headers =>
    url ≠ [] ∧ resultName ≠ [] ∧ method ∈ httpMethods ∧ KeyOk resultName ∧ KeysNodup headers
  | .transferAirtime resultName amounts =>
    amounts ≠ [] ∧ resultName ≠ [] ∧ KeyOk resultName ∧ KeysNodup amounts ∧
    ∀ kv ∈ amounts, kv.2.WellFormed
  | .addContactUrn _ scheme => scheme ≠ []
  | .unsupported _ => False

instance : DecidablePred Expressible := fun a => by
  cases a <;> (unfold Expressible; exact inferInstance)

/-- `Expressible` up to the uuids of the groups after the first of a group action (everything
else as in `Expressible`) -/
def ExpressibleModTailUuids : Act → Prop
  | .addGroups groups => GroupsOkModTailUuids groups
  | .removeGroups groups allGroups => GroupsOkModTailUuids groups ∧ allGroups = false
  | a => Expressible a

instance : DecidablePred ExpressibleModTailUuids := fun a => by
  cases a <;> (unfold ExpressibleModTailUuids; exact inferInstance)

/-- the part of `Expressible` that is about those uuids -/
def Act.TailUuidsKept : Act → Prop
  | .addGroups groups => ActionCodec.TailUuidsKept groups
  | .removeGroups groups _ => ActionCodec.TailUuidsKept groups
  | _ => True

instance : DecidablePred Act.TailUuidsKept := fun a => by
  cases a <;> (unfold Act.TailUuidsKept; exact inferInstance)

end Rpft.ActionCodec
