/-
M3 — RapidPro flow abstract syntax, the structural closure predicate of C01, and the
labelled transition system whose traces are "what happens for a sequence of contact
inputs" (C02–C04).  Core Lean only (imported by the driver).
-/
import Rpft.Str
namespace Rpft.Flow
open Rpft

abbrev Id := Str

structure Exit where
  uuid : Id
  dest : Option Id
  deriving Repr, DecidableEq

structure Category where
  uuid : Id
  name : Str
  exitUuid : Id
  deriving Repr, DecidableEq

structure Case where
  uuid : Id
  type : Str
  args : List Str
  catUuid : Id
  deriving Repr, DecidableEq

/-- `wait`: `none` = router does not wait; `some none` = waits for a message, no timeout;
`some (some (secs, cat))` = waits with a timeout that selects category `cat`. -/
inductive Router where
  | switch (operand : Str) (cases : List Case) (cats : List Category) (defaultCat : Id)
      (wait : Option (Option (Nat × Id))) (resultName : Option Str)
  | random (cats : List Category) (resultName : Option Str)
  deriving Repr, DecidableEq

/-- An action: its own uuid and its observable content (canonical text of every field
except invented identifiers; produced by the harness canonicaliser). -/
structure Action where
  uuid : Id
  obs : Str
  deriving Repr, DecidableEq

structure Node where
  uuid : Id
  actions : List Action
  router : Option Router
  exits : List Exit
  deriving Repr, DecidableEq

structure Flow where
  uuid : Id
  name : Str
  nodes : List Node
  deriving Repr, DecidableEq

def Router.cats : Router → List Category
  | .switch _ _ cats _ _ _ => cats
  | .random cats _ => cats

def Router.cases : Router → List Case
  | .switch _ cases _ _ _ _ => cases
  | .random _ _ => []

/-! ### C01: structural closure -/

def Router.defaultCats : Router → List Id
  | .switch _ _ _ d _ _ => [d]
  | .random _ _ => []

/-- the no-response category named by a timeout, if any -/
def Router.timeoutCats : Router → List Id
  | .switch _ _ _ _ (some (some (_, t))) _ => [t]
  | _ => []

def Router.isRandom : Router → Bool
  | .random _ _ => true
  | _ => false

/-- closure of one router against the exits of its node -/
def RouterClosed (r : Router) (exits : List Exit) : Prop :=
  -- category ↔ exit is a bijection
  ((r.cats.map (·.exitUuid)).Nodup ∧ (exits.map (·.uuid)).Nodup ∧
    (∀ c ∈ r.cats, c.exitUuid ∈ exits.map (·.uuid)) ∧
    (∀ e ∈ exits, e.uuid ∈ r.cats.map (·.exitUuid))) ∧
  -- categories are identifiable, and every case names one of them
  (r.cats.map (·.uuid)).Nodup ∧
  (∀ k ∈ r.cases, k.catUuid ∈ r.cats.map (·.uuid)) ∧
  -- default / no-response categories exist
  (∀ d ∈ r.defaultCats, d ∈ r.cats.map (·.uuid)) ∧
  (∀ t ∈ r.timeoutCats, t ∈ r.cats.map (·.uuid))

def NodeClosed (nodeIds : List Id) (n : Node) : Prop :=
  (∀ e ∈ n.exits, ∀ d ∈ e.dest.toList, d ∈ nodeIds) ∧
  (∀ r ∈ n.router.toList, RouterClosed r n.exits) ∧
  (n.router = none → n.exits.length = 1)

/-- every identifier of a flow document, in document order -/
def Router.ids : Router → List Id
  | r => r.cats.map (·.uuid) ++ r.cases.map (·.uuid)

def Node.ids (n : Node) : List Id :=
  n.uuid :: (n.actions.map (·.uuid) ++ n.exits.map (·.uuid) ++
    (match n.router with | none => [] | some r => r.ids))

def Flow.ids (f : Flow) : List Id := f.nodes.flatMap Node.ids

/-- **The statement of C01 for one flow** (structural part): node identifiers unique;
every exit leads nowhere or to a node of the same flow; categories and exits of a router
node correspond one to one; every case names a category of its own router; default and
no-response categories exist; a router-less node has exactly one exit; every identifier is
used for one object only. -/
def Closed (f : Flow) : Prop :=
  (f.nodes.map (·.uuid)).Nodup ∧
  (∀ n ∈ f.nodes, NodeClosed (f.nodes.map (·.uuid)) n) ∧
  f.ids.Nodup

instance (r : Router) (exits : List Exit) : Decidable (RouterClosed r exits) := by
  unfold RouterClosed; exact inferInstance

instance (ids : List Id) (n : Node) : Decidable (NodeClosed ids n) := by
  unfold NodeClosed; exact inferInstance

instance (f : Flow) : Decidable (Closed f) := by
  unfold Closed; exact inferInstance

/-- the decision procedure run on every real compiler output -/
def closedB (f : Flow) : Bool := decide (Closed f)

/-! ### labelled transition system -/

/-- which parts of a router are observable (what "same decision" means per property) -/
structure ObsLevel where
  catNames : Bool
  resultName : Bool
  deriving Repr, DecidableEq

/-- the observation made at a decision -/
structure RouterObs where
  kind : Str
  operand : Str
  tests : List (Str × List Str)
  caseCats : List Str      -- category name selected by each test, when observed
  otherCats : List Str     -- default (and no-response) category names / random buckets
  wait : Option (Option Nat)
  resultName : Option Str
  deriving Repr, DecidableEq

inductive Obs where
  | act (a : Str)
  | ask (r : RouterObs)
  | diverge
  deriving Repr, DecidableEq

def catName (cats : List Category) (u : Id) : Str :=
  match cats.find? (·.uuid = u) with
  | some c => c.name
  | none => "?".toList

/-- arguments of a test as observed: the group uuid of a `has_group` test is an invented
identifier (C06 covers it), only the group name is behaviour -/
def testArgs (k : Case) : List Str :=
  if k.type = "has_group".toList then k.args.drop 1 else k.args

def routerObs (lvl : ObsLevel) : Router → RouterObs
  | .switch operand cases cats d w rn =>
    { kind := "switch".toList
      operand := operand
      tests := cases.map fun k => (k.type, testArgs k)
      caseCats := if lvl.catNames then cases.map (fun k => catName cats k.catUuid) else []
      otherCats :=
        if lvl.catNames then
          catName cats d :: (match w with
            | some (some (_, t)) => [catName cats t]
            | _ => [])
        else []
      wait := w.map (fun o => o.map (·.1))
      resultName := if lvl.resultName then rn else none }
  | .random cats rn =>
    { kind := "random".toList
      operand := []
      tests := []
      caseCats := []
      otherCats := if lvl.catNames then cats.map (·.name) else []
      wait := none
      resultName := if lvl.resultName then rn else none }

/-- number of ways the environment can answer a decision -/
def routerArity : Router → Nat
  | .switch _ cases _ _ w _ =>
    cases.length + 1 + (match w with | some (some _) => 1 | _ => 0)
  | .random cats _ => cats.length

/-- category selected by choice `c` -/
def routerChoice : Router → Nat → Option Id
  | .switch _ cases _ d w _, c =>
    if c < cases.length then (cases[c]?).map (·.catUuid)
    else if c = cases.length then some d
    else match w with
      | some (some (_, t)) => some t
      | _ => none
  | .random cats _, c => (cats[c]?).map (·.uuid)

/-- position in a flow: node index and number of actions already performed -/
structure Pos where
  node : Nat
  k : Nat
  deriving Repr, DecidableEq

inductive St where
  | at (p : Pos)
  | div
  deriving Repr, DecidableEq

def findNode (f : Flow) (u : Id) : Option Nat :=
  f.nodes.findIdx? (·.uuid = u)

/-- follow a destination, skipping nodes that do nothing (no action, no router);
a cycle of such nodes is divergence -/
def enter (f : Flow) : Nat → Option Id → Option St
  | _, none => none
  | 0, some _ => some .div
  | fuel + 1, some u =>
    match findNode f u with
    | none => none          -- dangling reference: the path ends (Closed excludes it)
    | some i =>
      match f.nodes[i]? with
      | none => none
      | some n =>
        if n.actions.isEmpty && n.router.isNone then
          enter f fuel ((n.exits.head?).bind (·.dest))
        else some (.at ⟨i, 0⟩)

def exitDest (n : Node) (exitUuid : Id) : Option Id :=
  (n.exits.find? (·.uuid = exitUuid)).bind (·.dest)

def catDest (n : Node) (r : Router) (catUuid : Id) : Option Id :=
  (r.cats.find? (·.uuid = catUuid)).bind (fun c => exitDest n c.exitUuid)

def fuelOf (f : Flow) : Nat := f.nodes.length + 1

def obsAt (lvl : ObsLevel) (f : Flow) : St → Obs
  | .div => .diverge
  | .at p =>
    match f.nodes[p.node]? with
    | none => .diverge
    | some n =>
      match n.actions[p.k]? with
      | some a => .act a.obs
      | none =>
        match n.router with
        | some r => .ask (routerObs lvl r)
        | none => .diverge

def arityAt (f : Flow) : St → Nat
  | .div => 0
  | .at p =>
    match f.nodes[p.node]? with
    | none => 0
    | some n =>
      match n.actions[p.k]? with
      | some _ => 1
      | none =>
        match n.router with
        | some r => routerArity r
        | none => 0

def nextAt (f : Flow) : St → Nat → Option St
  | .div, _ => none
  | .at p, c =>
    match f.nodes[p.node]? with
    | none => none
    | some n =>
      match n.actions[p.k]? with
      | some _ =>
        if p.k + 1 < n.actions.length then some (.at ⟨p.node, p.k + 1⟩)
        else match n.router with
          | some _ => some (.at ⟨p.node, p.k + 1⟩)
          | none => enter f (fuelOf f) ((n.exits.head?).bind (·.dest))
      | none =>
        match n.router with
        | some r => enter f (fuelOf f) ((routerChoice r c).bind (catDest n r))
        | none => none

/-- where a contact starts: the first node -/
def start (f : Flow) : Option St :=
  enter f (fuelOf f) ((f.nodes.head?).map (·.uuid))

end Rpft.Flow
